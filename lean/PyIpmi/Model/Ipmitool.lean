/-
  Model.Ipmitool — executable model of pyipmi/interfaces/ipmitool.py (class `Ipmitool`).
  Mirrors the Python statement by statement: the command-string builders (string
  concatenation of %-formats, in source order, with Python's exceptions), `_parse_output`
  (line loop, the five regular expressions as string predicates, hex accumulation,
  `int(…, 16)`), `send_and_receive_raw`'s mapping of (output, return code) to bytes / exception.

  Strings are lists of code points.  Every string literal comes from Gen/Ipmitool.lean
  (regenerated from the source on every run); the control flow here is tied to the source by
  the translator's shape check and by the correspondence run.

  Four places exist in two variants (DESIGN §2.4): as shipped in the pinned tree, and as
  intended (fixes/C19-1..3, C19-5); the correspondence probes the real code to pick the variant.
-/
import PyIpmi.Base.Outcome
import PyIpmi.Gen.Ipmitool
import PyIpmi.Spec.IpmitoolPrint
namespace PyIpmi.Model.Ipmitool
open PyIpmi PyIpmi.Gen.Ipmitool

abbrev Str := List Nat

structure Variant where
  /-- user / password pass through the helper that puts a backslash before `\ " $` and back-quote -/
  escape : Bool
  /-- `if self._cipher is not None:` instead of `if self._cipher:` -/
  cipherNotNone : Bool
  /-- `elif len(target.routing) == 2:` — the depth-1 case really is "nothing to add" -/
  depth1 : Bool
  /-- `rmcp_ping` passes `-L <level>` unless the level is ADMINISTRATOR (ipmitool's own default) and
  `-C <cipher>` when a cipher is configured (fixes/C19-5); as shipped it passes neither -/
  pingOpts : Bool
  deriving DecidableEq, Repr

def asShipped : Variant := ⟨false, false, false, false⟩
def intended : Variant := ⟨true, true, true, true⟩

/-! ### numbers as Python prints them -/

def hexDigit (n : Nat) : Nat := if n < 10 then 48 + n else 87 + n

def hexAux : Nat → Nat → Str → Str
  | 0, _, acc => acc
  | fuel + 1, n, acc =>
    if n < 16 then hexDigit n :: acc else hexAux fuel (n / 16) (hexDigit (n % 16) :: acc)

/-- `'%x' % n` -/
def hexL (n : Nat) : Str := hexAux (n + 1) n []

/-- `'%02x' % n` -/
def hex02 (n : Nat) : Str := if n < 16 then [48, hexDigit n] else hexL n

def decAux : Nat → Nat → Str → Str
  | 0, _, acc => acc
  | fuel + 1, n, acc =>
    if n < 10 then (48 + n) :: acc else decAux fuel (n / 10) ((48 + n % 10) :: acc)

/-- `'%d' % n`, `'{:d}'.format(n)`, `'%s' % n` for a non-negative int -/
def dec (n : Nat) : Str := decAux (n + 1) n []

/-- `fmt % s` for a string argument (the translator admits only `%s` here) -/
def fmtS (f : Fmt) (s : Str) : Str := f.pre ++ s ++ f.post

/-- `fmt % n` for a non-negative integer argument -/
def fmtN (f : Fmt) (n : Nat) : Str :=
  f.pre ++ (match f.conv with | .s => dec n | .d => dec n | .x02 => hex02 n) ++ f.post

/-! ### command builders -/

/-- the repair of C19-1: inside "…" the shell still interprets `\ " $` and back-quote -/
def esc : Str → Str
  | [] => []
  | c :: cs => if c = 92 ∨ c = 34 ∨ c = 36 ∨ c = 96 then 92 :: c :: esc cs else c :: esc cs

def cred (v : Variant) (s : Str) : Str := if v.escape then esc s else s

structure Hop where
  rqSa : Nat
  rsSa : Nat
  chan : Nat
  deriving DecidableEq, Repr

/-- `pyipmi.Target`: `routing` (None or a list) and `ipmb_address` (0 stands for None / 0: falsy) -/
inductive Target where
  | none
  | mk (routing : Option (List Hop)) (addr : Nat)
  deriving DecidableEq, Repr

/-- `_build_ipmitool_target` -/
def buildTarget (v : Variant) : Target → Outcome Str
  | .none => .ok []
  | .mk (some r) a =>
    let unsupported : Outcome Str :=
      -- `raise RuntimeError('… %s' % target)`; `Target.__str__` formats ipmb_address with %x
      if a = 0 then .pyError "TypeError" else .pyError "RuntimeError"
    match r with
    | [_] => if v.depth1 then .ok [] else unsupported
    | [h0, h1] => .ok (fmtN t2 h1.rsSa ++ fmtN b2 h0.chan)
    | [h0, h1, h2] => .ok (fmtN tt3 h1.rsSa ++ fmtN bb3 h0.chan ++ fmtN t3 h2.rsSa ++ fmtN b3 h1.chan)
    | _ => unsupported
  | .mk Option.none a => .ok (if a = 0 then [] else fmtN tAddr a)

/-- `' '.join(...)` -/
def joinWith (sep : Str) : List Str → Str
  | [] => []
  | [w] => w
  | w :: ws => w ++ sep ++ joinWith sep ws

/-- `_build_ipmitool_raw_data` -/
def buildRaw (lun netfn : Nat) (raw : List Nat) : Str :=
  fmtN rawHead lun ++ joinWith rawSep ((netfn :: raw).map (fmtN rawByte))

/-- the value handed to `Ipmitool(cipher=…)`: None, or its `'%s'` text and its truth value -/
inductive Cipher where
  | none
  | val (truthy : Bool) (text : Str)
  deriving DecidableEq, Repr

inductive Auth where
  | none
  | password (user pass : Str)
  | other (authType : Nat)
  deriving DecidableEq, Repr

structure Lan where
  path : Str
  iface : Str
  host : Str
  port : Str
  level : Nat
  cipher : Cipher
  auth : Auth
  deriving DecidableEq, Repr

def lookupLevel (l : Nat) : Outcome Str :=
  match levels.lookup l with
  | some n => .ok n
  | Option.none => .pyError "KeyError"

def cipherPart (v : Variant) : Cipher → Str
  | .none => []
  | .val truthy text => if truthy ∨ v.cipherNotNone then fmtS fCipher text else []

def authPart (v : Variant) : Auth → Outcome Str
  | .none => .ok noAuth
  | .password u p => .ok (fmtS fUser (cred v u) ++ fmtS fPass (cred v p))
  | .other _ => .pyError "RuntimeError"

/-- `_build_ipmitool_cmd` -/
def buildLan (v : Variant) (c : Lan) (t : Target) (lun netfn : Nat) (raw : List Nat) : Outcome Str := do
  let lv ← lookupLevel c.level
  let au ← authPart v c.auth
  let tg ← buildTarget v t
  pure (c.path ++ fmtS fIface c.iface ++ fmtS fHost c.host ++ fmtS fPort c.port ++ fmtS fLevel lv
        ++ cipherPart v c.cipher ++ au ++ tg ++ buildRaw lun netfn raw ++ redirect)

/-- `_build_open_ipmitool_cmd` -/
def buildOpen (v : Variant) (path iface : Str) (t : Target) (lun netfn : Nat) (raw : List Nat) :
    Outcome Str := do
  let tg ← buildTarget v t
  pure (path ++ fmtS oIface iface ++ tg ++ buildRaw lun netfn raw ++ openRedirect)

def serialPiece (path iface port baud : Str) : SPiece → Str
  | .lit s => s
  | .path => path
  | .iface => iface
  | .port => port
  | .baud => baud

/-- `_build_serial_ipmitool_cmd` -/
def buildSerial (v : Variant) (path iface port baud : Str) (t : Target) (lun netfn : Nat)
    (raw : List Nat) : Outcome Str := do
  let tg ← buildTarget v t
  pure ((serial.flatMap (serialPiece path iface port baud)) ++ tg ++ buildRaw lun netfn raw
        ++ serialRedirect)

/-- the `if … elif …` on the authentication type in `rmcp_ping` (no `else`: any other type adds nothing) -/
def pingAuthPart (v : Variant) : Auth → Str
  | .none => pNoAuth
  | .password u p => fmtS pUser (cred v u) ++ fmtS pPass (cred v p)
  | .other _ => []

/-- `if self._session.priv_level != Session.PRIV_LEVEL_ADMINISTRATOR: cmd += self._build_ipmitool_priv_level(…)`
(intended); no such statement as shipped -/
def pingLevelPart (v : Variant) (level : Nat) : Outcome Str :=
  if v.pingOpts then
    (if level = levelAdmin then .ok []
     else match lookupLevel level with
       | .ok lv => .ok (fmtS fLevel lv)
       | e => e)
  else .ok []

/-- `if self._cipher is not None: cmd += ' -C %s' % self._cipher` (intended); no such statement as shipped -/
def pingCipherPart (v : Variant) : Cipher → Str
  | .none => []
  | .val _ text => if v.pingOpts then fmtS pCipher text else []

/-- the command of `rmcp_ping` -/
def buildPing (v : Variant) (path iface host port : Str) (level : Nat) (c : Cipher) (a : Auth) :
    Outcome Str :=
  if iface = pingRefused then .pyError "RuntimeError"
  else match pingLevelPart v level with
    | .ok lv => .ok (path ++ fmtS pIface iface ++ fmtS pHost host ++ fmtS pPort port
        ++ lv ++ pingCipherPart v c ++ pingAuthPart v a ++ pTail)
    | e => e

/-! ### output parser -/

/-- `str.split(sep)` for a one-character separator -/
def splitOn (sep : Nat) : Str → List Str
  | [] => [[]]
  | c :: cs =>
    if c = sep then [] :: splitOn sep cs
    else match splitOn sep cs with
      | h :: t => (c :: h) :: t
      | [] => [[c]]

def isPrefix : Str → Str → Bool
  | [], _ => true
  | _ :: _, [] => false
  | a :: as, b :: bs => a == b && isPrefix as bs

def stripPrefix : Str → Str → Option Str
  | [], s => some s
  | _ :: _, [] => Option.none
  | a :: as, b :: bs => if a = b then stripPrefix as bs else Option.none

/-- does some suffix of the string satisfy `p`? -/
def anySuffix (p : Str → Bool) : Str → Bool
  | [] => p []
  | c :: cs => p (c :: cs) || anySuffix p cs

/-- the value of `p` on the LAST suffix on which it is defined (a greedy `.*` in front) -/
def lastSuffix {α : Type} (p : Str → Option α) : Str → Option α
  | [] => p []
  | c :: cs =>
    match lastSuffix p cs with
    | some r => some r
    | Option.none => p (c :: cs)

/-- `needle in hay`, `re.match('.*needle.*', hay)` (no newline inside a line) -/
def hasInfix (needle hay : Str) : Bool := anySuffix (isPrefix needle) hay

def isLowerHex (c : Nat) : Bool := (48 ≤ c && c ≤ 57) || (97 ≤ c && c ≤ 102)

/-- `[0-9a-f]+` followed by the literal `tail` (which does not start with a hex digit, so the
greedy run is the only candidate); returns the run -/
def hexRunThen (tail : Str) (s : Str) : Option Str :=
  let h := s.takeWhile isLowerHex
  if h ≠ [] ∧ isPrefix tail (s.dropWhile isLowerHex) then some h else Option.none

/-- does `cmd=0x[0-9a-f]+\)` match at the start of `t`? -/
def toProbe (t : Str) : Bool :=
  match stripPrefix toKey t with
  | Option.none => false
  | some u => (hexRunThen toTail u).isSome

/-- `re_timeout.match(line)` -/
def reTimeout (line : Str) : Bool :=
  match stripPrefix toHead line with
  | Option.none => false
  | some rest => anySuffix toProbe rest

/-- does `rsp=(0x[0-9a-f]+)\)` match at the start of `t`?  the group if so -/
def ccProbe (t : Str) : Option Str :=
  match stripPrefix ccKey t with
  | Option.none => Option.none
  | some u =>
    match stripPrefix ccGroupHead u with
    | Option.none => Option.none
    | some w => (hexRunThen ccTail w).map (fun h => ccGroupHead ++ h)

/-- `re_completion_code.match(line)` → `group(1)` -/
def reCc (line : Str) : Option Str :=
  match stripPrefix ccHead line with
  | Option.none => Option.none
  | some rest => lastSuffix ccProbe rest

/-- `str.isspace` on one character (what `str.strip()` and `int()` remove) -/
def isPySpace (c : Nat) : Bool :=
  (9 ≤ c && c ≤ 13) || (28 ≤ c && c ≤ 32) || c == 0x85 || c == 0xa0 || c == 0x1680
  || (0x2000 ≤ c && c ≤ 0x200a) || c == 0x2028 || c == 0x2029 || c == 0x202f || c == 0x205f
  || c == 0x3000

/-- what `int(s, 16)` skips around the number: CPython maps non-ASCII spaces to `' '` first and then
applies the C `isspace`, which — unlike `str.isspace` — does not contain the separators 1Ch..1Fh
(`int('1f\x1c', 16)` is a ValueError although `'1f\x1c'.strip() == '1f'`) -/
def isIntSpace (c : Nat) : Bool := isPySpace c && !(28 ≤ c && c ≤ 31)

def lstrip (s : Str) : Str := s.dropWhile isPySpace
def rstrip (s : Str) : Str := (s.reverse.dropWhile isPySpace).reverse
/-- `str.strip()` -/
def strip (s : Str) : Str := rstrip (lstrip s)

def hexVal (c : Nat) : Option Nat :=
  if 48 ≤ c ∧ c ≤ 57 then some (c - 48)
  else if 97 ≤ c ∧ c ≤ 102 then some (c - 87)
  else if 65 ≤ c ∧ c ≤ 70 then some (c - 55)
  else Option.none

/-- digits of `int(…, 16)`: hex digits, single underscores between digits.
`prevDigit`: the previous character was a digit (so an underscore may follow / the string may end) -/
def hexDigitsVal : Str → Nat → Bool → Option Nat
  | [], acc, prevDigit => if prevDigit then some acc else Option.none
  | c :: cs, acc, prevDigit =>
    if c = 95 then (if prevDigit then hexDigitsVal cs acc false else Option.none)
    else match hexVal c with
      | some d => hexDigitsVal cs (16 * acc + d) true
      | Option.none => Option.none

/-- `int(s, 16)` for ASCII input: surrounding white space, sign, `0x`/`0X` prefix (one underscore
may follow the prefix), digits.  `none` is ValueError. -/
def pyIntHex (s : Str) : Option Int :=
  let t := ((s.dropWhile isIntSpace).reverse.dropWhile isIntSpace).reverse
  let (neg, t) := match t with
    | 43 :: r => (false, r)
    | 45 :: r => (true, r)
    | _ => (false, t)
  let t := match t with
    | 48 :: 120 :: 95 :: r => r
    | 48 :: 88 :: 95 :: r => r
    | 48 :: 120 :: r => r
    | 48 :: 88 :: r => r
    | _ => t
  match t with
  | [] => Option.none
  | 95 :: _ => Option.none
  | _ => (hexDigitsVal t 0 false).map (fun n => if neg then - (Int.ofNat n) else Int.ofNat n)

/-- the `for line in …` loop of `_parse_output`: (cc, hexstr) or the exception raised -/
def parseLines : List Str → Str → Outcome (Option Int × Str)
  | [], acc => .ok (Option.none, acc)
  | l :: ls, acc =>
    if hasInfix skipWord l then parseLines ls acc
    else if reTimeout l then .timeoutError
    else if hasInfix reEstablish l then .pyError "IpmiConnectionError"
    else match reCc l with
      | some g =>
        match pyIntHex g with
        | some v => .ok (some v, acc)
        | Option.none => .pyError "ValueError"
      | Option.none =>
        if hasInfix reOpen l then .pyError "RuntimeError"
        else if hasInfix reLongPw l then .pyError "IpmiLongPasswordError"
        else parseLines ls (acc ++ strip (l.filter (· ≠ dropChar)) ++ [joinChar])

def toByte (v : Int) : Option Nat := if 0 ≤ v ∧ v < 256 then some v.toNat else Option.none

/-- all results, or `none` as soon as one element fails -/
def mapOpt {α β : Type} (f : α → Option β) : List α → Option (List β)
  | [] => some []
  | a :: as =>
    match f a with
    | Option.none => Option.none
    | some b =>
      match mapOpt f as with
      | Option.none => Option.none
      | some bs => some (b :: bs)

/-- `array('B', [int(value, 16) for value in hexstr.split(' ')])` -/
def parseHexStr (h : Str) : Outcome (List Nat) :=
  match mapOpt pyIntHex (splitOn splitChar h) with
  | Option.none => .pyError "ValueError"
  | some vs =>
    match mapOpt toByte vs with
    | Option.none => .pyError "OverflowError"
    | some bs => .ok bs

/-- `_parse_output` -/
def parseOutput (output : Str) : Outcome (Option Int × Option (List Nat)) := do
  let (cc, hexstr) ← parseLines (splitOn lineSep output) []
  let h := strip hexstr
  if h = [] then pure (cc, Option.none)
  else do
    let bs ← parseHexStr h
    pure (cc, some bs)

/-- `send_and_receive_raw` after the command has run: `output` on the pipe, exit status `rc` -/
def recv (output : Str) (rc : Nat) : Outcome (List Nat) :=
  if rc = 127 then .pyError "RuntimeError"   -- `_run_ipmitool`: command not found
  else do
    let (cc, rsp) ← parseOutput output
    match cc with
    | some c =>
      match toByte c with
      | some b => pure [b]
      | Option.none => .pyError "OverflowError"
    | Option.none =>
      if rc ≠ 0 then .pyError "RuntimeError"
      else pure (0 :: rsp.getD [])

/-! ### the Python objects read as the specification's notions (used to state the theorems and
by the driver; nothing above depends on it) -/

/-- `pyipmi.Target` → who is addressed: no target object / no routing and a falsy address is the
BMC itself; an explicit routing takes precedence over `ipmb_address` -/
def Target.toSpec : Target → Spec.Ipmitool.Target
  | .none => .bmc
  | .mk Option.none a => .addr a
  | .mk (some hs) _ => .routed (hs.map fun h => ⟨h.rqSa, h.rsSa, h.chan⟩)

/-- a cipher was configured iff the constructor argument is not None -/
def Cipher.toSpec : Cipher → Option Str
  | .none => Option.none
  | .val _ t => some t

/-- credentials of the session; `none` for authentication types the back-end does not know -/
def Auth.toSpec : Auth → Option (Option (Str × Str))
  | .none => some Option.none
  | .password u p => some (some (u, p))
  | .other _ => Option.none

def Lan.toSpec (c : Lan) : Option Spec.Ipmitool.Lan :=
  c.auth.toSpec.map fun cr => ⟨c.path, c.iface, c.host, c.port, c.level, c.cipher.toSpec, cr⟩

end PyIpmi.Model.Ipmitool
