/-
  Model of the device path: `Fru.get_fru_inventory` (pyipmi/fru.py) on top of `read_fru_data`.

  `read_fru_data(offset, count)` is modelled by its contract – it returns exactly the stored bytes
  `store[offset : offset+count]`, or fails with the device's completion code when the range leaves
  the storage (the transfer loop itself, request sizes, retries: property C10).  What is mirrored
  here is everything above it:
  * the common header is read as 8 bytes at offset 0 and parsed by `InventoryCommonHeader`
  * `_read_fru_area`: 5 bytes at the area offset, then `data[1] * 8` bytes, handed to the area
    class as a `bytes` object (so BCD+ text decodes on this path even as shipped); a length byte 0
    reads nothing and yields an attribute-less area object – as shipped (`devLenLax`); repaired:
    `if count == 0: raise DecodingError`
  * `get_fru_multirecord_area`: record headers are read one by one (5 bytes each) following the
    length bytes until the end-of-list flag, then the whole area is read and parsed
  * the resulting `FruInventory` carries no `common_header`
  * as shipped nothing compares the areas' extents (`devOverlapLax`); repaired:
    `_check_area_layout(header, fru)` before `return fru`
  Core only.
-/
import PyIpmi.Model.FruParse
namespace PyIpmi.Fru
open PyIpmi PyIpmi.Gen

/-- completion code of the reference device for a read that leaves the storage (C9h, parameter
out of range); `read_fru_data` shrinks its request and finally re-raises it -/
def devOutOfRange : Nat := 0xC9

/-- contract of `read_fru_data(offset, count)` against a device holding `store` -/
def devRead (store : List Nat) (off count : Nat) : Outcome (List Nat) :=
  if count = 0 then .ok []
  else if store.length < off + count then .ccError devOutOfRange
  else .ok ((store.drop off).take count)

/-- `if header.X_offset: fru.X = self.get_fru_X_area()` -/
def devArea (v : Variant) (kind : AreaKind) (store : List Nat) (off : Nat) : Outcome (Slot AreaView) :=
  if off = 0 then .ok .absent
  else
    (devRead store off 5).bind fun d5 =>
    if !v.devLenLax && d5.getD 1 0 * 8 == 0 then .decodingError
    else
    (devRead store off (d5.getD 1 0 * 8)).bind fun d =>
    parseArea v .bytes kind d

/-- the length-finding loop of `get_fru_multirecord_area`; every turn advances ≥ 5 bytes -/
def devMrLen : Nat → List Nat → Nat → Nat → Outcome Nat
  | 0, _, _, _ => .pyError "unreachable"
  | fuel + 1, store, off, count =>
    (devRead store off 5).bind fun d =>
    if d.getD 1 0 / 128 % 2 == 1 then .ok (count + (d.getD 2 0 + 5))
    else devMrLen fuel store (off + (d.getD 2 0 + 5)) (count + (d.getD 2 0 + 5))

def devMulti (v : Variant) (store : List Nat) (off : Nat) : Outcome (Slot (List RecView)) :=
  if off = 0 then .ok .absent
  else
    (devMrLen (store.length + 1) store off 0).bind fun count =>
    (devRead store off count).bind fun d =>
    parseMulti v d

/-- `Fru.get_fru_inventory()` -/
def parseFruDevice (v : Variant) (store : List Nat) : Outcome FruView :=
  (devRead store 0 8).bind fun h8 =>
  (parseHeader h8).bind fun h =>
  (devArea v .chassis store h.chassisOff).bind fun c =>
  (devArea v .board store h.boardOff).bind fun b =>
  (devArea v .product store h.productOff).bind fun p =>
  (devMulti v store h.multiOff).bind fun m =>
  if !v.devOverlapLax && layoutClash h c b p m then .decodingError
  else .ok ⟨none, c, b, p, m⟩

end PyIpmi.Fru
