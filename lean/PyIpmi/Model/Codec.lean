/-
  Model of the declarative message codec: pyipmi/msgs/message.py + utils.ByteBuffer.

  A message class is a `Layout` (list of `Field`s, generated from the live registry by
  harness/translate/registry.py into Gen/Registry.lean).  An object's state is the list of
  its field values in declaration order.  `encode`/`decode` mirror `Message._encode` /
  `Message._decode` field kind by field kind *including their laxness*:

  * `push_unsigned_int` truncates silently                       -> `leBytes`
  * `ByteArray.encode` checks the length (EncodingError)
  * `String.encode` pushes whatever it is given; `String.decode` returns a short string on
    short input without error
  * `Optional.decode` tests `len(data) > 0`; `Optional.encode` tests `is not None`
  * `Conditional` evaluates its predicate on the object (here: on the values of the
    earlier fields; `Layout.wf` demands that predicates refer to earlier fields only)
  * `RemainingBytes` swallows the rest
  * a non-OK completion code stops decoding and suppresses the "extra bytes" check
  * `Bitfield` packs `Σ (vᵢ & (2^wᵢ−1)) << offᵢ` and writes the bytes little-endian

  Anything Python would answer with a *non-library* exception is `pyError`.
-/
import PyIpmi.Base.Outcome
import PyIpmi.Base.Bytes
namespace PyIpmi.Codec
open PyIpmi

/-- A field value. -/
inductive Val where
  | int (v : Nat)
  | arr (l : List Nat)        -- array('B') / bytes
  | bits (vs : List Nat)      -- bit-field members in declaration order
  | none
  deriving Repr, DecidableEq, Inhabited

/-- Predicate of a `Conditional`, over the values of *earlier* fields (absolute index). -/
inductive Cond where
  | bitEq (fld bit val : Nat)          -- obj.<fld>.<bit> == val
  | intEq (fld val : Nat)              -- obj.<fld> == val
  | or (a b : Cond)
  | and (a b : Cond)
  deriving Repr, DecidableEq, Inhabited

inductive Prim where
  | uint (n : Nat)                     -- UnsignedInt / Timestamp / UnsignedIntMask / GroupExtensionIdentifier / EventMessageRevision
  | cc                                 -- CompletionCode
  | bytes (n : Nat)                    -- ByteArray
  | str (n : Nat)                      -- String
  | varBytes (lenFld : Nat)            -- VariableByteArray, length = value of an earlier integer field
  | remaining                          -- RemainingBytes
  | bits (n : Nat) (ws : List Nat)     -- Bitfield: byte length, member widths
  deriving Repr, DecidableEq, Inhabited

inductive Wrap where
  | plain
  | optional
  | cond (c : Cond)
  deriving Repr, DecidableEq, Inhabited

structure Field where
  name : String
  wrap : Wrap
  prim : Prim
  dflt : Val            -- what `create()` puts into a fresh object
  deriving Repr, DecidableEq, Inhabited

abbrev Layout := List Field

/-! ### bit-field packing -/

/-- `Σ (vᵢ mod 2^wᵢ) · 2^offᵢ` with `offᵢ = Σ_{k<i} w_k`, written as a Horner scheme. -/
def packBits : List Nat → List Nat → Nat
  | w :: ws, v :: vs => v % 2 ^ w + 2 ^ w * packBits ws vs
  | _, _ => 0

/-- `(x >> offᵢ) & (2^wᵢ − 1)` for every member. -/
def unpackBits : List Nat → Nat → List Nat
  | [], _ => []
  | w :: ws, x => x % 2 ^ w :: unpackBits ws (x / 2 ^ w)

/-! ### conditions -/

def Cond.eval (env : List Val) : Cond → Option Bool
  | .bitEq f b v =>
    match env[f]? with
    | some (.bits vs) => (vs[b]?).map (· == v)
    | _ => Option.none
  | .intEq f v =>
    match env[f]? with
    | some (.int x) => some (x == v)
    | _ => Option.none
  | .or a b =>
    -- Python `a or b` short-circuits: b is not evaluated when a is true
    match a.eval env with
    | some true => some true
    | some false => b.eval env
    | Option.none => Option.none
  | .and a b =>
    match a.eval env with
    | some false => some false
    | some true => b.eval env
    | Option.none => Option.none

/-! ### encoding -/

def encPrim (env : List Val) : Prim → Val → Outcome (List Nat)
  | .uint n, .int v => .ok (leBytes n v)
  | .cc, .int v => .ok (leBytes 1 v)
  | .bytes n, .arr l => if l.length ≠ n then .encodingError else .ok (l.map (· % 256))
  | .str _, .arr l => .ok l
  | .varBytes j, .arr l =>
    match env[j]? with
    | some (.int c) => if l.length ≠ c then .encodingError else .ok (l.map (· % 256))
    | _ => .pyError "TypeError"
  | .remaining, .arr l => .ok l
  | .bits n ws, .bits vs => .ok (leBytes n (packBits ws vs))
  | _, _ => .pyError "TypeError"

def encField (env : List Val) (f : Field) (v : Val) : Outcome (List Nat) :=
  match f.wrap with
  | .plain => encPrim env f.prim v
  | .optional => if v = .none then .ok [] else encPrim env f.prim v
  | .cond c =>
    match c.eval env with
    | some true => encPrim env f.prim v
    | some false => .ok []
    | Option.none => .pyError "AttributeError"

def encAux (env : List Val) : List Field → List Val → Outcome (List Nat)
  | [], _ => .ok []
  | _ :: _, [] => .pyError "AttributeError"
  | f :: fs, v :: vs =>
    (encField env f v).bind fun e =>
    (encAux (env ++ [v]) fs vs).bind fun es =>
    .ok (e ++ es)

/-- `Message._encode` on an object whose field values are `vs`. -/
def encode (layout : Layout) (vs : List Val) : Outcome (List Nat) := encAux [] layout vs

/-! ### decoding -/

def popN (n : Nat) (data : List Nat) (k : List Nat → Val) : Outcome (Val × List Nat) :=
  if data.length < n then .decodingError else .ok (k (data.take n), data.drop n)

def decPrim (env : List Val) : Prim → List Nat → Outcome (Val × List Nat)
  | .uint n, data => popN n data (fun l => .int (leVal l))
  | .cc, data => popN 1 data (fun l => .int (leVal l))
  | .bytes n, data => popN n data .arr
  | .str n, data => .ok (.arr (data.take n), data.drop n)
  | .varBytes j, data =>
    match env[j]? with
    | some (.int c) => popN c data .arr
    | _ => .pyError "TypeError"
  | .remaining, data => .ok (.arr data, [])
  | .bits n ws, data => popN n data (fun l => .bits (unpackBits ws (leVal l)))

def decField (env : List Val) (f : Field) (data : List Nat) : Outcome (Val × List Nat) :=
  match f.wrap with
  | .plain => decPrim env f.prim data
  | .optional => if data.length > 0 then decPrim env f.prim data else .ok (.none, data)
  | .cond c =>
    match c.eval env with
    | some true => decPrim env f.prim data
    | some false => .ok (f.dflt, data)
    | Option.none => .pyError "AttributeError"

/-- Did decoding this field raise `CompletionCodeError` (which `_decode` catches)? -/
def isCcStop (f : Field) (v : Val) : Bool :=
  match f.prim, v with
  | .cc, .int c => c != 0
  | _, _ => false

/-- Result of the field loop: values, "stopped on completion code", unread bytes. -/
structure DecState where
  vals : List Val
  stopped : Bool
  rest : List Nat
  deriving Repr, DecidableEq

def decAux (env : List Val) : List Field → List Nat → Outcome DecState
  | [], data => .ok ⟨[], false, data⟩
  | f :: fs, data =>
    (decField env f data).bind fun r =>
      if isCcStop f r.1 then
        .ok ⟨r.1 :: fs.map (·.dflt), true, r.2⟩
      else
        (decAux (env ++ [r.1]) fs r.2).bind fun st =>
        .ok ⟨r.1 :: st.vals, st.stopped, st.rest⟩

/-- `Message._decode`: field loop, then the "Data has extra bytes" check. -/
def decode (layout : Layout) (data : List Nat) : Outcome (List Val) :=
  (decAux [] layout data).bind fun st =>
    if !st.stopped && st.rest.length > 0 then .decodingError else .ok st.vals

/-- Values of a freshly created object (`_create_fields`). -/
def defaults (layout : Layout) : List Val := layout.map (·.dflt)

/-! ### message classes -/

structure MsgSpec where
  name : String
  isReq : Bool                 -- class name ends in `Req` (else `Rsp`; the registry enforces one of the two)
  netfn : Nat
  cmd : Nat
  group : Option Nat           -- __group_extension__
  lun : Nat                    -- __default_lun__
  hasFields : Bool             -- class defines __fields__
  malformed : Bool             -- __fields__ is not a tuple of fields / class cannot be instantiated
  layout : Layout
  deriving Repr, Inhabited

end PyIpmi.Codec
