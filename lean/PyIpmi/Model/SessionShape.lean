/-
  C06 — the statement-level shape of the session methods of pyipmi/interfaces/rmcp.py that the model
  `PyIpmi.Session` (Model/Session.lean) mirrors.  `harness/translate/session.py` re-reads the same methods
  from the AST on every run into `Gen/SessionShape.lean`; `Props.C06.handshake_shape` proves the two equal.
  This file is the frozen reading the proofs were made against: when the theorem breaks, the diff between
  this file and the generated one is the structural change to look at.
-/
namespace PyIpmi.Session.Shape

/-- `Rmcp.establish_session`, statement by statement.  What `Session.establish` (Model/Session.lean) mirrors:
FIRST the keep-alive of an earlier session is stopped (and joined) and its stopper forgotten
(`KeepAlive.enter`, `stopFirst`), and the caller's Session object is cleared — `activated`, `sid`,
`sequence_number` (`resetSess`, `Cfg.resetSession`) — before anything is sent; then: no session object while the first three messages go out (`self._session = None` … `self._session = session`
only after the challenge), the order ping → Get Channel Authentication Capabilities → Get Session Challenge →
Activate Session → Set Session Privilege Level, the authentication type chosen from the capabilities BEFORE
the challenge is requested and NotSupportedError raised right there when there is none (`Cfg.noAuthRaises`: the
BMC offers no type, nothing is asked for), the TEMPORARY id stored before activation and the GRANTED id, the initial inbound
sequence number and `activated = True` stored after it and before Set Session Privilege Level, keep-alive
installed last with `_get_device_id`. -/
def establishSession : List String :=
  ["if:self._stop_keep_alive",
   "call:_stop_keep_alive",
   "set:self._stop_keep_alive=None",
   "end",
   "set:self._session=None",
   "set:session.activated=False",
   "set:session.sid=0",
   "set:session.sequence_number=0",
   "set:self.host=session._rmcp_host",
   "set:self.port=session._rmcp_port",
   "call:ping",
   "call:_get_channel_auth_cap",
   "set:session.auth_type=caps.get_max_auth_type()",
   "if:session.auth_type is None",
   "raise:NotSupportedError",
   "end",
   "call:_get_session_challenge",
   "set:session_challenge=rsp.challenge_string",
   "set:session.sid=rsp.temporary_session_id",
   "set:self._session=session",
   "call:_activate_session",
   "set:self._session.sid=rsp.session_id",
   "set:self._session.sequence_number=rsp.initial_inbound_sequence_number",
   "set:self._session.activated=True",
   "call:_set_session_privilege_level",
   "if:self.keep_alive_interval",
   "set:self._stop_keep_alive=call_repeatedly(self.keep_alive_interval,self._get_device_id)",
   "end"]

/-- `Rmcp.close_session`: stop the keep-alive, nothing is sent (and nothing is dereferenced) when there is no
session object or it is not activated (`Cfg.closeGuard`, tested in this order), Close Session names
`self._session.sid`, `activated = False` only after the completion code was checked. -/
def closeSession : List String :=
  ["if:self._stop_keep_alive",
   "call:_stop_keep_alive",
   "end",
   "if:self._session is None or self._session.activated is False",
   "return",
   "end",
   "set:req=create_request_by_name('CloseSession')",
   "set:req.target=self.host_target",
   "set:req.session_id=self._session.sid",
   "call:send_and_receive",
   "expr:check_completion_code(rsp.completion_code)",
   "set:self._session.activated=False"]

/-- channel 0Eh ("this channel"), requested privilege level = the configured one, completion code checked -/
def getChannelAuthCap : List String :=
  ["set:CHANNEL_NUMBER_FOR_THIS=14",
   "set:req=create_request_by_name('GetChannelAuthenticationCapabilities')",
   "set:req.target=self.host_target",
   "set:req.channel.number=CHANNEL_NUMBER_FOR_THIS",
   "set:req.privilege_level.requested=session.priv_level",
   "call:send_and_receive",
   "expr:check_completion_code(rsp.completion_code)",
   "set:caps=ChannelAuthenticationCapabilities(rsp)",
   "return:caps"]

/-- authentication type = the chosen one, user name (a `str` is encoded first, `bytes` are taken as they are)
padded to 16 BYTES with NUL when one is configured (fixes/C06-7) -/
def getSessionChallenge : List String :=
  ["set:req=create_request_by_name('GetSessionChallenge')",
   "set:req.target=self.host_target",
   "set:req.authentication.type=session.auth_type",
   "if:session._auth_username",
   "set:user_name=session._auth_username",
   "if:isinstance(user_name,str)",
   "set:user_name=user_name.encode()",
   "end",
   "set:req.user_name=user_name.ljust(16,b'\\x00')",
   "end",
   "call:send_and_receive",
   "expr:check_rsp_completion_code(rsp)",
   "return:rsp"]

/-- as shipped: the name is padded with a `str` fill character - the same 16 bytes for an ASCII `str` name, a
TypeError for a `bytes` name (`Model/SessionCred.lean`, `Var.bytesUser = false`; the harness probes which of the
two the working tree has) -/
def getSessionChallengeAsShipped : List String :=
  ["set:req=create_request_by_name('GetSessionChallenge')",
   "set:req.target=self.host_target",
   "set:req.authentication.type=session.auth_type",
   "if:session._auth_username",
   "set:req.user_name=session._auth_username.ljust(16,'\\x00')",
   "end",
   "call:send_and_receive",
   "expr:check_rsp_completion_code(rsp)",
   "return:rsp"]

/-- authentication type, maximum privilege level, the challenge it was given, the session id currently stored
(= the temporary one at this point), a random non-zero outbound sequence number -/
def activateSession : List String :=
  ["set:req=create_request_by_name('ActivateSession')",
   "set:req.target=self.host_target",
   "set:req.authentication.type=session.auth_type",
   "set:req.privilege_level.maximum_requested=session.priv_level",
   "set:req.challenge_string=challenge",
   "set:req.session_id=self._session.sid",
   "set:req.initial_outbound_sequence_number=random.randrange(1,4294967295)",
   "call:send_and_receive",
   "expr:check_rsp_completion_code(rsp)",
   "return:rsp"]

/-- requested level = the argument (establish passes `session.priv_level`) -/
def setSessionPrivilegeLevel : List String :=
  ["set:req=create_request_by_name('SetSessionPrivilegeLevel')",
   "set:req.target=self.host_target",
   "set:req.privilege_level.requested=level",
   "call:send_and_receive",
   "expr:check_rsp_completion_code(rsp)",
   "return:rsp"]

/-- the keep-alive request: Get Device Id to the host target through `send_and_receive` (hence under the lock, C14) -/
def getDeviceId : List String :=
  ["set:req=create_request_by_name('GetDeviceId')",
   "set:req.target=self.host_target",
   "call:send_and_receive",
   "expr:check_completion_code(rsp.completion_code)"]

end PyIpmi.Session.Shape
