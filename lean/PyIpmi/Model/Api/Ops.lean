/- Model.Api.Ops — dispatcher from `Spec.Bmc.Call` to the per-operation models. -/
import PyIpmi.Model.Api.Bmc
import PyIpmi.Model.Api.Chassis
import PyIpmi.Model.Api.Lan
import PyIpmi.Model.Api.Messaging
import PyIpmi.Model.Api.Sensor
import PyIpmi.Model.Api.Picmg
import PyIpmi.Model.Api.Hpm
import PyIpmi.Model.Api.Dcmi
namespace PyIpmi.Model.Api
open PyIpmi PyIpmi.Spec.Bmc

/-- which variant of the operations with a known defect the tree under test carries: `true` = AS SHIPPED,
`false` = INTENDED (the default; what the theorems `model_refines_oracle` … speak about).  The harness probes
the real code for each flag (harness/props/c07.py `probe_variants`) so that the correspondence uses the model
of the code that is really there: silent on the repaired tree, firing again if a defect returns. -/
structure Variant where
  /-- l: `LedState._from_response` override durations from the wrong fields (a3c289f) -/
  led : Bool := false
  /-- p: `get_port_state` UnboundLocalError without link descriptor (9c86932) -/
  port : Bool := false
  /-- r: `get_lan_config_param(revision_only=1)` addresses channel 0 and returns `rsp.data` (fixes/C07-8) -/
  lanRevision : Bool := false
  /-- b: `RollbackStatus._from_rsp` drops `rsp.rollback_status` (fixes/C07-9) -/
  rollback : Bool := false
  /-- u: `get_sensor_reading` builds `states` although reading/state is flagged unavailable (fixes/C07-10) -/
  sensorUnavailable : Bool := false
  /-- d: HPM.1 component description string decoded with `raw_unicode_escape` (fixes/C07-11) -/
  descrEscape : Bool := false
  /-- f: `SetFanLevelReq.extra_byte`, a fourth request byte 00h nobody asked for (fixes/C07-12) -/
  fanByte4 : Bool := false
  /-- o: link types above 0Fh in `LinkDescriptor.type` (TYPE_OEMx) are cut to a nibble by set_port_state and come back
  from get_port_state as type = low nibble, sig_class = 15 (fixes/C07-13) -/
  oemLink : Bool := false
  /-- s: get_sensor_reading hands on the reserved bit 7 of the second state byte as "state 15" (fixes/C07-14) -/
  stateBit15 : Bool := false
  deriving Repr, DecidableEq

def Variant.ofLetters (v : String) : Variant :=
  { led := v.contains 'l', port := v.contains 'p', lanRevision := v.contains 'r', rollback := v.contains 'b',
    sensorUnavailable := v.contains 'u', descrEscape := v.contains 'd', fanByte4 := v.contains 'f',
    oemLink := v.contains 'o', stateBit15 := v.contains 's' }

def opOfV (var : Variant) (c : Call) : Exchange :=
  match c with
  | .getDeviceId => api_get_device_id
  | .getDeviceGuid => api_get_device_guid
  | .coldReset => api_cold_reset
  | .warmReset => api_warm_reset
  | .setWatchdog c => api_set_watchdog_timer c
  | .getWatchdog => api_get_watchdog_timer
  | .resetWatchdog => api_reset_watchdog_timer
  | .getChassisStatus => api_get_chassis_status
  | .chassisControl o => api_chassis_control o
  | .chassisControlNamed i => api_chassis_control_named i
  | .getBootParam a b c => api_get_system_boot_options a b c
  | .setBootParam a d i => api_set_system_boot_options a d i
  | .getBootMode => api_get_boot_mode
  | .getBootPersistency => api_get_boot_persistency
  | .getBootDevice => api_get_boot_device
  | .setBootOptions d e p => api_set_boot_options d e p
  | .getLanParam a b c d r =>
    if var.lanRevision then api_get_lan_config_param_shipped a b c d r else api_get_lan_config_param a b c d r
  | .setLanParam a b d => api_set_lan_config_param a b d
  | .getIp c => api_get_ip_address c
  | .setIp ip c => api_set_ip_address ip c
  | .getIpSource c => api_get_ip_source c
  | .setIpSource v c => api_set_ip_source v c
  | .getMac c => api_get_mac_address c
  | .getVlan c => api_get_vlan_id c
  | .setVlan v c => api_set_vlan_id v c
  | .setUserName u n => api_set_username u n
  | .getUserName u => api_get_username u
  | .getUserAccess u c => api_get_user_access u c
  | .setUserAccess a => api_set_user_access a
  | .setUserPassword u p => api_set_user_password u p
  | .enableUser u => api_enable_user u
  | .disableUser u => api_disable_user u
  | .getSensorReading n l =>
    if var.sensorUnavailable ∨ var.stateBit15 then getSensorReading var.sensorUnavailable n l var.stateBit15
    else api_get_sensor_reading n l
  | .setSensorThresholds n l v => api_set_sensor_thresholds n l v
  | .getSensorThresholds n l => api_get_sensor_thresholds n l
  | .rearmSensorEvents n => api_rearm_sensor_events n
  | .sendPlatformEvent e => api_send_platform_event e
  | .setEventReceiver a l => api_set_event_receiver a l
  | .getEventReceiver => api_get_event_receiver
  | .getPicmgProperties => api_get_picmg_properties
  | .fruControl f o => api_fru_control f o
  | .fruControlNamed i f => api_fru_control_named i f
  | .getPowerLevel f t => api_get_power_level f t
  | .getFanSpeedProperties f => api_get_fan_speed_properties f
  | .setFanLevel f l => if var.fanByte4 then api_set_fan_level_shipped f l else api_set_fan_level f l
  | .getFanLevel f => api_get_fan_level f
  | .getLedState f l => if var.led then api_get_led_state_shipped f l else api_get_led_state f l
  | .setLedState f l c => api_set_led_state f l c
  | .setFruActivation f on => api_set_fru_activation f on
  | .setFruActivationPolicy f c => api_set_fru_activation_policy f c
  | .fruLockNamed i f => api_fru_lock_named i f
  | .setPortState i c p => api_set_port_state i c p
  | .setPortStateType8 i c p => if var.oemLink then api_set_port_state_type8_shipped i c p else api_set_port_state_type8 i c p
  | .getPortState c i => if var.port ∨ var.oemLink then getPortState var.port c i var.oemLink else api_get_port_state c i
  | .getPmGlobalStatus => api_get_pm_global_status
  | .getPowerChannelStatus st => api_get_power_channel_status st
  | .sendChannelPower c e l p b => api_send_channel_power c e l p b
  | .sendPmHeartbeat => api_send_pm_heartbeat
  | .setSignalingClass i c v => api_set_signaling_class i c v
  | .getSignalingClass i c => api_get_signaling_class i c
  | .getUpgradeStatus => api_get_upgrade_status
  | .getTargetUpgradeCapabilities => api_get_target_upgrade_capabilities
  | .querySelftestResults => api_query_selftest_results
  | .queryRollbackStatus => if var.rollback then api_query_rollback_status_shipped else api_query_rollback_status
  | .getComponentDescription id =>
    if var.descrEscape then api_get_component_description_shipped id else api_get_component_description id
  | .getDcmiCapabilities sel => api_get_dcmi_capabilities sel
  | .getPowerReading mode attrs => api_get_power_reading mode attrs

/-- the operation as modelled from the (fixed) code under test -/
def opOf (c : Call) : Exchange := opOfV {} c

/-- one API call against the BMC: BMC state afterwards, return value / exception -/
def runModelV (var : Variant) (c : Call) (s : BmcState) : BmcState × Outcome Result :=
  (opOfV var c).run s
def runModel (c : Call) (s : BmcState) : BmcState × Outcome Result := (opOf c).run s

/-- every operation of the harness' op table has a model -/
def modelledOps : List String := ["*"]

end PyIpmi.Model.Api
