/- Model.Api.Ops — dispatcher from `Spec.Bmc.Call` to the per-operation models. -/
import PyIpmi.Model.Api.Bmc
import PyIpmi.Model.Api.Chassis
import PyIpmi.Model.Api.Lan
import PyIpmi.Model.Api.Messaging
import PyIpmi.Model.Api.Sensor
import PyIpmi.Model.Api.Picmg
import PyIpmi.Model.Api.Hpm
namespace PyIpmi.Model.Api
open PyIpmi PyIpmi.Spec.Bmc

/-- `shippedLed` / `shippedPort` select the as-shipped variant of the operations that have a known defect
(get_led_state, get_port_state); the harness probes the real code to choose. -/
def runModelV (shippedLed shippedPort : Bool) (c : Call) (s : BmcState) : Outcome (BmcState × Result) :=
  match c with
  | .getDeviceId => api_get_device_id s
  | .getDeviceGuid => api_get_device_guid s
  | .coldReset => api_cold_reset s
  | .warmReset => api_warm_reset s
  | .setWatchdog c => api_set_watchdog_timer c s
  | .getWatchdog => api_get_watchdog_timer s
  | .resetWatchdog => api_reset_watchdog_timer s
  | .getChassisStatus => api_get_chassis_status s
  | .chassisControl o => api_chassis_control o s
  | .chassisControlNamed i => api_chassis_control_named i s
  | .getBootParam a b c => api_get_system_boot_options a b c s
  | .setBootParam a d i => api_set_system_boot_options a d i s
  | .getBootMode => api_get_boot_mode s
  | .getBootPersistency => api_get_boot_persistency s
  | .getBootDevice => api_get_boot_device s
  | .setBootOptions d e p => api_set_boot_options d e p s
  | .getLanParam a b c d r => api_get_lan_config_param a b c d r s
  | .setLanParam a b d => api_set_lan_config_param a b d s
  | .getIp c => api_get_ip_address c s
  | .setIp ip c => api_set_ip_address ip c s
  | .getIpSource c => api_get_ip_source c s
  | .setIpSource v c => api_set_ip_source v c s
  | .getMac c => api_get_mac_address c s
  | .getVlan c => api_get_vlan_id c s
  | .setVlan v c => api_set_vlan_id v c s
  | .setUserName u n => api_set_username u n s
  | .getUserName u => api_get_username u s
  | .getUserAccess u c => api_get_user_access u c s
  | .setUserAccess a => api_set_user_access a s
  | .setUserPassword u p => api_set_user_password u p s
  | .enableUser u => api_enable_user u s
  | .disableUser u => api_disable_user u s
  | .getSensorReading n l => api_get_sensor_reading n l s
  | .setSensorThresholds n l v => api_set_sensor_thresholds n l v s
  | .getSensorThresholds n l => api_get_sensor_thresholds n l s
  | .rearmSensorEvents n => api_rearm_sensor_events n s
  | .sendPlatformEvent e => api_send_platform_event e s
  | .setEventReceiver a l => api_set_event_receiver a l s
  | .getEventReceiver => api_get_event_receiver s
  | .getPicmgProperties => api_get_picmg_properties s
  | .fruControl f o => api_fru_control f o s
  | .fruControlNamed i f => api_fru_control_named i f s
  | .getPowerLevel f t => api_get_power_level f t s
  | .getFanSpeedProperties f => api_get_fan_speed_properties f s
  | .setFanLevel f l => api_set_fan_level f l s
  | .getFanLevel f => api_get_fan_level f s
  | .getLedState f l => if shippedLed then api_get_led_state_shipped f l s else api_get_led_state f l s
  | .setLedState f l c => api_set_led_state f l c s
  | .setFruActivation f on => api_set_fru_activation f on s
  | .setFruActivationPolicy f c => api_set_fru_activation_policy f c s
  | .fruLockNamed i f => api_fru_lock_named i f s
  | .setPortState i c p => api_set_port_state i c p s
  | .getPortState c i => if shippedPort then api_get_port_state_shipped c i s else api_get_port_state c i s
  | .getPmGlobalStatus => api_get_pm_global_status s
  | .getPowerChannelStatus st => api_get_power_channel_status st s
  | .sendChannelPower c e l p b => api_send_channel_power c e l p b s
  | .sendPmHeartbeat => api_send_pm_heartbeat s
  | .setSignalingClass i c v => api_set_signaling_class i c v s
  | .getSignalingClass i c => api_get_signaling_class i c s
  | .getUpgradeStatus => api_get_upgrade_status s
  | .getTargetUpgradeCapabilities => api_get_target_upgrade_capabilities s
  | .querySelftestResults => api_query_selftest_results s
  | .queryRollbackStatus => api_query_rollback_status s

def runModel (c : Call) (s : BmcState) : Outcome (BmcState × Result) := runModelV false false c s

/-- every operation of the harness' op table has a model -/
def modelledOps : List String := ["*"]

end PyIpmi.Model.Api
