/- pyipmi/dcmi.py: get_dcmi_capabilities, get_power_reading (one exchange each, the response object itself is the
   result) and get_dcmi_sensor_record_ids (one Get DCMI Sensor Info exchange per entity of DCMI_ENTITIES).
   `GetPowerReadingRsp.__not_implemented__ = True` is a class attribute nothing in pyipmi ever reads
   (msgs/message.py declares the default, no encoder / decoder / registry code looks at it): the response is
   decoded field by field like any other, so the model decodes it with the generated layout. -/
import PyIpmi.Model.Api.Core
import PyIpmi.Gen.Tables
namespace PyIpmi.Model.Api
open PyIpmi PyIpmi.Codec PyIpmi.Spec.Bmc PyIpmi.Gen.Tables

/-- get_dcmi_capabilities(selector): `rsp` with specification_conformence.major / .minor, parameter_revision,
parameter_data -/
def api_get_dcmi_capabilities (sel : Nat) : Exchange :=
  { req := reqGetDcmiCapabilities, rsp := rspGetDcmiCapabilities,
    vals := .ok (setInt (fresh reqGetDcmiCapabilities) 1 sel),
    post := fun v => .ok (.dcmiCaps (bitAt v 2 0) (bitAt v 2 1) (intAt v 3) (arrAt v 4)) }

/-- get_power_reading(mode, attributes=0): `rsp` with the four power values, timestamp, period, reading_state;
the request's `reserved` byte keeps its creation default -/
def api_get_power_reading (mode attrs : Nat) : Exchange :=
  { req := reqGetPowerReading, rsp := rspGetPowerReading,
    vals := .ok (setInt (setInt (fresh reqGetPowerReading) 1 mode) 2 attrs),
    post := fun v => .ok (.powerReading { current := intAt v 2, minimum := intAt v 3, maximum := intAt v 4,
                                          average := intAt v 5, timestamp := intAt v 6, period := intAt v 7,
                                          state := intAt v 8 }) }

/-- `[msb << 8 | lsb for (lsb, msb) in list(zip(r, r[1:]))[::2]]`: EVERY pair of the remaining bytes (the field
number_of_record_ids is not looked at), a trailing single byte is dropped.  (`r` is an array of bytes, so
`msb << 8 | lsb` = `msb * 256 + lsb`.) -/
def pairIds : List Nat → List Nat
  | lsb :: msb :: t => (msb * 256 + lsb) :: pairIds t
  | _ => []

/-- the one exchange per entity: sensor_type=1, entity_instance=0, entity_instance_start=0 (constants of the source) -/
def dcmiSensorInfo (entity : Nat) : Exchange :=
  { req := reqGetDcmiSensorInfo, rsp := rspGetDcmiSensorInfo,
    vals := .ok (setInt (setInt (setInt (setInt (fresh reqGetDcmiSensorInfo) 1 dcmiSensorType) 2 entity)
                   3 dcmiEntityInstance) 4 dcmiEntityInstanceStart),
    post := fun v => .ok (.natList (pairIds (arrAt v 4))) }

/-- a `for` loop of exchanges extending one list: the first exception ends the call (the BMC keeps what the
exchanges so far did to it) -/
def runIdSeq : List Exchange → BmcState → List Nat → BmcState × Outcome Result
  | [], s, acc => (s, .ok (.natList acc))
  | x :: xs, s, acc =>
    match x.run s with
    | (s', .ok (.natList ids)) => runIdSeq xs s' (acc ++ ids)
    | (s', .ok _) => (s', .pyError "TypeError")
    | (s', e) => (s', e)

/-- the exchanges of get_dcmi_sensor_record_ids(), in order; it never asks for a second page
(entity_instance_start stays 0 whatever total_number_of_instances says) -/
def dcmiSensorExchanges : List Exchange := dcmiEntities.map dcmiSensorInfo

/-- get_dcmi_sensor_record_ids(): BMC state afterwards, the list of record ids / the exception -/
def api_get_dcmi_sensor_record_ids (s : BmcState) : BmcState × Outcome Result :=
  runIdSeq dcmiSensorExchanges s []

/-- the requests it puts on the wire against a BMC that answers every one of them -/
def dcmiSensorRequests : List (Outcome Req) := dcmiSensorExchanges.map (·.request)

end PyIpmi.Model.Api
