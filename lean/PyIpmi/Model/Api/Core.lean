/-
  Model.Api.Core — what every high-level operation of `pyipmi.Ipmi` does around its message:

    req = create_request_by_name(name); set fields        -> `Layout` of the request class + field values
    rsp = self.send_message(req)                          -> `encode`, the interface (here: the BMC), `decode`
    check_completion_code(rsp.completion_code)            -> `ccError cc`

  The interface is `Spec.Bmc.handle` applied to (netfn, lun, cmd, encoded request); the response
  class is the one registered under (netfn + 1, cmd, group extension) — `create_message` in every
  `send_and_receive`.  Field values are positional (declaration order of the generated layout).
-/
import PyIpmi.Base.Outcome
import PyIpmi.Model.Codec
import PyIpmi.Spec.Bmc
namespace PyIpmi.Model.Api
open PyIpmi PyIpmi.Codec PyIpmi.Spec.Bmc

/-- one request/response exchange of `Ipmi.send_message` + completion-code check -/
def transact (req rsp : MsgSpec) (lun : Nat) (vals : List Val) (s : BmcState) : Outcome (BmcState × List Val) :=
  (encode req.layout vals).bind fun bytes =>
    let r := handle s { netfn := req.netfn, lun := lun, cmd := req.cmd, data := bytes }
    (decode rsp.layout r.2).bind fun rv =>
      match rv with
      | .int 0 :: _ => .ok (r.1, rv)
      | .int cc :: _ => .ccError cc
      | _ => .pyError "AttributeError"

/-! positional access to decoded field values -/
def intAt (vs : List Val) (i : Nat) : Nat :=
  match vs[i]? with
  | some (.int v) => v
  | _ => 0
def bitAt (vs : List Val) (i j : Nat) : Nat :=
  match vs[i]? with
  | some (.bits l) => l.getD j 0
  | _ => 0
def arrAt (vs : List Val) (i : Nat) : List Nat :=
  match vs[i]? with
  | some (.arr l) => l
  | _ => []
/-- `rsp.x` of an `Optional` integer field: `None` when absent -/
def optIntAt (vs : List Val) (i : Nat) : Option Nat :=
  match vs[i]? with
  | some (.int v) => some v
  | _ => none
def optArrAt (vs : List Val) (i : Nat) : Option (List Nat) :=
  match vs[i]? with
  | some (.arr l) => some l
  | _ => none

def n2b (n : Nat) : Bool := n != 0

/-! a fresh request object (`create_request_by_name`) holds the creation defaults; `req.x = v`
replaces one of them -/
def fresh (m : MsgSpec) : List Val := defaults m.layout
def setInt (vs : List Val) (i v : Nat) : List Val := vs.set i (.int v)
def setArr (vs : List Val) (i : Nat) (l : List Nat) : List Val := vs.set i (.arr l)
/-- `req.<bitfield i>.<member j> = v` -/
def setBit (vs : List Val) (i j v : Nat) : List Val :=
  match vs[i]? with
  | some (.bits l) => vs.set i (.bits (l.set j v))
  | _ => vs
/-- `dict.get(key)` on a generated table -/
def lookup {α} (t : List (Nat × α)) (k : Nat) : Option α := (t.find? (·.1 == k)).map (·.2)

end PyIpmi.Model.Api
