/-
  Model.Api.Core — what every high-level operation of `pyipmi.Ipmi` does around its message:

    req = create_request_by_name(name); set fields        -> `Layout` of the request class + field values
    rsp = self.send_message(req)                          -> `encode`, the interface (here: the BMC), `decode`
    check_completion_code(rsp.completion_code)            -> `ccError cc`
    return State(rsp) / rsp.field                         -> `post`

  Every modelled operation is ONE such exchange, so an operation is an `Exchange`:
  (request class, response class, LUN, request field values | exception raised while the
  request is built, response field values ↦ result | exception).  `Exchange.request` is the
  request the operation puts on the wire (compared byte for byte with the real one by the
  correspondence run); `Exchange.run` plays it against the reference BMC `Spec.Bmc.handle`
  and returns the BMC's state afterwards together with what the call returned or raised.
  The response class is the one registered under (netfn + 1, cmd, group extension) —
  `create_message` in every `send_and_receive`.  Field values are positional (declaration
  order of the generated layout).
-/
import PyIpmi.Base.Outcome
import PyIpmi.Model.Codec
import PyIpmi.Spec.Bmc
namespace PyIpmi.Model.Api
open PyIpmi PyIpmi.Codec PyIpmi.Spec.Bmc

/-- `check_completion_code` on the decoded response (field 0 is the completion code) -/
def checkCc (rv : List Val) : Outcome Unit :=
  match rv with
  | .int 0 :: _ => .ok ()
  | .int cc :: _ => .ccError cc
  | _ => .pyError "AttributeError"

structure Exchange where
  req : MsgSpec
  rsp : MsgSpec
  lun : Nat := 0
  /-- field values of the request object when it is sent, or the exception raised before that -/
  vals : Outcome (List Val)
  /-- `State(rsp)` / `rsp.<field>`: decoded response ↦ return value -/
  post : List Val → Outcome Result

/-- the request on the wire: (netfn, lun, cmd, encoded fields) -/
def Exchange.request (x : Exchange) : Outcome Req :=
  x.vals.bind fun v =>
    (encode x.req.layout v).bind fun bytes =>
      .ok { netfn := x.req.netfn, lun := x.lun, cmd := x.req.cmd, data := bytes }

/-- the exception of a failed `Outcome`, at another type -/
def reraise {α β} (o : Outcome α) : Outcome β := o.bind fun _ => .pyError "RuntimeError"

/-- one API call against the BMC in state `s`: BMC state afterwards, return value / exception -/
def Exchange.run (x : Exchange) (s : BmcState) : BmcState × Outcome Result :=
  match x.request with
  | .ok r =>
    let a := handle s r
    (a.1, (decode x.rsp.layout a.2).bind fun rv => (checkCc rv).bind fun _ => x.post rv)
  | e => (s, reraise e)

/-- an operation that raises before any request exists -/
def Exchange.raise (e : Outcome (List Val)) : Exchange :=
  { req := default, rsp := default, vals := e, post := fun _ => .pyError "RuntimeError" }

/-- the BMC after the call / what the call returned -/
def bmcAfter (x : Exchange) (s : BmcState) : BmcState := (x.run s).1
def resultOf (x : Exchange) (s : BmcState) : Outcome Result := (x.run s).2

/-! positional access to decoded field values -/
def intAt (vs : List Val) (i : Nat) : Nat :=
  match vs[i]? with
  | some (.int v) => v
  | _ => 0
def bitAt (vs : List Val) (i j : Nat) : Nat :=
  match vs[i]? with
  | some (.bits l) => l.getD j 0
  | _ => 0
def arrAt (vs : List Val) (i : Nat) : List Nat :=
  match vs[i]? with
  | some (.arr l) => l
  | _ => []
/-- `rsp.x` of an `Optional` integer field: `None` when absent -/
def optIntAt (vs : List Val) (i : Nat) : Option Nat :=
  match vs[i]? with
  | some (.int v) => some v
  | _ => none
def optArrAt (vs : List Val) (i : Nat) : Option (List Nat) :=
  match vs[i]? with
  | some (.arr l) => some l
  | _ => none

def n2b (n : Nat) : Bool := n != 0

/-! a fresh request object (`create_request_by_name`) holds the creation defaults; `req.x = v`
replaces one of them -/
def fresh (m : MsgSpec) : List Val := defaults m.layout
def setInt (vs : List Val) (i v : Nat) : List Val := vs.set i (.int v)
def setArr (vs : List Val) (i : Nat) (l : List Nat) : List Val := vs.set i (.arr l)
/-- `req.<bitfield i>.<member j> = v` -/
def setBit (vs : List Val) (i j v : Nat) : List Val :=
  match vs[i]? with
  | some (.bits l) => vs.set i (.bits (l.set j v))
  | _ => vs
/-- `dict.get(key)` on a generated table -/
def lookup {α} (t : List (Nat × α)) (k : Nat) : Option α := (t.find? (·.1 == k)).map (·.2)

end PyIpmi.Model.Api
