/- pyipmi/hpm.py: the status queries (UpgradeStatus, TargetUpgradeCapabilities, SelfTestResult in its
   intended form — all eight flags of result byte 2 — and RollbackStatus, intended and as shipped). -/
import PyIpmi.Model.Api.Core
import PyIpmi.Gen.Tables
namespace PyIpmi.Model.Api
open PyIpmi PyIpmi.Codec PyIpmi.Spec.Bmc PyIpmi.Gen.Tables

def api_get_upgrade_status : Exchange :=
  { req := reqGetUpgradeStatus, rsp := rspGetUpgradeStatus, vals := .ok (fresh reqGetUpgradeStatus),
    post := fun v => .ok (.hpmStatus (intAt v 2) (intAt v 3)) }

def api_get_target_upgrade_capabilities : Exchange :=
  { req := reqGetTargetUpgradeCapabilities, rsp := rspGetTargetUpgradeCapabilities,
    vals := .ok (fresh reqGetTargetUpgradeCapabilities),
    post := fun v => .ok (.hpmCaps (intAt v 2) (intAt v 5 % 256)) }

def api_query_selftest_results : Exchange :=
  { req := reqQuerySelftestResults, rsp := rspQuerySelftestResults, vals := .ok (fresh reqQuerySelftestResults),
    post := fun v => .ok (.natPair (intAt v 2) (intAt v 3 % 256)) }

/-- query_rollback_status as INTENDED (fixes/C07-9): `RollbackStatus._from_rsp` keeps `rsp.rollback_status` (the mask
of the rolled-back components) and `rsp.completion_estimate` (None while absent) -/
def api_query_rollback_status : Exchange :=
  { req := reqQueryRollbackStatus, rsp := rspQueryRollbackStatus, vals := .ok (fresh reqQueryRollbackStatus),
    post := fun v => .ok (.rollback (intAt v 2) (optIntAt v 3)) }

/-- AS SHIPPED: `_from_rsp` looks at `rsp.completion_estimate` only - `if rsp.completion_estimate:` copies a
present, non-zero estimate - and never at `rsp.rollback_status`: the returned object has no component mask -/
def api_query_rollback_status_shipped : Exchange :=
  { req := reqQueryRollbackStatus, rsp := rspQueryRollbackStatus, vals := .ok (fresh reqQueryRollbackStatus),
    post := fun v => .ok (.optNatPair none (match optIntAt v 3 with | some 0 => none | e => e)) }

end PyIpmi.Model.Api
