/- pyipmi/hpm.py: the status queries (UpgradeStatus, TargetUpgradeCapabilities, SelfTestResult in its
   intended form — all eight flags of result byte 2 — and RollbackStatus, intended and as shipped). -/
import PyIpmi.Model.Api.Core
import PyIpmi.Gen.Tables
namespace PyIpmi.Model.Api
open PyIpmi PyIpmi.Codec PyIpmi.Spec.Bmc PyIpmi.Gen.Tables

def api_get_upgrade_status : Exchange :=
  { req := reqGetUpgradeStatus, rsp := rspGetUpgradeStatus, vals := .ok (fresh reqGetUpgradeStatus),
    post := fun v => .ok (.hpmStatus (intAt v 2) (intAt v 3)) }

def api_get_target_upgrade_capabilities : Exchange :=
  { req := reqGetTargetUpgradeCapabilities, rsp := rspGetTargetUpgradeCapabilities,
    vals := .ok (fresh reqGetTargetUpgradeCapabilities),
    post := fun v => .ok (.hpmCaps (intAt v 2) (intAt v 5 % 256)) }

def api_query_selftest_results : Exchange :=
  { req := reqQuerySelftestResults, rsp := rspQuerySelftestResults, vals := .ok (fresh reqQuerySelftestResults),
    post := fun v => .ok (.natPair (intAt v 2) (intAt v 3 % 256)) }

/-- query_rollback_status as INTENDED (fixes/C07-9): `RollbackStatus._from_rsp` keeps `rsp.rollback_status` (the mask
of the rolled-back components) and `rsp.completion_estimate` (None while absent) -/
def api_query_rollback_status : Exchange :=
  { req := reqQueryRollbackStatus, rsp := rspQueryRollbackStatus, vals := .ok (fresh reqQueryRollbackStatus),
    post := fun v => .ok (.rollback (intAt v 2) (optIntAt v 3)) }

/-- AS SHIPPED: `_from_rsp` looks at `rsp.completion_estimate` only - `if rsp.completion_estimate:` copies a
present, non-zero estimate - and never at `rsp.rollback_status`: the returned object has no component mask -/
def api_query_rollback_status_shipped : Exchange :=
  { req := reqQueryRollbackStatus, rsp := rspQueryRollbackStatus, vals := .ok (fresh reqQueryRollbackStatus),
    post := fun v => .ok (.optNatPair none (match optIntAt v 3 with | some 0 => none | e => e)) }

/-! ### Get Component Properties, selector 2 (description string) -/

def hexDigit? (c : Nat) : Option Nat :=
  if 48 ≤ c ∧ c ≤ 57 then some (c - 48)
  else if 97 ≤ c ∧ c ≤ 102 then some (c - 87)
  else if 65 ≤ c ∧ c ≤ 70 then some (c - 55)
  else none

/-- the value of `n` hexadecimal digits at the head of `l`; `none`: fewer than `n` bytes left or not a digit -/
def hexRun : Nat → List Nat → Nat → Option (Nat × List Nat)
  | 0, l, acc => some (acc, l)
  | _ + 1, [], _ => none
  | n + 1, c :: t, acc =>
    match hexDigit? c with
    | some d => hexRun n t (acc * 16 + d)
    | none => none

/-- `bytes.decode('raw_unicode_escape')` (CPython 3: `_PyUnicode_DecodeRawUnicodeEscapeStateful`): every byte is
the character of that number, except that a backslash followed by `u` / `U` starts an escape of 4 / 8 hexadecimal
digits naming ONE character; a backslash followed by anything else stands for itself together with that byte.
`none`: UnicodeDecodeError (truncated escape, not a digit, above 10FFFFh).  `fuel` ≥ length. -/
def rawUnicodeEscape : Nat → List Nat → Option (List Nat)
  | _, [] => some []
  | 0, _ => none
  | _ + 1, [c] => some [c]
  | fuel + 1, c :: d :: t =>
    if c ≠ 92 then (rawUnicodeEscape fuel (d :: t)).map (c :: ·)
    else if d = 117 ∨ d = 85 then
      match hexRun (if d = 117 then 4 else 8) t 0 with
      | some (ch, rest) => if ch > 0x10ffff then none else (rawUnicodeEscape fuel rest).map (ch :: ·)
      | none => none
    else (rawUnicodeEscape fuel t).map (fun r => c :: d :: r)

/-- `ComponentPropertyDescriptionString._from_rsp_data`: the bytes of the property as characters, NULs removed.
INTENDED (fixes/C07-11): one character per byte (`latin-1`); AS SHIPPED: through `raw_unicode_escape` -/
def descrOf (shipped : Bool) (data : List Nat) : Outcome Result :=
  if shipped then
    match rawUnicodeEscape data.length data with
    | some cs => .ok (.text (cs.filter (· != 0)))
    | none => .pyError "UnicodeDecodeError"
  else .ok (.text (data.filter (· != 0)))

/-- get_component_property(id, PROPERTY_DESCRIPTION_STRING).description; an empty property leaves the object
without the attribute (`if (data):` in `ComponentProperty.__init__`) -/
def getComponentDescription (shipped : Bool) (id : Nat) : Exchange :=
  { req := reqGetComponentProperties, rsp := rspGetComponentProperties,
    vals := .ok (setInt (setInt (fresh reqGetComponentProperties) 1 id) 2 hpmDescriptionSelector),
    post := fun v =>
      match arrAt v 2 with
      | [] => .pyError "AttributeError"
      | data => descrOf shipped data }

def api_get_component_description := getComponentDescription false
def api_get_component_description_shipped := getComponentDescription true

end PyIpmi.Model.Api
