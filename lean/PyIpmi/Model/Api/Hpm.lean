/- pyipmi/hpm.py: the status queries (UpgradeStatus, TargetUpgradeCapabilities, SelfTestResult in its
   intended form — all eight flags of result byte 2 — and RollbackStatus). -/
import PyIpmi.Model.Api.Core
import PyIpmi.Gen.Tables
namespace PyIpmi.Model.Api
open PyIpmi PyIpmi.Codec PyIpmi.Spec.Bmc PyIpmi.Gen.Tables

def api_get_upgrade_status (s : BmcState) : Outcome (BmcState × Result) :=
  (transact reqGetUpgradeStatus rspGetUpgradeStatus 0 (fresh reqGetUpgradeStatus) s).bind fun (s', v) =>
    .ok (s', .hpmStatus (intAt v 2) (intAt v 3))

def api_get_target_upgrade_capabilities (s : BmcState) : Outcome (BmcState × Result) :=
  (transact reqGetTargetUpgradeCapabilities rspGetTargetUpgradeCapabilities 0 (fresh reqGetTargetUpgradeCapabilities) s).bind
    fun (s', v) => .ok (s', .hpmCaps (intAt v 2) (intAt v 5 % 256))

def api_query_selftest_results (s : BmcState) : Outcome (BmcState × Result) :=
  (transact reqQuerySelftestResults rspQuerySelftestResults 0 (fresh reqQuerySelftestResults) s).bind fun (s', v) =>
    .ok (s', .natPair (intAt v 2) (intAt v 3 % 256))

def api_query_rollback_status (s : BmcState) : Outcome (BmcState × Result) :=
  (transact reqQueryRollbackStatus rspQueryRollbackStatus 0 (fresh reqQueryRollbackStatus) s).bind fun (s', v) =>
    .ok (s', .optNatPair none (match optIntAt v 3 with | some 0 => none | e => e))

end PyIpmi.Model.Api
