/- pyipmi/sensor.py (reading, thresholds, re-arm, platform event) and pyipmi/event.py. -/
import PyIpmi.Model.Api.Core
import PyIpmi.Gen.Tables
namespace PyIpmi.Model.Api
open PyIpmi PyIpmi.Codec PyIpmi.Spec.Bmc PyIpmi.Gen.Tables

/-- `states = rsp.states1 | (rsp.states2 & 0x7f) << 8` over the optional state bytes (fixes/C07-14: bit 7 of the
second state byte is reserved, "returned as 1b, ignore on read"); `rawBit`: AS SHIPPED, `rsp.states2 << 8` unmasked -/
def statesOf (v : List Val) (rawBit : Bool := false) : Option Nat :=
  match optIntAt v 3, optIntAt v 4 with
  | some a, some b => some (a ||| (if rawBit then b else b % 128) * 256)
  | some a, none => some a
  | none, _ => none

/-- get_sensor_reading; `shipped`: while `rsp.config.initial_update_in_progress` (reading/state unavailable) is
set only the reading is withheld and `states` is still built from the state bytes; INTENDED (fixes/C07-10):
`(None, None)` -/
def getSensorReading (shipped : Bool) (num lun : Nat) (rawBit : Bool := false) : Exchange :=
  { req := reqGetSensorReading, rsp := rspGetSensorReading, lun := lun,
    vals := .ok (setInt (fresh reqGetSensorReading) 0 num),
    post := fun v =>
      if bitAt v 2 1 != 0 then .ok (.optNatPair none (if shipped then statesOf v rawBit else none))
      else .ok (.optNatPair (some (intAt v 1)) (statesOf v rawBit)) }

def api_get_sensor_reading := getSensorReading false
def api_get_sensor_reading_shipped := getSensorReading true

/-- the `if <name> is not None:` blocks of set_sensor_thresholds, in source order -/
def setThr (r : List Val) (vals : List (Option Nat)) (i : Nat) : List Val :=
  match vals.getD i none with
  | some v => setBit (setBit r 1 i 1) 2 i v
  | none => r

/-- `vals` in the order lnc lcr lnr unc ucr unr (the members of both bit-fields) -/
def api_set_sensor_thresholds (num lun : Nat) (vals : List (Option Nat)) : Exchange :=
  let r := setInt (fresh reqSetSensorThresholds) 0 num
  let r := setThr (setThr (setThr (setThr (setThr (setThr r vals 0) vals 1) vals 2) vals 3) vals 4) vals 5
  { req := reqSetSensorThresholds, rsp := rspSetSensorThresholds, lun := lun, vals := .ok r, post := fun _ => .ok .unit }

def api_get_sensor_thresholds (num lun : Nat) : Exchange :=
  { req := reqGetSensorThresholds, rsp := rspGetSensorThresholds, lun := lun,
    vals := .ok (setInt (fresh reqGetSensorThresholds) 0 num),
    post := fun v =>
      .ok (.thresholds ((List.range 6).filterMap fun i =>
        if bitAt v 1 i != 0 then some (i, bitAt v 2 i) else none)) }

def api_rearm_sensor_events (num : Nat) : Exchange :=
  { req := reqRearmSensorEvents, rsp := rspRearmSensorEvents, vals := .ok (setInt (fresh reqRearmSensorEvents) 0 num),
    post := fun _ => .ok .unit }

def api_send_platform_event (e : PlatformEvent) : Exchange :=
  let r := fresh reqPlatformEvent
  let r := setInt r 1 e.sensorType
  let r := setInt r 2 e.sensorNum
  let r := setBit r 3 0 e.eventType
  let r := setBit r 3 1 (if e.deassert then 1 else 0)
  let r := setArr r 4 e.data
  { req := reqPlatformEvent, rsp := rspPlatformEvent, vals := .ok r, post := fun _ => .ok .unit }

def api_set_event_receiver (addr7 lun : Nat) : Exchange :=
  let r := fresh reqSetEventReceiver
  let r := setBit r 0 1 addr7
  let r := setBit r 0 2 lun
  { req := reqSetEventReceiver, rsp := rspSetEventReceiver, vals := .ok r, post := fun _ => .ok .unit }

def api_get_event_receiver : Exchange :=
  { req := reqGetEventReceiver, rsp := rspGetEventReceiver, vals := .ok (fresh reqGetEventReceiver),
    post := fun v => .ok (.natPair (bitAt v 1 1) (bitAt v 1 2)) }

end PyIpmi.Model.Api
