/- pyipmi/sensor.py (reading, thresholds, re-arm, platform event) and pyipmi/event.py. -/
import PyIpmi.Model.Api.Core
import PyIpmi.Gen.Tables
namespace PyIpmi.Model.Api
open PyIpmi PyIpmi.Codec PyIpmi.Spec.Bmc PyIpmi.Gen.Tables

def api_get_sensor_reading (num lun : Nat) (s : BmcState) : Outcome (BmcState × Result) :=
  (transact reqGetSensorReading rspGetSensorReading lun (setInt (fresh reqGetSensorReading) 0 num) s).bind fun (s', v) =>
    let reading := if bitAt v 2 1 != 0 then none else some (intAt v 1)
    let states := match optIntAt v 3, optIntAt v 4 with
      | some a, some b => some (a ||| b * 256)
      | some a, none => some a
      | none, _ => none
    .ok (s', .optNatPair reading states)

/-- `vals` in the order lnc lcr lnr unc ucr unr (the members of both bit-fields) -/
def api_set_sensor_thresholds (num lun : Nat) (vals : List (Option Nat)) (s : BmcState) : Outcome (BmcState × Result) :=
  let r := setInt (fresh reqSetSensorThresholds) 0 num
  let r := (List.range 6).foldl (fun r i =>
    match vals.getD i none with
    | some v => setBit (setBit r 1 i 1) 2 i v
    | none => r) r
  (transact reqSetSensorThresholds rspSetSensorThresholds lun r s).bind fun (s', _) => .ok (s', .unit)

def api_get_sensor_thresholds (num lun : Nat) (s : BmcState) : Outcome (BmcState × Result) :=
  (transact reqGetSensorThresholds rspGetSensorThresholds lun (setInt (fresh reqGetSensorThresholds) 0 num) s).bind
    fun (s', v) =>
      .ok (s', .thresholds ((List.range 6).filterMap fun i =>
        if bitAt v 1 i != 0 then some (i, bitAt v 2 i) else none))

def api_rearm_sensor_events (num : Nat) (s : BmcState) : Outcome (BmcState × Result) :=
  (transact reqRearmSensorEvents rspRearmSensorEvents 0 (setInt (fresh reqRearmSensorEvents) 0 num) s).bind fun (s', _) =>
    .ok (s', .unit)

def api_send_platform_event (e : PlatformEvent) (s : BmcState) : Outcome (BmcState × Result) :=
  let r := fresh reqPlatformEvent
  let r := setInt r 1 e.sensorType
  let r := setInt r 2 e.sensorNum
  let r := setBit r 3 0 e.eventType
  let r := setBit r 3 1 (if e.deassert then 1 else 0)
  let r := setArr r 4 e.data
  (transact reqPlatformEvent rspPlatformEvent 0 r s).bind fun (s', _) => .ok (s', .unit)

def api_set_event_receiver (addr7 lun : Nat) (s : BmcState) : Outcome (BmcState × Result) :=
  let r := fresh reqSetEventReceiver
  let r := setBit r 0 1 addr7
  let r := setBit r 0 2 lun
  (transact reqSetEventReceiver rspSetEventReceiver 0 r s).bind fun (s', _) => .ok (s', .unit)

def api_get_event_receiver (s : BmcState) : Outcome (BmcState × Result) :=
  (transact reqGetEventReceiver rspGetEventReceiver 0 (fresh reqGetEventReceiver) s).bind fun (s', v) =>
    .ok (s', .natPair (bitAt v 1 1) (bitAt v 1 2))

end PyIpmi.Model.Api
