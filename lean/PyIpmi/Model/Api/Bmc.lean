/- pyipmi/bmc.py: Bmc.get_device_id, get_device_guid, cold_reset, warm_reset, set/get/reset_watchdog_timer
   with DeviceId / DeviceGuid / Watchdog `_from_response` and fields.VersionField. -/
import PyIpmi.Model.Api.Core
import PyIpmi.Gen.Tables
namespace PyIpmi.Model.Api
open PyIpmi PyIpmi.Codec PyIpmi.Spec.Bmc PyIpmi.Gen.Tables

/-- fields.VersionField._decode_data on the minor byte: FFh stays, <= 99h is decoded as two BCD+
digits and handed to `int()` (a trailing blank digit Ah is tolerated by `int`), anything else raises -/
def verMinor (b : Nat) : Outcome Nat :=
  if b = 255 then .ok 255
  else if b ≤ 0x99 then
    (if b % 16 ≤ 9 then .ok (b / 16 * 10 + b % 16) else if b % 16 = 10 then .ok (b / 16) else .pyError "ValueError")
  else .decodingError

def api_get_device_id : Exchange :=
  { req := reqGetDeviceId, rsp := rspGetDeviceId, vals := .ok (fresh reqGetDeviceId),
    post := fun v =>
      (verMinor (bitAt v 3 2)).bind fun fwMinor =>
      (verMinor (intAt v 4 / 16 % 16)).bind fun ipmiMinor =>
      .ok (.deviceId {
        deviceId := intAt v 1, revision := bitAt v 2 0, providesSdrs := n2b (bitAt v 2 2),
        updateInProgress := n2b (bitAt v 3 1), fwMajor := bitAt v 3 0, fwMinor := fwMinor,
        ipmiMajor := intAt v 4 % 16, ipmiMinor := ipmiMinor,
        support := bitAt v 5 0 + 2 * bitAt v 5 1 + 4 * bitAt v 5 2 + 8 * bitAt v 5 3 + 16 * bitAt v 5 4
                   + 32 * bitAt v 5 5 + 64 * bitAt v 5 6 + 128 * bitAt v 5 7,
        manufacturer := intAt v 6, product := intAt v 7, aux := optArrAt v 8 }) }

def api_get_device_guid : Exchange :=
  { req := reqGetDeviceGuid, rsp := rspGetDeviceGuid, vals := .ok (fresh reqGetDeviceGuid),
    post := fun v => .ok (.bytes (arrAt v 1)) }

def api_cold_reset : Exchange :=
  { req := reqColdReset, rsp := rspColdReset, vals := .ok (fresh reqColdReset), post := fun _ => .ok .unit }

def api_warm_reset : Exchange :=
  { req := reqWarmReset, rsp := rspWarmReset, vals := .ok (fresh reqWarmReset), post := fun _ => .ok .unit }

def api_set_watchdog_timer (c : WatchdogCfg) : Exchange :=
  let r := fresh reqSetWatchdogTimer
  let r := setBit r 0 0 c.timerUse
  let r := setBit r 0 2 (b2n c.dontStop)
  let r := setBit r 0 3 (b2n c.dontLog)
  let r := setBit r 1 2 c.preInterrupt
  let r := setBit r 1 0 c.action
  let r := setInt r 2 c.preInterval
  let r := setInt r 3 c.clearFlags
  let r := setInt r 4 c.initial
  { req := reqSetWatchdogTimer, rsp := rspSetWatchdogTimer, vals := .ok r, post := fun _ => .ok .unit }

def api_get_watchdog_timer : Exchange :=
  { req := reqGetWatchdogTimer, rsp := rspGetWatchdogTimer, vals := .ok (fresh reqGetWatchdogTimer),
    post := fun v =>
      .ok (.watchdog {
        timerUse := bitAt v 1 0, running := n2b (bitAt v 1 2), dontLog := n2b (bitAt v 1 3),
        preInterrupt := bitAt v 2 2, action := bitAt v 2 0, preInterval := intAt v 3, expFlags := intAt v 4,
        initial := intAt v 5, present := intAt v 6 }) }

def api_reset_watchdog_timer : Exchange :=
  { req := reqResetWatchdogTimer, rsp := rspResetWatchdogTimer, vals := .ok (fresh reqResetWatchdogTimer),
    post := fun _ => .ok .unit }

end PyIpmi.Model.Api
