/- pyipmi/messaging.py: user name / access / password operations, UserAccess._from_response. -/
import PyIpmi.Model.Api.Core
import PyIpmi.Gen.Tables
namespace PyIpmi.Model.Api
open PyIpmi PyIpmi.Codec PyIpmi.Spec.Bmc PyIpmi.Gen.Tables

/-- `s.ljust(16, '\x00')` -/
def ljust16 (l : List Nat) : List Nat := l ++ List.replicate (16 - l.length) 0

def api_set_username (uid : Nat) (name : List Nat) (s : BmcState) : Outcome (BmcState × Result) :=
  let r := fresh reqSetUserName
  let r := setBit r 0 0 uid
  let r := setArr r 1 (ljust16 name)
  (transact reqSetUserName rspSetUserName 0 r s).bind fun (s', _) => .ok (s', .unit)

def api_get_username (uid : Nat) (s : BmcState) : Outcome (BmcState × Result) :=
  (transact reqGetUserName rspGetUserName 0 (setBit (fresh reqGetUserName) 0 0 uid) s).bind fun (s', v) =>
    .ok (s', .bytes (arrAt v 1))

def api_get_user_access (uid ch : Nat) (s : BmcState) : Outcome (BmcState × Result) :=
  let r := fresh reqGetUserAccess
  let r := setBit r 1 0 uid
  let r := setBit r 0 0 ch
  (transact reqGetUserAccess rspGetUserAccess 0 r s).bind fun (s', v) =>
    .ok (s', .userAccess {
      maxUsers := bitAt v 1 0, enabledCount := bitAt v 2 0, enableStatus := bitAt v 2 1, fixedNames := bitAt v 3 0,
      privilege := (lookup rawToUserPrivilege (bitAt v 4 0)).getD 0,
      ipmiMsg := bitAt v 4 1 == 1, linkAuth := bitAt v 4 2 == 1, callbackOnly := bitAt v 4 3 == 1 })

def api_set_user_access (a : UserAccessArgs) (s : BmcState) : Outcome (BmcState × Result) :=
  let r := fresh reqSetUserAccess
  let r := setBit r 0 0 a.channel
  let r := setBit r 0 1 (b2n a.ipmiMsg)
  let r := setBit r 0 2 (b2n a.linkAuth)
  let r := setBit r 0 3 (b2n a.callbackOnly)
  let r := setBit r 0 4 (b2n a.enableChange)
  let r := setBit r 1 0 a.userId
  let r := setBit r 2 0 ((lookup userPrivilegeToRaw a.privilege).getD 15)
  let r := setBit r 3 0 a.sessionLimit
  (transact reqSetUserAccess rspSetUserAccess 0 r s).bind fun (s', _) => .ok (s', .unit)

def setPasswordOp (uid op : Nat) (pw : Option (List Nat)) (s : BmcState) : Outcome (BmcState × Result) :=
  let r := fresh reqSetUserPassword
  let r := setBit r 0 0 uid
  let r := setBit r 1 0 op
  let r := match pw with | some p => setArr r 2 p | none => r
  (transact reqSetUserPassword rspSetUserPassword 0 r s).bind fun (s', _) => .ok (s', .unit)

def api_set_user_password (uid : Nat) (pw : List Nat) (s : BmcState) : Outcome (BmcState × Result) :=
  if pw.length > 16 then .pyError "ValueError" else setPasswordOp uid 2 (some (ljust16 pw)) s
def api_enable_user (uid : Nat) (s : BmcState) : Outcome (BmcState × Result) := setPasswordOp uid 1 none s
def api_disable_user (uid : Nat) (s : BmcState) : Outcome (BmcState × Result) := setPasswordOp uid 0 none s

end PyIpmi.Model.Api
