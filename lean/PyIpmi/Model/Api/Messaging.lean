/- pyipmi/messaging.py: user name / access / password operations, UserAccess._from_response. -/
import PyIpmi.Model.Api.Core
import PyIpmi.Gen.Tables
namespace PyIpmi.Model.Api
open PyIpmi PyIpmi.Codec PyIpmi.Spec.Bmc PyIpmi.Gen.Tables

/-- `s.ljust(16, '\x00')` -/
def ljust16 (l : List Nat) : List Nat := l ++ List.replicate (16 - l.length) 0

def api_set_username (uid : Nat) (name : List Nat) : Exchange :=
  let r := fresh reqSetUserName
  let r := setBit r 0 0 uid
  let r := setArr r 1 (ljust16 name)
  { req := reqSetUserName, rsp := rspSetUserName, vals := .ok r, post := fun _ => .ok .unit }

def api_get_username (uid : Nat) : Exchange :=
  { req := reqGetUserName, rsp := rspGetUserName, vals := .ok (setBit (fresh reqGetUserName) 0 0 uid),
    post := fun v => .ok (.bytes (arrAt v 1)) }

def api_get_user_access (uid ch : Nat) : Exchange :=
  let r := fresh reqGetUserAccess
  let r := setBit r 1 0 uid
  let r := setBit r 0 0 ch
  { req := reqGetUserAccess, rsp := rspGetUserAccess, vals := .ok r,
    post := fun v =>
      .ok (.userAccess {
        maxUsers := bitAt v 1 0, enabledCount := bitAt v 2 0, enableStatus := bitAt v 2 1, fixedNames := bitAt v 3 0,
        privilege := (lookup rawToUserPrivilege (bitAt v 4 0)).getD 0,
        ipmiMsg := bitAt v 4 1 == 1, linkAuth := bitAt v 4 2 == 1, callbackOnly := bitAt v 4 3 == 1 }) }

def api_set_user_access (a : UserAccessArgs) : Exchange :=
  let r := fresh reqSetUserAccess
  let r := setBit r 0 0 a.channel
  let r := setBit r 0 1 (b2n a.ipmiMsg)
  let r := setBit r 0 2 (b2n a.linkAuth)
  let r := setBit r 0 3 (b2n a.callbackOnly)
  let r := setBit r 0 4 (b2n a.enableChange)
  let r := setBit r 1 0 a.userId
  let r := setBit r 2 0 ((lookup userPrivilegeToRaw a.privilege).getD 15)
  let r := setBit r 3 0 a.sessionLimit
  { req := reqSetUserAccess, rsp := rspSetUserAccess, vals := .ok r, post := fun _ => .ok .unit }

def setPasswordOp (uid op : Nat) (pw : Option (List Nat)) : Exchange :=
  let r := fresh reqSetUserPassword
  let r := setBit r 0 0 uid
  let r := setBit r 1 0 op
  let r := match pw with | some p => setArr r 2 p | none => r
  { req := reqSetUserPassword, rsp := rspSetUserPassword, vals := .ok r, post := fun _ => .ok .unit }

def api_set_user_password (uid : Nat) (pw : List Nat) : Exchange :=
  if pw.length > 16 then .raise (.pyError "ValueError") else setPasswordOp uid 2 (some (ljust16 pw))
def api_enable_user (uid : Nat) : Exchange := setPasswordOp uid 1 none
def api_disable_user (uid : Nat) : Exchange := setPasswordOp uid 0 none

end PyIpmi.Model.Api
