/- pyipmi/picmg.py: Picmg.* with PowerLevel / FanSpeedProperties / LedState / GlobalStatus /
   PowerChannelStatus `_from_response` and LedState.to_request.

   `LedState._from_response` is modelled in its INTENDED form (override durations come from the
   override fields of the response); the shipped one took them from the local-control fields —
   `ledViewShipped` keeps that variant for the counter-example theorem.  `get_port_state` is modelled
   in its intended form as well (no link ↦ `(None, None)`; the shipped code leaves `link` unbound). -/
import PyIpmi.Model.Api.Core
import PyIpmi.Gen.Tables
namespace PyIpmi.Model.Api
open PyIpmi PyIpmi.Codec PyIpmi.Spec.Bmc PyIpmi.Gen.Tables

def api_get_picmg_properties : Exchange :=
  { req := reqGetPicmgProperties, rsp := rspGetPicmgProperties, vals := .ok (fresh reqGetPicmgProperties),
    post := fun v => .ok (.picmgProps (intAt v 2) (intAt v 3) (intAt v 4)) }

/-- fru_control, continued by `k` on the response data -/
def fruControl (fru opt : Nat) (k : List Nat → Result) : Exchange :=
  { req := reqFruControl, rsp := rspFruControl, vals := .ok (setInt (setInt (fresh reqFruControl) 1 fru) 2 opt),
    post := fun v => .ok (k (arrAt v 2)) }

def api_fru_control (fru opt : Nat) : Exchange := fruControl fru opt .bytes

/-- fru_control_cold_reset / warm_reset / graceful_reboot drop the result, …_diagnostic_interrupt returns it -/
def api_fru_control_named (idx fru : Nat) : Exchange :=
  match fruControlOption[idx]? with
  | some opt => fruControl fru opt fun d => if idx = 3 then .bytes d else .unit
  | none => .raise (.pyError "AttributeError")

def api_get_power_level (fru ty : Nat) : Exchange :=
  { req := reqGetPowerLevel, rsp := rspGetPowerLevel, vals := .ok (setInt (setInt (fresh reqGetPowerLevel) 1 fru) 2 ty),
    post := fun v =>
      .ok (.power { dynamic := n2b (bitAt v 2 2), level := bitAt v 2 0, delay := intAt v 3,
                    multiplier := intAt v 4, draw := arrAt v 5 }) }

def api_get_fan_speed_properties (fru : Nat) : Exchange :=
  { req := reqGetFanSpeedProperties, rsp := rspGetFanSpeedProperties,
    vals := .ok (setInt (fresh reqGetFanSpeedProperties) 1 fru),
    post := fun v => .ok (.fanProps (intAt v 2) (intAt v 3) (intAt v 4) (n2b (bitAt v 5 1))) }

/-- set_fan_level over the request class `m`: the keyword arguments fill `fru_id` and `fan_level`, every other
field keeps its creation default -/
def setFanLevel (m : MsgSpec) (fru lvl : Nat) : Exchange :=
  { req := m, rsp := rspSetFanLevel, vals := .ok (setInt (setInt (fresh m) 1 fru) 2 lvl), post := fun _ => .ok .unit }

/-- over the GENERATED layout of `SetFanLevelReq` (INTENDED, fixes/C07-12: picmg id, fru_id, fan_level and the
optional R3.0 byte, absent unless the caller sets it) -/
def api_set_fan_level (fru lvl : Nat) : Exchange := setFanLevel reqSetFanLevel fru lvl

/-- `SetFanLevelReq` AS SHIPPED: a fourth plain field `extra_byte` that no argument fills - always sent as 00h -/
def reqSetFanLevelShipped : MsgSpec :=
  ⟨"SetFanLevelReq", true, 44, 21, some 0, 0, true, false,
   [⟨"picmg_identifier", .plain, .uint 1, .int 0⟩, ⟨"fru_id", .plain, .uint 1, .int 0⟩,
    ⟨"fan_level", .plain, .uint 1, .int 0⟩, ⟨"extra_byte", .plain, .uint 1, .int 0⟩]⟩
def api_set_fan_level_shipped (fru lvl : Nat) : Exchange := setFanLevel reqSetFanLevelShipped fru lvl

def api_get_fan_level (fru : Nat) : Exchange :=
  { req := reqGetFanLevel, rsp := rspGetFanLevel, vals := .ok (setInt (fresh reqGetFanLevel) 1 fru),
    post := fun v =>
      let loc := match optArrAt v 3 with
        | some (d0 :: _) => some d0
        | _ => none
      .ok (.optNatPair (some (intAt v 2)) loc) }

/-- function byte + on-duration byte ↦ LED function; `checkOn`: the local-control branch also
range-checks the on-duration -/
def ledFnOf (f onDur : Nat) (checkOn : Bool) : Outcome LedFnView :=
  if f = ledOff then .ok ⟨0, none, none⟩
  else if f = ledOn then .ok ⟨2, none, none⟩
  else if ledBlinkLo ≤ f ∧ f ≤ ledBlinkHi then
    (if checkOn ∧ ¬ (ledBlinkLo ≤ onDur ∧ onDur ≤ ledBlinkHi) then .decodingError else .ok ⟨1, some f, some onDur⟩)
  else .decodingError

/-- LedState._from_response, intended -/
def ledView (v : List Val) : Outcome LedView :=
  let ovr := n2b (bitAt v 2 1)
  let lamp := n2b (bitAt v 2 2)
  (ledFnOf (intAt v 3) (intAt v 4) true).bind fun lf =>
  (if ovr then (ledFnOf (intAt v 6) (intAt v 7) false).bind fun f => .ok (some (f, intAt v 8)) else .ok none).bind fun o =>
  .ok { localAvail := n2b (bitAt v 2 0), overrideEn := ovr, lampTestEn := lamp, localFn := lf,
        localColor := intAt v 5, override := o, lampDur := if lamp then some (intAt v 9) else none }

/-- LedState._from_response as shipped: a blinking override first takes the LOCAL function byte as its
off-duration, then every enabled override (blinking or not) overwrites the off-duration with the
override ON-duration byte; the override on-duration is never set. -/
def ledViewShipped (v : List Val) : Outcome LedView :=
  let ovr := n2b (bitAt v 2 1)
  let lamp := n2b (bitAt v 2 2)
  (ledFnOf (intAt v 3) (intAt v 4) true).bind fun lf =>
  (if ovr then (ledFnOf (intAt v 6) (intAt v 7) false).bind fun f =>
      .ok (some ({ f with offDur := some (intAt v 7), onDur := none }, intAt v 8))
   else .ok none).bind fun o =>
  .ok { localAvail := n2b (bitAt v 2 0), overrideEn := ovr, lampTestEn := lamp, localFn := lf,
        localColor := intAt v 5, override := o, lampDur := if lamp then some (intAt v 9) else none }

def getLedState (view : List Val → Outcome LedView) (fru led : Nat) : Exchange :=
  { req := reqGetFruLedState, rsp := rspGetFruLedState,
    vals := .ok (setInt (setInt (fresh reqGetFruLedState) 1 fru) 2 led),
    post := fun v => (view v).bind fun x => .ok (.led x) }

def api_get_led_state := getLedState ledView
def api_get_led_state_shipped := getLedState ledViewShipped

/-- LedState.to_request: (function byte, on-duration byte, colour) -/
def ledToRequest (c : LedCmd) : Outcome (Nat × Nat × Nat) :=
  match c with
  | .override .on color => .ok (ledOn, 0, color)
  | .override .off color => .ok (ledOff, 0, color)
  | .override (.blink o n) color =>
    if ledBlinkLo ≤ o ∧ o ≤ ledBlinkHi then .ok (o, n, color) else .encodingError
  | .lampTest d color => .ok (ledLampTest, d, color)
  | .restoreLocal => .notSupported

/-- LedState.to_request + set_led_state -/
def api_set_led_state (fru led : Nat) (c : LedCmd) : Exchange :=
  match ledToRequest c with
  | .ok (f, n, color) =>
    let r := fresh reqSetFruLedState
    let r := setInt r 1 fru
    let r := setInt r 2 led
    let r := setInt r 5 color
    let r := setInt r 3 f
    let r := setInt r 4 n
    { req := reqSetFruLedState, rsp := rspSetFruLedState, vals := .ok r, post := fun _ => .ok .unit }
  | e => .raise (reraise e)

def api_set_fru_activation (fru : Nat) (on : Bool) : Exchange :=
  match fruActivationControl[if on then 1 else 0]? with
  | some c =>
    { req := reqSetFruActivation, rsp := rspSetFruActivation,
      vals := .ok (setInt (setInt (fresh reqSetFruActivation) 1 fru) 2 c), post := fun _ => .ok .unit }
  | none => .raise (.pyError "AttributeError")

def api_set_fru_activation_policy (fru ctrl : Nat) : Exchange :=
  let r := setInt (fresh reqSetFruActivationPolicy) 1 fru
  let r := match ctrl with
    | 0 => setBit (setBit r 2 0 1) 3 0 1
    | 1 => setBit (setBit r 2 0 1) 3 0 0
    | 2 => setBit (setBit r 2 1 1) 3 1 1
    | 3 => setBit (setBit r 2 1 1) 3 1 0
    | _ => r
  { req := reqSetFruActivationPolicy, rsp := rspSetFruActivationPolicy, vals := .ok r, post := fun _ => .ok .unit }

def api_fru_lock_named (idx fru : Nat) : Exchange :=
  match policyCtrl[idx]? with
  | some c => api_set_fru_activation_policy fru c
  | none => .raise (.pyError "AttributeError")

/-- set_port_state with `link_descr.type = ty`, `link_descr.sig_class = sc`.  INTENDED (fixes/C07-13): the link type
byte is `(type | sig_class << 4) & 0xff`, its nibbles go into the members `type` and `sig_class` of the request;
AS SHIPPED (`shipped`): each attribute goes into its 4-bit member, which cuts a `type` above 15 (TYPE_OEMx) to its
low nibble -/
def setPortState (shipped : Bool) (iface ch ty sc : Nat) (p : Port) : Exchange :=
  let lt := (ty ||| sc * 16) % 256
  let r := fresh reqSetPortState
  let r := setBit r 1 0 ch
  let r := setBit r 1 1 iface
  let r := setBit r 1 2 (p.flags % 2)
  let r := setBit r 1 3 (p.flags / 2 % 2)
  let r := setBit r 1 4 (p.flags / 4 % 2)
  let r := setBit r 1 5 (p.flags / 8 % 2)
  let r := setBit r 1 6 (if shipped then ty else lt % 16)
  let r := setBit r 1 7 (if shipped then sc else lt / 16)
  let r := setBit r 1 8 p.ext
  let r := setBit r 1 9 p.grouping
  let r := setInt r 2 p.state
  { req := reqSetPortState, rsp := rspSetPortState, vals := .ok r, post := fun _ => .ok .unit }

/-- the whole 8-bit link type in `link_descr.type` (the published TYPE_OEMx constants), `sig_class = 0` -/
def api_set_port_state_type8 (iface ch : Nat) (p : Port) : Exchange := setPortState false iface ch p.linkType 0 p
def api_set_port_state_type8_shipped (iface ch : Nat) (p : Port) : Exchange := setPortState true iface ch p.linkType 0 p

/-- `p.linkType` carries LinkDescriptor.type in its low and .sig_class in its high nibble (both below 16: here the
intended and the as-shipped code send the same request) -/
def api_set_port_state (iface ch : Nat) (p : Port) : Exchange :=
  let r := fresh reqSetPortState
  let r := setBit r 1 0 ch
  let r := setBit r 1 1 iface
  let r := setBit r 1 2 (p.flags % 2)
  let r := setBit r 1 3 (p.flags / 2 % 2)
  let r := setBit r 1 4 (p.flags / 4 % 2)
  let r := setBit r 1 5 (p.flags / 8 % 2)
  let r := setBit r 1 6 (p.linkType % 16)
  let r := setBit r 1 7 (p.linkType / 16)
  let r := setBit r 1 8 p.ext
  let r := setBit r 1 9 p.grouping
  let r := setInt r 2 p.state
  { req := reqSetPortState, rsp := rspSetPortState, vals := .ok r, post := fun _ => .ok .unit }

/-- `splitOem`: AS SHIPPED an OEM link type (upper nibble Fh) comes back as `type` = low nibble, `sig_class` = 15;
INTENDED (fixes/C07-13) as `type` = the whole byte (TYPE_OEMx), `sig_class` = 0 -/
def getPortState (shipped : Bool) (ch iface : Nat) (splitOem : Bool := false) : Exchange :=
  { req := reqGetPortState, rsp := rspGetPortState,
    vals := .ok (setBit (setBit (fresh reqGetPortState) 1 0 ch) 1 1 iface),
    post := fun v =>
      match arrAt v 2 with
      | d0 :: d1 :: d2 :: d3 :: d4 :: _ =>
        let ty := d1 / 16 % 16
        let sc := d2 % 16
        let oem := sc == 15 && !splitOem
        .ok (.port (some { channel := d0 % 64, iface := d0 / 64 % 4, flags := d1 % 16,
                           linkType := if oem then ty ||| 0xf0 else ty, sigClass := if oem then 0 else sc,
                           ext := d2 / 16 % 16, grouping := d3, state := d4 }))
      | _ => if shipped then .pyError "UnboundLocalError" else .ok (.port none) }

def api_get_port_state := getPortState false
def api_get_port_state_shipped := getPortState true

/-- get_power_channel_status request for ONE channel, continued by `k` -/
def powerChannelStatus (start : Nat) (k : List Val → Outcome Result) : Exchange :=
  { req := reqGetPowerChannelStatus, rsp := rspGetPowerChannelStatus,
    vals := .ok (setInt (setInt (fresh reqGetPowerChannelStatus) 1 start) 2 1), post := k }

def api_get_pm_global_status : Exchange :=
  powerChannelStatus 1 fun v =>
    .ok (.pmGlobal (bitAt v 3 0 + 2 * bitAt v 3 1 + 4 * bitAt v 3 2 + 8 * bitAt v 3 3))

def api_get_power_channel_status (start : Nat) : Exchange :=
  powerChannelStatus start fun v =>
    match arrAt v 4 with
    | d0 :: _ => .ok (.nat (d0 % 128))
    | [] => .pyError "IndexError"

def api_send_channel_power (ch : Nat) (enable : Bool) (limit10 primary backup : Nat) : Exchange :=
  let r := fresh reqSendPowerChannelControl
  let r := setInt r 1 ch
  let r := setInt r 2 (if enable then 5 else 4)
  let r := setInt r 3 limit10
  let r := setInt r 4 primary
  let r := setInt r 5 backup
  { req := reqSendPowerChannelControl, rsp := rspSendPowerChannelControl, vals := .ok r, post := fun _ => .ok .unit }

def api_send_pm_heartbeat : Exchange :=
  { req := reqSendPmHeartbeat, rsp := rspSendPmHeartbeat, vals := .ok (fresh reqSendPmHeartbeat),
    post := fun _ => .ok .unit }

def api_set_signaling_class (iface ch cls : Nat) : Exchange :=
  let r := fresh reqSetSignalingClass
  let r := setBit r 1 0 ch
  let r := setBit r 1 1 iface
  let r := setBit r 2 0 cls
  { req := reqSetSignalingClass, rsp := rspSetSignalingClass, vals := .ok r, post := fun _ => .ok .unit }

def api_get_signaling_class (iface ch : Nat) : Exchange :=
  { req := reqGetSignalingClass, rsp := rspGetSignalingClass,
    vals := .ok (setBit (setBit (fresh reqGetSignalingClass) 1 0 ch) 1 1 iface),
    post := fun v => .ok (.nat (bitAt v 3 0)) }

end PyIpmi.Model.Api
