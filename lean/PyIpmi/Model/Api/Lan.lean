/- pyipmi/lan.py: Lan.* and the data_to_* / *_to_data helpers. -/
import PyIpmi.Model.Api.Core
import PyIpmi.Gen.Tables
namespace PyIpmi.Model.Api
open PyIpmi PyIpmi.Codec PyIpmi.Spec.Bmc PyIpmi.Gen.Tables

def getLanParam (ch sel setSel blk : Nat) (revOnly : Bool) (s : BmcState) : Outcome (BmcState × List Nat) :=
  let r := fresh reqGetLanConfigurationParameters
  let r := setBit r 0 2 (b2n revOnly)
  let r := if revOnly then r else
    let r := setBit r 0 0 ch
    let r := setInt r 1 sel
    let r := setInt r 2 setSel
    setInt r 3 blk
  (transact reqGetLanConfigurationParameters rspGetLanConfigurationParameters 0 r s).bind fun (s', v) =>
    .ok (s', arrAt v 2)

def api_get_lan_config_param (ch sel setSel blk : Nat) (revOnly : Bool) (s : BmcState) : Outcome (BmcState × Result) :=
  (getLanParam ch sel setSel blk revOnly s).bind fun (s', d) => .ok (s', .bytes d)

def api_set_lan_config_param (ch sel : Nat) (data : List Nat) (s : BmcState) : Outcome (BmcState × Result) :=
  let r := fresh reqSetLanConfigurationParameters
  let r := setBit r 0 0 ch
  let r := setInt r 1 sel
  let r := setArr r 2 data
  (transact reqSetLanConfigurationParameters rspSetLanConfigurationParameters 0 r s).bind fun (s', _) => .ok (s', .unit)

def api_get_ip_address (ch : Nat) (s : BmcState) : Outcome (BmcState × Result) :=
  (getLanParam ch lanIp 0 0 false s).bind fun (s', d) => .ok (s', .ip d)

/-- `ip` = the integers between the dots -/
def api_set_ip_address (ip : List Nat) (ch : Nat) (s : BmcState) : Outcome (BmcState × Result) :=
  if ip.any (· ≥ 256) then .pyError "OverflowError" else api_set_lan_config_param ch lanIp ip s

def api_get_ip_source (ch : Nat) (s : BmcState) : Outcome (BmcState × Result) :=
  (getLanParam ch lanIpSrc 0 0 false s).bind fun (s', d) =>
    match d with
    | d0 :: _ =>
      match lookup rawToIpSrc (d0 % 16) with
      | some m => .ok (s', .ipSource m)
      | none => .pyError "KeyError"
    | [] => .pyError "IndexError"

def api_set_ip_source (src ch : Nat) (s : BmcState) : Outcome (BmcState × Result) :=
  match lookup ipSrcToData src with
  | some d => api_set_lan_config_param ch lanIpSrc d s
  | none => .pyError "ValueError"

def api_get_mac_address (ch : Nat) (s : BmcState) : Outcome (BmcState × Result) :=
  (getLanParam ch lanMac 0 0 false s).bind fun (s', d) => .ok (s', .mac d)

/-- data_to_vlan -/
def api_get_vlan_id (ch : Nat) (s : BmcState) : Outcome (BmcState × Result) :=
  (getLanParam ch lanVlan 0 0 false s).bind fun (s', d) =>
    match d with
    | d0 :: d1 :: _ => .ok (s', .nat (if d1 / 128 = 0 then 0 else (d1 % 16) * 256 ||| d0))
    | _ => .pyError "IndexError"

/-- vlan_to_data -/
def api_set_vlan_id (v ch : Nat) (s : BmcState) : Outcome (BmcState × Result) :=
  if v > 4095 then .pyError "ValueError"
  else if v = 0 then api_set_lan_config_param ch lanVlan [0, 0] s
  else api_set_lan_config_param ch lanVlan [v % 256, 128 ||| (v / 256 % 16)] s

end PyIpmi.Model.Api
