/- pyipmi/lan.py: Lan.* and the data_to_* / *_to_data helpers. -/
import PyIpmi.Model.Api.Core
import PyIpmi.Gen.Tables
namespace PyIpmi.Model.Api
open PyIpmi PyIpmi.Codec PyIpmi.Spec.Bmc PyIpmi.Gen.Tables

/-- the request of get_lan_config_param as INTENDED: the channel number and the three selectors are always
filled in, the "get parameter revision only" bit on top; continued by `post` on the decoded response -/
def getLanRequest (ch sel setSel blk : Nat) (revOnly : Bool) (post : List Val → Outcome Result) : Exchange :=
  let r := fresh reqGetLanConfigurationParameters
  let r := setBit r 0 2 (b2n revOnly)
  let r := setBit r 0 0 ch
  let r := setInt r 1 sel
  let r := setInt r 2 setSel
  let r := setInt r 3 blk
  { req := reqGetLanConfigurationParameters, rsp := rspGetLanConfigurationParameters, vals := .ok r, post := post }

/-- get_lan_config_param(channel, selector, set, block) in its normal mode, continued by `k` on the parameter
data (get_ip_address, get_ip_source, get_mac_address, get_vlan_id go through it) -/
def getLanParam (ch sel setSel blk : Nat) (k : List Nat → Outcome Result) : Exchange :=
  getLanRequest ch sel setSel blk false fun v => k (arrAt v 2)

/-- get_lan_config_param as INTENDED (fixes/C07-8): revision-only mode addresses the same channel / parameter
and returns `rsp.parameter_revision`; the normal mode returns `rsp.data` -/
def api_get_lan_config_param (ch sel setSel blk : Nat) (revOnly : Bool) : Exchange :=
  getLanRequest ch sel setSel blk revOnly fun v =>
    if revOnly then .ok (.nat (intAt v 1)) else .ok (.bytes (arrAt v 2))

/-- get_lan_config_param AS SHIPPED: with `revision_only=1` the `if revision_only != 1:` block that fills in
the channel number and the selectors is skipped (request byte 1 = 80h: channel 0, parameter 0) and `rsp.data`
- empty in this mode - is returned instead of the revision -/
def api_get_lan_config_param_shipped (ch sel setSel blk : Nat) (revOnly : Bool) : Exchange :=
  if revOnly then
    { req := reqGetLanConfigurationParameters, rsp := rspGetLanConfigurationParameters,
      vals := .ok (setBit (fresh reqGetLanConfigurationParameters) 0 2 1),
      post := fun v => .ok (.bytes (arrAt v 2)) }
  else api_get_lan_config_param ch sel setSel blk false

def api_set_lan_config_param (ch sel : Nat) (data : List Nat) : Exchange :=
  let r := fresh reqSetLanConfigurationParameters
  let r := setBit r 0 0 ch
  let r := setInt r 1 sel
  let r := setArr r 2 data
  { req := reqSetLanConfigurationParameters, rsp := rspSetLanConfigurationParameters, vals := .ok r,
    post := fun _ => .ok .unit }

def api_get_ip_address (ch : Nat) : Exchange :=
  getLanParam ch lanIp 0 0 fun d => .ok (.ip d)

/-- `ip` = the integers between the dots -/
def api_set_ip_address (ip : List Nat) (ch : Nat) : Exchange :=
  if ip.any (· ≥ 256) then .raise (.pyError "OverflowError") else api_set_lan_config_param ch lanIp ip

def api_get_ip_source (ch : Nat) : Exchange :=
  getLanParam ch lanIpSrc 0 0 fun d =>
    match d with
    | d0 :: _ =>
      match lookup rawToIpSrc (d0 % 16) with
      | some m => .ok (.ipSource m)
      | none => .pyError "KeyError"
    | [] => .pyError "IndexError"

def api_set_ip_source (src ch : Nat) : Exchange :=
  match lookup ipSrcToData src with
  | some d => api_set_lan_config_param ch lanIpSrc d
  | none => .raise (.pyError "ValueError")

def api_get_mac_address (ch : Nat) : Exchange :=
  getLanParam ch lanMac 0 0 fun d => .ok (.mac d)

/-- data_to_vlan -/
def dataToVlan (d : List Nat) : Outcome Nat :=
  match d with
  | d0 :: d1 :: _ => .ok (if d1 / 128 = 0 then 0 else (d1 % 16) * 256 ||| d0)
  | _ => .pyError "IndexError"

/-- vlan_to_data -/
def vlanToData (v : Nat) : Outcome (List Nat) :=
  if v > 4095 then .pyError "ValueError"
  else if v = 0 then .ok [0, 0]
  else .ok [v % 256, 128 ||| (v / 256 % 16)]

def api_get_vlan_id (ch : Nat) : Exchange :=
  getLanParam ch lanVlan 0 0 fun d => (dataToVlan d).bind fun v => .ok (.nat v)

def api_set_vlan_id (v ch : Nat) : Exchange :=
  match vlanToData v with
  | .ok d => api_set_lan_config_param ch lanVlan d
  | e => .raise (reraise e)

/-! ### ip_address_to_data on the TEXT of the argument: `ByteBuffer(map(int, ip_address.split('.')))` -/

/-- the ASCII characters `int()` / `str.strip()` skip at either end of a numeral -/
def isPyBlank (c : Char) : Bool :=
  c == ' ' || (9 ≤ c.toNat && c.toNat ≤ 13) || (28 ≤ c.toNat && c.toNat ≤ 31)

def dropBlanks : List Char → List Char
  | [] => []
  | c :: cs => if isPyBlank c then dropBlanks cs else c :: cs

/-- `str.strip()` -/
def pyStrip (cs : List Char) : List Char := (dropBlanks (dropBlanks cs).reverse).reverse

/-- `text.split('.')` -/
def splitDots : List Char → List (List Char)
  | [] => [[]]
  | c :: cs =>
    if c = '.' then [] :: splitDots cs
    else match splitDots cs with
      | w :: ws => (c :: w) :: ws
      | [] => [[c]]

/-- one item of `ByteBuffer(map(int, …))`: `int(text)` - blanks at either end dropped, an optional sign, then DECIMAL
digits only: leading zeros are digits like any other, the base is ten whatever the numeral begins with - and the
range check of `array('B')` for a negative number (values above 255 are refused by `api_set_ip_address`).
Underscores between digits and non-ASCII digits, which CPython's `int()` accepts too, are not modelled (ValueError). -/
def octetOfText (cs : List Char) : Outcome Nat :=
  let digits (ds : List Char) (neg : Bool) : Outcome Nat :=
    if ds.isEmpty || !ds.all Char.isDigit then .pyError "ValueError"
    else if neg && Nat.ofDigitChars 10 ds 0 ≠ 0 then .pyError "OverflowError"
    else .ok (Nat.ofDigitChars 10 ds 0)
  match pyStrip cs with
  | '+' :: ds => digits ds false
  | '-' :: ds => digits ds true
  | ds => digits ds false

def octetsOfTexts : List (List Char) → Outcome (List Nat)
  | [] => .ok []
  | w :: ws => (octetOfText w).bind fun n => (octetsOfTexts ws).bind fun ns => .ok (n :: ns)

/-- ip_address_to_data(text): the integers between the dots, each read as a decimal numeral -/
def ipAddressToData (text : List Char) : Outcome (List Nat) := octetsOfTexts (splitDots text)

/-- set_ip_address(text, channel) -/
def api_set_ip_address_text (text : List Char) (ch : Nat) : Exchange :=
  match ipAddressToData text with
  | .ok ip => api_set_ip_address ip ch
  | e => .raise (reraise e)

/-- a decimal numeral of `n` with `k` zeros in front ('010', '001', '08', '0255') -/
def numeral (k n : Nat) : List Char := List.replicate k '0' ++ Nat.toDigits 10 n

def joinDots : List (List Char) → List Char
  | [] => []
  | [w] => w
  | w :: ws => w ++ '.' :: joinDots ws

/-- the dotted spelling of `ip` whose i-th octet carries `pads[i]` leading zeros -/
def dotted (pads ip : List Nat) : List Char := joinDots (List.zipWith numeral pads ip)

end PyIpmi.Model.Api
