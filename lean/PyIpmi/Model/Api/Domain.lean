/-
  Model.Api.Domain — EXECUTABLE versions of the hypotheses of the C07 theorems, for the driver:

    wfB s        = true  →  s.Wf          (Lemmas/ApiAll.lean: `wfB_sound`)
    inRangeB c   = true  →  c.InRange     (Lemmas/ApiAll.lean: `inRangeB_sound`)

  The correspondence run asks the driver for both on every call it generates, so the evidence says how
  many of the exercised (state, call) pairs lie inside the domain the theorems speak about.  Core only.
-/
import PyIpmi.Spec.Bmc
namespace PyIpmi.Spec.Bmc

def allB {α} (m : Map α) (p : Nat → α → Bool) : Bool := m.entries.all fun e => p e.1 e.2
def optAll (o : Option Nat) (p : Nat → Bool) : Bool :=
  match o with
  | some a => p a
  | none => true
def bytesB (l : List Nat) : Bool := l.all (· < 256)

def ledFnWfB (checkOn : Bool) : LedFn → Bool
  | .blink o n => decide (1 ≤ o) && decide (o ≤ 250) && (!checkOn || (decide (1 ≤ n) && decide (n ≤ 250)))
  | _ => true

def portWfB (p : Port) : Bool := decide (p.flags < 16) && decide (p.linkType < 256) && decide (p.ext < 16)

def lanWfB (k : Nat) (d : List Nat) : Bool :=
  bytesB d && (k % 256 != 4 || decide (1 ≤ d.length)) && (k % 256 != 20 || decide (2 ≤ d.length))

/-- a description string: at most 12 characters, none of them NUL, one byte each -/
def descrWfB (d : List Nat) : Bool := decide (d.length ≤ 12) && d.all fun c => decide (0 < c) && decide (c < 256)

def powerReadingWfB (p : PowerReading) : Bool :=
  decide (p.current < 65536) && decide (p.minimum < 65536) && decide (p.maximum < 65536) && decide (p.average < 65536)
  && decide (p.timestamp < 4294967296) && decide (p.period < 4294967296)

def wfB (s : BmcState) : Bool :=
  let d := s.device
  let w := s.watchdog
  decide (d.revision < 16) && decide (d.fwMajor < 128) && decide (d.fwMinor < 100) && decide (d.ipmiMajor < 16)
  && decide (d.ipmiMinor ≤ 9) && decide (d.support < 256) && decide (d.manufacturer < 16777216)
  && decide (d.product < 65536) && (match d.aux with | some a => decide (a.length = 4) | none => true)
  && decide (s.guid.length = 16)
  && decide (w.timerUse < 8) && decide (w.action < 8) && decide (w.preInterrupt < 8) && decide (w.initial < 65536)
  && decide (w.present < 65536)
  && decide (s.chassis.restorePolicy < 4) && decide (s.chassis.idState < 4)
  && allB s.bootParams (fun k d => k != 5 || decide (2 ≤ d.length))
  && allB s.lan lanWfB
  && allB s.lanRev (fun _ r => decide (r < 256))
  && allB s.userNames (fun _ n => decide (n.length ≤ 16))
  && allB s.userEnabled (fun _ e => decide (e < 4))
  && decide (s.maxUsers < 64) && decide (s.fixedNames < 64)
  && allB s.sensors (fun _ x => optAll x.states1 (· < 256) && optAll x.states2 (· < 128) && bytesB x.thresholds)
  && decide (s.evReceiverAddr < 256) && decide (s.evReceiverLun < 4)
  && allB s.leds (fun _ x => ledFnWfB true x.localFn && ledFnWfB false x.overrideFn)
  && allB s.ports (fun _ p => portWfB p)
  && allB s.power (fun _ p => decide (p.level < 32))
  && allB s.sigClass (fun _ c => decide (c < 16))
  && allB s.powerChannels (fun _ c => decide (c.status < 128))
  && decide (s.pmGlobal < 16) && decide (s.hpm.components < 256) && decide (s.hpm.selftest2 < 256)
  && decide (s.hpm.rollbackStatus < 256) && optAll s.hpm.rollbackEstimate (· < 256)
  && allB s.hpm.compDescr (fun _ d => descrWfB d)
  && decide (s.dcmi.confMajor < 256) && decide (s.dcmi.confMinor < 256)
  && allB s.dcmi.power (fun _ p => powerReadingWfB p)
  && allB s.dcmi.sensors (fun _ l => l.all (· < 65536))

def ledCmdInRangeB : LedCmd → Bool
  | .override (.blink o n) color => decide (1 ≤ o) && decide (o ≤ 250) && decide (n < 256) && decide (color < 16)
  | .override _ color => decide (color < 16)
  | .lampTest d color => decide (d < 128) && decide (color < 16)
  | .restoreLocal => false

def inRangeB : Call → Bool
  | .setWatchdog c =>
    decide (c.timerUse < 8) && decide (c.action < 8) && decide (c.preInterrupt < 8) && decide (c.preInterval < 256)
    && decide (c.clearFlags < 256) && decide (c.initial < 65536)
  | .chassisControl opt => decide (opt < 16)
  | .chassisControlNamed idx => decide (idx < 6)
  | .getBootParam sel setSel blk => decide (sel < 128) && decide (setSel < 256) && decide (blk < 256)
  | .setBootParam sel data _ => decide (sel < 128) && bytesB data && (sel != 5 || decide (2 ≤ data.length))
  | .getLanParam ch sel setSel blk _ => decide (ch < 16) && decide (sel < 256) && decide (setSel < 256) && decide (blk < 256)
  | .setLanParam ch sel data => decide (ch < 16) && decide (sel < 256) && lanWfB sel data
  | .getIp ch | .getIpSource ch | .getMac ch | .getVlan ch => decide (ch < 16)
  | .setIp ip ch => decide (ch < 16) && bytesB ip
  | .setIpSource code ch => decide (ch < 16) && (code == 1 || code == 2)
  | .setVlan v ch => decide (ch < 16) && decide (v ≤ 4095)
  | .setUserName uid name => decide (uid < 64) && decide (name.length ≤ 16)
  | .getUserName uid => decide (uid < 64)
  | .getUserAccess uid ch => decide (uid < 64) && decide (ch < 16)
  | .setUserAccess a =>
    decide (a.userId < 64) && decide (a.channel < 16) && [0, 1, 2, 3, 4, 5, 15].contains a.privilege
    && decide (a.sessionLimit < 16)
  | .setUserPassword uid pw => decide (uid < 64) && decide (pw.length ≤ 16)
  | .enableUser uid | .disableUser uid => decide (uid < 64)
  | .getSensorReading num _ | .getSensorThresholds num _ | .rearmSensorEvents num => decide (num < 256)
  | .setSensorThresholds num _ vals => decide (num < 256) && vals.all fun o => optAll o (· < 256)
  | .sendPlatformEvent e =>
    decide (e.evmRev = 4) && decide (e.sensorType < 256) && decide (e.sensorNum < 256) && decide (e.eventType < 128)
    && decide (1 ≤ e.data.length) && decide (e.data.length ≤ 3)
  | .setEventReceiver a l => decide (a < 128) && decide (l < 4)
  | .fruControl fru opt => decide (fru < 256) && decide (opt < 256)
  | .fruControlNamed idx fru => decide (idx < 4) && decide (fru < 256)
  | .getPowerLevel fru ty => decide (fru < 256) && decide (ty < 256)
  | .getFanSpeedProperties fru | .getFanLevel fru => decide (fru < 256)
  | .setFanLevel fru lvl => decide (fru < 256) && decide (lvl < 256)
  | .getLedState fru led => decide (fru < 256) && decide (led < 256)
  | .setLedState fru led c => decide (fru < 256) && decide (led < 256) && ledCmdInRangeB c
  | .setFruActivation fru _ | .setFruActivationPolicy fru _ => decide (fru < 256)
  | .fruLockNamed idx fru => decide (idx < 4) && decide (fru < 256)
  | .setPortState iface ch p =>
    decide (iface < 4) && decide (ch < 64) && p.hasLink && portWfB p && decide (p.grouping < 256) && decide (p.state < 256)
  | .setPortStateType8 iface ch p =>
    decide (iface < 4) && decide (ch < 64) && p.hasLink && portWfB p && decide (p.grouping < 256) && decide (p.state < 256)
  | .getPortState ch iface => decide (ch < 64) && decide (iface < 4)
  | .getPowerChannelStatus start => decide (start < 256)
  | .sendChannelPower ch _ lim pri bak => decide (ch < 256) && decide (lim < 256) && decide (pri < 256) && decide (bak < 256)
  | .setSignalingClass iface ch cls => decide (iface < 4) && decide (ch < 64) && decide (cls < 16)
  | .getSignalingClass iface ch => decide (iface < 4) && decide (ch < 64)
  | .getComponentDescription id => decide (id < 256)
  | .getDcmiCapabilities sel => decide (sel < 256)
  | .getPowerReading mode attrs => decide (mode < 256) && decide (attrs < 256)
  | _ => true

end PyIpmi.Spec.Bmc
