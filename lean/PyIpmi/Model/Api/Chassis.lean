/- pyipmi/chassis.py: Chassis.* and ChassisStatus._from_response (intended variant: the two status
   lists belong to the instance), boot-option helpers with the GENERATED conversion tables. -/
import PyIpmi.Model.Api.Core
import PyIpmi.Gen.Tables
namespace PyIpmi.Model.Api
open PyIpmi PyIpmi.Codec PyIpmi.Spec.Bmc PyIpmi.Gen.Tables

def api_get_chassis_status : Exchange :=
  { req := reqGetChassisStatus, rsp := rspGetChassisStatus, vals := .ok (fresh reqGetChassisStatus),
    post := fun v =>
      .ok (.chassis {
        powerOn := n2b (bitAt v 1 0), overload := n2b (bitAt v 1 1), interlock := n2b (bitAt v 1 2),
        fault := n2b (bitAt v 1 3), controlFault := n2b (bitAt v 1 4), restorePolicy := bitAt v 1 5,
        evAcFailed := n2b (bitAt v 2 0), evOverload := n2b (bitAt v 2 1), evInterlock := n2b (bitAt v 2 2),
        evFault := n2b (bitAt v 2 3), evIpmiOn := n2b (bitAt v 2 4),
        intrusion := n2b (bitAt v 3 0), lockout := n2b (bitAt v 3 1), driveFault := n2b (bitAt v 3 2),
        coolingFault := n2b (bitAt v 3 3), idState := bitAt v 3 4, idSupported := n2b (bitAt v 3 5),
        frontPanel := optIntAt v 4 }) }

def api_chassis_control (opt : Nat) : Exchange :=
  { req := reqChassisControl, rsp := rspChassisControl, vals := .ok (setBit (fresh reqChassisControl) 0 0 opt),
    post := fun _ => .ok .unit }

/-- chassis_control_power_down … soft_shutdown: the option is whatever constant the wrapper passes -/
def api_chassis_control_named (idx : Nat) : Exchange :=
  match chassisControlOption[idx]? with
  | some opt => api_chassis_control opt
  | none => .raise (.pyError "AttributeError")

/-- get_system_boot_options, continued by `k` on the parameter data -/
def getBootOptions (sel setSel blk : Nat) (k : List Nat → Outcome Result) : Exchange :=
  let r := fresh reqGetSystemBootOptions
  let r := setBit r 0 0 sel
  let r := setInt r 1 setSel
  let r := setInt r 2 blk
  { req := reqGetSystemBootOptions, rsp := rspGetSystemBootOptions, vals := .ok r, post := fun v => k (arrAt v 3) }

def api_get_system_boot_options (sel setSel blk : Nat) : Exchange :=
  getBootOptions sel setSel blk fun d => .ok (.bytes d)

def api_set_system_boot_options (sel : Nat) (data : List Nat) (invalid : Bool) : Exchange :=
  let r := fresh reqSetSystemBootOptions
  let r := setBit r 0 1 (b2n invalid)
  let r := setBit r 0 0 sel
  let r := setArr r 1 data
  { req := reqSetSystemBootOptions, rsp := rspSetSystemBootOptions, vals := .ok r, post := fun _ => .ok .unit }

def api_get_boot_mode : Exchange :=
  getBootOptions bootFlagsSelector 0 0 fun d =>
    match d with
    | d0 :: _ => .ok (.bool (d0 / 32 % 2 != 0))
    | [] => .pyError "IndexError"

def api_get_boot_persistency : Exchange :=
  getBootOptions bootFlagsSelector 0 0 fun d =>
    match d with
    | d0 :: _ => .ok (.bool (d0 / 64 % 2 == 1))
    | [] => .pyError "IndexError"

/-- data_to_boot_device: `CONVERT_RAW_TO_BOOT_DEVICE[(data[1] >> 2) & 0b1111]` -/
def api_get_boot_device : Exchange :=
  getBootOptions bootFlagsSelector 0 0 fun d =>
    match d with
    | _ :: d1 :: _ =>
      match lookup rawToBootDevice (d1 / 4 % 16) with
      | some i => .ok (.bootDev (BootDev.all[i]?))
      | none => .pyError "KeyError"
    | _ => .pyError "IndexError"

def bootDevIdx (d : BootDev) : Nat := BootDev.all.idxOf d

/-- boot_options_to_data + set_system_boot_options(BOOT_PARAMETER_BOOT_FLAGS, data) -/
def api_set_boot_options (dev : BootDev) (efi persistent : Bool) : Exchange :=
  match lookup bootDeviceToRaw (bootDevIdx dev) with
  | none => .raise (.pyError "ValueError")
  | some raw =>
    let mode := if efi then 32 else 0
    let pers := if persistent then 192 else 128
    if raw * 4 ≥ 256 then .raise (.pyError "OverflowError")
    else api_set_system_boot_options bootFlagsSelector [mode ||| pers, raw * 4, 0, 0, 0] false

end PyIpmi.Model.Api
