/-
  Executable model that MIRRORS pyipmi/hpm.py (image parser, firmware upload loop),
  pyipmi/fields.py:VersionField and pyipmi/utils.py:chunks.  Offsets, lengths, byte orders,
  the block size, the block-number mask and the completion codes tested are NOT written here:
  they come from `PyIpmi.Gen.Hpm`, regenerated from the source on every run.  Core Lean only.

  Python slices never fail (`slice`), indexing and `struct.unpack` do (`pyError`).

  Four statements exist in two variants (DESIGN §2.4):
    * `oemWholeRest`  – as shipped `oem_data = data[34:-1]`; intended `data[34:34+oem_data_length]`
    * `descEscapes`   – as shipped the description is decoded with the `raw_unicode_escape`
                        codec (interprets `\uXXXX`, fails on a malformed escape); intended:
                        one character per byte.
    * `oemUnsetEmpty` – as shipped `oem_data` is assigned only `if self.oem_data_length:` – a header
                        without OEM data has NO `oem_data` attribute; intended: assigned always
                        (the empty byte string for length 0).
    * `checked` (upload) – as shipped `wait_for_long_duration_command` returns nothing and
                        `upload_binary` goes on with the next block whatever the status polls said;
                        intended: a final completion code other than 00h, or 80h still reported
                        when the time-out expires, raises HpmError.
-/
import PyIpmi.Base.Bytes
import PyIpmi.Base.Outcome
import PyIpmi.Gen.Hpm
import PyIpmi.Spec.HpmFormat
import PyIpmi.Spec.HpmDevice
namespace PyIpmi.Hpm
open PyIpmi PyIpmi.Gen.Hpm
open PyIpmi.Spec.HpmFormat (VersionView HeaderView UploadView ActionView ImageView)
open PyIpmi.Spec.HpmDevice (Dev Rsp Ev Reply)

structure Variant where
  oemWholeRest : Bool
  descEscapes : Bool
  oemUnsetEmpty : Bool
  deriving Repr, DecidableEq

def Variant.asShipped : Variant := ⟨true, true, true⟩
def Variant.intended : Variant := ⟨false, false, false⟩

/-- Python `l[a:b]` for `0 ≤ a`, `0 ≤ b` -/
def slice (a b : Nat) (l : List Nat) : List Nat := (l.take b).drop a

def readInt (le : Bool) (bs : List Nat) : Nat := if le then leVal bs else leVal bs.reverse

/-- `struct.unpack(a.format, data[a.start:a.start+a.len])[0]` (struct.error on a short slice) -/
def unpackFld (f : Fld) (data : List Nat) : Outcome Nat :=
  if (slice f.start (f.start + f.len) data).length = f.len then
    .ok (readInt f.le (slice f.start (f.start + f.len) data))
  else .pyError "error"

def byteAt (i : Nat) (data : List Nat) : Outcome Nat :=
  match data[i]? with
  | some b => .ok b
  | none => .pyError "IndexError"

/-! ### fields.VersionField -/

/-- `_decode_data` on the minor byte: 0xff is kept, bytes up to 0x99 go through the 'bcd+'
codec (`BCD_MAP` = 0..9, ' ', '-', '.') and `int()`, anything else is a DecodingError. -/
def decodeMinor (b : Nat) : Outcome Nat :=
  if b = minorUndefined then .ok b
  else if b ≤ minorBcdMax then
    if b / 16 % 16 ≤ 9 then
      if b % 16 ≤ 9 then .ok (10 * (b / 16 % 16) + b % 16)
      else if b % 16 = 10 then .ok (b / 16 % 16)     -- int("7 ") = 7
      else .pyError "ValueError"                     -- "7-", "7.", or no map entry
    else if b / 16 % 16 = 10 ∧ b % 16 ≤ 9 then .ok (b % 16)   -- int(" 7") = 7
    else .pyError "ValueError"
  else .decodingError

/-- `VersionField(s)` for a non-empty slice `s` -/
def versionField (s : List Nat) : Outcome VersionView :=
  match s with
  | maj :: b :: _ =>
    match decodeMinor b with
    | .ok m => .ok ⟨maj, m, if s.length = versionAuxLen then some (slice versionLen versionAuxLen s) else none⟩
    | .decodingError => .decodingError
    | _ => .pyError "ValueError"
  | _ => .pyError "IndexError"

/-! ### UpgradeImageHeaderRecord -/

/-- `for i in range(8): if data[20] & (1 << i): components.append(i)` -/
def componentsOfByte (b : Nat) : List Nat :=
  (List.range componentBits).filter (fun i => b &&& (1 <<< i) != 0)

def parseHeader (v : Variant) (data : List Nat) : Outcome HeaderView :=
  if data.isEmpty then .pyError "AttributeError"      -- `if data:` false, no `length` attribute
  else
    (unpackFld hfFormatVersion data).bind fun fv =>
    (unpackFld hfDeviceId data).bind fun dev =>
    (unpackFld hfProductId data).bind fun prod =>
    (unpackFld hfTime data).bind fun tm =>
    (unpackFld hfCapabilities data).bind fun cap =>
    (unpackFld hfSelftestTimeout data).bind fun st =>
    (unpackFld hfRollbackTimeout data).bind fun rb =>
    (unpackFld hfInaccessibilityTimeout data).bind fun ina =>
    (unpackFld hfEarliestCompatibleRevision data).bind fun _ =>
    (unpackFld hfOemDataLength data).bind fun oemLen =>
    (byteAt componentsIdx data).bind fun cb =>
    (versionField (slice ecrStart (ecrStart + versionLen) data)).bind fun ecr =>
    (versionField (slice frStart (frStart + versionAuxLen) data)).bind fun fr =>
    (byteAt (oemStart + oemLen) data).bind fun chk =>
    .ok { signature := slice 0 sigEnd data, formatVersion := fv, deviceId := dev,
          -- data[10] | data[11] << 8 | data[12] << 16  (three bytes, LS first)
          manufacturerId := leVal (slice man0 (man0 + 3) data),
          productId := prod, time := tm, capabilities := cap,
          components := componentsOfByte cb,
          selftestTimeout := st, rollbackTimeout := rb, inaccessibilityTimeout := ina,
          earliest := ecr, firmwareRevision := fr, oemLength := oemLen,
          oem := if oemLen = 0 then []                 -- `data[34:34]`, or the attribute is not set
                 else if v.oemWholeRest then data.dropLast.drop oemStart
                 else slice oemStart (oemStart + oemLen) data,
          -- `if self.oem_data_length: self.oem_data = …`: no attribute for length 0
          oemPresent := !(v.oemUnsetEmpty && oemLen == 0),
          checksum := chk, length := oemStart + oemLen + headerChkLen }

/-! ### `bytes.decode('raw_unicode_escape')` (CPython `_PyUnicode_DecodeRawUnicodeEscapeStateful`) -/

def hexDigitVal (c : Nat) : Option Nat :=
  if 48 ≤ c ∧ c ≤ 57 then some (c - 48)
  else if 97 ≤ c ∧ c ≤ 102 then some (c - 87)
  else if 65 ≤ c ∧ c ≤ 70 then some (c - 55)
  else none

def hexValue : List Nat → Option Nat
  | [] => some 0
  | c :: r => match hexDigitVal c, hexValue r with
    | some d, some v => some (d * 16 ^ r.length + v)
    | _, _ => none

def rawUnicodeEscape : Nat → List Nat → Outcome (List Nat)
  | 0, _ => .ok []
  | _ + 1, [] => .ok []
  | f + 1, c :: rest =>
    if c ≠ 0x5C then (rawUnicodeEscape f rest).bind fun t => .ok (c :: t)
    else match rest with
      | [] => .ok [0x5C]
      | d :: rest' =>
        let n := if d = 0x75 then 4 else if d = 0x55 then 8 else 0
        if n = 0 then (rawUnicodeEscape f rest').bind fun t => .ok (0x5C :: d :: t)
        else if (rest'.take n).length < n then .pyError "UnicodeDecodeError"
        else match hexValue (rest'.take n) with
          | none => .pyError "UnicodeDecodeError"
          | some v =>
            if v > 0x10FFFF then .pyError "UnicodeDecodeError"
            else (rawUnicodeEscape f (rest'.drop n)).bind fun t => .ok (v :: t)

def decodeDescription (v : Variant) (s : List Nat) : Outcome (List Nat) :=
  if v.descEscapes then rawUnicodeEscape (s.length + 1) s else .ok s

/-! ### UpgradeActionRecord and subclasses -/

/-- `UpgradeActionRecord.__init__`: three single bytes -/
def recordBase (data : List Nat) : Outcome ActionView :=
  match data with
  | t :: c :: k :: _ => .ok ⟨t, c, k, recHeaderLen, none⟩
  | [] => .pyError "IndexError"
  | _ => .pyError "error"

def uploadRecord (v : Variant) (data : List Nat) : Outcome ActionView :=
  (recordBase data).bind fun base =>
  (versionField (slice upVerStart (upVerStart + versionAuxLen) data)).bind fun ver =>
  (decodeDescription v (slice upDescStart upDescEnd data)).bind fun desc =>
  if (slice upLenStart upLenEnd data).length = upLenEnd - upLenStart then
    let n := readInt fwLengthLe (slice upLenStart upLenEnd data)
    .ok { base with length := base.length + (upLenExtra + n),
                    upload := some ⟨ver, desc, n, slice upDataStart (upDataStart + n) data⟩ }
  else .pyError "error"

/-- `UpgradeActionRecord.create_from_data` -/
def createFromData (v : Variant) (data : List Nat) : Outcome ActionView :=
  match data with
  | [] => .pyError "IndexError"
  | t :: _ =>
    if t = actBackup then recordBase data
    else if t = actPrepare then recordBase data
    else if t = actUpload then uploadRecord v data
    else if t = actCompare then recordBase data
    else .hpmError

/-- the `while (off + 16) < len(file_data)` loop; a record is at least three bytes long, so
`fuel = len(file_data)` iterations always suffice -/
def parseActions (v : Variant) (data : List Nat) : Nat → Nat → List ActionView → Outcome (List ActionView × Nat)
  | 0, off, acc => .ok (acc, off)
  | fuel + 1, off, acc =>
    if off + trailerLen < data.length then
      match createFromData v (data.drop off) with
      | .ok a => parseActions v data fuel (off + a.length) (acc ++ [a])
      | .decodingError => .decodingError
      | .hpmError => .hpmError
      | .pyError n => .pyError n
      | _ => .pyError "?"
    else .ok (acc, off)

/-- `UpgradeImage._from_file` on the file content -/
def parseImage (v : Variant) (data : List Nat) : Outcome ImageView :=
  (parseHeader v data).bind fun h =>
  (parseActions v data data.length h.length []).bind fun r =>
  .ok { header := h, actions := r.1,
        trailer := slice 0 trailerLen (data.drop r.2),         -- ImageChecksumRecord(file_data[off:])
        expected := data.drop (data.length - trailerLen) }     -- filedata[-16:]

/-! ### utils.chunks and the upload loop -/

set_option linter.unusedVariables false in
/-- `for i in range(0, len(data), count): yield data[i:i+count]` (for `count > 0`) -/
def chunks (n : Nat) (l : List Nat) : List (List Nat) :=
  if h : n = 0 ∨ l = [] then []
  else l.take n :: chunks n (l.drop n)
termination_by l.length
decreasing_by
  have h1 : n ≠ 0 := fun e => h (Or.inl e)
  have h2 : l ≠ [] := fun e => h (Or.inr e)
  have : 0 < l.length := List.length_pos_iff.mpr h2
  simp only [List.length_drop]
  omega

/-- requester state: the device and the virtual clock (`time.time()`; `sleep` adds to it, and
every request costs `lat` ticks) -/
structure St where
  dev : Dev
  now : Nat

/-- `wait_for_long_duration_command`: the `while time.time() < start_time + timeout` loop.
Every iteration that does not return consumes one pending "in progress" answer of the device,
hence `fuel = pending + 1` (the plans never name 80h as a FINAL code).  Result: `some c` when a
status answer carried the last completion code `c` ≠ 80h (the loop returns there), `none` when
the time-out expired while the device still reported 80h. -/
def waitLoop (interval deadline lat : Nat) : Nat → St → Option Nat × St
  | 0, s => (none, s)
  | f + 1, s =>
    if s.now < deadline then
      match s.dev.getStatus with
      | (.status _ last, d) =>
        if last = ccInProgress then waitLoop interval deadline lat f ⟨d, s.now + lat + interval⟩
        else (some last, ⟨d, s.now + lat⟩)
      | (_, d) => (none, ⟨d, s.now + lat⟩)
    else (none, s)

def waitLong (timeout interval lat : Nat) (s : St) : Option Nat × St :=
  waitLoop interval (s.now + timeout) lat (s.dev.pending + 1) s

/-- what `upload_binary` does with the outcome of the wait.  As shipped (`checked = false`)
nothing: the next block follows.  Intended: only a final 00h lets the upload go on; any other
final code, and a time-out with 80h still pending, raise HpmError. -/
def afterWait (checked : Bool) (r : Option Nat) : Bool :=
  !checked || r == some ccOk

/-- body of `for chunk in chunks(binary, block_size)` in `upload_binary` -/
def uploadLoop (checked : Bool) (timeout interval lat : Nat) :
    List (List Nat) → Nat → Int → St → Outcome Unit × St
  | [], _, _, s => (.ok (), s)
  | c :: cs, num, retry, s =>
    match s.dev.upload num c with
    | (.cc cc, d) =>
      if cc = 0 then
        uploadLoop checked timeout interval lat cs ((num + blockIncr) &&& blockMask) retry ⟨d, s.now + lat⟩
      else if cc = ccInProgress then
        if afterWait checked (waitLong timeout interval lat ⟨d, s.now + lat⟩).1 then
          uploadLoop checked timeout interval lat cs ((num + blockIncr) &&& blockMask) retry
            (waitLong timeout interval lat ⟨d, s.now + lat⟩).2
        else (.hpmError, (waitLong timeout interval lat ⟨d, s.now + lat⟩).2)
      else (.hpmError, ⟨d, s.now + lat⟩)
    | (.silent, d) =>
      if retry - retryDec = retryFloor then (.timeoutError, ⟨d, s.now + lat⟩)
      else uploadLoop checked timeout interval lat cs ((num + blockIncr) &&& blockMask) (retry - retryDec) ⟨d, s.now + lat⟩
    | (.status _ _, d) => (.pyError "?", ⟨d, s.now + lat⟩)

/-- `Hpm.upload_binary(binary, timeout, interval, retry)` with block size `bs` -/
def uploadBinary (checked : Bool) (bs timeout interval lat : Nat) (retry : Int) (binary : List Nat) (dev : Dev) :
    Outcome Unit × St :=
  if bs = 0 then (.pyError "ValueError", ⟨dev, 0⟩)   -- range() arg 3 must not be zero
  else uploadLoop checked timeout interval lat (chunks bs binary) firstBlock retry ⟨dev, 0⟩

/-! ### the repaired loop: a block whose request got no answer is sent again (fixes/C18-5)

`for chunk in chunks(...)`: `tries = retry`; `while True:` the request; 00h / 80h + a wait that went well `break`;
`IpmiTimeoutError`: `tries -= 1`, `if tries <= 0: raise`, `continue` - the SAME chunk with the SAME number.
Which of the two loops the source has is read by the translator (`Gen.Hpm.uploadResend`) and probed on the real
code by the harness. -/

/-- the `while True:` around one block.  `none` = `break` (go on with the next block); fuel = number of
requests this block may still cost (`tries` of them can be unanswered, see `uploadLoopR`). -/
def sendBlockR (checked : Bool) (timeout interval lat : Nat) (num : Nat) (c : List Nat) :
    Nat → Int → St → Option (Outcome Unit) × St
  | 0, _, s => (some (.pyError "fuel"), s)
  | f + 1, tries, s =>
    match s.dev.upload num c with
    | (.cc cc, d) =>
      if cc = 0 then (none, ⟨d, s.now + lat⟩)
      else if cc = ccInProgress then
        if afterWait checked (waitLong timeout interval lat ⟨d, s.now + lat⟩).1 then
          (none, (waitLong timeout interval lat ⟨d, s.now + lat⟩).2)
        else (some .hpmError, (waitLong timeout interval lat ⟨d, s.now + lat⟩).2)
      else (some .hpmError, ⟨d, s.now + lat⟩)
    | (.silent, d) =>
      if tries - retryDec ≤ retryFloor then (some .timeoutError, ⟨d, s.now + lat⟩)
      else sendBlockR checked timeout interval lat num c f (tries - retryDec) ⟨d, s.now + lat⟩
    | (.status _ _, d) => (some (.pyError "?"), ⟨d, s.now + lat⟩)

/-- body of `for chunk in chunks(binary, block_size)` of the repaired `upload_binary` -/
def uploadLoopR (checked : Bool) (timeout interval lat : Nat) (retry : Int) :
    List (List Nat) → Nat → St → Outcome Unit × St
  | [], _, s => (.ok (), s)
  | c :: cs, num, s =>
    match sendBlockR checked timeout interval lat num c (retry.toNat + 1) retry s with
    | (none, s') => uploadLoopR checked timeout interval lat retry cs ((num + blockIncr) &&& blockMask) s'
    | (some o, s') => (o, s')

/-- the repaired `Hpm.upload_binary(binary, timeout, interval, retry)` with block size `bs` -/
def uploadBinaryR (checked : Bool) (bs timeout interval lat : Nat) (retry : Int) (binary : List Nat) (dev : Dev) :
    Outcome Unit × St :=
  if bs = 0 then (.pyError "ValueError", ⟨dev, 0⟩)
  else uploadLoopR checked timeout interval lat retry (chunks bs binary) firstBlock ⟨dev, 0⟩

/-- `upload_binary` as the source has it: `resend = Gen.Hpm.uploadResend` -/
def uploadBinaryV (resend checked : Bool) (bs timeout interval lat : Nat) (retry : Int) (binary : List Nat)
    (dev : Dev) : Outcome Unit × St :=
  if resend then uploadBinaryR checked bs timeout interval lat retry binary dev
  else uploadBinary checked bs timeout interval lat retry binary dev

end PyIpmi.Hpm
