/-
  Executable model of SDR record parsing (C16): `SdrCommon.from_data`, `SdrCommon.__init__`,
  `_common_header`, `_common_record_key`, `_entity`, `_device_id_string`, every `_from_data`
  of pyipmi/sdr.py, `fields.TypeLengthString._from_data` / `_unpack6bitascii` (+ its BCD plus table
  of the SDR path) and `utils.bcd_decode`, mirroring the Python: same bit expressions (`&`, `|`, `<<`, `>>`), same
  order of pops, same laxness (no length check, trailing bytes ignored, short id strings
  accepted) and the same exception kinds (`DecodingError` from `ByteBuffer`, `IndexError`,
  `AttributeError`, `ValueError` as `pyError`).  Input: the record as a byte list.

  `Variant` carries the places where the pinned source deviates from the property
  (DESIGN §2.4); `Variant.asShipped` is the pinned code, `Variant.intended` the repaired code.
  The correspondence run probes the real code to decide which flags it must agree with.

  Attribute values use `Spec.Sdr.Val` / `Fields` (name ↦ value, in assignment order) so
  that the parse result can be compared with the specification's view literally.
  Core only.
-/
import PyIpmi.Base.Outcome
import PyIpmi.Model.Sensor
import PyIpmi.Spec.SdrFormat
import PyIpmi.Gen.SdrTables
namespace PyIpmi.SdrParse
open PyIpmi PyIpmi.Spec.Sdr

/-- Deviations of the pinned source (true = as shipped). -/
structure Variant where
  /-- `accuracy = (b_acc & 0x3f) | ((acc_accexp & 0xf0) << 4)`  (intended `<< 2`) -/
  accShift4 : Bool
  /-- `rate_unit = (units_1 >> 3) >> 0x7`  (intended `& 0x7`) -/
  rateShr7 : Bool
  /-- `modifier_unit = (units_1 >> 1) & 0x2`  (intended `& 0x3`) -/
  modAnd2 : Bool
  /-- `device_id_string_type = (buffer[0] & 0xc0) >> 4`  (intended `>> 6`) -/
  idTypeShr4 : Bool
  /-- BCD+: `self.raw.decode('bcd+')` on an `array` raises AttributeError  (intended: decodes) -/
  bcdRaises : Bool
  /-- 6-bit: a final group of 1 or 2 bytes raises IndexError  (intended: 1 resp. 2 characters) -/
  sixBitStrict : Bool
  /-- BCD+ of an SDR id string is decoded with the 'bcd+' codec, i.e. the 13-entry FRU table
  `utils.BCD_MAP`: a nibble Dh, Eh or Fh raises ValueError  (intended: the sixteen codes of §43.15,
  `TypeLengthString.SDR_BCD_PLUS` indexed by the two nibbles) -/
  bcdFruTable : Bool
  /-- `channel_number` of the FRU device locator and of the MC confirmation record is the raw byte
  (intended: bits [7:4]; the confirmation record's [3:0] are reported as `device_revision`) -/
  chanRaw : Bool
  /-- `logical_physical` of the FRU device locator is the raw key byte 8 and its other two sub-fields are not
  reported  (intended: `logical_physical` = bit [7], `access_lun` = [4:3], `private_bus_id` = [2:0]) -/
  lpRaw : Bool
  /-- `_common_record_key` masks the channel number [7:4] of key byte 7 away (`& 0x3`) and reports it nowhere
  (intended: `channel_number` = [7:4] next to `owner_lun` = [1:0]) -/
  keyNoChannel : Bool
  deriving Repr, DecidableEq, Inhabited

def Variant.asShipped : Variant := ⟨true, true, true, true, true, true, true, true, true, true⟩
def Variant.intended : Variant := ⟨false, false, false, false, false, false, false, false, false, false⟩

/-- `_common_record_key(buffer.pop_slice(3))`: owner id, byte 7 ([7:4] channel number, [1:0] owner LUN), number. -/
def recordKey (v : Variant) (oid olun num : Nat) : Fields :=
  [("owner_id", .nat oid)] ++
  (if v.keyNoChannel then [] else [("channel_number", .nat (olun >>> 4))]) ++
  [("owner_lun", .nat (olun &&& 0x3)), ("number", .nat num)]

/-- What `from_data` returns: the class (as kind), the attributes the specification speaks
about, and attributes the specification does not speak about (compared with the real code by
the correspondence run only). -/
structure Parsed where
  kind : Kind
  fields : Fields
  extra : Fields
  deriving Repr, DecidableEq, Inhabited

/-- `ByteBuffer.pop_unsigned_int(n)` on the `n` bytes popped: `value |= b << (8*i)`. -/
def leOr : List Nat → Nat
  | [] => 0
  | b :: bs => b ||| (leOr bs <<< 8)

def Kind.ofTag : Nat → Kind
  | 0 => .full | 1 => .compact | 2 => .eventOnly | 3 => .fruLocator | 4 => .mcLocator
  | 5 => .mcConfirmation | 6 => .oem | _ => .unknown

/-- `{…}.get(sdr_type, SdrUnknownSensorRecord)` with the generated table. -/
def kindOf (ty : Nat) : Kind :=
  Kind.ofTag ((List.lookup ty Gen.SdrTables.dispatch).getD Gen.SdrTables.dispatchDefault)

/-- `[name for mask in masks if byte & mask]` (as the list of masks). -/
def flagsOf (masks : List Nat) (byte : Nat) : List Nat :=
  masks.filter fun m => byte &&& m ≠ 0

/-! ### id string: `_device_id_string` → `TypeLengthString(data=buffer[0:1+len])` -/

/-- `utils.bcd_decode`: `BCD_MAP[data >> 4 & 0xf] + BCD_MAP[data & 0xf]`, IndexError → ValueError. -/
def bcdDecode : List Nat → Outcome (List Nat)
  | [] => .ok []
  | d :: ds =>
    match Gen.SdrTables.bcdMap[(d >>> 4) &&& 0xf]?, Gen.SdrTables.bcdMap[d &&& 0xf]? with
    | some hi, some lo =>
      match bcdDecode ds with
      | .ok rest => .ok (hi :: lo :: rest)
      | e => e
    | _, _ => .pyError "ValueError"

/-- The BCD plus decoder of the SDR path (intended):
`''.join(self.SDR_BCD_PLUS[b >> 4] + self.SDR_BCD_PLUS[b & 0xf] for b in self.raw)`, with
`SDR_BCD_PLUS = '0123456789 -.:,_'` (`Spec.Sdr.bcdPlusSdr`; `Props.C16.bcd_plus_sdr_table` proves that the table
regenerated from the working tree, `Gen.SdrTables.sdrBcdMap`, is this one). -/
def sdrBcdDecode : List Nat → Outcome (List Nat)
  | [] => .ok []
  | d :: ds =>
    match bcdPlusSdr[d >>> 4]?, bcdPlusSdr[d &&& 0xf]? with
    | some hi, some lo =>
      match sdrBcdDecode ds with
      | .ok rest => .ok (hi :: lo :: rest)
      | e => e
    | _, _ => .pyError "IndexError"

/-- `_unpack6bitascii`: groups of three bytes, four characters each.  As shipped a final group
of one or two bytes raises IndexError (`d[1]` / `d[2]`); intended: one resp. two characters. -/
def unpack6 (strict : Bool) : List Nat → Outcome (List Nat)
  | [] => .ok []
  | [d0] =>
    if strict then .pyError "IndexError" else .ok [0x20 + (d0 &&& 0x3f)]
  | [d0, d1] =>
    if strict then .pyError "IndexError"
    else .ok [0x20 + (d0 &&& 0x3f), 0x20 + (((d0 &&& 0xc0) >>> 6) ||| ((d1 &&& 0xf) <<< 2))]
  | d0 :: d1 :: d2 :: rest =>
    match unpack6 strict rest with
    | .ok cs =>
      .ok ((0x20 + (d0 &&& 0x3f)) ::
           (0x20 + (((d0 &&& 0xc0) >>> 6) ||| ((d1 &&& 0xf) <<< 2))) ::
           (0x20 + (((d1 &&& 0xf0) >>> 4) ||| ((d2 &&& 0x3) <<< 4))) ::
           (0x20 + ((d2 &&& 0xfc) >>> 2)) :: cs)
    | e => e

/-- `_device_id_string(buffer)` on the remaining bytes. -/
def idString (v : Variant) (buf : List Nat) : Outcome Fields :=
  match buf with
  | [] => .pyError "IndexError"                      -- buffer[0]
  | tl :: _ =>
    let typeAttr := if v.idTypeShr4 then (tl &&& 0xc0) >>> 4 else (tl &&& 0xc0) >>> 6
    let len := tl &&& 0x3f
    let data := buf.take (1 + len)                    -- buffer[0:1+len]
    -- TypeLengthString._from_data(data, offset = 0)
    let fieldType := (tl >>> 6) &&& 0x3
    let raw := (data.drop 1).take (tl &&& 0x3f)       -- data[1:1+length]
    let str : Outcome (List Nat) :=
      if fieldType = 1 then
        (if v.bcdRaises then .pyError "AttributeError" else if v.bcdFruTable then bcdDecode raw else sdrBcdDecode raw)
      else if fieldType = 2 then unpack6 v.sixBitStrict raw
      else .ok raw
    match str with
    | .ok s => .ok [("device_id_string_type", .nat typeAttr),
                    ("device_id_string_length", .nat len),
                    ("device_id_string", .list s)]
    | .decodingError => .decodingError
    | .pyError n => .pyError n
    | _ => .pyError "?"

/-- Append the id-string attributes to the attributes collected so far. -/
def withId (v : Variant) (fs : Fields) (rest : List Nat) : Outcome Fields :=
  match idString v rest with
  | .ok ids => .ok (fs ++ ids)
  | .decodingError => .decodingError
  | .pyError n => .pyError n
  | _ => .pyError "?"

/-! ### type 01h -/

/-- `_decode_capabilities` (the strings as codes: 0x80 ignore_sensor, 0x40 auto_rearm,
0x100+v hysteresis with `capabilities & 0x30 = v`, 0x200+v threshold with `capabilities & 0x0c = v`). -/
def capabilitiesOf (c : Nat) : List Nat :=
  (if c &&& 0x80 ≠ 0 then [0x80] else []) ++
  (if c &&& 0x40 ≠ 0 then [0x40] else []) ++
  [0x100 + (c &&& 0x30)] ++ [0x200 + (c &&& 0x0c)]

def parseFull (v : Variant) (body : List Nat) : Outcome (Fields × Fields) :=
  match body with
  | oid :: olun :: num :: eid :: einst :: ini :: cap :: st :: et :: am0 :: am1 :: dm0 :: dm1 ::
    rm0 :: rm1 :: u1 :: u2 :: u3 :: lin :: m :: mtol :: b :: bacc :: accx :: rb :: ac ::
    nom :: nmax :: nmin :: smax :: smin :: unr :: ucr :: unc :: lnr :: lcr :: lnc :: ph :: nh ::
    r0 :: r1 :: oem :: rest =>
    let fs : Fields :=
      recordKey v oid olun num ++
      [("entity_id", .nat eid), ("entity_instance", .nat einst),
       ("initialization", .list (flagsOf [0x40, 0x20, 0x10, 0x08, 0x04, 0x02, 0x01] ini)),
       ("sensor_type_code", .nat st), ("event_reading_type_code", .nat et),
       ("assertion_mask", .nat (leOr [am0, am1])), ("deassertion_mask", .nat (leOr [dm0, dm1])),
       ("discrete_reading_mask", .nat (leOr [rm0, rm1])),
       ("units_1", .nat u1), ("units_2", .nat u2), ("units_3", .nat u3),
       ("analog_data_format", .nat ((u1 >>> 6) &&& 0x3)),
       ("rate_unit", .nat (if v.rateShr7 then (u1 >>> 3) >>> 0x7 else (u1 >>> 3) &&& 0x7)),
       ("modifier_unit", .nat (if v.modAnd2 then (u1 >>> 1) &&& 0x2 else (u1 >>> 1) &&& 0x3)),
       ("percentage", .nat (u1 &&& 0x1)),
       ("linearization", .nat (lin &&& 0x7f)),
       ("m", .int (Sensor.convertComplement ((m &&& 0xff) ||| ((mtol &&& 0xc0) <<< 2)) 10)),
       ("tolerance", .nat (mtol &&& 0x3f)),
       ("b", .int (Sensor.convertComplement ((b &&& 0xff) ||| ((bacc &&& 0xc0) <<< 2)) 10)),
       ("accuracy", .nat ((bacc &&& 0x3f) ||| ((accx &&& 0xf0) <<< (if v.accShift4 then 4 else 2)))),
       ("accuracy_exp", .nat ((accx &&& 0x0c) >>> 2)),
       ("k2", .int (Sensor.convertComplement ((rb &&& 0xf0) >>> 4) 4)),
       ("k1", .int (Sensor.convertComplement (rb &&& 0x0f) 4)),
       ("analog_characteristic", .list (flagsOf [0x01, 0x02, 0x04] ac)),
       ("nominal_reading", .nat nom), ("normal_maximum", .nat nmax), ("normal_minimum", .nat nmin),
       ("sensor_maximum_reading", .nat smax), ("sensor_minimum_reading", .nat smin),
       ("threshold.unr", .nat unr), ("threshold.ucr", .nat ucr), ("threshold.unc", .nat unc),
       ("threshold.lnr", .nat lnr), ("threshold.lcr", .nat lcr), ("threshold.lnc", .nat lnc),
       ("hysteresis.positive_going", .nat ph), ("hysteresis.negative_going", .nat nh),
       ("reserved", .nat (leOr [r0, r1])), ("oem", .nat oem)]
    match withId v fs rest with
    | .ok all => .ok (all, [("capabilities", .list (capabilitiesOf cap))])
    | .decodingError => .decodingError
    | .pyError n => .pyError n
    | _ => .pyError "?"
  | _ => .decodingError

/-! ### type 02h -/

def parseCompact (v : Variant) (body : List Nat) : Outcome (Fields × Fields) :=
  match body with
  | oid :: olun :: num :: eid :: einst :: ini :: cap :: st :: et :: am0 :: am1 :: dm0 :: dm1 ::
    rm0 :: rm1 :: u1 :: u2 :: u3 :: rs0 :: rs1 :: ph :: nh :: r0 :: r1 :: r2 :: oem :: rest =>
    let fs : Fields :=
      recordKey v oid olun num ++
      [("entity_id", .nat eid), ("entity_instance", .nat einst),
       ("sensor_initialization", .nat ini), ("capabilities", .nat cap),
       ("sensor_type_code", .nat st), ("event_reading_type_code", .nat et),
       ("assertion_mask", .nat (leOr [am0, am1])), ("deassertion_mask", .nat (leOr [dm0, dm1])),
       ("discrete_reading_mask", .nat (leOr [rm0, rm1])),
       ("units_1", .nat u1), ("units_2", .nat u2), ("units_3", .nat u3),
       ("record_sharing", .nat (leOr [rs0, rs1])),
       ("positive_going_hysteresis", .nat ph), ("negative_going_hysteresis", .nat nh),
       ("reserved", .nat (leOr [r0, r1, r2])), ("oem", .nat oem)]
    match withId v fs rest with
    | .ok all => .ok (all, [])
    | .decodingError => .decodingError
    | .pyError n => .pyError n
    | _ => .pyError "?"
  | _ => .decodingError

/-! ### type 03h -/

def parseEventOnly (v : Variant) (body : List Nat) : Outcome (Fields × Fields) :=
  match body with
  | oid :: olun :: num :: eid :: einst :: st :: et :: rs0 :: rs1 :: r0 :: oem :: rest =>
    let fs : Fields :=
      recordKey v oid olun num ++
      [("entity_id", .nat eid), ("entity_instance", .nat einst),
       ("sensor_type", .nat st), ("event_reading_type_code", .nat et),
       ("record_sharing", .nat (leOr [rs0, rs1])),
       ("reserved", .nat r0), ("oem", .nat oem)]
    match withId v fs rest with
    | .ok all => .ok (all, [])
    | .decodingError => .decodingError
    | .pyError n => .pyError n
    | _ => .pyError "?"
  | _ => .decodingError

/-! ### type 11h -/

def parseFruLocator (v : Variant) (body : List Nat) : Outcome (Fields × Fields) :=
  match body with
  | aa :: fid :: lp :: ch :: r0 :: dt :: dtm :: eid :: einst :: oem :: rest =>
    let fs : Fields :=
      [("device_access_address", .nat (aa >>> 1)), ("fru_device_id", .nat fid)] ++
      (if v.lpRaw then [("logical_physical", .nat lp)]
       else [("logical_physical", .nat (lp >>> 7)), ("access_lun", .nat ((lp >>> 3) &&& 0x3)),
             ("private_bus_id", .nat (lp &&& 0x7))]) ++
      [("channel_number", .nat (if v.chanRaw then ch else ch >>> 4)),
       ("reserved", .nat r0),
       ("device_type", .nat dt), ("device_type_modifier", .nat dtm),
       ("entity_id", .nat eid), ("entity_instance", .nat einst),
       ("oem", .nat oem)]
    match withId v fs rest with
    | .ok all => .ok (all, [])
    | .decodingError => .decodingError
    | .pyError n => .pyError n
    | _ => .pyError "?"
  | _ => .decodingError

/-! ### type 12h -/

def parseMcLocator (v : Variant) (body : List Nat) : Outcome (Fields × Fields) :=
  match body with
  | sa :: ch :: psn :: dc :: r0 :: r1 :: r2 :: eid :: einst :: oem :: rest =>
    let fs : Fields :=
      [("device_slave_address", .nat (sa >>> 1)), ("channel_number", .nat (ch &&& 0xf)),
       ("power_state_notification", .nat psn),
       ("device_capabilities", .nat dc),
       ("reserved", .nat (leOr [r0, r1, r2])),
       ("entity_id", .nat eid), ("entity_instance", .nat einst),
       ("oem", .nat oem)]
    match withId v fs rest with
    | .ok all => .ok (all, [("global_initialization", .nat 0)])
    | .decodingError => .decodingError
    | .pyError n => .pyError n
    | _ => .pyError "?"
  | _ => .decodingError

/-! ### type 13h -/

def parseMcConfirmation (v : Variant) (body : List Nat) : Outcome (Fields × Fields) :=
  match body with
  | sa :: did :: ch :: f1 :: f2 :: iv :: m0 :: m1 :: m2 :: p0 :: p1 :: rest =>
    if rest.length < 16 then .decodingError
    else
      .ok ([("device_slave_address", .nat (sa >>> 1)), ("device_id", .nat did)] ++
           (if v.chanRaw then [("channel_number", .nat ch)]
            else [("channel_number", .nat (ch >>> 4)), ("device_revision", .nat (ch &&& 0xf))]) ++
           [("firmware_revision_1", .nat f1), ("firmware_revision_2", .nat f2),
            ("ipmi_version", .nat iv),
            ("manufacturer_id", .nat (leOr [m0, m1, m2] &&& 0xfffff)),
            ("product_id", .nat (leOr [p0, p1])),
            ("device_guid", .nat (leOr (rest.take 16)))], [])
  | _ => .decodingError

/-! ### type C0h -/

def parseOem (v : Variant) (body : List Nat) : Outcome (Fields × Fields) :=
  match body with
  | oid :: olun :: num :: _ => .ok ([], recordKey v oid olun num)
  | _ => .decodingError

/-! ### `SdrCommon.from_data` -/

def parseKind (v : Variant) (k : Kind) (body : List Nat) : Outcome (Fields × Fields) :=
  match k with
  | .full => parseFull v body
  | .compact => parseCompact v body
  | .eventOnly => parseEventOnly v body
  | .fruLocator => parseFruLocator v body
  | .mcLocator => parseMcLocator v body
  | .mcConfirmation => parseMcConfirmation v body
  | .oem => parseOem v body
  | .unknown => .ok ([], [])

/-- `SdrCommon.from_data(data)` for a non-empty byte sequence: the type byte `data[3]` selects
the class; the constructor reads the five header bytes, then the class's `_from_data`. -/
def parseSdr (v : Variant) (data : List Nat) : Outcome Parsed :=
  match data[Gen.SdrTables.typeIndex]? with
  | none => .pyError "IndexError"
  | some ty =>
    let k := kindOf ty
    match data with
    | i0 :: i1 :: ver :: t :: len :: body =>
      match parseKind v k body with
      | .ok (fs, ex) =>
        .ok ⟨k, [("id", .nat (leOr [i0, i1])), ("version", .nat ver), ("type", .nat t),
                 ("length", .nat len)] ++ fs, ex⟩
      | .decodingError => .decodingError
      | .pyError n => .pyError n
      | _ => .pyError "?"
    | _ => .decodingError

end PyIpmi.SdrParse
