/-
  hpm.wait_for_long_duration_command in its two forms (DESIGN §2.4), as an interaction program.

  The HPM.1 request that started the long duration command was answered 80h; the library then
  polls Get Upgrade Status.  `busy rsp`: the status still reports 80h as last completion code;
  `failed rsp`: it reports a final code other than 00h.  `n` = polls the (virtual) clock allows
  before the time-out.

    strict = false   as shipped: the loop returns at the first status that is not "in progress",
                     whatever it says, and falls off its end when the time-out expires -
                     the caller goes on as if the command had succeeded
    strict = true    intended: a final code other than 00h raises HpmError, and so does the
                     time-out expiring while the controller still reports 80h

  Core Lean only (the C08 driver links it).
-/
import PyIpmi.Model.Prog
namespace PyIpmi.Prog

def waitLongV (strict : Bool) (status : Req) (busy failed : Rsp → Bool) : Nat → Prog Unit
  | 0 => if strict then .fail .hpmError else .done ()
  | n + 1 => (sendChecked status).bind fun rsp =>
      if busy rsp then waitLongV strict status busy failed n
      else if strict && failed rsp then .fail .hpmError else .done ()

end PyIpmi.Prog
