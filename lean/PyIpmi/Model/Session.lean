/-
  Executable model of LAN session handling in pyipmi/interfaces/rmcp.py (C06):

    Rmcp.establish_session      -> establish
    Rmcp.send_and_receive_raw   -> request / requestN
    Rmcp.close_session          -> close
    Rmcp._send_and_receive      -> hdrStep / tryLoop (packStep, rxStep) (empty queue, a peer that
                                   answers a datagram at most once)
    ChannelAuthenticationCapabilities._from_response / get_max_auth_type -> chooseAuth
    Session.increment_sequence_number -> RmcpWire.incSeq (inside IpmiMsg.pack)

  MIRRORS the Python: the straight-line handshake with its early exits, `self._session`
  being attached only after the challenge was obtained, `session.sid` / `sequence_number` /
  `activated` updates, the IPMB framing of `encode_ipmb_msg`, `rx_filter` with the flags
  `_send_and_receive` passes, `rx_data[6:-1]`, `decode_message` of the four responses
  (stops at a non-OK completion code) followed by `check_completion_code`.

  The peer is a parameter (`peer : σ → datagram → σ × Option datagram`, `none` = silence):
  the driver plugs in a scripted peer for the correspondence, the theorems plug in the
  reference BMC of `Spec/BmcSession.lean`.

  The preference list of `get_max_auth_type` is a parameter of the model: `prefAsShipped` is
  what the pinned tree has (MD2, which `IpmiMsg.pack` does not implement, is preferred over
  straight password), `prefIntended` what the property demands; `Gen.authPreference` is what
  the working tree has now.

  Two more places exist in an as-shipped and an intended variant (flags of `Cfg`, chosen by the
  check by probing the real code):
  * `closeGuard`   — `close_session()` on an interface without a session object
                     (`self._session is None`: the handshake failed before the challenge was
                     obtained): intended = nothing to close, return; as shipped = the attribute
                     access `None.activated` raises AttributeError.
  * `noAuthRaises` — `get_max_auth_type()` returned `None` (the BMC offers none of the five
                     types): intended = `establish_session` raises NotSupportedError before Get
                     Session Challenge; as shipped = `None` is encoded as type 0 ("none", which
                     the BMC did not offer) in Get Session Challenge.
  * `resetSession` — the caller's `Session` object outlives a session: `sid`, `sequence_number`
                     and `activated` are whatever the previous `establish_session` / requests /
                     `close_session` on the same object left behind (a session that was lost — its
                     Close Session failed or was never sent — leaves `activated = True`).  Intended =
                     `establish_session` starts by clearing the three (`resetSess`); as shipped =
                     only `self._session` is reset, so Activate Session is packed with the stale
                     sequence number (and consumes one when `activated` is stale), and a handshake
                     that then fails at Activate Session leaves an "activated" session object
                     holding the TEMPORARY id, for which the clean-up `close_session()` sends Close
                     Session.

  `establish` = `handshake ∘ resetSess`: `handshake` is the body of `establish_session` after
  those first assignments; the client state it starts from is the one the HISTORY of earlier
  calls on the same `Rmcp` / `Session` objects produced (`runOps`).
-/
import PyIpmi.Model.RmcpWire
namespace PyIpmi.Session
open PyIpmi PyIpmi.RmcpWire PyIpmi.Gen.RmcpFormats

/-- `get_max_auth_type` preference order of the pinned tree: md5, md2, straight, oem, none -/
def prefAsShipped : List Nat := [2, 1, 4, 5, 0]
/-- implemented types first, strongest first; the unimplemented ones only as a last resort -/
def prefIntended : List Nat := [2, 4, 0, 1, 5]

/-- bit of the `support` byte for an authentication type (generated table) -/
def capBit (auth : Nat) : List (Nat × Nat) → Option Nat
  | [] => none
  | (a, b) :: r => if a = auth then some b else capBit auth r

/-- `caps.auth_types` membership: the type's bit is set in the support byte -/
def hasAuth (support auth : Nat) : Bool :=
  match capBit auth capsBits with
  | some b => support.testBit b
  | none => false

/-- `ChannelAuthenticationCapabilities.get_max_auth_type()`; `none` is Python's `None` -/
def chooseAuth (pref : List Nat) (support : Nat) : Option Nat :=
  pref.find? (hasAuth support)

/-! ### IPMB framing (`encode_ipmb_msg`, `rx_filter`) -/

/-- `checksum(data)` = `-sum % 256` -/
def checksum (l : List Nat) : Nat := (256 - l.sum % 256) % 256

/-- the request header `_send_and_receive` builds -/
structure ReqHdr where
  rsSa : Nat
  netfn : Nat
  rsLun : Nat
  rqSa : Nat
  rqSeq : Nat
  rqLun : Nat
  cmd : Nat
  deriving Repr, DecidableEq

/-- `encode_ipmb_msg(header, data)` (`netfn << 2 | lun` is `netfn * 4 + lun` for `lun ≤ 3`) -/
def ipmbEncode (h : ReqHdr) (data : List Nat) : List Nat :=
  let b1 := h.netfn * 4 + h.rsLun
  let tail := [h.rqSa, h.rqSeq * 4 + h.rqLun, h.cmd] ++ data
  [h.rsSa, b1, checksum [h.rsSa, b1]] ++ tail ++ [checksum tail]

/-- `rx_filter(header, data, rq_seq=True)` with the default flags (`rs_lun=True`) -/
def rxFilter (h : ReqHdr) (d : List Nat) : Bool :=
  checksum (d.take 3) == 0 && checksum (d.drop 3) == 0 &&
  d.getD 1 0 / 4 == (h.netfn ||| 1) && d.getD 5 0 == h.cmd &&
  d.getD 4 0 % 4 == h.rsLun && d.getD 4 0 / 4 == h.rqSeq

/-! ### the client -/

structure Cfg where
  user : List Nat          -- user name as bytes (ASCII), [] = none set
  pw : List Nat
  priv : Nat
  outSeq : Nat             -- what `random.randrange(1, 0xffffffff)` returns (pinned)
  pref : List Nat          -- preference order of `get_max_auth_type`
  ignoreLen : Bool         -- quirk rmcp_ignore_sdu_length
  emptyRx : EmptyRx
  rqSa : Nat := 0x81
  rsSa : Nat := 0x20
  maxRetries : Nat := 0    -- `Rmcp(max_retries=…)`
  closeGuard : Bool := true    -- `close_session`: `if self._session is None or …: return` (false: pinned tree)
  noAuthRaises : Bool := true  -- `establish_session`: NotSupportedError when no type is offered (false: pinned tree)
  resetSession : Bool := true  -- `establish_session`: session.activated / sid / sequence_number cleared first (false: pinned tree)
  deriving Repr

structure Client where
  attached : Bool          -- `Rmcp._session is not None`
  s : Sess                 -- the Session object
  rqSeq : Nat              -- `Rmcp.next_sequence_number`
  deriving Repr, DecidableEq

def Client.fresh (pw : List Nat) : Client := ⟨false, ⟨authPassword, 0, 0, false, pw⟩, 0⟩

/-- first lines of `_send_and_receive`: bump the IPMB sequence number and build the request header
(both happen once per request, before the retry loop) -/
def hdrStep (cfg : Cfg) (c : Client) (netfn lun cmd : Nat) : Client × ReqHdr :=
  let rqSeq := (c.rqSeq + 1) % 64
  ({ c with rqSeq := rqSeq }, ⟨cfg.rsSa, netfn, lun, cfg.rqSa, rqSeq, 0, cmd⟩)

/-- `_send_ipmi_msg(tx_data)`, called once per attempt: `IpmiMsg(self._session).pack` (which takes
the next session sequence number when the session is activated), RMCP header, `sendto`.  Returns
the client afterwards and the datagram (or what `pack` raised). -/
def packStep (md5 : List Nat → List Nat) (c : Client) (sdu : List Nat) : Client × Outcome (List Nat) :=
  let sess := if c.attached then some c.s else none
  ({ c with s := match sessAfterPack sess with
                 | some s' => s'
                 | none => c.s },
   sendIpmi md5 rmcpInitialSeq sess sdu)

/-- header, framing and the first attempt's datagram -/
def txStep (md5 : List Nat → List Nat) (cfg : Cfg) (c : Client) (netfn lun cmd : Nat) (data : List Nat) :
    Client × ReqHdr × Outcome (List Nat) :=
  let (c1, h) := hdrStep cfg c netfn lun cmd
  let (c2, o) := packStep md5 c1 (ipmbEncode h data)
  (c2, h, o)

/-- what the answer to one attempt leads to.  `none` = nothing arrives (`socket.timeout`): the
attempt is over and, budget permitting, the request is sent again — `retryError` here.  A frame
that fails `rx_filter` is dropped and the next `recvfrom` times out (the peer answers a datagram
at most once), so it ends the attempt in the same way.  Everything else ends the request. -/
def rxStep (cfg : Cfg) (h : ReqHdr) (reply : Option (List Nat)) : Outcome (List Nat) :=
  match reply with
  | none => .retryError
  | some d => do
    let r ← receiveIpmi cfg.emptyRx cfg.ignoreLen d
    match r with
    | none => .pyError "TypeError"             -- array('B', None)
    | some rx =>
      if rx.length ≤ 5 then .pyError "IndexError"
      else if rx.getD 5 0 = cmdSendMessage then .pyError "unmodelled-bridged-reply"
      else if rxFilter h rx then .ok ((rx.drop 6).dropLast)
      else .retryError

/-- the loop `while retry <= self.max_retries` of `_send_and_receive`, `tries` attempts left:
every attempt wraps the message anew (`packStep`), so a retransmission is a new datagram with
its own session sequence number and authentication code.  Returns the peer state, the client,
the datagrams sent and the payload (or the exception). -/
def tryLoop {σ : Type} (md5 : List Nat → List Nat) (peer : σ → List Nat → σ × Option (List Nat))
    (cfg : Cfg) (h : ReqHdr) (sdu : List Nat) : Nat → σ → Client → σ × Client × List (List Nat) × Outcome (List Nat)
  | 0, p, c => (p, c, [], .retryError)
  | tries + 1, p, c =>
    match packStep md5 c sdu with
    | (c', .ok dgram) =>
      let (p', reply) := peer p dgram
      match rxStep cfg h reply with
      | .retryError =>
        let (p'', c'', ds, o) := tryLoop md5 peer cfg h sdu tries p' c'
        (p'', c'', dgram :: ds, o)
      | o => (p', c', [dgram], o)
    | (c', e) => (p, c', [], e)

/-- `_send_and_receive` against a peer: new peer state, client, datagrams sent, payload -/
def exchange {σ : Type} (md5 : List Nat → List Nat) (peer : σ → List Nat → σ × Option (List Nat))
    (cfg : Cfg) (p : σ) (c : Client) (netfn lun cmd : Nat) (data : List Nat) :
    σ × Client × List (List Nat) × Outcome (List Nat) :=
  let (c1, h) := hdrStep cfg c netfn lun cmd
  tryLoop md5 peer cfg h (ipmbEncode h data) (cfg.maxRetries + 1) p c1

/-! ### message decoding (`decode_message` + `check_completion_code`) -/

def splitWidths : List Nat → List Nat → Option (List (List Nat))
  | [], [] => some []
  | [], _ :: _ => none
  | w :: ws, d =>
    if d.length < w then none
    else match splitWidths ws (d.drop w) with
      | some r => some (d.take w :: r)
      | none => none

/-- decode a response of the given field widths and check its completion code: the fields
after the completion code, `CompletionCodeError`, or `DecodingError` -/
def decodeRsp (widths : List Nat) (payload : List Nat) : Outcome (List (List Nat)) :=
  match payload with
  | [] => .decodingError
  | cc :: rest =>
    if cc ≠ ccOk then .ccError cc
    else match splitWidths (widths.drop 1) rest with
      | some fs => .ok fs
      | none => .decodingError

/-- `name.ljust(16, '\x00')` when a user name is set, else the field default (16 NULs) -/
def userField (user : List Nat) : List Nat :=
  if user.isEmpty then List.replicate 16 0 else user ++ List.replicate (16 - user.length) 0

inductive Kind where
  | ping | authCap | challenge | activate | setPriv | request | close
  deriving Repr, DecidableEq

abbrev Sent := List (Kind × List Nat)

def tagAll (k : Kind) (l : List (List Nat)) : Sent := l.map (fun d => (k, d))

structure Result (σ : Type) where
  peer : σ
  client : Client
  sent : Sent
  outcome : Outcome (List Nat)

/-- `Rmcp.ping()` against the peer -/
def ping {σ : Type} (peer : σ → List Nat → σ × Option (List Nat)) (p : σ) :
    σ × List (List Nat) × Outcome Unit :=
  match pingDatagram rmcpInitialSeq with
  | .ok d =>
    let (p', reply) := peer p d
    (p', [d], match reply with
              | none => .pyError "TimeoutError"
              | some r => receivePong r)
  | _ => (p, [], .pyError "error")

/-! `Rmcp.establish_session(session)` with `keep_alive_interval = 0`, written as one function
per step (each continues with the next one when its exchange succeeded); `establish` is the
entry point. -/

/-- 4 - Set Session Privilege Level; `sent3` = datagrams so far, `c3` = client after activation -/
def estabSetPriv {σ : Type} (md5 : List Nat → List Nat) (peer : σ → List Nat → σ × Option (List Nat))
    (cfg : Cfg) (sent3 : Sent) (p4 : σ) (c3 : Client) : Result σ :=
  match exchange md5 peer cfg p4 c3 netfnApp 0 cmdSetPriv [cfg.priv % 16] with
  | (p5, c4, s4, .ok pl4) =>
    let sent4 := sent3 ++ tagAll .setPriv s4
    match decodeRsp setPrivRspWidths pl4 with
    | .ok _ => ⟨p5, c4, sent4, .ok []⟩
    | .ccError cc => ⟨p5, c4, sent4, .ccError cc⟩
    | _ => ⟨p5, c4, sent4, .decodingError⟩
  | (p5, c4, s4, e) => ⟨p5, c4, sent3 ++ tagAll .setPriv s4, e⟩

/-- 3 - Activate Session; `fs2` = fields of the Get Session Challenge response (temporary
session id, challenge string); from here on `self._session` is attached -/
def estabActivate {σ : Type} (md5 : List Nat → List Nat) (peer : σ → List Nat → σ × Option (List Nat))
    (cfg : Cfg) (sent2 : Sent) (p3 : σ) (c2 : Client) (fs2 : List (List Nat)) : Result σ :=
  let tmp := leVal (fs2.getD 0 [])
  let challenge := fs2.getD 1 []
  let c2 : Client := { c2 with attached := true, s := { c2.s with sid := tmp } }
  match exchange md5 peer cfg p3 c2 netfnApp 0 cmdActivate
      ([c2.s.auth % 16, cfg.priv % 16] ++ challenge ++ leBytes 4 cfg.outSeq) with
  | (p4, c3, s3, .ok pl3) =>
    let sent3 := sent2 ++ tagAll .activate s3
    match decodeRsp activateRspWidths pl3 with
    | .ok fs3 =>
      let s3' : Sess := ⟨c3.s.auth, leVal (fs3.getD 1 []), leVal (fs3.getD 2 []), true, c3.s.pw⟩
      estabSetPriv md5 peer cfg sent3 p4 { c3 with s := s3' }
    | .ccError cc => ⟨p4, c3, sent3, .ccError cc⟩
    | _ => ⟨p4, c3, sent3, .decodingError⟩
  | (p4, c3, s3, e) => ⟨p4, c3, sent2 ++ tagAll .activate s3, e⟩

/-- 2 - Get Session Challenge; `fs1` = fields of the Get Channel Authentication Capabilities
response.  `None` (nothing matched in `get_max_auth_type`: the BMC offers none of the five types)
ends the handshake with NotSupportedError before anything else is sent (`cfg.noAuthRaises`); in
the pinned tree it is encoded as 0 in the request and makes struct.pack('!B', None) raise
struct.error later, exactly like 256 does -/
def estabChallenge {σ : Type} (md5 : List Nat → List Nat) (peer : σ → List Nat → σ × Option (List Nat))
    (cfg : Cfg) (sent1 : Sent) (p2 : σ) (c1 : Client) (fs1 : List (List Nat)) : Result σ :=
  let support := ((fs1.getD 1 []).getD 0 0)
  let auth := chooseAuth cfg.pref support
  let c1 : Client := { c1 with s := { c1.s with auth := auth.getD 256 } }
  if auth.isNone && cfg.noAuthRaises then ⟨p2, c1, sent1, .notSupported⟩ else
  match exchange md5 peer cfg p2 c1 netfnApp 0 cmdGetChallenge
      ([auth.getD 0 % 16] ++ userField cfg.user) with
  | (p3, c2, s2, .ok pl2) =>
    let sent2 := sent1 ++ tagAll .challenge s2
    match decodeRsp challengeRspWidths pl2 with
    | .ok fs2 => estabActivate md5 peer cfg sent2 p3 c2 fs2
    | .ccError cc => ⟨p3, c2, sent2, .ccError cc⟩
    | _ => ⟨p3, c2, sent2, .decodingError⟩
  | (p3, c2, s2, e) => ⟨p3, c2, sent1 ++ tagAll .challenge s2, e⟩

/-- 1 - Get Channel Authentication Capabilities; `sent0` = the ping -/
def estabAuthCap {σ : Type} (md5 : List Nat → List Nat) (peer : σ → List Nat → σ × Option (List Nat))
    (cfg : Cfg) (sent0 : Sent) (p1 : σ) (c0 : Client) : Result σ :=
  match exchange md5 peer cfg p1 c0 netfnApp 0 cmdGetAuthCap [0x0e, cfg.priv % 16] with
  | (p2, c1, s1, .ok pl1) =>
    let sent1 := sent0 ++ tagAll .authCap s1
    match decodeRsp authCapRspWidths pl1 with
    | .ok fs1 => estabChallenge md5 peer cfg sent1 p2 c1 fs1
    | .ccError cc => ⟨p2, c1, sent1, .ccError cc⟩
    | _ => ⟨p2, c1, sent1, .decodingError⟩
  | (p2, c1, s1, e) => ⟨p2, c1, sent0 ++ tagAll .authCap s1, e⟩

/-- the first assignments of `Rmcp.establish_session(session)` to the caller's Session object:
nothing of an earlier session is carried into this handshake (`cfg.resetSession`; the pinned tree
leaves the object as it is) -/
def resetSess (cfg : Cfg) (c0 : Client) : Client :=
  if cfg.resetSession then { c0 with s := { c0.s with sid := 0, seq := 0, activated := false } } else c0

/-- `Rmcp.establish_session(session)` from `self._session = None` on: 0 - ping, then the steps above -/
def handshake {σ : Type} (md5 : List Nat → List Nat) (peer : σ → List Nat → σ × Option (List Nat))
    (cfg : Cfg) (p0 : σ) (c0 : Client) : Result σ :=
  let c0 : Client := { c0 with attached := false }
  match ping peer p0 with
  | (p1, s0, .ok _) => estabAuthCap md5 peer cfg (tagAll .ping s0) p1 c0
  | (p1, s0, .decodingError) => ⟨p1, c0, tagAll .ping s0, .decodingError⟩
  | (p1, s0, .pyError n) => ⟨p1, c0, tagAll .ping s0, .pyError n⟩
  | (p1, s0, _) => ⟨p1, c0, tagAll .ping s0, .pyError "unreachable"⟩

/-- `Rmcp.establish_session(session)` on objects in ANY state `c0` (fresh, or whatever earlier
sessions, failed handshakes and closes left behind) -/
def establish {σ : Type} (md5 : List Nat → List Nat) (peer : σ → List Nat → σ × Option (List Nat))
    (cfg : Cfg) (p0 : σ) (c0 : Client) : Result σ :=
  handshake md5 peer cfg p0 (resetSess cfg c0)

/-- `Rmcp.send_and_receive_raw(target, lun, netfn, raw)` with `raw = cmd :: data` -/
def request {σ : Type} (md5 : List Nat → List Nat) (peer : σ → List Nat → σ × Option (List Nat))
    (cfg : Cfg) (p : σ) (c : Client) (netfn lun cmd : Nat) (data : List Nat) : Result σ :=
  let (p', c', s, o) := exchange md5 peer cfg p c netfn lun cmd data
  ⟨p', c', tagAll .request s, o⟩

/-- `n` Get Device ID requests in a row (stops at the first failure) -/
def requestN {σ : Type} (md5 : List Nat → List Nat) (peer : σ → List Nat → σ × Option (List Nat))
    (cfg : Cfg) : Nat → σ → Client → Result σ
  | 0, p, c => ⟨p, c, [], .ok []⟩
  | n + 1, p, c =>
    let r := request md5 peer cfg p c netfnApp 0 cmdGetDeviceId []
    match r.outcome with
    | .ok _ =>
      let r' := requestN md5 peer cfg n r.peer r.client
      ⟨r'.peer, r'.client, r.sent ++ r'.sent, r'.outcome⟩
    | _ => r

/-- `Rmcp.close_session()`.  Without a session object (`self._session is None`: no handshake yet,
or the last one failed before the challenge was obtained) there is nothing to close
(`cfg.closeGuard`); the pinned tree evaluates `None.activated` there. -/
def close {σ : Type} (md5 : List Nat → List Nat) (peer : σ → List Nat → σ × Option (List Nat))
    (cfg : Cfg) (p : σ) (c : Client) : Result σ :=
  if c.attached = false then
    (if cfg.closeGuard then ⟨p, c, [], .ok []⟩ else ⟨p, c, [], .pyError "AttributeError"⟩) else
  if c.s.activated = false then ⟨p, c, [], .ok []⟩ else
  match exchange md5 peer cfg p c netfnApp 0 cmdClose (leBytes 4 c.s.sid) with
  | (p', c', s, .ok pl) =>
    match decodeRsp closeRspWidths pl with
    | .ok _ => ⟨p', { c' with s := { c'.s with activated := false } }, tagAll .close s, .ok []⟩
    | .ccError cc => ⟨p', c', tagAll .close s, .ccError cc⟩
    | _ => ⟨p', c', tagAll .close s, .decodingError⟩
  | (p', c', s, e) => ⟨p', c', tagAll .close s, e⟩

/-- establish, `n` requests, close: the whole life of a session -/
def lifecycle {σ : Type} (md5 : List Nat → List Nat) (peer : σ → List Nat → σ × Option (List Nat))
    (cfg : Cfg) (n : Nat) (p0 : σ) (c0 : Client) : Result σ :=
  let r1 := establish md5 peer cfg p0 c0
  match r1.outcome with
  | .ok _ =>
    let r2 := requestN md5 peer cfg n r1.peer r1.client
    match r2.outcome with
    | .ok _ =>
      let r3 := close md5 peer cfg r2.peer r2.client
      ⟨r3.peer, r3.client, r1.sent ++ r2.sent ++ r3.sent, r3.outcome⟩
    | _ => ⟨r2.peer, r2.client, r1.sent ++ r2.sent, r2.outcome⟩
  | _ => r1

/-- What a caller does when opening or using the session failed (`finally: session.close()` →
`Rmcp.close_session()`) — it cannot know how far the handshake got, so the call is made
whatever the state: the first component keeps the failure as outcome and has the datagrams of
the close appended, the second one is what the close itself returned / raised. -/
def cleanupClose {σ : Type} (md5 : List Nat → List Nat) (peer : σ → List Nat → σ × Option (List Nat))
    (cfg : Cfg) (r : Result σ) : Result σ × Outcome (List Nat) :=
  let r3 := close md5 peer cfg r.peer r.client
  (⟨r3.peer, r3.client, r.sent ++ r3.sent, r.outcome⟩, r3.outcome)

/-! ### histories: any sequence of calls on the same `Rmcp` / `Session` objects -/

/-- one call of the public API on the interface; every call has its own configuration (the
application may change user, privilege level, `max_retries` between two sessions; the pinned value
of `random.randrange` differs from handshake to handshake) -/
inductive Op where
  | open (cfg : Cfg)                    -- `establish_session(session)`
  | requests (cfg : Cfg) (n : Nat)      -- `n` × `send_and_receive_raw` (stops at the first failure)
  | close (cfg : Cfg)                   -- `close_session()`
  deriving Repr

/-- run one call, whatever its outcome (an exception is caught by the caller, who goes on) -/
def runOp {σ : Type} (md5 : List Nat → List Nat) (peer : σ → List Nat → σ × Option (List Nat))
    (op : Op) (p : σ) (c : Client) : Result σ :=
  match op with
  | .open cfg => establish md5 peer cfg p c
  | .requests cfg n => requestN md5 peer cfg n p c
  | .close cfg => close md5 peer cfg p c

/-- a history: the calls one after the other on the same objects, against the same peer;
returns the peer and the client afterwards and everything that was sent, call by call -/
def runOps {σ : Type} (md5 : List Nat → List Nat) (peer : σ → List Nat → σ × Option (List Nat)) :
    List Op → σ → Client → σ × Client × List Sent
  | [], p, c => (p, c, [])
  | op :: ops, p, c =>
    let r := runOp md5 peer op p c
    let (p', c', ss) := runOps md5 peer ops r.peer r.client
    (p', c', r.sent :: ss)

/-- a peer that plays a fixed script of replies (`none` = silence), one per datagram -/
def scripted : List (Option (List Nat)) → List Nat → List (Option (List Nat)) × Option (List Nat)
  | [], _ => ([], none)
  | r :: rs, _ => (rs, r)

end PyIpmi.Session
