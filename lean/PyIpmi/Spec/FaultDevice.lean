/-
  C08 specification side: the fault-injecting device and what "not mistaken for success" means.

  Written from the property text, not from the Python:

  * the BMC is a fixed script `base : Req → Rsp` (the answer to a request depends on the
    request only -- a retried or re-issued request is answered consistently); the device
    state is the number of requests seen;
  * `faultDev base k c` answers request number `k` with the bare completion code `c`
    and is otherwise `base`;  `faultsDev base φ` does so at every position `φ` selects
    (double and multiple faults);
  * `Safe c good bad`: the faulted run `bad` either ends in an error that carries the code
    (`ccError c`), in the library's retry-exhausted or HPM error, or it equals the fault-free
    outcome `good`.
-/
import PyIpmi.Model.Prog
namespace PyIpmi.Spec.FaultDevice
open PyIpmi PyIpmi.Prog

/-- The fault-free device. -/
def pureDev (base : Req → Rsp) : Dev Nat := fun n r => (n + 1, base r)

/-- Answers request number `k` (counting from 0) with completion code `c` and nothing else. -/
def faultDev (base : Req → Rsp) (k c : Nat) : Dev Nat :=
  fun n r => (n + 1, if n = k then ⟨c, []⟩ else base r)

/-- Arbitrarily many faults: `φ n = some c` makes request number `n` fail with code `c`. -/
def faultsDev (base : Req → Rsp) (φ : Nat → Option Nat) : Dev Nat :=
  fun n r => (n + 1, match φ n with | some c => ⟨c, []⟩ | none => base r)

/-- The property, for one injected code. -/
def Safe {α : Type} (c : Nat) (good bad : Res α) : Prop :=
  bad = .error (.ccError c) ∨ bad = .error .retryError ∨ bad = .error .hpmError ∨ bad = good

/-- The property for a set of injected codes: the error carries one of them. -/
def SafeAny {α : Type} (injected : Nat → Prop) (good bad : Res α) : Prop :=
  (∃ c, injected c ∧ bad = .error (.ccError c)) ∨ bad = .error .retryError ∨ bad = .error .hpmError ∨ bad = good

/-- `p` is fault-safe against `base`: from every starting position, for every fault position
and every non-OK code. -/
def FaultSafe {α : Type} (base : Req → Rsp) (p : Prog α) : Prop :=
  ∀ n k c, c ≠ 0 → Safe c (outcome p (pureDev base) n) (outcome p (faultDev base k c) n)

/-- Decidable equality of outcomes (core has none for `Except`). -/
def resEq {α : Type} [DecidableEq α] : Res α → Res α → Bool
  | .ok a, .ok b => decide (a = b)
  | .error e, .error f => decide (e = f)
  | _, _ => false

theorem resEq_iff {α : Type} [DecidableEq α] (x y : Res α) : resEq x y = true ↔ x = y := by
  cases x <;> cases y <;> simp [resEq]

/-- Decidable form of `Safe`, used by drivers and non-vacuity examples. -/
def safeB {α : Type} [DecidableEq α] (c : Nat) (good bad : Res α) : Bool :=
  resEq bad (.error (.ccError c)) || resEq bad (.error .retryError) ||
    resEq bad (.error .hpmError) || resEq bad good

theorem safeB_iff {α : Type} [DecidableEq α] (c : Nat) (good bad : Res α) :
    safeB c good bad = true ↔ Safe c good bad := by
  simp [safeB, Safe, resEq_iff, or_assoc]

/-! ### design-time census of the public surface (crc32 keys of the operation names)

The generated table (Gen/ApiShapes.lean) is re-derived from the source on every run; these
lists are the expectation it is checked against in Props/C08.lean:
every public operation that is `other` must be in `residue` (fail closed: a new unclassifiable
operation breaks `residue_closed`), and the operations found straight-line checked / built
from whitelisted handlers when the check was written must stay so. -/

/-- close, get_device_sdr, device_sdr_entries, get_channel_authentication_capabilities,
get_component_properties, get_device_sdr_list, get_repository_sdr, sdr_repository_entries,
get_repository_sdr_list, is_ipmc_accessible, open, raw_command, set_led_state,
wait_until_ipmb_is_accessible -/
def residue : List Nat := [
  318865860, 4167411021, 1141642064, 2096600255, 115355061, 1363320754, 3094962269, 4169115046,
  2507408149, 1009781844, 2758837156, 4170075980, 2073270841, 551629936]

def designChecked : List Nat := [
  4094109565, 1316515922, 2712792331, 815958396, 3092033106, 548722399, 3288865722, 473745030,
  3562861257, 4064588747, 1812309010, 1009744511, 1498698418, 3760665642, 690636792, 4043477424,
  3825906615, 1955546445, 3378165248, 3350469065, 3365543557, 2260663377, 3171671080, 1581737027,
  970038314, 1396336475, 984759360, 3221818587, 1742679287, 1310257283, 3434897267, 2745686022,
  1412852809, 1621906489, 3704902749, 1346360683, 527323371, 2545294184, 2021140696, 737684527,
  4225880145, 2635887179, 2202047415, 3094679362, 902616330, 964911803, 3034465944, 638065648,
  2913246409, 254629493, 4003406768, 1531597316, 1374329796, 4241854710, 211286549, 986724054,
  721380466, 2092466375, 4149163665, 3678503282, 978021382, 443675542, 3645741658, 982317744,
  3383299017, 315254287, 1342306643, 1723180098, 407530263, 770577993, 2422134171, 2791672487,
  3231972661, 203688731, 3053534375, 3296703582, 4091348494, 1141750388, 1305353407, 1887393432,
  3746044308, 2994664770, 1635939302, 4247580690, 3088578901, 4160643067, 335691651, 2844707483,
  98878421, 752604909, 452265700, 1494657159, 3642380421, 2211128193, 1131210177, 593996978,
  4103209116, 2589790248, 3333938506, 216387910, 1963618893, 1841751004, 3547605706, 3858505695,
  1298382634, 3219363475]

def designLoop : List Nat := [
  3817294091, 754954297, 3047098186, 79719237, 1968242691, 3339311673, 735321242, 2180544297,
  369856706, 543404193, 3791578426, 2136162051, 2717124571, 3524668873, 3175920971, 3841687442,
  2434229257, 2907939773, 1270987197, 940005453, 3916581213, 441237422, 506264201]

end PyIpmi.Spec.FaultDevice
