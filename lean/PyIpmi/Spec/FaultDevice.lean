/-
  C08 specification side: the fault-injecting device and what "not mistaken for success" means.

  Written from the property text, not from the Python:

  * the BMC is a fixed script `base : Req → Rsp` (the answer to a request depends on the
    request only -- a retried or re-issued request is answered consistently); the device
    state is the number of requests seen;
  * `faultDev base k c` answers request number `k` with the bare completion code `c`
    and is otherwise `base`;  `faultsDev base φ` does so at every position `φ` selects
    (double and multiple faults);
  * `Safe c good bad`: the faulted run `bad` either ends in an error that carries the code
    (`ccError c`), in the library's retry-exhausted or HPM error, or it equals the fault-free
    outcome `good`.
-/
import PyIpmi.Model.Prog
namespace PyIpmi.Spec.FaultDevice
open PyIpmi PyIpmi.Prog

/-- The fault-free device. -/
def pureDev (base : Req → Rsp) : Dev Nat := fun n r => (n + 1, base r)

/-- Answers request number `k` (counting from 0) with completion code `c` and nothing else. -/
def faultDev (base : Req → Rsp) (k c : Nat) : Dev Nat :=
  fun n r => (n + 1, if n = k then ⟨c, []⟩ else base r)

/-- Arbitrarily many faults: `φ n = some c` makes request number `n` fail with code `c`. -/
def faultsDev (base : Req → Rsp) (φ : Nat → Option Nat) : Dev Nat :=
  fun n r => (n + 1, match φ n with | some c => ⟨c, []⟩ | none => base r)

/-- The property, for one injected code. -/
def Safe {α : Type} (c : Nat) (good bad : Res α) : Prop :=
  bad = .error (.ccError c) ∨ bad = .error .retryError ∨ bad = .error .hpmError ∨ bad = good

/-- The property for a set of injected codes: the error carries one of them. -/
def SafeAny {α : Type} (injected : Nat → Prop) (good bad : Res α) : Prop :=
  (∃ c, injected c ∧ bad = .error (.ccError c)) ∨ bad = .error .retryError ∨ bad = .error .hpmError ∨ bad = good

/-- `p` is fault-safe against `base`: from every starting position, for every fault position
and every non-OK code. -/
def FaultSafe {α : Type} (base : Req → Rsp) (p : Prog α) : Prop :=
  ∀ n k c, c ≠ 0 → Safe c (outcome p (pureDev base) n) (outcome p (faultDev base k c) n)

/-! ### any fault set -/

/-- Every injected code is a non-OK code. -/
def NonZero (φ : Nat → Option Nat) : Prop := ∀ n c, φ n = some c → c ≠ 0

/-- `c` is one of the injected codes. -/
def Inj (φ : Nat → Option Nat) (c : Nat) : Prop := ∃ m, φ m = some c

/-- `p` is safe against `base` under EVERY fault set `φ` admitted by `Φ` (any number of faults,
any positions, any non-OK codes), from every starting position: the outcome is an error
carrying one of the injected codes, RetryError, HpmError, or the fault-free outcome. -/
def MultiSafeOn {α : Type} (Φ : (Nat → Option Nat) → Prop) (base : Req → Rsp) (p : Prog α) : Prop :=
  ∀ φ, NonZero φ → Φ φ → ∀ n,
    SafeAny (Inj φ) (outcome p (pureDev base) n) (outcome p (faultsDev base φ) n)

/-- No restriction on the fault set. -/
def AnyFaults : (Nat → Option Nat) → Prop := fun _ => True

/-- At most `b` positions are answered with `code` (the positions are among `S`). -/
def Few (code b : Nat) (φ : Nat → Option Nat) : Prop :=
  ∃ S : List Nat, S.length ≤ b ∧ ∀ n, φ n = some code → n ∈ S

/-- The fault set with the single fault `k ↦ c`. -/
def single (k c : Nat) : Nat → Option Nat := fun n => if n = k then some c else none

/-- Decidable equality of outcomes (core has none for `Except`). -/
def resEq {α : Type} [DecidableEq α] : Res α → Res α → Bool
  | .ok a, .ok b => decide (a = b)
  | .error e, .error f => decide (e = f)
  | _, _ => false

theorem resEq_iff {α : Type} [DecidableEq α] (x y : Res α) : resEq x y = true ↔ x = y := by
  cases x <;> cases y <;> simp [resEq]

/-- Decidable form of `Safe`, used by drivers and non-vacuity examples. -/
def safeB {α : Type} [DecidableEq α] (c : Nat) (good bad : Res α) : Bool :=
  resEq bad (.error (.ccError c)) || resEq bad (.error .retryError) ||
    resEq bad (.error .hpmError) || resEq bad good

theorem safeB_iff {α : Type} [DecidableEq α] (c : Nat) (good bad : Res α) :
    safeB c good bad = true ↔ Safe c good bad := by
  simp [safeB, Safe, resEq_iff, or_assoc]

/-! ### design-time census of the public surface (crc32 keys of the operation names)

The generated table (Gen/ApiShapes.lean) is re-derived from the source on every run; these
lists are the expectation it is checked against in Props/C08.lean:
every public operation that is `other` must be in `residue` (fail closed: a new unclassifiable
operation breaks `residue_closed`), the operations found straight-line checked / built
from whitelisted handlers when the check was written must stay so, and every operation with
handlers of its own must be one of `leafModels` (a new handler breaks `table_covered`). -/

/-- The two operations the pinned tree got wrong (DESIGN §2.4); were they to leave the grammar
again they are covered by their as-shipped counter-example theorems:
get_component_properties, get_channel_authentication_capabilities. -/
def residue : List Nat := [115355061, 2096600255]

/-- The operations with completion-code handlers of their own, and the model each one has
(key, own handler kinds, model):
0 readFru 1 andWait 2 uploadBinary 3 componentProps 4 getAndClear 5 selEntry 6 sdrChunk
7 sdrData 8 clearLoop.
activate_firmware_and_wait, finish_upload_and_wait, initiate_manual_rollback_and_wait,
initiate_upgrade_action_and_wait, upload_binary, get_component_properties,
get_and_clear_sel_entry, get_sel_entry, read_fru_data, get_sdr_chunk_helper (device / repository),
get_sdr_data_helper (device / repository), _clear_repository (SDR / SEL) -/
def leafModels : List (Nat × List Nat × Nat) := [
  (3817294091, [1], 1), (1968242691, [1], 1), (2434229257, [1], 1), (2907939773, [1], 1),
  (1270987197, [1], 2), (115355061, [2], 3), (735321242, [3], 4), (3339311673, [4], 5),
  (2180544297, [0], 0), (1875472473, [5], 6), (1793278629, [5], 6), (1598866954, [6], 7),
  (3887084370, [6], 7), (855676666, [7], 8), (2136410288, [7], 8)]

def designChecked : List Nat := [
  4094109565, 1316515922, 2712792331, 815958396, 3092033106, 548722399, 3288865722, 473745030,
  3562861257, 4064588747, 1812309010, 1009744511, 1498698418, 3760665642, 690636792, 4043477424,
  3825906615, 1955546445, 3378165248, 3350469065, 3365543557, 2260663377, 3171671080, 1581737027,
  970038314, 1396336475, 984759360, 3221818587, 1742679287, 1310257283, 3434897267, 2745686022,
  1412852809, 1621906489, 3704902749, 1346360683, 527323371, 2545294184, 2021140696, 737684527,
  4225880145, 2635887179, 2202047415, 3094679362, 902616330, 964911803, 3034465944, 638065648,
  2913246409, 254629493, 4003406768, 1531597316, 1374329796, 4241854710, 211286549, 986724054,
  721380466, 2092466375, 4149163665, 3678503282, 978021382, 443675542, 3645741658, 982317744,
  3383299017, 315254287, 1342306643, 1723180098, 407530263, 770577993, 2422134171, 2791672487,
  3231972661, 203688731, 3053534375, 3296703582, 4091348494, 1141750388, 1305353407, 1887393432,
  3746044308, 2994664770, 1635939302, 4247580690, 3088578901, 4160643067, 335691651, 2844707483,
  98878421, 752604909, 452265700, 1494657159, 3642380421, 2211128193, 1131210177, 593996978,
  4103209116, 2589790248, 3333938506, 216387910, 1963618893, 1841751004, 3547605706, 3858505695,
  1298382634, 3219363475, 2073270841]

def designLoop : List Nat := [
  3817294091, 754954297, 3047098186, 79719237, 1968242691, 3339311673, 735321242, 2180544297,
  369856706, 543404193, 3791578426, 2136162051, 2717124571, 3524668873, 3175920971, 3841687442,
  2434229257, 2907939773, 1270987197, 940005453, 3916581213, 441237422, 506264201,
  4167411021, 1141642064, 1363320754, 3094962269, 4169115046, 2507408149, 115355061]

end PyIpmi.Spec.FaultDevice
