/-
  Spec.Bmc — a BYTE-LEVEL reference BMC, written from the command tables of
  IPMI v2.0 (chapters 20 Global, 22 Messaging, 23 LAN, 27 Watchdog, 28 Chassis, 29 Event,
  35 Sensor), PICMG 3.0 (chapter 3: FRU control, LED, fan - fan trays of both command-set revisions -, power,
  port/E-Keying), HPM.1 (status queries, Get Component Properties) and DCMI 1.5 (chapter 6: Get DCMI Capabilities Info,
  Get Power Reading, Get DCMI Sensor Info).  It does NOT use the library's message layouts: requests are parsed and
  responses are formatted here with plain byte arithmetic, bit `k` of byte `x` being
  `x / 2^k % 2`.

  Shape:   abstract state `BmcState`  +  abstract accessors `get_X` / `set_X`
           +  per-command `parse…` (request bytes → abstract arguments) and `fmt…`
           (abstract value → response bytes)  +  `handle`, the dispatcher
           `handle : BmcState → Req → BmcState × List Nat`   (reply = completion code :: data).

  The accessors are the property oracle of C07: a write issued through the library must
  leave the BMC in `set_X (denote args) s`, a read must return `get_X addr s`.

  The BMC is permissive: every address (channel, user, sensor, FRU, LED) exists; objects never
  written hold a deterministic default that depends on the address, so that reading the
  wrong object is visible.  Wrong request lengths are answered with C7h, unknown commands
  with C1h, reserved user id 0 with CCh.
-/
import PyIpmi.Base.Bytes
namespace PyIpmi.Spec.Bmc

/-! ### small helpers -/

def b2n (b : Bool) : Nat := if b then 1 else 0
/-- bit `k` of `x` -/
def bitOf (x k : Nat) : Bool := x / 2 ^ k % 2 == 1
/-- bits `[lo+w-1 : lo]` of `x` -/
def bitsOf (x lo w : Nat) : Nat := x / 2 ^ lo % 2 ^ w
/-- two BCD digits: high nibble first digit -/
def bcdByte (n : Nat) : Nat := (n / 10 % 10) * 16 + n % 10
def le16 (v : Nat) : List Nat := [v % 256, v / 256 % 256]
def le24 (v : Nat) : List Nat := [v % 256, v / 256 % 256, v / 65536 % 256]
def padTo (n : Nat) (l : List Nat) : List Nat := (l ++ List.replicate n 0).take n

/-- finite map over `Nat` keys as an association list; first match wins -/
structure Map (α : Type) where
  entries : List (Nat × α) := []
  deriving Repr, DecidableEq

namespace Map
def find? {α} (m : Map α) (k : Nat) : Option α := (m.entries.find? (·.1 == k)).map (·.2)
def getD {α} (m : Map α) (k : Nat) (d : α) : α := (m.find? k).getD d
def set {α} (m : Map α) (k : Nat) (v : α) : Map α := ⟨(k, v) :: m.entries.filter (·.1 != k)⟩
def insertSorted {α} (k : Nat) (v : α) : List (Nat × α) → List (Nat × α)
  | [] => [(k, v)]
  | (k', v') :: rest => if k ≤ k' then (k, v) :: (k', v') :: rest else (k', v') :: insertSorted k v rest
/-- canonical form: keys ascending (entries are already unique by `set`) -/
def norm {α} (m : Map α) : Map α := ⟨m.entries.foldl (fun acc e => insertSorted e.1 e.2 acc) []⟩
end Map

/-! ### abstract state -/

/-- Get Device ID (IPMI 20.1) -/
structure DeviceId where
  deviceId : Nat := 0x20          -- byte 2
  revision : Nat := 1             -- byte 3 [3:0]
  providesSdrs : Bool := true     -- byte 3 [7]
  updateInProgress : Bool := false -- byte 4 [7] ("device available": 0 = normal operation)
  fwMajor : Nat := 1              -- byte 4 [6:0]
  fwMinor : Nat := 0              -- byte 5, BCD on the wire; here the number 0..99
  ipmiMajor : Nat := 2            -- byte 6 [3:0]
  ipmiMinor : Nat := 0            -- byte 6 [7:4]
  support : Nat := 0xbf           -- byte 7, bit0 sensor … bit7 chassis
  manufacturer : Nat := 15000     -- bytes 8:10, 20 bits
  product : Nat := 0x1234         -- bytes 11:12
  aux : Option (List Nat) := none -- bytes 13:16 (optional)
  deriving Repr, DecidableEq

/-- Set/Get Watchdog Timer (IPMI 27.6, 27.7) -/
structure Watchdog where
  timerUse : Nat := 0             -- [2:0]
  dontLog : Bool := false         -- [7]
  running : Bool := false         -- Get: [6]
  action : Nat := 0               -- actions [2:0]
  preInterrupt : Nat := 0         -- actions [6:4]
  preInterval : Nat := 0
  expFlags : Nat := 0
  initial : Nat := 0              -- 16 bit, 100 ms / count
  present : Nat := 0
  deriving Repr, DecidableEq

/-- arguments of Set Watchdog Timer -/
structure WatchdogCfg where
  timerUse : Nat
  dontStop : Bool
  dontLog : Bool
  action : Nat
  preInterrupt : Nat
  preInterval : Nat
  clearFlags : Nat
  initial : Nat
  deriving Repr, DecidableEq

/-- Get Chassis Status (IPMI 28.2) -/
structure Chassis where
  powerOn : Bool := true          -- byte 2 [0]
  overload : Bool := false        -- [1]
  interlock : Bool := false       -- [2]
  fault : Bool := false           -- [3]
  controlFault : Bool := false    -- [4]
  restorePolicy : Nat := 0        -- [6:5]
  evAcFailed : Bool := false      -- byte 3 [0]
  evOverload : Bool := false      -- [1]
  evInterlock : Bool := false     -- [2]
  evFault : Bool := false         -- [3]
  evIpmiOn : Bool := false        -- [4]
  intrusion : Bool := false       -- byte 4 [0]
  lockout : Bool := false         -- [1]
  driveFault : Bool := false      -- [2]
  coolingFault : Bool := false    -- [3]
  idState : Nat := 0              -- [5:4]
  idSupported : Bool := false     -- [6]
  frontPanel : Option Nat := none -- byte 5 (optional)
  deriving Repr, DecidableEq

/-- Get User Access (IPMI 22.27) byte 5 + session limit -/
structure UserAccess where
  privilege : Nat := 0xf
  ipmiMsg : Bool := false
  linkAuth : Bool := false
  callbackOnly : Bool := false
  sessionLimit : Nat := 0
  deriving Repr, DecidableEq

structure UserAccessArgs where
  channel : Nat
  userId : Nat
  enableChange : Bool
  ipmiMsg : Bool
  linkAuth : Bool
  callbackOnly : Bool
  privilege : Nat
  sessionLimit : Nat
  deriving Repr, DecidableEq

/-- what Get User Access reports -/
structure UserAccessView where
  maxUsers : Nat
  enabledCount : Nat
  enableStatus : Nat
  fixedNames : Nat
  privilege : Nat
  ipmiMsg : Bool
  linkAuth : Bool
  callbackOnly : Bool
  deriving Repr, DecidableEq

/-- a sensor (IPMI 35.8, 35.9, 35.14) -/
structure Sensor where
  reading : Nat := 0
  eventMsgEnabled : Bool := true   -- Get Sensor Reading byte 3 [7]
  scanningEnabled : Bool := true   -- [6]
  unavailable : Bool := false      -- [5] reading/state unavailable (update in progress)
  states1 : Option Nat := some 0xc0 -- byte 4 (optional)
  states2 : Option Nat := none     -- byte 5 [6:0]: states 14..8 (optional, only after byte 4); [7] is not state
  readable : Nat := 0x3f           -- readable-threshold mask, bit0 lnc … bit5 unr
  thresholds : List Nat := [0, 0, 0, 0, 0, 0]   -- lnc lcr lnr unc ucr unr
  rearmCount : Nat := 0
  deriving Repr, DecidableEq

/-- LED function byte: 00h off, 01h..FAh blinking (off duration, 10 ms units), FFh on -/
inductive LedFn where
  | off
  | on
  | blink (offDur onDur : Nat)
  deriving Repr, DecidableEq

structure Led where
  localAvail : Bool := true
  overrideEn : Bool := false
  lampTestEn : Bool := false
  localFn : LedFn := .off
  localColor : Nat := 1
  overrideFn : LedFn := .off
  overrideColor : Nat := 1
  lampDur : Nat := 0               -- 100 ms units, < 128
  deriving Repr, DecidableEq

/-- what Set FRU LED State asks for -/
inductive LedCmd where
  | override (fn : LedFn) (color : Nat)
  | lampTest (dur : Nat) (color : Nat)
  | restoreLocal
  deriving Repr, DecidableEq

structure Fan where
  minLevel : Nat := 0
  maxLevel : Nat := 15
  normalLevel : Nat := 5
  localSupported : Bool := true
  overrideLevel : Nat := 0xff
  localLevel : Option Nat := some 5
  localEnabled : Option Nat := none      -- PICMG 3.0 R3.0 optional byte
  /-- the fan tray implements the PICMG 3.0 R3.0 form of Set Fan Level (optional request byte 4 "Local Control
  Enable State"); an R1.0/R2.0 tray knows the three-byte request only -/
  r3 : Bool := true
  deriving Repr, DecidableEq

/-- the link a Get Port State response describes: channel, interface, flags, type, extension, grouping id, state -/
structure LinkView where
  channel : Nat
  iface : Nat
  flags : Nat
  linkType : Nat      -- `LinkDescriptor.type`
  sigClass : Nat      -- `LinkDescriptor.sig_class`
  ext : Nat
  grouping : Nat
  state : Nat
  deriving Repr, DecidableEq

/-- link of an E-Keying port: link info bits + state -/
structure Port where
  hasLink : Bool := true
  flags : Nat := 1       -- link designator [11:8]
  linkType : Nat := 1    -- [19:12]
  ext : Nat := 0         -- [23:20]
  grouping : Nat := 0    -- [31:24]
  state : Nat := 0
  deriving Repr, DecidableEq

structure PowerLevel where
  dynamic : Bool := false
  level : Nat := 1
  delay : Nat := 0
  multiplier : Nat := 1
  draw : List Nat := [10, 20]
  deriving Repr, DecidableEq

structure FruAct where
  active : Bool := false
  locked : Bool := false
  deactLocked : Bool := false
  lastControl : Option Nat := none   -- last FRU Control option
  controlCount : Nat := 0
  deriving Repr, DecidableEq

structure PowerChannel where
  control : Nat := 0
  currentLimit : Nat := 0
  primaryPm : Nat := 0
  backupPm : Nat := 0
  status : Nat := 0
  deriving Repr, DecidableEq

structure Hpm where
  version : Nat := 0
  capabilities : Nat := 0
  timeouts : List Nat := [1, 2, 3, 4]
  components : Nat := 1
  cmdInProgress : Nat := 0
  lastCc : Nat := 0
  estimate : Option Nat := none
  selftest1 : Nat := 0x55
  selftest2 : Nat := 0
  rollbackStatus : Nat := 0
  rollbackEstimate : Option Nat := none
  /-- Get Component Properties (HPM.1 table 3-5), per component id 0..7: description string (property 2): the
  characters before the terminating NUL of the 12-byte field -/
  compDescr : Map (List Nat) := {}
  /-- general properties byte (property 0) and current version (property 1: major, minor BCD, 4 auxiliary bytes) -/
  compGeneral : Map Nat := {}
  compVersion : Map (List Nat) := {}
  /-- rollback / deferred version (properties 3, 4) where the component has one -/
  compRollback : Map (List Nat) := {}
  compDeferred : Map (List Nat) := {}
  deriving Repr, DecidableEq

/-- Get Power Reading (DCMI 1.5 table 6-16): watts, 16 bits each; IPMI timestamp; statistics reporting period in
milliseconds (32 bits each); power reading state (bit 6: power measurement active) -/
structure PowerReading where
  current : Nat := 0
  minimum : Nat := 0
  maximum : Nat := 0
  average : Nat := 0
  timestamp : Nat := 0
  period : Nat := 0
  state : Nat := 0x40
  deriving Repr, DecidableEq

/-- one parameter of Get DCMI Capabilities Info (DCMI 1.5 table 6-2): parameter revision + parameter data -/
structure DcmiCap where
  revision : Nat := 2
  data : List Nat := []
  deriving Repr, DecidableEq

structure Dcmi where
  /-- DCMI specification conformance (bytes 3, 4 of every Get DCMI Capabilities Info response) -/
  confMajor : Nat := 1
  confMinor : Nat := 5
  caps : Map DcmiCap := {}             -- parameter selector
  power : Map PowerReading := {}       -- mode*256 + mode attributes
  /-- temperature sensors per entity id (40h inlet, 41h CPU, 42h baseboard): SDR record id of instance 1, 2, … -/
  sensors : Map (List Nat) := {}
  deriving Repr, DecidableEq

structure BmcState where
  device : DeviceId := {}
  guid : List Nat := List.replicate 16 0
  coldResets : Nat := 0
  warmResets : Nat := 0
  watchdog : Watchdog := {}
  chassis : Chassis := {}
  chassisLastControl : Option Nat := none   -- last Chassis Control option accepted
  chassisControlCount : Nat := 0
  bootParams : Map (List Nat) := {}       -- parameter selector ↦ data (params 0..6)
  bootInvalid : Map Bool := {}            -- parameter selector ↦ marked invalid / locked
  bootMailbox : Map (List Nat) := {}      -- parameter 7: set selector ↦ block data
  lan : Map (List Nat) := {}              -- channel*256 + parameter ↦ data
  lanRev : Map Nat := {}                  -- channel*256 + parameter ↦ parameter revision byte
  userNames : Map (List Nat) := {}        -- user id ↦ 16 bytes
  userPasswords : Map (List Nat) := {}    -- user id ↦ 16 bytes
  userEnabled : Map Nat := {}             -- user id ↦ enable status (1 enabled, 2 disabled)
  userAccess : Map UserAccess := {}       -- channel*64 + user id
  maxUsers : Nat := 10
  fixedNames : Nat := 1
  sensors : Map Sensor := {}              -- lun*256 + sensor number
  evReceiverAddr : Nat := 0x20            -- 8-bit slave address (bit 0 = 0), FFh = disabled
  evReceiverLun : Nat := 0
  events : List (List Nat) := []          -- Platform Event messages received, newest first
  picmgVersion : Nat := 0x32
  maxFruId : Nat := 3
  ipmcFruId : Nat := 0
  leds : Map Led := {}                    -- fru*256 + led
  fans : Map Fan := {}                    -- fru
  ports : Map Port := {}                  -- interface*64 + channel
  power : Map PowerLevel := {}            -- fru*4 + power type
  frus : Map FruAct := {}                 -- fru
  sigClass : Map Nat := {}                -- interface*64 + channel
  powerChannels : Map PowerChannel := {}  -- channel
  pmMaxChannel : Nat := 16
  pmGlobal : Nat := 0                     -- global status [3:0]
  pmHeartbeats : Nat := 0
  hpm : Hpm := {}
  dcmi : Dcmi := {}
  deriving Repr, DecidableEq

/-! ### defaults of never-written objects (a function of the address) -/

def dfltSensor (k : Nat) : Sensor :=
  { reading := (k * 7 + 3) % 256, states1 := some (0xc0 + k % 8), states2 := if k % 2 = 0 then some ((k * 3) % 128) else none,
    readable := if k % 4 = 3 then 0x1b else 0x3f,
    thresholds := [(k + 1) % 256, (k + 2) % 256, (k + 3) % 256, (k + 101) % 256, (k + 102) % 256, (k + 103) % 256] }
def dfltLed (k : Nat) : Led :=
  { localFn := if k % 3 = 0 then .off else if k % 3 = 1 then .on else .blink (k % 250 + 1) ((k * 3) % 250 + 1),
    localColor := k % 6 + 1, overrideColor := (k + 2) % 6 + 1 }
def dfltFan (k : Nat) : Fan :=
  { normalLevel := k % 15, localLevel := some ((k + 3) % 15), r3 := k % 2 = 0, localEnabled := if k % 2 = 0 then some 1 else none }
def dfltPort (k : Nat) : Port := { flags := k % 15 + 1, linkType := k % 5 + 1, ext := k % 3, grouping := k % 256, state := k % 2 }
def dfltPower (k : Nat) : PowerLevel := { level := k % 20, delay := k % 256, multiplier := k % 7 + 1, draw := [k % 256, (k + 1) % 256] }
def dfltLan (k : Nat) : List Nat :=
  let ch := k / 256
  match k % 256 with
  | 3 => [10, 0, ch, 1]
  | 4 => [1]
  | 5 => [2, 0, 0, 0, ch, 1]
  | 6 => [255, 255, 255, 0]
  | 20 => [0, 0]
  | p => [(ch + p) % 256]
/-- parameter revision (IPMI 23.2 response byte 2): [7:4] present revision, [3:0] oldest compatible one;
11h for the parameters of the specification - the default varies with the address so that the revision of
another channel / parameter is visible -/
def dfltLanRev (k : Nat) : Nat := 16 * ((k / 256 + k % 256) % 15 + 1) + 1
def dfltBoot (sel : Nat) : List Nat :=
  match sel with
  | 0 => [0]
  | 1 => [0]
  | 2 => [0]
  | 3 => [0]
  | 4 => [0, 0]
  | 5 => [0, 0, 0, 0, 0]
  | 6 => List.replicate 9 0
  | _ => [0]
def dfltName (uid : Nat) : List Nat := padTo 16 [117, 48 + uid % 10]
def dfltAccess (k : Nat) : UserAccess := { privilege := if k % 5 = 0 then 0xf else k % 5, ipmiMsg := k % 2 = 1 }

/-! ### accessors (the oracle) -/

def get_device_id (s : BmcState) : DeviceId := s.device
def get_device_guid (s : BmcState) : List Nat := s.guid
def cold_reset (s : BmcState) : BmcState := { s with coldResets := s.coldResets + 1 }
def warm_reset (s : BmcState) : BmcState := { s with warmResets := s.warmResets + 1 }

def get_watchdog (s : BmcState) : Watchdog := s.watchdog
/-- Set Watchdog Timer: loads the configuration, clears the expiration flags named in the
request, stops the timer unless "don't stop" is set; the countdown restarts from the initial value. -/
def set_watchdog (c : WatchdogCfg) (s : BmcState) : BmcState :=
  { s with watchdog :=
    { timerUse := c.timerUse, dontLog := c.dontLog,
      running := c.dontStop && s.watchdog.running,
      action := c.action, preInterrupt := c.preInterrupt, preInterval := c.preInterval,
      expFlags := s.watchdog.expFlags - (s.watchdog.expFlags &&& c.clearFlags),
      initial := c.initial, present := c.initial } }
/-- Reset Watchdog Timer: (re)starts the countdown from the initial value -/
def reset_watchdog (s : BmcState) : BmcState :=
  { s with watchdog := { s.watchdog with running := true, present := s.watchdog.initial } }

def get_chassis_status (s : BmcState) : Chassis := s.chassis
/-- Chassis Control (IPMI 28.3): 0 power down, 1 power up, 2 power cycle, 3 hard reset,
4 pulse diagnostic interrupt, 5 soft shutdown -/
def chassis_control (opt : Nat) (s : BmcState) : BmcState :=
  let c := s.chassis
  let c := match opt with
    | 0 => { c with powerOn := false }
    | 1 => { c with powerOn := true, evIpmiOn := true }
    | 5 => { c with powerOn := false }
    | _ => c
  { s with chassis := c, chassisLastControl := some opt, chassisControlCount := s.chassisControlCount + 1 }

def get_boot_param (sel setSel : Nat) (s : BmcState) : List Nat :=
  if sel = 7 then setSel :: (s.bootMailbox.getD setSel (List.replicate 16 0))
  else s.bootParams.getD sel (dfltBoot sel)
def get_boot_invalid (sel : Nat) (s : BmcState) : Bool := s.bootInvalid.getD sel false
def set_boot_param (sel : Nat) (invalid : Bool) (data : List Nat) (s : BmcState) : BmcState :=
  let s := { s with bootInvalid := s.bootInvalid.set sel invalid }
  if sel = 7 then
    match data with
    | [] => s
    | b :: rest => { s with bootMailbox := s.bootMailbox.set b rest }
  else { s with bootParams := s.bootParams.set sel data }

/-- boot flags (parameter 5), IPMI table 28-14 -/
structure BootFlags where
  valid : Bool
  persistent : Bool
  efi : Bool
  device : Nat          -- data 2 [5:2]
  deriving Repr, DecidableEq
def get_boot_flags (s : BmcState) : BootFlags :=
  let d := get_boot_param 5 0 s
  let d1 := d.getD 0 0
  let d2 := d.getD 1 0
  { valid := bitOf d1 7, persistent := bitOf d1 6, efi := bitOf d1 5, device := bitsOf d2 2 4 }
/-- writing boot flags through parameter 5: all other flag bits of the parameter are zero -/
def set_boot_flags (f : BootFlags) (s : BmcState) : BmcState :=
  set_boot_param 5 false
    [b2n f.valid * 128 + b2n f.persistent * 64 + b2n f.efi * 32, f.device * 4, 0, 0, 0] s

/-- boot device selector codes, IPMI v2.0 table 28-14, parameter 5, data 2 bits [5:2] -/
inductive BootDev where
  | noOverride | pxe | defaultHdd | defaultHddSafe | diagnostic | cd | bios
  | remoteFloppy      -- 0111b remotely connected (redirected) floppy / primary removable media
  | remoteCd          -- 1000b remotely connected (redirected) CD/DVD
  | primaryRemote     -- 1001b primary remote media
  | remoteHdd         -- 1011b remotely connected (redirected) hard drive
  | floppy            -- 1111b floppy / primary removable media
  deriving Repr, DecidableEq
def BootDev.code : BootDev → Nat
  | .noOverride => 0 | .pxe => 1 | .defaultHdd => 2 | .defaultHddSafe => 3 | .diagnostic => 4
  | .cd => 5 | .bios => 6 | .remoteFloppy => 7 | .remoteCd => 8 | .primaryRemote => 9
  | .remoteHdd => 11 | .floppy => 15
def BootDev.ofCode : Nat → Option BootDev
  | 0 => some .noOverride | 1 => some .pxe | 2 => some .defaultHdd | 3 => some .defaultHddSafe
  | 4 => some .diagnostic | 5 => some .cd | 6 => some .bios | 7 => some .remoteFloppy
  | 8 => some .remoteCd | 9 => some .primaryRemote | 11 => some .remoteHdd | 15 => some .floppy
  | _ => none
def BootDev.all : List BootDev :=
  [.noOverride, .pxe, .defaultHdd, .defaultHddSafe, .diagnostic, .cd, .bios, .remoteFloppy,
   .remoteCd, .primaryRemote, .remoteHdd, .floppy]

def lanKey (ch param : Nat) : Nat := ch * 256 + param
def get_lan_param (ch param : Nat) (s : BmcState) : List Nat := s.lan.getD (lanKey ch param) (dfltLan (lanKey ch param))
def set_lan_param (ch param : Nat) (data : List Nat) (s : BmcState) : BmcState :=
  { s with lan := s.lan.set (lanKey ch param) data }
/-- the parameter revision Get LAN Configuration Parameters reports for (channel, parameter) -/
def get_lan_revision (ch param : Nat) (s : BmcState) : Nat := s.lanRev.getD (lanKey ch param) (dfltLanRev (lanKey ch param))
/-- LAN parameter 20 (802.1q VLAN id): data1 = id[7:0], data2 [7] enable, [3:0] id[11:8] -/
def get_vlan (ch : Nat) (s : BmcState) : Bool × Nat :=
  let d := get_lan_param ch 20 s
  (bitOf (d.getD 1 0) 7, d.getD 0 0 + 256 * bitsOf (d.getD 1 0) 0 4)
def set_vlan (ch : Nat) (enabled : Bool) (id : Nat) (s : BmcState) : BmcState :=
  set_lan_param ch 20 [id % 256, b2n enabled * 128 + id / 256 % 16] s

def userKey (ch uid : Nat) : Nat := ch * 64 + uid
/-- privilege limit codes of IPMI 22.27: 1 callback … 5 OEM, Fh no access; every other code is reserved (0) -/
def privNorm (c : Nat) : Nat := if c = 1 ∨ c = 2 ∨ c = 3 ∨ c = 4 ∨ c = 5 ∨ c = 15 then c else 0
def get_user_name (uid : Nat) (s : BmcState) : List Nat := s.userNames.getD uid (dfltName uid)
def set_user_name (uid : Nat) (name : List Nat) (s : BmcState) : BmcState :=
  { s with userNames := s.userNames.set uid name }
def get_user_password (uid : Nat) (s : BmcState) : List Nat := s.userPasswords.getD uid (List.replicate 16 0)
def set_user_password (uid : Nat) (pw : List Nat) (s : BmcState) : BmcState :=
  { s with userPasswords := s.userPasswords.set uid pw }
def get_user_enabled (uid : Nat) (s : BmcState) : Nat := s.userEnabled.getD uid 0
def set_user_enabled (uid : Nat) (on : Bool) (s : BmcState) : BmcState :=
  { s with userEnabled := s.userEnabled.set uid (if on then 1 else 2) }
def enabledCount (s : BmcState) : Nat := (s.userEnabled.entries.filter (·.2 == 1)).length
def get_user_access (ch uid : Nat) (s : BmcState) : UserAccessView :=
  let a := s.userAccess.getD (userKey ch uid) (dfltAccess (userKey ch uid))
  { maxUsers := s.maxUsers, enabledCount := enabledCount s % 64, enableStatus := get_user_enabled uid s,
    fixedNames := s.fixedNames, privilege := privNorm a.privilege, ipmiMsg := a.ipmiMsg, linkAuth := a.linkAuth,
    callbackOnly := a.callbackOnly }
def set_user_access (a : UserAccessArgs) (s : BmcState) : BmcState :=
  let k := userKey a.channel a.userId
  let old := s.userAccess.getD k (dfltAccess k)
  let new : UserAccess :=
    { privilege := a.privilege, sessionLimit := a.sessionLimit,
      ipmiMsg := if a.enableChange then a.ipmiMsg else old.ipmiMsg,
      linkAuth := if a.enableChange then a.linkAuth else old.linkAuth,
      callbackOnly := if a.enableChange then a.callbackOnly else old.callbackOnly }
  { s with userAccess := s.userAccess.set k new }

def sensorKey (lun num : Nat) : Nat := lun * 256 + num
def get_sensor (lun num : Nat) (s : BmcState) : Sensor := s.sensors.getD (sensorKey lun num) (dfltSensor (sensorKey lun num))
/-- Get Sensor Reading as an API result: reading and the mask of the asserted states 0..14 (a sensor has
fifteen states; bit 7 of the second state byte is "reserved. Returned as 1b. Ignore on read", IPMI table 35-15,
and is no part of the result).  While the BMC flags
"reading/state unavailable" (response byte 3 bit 5, IPMI 35.14: "software should use this bit to avoid
getting an incorrect status while the first sensor update is in progress") NEITHER the reading NOR the
state bytes of the response describe the sensor: the result carries neither. -/
def get_sensor_reading (lun num : Nat) (s : BmcState) : Option Nat × Option Nat :=
  let x := get_sensor lun num s
  if x.unavailable then (none, none)
  else
    (some x.reading,
     match x.states1, x.states2 with
     | some a, some b => some (a + 256 * b)
     | some a, none => some a
     | none, _ => none)
def thrNames : List String := ["lnc", "lcr", "lnr", "unc", "ucr", "unr"]
/-- readable thresholds as (index into lnc lcr lnr unc ucr unr, value) -/
def get_sensor_thresholds (lun num : Nat) (s : BmcState) : List (Nat × Nat) :=
  let x := get_sensor lun num s
  (List.range 6).filterMap fun i => if bitOf x.readable i then some (i, x.thresholds.getD i 0) else none
/-- Set Sensor Thresholds: `vals[i] = some v` sets threshold `i` -/
def set_sensor_thresholds (lun num : Nat) (vals : List (Option Nat)) (s : BmcState) : BmcState :=
  let x := get_sensor lun num s
  let thr := (List.range 6).map fun i =>
    match vals.getD i none with
    | some v => v
    | none => x.thresholds.getD i 0
  { s with sensors := s.sensors.set (sensorKey lun num) { x with thresholds := thr } }
/-- Re-arm Sensor Events (IPMI 35.12): the sensor is scanned anew; until that update has completed the
sensor answers "reading/state unavailable" (35.14) - the reading and state bytes it still holds are the
ones from before the re-arm -/
def rearm_sensor (lun num : Nat) (s : BmcState) : BmcState :=
  let x := get_sensor lun num s
  { s with sensors := s.sensors.set (sensorKey lun num) { x with rearmCount := x.rearmCount + 1, unavailable := true } }

def get_event_receiver (s : BmcState) : Nat × Nat := (s.evReceiverAddr, s.evReceiverLun)
def set_event_receiver (addr lun : Nat) (s : BmcState) : BmcState :=
  { s with evReceiverAddr := addr, evReceiverLun := lun }
/-- Platform Event Message (IPMI 29.3, IPMB form): EvMRev, sensor type, sensor #, dir|type, data -/
structure PlatformEvent where
  evmRev : Nat
  sensorType : Nat
  sensorNum : Nat
  deassert : Bool
  eventType : Nat
  data : List Nat
  deriving Repr, DecidableEq
def PlatformEvent.bytes (e : PlatformEvent) : List Nat :=
  [e.evmRev, e.sensorType, e.sensorNum, b2n e.deassert * 128 + e.eventType] ++ e.data
def platform_event (e : PlatformEvent) (s : BmcState) : BmcState := { s with events := e.bytes :: s.events }

def ledKey (fru led : Nat) : Nat := fru * 256 + led
def get_led (fru led : Nat) (s : BmcState) : Led := s.leds.getD (ledKey fru led) (dfltLed (ledKey fru led))
/-- Set FRU LED State (PICMG 3.0 table 3-29); colour Eh = do not change, Fh = default colour -/
def set_led (fru led : Nat) (c : LedCmd) (s : BmcState) : BmcState :=
  let x := get_led fru led s
  let pick (color old : Nat) : Nat := if color = 0xe then old else if color = 0xf then x.localColor else color
  let x := match c with
    | .override fn color => { x with overrideEn := true, overrideFn := fn, overrideColor := pick color x.overrideColor }
    | .lampTest dur color => { x with lampTestEn := true, lampDur := dur, overrideColor := pick color x.overrideColor }
    | .restoreLocal => { x with overrideEn := false, lampTestEn := false }
  { s with leds := s.leds.set (ledKey fru led) x }

/-- what Get FRU LED State lets a reader see: override / lamp-test values only while enabled -/
structure LedFnView where
  kind : Nat                 -- 0 off, 1 blinking, 2 on
  offDur : Option Nat        -- 10 ms units; only a blinking LED has durations
  onDur : Option Nat
  deriving Repr, DecidableEq
def LedFn.view : LedFn → LedFnView
  | .off => ⟨0, none, none⟩
  | .on => ⟨2, none, none⟩
  | .blink o n => ⟨1, some o, some n⟩
structure LedView where
  localAvail : Bool
  overrideEn : Bool
  lampTestEn : Bool
  localFn : LedFnView
  localColor : Nat
  override : Option (LedFnView × Nat)
  lampDur : Option Nat
  deriving Repr, DecidableEq
def get_led_view (fru led : Nat) (s : BmcState) : LedView :=
  let x := get_led fru led s
  { localAvail := x.localAvail, overrideEn := x.overrideEn, lampTestEn := x.lampTestEn, localFn := x.localFn.view,
    localColor := x.localColor, override := if x.overrideEn then some (x.overrideFn.view, x.overrideColor) else none,
    lampDur := if x.lampTestEn then some x.lampDur else none }

def get_fan (fru : Nat) (s : BmcState) : Fan := s.fans.getD fru (dfltFan fru)
/-- Set Fan Level (PICMG 3.0, NetFn 2Ch cmd 15h): byte 3 is the override fan level; `localEn` is the OPTIONAL byte 4 of
R3.0, "Local Control Enable State" (00h disabled, 01h enabled) - when the request does not carry it the local
control state stays as it is -/
def set_fan_level (fru level : Nat) (localEn : Option Nat) (s : BmcState) : BmcState :=
  let x := get_fan fru s
  { s with fans := s.fans.set fru { x with overrideLevel := level,
                                           localEnabled := match localEn with | some e => some e | none => x.localEnabled } }

def portKey (iface ch : Nat) : Nat := iface * 64 + ch
def get_port (iface ch : Nat) (s : BmcState) : Port := s.ports.getD (portKey iface ch) (dfltPort (portKey iface ch))
def set_port (iface ch : Nat) (p : Port) (s : BmcState) : BmcState := { s with ports := s.ports.set (portKey iface ch) p }
/-- How the API names the 8-bit link type [19:12] of a link descriptor (PICMG 3.0 table 3-50/3-52: 01h base,
02h..05h fabric, F0h..FEh "E-Keying OEM GUID definition"): `LinkDescriptor.type` and `LinkDescriptor.sig_class`.
For the PICMG 3.x types the upper nibble is the link signalling class (PICMG 3.1 R2.0) and `type` is the lower
one; an OEM link type is the whole byte - the API publishes `TYPE_OEM0..3 = F0h..F3h` as values of `type` - and
has no signalling class. -/
def linkTypeAttrs (lt : Nat) : Nat × Nat := if lt / 16 = 15 then (lt, 0) else (lt % 16, lt / 16)
def get_signaling_class (iface ch : Nat) (s : BmcState) : Nat := s.sigClass.getD (portKey iface ch) (portKey iface ch % 4)
def set_signaling_class (iface ch cls : Nat) (s : BmcState) : BmcState :=
  { s with sigClass := s.sigClass.set (portKey iface ch) cls }

def get_power_level (fru ty : Nat) (s : BmcState) : PowerLevel := s.power.getD (fru * 4 + ty) (dfltPower (fru * 4 + ty))
def get_fru (fru : Nat) (s : BmcState) : FruAct := s.frus.getD fru {}
def fru_control (fru opt : Nat) (s : BmcState) : BmcState :=
  let x := get_fru fru s
  { s with frus := s.frus.set fru { x with lastControl := some opt, controlCount := x.controlCount + 1 } }
def set_fru_activation (fru : Nat) (on : Bool) (s : BmcState) : BmcState :=
  { s with frus := s.frus.set fru { get_fru fru s with active := on } }
/-- Set FRU Activation Policy: only the bits selected by the mask change -/
def set_fru_policy (fru : Nat) (maskLocked maskDeact setLocked setDeact : Bool) (s : BmcState) : BmcState :=
  let x := get_fru fru s
  let y : FruAct := { x with locked := if maskLocked then setLocked else x.locked,
                             deactLocked := if maskDeact then setDeact else x.deactLocked }
  { s with frus := s.frus.set fru y }

def get_power_channel (ch : Nat) (s : BmcState) : PowerChannel := s.powerChannels.getD ch { status := (ch * 5 + 1) % 128 }
def power_channel_control (ch control limit primary backup : Nat) (s : BmcState) : BmcState :=
  let x := get_power_channel ch s
  let y : PowerChannel := { x with control := control, currentLimit := limit, primaryPm := primary, backupPm := backup }
  { s with powerChannels := s.powerChannels.set ch y }
def pm_heartbeat (s : BmcState) : BmcState := { s with pmHeartbeats := s.pmHeartbeats + 1 }

def get_hpm (s : BmcState) : Hpm := s.hpm
/-- component `id` exists: bit `id` of the component mask of Get Target Upgrade Capabilities -/
def has_component (id : Nat) (s : BmcState) : Bool := decide (id < 8) && bitOf s.hpm.components id
def dfltDescr (id : Nat) : List Nat := [67, 48 + id % 10]          -- "C<id>"
/-- the description of component `id`: its characters (one per byte), without the NUL padding -/
def get_component_description (id : Nat) (s : BmcState) : List Nat := s.hpm.compDescr.getD id (dfltDescr id)
/-- HPM.1 Get Component Properties: 82h invalid component id, 83h invalid property selector -/
def ccHpmInvalidComponent : Nat := 0x82
def ccHpmInvalidSelector : Nat := 0x83
/-- the property data of Get Component Properties (selector 0 general, 1 current version, 2 description string
in a 12-byte NUL-padded field, 3 rollback version, 4 deferred version) -/
def component_property (id sel : Nat) (s : BmcState) : Option (List Nat) :=
  match sel with
  | 0 => some [s.hpm.compGeneral.getD id 0]
  | 1 => some (padTo 6 (s.hpm.compVersion.getD id [1, id % 10]))
  | 2 => some (padTo 12 (get_component_description id s))
  | 3 => (s.hpm.compRollback.find? id).map (padTo 6)
  | 4 => (s.hpm.compDeferred.find? id).map (padTo 6)
  | _ => none
/-- `get_component_properties(id)`: which of the properties 0..4 the component has, and its description -/
def component_properties (id : Nat) (s : BmcState) : List Nat × List Nat :=
  ((List.range 5).filter fun sel => (component_property id sel s).isSome, get_component_description id s)
/-- `find_component_id_by_descriptor`: the first existing component that carries exactly this description -/
def find_component (descr : List Nat) (s : BmcState) : Option Nat :=
  (List.range 8).find? fun id => has_component id s && get_component_description id s == descr

/-! ### byte level: request parsing and response formatting -/

/-! DCMI 1.5 -/
def dfltDcmiCap (sel : Nat) : DcmiCap := { revision := 2, data := [sel % 256, (sel + 1) % 256, 0] }
def dfltPowerReading (k : Nat) : PowerReading :=
  { current := k % 1000 + 100, minimum := k % 100, maximum := k % 1000 + 200, average := k % 1000 + 50,
    timestamp := 0x5f000000 + k % 65536, period := 1000 * (k % 60 + 1), state := 0x40 }
def dfltDcmiSensors (e : Nat) : List Nat := [e % 4 * 256 + e % 256]
def get_dcmi_capabilities (sel : Nat) (s : BmcState) : DcmiCap := s.dcmi.caps.getD sel (dfltDcmiCap sel)
def get_power_reading (mode attrs : Nat) (s : BmcState) : PowerReading :=
  s.dcmi.power.getD (mode * 256 + attrs) (dfltPowerReading (mode * 256 + attrs))
/-- the SDR record ids of all instances of an entity; DCMI knows temperature sensors (type 01h) only -/
def get_dcmi_sensors (ty entity : Nat) (s : BmcState) : List Nat :=
  if ty = 1 then s.dcmi.sensors.getD entity (dfltDcmiSensors entity) else []
/-- all DCMI temperature sensors: inlet (40h), CPU (41h), baseboard (42h), in this order - what
`get_dcmi_sensor_record_ids()` denotes.  (That operation is a sequence of exchanges and therefore not a constructor of
`Call`; its model is `Model.Api.api_get_dcmi_sensor_record_ids`, its theorems `read_get_dcmi_sensor_record_ids_*`.) -/
def get_dcmi_sensor_record_ids (s : BmcState) : List Nat :=
  get_dcmi_sensors 1 0x40 s ++ get_dcmi_sensors 1 0x41 s ++ get_dcmi_sensors 1 0x42 s

structure Req where
  netfn : Nat
  lun : Nat
  cmd : Nat
  data : List Nat
  deriving Repr, DecidableEq

def ccOk : Nat := 0x00
def ccInvalidCmd : Nat := 0xc1
def ccLength : Nat := 0xc7
def ccInvalidField : Nat := 0xcc

def fmtDeviceId (d : DeviceId) : List Nat :=
  [d.deviceId, d.revision + 128 * b2n d.providesSdrs, d.fwMajor + 128 * b2n d.updateInProgress,
   bcdByte d.fwMinor, d.ipmiMajor + 16 * d.ipmiMinor, d.support] ++ le24 d.manufacturer ++ le16 d.product
  ++ (match d.aux with | some a => a | none => [])

def fmtWatchdog (w : Watchdog) : List Nat :=
  [w.timerUse + 64 * b2n w.running + 128 * b2n w.dontLog, w.action + 16 * w.preInterrupt,
   w.preInterval, w.expFlags] ++ le16 w.initial ++ le16 w.present

def parseWatchdog : List Nat → Option WatchdogCfg
  | [b1, b2, b3, b4, b5, b6] =>
    some { timerUse := bitsOf b1 0 3, dontStop := bitOf b1 6, dontLog := bitOf b1 7,
           action := bitsOf b2 0 3, preInterrupt := bitsOf b2 4 3, preInterval := b3,
           clearFlags := b4, initial := b5 + 256 * b6 }
  | _ => none

def fmtChassis (c : Chassis) : List Nat :=
  [b2n c.powerOn + 2 * b2n c.overload + 4 * b2n c.interlock + 8 * b2n c.fault + 16 * b2n c.controlFault
     + 32 * c.restorePolicy,
   b2n c.evAcFailed + 2 * b2n c.evOverload + 4 * b2n c.evInterlock + 8 * b2n c.evFault + 16 * b2n c.evIpmiOn,
   b2n c.intrusion + 2 * b2n c.lockout + 4 * b2n c.driveFault + 8 * b2n c.coolingFault + 16 * c.idState
     + 64 * b2n c.idSupported]
  ++ (match c.frontPanel with | some b => [b] | none => [])

def fmtUserAccess (v : UserAccessView) : List Nat :=
  [v.maxUsers, v.enabledCount + 64 * v.enableStatus, v.fixedNames,
   v.privilege + 16 * b2n v.ipmiMsg + 32 * b2n v.linkAuth + 64 * b2n v.callbackOnly]

def parseUserAccess : List Nat → Option UserAccessArgs
  | [b1, b2, b3] =>
    some { channel := bitsOf b1 0 4, ipmiMsg := bitOf b1 4, linkAuth := bitOf b1 5, callbackOnly := bitOf b1 6,
           enableChange := bitOf b1 7, userId := bitsOf b2 0 6, privilege := bitsOf b3 0 4, sessionLimit := 0 }
  | [b1, b2, b3, b4] =>
    some { channel := bitsOf b1 0 4, ipmiMsg := bitOf b1 4, linkAuth := bitOf b1 5, callbackOnly := bitOf b1 6,
           enableChange := bitOf b1 7, userId := bitsOf b2 0 6, privilege := bitsOf b3 0 4,
           sessionLimit := bitsOf b4 0 4 }
  | _ => none

/-- Get Sensor Reading response (IPMI table 35-15); byte 5: "[7] reserved. Returned as 1b. Ignore on read.
[6:0] state 14..8 asserted" -/
def fmtSensorReading (x : Sensor) : List Nat :=
  [x.reading, 128 * b2n x.eventMsgEnabled + 64 * b2n x.scanningEnabled + 32 * b2n x.unavailable]
  ++ (match x.states1, x.states2 with
      | some a, some b => [a, 128 + b]
      | some a, none => [a]
      | none, _ => [])

def fmtThresholds (x : Sensor) : List Nat :=
  x.readable :: (List.range 6).map fun i => if bitOf x.readable i then x.thresholds.getD i 0 else 0

def parseThresholds : List Nat → Option (Nat × List (Option Nat))
  | [n, m, a, b, c, d, e, f] =>
    some (n, [a, b, c, d, e, f].zipIdx.map fun (v, i) => if bitOf m i then some v else none)
  | _ => none

def ledFnByte : LedFn → Nat
  | .off => 0
  | .on => 0xff
  | .blink o _ => o
def ledOnByte : LedFn → Nat
  | .blink _ n => n
  | _ => 0
def ledFnOfBytes (f onDur : Nat) : Option LedFn :=
  if f = 0 then some .off
  else if f = 0xff then some .on
  else if f ≤ 0xfa then some (.blink f onDur)
  else none

/-- Get FRU LED State response (PICMG 3.0 table 3-30) after the PICMG identifier -/
def fmtLed (x : Led) : List Nat :=
  [b2n x.localAvail + 2 * b2n x.overrideEn + 4 * b2n x.lampTestEn,
   ledFnByte x.localFn, ledOnByte x.localFn, x.localColor]
  ++ (if x.overrideEn || x.lampTestEn then [ledFnByte x.overrideFn, ledOnByte x.overrideFn, x.overrideColor] else [])
  ++ (if x.lampTestEn then [x.lampDur] else [])

def parseLedCmd (f onDur color : Nat) : Option LedCmd :=
  if f = 0xfb then (if onDur < 128 then some (.lampTest onDur (color % 16)) else none)
  else if f = 0xfc then some .restoreLocal
  else (ledFnOfBytes f onDur).map fun fn => .override fn (color % 16)

def fmtPort (iface ch : Nat) (p : Port) : List Nat :=
  if p.hasLink then
    [ch + 64 * iface, p.flags + 16 * (p.linkType % 16), p.linkType / 16 + 16 * p.ext, p.grouping, p.state]
  else []

def parsePort : List Nat → Option (Nat × Nat × Port)
  | [b0, b1, b2, b3, st] =>
    some (bitsOf b0 6 2, bitsOf b0 0 6,
          { hasLink := true, flags := bitsOf b1 0 4, linkType := bitsOf b1 4 4 + 16 * bitsOf b2 0 4,
            ext := bitsOf b2 4 4, grouping := b3, state := st })
  | _ => none

def fmtPower (p : PowerLevel) : List Nat :=
  [p.level + 128 * b2n p.dynamic, p.delay, p.multiplier] ++ p.draw

def fmtFanProps (f : Fan) : List Nat := [f.minLevel, f.maxLevel, f.normalLevel, 128 * b2n f.localSupported]
def fmtFanLevel (f : Fan) : List Nat :=
  f.overrideLevel :: (match f.localLevel, f.localEnabled with
    | some l, some e => [l, e]
    | some l, none => [l]
    | none, _ => [])

def fmtHpmCaps (h : Hpm) : List Nat := [h.version, h.capabilities] ++ padTo 4 h.timeouts ++ [h.components]
def fmtOpt : Option Nat → List Nat
  | some v => [v]
  | none => []

/-! ### the dispatcher -/

def reply (s : BmcState) (data : List Nat) : BmcState × List Nat := (s, ccOk :: data)
def fail (s : BmcState) (cc : Nat) : BmcState × List Nat := (s, [cc])

def handleChassis (s : BmcState) (r : Req) : BmcState × List Nat :=
  match r.cmd, r.data with
  | 0x01, [] => reply s (fmtChassis (get_chassis_status s))
  | 0x02, [b] => reply (chassis_control (bitsOf b 0 4) s) []
  | 0x08, b :: data => reply (set_boot_param (bitsOf b 0 7) (bitOf b 7) data s) []
  | 0x09, [b, setSel, _blk] =>
    let sel := bitsOf b 0 7
    reply s ([1, sel + 128 * b2n (get_boot_invalid sel s)] ++ get_boot_param sel setSel s)
  | 0x01, _ => fail s ccLength
  | 0x02, _ => fail s ccLength
  | 0x08, _ => fail s ccLength
  | 0x09, _ => fail s ccLength
  | _, _ => fail s ccInvalidCmd

def handleSensorEvent (s : BmcState) (r : Req) : BmcState × List Nat :=
  match r.cmd, r.data with
  | 0x00, [a, l] => reply (set_event_receiver a (bitsOf l 0 2) s) []
  | 0x01, [] => reply s [s.evReceiverAddr, s.evReceiverLun]
  | 0x02, rev :: ty :: num :: dt :: d1 :: rest =>
    if rest.length ≤ 2 then
      reply (platform_event { evmRev := rev, sensorType := ty, sensorNum := num, deassert := bitOf dt 7,
                              eventType := bitsOf dt 0 7, data := d1 :: rest } s) []
    else fail s ccLength
  | 0x26, data =>
    match parseThresholds data with
    | some (n, vals) => reply (set_sensor_thresholds r.lun n vals s) []
    | none => fail s ccLength
  | 0x27, [n] => reply s (fmtThresholds (get_sensor r.lun n s))
  | 0x2a, n :: rest => if rest.length = 1 ∨ rest.length = 5 then reply (rearm_sensor r.lun n s) [] else fail s ccLength
  | 0x2d, [n] => reply s (fmtSensorReading (get_sensor r.lun n s))
  | 0x00, _ => fail s ccLength
  | 0x01, _ => fail s ccLength
  | 0x02, _ => fail s ccLength
  | 0x27, _ => fail s ccLength
  | 0x2a, _ => fail s ccLength
  | 0x2d, _ => fail s ccLength
  | _, _ => fail s ccInvalidCmd

def handleApp (s : BmcState) (r : Req) : BmcState × List Nat :=
  match r.cmd, r.data with
  | 0x01, [] => reply s (fmtDeviceId (get_device_id s))
  | 0x02, [] => reply (cold_reset s) []
  | 0x03, [] => reply (warm_reset s) []
  | 0x08, [] => reply s (get_device_guid s)
  | 0x22, [] => reply (reset_watchdog s) []
  | 0x24, data =>
    match parseWatchdog data with
    | some c => reply (set_watchdog c s) []
    | none => fail s ccLength
  | 0x25, [] => reply s (fmtWatchdog (get_watchdog s))
  | 0x43, data =>
    match parseUserAccess data with
    | some a => if a.userId = 0 then fail s ccInvalidField else reply (set_user_access a s) []
    | none => fail s ccLength
  | 0x44, [c, u] =>
    if bitsOf u 0 6 = 0 then fail s ccInvalidField
    else reply s (fmtUserAccess (get_user_access (bitsOf c 0 4) (bitsOf u 0 6) s))
  | 0x45, u :: name =>
    if name.length ≠ 16 then fail s ccLength
    else if bitsOf u 0 6 = 0 then fail s ccInvalidField
    else reply (set_user_name (bitsOf u 0 6) name s) []
  | 0x46, [u] =>
    if bitsOf u 0 6 = 0 then fail s ccInvalidField else reply s (get_user_name (bitsOf u 0 6) s)
  | 0x47, u :: op :: pw =>
    let uid := bitsOf u 0 6
    let want := if bitOf u 7 then 20 else 16
    if uid = 0 then fail s ccInvalidField
    else match bitsOf op 0 2 with
      | 0 => reply (set_user_enabled uid false s) []
      | 1 => reply (set_user_enabled uid true s) []
      | 2 => if pw.length = want then reply (set_user_password uid pw s) [] else fail s ccLength
      | _ => if pw.length ≠ want then fail s ccLength
             else if pw = get_user_password uid s then reply s [] else fail s 0x80
  | 0x01, _ => fail s ccLength
  | 0x02, _ => fail s ccLength
  | 0x03, _ => fail s ccLength
  | 0x08, _ => fail s ccLength
  | 0x22, _ => fail s ccLength
  | 0x25, _ => fail s ccLength
  | 0x44, _ => fail s ccLength
  | 0x45, _ => fail s ccLength
  | 0x46, _ => fail s ccLength
  | 0x47, _ => fail s ccLength
  | _, _ => fail s ccInvalidCmd

def handleTransport (s : BmcState) (r : Req) : BmcState × List Nat :=
  match r.cmd, r.data with
  | 0x01, c :: p :: data => reply (set_lan_param (bitsOf c 0 4) p data s) []
  | 0x02, [c, p, _setSel, _blk] =>
    -- byte 1 [7] "get parameter revision only": the revision of the ADDRESSED (channel, parameter), no data
    if bitOf c 7 then reply s [get_lan_revision (bitsOf c 0 4) p s]
    else reply s (get_lan_revision (bitsOf c 0 4) p s :: get_lan_param (bitsOf c 0 4) p s)
  | 0x01, _ => fail s ccLength
  | 0x02, _ => fail s ccLength
  | _, _ => fail s ccInvalidCmd

/-- PICMG / HPM.1 commands; `data` is the request after the PICMG identifier, the reply data
returned here is what follows the PICMG identifier -/
def handlePicmg (s : BmcState) (cmd : Nat) (data : List Nat) : BmcState × Option (List Nat) × Nat :=
  match cmd, data with
  | 0x00, [] => (s, some [s.picmgVersion, s.maxFruId, s.ipmcFruId], 0)
  | 0x04, [fru, opt] => (fru_control fru opt s, some [], 0)
  | 0x07, [fru, led, f, onDur, color] =>
    match parseLedCmd f onDur color with
    | some c => (set_led fru led c s, some [], 0)
    | none => (s, none, ccInvalidField)
  | 0x08, [fru, led] => (s, some (fmtLed (get_led fru led s)), 0)
  | 0x0a, [fru, m, v] => (set_fru_policy fru (bitOf m 0) (bitOf m 1) (bitOf v 0) (bitOf v 1) s, some [], 0)
  | 0x0b, [fru] => let x := get_fru fru s; (s, some [b2n x.locked + 2 * b2n x.deactLocked], 0)
  | 0x0c, [fru, c] => if c ≤ 1 then (set_fru_activation fru (c = 1) s, some [], 0) else (s, none, ccInvalidField)
  | 0x0e, data =>
    match parsePort data with
    | some (iface, ch, p) => (set_port iface ch p s, some [], 0)
    | none => (s, none, ccLength)
  | 0x0f, [c] => (s, some (fmtPort (bitsOf c 6 2) (bitsOf c 0 6) (get_port (bitsOf c 6 2) (bitsOf c 0 6) s)), 0)
  | 0x12, [fru, ty] => if ty ≤ 3 then (s, some (fmtPower (get_power_level fru ty s)), 0) else (s, none, ccInvalidField)
  | 0x14, [fru] => (s, some (fmtFanProps (get_fan fru s)), 0)
  | 0x15, [fru, lvl] => (set_fan_level fru lvl none s, some [], 0)
  | 0x15, [fru, lvl, en] =>
    -- a fourth request byte exists in the R3.0 command set only
    if (get_fan fru s).r3 then (set_fan_level fru lvl (some en) s, some [], 0) else (s, none, ccLength)
  | 0x16, [fru] => (s, some (fmtFanLevel (get_fan fru s)), 0)
  | 0x24, [ch, ctl, lim, pri, bak] => (power_channel_control ch ctl lim pri bak s, some [], 0)
  | 0x25, [start, count] =>
    (s, some ([s.pmMaxChannel, s.pmGlobal] ++ (List.range count).map fun i => (get_power_channel (start + i) s).status), 0)
  | 0x28, [_timeout, _ps1] => (pm_heartbeat s, some [], 0)
  | 0x3b, [c, v] => (set_signaling_class (bitsOf c 6 2) (bitsOf c 0 6) (bitsOf v 0 4) s, some [], 0)
  | 0x3c, [c] => (s, some [c, get_signaling_class (bitsOf c 6 2) (bitsOf c 0 6) s], 0)
  | 0x2e, [] => (s, some (fmtHpmCaps s.hpm), 0)
  | 0x2f, [id, sel] =>
    if has_component id s then
      match component_property id sel s with
      | some d => (s, some d, 0)
      | none => (s, none, ccHpmInvalidSelector)
    else (s, none, ccHpmInvalidComponent)
  | 0x34, [] => (s, some ([s.hpm.cmdInProgress, s.hpm.lastCc] ++ fmtOpt s.hpm.estimate), 0)
  | 0x36, [] => (s, some [s.hpm.selftest1, s.hpm.selftest2], 0)
  | 0x37, [] => (s, some (s.hpm.rollbackStatus :: fmtOpt s.hpm.rollbackEstimate), 0)
  | c, _ =>
    if c ∈ [0x00, 0x04, 0x07, 0x08, 0x0a, 0x0b, 0x0c, 0x0f, 0x12, 0x14, 0x15, 0x16, 0x24, 0x25, 0x28,
            0x3b, 0x3c, 0x2e, 0x2f, 0x34, 0x36, 0x37] then (s, none, ccLength) else (s, none, ccInvalidCmd)

/-! DCMI (group extension DCh) -/
def le32 (v : Nat) : List Nat := [v % 256, v / 256 % 256, v / 65536 % 256, v / 16777216 % 256]
def fmtPowerReading (p : PowerReading) : List Nat :=
  le16 p.current ++ le16 p.minimum ++ le16 p.maximum ++ le16 p.average ++ le32 p.timestamp ++ le32 p.period ++ [p.state]
/-- record ids on the wire: two bytes each, LS byte first -/
def le16s : List Nat → List Nat
  | [] => []
  | v :: t => v % 256 :: v / 256 % 256 :: le16s t
/-- the instances one Get DCMI Sensor Info response reports: a non-zero Entity Instance names that instance alone;
00h asks for all of them, at most 8 per response, beginning at Entity Instance Start (00h, 01h: the first) -/
def dcmiSensorPage (ids : List Nat) (inst start : Nat) : List Nat :=
  if inst = 0 then (ids.drop (start - 1)).take 8 else (ids.drop (inst - 1)).take 1
/-- total number of instances, number of record ids in this response, the record ids -/
def fmtDcmiSensorInfo (ids : List Nat) (inst start : Nat) : List Nat :=
  ids.length :: (dcmiSensorPage ids inst start).length :: le16s (dcmiSensorPage ids inst start)
/-- `data` is the request after the group extension identifier, the reply what follows it -/
def handleDcmi (s : BmcState) (cmd : Nat) (data : List Nat) : Option (List Nat) × Nat :=
  match cmd, data with
  | 0x01, [sel] =>
    let c := get_dcmi_capabilities sel s
    (some (s.dcmi.confMajor :: s.dcmi.confMinor :: c.revision :: c.data), 0)
  | 0x02, [mode, attrs, _reserved] => (some (fmtPowerReading (get_power_reading mode attrs s)), 0)
  | 0x07, [ty, entity, inst, start] => (some (fmtDcmiSensorInfo (get_dcmi_sensors ty entity s) inst start), 0)
  | c, _ => if c ∈ [0x01, 0x02, 0x07] then (none, ccLength) else (none, ccInvalidCmd)

def handle (s : BmcState) (r : Req) : BmcState × List Nat :=
  match r.netfn with
  | 0x00 => handleChassis s r
  | 0x04 => handleSensorEvent s r
  | 0x06 => handleApp s r
  | 0x0c => handleTransport s r
  | 0x2c =>
    match r.data with
    | 0 :: rest =>
      match handlePicmg s r.cmd rest with
      | (s', some d, _) => (s', ccOk :: 0 :: d)
      | (s', none, cc) => (s', [cc])
    | 0xdc :: rest =>
      match handleDcmi s r.cmd rest with
      | (some d, _) => (s, ccOk :: 0xdc :: d)
      | (none, cc) => (s, [cc])
    | _ => fail s ccInvalidCmd
  | _ => fail s ccInvalidCmd

/-! ### what each high-level API call denotes (the oracle of the history run)

`Call` names an operation of `pyipmi.Ipmi` with its arguments already in abstract form
(numbers, flags, byte lists); `run` says what a conforming BMC holds afterwards and what the
call must return.  The mapping from Python argument values to these abstract arguments is
done by the harness (strings → enumeration index / code by *meaning*, e.g. "remote cd" ↦
`BootDev.remoteCd`). -/

inductive Result where
  | unit
  | nat (n : Nat)
  | bool (b : Bool)
  | bytes (l : List Nat)
  | optNatPair (a b : Option Nat)
  | natPair (a b : Nat)
  | deviceId (d : DeviceId)
  | watchdog (w : Watchdog)
  | chassis (c : Chassis)
  | bootDev (d : Option BootDev)
  | ip (l : List Nat)
  | mac (l : List Nat)
  | ipSource (code : Nat)
  | userAccess (v : UserAccessView)
  | thresholds (l : List (Nat × Nat))
  | picmgProps (ver maxFru fru : Nat)
  | power (p : PowerLevel)
  | fanProps (minLevel maxLevel normalLevel : Nat) (localSupported : Bool)
  | led (l : LedView)
  | port (l : Option LinkView)
  | pmGlobal (g : Nat)
  | hpmStatus (cmd cc : Nat)
  | hpmCaps (ver comps : Nat)
  | rollback (status : Nat) (estimate : Option Nat)
  | text (chars : List Nat)          -- a string, one number per character
  | dcmiCaps (major minor revision : Nat) (data : List Nat)
  | powerReading (p : PowerReading)
  | natList (l : List Nat)
  | error (cc : Nat)
  deriving Repr, DecidableEq

inductive Call where
  | getDeviceId | getDeviceGuid | coldReset | warmReset
  | setWatchdog (c : WatchdogCfg) | getWatchdog | resetWatchdog
  | getChassisStatus
  | chassisControl (opt : Nat)
  | chassisControlNamed (idx : Nat)      -- power_down, power_up, power_cycle, hard_reset, diagnostic_interrupt, soft_shutdown
  | getBootParam (sel setSel blk : Nat)
  | setBootParam (sel : Nat) (data : List Nat) (invalid : Bool)
  | getBootMode | getBootPersistency | getBootDevice
  | setBootOptions (dev : BootDev) (efi persistent : Bool)
  | getLanParam (ch sel setSel blk : Nat) (revOnly : Bool)
  | setLanParam (ch sel : Nat) (data : List Nat)
  | getIp (ch : Nat) | setIp (ip : List Nat) (ch : Nat)
  | getIpSource (ch : Nat) | setIpSource (code ch : Nat)
  | getMac (ch : Nat)
  | getVlan (ch : Nat) | setVlan (v ch : Nat)
  | setUserName (uid : Nat) (name : List Nat) | getUserName (uid : Nat)
  | getUserAccess (uid ch : Nat) | setUserAccess (a : UserAccessArgs)
  | setUserPassword (uid : Nat) (pw : List Nat) | enableUser (uid : Nat) | disableUser (uid : Nat)
  | getSensorReading (num lun : Nat)
  | setSensorThresholds (num lun : Nat) (vals : List (Option Nat))     -- lnc lcr lnr unc ucr unr
  | getSensorThresholds (num lun : Nat)
  | rearmSensorEvents (num : Nat)
  | sendPlatformEvent (e : PlatformEvent)
  | setEventReceiver (addr7 lun : Nat) | getEventReceiver
  | getPicmgProperties
  | fruControl (fru opt : Nat)
  | fruControlNamed (idx fru : Nat)      -- cold_reset, warm_reset, graceful_reboot, diagnostic_interrupt
  | getPowerLevel (fru ty : Nat)
  | getFanSpeedProperties (fru : Nat) | setFanLevel (fru lvl : Nat) | getFanLevel (fru : Nat)
  | getLedState (fru led : Nat) | setLedState (fru led : Nat) (c : LedCmd)
  | setFruActivation (fru : Nat) (on : Bool)
  | setFruActivationPolicy (fru ctrl : Nat)   -- 0 lock set, 1 lock clear, 2 deactivation lock set, 3 clear
  | fruLockNamed (idx fru : Nat)  -- set_fru_activation_lock, clear_fru_activation_lock, set_fru_deactivation_lock, clear_…
  | setPortState (iface ch : Nat) (p : Port)    -- link_descr.type = low nibble, .sig_class = high nibble of p.linkType
  | setPortStateType8 (iface ch : Nat) (p : Port)   -- link_descr.type = p.linkType (all eight bits, e.g. TYPE_OEM0), .sig_class = 0
  | getPortState (ch iface : Nat)
  | getPmGlobalStatus | getPowerChannelStatus (start : Nat)
  | sendChannelPower (ch : Nat) (enable : Bool) (limit10 primary backup : Nat)
  | sendPmHeartbeat
  | setSignalingClass (iface ch cls : Nat) | getSignalingClass (iface ch : Nat)
  | getUpgradeStatus | getTargetUpgradeCapabilities | querySelftestResults | queryRollbackStatus
  | getComponentDescription (id : Nat)   -- get_component_property(id, PROPERTY_DESCRIPTION_STRING).description
  | getDcmiCapabilities (sel : Nat) | getPowerReading (mode attrs : Nat)
  deriving Repr, DecidableEq

/-- user id 0 is reserved: a conforming BMC rejects it with CCh -/
def withUser (uid : Nat) (s : BmcState) (k : BmcState × Result) : BmcState × Result :=
  if uid % 64 = 0 then (s, .error ccInvalidField) else k

def run (c : Call) (s : BmcState) : BmcState × Result :=
  match c with
  | .getDeviceId => (s, .deviceId (get_device_id s))
  | .getDeviceGuid => (s, .bytes (get_device_guid s))
  | .coldReset => (cold_reset s, .unit)
  | .warmReset => (warm_reset s, .unit)
  | .setWatchdog c => (set_watchdog c s, .unit)
  | .getWatchdog => (s, .watchdog (get_watchdog s))
  | .resetWatchdog => (reset_watchdog s, .unit)
  | .getChassisStatus => (s, .chassis (get_chassis_status s))
  | .chassisControl opt => (chassis_control opt s, .unit)
  | .chassisControlNamed idx => (chassis_control idx s, .unit)   -- IPMI 28.3: the codes are 0..5 in this order
  | .getBootParam sel setSel _ => (s, .bytes (get_boot_param sel setSel s))
  | .setBootParam sel data inv => (set_boot_param sel inv data s, .unit)
  | .getBootMode => (s, .bool (get_boot_flags s).efi)
  | .getBootPersistency => (s, .bool (get_boot_flags s).persistent)
  | .getBootDevice => (s, .bootDev (BootDev.ofCode (get_boot_flags s).device))
  | .setBootOptions dev efi pers =>
    (set_boot_flags { valid := true, persistent := pers, efi := efi, device := dev.code } s, .unit)
  | .getLanParam ch sel _ _ rev =>
    -- revision-only mode returns the parameter revision of the addressed channel / parameter
    (s, if rev then .nat (get_lan_revision ch sel s) else .bytes (get_lan_param ch sel s))
  | .setLanParam ch sel data => (set_lan_param ch sel data s, .unit)
  | .getIp ch => (s, .ip (get_lan_param ch 3 s))
  | .setIp ip ch => (set_lan_param ch 3 ip s, .unit)
  | .getIpSource ch => (s, .ipSource ((get_lan_param ch 4 s).getD 0 0 % 16))
  | .setIpSource code ch => (set_lan_param ch 4 [code] s, .unit)
  | .getMac ch => (s, .mac (get_lan_param ch 5 s))
  | .getVlan ch => (s, .nat (let v := get_vlan ch s; if v.1 then v.2 else 0))
  | .setVlan v ch => (set_vlan ch (v != 0) v s, .unit)
  | .setUserName uid name => withUser uid s (set_user_name uid (padTo 16 name) s, .unit)
  | .getUserName uid => withUser uid s (s, .bytes (get_user_name uid s))
  | .getUserAccess uid ch => withUser uid s (s, .userAccess (get_user_access ch uid s))
  | .setUserAccess a => withUser a.userId s (set_user_access a s, .unit)
  | .setUserPassword uid pw => withUser uid s (set_user_password uid (padTo 16 pw) s, .unit)
  | .enableUser uid => withUser uid s (set_user_enabled uid true s, .unit)
  | .disableUser uid => withUser uid s (set_user_enabled uid false s, .unit)
  | .getSensorReading num lun => (s, let r := get_sensor_reading lun num s; .optNatPair r.1 r.2)
  | .setSensorThresholds num lun vals => (set_sensor_thresholds lun num vals s, .unit)
  | .getSensorThresholds num lun => (s, .thresholds (get_sensor_thresholds lun num s))
  | .rearmSensorEvents num => (rearm_sensor 0 num s, .unit)
  | .sendPlatformEvent e => (platform_event e s, .unit)
  | .setEventReceiver a l => (set_event_receiver (2 * a) l s, .unit)
  | .getEventReceiver => (s, .natPair (s.evReceiverAddr / 2) s.evReceiverLun)
  | .getPicmgProperties => (s, .picmgProps s.picmgVersion s.maxFruId s.ipmcFruId)
  | .fruControl fru opt => (fru_control fru opt s, .bytes [])
  | .fruControlNamed idx fru =>   -- PICMG 3.0 table 3-27: options 0..3 in this order
    -- (fru_control_diagnostic_interrupt hands the — empty — response data on, the other three return nothing)
    (fru_control fru idx s, if idx = 3 then .bytes [] else .unit)
  | .fruLockNamed idx fru =>
    (match idx with
     | 0 => set_fru_policy fru true false true false s
     | 1 => set_fru_policy fru true false false false s
     | 2 => set_fru_policy fru false true false true s
     | _ => set_fru_policy fru false true false false s, .unit)
  | .getPowerLevel fru ty => if ty ≤ 3 then (s, .power (get_power_level fru ty s)) else (s, .error ccInvalidField)
  | .getFanSpeedProperties fru =>
    (s, let f := get_fan fru s; .fanProps f.minLevel f.maxLevel f.normalLevel f.localSupported)
  -- set_fan_level(fru_id, fan_level): the override level and nothing else (no local-control byte was asked for)
  | .setFanLevel fru lvl => (set_fan_level fru lvl none s, .unit)
  | .getFanLevel fru => (s, let f := get_fan fru s; .optNatPair (some f.overrideLevel) f.localLevel)
  | .getLedState fru led => (s, .led (get_led_view fru led s))
  | .setLedState fru led c => (set_led fru led c s, .unit)
  | .setFruActivation fru on => (set_fru_activation fru on s, .unit)
  | .setFruActivationPolicy fru ctrl =>
    (match ctrl with
     | 0 => set_fru_policy fru true false true false s
     | 1 => set_fru_policy fru true false false false s
     | 2 => set_fru_policy fru false true false true s
     | 3 => set_fru_policy fru false true false false s
     | _ => set_fru_policy fru false false false false s, .unit)
  | .setPortState iface ch p => (set_port iface ch p s, .unit)
  | .setPortStateType8 iface ch p => (set_port iface ch p s, .unit)
  | .getPortState ch iface =>
    (s, let p := get_port iface ch s
        .port (if p.hasLink then some { channel := ch, iface := iface, flags := p.flags,
                                         linkType := (linkTypeAttrs p.linkType).1, sigClass := (linkTypeAttrs p.linkType).2,
                                         ext := p.ext, grouping := p.grouping, state := p.state } else none))
  | .getPmGlobalStatus => (s, .pmGlobal s.pmGlobal)
  | .getPowerChannelStatus start => (s, .nat (get_power_channel start s).status)
  | .sendChannelPower ch en lim pri bak => (power_channel_control ch (if en then 5 else 4) lim pri bak s, .unit)
  | .sendPmHeartbeat => (pm_heartbeat s, .unit)
  | .setSignalingClass iface ch cls => (set_signaling_class iface ch cls s, .unit)
  | .getSignalingClass iface ch => (s, .nat (get_signaling_class iface ch s))
  | .getUpgradeStatus => (s, .hpmStatus s.hpm.cmdInProgress s.hpm.lastCc)
  | .getTargetUpgradeCapabilities => (s, .hpmCaps s.hpm.version s.hpm.components)
  | .querySelftestResults => (s, .natPair s.hpm.selftest1 s.hpm.selftest2)
  | .queryRollbackStatus =>
    -- HPM.1 Query Rollback Status: the mask of the rolled-back components and, while it is present, the
    -- completion estimate (0 % is an estimate too)
    (s, .rollback s.hpm.rollbackStatus s.hpm.rollbackEstimate)
  | .getComponentDescription id =>
    -- HPM.1 Get Component Properties, selector 2: exactly the characters the IPMC holds (a backslash is a character)
    (s, if has_component id s then .text (get_component_description id s) else .error ccHpmInvalidComponent)
  | .getDcmiCapabilities sel =>
    (s, let c := get_dcmi_capabilities sel s; .dcmiCaps s.dcmi.confMajor s.dcmi.confMinor c.revision c.data)
  | .getPowerReading mode attrs => (s, .powerReading (get_power_reading mode attrs s))

/-- a read leaves the BMC untouched -/
def Call.isRead : Call → Bool
  | .getDeviceId | .getDeviceGuid | .getWatchdog | .getChassisStatus | .getBootParam .. | .getBootMode
  | .getBootPersistency | .getBootDevice | .getLanParam .. | .getIp _ | .getIpSource _ | .getMac _ | .getVlan _
  | .getUserName _ | .getUserAccess .. | .getSensorReading .. | .getSensorThresholds .. | .getEventReceiver
  | .getPicmgProperties | .getPowerLevel .. | .getFanSpeedProperties _ | .getFanLevel _ | .getLedState ..
  | .getPortState .. | .getPmGlobalStatus | .getPowerChannelStatus _ | .getSignalingClass ..
  | .getUpgradeStatus | .getTargetUpgradeCapabilities | .querySelftestResults | .queryRollbackStatus
  | .getComponentDescription _ | .getDcmiCapabilities _ | .getPowerReading .. => true
  | _ => false

end PyIpmi.Spec.Bmc
