/-
  Specification of the Sensor Data Record formats (C16), written from IPMI v2.0 §43:
  table 43-1 (full sensor, 01h), 43-2 (compact sensor, 02h), 43-3 (event-only, 03h),
  43-7 (FRU device locator, 11h), 43-8 (management controller device locator, 12h),
  43-9 (management controller confirmation, 13h), 43-12 (OEM, C0h) and §43.15 (type/length
  byte of id strings) — not from the Python.

  For every record type there is an abstract record (every field with its range in `wf`),
  an encoder to bytes in arithmetic (`* 64 + …`, as the tables give bit positions), and the
  *view*: the values a faithful parser has to report, keyed by the attribute names of the
  library.  Bytes are 1-based in the tables; lists here are 0-based (byte n = index n − 1).

  Multi-byte integers are LS byte first.  Signed fields are two's complement.

  RECORD KEY bytes (what makes a record unique in the repository) are reported sub-field by sub-field, as the
  tables divide them: sensor records (43-1, 43-2, 43-3) owner id, CHANNEL NUMBER [7:4] and owner LUN [1:0] of byte 7,
  sensor number; FRU device locator (43-7) access address, FRU device id, byte 8 as logical/physical FLAG [7],
  access LUN [4:3] and private bus id [2:0], channel number [7:4] of byte 9; MC confirmation (43-9) address,
  device id, channel [7:4] and device revision [3:0] of byte 8.  Where the library had no attribute for a key
  sub-field the view uses the name the repaired library gives it (`channel_number`, `access_lun`,
  `private_bus_id`, `device_revision`).
  Core only.
-/
namespace PyIpmi.Spec.Sdr

/-! ### values and kinds -/

/-- A reported attribute value. -/
inductive Val where
  | nat (n : Nat)
  | int (z : Int)
  | list (l : List Nat)
  deriving DecidableEq, Repr, Inhabited

abbrev Fields := List (String × Val)

/-- The kind of record a parser returns. -/
inductive Kind where
  | full | compact | eventOnly | fruLocator | mcLocator | mcConfirmation | oem | unknown
  deriving DecidableEq, Repr, Inhabited

/-- §43 record type numbers of the supported kinds; every other type byte (08h, 09h, 10h,
14h, …) is reported as unknown. -/
def kindOfType : Nat → Kind
  | 0x01 => .full
  | 0x02 => .compact
  | 0x03 => .eventOnly
  | 0x11 => .fruLocator
  | 0x12 => .mcLocator
  | 0x13 => .mcConfirmation
  | 0xC0 => .oem
  | _ => .unknown

/-- Index (0-based) of the record type byte: byte 4 of the header. -/
def typeByteIndex : Nat := 3

/-- `bits`-bit two's complement of `z` (for `-2^(bits-1) ≤ z < 2^(bits-1)`). -/
def twosComp (bits : Nat) (z : Int) : Nat :=
  if 0 ≤ z then z.toNat else (((2 ^ bits : Nat) : Int) + z).toNat

/-! ### id strings (§43.15 type/length byte) -/

/-- An id string in one of the four encodings.
* `unicode`  (00b): the bytes as stored
* `bcdPlus`  (01b): one (high, low) digit pair per byte; §43.15 defines ALL sixteen codes for an SDR:
  0h–9h digits, Ah space, Bh dash, Ch period, Dh colon, Eh comma, Fh underscore (it is the FRU
  Information Storage Definition that leaves Dh–Fh reserved; an SDR id string such as "12:30" is well-formed)
* `sixBit`   (10b): 6-bit ASCII codes (character − 20h), packed 4 characters into 3 bytes, LS bits first
* `ascii8`   (11b): 8-bit ASCII + Latin 1, one byte per character -/
inductive IdString where
  | unicode (bytes : List Nat)
  | bcdPlus (pairs : List (Nat × Nat))
  | sixBit (codes : List Nat)
  | ascii8 (chars : List Nat)
  deriving DecidableEq, Repr, Inhabited

/-- 6-bit packing: characters a b c d occupy 24 bits, a in the six LS bits of the first byte.
A final group of 1, 2 or 3 characters takes 1, 2 or 3 bytes (unused high bits zero). -/
def pack6 : List Nat → List Nat
  | [] => []
  | [a] => [a]
  | [a, b] => [a + (b % 4) * 64, b / 4]
  | [a, b, c] => [a + (b % 4) * 64, b / 4 + (c % 16) * 16, c / 16]
  | a :: b :: c :: d :: rest =>
    (a + (b % 4) * 64) :: (b / 4 + (c % 16) * 16) :: (c / 16 + d * 4) :: pack6 rest

/-- BCD plus code → character code, §43.15: 0h–9h '0'–'9', Ah ' ', Bh '-', Ch '.', Dh ':', Eh ',', Fh '_'. -/
def bcdChar (d : Nat) : Nat :=
  if d < 10 then 48 + d else if d = 10 then 32 else if d = 11 then 45 else if d = 12 then 46
  else if d = 13 then 58 else if d = 14 then 44 else 95

/-- The same as a table (the sixteen characters `0123456789 -.:,_`), for comparison with the table a
parser carries. -/
def bcdPlusSdr : List Nat := [48, 49, 50, 51, 52, 53, 54, 55, 56, 57, 32, 45, 46, 58, 44, 95]

/-- The BCD plus table of the FRU Information Storage Definition (§13): Dh–Fh reserved.  Not an SDR
table; kept to state what a parser that uses it for SDR id strings gets wrong. -/
def bcdPlusFru : List Nat := [48, 49, 50, 51, 52, 53, 54, 55, 56, 57, 32, 45, 46]

namespace IdString

def typeCode : IdString → Nat
  | unicode _ => 0
  | bcdPlus _ => 1
  | sixBit _ => 2
  | ascii8 _ => 3

/-- The data bytes following the type/length byte. -/
def dataBytes : IdString → List Nat
  | unicode bs => bs
  | bcdPlus ps => ps.map fun p => p.1 * 16 + p.2
  | sixBit cs => pack6 cs
  | ascii8 cs => cs

/-- Type/length byte: [7:6] type, [5] reserved (0), [4:0] number of data bytes; then the data. -/
def encode (s : IdString) : List Nat :=
  (s.typeCode * 64 + s.dataBytes.length) :: s.dataBytes

/-- The characters a reader sees.  6-bit: three bytes always hold four characters, so a final
group of three characters reads back with one trailing space (code 0 = 20h). -/
def text : IdString → List Nat
  | unicode bs => bs
  | bcdPlus ps => ps.flatMap fun p => [bcdChar p.1, bcdChar p.2]
  | sixBit cs => cs.map (· + 0x20) ++ (if cs.length % 4 = 3 then [0x20] else [])
  | ascii8 cs => cs

def wf : IdString → Bool
  | unicode bs => bs.all (· < 256) && bs.length ≤ 30
  | bcdPlus ps => ps.all (fun p => p.1 < 16 && p.2 < 16) && ps.length ≤ 30
  | sixBit cs => cs.all (· < 64) && cs.length ≤ 40
  | ascii8 cs => cs.all (· < 256) && cs.length ≤ 30

/-- The id-string attributes of a parsed record. -/
def view (s : IdString) : Fields :=
  [("device_id_string_type", .nat s.typeCode),
   ("device_id_string_length", .nat s.dataBytes.length),
   ("device_id_string", .list s.text)]

end IdString

/-! ### header (bytes 1–5 of every record) -/

/-- Record id (LS byte first), SDR version, record type, number of remaining bytes. -/
def header (recordId version type remaining : Nat) : List Nat :=
  [recordId % 256, recordId / 256, version, type, remaining]

def headerView (recordId version type remaining : Nat) : Fields :=
  [("id", .nat recordId), ("version", .nat version), ("type", .nat type), ("length", .nat remaining)]

/-- Bits of a flag byte reported as the list of masks (in the given order) whose bit is set. -/
def flagList (masks : List Nat) (byte : Nat) : List Nat :=
  masks.filter fun m => byte / m % 2 = 1

/-! ### table 43-1: full sensor record (01h) -/

structure FullSensor where
  recordId : Nat
  version : Nat
  ownerId : Nat            -- byte 6   (bytes 6-8 are the RECORD KEY of tables 43-1, 43-2, 43-3)
  channel : Nat            -- byte 7 [7:4]: channel number of the sensor owner ([3:2] reserved, written as 0)
  ownerLun : Nat           -- byte 7 [1:0]
  number : Nat             -- byte 8
  entityId : Nat           -- byte 9
  entityInstance : Nat     -- byte 10
  initBits : Nat           -- byte 11: [6] scanning [5] events [4] thresholds [3] hysteresis [2] type [1] event gen. [0] scanning enabled
  capabilities : Nat       -- byte 12
  sensorType : Nat         -- byte 13
  eventType : Nat          -- byte 14
  assertionMask : Nat      -- bytes 15:16
  deassertionMask : Nat    -- bytes 17:18
  readingMask : Nat        -- bytes 19:20
  analogFormat : Nat       -- byte 21 [7:6]
  rateUnit : Nat           -- byte 21 [5:3]
  modifierUnit : Nat       -- byte 21 [2:1]
  percentage : Nat         -- byte 21 [0]
  baseUnit : Nat           -- byte 22
  modUnit : Nat            -- byte 23
  linearization : Nat      -- byte 24 [6:0]
  m : Int                  -- byte 25, byte 26 [7:6]: 10-bit 2's complement
  tolerance : Nat          -- byte 26 [5:0]
  b : Int                  -- byte 27, byte 28 [7:6]
  accuracy : Nat           -- byte 28 [5:0] (LS 6 bits), byte 29 [7:4] (MS 4 bits): 10-bit unsigned
  accuracyExp : Nat        -- byte 29 [3:2]
  sensorDirection : Nat    -- byte 29 [1:0]
  rExp : Int               -- byte 30 [7:4]: K2, 4-bit 2's complement
  bExp : Int               -- byte 30 [3:0]: K1
  analogFlags : Nat        -- byte 31 [2] normal min [1] normal max [0] nominal reading specified
  nominal : Nat            -- byte 32
  normalMax : Nat          -- byte 33
  normalMin : Nat          -- byte 34
  sensorMax : Nat          -- byte 35
  sensorMin : Nat          -- byte 36
  unr : Nat                -- byte 37
  ucr : Nat
  unc : Nat
  lnr : Nat
  lcr : Nat
  lnc : Nat                -- byte 42
  posHysteresis : Nat      -- byte 43
  negHysteresis : Nat      -- byte 44
  oem : Nat                -- byte 47 (45, 46 reserved, written as 0)
  idString : IdString      -- byte 48 …
  deriving Repr, Inhabited

namespace FullSensor

def wf (r : FullSensor) : Bool :=
  r.recordId < 65536 && r.version < 256 && r.ownerId < 256 && r.channel < 16 && r.ownerLun < 4 &&
  r.number < 256 && r.entityId < 256 && r.entityInstance < 256 && r.initBits < 256 &&
  r.capabilities < 256 && r.sensorType < 256 && r.eventType < 256 && r.assertionMask < 65536 &&
  r.deassertionMask < 65536 && r.readingMask < 65536 && r.analogFormat < 4 && r.rateUnit < 8 &&
  r.modifierUnit < 4 && r.percentage < 2 && r.baseUnit < 256 && r.modUnit < 256 &&
  r.linearization < 128 && decide (-512 ≤ r.m) && decide (r.m ≤ 511) && r.tolerance < 64 &&
  decide (-512 ≤ r.b) && decide (r.b ≤ 511) && r.accuracy < 1024 && r.accuracyExp < 4 &&
  r.sensorDirection < 4 && decide (-8 ≤ r.rExp) && decide (r.rExp ≤ 7) && decide (-8 ≤ r.bExp) &&
  decide (r.bExp ≤ 7) && r.analogFlags < 8 && r.nominal < 256 && r.normalMax < 256 &&
  r.normalMin < 256 && r.sensorMax < 256 && r.sensorMin < 256 && r.unr < 256 && r.ucr < 256 &&
  r.unc < 256 && r.lnr < 256 && r.lcr < 256 && r.lnc < 256 && r.posHysteresis < 256 &&
  r.negHysteresis < 256 && r.oem < 256 && r.idString.wf

/-- Bytes 6–47. -/
def body (r : FullSensor) : List Nat :=
  [r.ownerId, r.channel * 16 + r.ownerLun, r.number,
   r.entityId, r.entityInstance,
   r.initBits, r.capabilities, r.sensorType, r.eventType,
   r.assertionMask % 256, r.assertionMask / 256,
   r.deassertionMask % 256, r.deassertionMask / 256,
   r.readingMask % 256, r.readingMask / 256,
   r.analogFormat * 64 + r.rateUnit * 8 + r.modifierUnit * 2 + r.percentage,
   r.baseUnit, r.modUnit,
   r.linearization,
   twosComp 10 r.m % 256, (twosComp 10 r.m / 256) * 64 + r.tolerance,
   twosComp 10 r.b % 256, (twosComp 10 r.b / 256) * 64 + r.accuracy % 64,
   (r.accuracy / 64) * 16 + r.accuracyExp * 4 + r.sensorDirection,
   twosComp 4 r.rExp * 16 + twosComp 4 r.bExp,
   r.analogFlags,
   r.nominal, r.normalMax, r.normalMin, r.sensorMax, r.sensorMin,
   r.unr, r.ucr, r.unc, r.lnr, r.lcr, r.lnc,
   r.posHysteresis, r.negHysteresis,
   0, 0,
   r.oem]

def encode (r : FullSensor) : List Nat :=
  header r.recordId r.version 0x01 (42 + r.idString.encode.length) ++ r.body ++ r.idString.encode

def view (r : FullSensor) : Fields :=
  headerView r.recordId r.version 0x01 (42 + r.idString.encode.length) ++
  [("owner_id", .nat r.ownerId), ("channel_number", .nat r.channel), ("owner_lun", .nat r.ownerLun),
   ("number", .nat r.number),
   ("entity_id", .nat r.entityId), ("entity_instance", .nat r.entityInstance),
   ("initialization", .list (flagList [0x40, 0x20, 0x10, 0x08, 0x04, 0x02, 0x01] r.initBits)),
   ("sensor_type_code", .nat r.sensorType), ("event_reading_type_code", .nat r.eventType),
   ("assertion_mask", .nat r.assertionMask), ("deassertion_mask", .nat r.deassertionMask),
   ("discrete_reading_mask", .nat r.readingMask),
   ("units_1", .nat (r.analogFormat * 64 + r.rateUnit * 8 + r.modifierUnit * 2 + r.percentage)),
   ("units_2", .nat r.baseUnit), ("units_3", .nat r.modUnit),
   ("analog_data_format", .nat r.analogFormat), ("rate_unit", .nat r.rateUnit),
   ("modifier_unit", .nat r.modifierUnit), ("percentage", .nat r.percentage),
   ("linearization", .nat r.linearization),
   ("m", .int r.m), ("tolerance", .nat r.tolerance),
   ("b", .int r.b), ("accuracy", .nat r.accuracy), ("accuracy_exp", .nat r.accuracyExp),
   ("k2", .int r.rExp), ("k1", .int r.bExp),
   ("analog_characteristic", .list (flagList [0x01, 0x02, 0x04] r.analogFlags)),
   ("nominal_reading", .nat r.nominal), ("normal_maximum", .nat r.normalMax),
   ("normal_minimum", .nat r.normalMin), ("sensor_maximum_reading", .nat r.sensorMax),
   ("sensor_minimum_reading", .nat r.sensorMin),
   ("threshold.unr", .nat r.unr), ("threshold.ucr", .nat r.ucr), ("threshold.unc", .nat r.unc),
   ("threshold.lnr", .nat r.lnr), ("threshold.lcr", .nat r.lcr), ("threshold.lnc", .nat r.lnc),
   ("hysteresis.positive_going", .nat r.posHysteresis), ("hysteresis.negative_going", .nat r.negHysteresis),
   ("reserved", .nat 0), ("oem", .nat r.oem)] ++ r.idString.view

end FullSensor

/-! ### table 43-2: compact sensor record (02h) -/

structure CompactSensor where
  recordId : Nat
  version : Nat
  ownerId : Nat
  channel : Nat
  ownerLun : Nat
  number : Nat
  entityId : Nat
  entityInstance : Nat
  sensorInit : Nat         -- byte 11
  capabilities : Nat       -- byte 12
  sensorType : Nat         -- byte 13
  eventType : Nat          -- byte 14
  assertionMask : Nat      -- bytes 15:16
  deassertionMask : Nat    -- bytes 17:18
  readingMask : Nat        -- bytes 19:20
  units1 : Nat             -- byte 21
  units2 : Nat             -- byte 22
  units3 : Nat             -- byte 23
  recordSharing : Nat      -- bytes 24:25
  posHysteresis : Nat      -- byte 26
  negHysteresis : Nat      -- byte 27
  oem : Nat                -- byte 31 (28–30 reserved, written as 0)
  idString : IdString      -- byte 32 …
  deriving Repr, Inhabited

namespace CompactSensor

def wf (r : CompactSensor) : Bool :=
  r.recordId < 65536 && r.version < 256 && r.ownerId < 256 && r.channel < 16 && r.ownerLun < 4 &&
  r.number < 256 && r.entityId < 256 && r.entityInstance < 256 && r.sensorInit < 256 &&
  r.capabilities < 256 && r.sensorType < 256 && r.eventType < 256 && r.assertionMask < 65536 &&
  r.deassertionMask < 65536 && r.readingMask < 65536 && r.units1 < 256 && r.units2 < 256 &&
  r.units3 < 256 && r.recordSharing < 65536 && r.posHysteresis < 256 && r.negHysteresis < 256 &&
  r.oem < 256 && r.idString.wf

def body (r : CompactSensor) : List Nat :=
  [r.ownerId, r.channel * 16 + r.ownerLun, r.number,
   r.entityId, r.entityInstance,
   r.sensorInit, r.capabilities, r.sensorType, r.eventType,
   r.assertionMask % 256, r.assertionMask / 256,
   r.deassertionMask % 256, r.deassertionMask / 256,
   r.readingMask % 256, r.readingMask / 256,
   r.units1, r.units2, r.units3,
   r.recordSharing % 256, r.recordSharing / 256,
   r.posHysteresis, r.negHysteresis,
   0, 0, 0,
   r.oem]

def encode (r : CompactSensor) : List Nat :=
  header r.recordId r.version 0x02 (26 + r.idString.encode.length) ++ r.body ++ r.idString.encode

def view (r : CompactSensor) : Fields :=
  headerView r.recordId r.version 0x02 (26 + r.idString.encode.length) ++
  [("owner_id", .nat r.ownerId), ("channel_number", .nat r.channel), ("owner_lun", .nat r.ownerLun),
   ("number", .nat r.number),
   ("entity_id", .nat r.entityId), ("entity_instance", .nat r.entityInstance),
   ("sensor_initialization", .nat r.sensorInit), ("capabilities", .nat r.capabilities),
   ("sensor_type_code", .nat r.sensorType), ("event_reading_type_code", .nat r.eventType),
   ("assertion_mask", .nat r.assertionMask), ("deassertion_mask", .nat r.deassertionMask),
   ("discrete_reading_mask", .nat r.readingMask),
   ("units_1", .nat r.units1), ("units_2", .nat r.units2), ("units_3", .nat r.units3),
   ("record_sharing", .nat r.recordSharing),
   ("positive_going_hysteresis", .nat r.posHysteresis),
   ("negative_going_hysteresis", .nat r.negHysteresis),
   ("reserved", .nat 0), ("oem", .nat r.oem)] ++ r.idString.view

end CompactSensor

/-! ### table 43-3: event-only record (03h) -/

structure EventOnly where
  recordId : Nat
  version : Nat
  ownerId : Nat
  channel : Nat
  ownerLun : Nat
  number : Nat
  entityId : Nat
  entityInstance : Nat
  sensorType : Nat         -- byte 11
  eventType : Nat          -- byte 12
  recordSharing : Nat      -- bytes 13:14
  oem : Nat                -- byte 16 (15 reserved, written as 0)
  idString : IdString      -- byte 17 …
  deriving Repr, Inhabited

namespace EventOnly

def wf (r : EventOnly) : Bool :=
  r.recordId < 65536 && r.version < 256 && r.ownerId < 256 && r.channel < 16 && r.ownerLun < 4 &&
  r.number < 256 && r.entityId < 256 && r.entityInstance < 256 && r.sensorType < 256 &&
  r.eventType < 256 && r.recordSharing < 65536 && r.oem < 256 && r.idString.wf

def body (r : EventOnly) : List Nat :=
  [r.ownerId, r.channel * 16 + r.ownerLun, r.number,
   r.entityId, r.entityInstance,
   r.sensorType, r.eventType,
   r.recordSharing % 256, r.recordSharing / 256,
   0,
   r.oem]

def encode (r : EventOnly) : List Nat :=
  header r.recordId r.version 0x03 (11 + r.idString.encode.length) ++ r.body ++ r.idString.encode

def view (r : EventOnly) : Fields :=
  headerView r.recordId r.version 0x03 (11 + r.idString.encode.length) ++
  [("owner_id", .nat r.ownerId), ("channel_number", .nat r.channel), ("owner_lun", .nat r.ownerLun),
   ("number", .nat r.number),
   ("entity_id", .nat r.entityId), ("entity_instance", .nat r.entityInstance),
   ("sensor_type", .nat r.sensorType), ("event_reading_type_code", .nat r.eventType),
   ("record_sharing", .nat r.recordSharing),
   ("reserved", .nat 0), ("oem", .nat r.oem)] ++ r.idString.view

end EventOnly

/-! ### table 43-7: FRU device locator record (11h) -/

structure FruLocator where
  recordId : Nat
  version : Nat
  accessAddress : Nat      -- byte 6 [7:1] (7-bit slave address of the controller; [0] reserved)
  fruDeviceId : Nat        -- byte 7
  logical : Nat            -- byte 8 [7]: 1b = logical FRU device (FRU commands to a management controller), 0b = physical
  accessLun : Nat          -- byte 8 [4:3]: LUN for the Master Write-Read / FRU command ([6:5] reserved, written as 0)
  privateBusId : Nat       -- byte 8 [2:0]: private bus id   (bytes 6-9 are the RECORD KEY of table 43-7)
  channelNumber : Nat      -- byte 9 [7:4]: channel number of the management controller used to access the device
  channelLow : Nat         -- byte 9 [3:0]: reserved (not reported; a reader ignores it whatever it holds)
  deviceType : Nat         -- byte 11 (10 reserved, written as 0)
  deviceTypeModifier : Nat -- byte 12
  entityId : Nat           -- byte 13
  entityInstance : Nat     -- byte 14
  oem : Nat                -- byte 15
  idString : IdString      -- byte 16 …
  deriving Repr, Inhabited

namespace FruLocator

def wf (r : FruLocator) : Bool :=
  r.recordId < 65536 && r.version < 256 && r.accessAddress < 128 && r.fruDeviceId < 256 &&
  r.logical < 2 && r.accessLun < 4 && r.privateBusId < 8 && r.channelNumber < 16 && r.channelLow < 16 && r.deviceType < 256 &&
  r.deviceTypeModifier < 256 && r.entityId < 256 && r.entityInstance < 256 && r.oem < 256 &&
  r.idString.wf

def body (r : FruLocator) : List Nat :=
  [r.accessAddress * 2, r.fruDeviceId, r.logical * 128 + r.accessLun * 8 + r.privateBusId,
   r.channelNumber * 16 + r.channelLow, 0,
   r.deviceType, r.deviceTypeModifier, r.entityId, r.entityInstance, r.oem]

def encode (r : FruLocator) : List Nat :=
  header r.recordId r.version 0x11 (10 + r.idString.encode.length) ++ r.body ++ r.idString.encode

def view (r : FruLocator) : Fields :=
  headerView r.recordId r.version 0x11 (10 + r.idString.encode.length) ++
  [("device_access_address", .nat r.accessAddress), ("fru_device_id", .nat r.fruDeviceId),
   ("logical_physical", .nat r.logical), ("access_lun", .nat r.accessLun),
   ("private_bus_id", .nat r.privateBusId), ("channel_number", .nat r.channelNumber),
   ("reserved", .nat 0),
   ("device_type", .nat r.deviceType), ("device_type_modifier", .nat r.deviceTypeModifier),
   ("entity_id", .nat r.entityId), ("entity_instance", .nat r.entityInstance),
   ("oem", .nat r.oem)] ++ r.idString.view

end FruLocator

/-! ### table 43-8: management controller device locator record (12h) -/

structure McLocator where
  recordId : Nat
  version : Nat
  slaveAddress : Nat       -- byte 6 [7:1]
  channelNumber : Nat      -- byte 7 [3:0] ([7:4] reserved)
  powerStateNotification : Nat  -- byte 8
  deviceCapabilities : Nat -- byte 9
  entityId : Nat           -- byte 13 (10–12 reserved, written as 0)
  entityInstance : Nat     -- byte 14
  oem : Nat                -- byte 15
  idString : IdString      -- byte 16 …
  deriving Repr, Inhabited

namespace McLocator

def wf (r : McLocator) : Bool :=
  r.recordId < 65536 && r.version < 256 && r.slaveAddress < 128 && r.channelNumber < 16 &&
  r.powerStateNotification < 256 && r.deviceCapabilities < 256 && r.entityId < 256 &&
  r.entityInstance < 256 && r.oem < 256 && r.idString.wf

def body (r : McLocator) : List Nat :=
  [r.slaveAddress * 2, r.channelNumber, r.powerStateNotification, r.deviceCapabilities,
   0, 0, 0, r.entityId, r.entityInstance, r.oem]

def encode (r : McLocator) : List Nat :=
  header r.recordId r.version 0x12 (10 + r.idString.encode.length) ++ r.body ++ r.idString.encode

def view (r : McLocator) : Fields :=
  headerView r.recordId r.version 0x12 (10 + r.idString.encode.length) ++
  [("device_slave_address", .nat r.slaveAddress), ("channel_number", .nat r.channelNumber),
   ("power_state_notification", .nat r.powerStateNotification),
   ("device_capabilities", .nat r.deviceCapabilities),
   ("reserved", .nat 0),
   ("entity_id", .nat r.entityId), ("entity_instance", .nat r.entityInstance),
   ("oem", .nat r.oem)] ++ r.idString.view

end McLocator

/-! ### table 43-9: management controller confirmation record (13h) -/

structure McConfirmation where
  recordId : Nat
  version : Nat
  slaveAddress : Nat       -- byte 6 [7:1]
  deviceId : Nat           -- byte 7
  channelNumber : Nat      -- byte 8 [7:4]: channel number
  deviceRevision : Nat     -- byte 8 [3:0]: device revision (bytes 6-8 are the record key)
  firmwareRevision1 : Nat  -- byte 9
  firmwareRevision2 : Nat  -- byte 10
  ipmiVersion : Nat        -- byte 11
  manufacturerId : Nat     -- bytes 12:14, 20 bits (upper 4 bits reserved, written as 0)
  productId : Nat          -- bytes 15:16
  guid : List Nat          -- bytes 17:32
  deriving Repr, Inhabited

/-- Value of a byte string read LS byte first. -/
def leValue : List Nat → Nat
  | [] => 0
  | b :: bs => b + 256 * leValue bs

namespace McConfirmation

def wf (r : McConfirmation) : Bool :=
  r.recordId < 65536 && r.version < 256 && r.slaveAddress < 128 && r.deviceId < 256 &&
  r.channelNumber < 16 && r.deviceRevision < 16 && r.firmwareRevision1 < 256 && r.firmwareRevision2 < 256 &&
  r.ipmiVersion < 256 && r.manufacturerId < 1048576 && r.productId < 65536 &&
  r.guid.length == 16 && r.guid.all (· < 256)

def body (r : McConfirmation) : List Nat :=
  [r.slaveAddress * 2, r.deviceId, r.channelNumber * 16 + r.deviceRevision, r.firmwareRevision1, r.firmwareRevision2,
   r.ipmiVersion,
   r.manufacturerId % 256, r.manufacturerId / 256 % 256, r.manufacturerId / 65536,
   r.productId % 256, r.productId / 256] ++ r.guid

def encode (r : McConfirmation) : List Nat :=
  header r.recordId r.version 0x13 27 ++ r.body

def view (r : McConfirmation) : Fields :=
  headerView r.recordId r.version 0x13 27 ++
  [("device_slave_address", .nat r.slaveAddress), ("device_id", .nat r.deviceId),
   ("channel_number", .nat r.channelNumber), ("device_revision", .nat r.deviceRevision),
   ("firmware_revision_1", .nat r.firmwareRevision1), ("firmware_revision_2", .nat r.firmwareRevision2),
   ("ipmi_version", .nat r.ipmiVersion),
   ("manufacturer_id", .nat r.manufacturerId), ("product_id", .nat r.productId),
   ("device_guid", .nat (leValue r.guid))]

end McConfirmation

/-! ### table 43-12: OEM record (C0h) and records of any other type -/

/-- A record of which only the header is interpreted: OEM records (`type = C0h`, body =
manufacturer id (3 bytes) + OEM data) and every type the library does not know. -/
structure Opaque where
  recordId : Nat
  version : Nat
  type : Nat
  body : List Nat
  deriving Repr, Inhabited

namespace Opaque

def wf (r : Opaque) : Bool :=
  r.recordId < 65536 && r.version < 256 && r.type < 256 && r.body.length < 256 && r.body.all (· < 256)

def encode (r : Opaque) : List Nat :=
  header r.recordId r.version r.type r.body.length ++ r.body

def view (r : Opaque) : Fields :=
  headerView r.recordId r.version r.type r.body.length

end Opaque

end PyIpmi.Spec.Sdr
