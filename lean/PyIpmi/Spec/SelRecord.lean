/-
  SEL record formats (IPMI v2.0 §32 "SEL Record Formats"), written from the specification:

  Table 32-1, SEL Event Record (record type 02h "system event"):
     byte 1-2   Record ID, LS byte first
          3     Record Type
          4-7   Timestamp, LS byte first
          8-9   Generator ID (byte 8: [7:1] slave address / software id, [0] 0 = IPMB, 1 = software;
                              byte 9: [7:4] channel, [1:0] LUN) — kept as one 16-bit value, LS byte first
          10    EvM Rev (event message format version)
          11    Sensor Type
          12    Sensor #
          13    [7] Event Dir: 0 = assertion event, 1 = deassertion event;  [6:0] Event Type
          14-16 Event Data 1..3
  Table 32-2, OEM SEL Record, types C0h–DFh (timestamped):
     1-2 Record ID, 3 Record Type, 4-7 Timestamp, 8-10 Manufacturer ID (LS byte first), 11-16 OEM defined
  Table 32-3, OEM SEL Record, types E0h–FFh (non-timestamped):
     1-2 Record ID, 3 Record Type, 4-16 OEM defined
-/
import PyIpmi.Base.Bytes
namespace PyIpmi.Spec.SelRecord
open PyIpmi

inductive RecView where
  | system (id ts gen evm sensorType sensorNum : Nat) (deassert : Bool) (eventType d1 d2 d3 : Nat)
  | oemTimestamped (id type ts mfg : Nat) (oem : List Nat)
  | oemPlain (id type : Nat) (oem : List Nat)
  deriving Repr, DecidableEq, Inhabited

/-- the 16 bytes of a record as the tables lay them out -/
def RecView.encode : RecView → List Nat
  | .system id ts gen evm st sn de et d1 d2 d3 =>
    leBytes 2 id ++ [0x02] ++ leBytes 4 ts ++ leBytes 2 gen ++ [evm, st, sn, (if de then 0x80 else 0) + et, d1, d2, d3]
  | .oemTimestamped id t ts mfg oem => leBytes 2 id ++ [t] ++ leBytes 4 ts ++ leBytes 3 mfg ++ oem
  | .oemPlain id t oem => leBytes 2 id ++ [t] ++ oem

/-- every field fits its width; the type is in the range of its table -/
def RecView.Wf : RecView → Prop
  | .system id ts gen evm st sn _ et d1 d2 d3 =>
    id < 65536 ∧ ts < 4294967296 ∧ gen < 65536 ∧ evm < 256 ∧ st < 256 ∧ sn < 256 ∧ et < 128 ∧
      d1 < 256 ∧ d2 < 256 ∧ d3 < 256
  | .oemTimestamped id t ts mfg oem =>
    id < 65536 ∧ 0xC0 ≤ t ∧ t ≤ 0xDF ∧ ts < 4294967296 ∧ mfg < 16777216 ∧ oem.length = 6 ∧ ∀ b ∈ oem, b < 256
  | .oemPlain id t oem => id < 65536 ∧ 0xE0 ≤ t ∧ t ≤ 0xFF ∧ oem.length = 13 ∧ ∀ b ∈ oem, b < 256

def RecView.id : RecView → Nat
  | .system id .. => id
  | .oemTimestamped id .. => id
  | .oemPlain id .. => id

def RecView.type : RecView → Nat
  | .system .. => 0x02
  | .oemTimestamped _ t .. => t
  | .oemPlain _ t _ => t

end PyIpmi.Spec.SelRecord
