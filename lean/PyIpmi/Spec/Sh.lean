/-
  Spec.Sh — how a POSIX shell turns ONE command line into an argument vector, for the
  fragment of the language that the ipmitool back-end emits.  Written from
  IEEE Std 1003.1 (Shell Command Language) §2.2 Quoting, §2.3 Token Recognition,
  §2.6 Word Expansions and §2.7.6 Duplicating an Output File Descriptor — not from the Python.

  Characters are Unicode code points (`Nat`); the shell itself sees bytes, but every rule
  below only names ASCII characters and no byte of a multi-byte UTF-8 sequence is ASCII.

  The recogniser is a one-character-at-a-time state machine (`step`), so that
  `run st (a ++ b) = run (run st a) b` holds by `List.foldl_append`.

  Verdicts
    ok argv redirs  the line is one simple command; these are its words after quote removal,
                    and the descriptor duplications `n>&m` that were requested;
    expands         a `$`, back-quote, tilde-prefix or pathname pattern is live: what the program
                    receives depends on the environment / file system (or a command is executed);
    syntaxError     a quote or a redirection is left unfinished;
    unsupported     valid or not, the line leaves the fragment (operators `| & ; < ( )`, newline,
                    comment, file redirection, assignment or reserved word in command position,
                    NUL).  Nothing is claimed about such lines.

  Deliberately conservative: `$` and back-quote are reported as `expands` even where a real
  shell happens to keep them (`"a$"`): POSIX leaves those cases unspecified.
-/
namespace PyIpmi.Spec.Sh

/-- strings are lists of code points -/
abbrev Str := List Nat

/-- no NUL character (a NUL cannot be passed to `execve`, nor appear in shell input) -/
def NoNul (s : Str) : Prop := ∀ c ∈ s, c ≠ 0

instance (s : Str) : Decidable (NoNul s) := by unfold NoNul; infer_instance

inductive Err where
  | expands | syntaxError | unsupported
  deriving DecidableEq, Repr

inductive Result where
  | ok (argv : List Str) (redirs : List (Nat × Nat))
  | expands
  | syntaxError
  | unsupported
  deriving DecidableEq, Repr

inductive Mode where
  /-- outside quotes -/
  | unq
  /-- just after an unquoted backslash -/
  | unqBs
  /-- inside "…" -/
  | dq
  /-- just after a backslash inside "…" -/
  | dqBs
  /-- inside '…' -/
  | sq
  /-- after `[n]>` -/
  | gt (fd : Nat)
  /-- after `[n]>&` -/
  | dup (fd : Nat)
  /-- after `[n]>&m`: only a blank may follow -/
  | dupDone
  | fail (e : Err)
  deriving DecidableEq, Repr

structure St where
  mode : Mode
  /-- the word being assembled; `none` between words (an empty quoted word is `some []`) -/
  cur : Option Str
  /-- no quoting has contributed to `cur` (only then can a digit string be an IO_NUMBER) -/
  bare : Bool
  argv : List Str
  redirs : List (Nat × Nat)
  deriving DecidableEq, Repr

def init : St := ⟨.unq, none, true, [], []⟩

def isDigit (c : Nat) : Bool := 48 ≤ c && c ≤ 57

def digitsVal (s : Str) : Nat := s.foldl (fun a c => 10 * a + (c - 48)) 0

/-- §2.3 rule: a blank delimits the current token -/
def flush (st : St) : St :=
  { st with cur := none, bare := true, argv := st.argv ++ st.cur.toList }

def addChar (st : St) (c : Nat) : St :=
  { st with cur := some (st.cur.getD [] ++ [c]) }

def failWith (st : St) (e : Err) : St := { st with mode := .fail e }

/-- one character outside quotes (§2.2, §2.3, §2.6) -/
def stepUnq (st : St) (c : Nat) : St :=
  if c = 0 then failWith st .unsupported
  else if c = 32 ∨ c = 9 then flush st                                   -- <blank>
  else if c = 10 then failWith st .unsupported                           -- <newline>: a list
  else if c = 34 then { st with mode := .dq, cur := some (st.cur.getD []), bare := false }  -- "
  else if c = 39 then { st with mode := .sq, cur := some (st.cur.getD []), bare := false }  -- '
  else if c = 92 then { st with mode := .unqBs }                         -- \
  else if c = 36 ∨ c = 96 then failWith st .expands                      -- $ `
  else if c = 42 ∨ c = 63 ∨ c = 91 then failWith st .expands             -- * ? [  (§2.13)
  else if c = 126 ∧ st.cur = none then failWith st .expands              -- ~ at word start
  else if c = 35 ∧ st.cur = none then failWith st .unsupported           -- # comment
  else if c = 62 then                                                    -- >
    match st.cur with
    | some w =>
      if st.bare ∧ w ≠ [] ∧ w.all isDigit then
        { st with mode := .gt (digitsVal w), cur := none, bare := true }
      else { flush st with mode := .gt 1 }
    | none => { st with mode := .gt 1 }
  else if c = 60 ∨ c = 124 ∨ c = 38 ∨ c = 59 ∨ c = 40 ∨ c = 41 then     -- < | & ; ( )
    failWith st .unsupported
  else if c = 61 ∧ st.argv = [] then failWith st .unsupported            -- name=value prefix
  else addChar st c

/-- one character inside double quotes (§2.2.3) -/
def stepDq (st : St) (c : Nat) : St :=
  if c = 0 then failWith st .unsupported
  else if c = 34 then { st with mode := .unq }
  else if c = 92 then { st with mode := .dqBs }
  else if c = 36 ∨ c = 96 then failWith st .expands
  else addChar st c

/-- the character after a backslash inside double quotes: the backslash keeps its meaning
as an escape only before `$`, back-quote, `"`, `\` and <newline> (§2.2.3) -/
def stepDqBs (st : St) (c : Nat) : St :=
  if c = 0 then failWith st .unsupported
  else if c = 36 ∨ c = 96 ∨ c = 34 ∨ c = 92 then { addChar st c with mode := .dq }
  else if c = 10 then { st with mode := .dq }
  else { addChar (addChar st 92) c with mode := .dq }

def stepSq (st : St) (c : Nat) : St :=
  if c = 0 then failWith st .unsupported
  else if c = 39 then { st with mode := .unq }
  else addChar st c

def stepUnqBs (st : St) (c : Nat) : St :=
  if c = 0 then failWith st .unsupported
  else if c = 10 then { st with mode := .unq }                           -- line continuation
  else { addChar st c with mode := .unq, bare := false }

def step (st : St) (c : Nat) : St :=
  match st.mode with
  | .unq => stepUnq st c
  | .unqBs => stepUnqBs st c
  | .dq => stepDq st c
  | .dqBs => stepDqBs st c
  | .sq => stepSq st c
  | .gt fd => if c = 38 then { st with mode := .dup fd } else failWith st .unsupported
  | .dup fd =>
    if isDigit c then { st with mode := .dupDone, redirs := st.redirs ++ [(fd, c - 48)] }
    else failWith st .unsupported
  | .dupDone => if c = 32 ∨ c = 9 then { st with mode := .unq } else failWith st .unsupported
  | .fail _ => st

def run (st : St) (s : Str) : St := s.foldl step st

/-- reserved words (§2.4) are recognised only as the first word of a command -/
def reserved : List Str :=
  [[33], [123], [125], [99, 97, 115, 101], [100, 111], [100, 111, 110, 101], [101, 108, 105, 102],
   [101, 108, 115, 101], [101, 115, 97, 99], [102, 105], [102, 111, 114], [105, 102], [105, 110],
   [116, 104, 101, 110], [117, 110, 116, 105, 108], [119, 104, 105, 108, 101]]

def finishOk (argv : List Str) (redirs : List (Nat × Nat)) : Result :=
  match argv with
  | w :: _ => if reserved.contains w then .unsupported else .ok argv redirs
  | [] => .ok argv redirs

def finish (st : St) : Result :=
  match st.mode with
  | .unq => finishOk (st.argv ++ st.cur.toList) st.redirs
  | .dupDone => finishOk st.argv st.redirs
  | .unqBs => .unsupported
  | .dq => .syntaxError
  | .dqBs => .syntaxError
  | .sq => .syntaxError
  | .gt _ => .syntaxError
  | .dup _ => .syntaxError
  | .fail .expands => .expands
  | .fail .syntaxError => .syntaxError
  | .fail .unsupported => .unsupported

/-- The argument vector a POSIX shell hands to the program for command line `s`. -/
def words (s : Str) : Result := finish (run init s)

end PyIpmi.Spec.Sh
