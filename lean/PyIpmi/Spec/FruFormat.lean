/-
  Specification of the FRU storage format, written from the
  "Platform Management FRU Information Storage Definition" v1.0 (and PICMG 3.0 / MTCA.0 for
  the OEM records), NOT from the Python parser.  Core only.

  * §8   common header: version 01h, five area offsets in multiples of 8 bytes (00h = area
         absent), PAD 00h, zero checksum (all 8 bytes sum to 0 mod 256)
  * §10–12 chassis / board / product info areas: version 01h, length in multiples of 8,
         fixed leading bytes, predefined type/length fields, custom fields, the C1h
         "no more fields" type/length byte, 00h for unused space, zero checksum as last byte
  * §13  type/length byte: bits 7:6 type (00 binary, 01 BCD plus, 10 6-bit ASCII packed,
         11 8-bit ASCII + Latin 1), bits 5:0 number of data bytes
  * §13.1 BCD plus: 0h–9h digits, Ah space, Bh dash, Ch period (Dh–Fh reserved)
  * §13.2/13.3 6-bit ASCII: character = 20h + code, packed least significant bits first
  * §11  board mfg. date/time: minutes from 0:00 hrs 1/1/96, 3 bytes LS byte first
  * §16  multi-record area: records of a 5-byte header (type id, bit 7 end of list | version
         02h, length, record checksum, header checksum) followed by the record data
  * §16.2.1 / §18.7 record type ids C0h–FFh are OEM record types, shared by all manufacturers;
         the data of an OEM record start with the manufacturer's IANA id, 3 bytes LS byte first
  * PICMG 3.0 §3.6.x: a PICMG record is an OEM record of type C0h whose data start with the
         manufacturer id 00315Ah (LS byte first), the PICMG record id and the record format
         version (5 bytes at least); MTCA.0 power module capability record: PICMG record id 27h
         with the maximum current output in tenths of an ampere, LS byte first (7 bytes at least).
         A C0h record of another manufacturer, or one too short to hold the PICMG record id and
         version, is an ordinary OEM record: a reader reports type, version, length and data.
  * an info area is at least 8 bytes (version, length, …, C1h, checksum): a length byte 00h is
         never valid, and the declared length has to lie inside the data the area is read from;
         its zero checksum is over exactly the declared length
  * the predefined fields, the custom fields and the C1h byte of an info area lie INSIDE its declared
         length, in front of its checksum byte (§10–12: they are the area's contents); the areas the
         common header announces do not overlap (`fieldsOk`, `layoutOk`; `imageOk` = every check a
         reader of this format can make)

  `FruImage` is the abstract content, `encodeFru` the storage image, `view` what a faithful
  parser has to report for it, `checksumsOk` the acceptance condition the format defines.
-/
import PyIpmi.Base.Bytes
namespace PyIpmi.Fru
open PyIpmi

/-! ### observations (what a parser reports) -/

/-- one type/length field as seen by a reader -/
structure FieldView where
  ftype : Nat            -- 0 binary, 1 BCD plus, 2 6-bit ASCII, 3 8-bit
  length : Nat           -- declared number of data bytes
  raw : List Nat         -- the data bytes
  str : List Nat         -- decoded text as code points (binary / 8-bit: one per byte)
  deriving Repr, DecidableEq, Inhabited

/-- chassis / board / product info area as seen by a reader -/
structure AreaView where
  version : Nat
  length : Nat           -- in bytes
  b2 : Nat               -- chassis type / language code
  minutes : Nat          -- board: minutes since 1996-01-01 00:00; otherwise 0
  fields : List FieldView
  custom : List FieldView
  deriving Repr, DecidableEq, Inhabited

/-- `absent`: header offset 0.  `empty`: offset points behind the end of the data (the Python
objects exist but carry no attribute).  -/
inductive Slot (α : Type) where
  | absent
  | empty
  | parsed (a : α)
  deriving Repr, DecidableEq, Inhabited

inductive RecView where
  | unknown (typeId version : Nat) (eol : Bool) (length : Nat) (raw : List Nat)
  | picmg (typeId : Nat) (eol : Bool) (length : Nat) (raw : List Nat)
      (mfgId picmgId version : Nat)
  | power (typeId : Nat) (eol : Bool) (length : Nat) (raw : List Nat)
      (mfgId picmgId version tenths : Nat)
  deriving Repr, DecidableEq, Inhabited

structure HeaderView where
  version : Nat
  internalOff : Nat      -- byte offsets; 0 = None
  chassisOff : Nat
  boardOff : Nat
  productOff : Nat
  multiOff : Nat
  deriving Repr, DecidableEq, Inhabited

structure FruView where
  header : Option HeaderView
  chassis : Slot AreaView
  board : Slot AreaView
  product : Slot AreaView
  multi : Slot (List RecView)
  deriving Repr, DecidableEq, Inhabited

/-! ### abstract content -/

inductive Field where
  | binary (bs : List Nat)        -- type 00b
  | bcdPlus (digits : List Nat)   -- type 01b: BCD plus codes 0..12, two per byte
  | ascii6 (codes : List Nat)     -- type 10b: 6-bit codes 0..63 (character 20h + code)
  | text8 (bs : List Nat)         -- type 11b: 8-bit ASCII + Latin 1
  deriving Repr, DecidableEq, Inhabited

structure Chassis where
  ctype : Nat
  part : Field
  serial : Field
  custom : List Field
  extraPad : Nat                  -- additional unused space, in units of 8 bytes
  deriving Repr, DecidableEq, Inhabited

structure Board where
  lang : Nat
  minutes : Nat
  manufacturer : Field
  product : Field
  serial : Field
  part : Field
  fileId : Field
  custom : List Field
  extraPad : Nat
  deriving Repr, DecidableEq, Inhabited

structure Product where
  lang : Nat
  manufacturer : Field
  name : Field
  part : Field
  version : Field
  serial : Field
  asset : Field
  fileId : Field
  custom : List Field
  extraPad : Nat
  deriving Repr, DecidableEq, Inhabited

inductive Record where
  | generic (typeId : Nat) (data : List Nat)           -- any non-PICMG record
  | picmg (picmgId version : Nat) (payload : List Nat) -- PICMG OEM record (C0h)
  | power (version tenths : Nat) (extra : List Nat)    -- MTCA.0 power module capability
  deriving Repr, DecidableEq, Inhabited

structure FruImage where
  internal : Option (List Nat)    -- internal use area: bytes after its version byte
  chassis : Option Chassis
  board : Option Board
  product : Option Product
  records : List Record
  deriving Repr, DecidableEq, Inhabited

/-! ### encoding -/

/-- the byte that makes `l ++ [·]` sum to zero modulo 256 -/
def zeroSum (l : List Nat) : Nat := (256 - l.sum % 256) % 256

/-- BCD plus: two codes per byte, first code in the high nibble -/
def packBcd : List Nat → List Nat
  | a :: b :: rest => (a * 16 + b) :: packBcd rest
  | _ => []

/-- 6-bit ASCII packing (§13.3): char 1 in bits 5:0 of byte 1; char 2 in bits 7:6 of byte 1 and
3:0 of byte 2; char 3 in bits 7:4 of byte 2 and 1:0 of byte 3; char 4 in bits 7:2 of byte 3. -/
def pack6 : List Nat → List Nat
  | [] => []
  | [a] => [a]
  | [a, b] => [a + b % 4 * 64, b / 4]
  | [a, b, c] => [a + b % 4 * 64, b / 4 + c % 16 * 16, c / 16]
  | a :: b :: c :: d :: rest => (a + b % 4 * 64) :: (b / 4 + c % 16 * 16) :: (c / 16 + d * 4) :: pack6 rest

def Field.typeCode : Field → Nat
  | .binary _ => 0
  | .bcdPlus _ => 1
  | .ascii6 _ => 2
  | .text8 _ => 3

def Field.payload : Field → List Nat
  | .binary bs => bs
  | .bcdPlus ds => packBcd ds
  | .ascii6 cs => pack6 cs
  | .text8 bs => bs

def encodeField (f : Field) : List Nat :=
  (f.typeCode * 64 + f.payload.length) :: f.payload

def encodeFields : List Field → List Nat
  | [] => []
  | f :: fs => encodeField f ++ encodeFields fs

/-- "no more fields" type/length byte -/
def endOfFields : Nat := 0xC1

/-- generic shape of an info area: fixed bytes after version+length, predefined fields,
custom fields, extra unused space -/
structure InfoArea where
  pre : List Nat
  fields : List Field
  custom : List Field
  extraPad : Nat
  deriving Repr, DecidableEq, Inhabited

def InfoArea.body (a : InfoArea) : List Nat :=
  a.pre ++ (encodeFields a.fields ++ (encodeFields a.custom ++ [endOfFields]))

/-- bytes needed before padding: version, length, body, checksum -/
def InfoArea.need (a : InfoArea) : Nat := a.body.length + 3

def InfoArea.padLen (a : InfoArea) : Nat := (8 - a.need % 8) % 8 + 8 * a.extraPad

/-- total length in bytes (a multiple of 8) -/
def InfoArea.total (a : InfoArea) : Nat := a.need + a.padLen

def InfoArea.noCk (a : InfoArea) : List Nat :=
  1 :: (a.total / 8) :: (a.body ++ List.replicate a.padLen 0)

def encodeArea (a : InfoArea) : List Nat := a.noCk ++ [zeroSum a.noCk]

def Chassis.toArea (c : Chassis) : InfoArea :=
  ⟨[c.ctype], [c.part, c.serial], c.custom, c.extraPad⟩

def Board.toArea (b : Board) : InfoArea :=
  ⟨b.lang :: leBytes 3 b.minutes,
   [b.manufacturer, b.product, b.serial, b.part, b.fileId], b.custom, b.extraPad⟩

def Product.toArea (p : Product) : InfoArea :=
  ⟨[p.lang], [p.manufacturer, p.name, p.part, p.version, p.serial, p.asset, p.fileId],
   p.custom, p.extraPad⟩

def picmgMfgId : Nat := 0x00315A
def picmgRecordType : Nat := 0xC0
def powerModuleId : Nat := 0x27

def Record.typeId : Record → Nat
  | .generic t _ => t
  | .picmg _ _ _ => picmgRecordType
  | .power _ _ _ => picmgRecordType

def Record.data : Record → List Nat
  | .generic _ d => d
  | .picmg pid ver payload => leBytes 3 picmgMfgId ++ [pid, ver] ++ payload
  | .power ver tenths extra => leBytes 3 picmgMfgId ++ [powerModuleId, ver] ++ leBytes 2 tenths ++ extra

/-- record header without its checksum: type, end-of-list | version 2, length, record checksum -/
def Record.hdr4 (r : Record) (last : Bool) : List Nat :=
  [r.typeId, (if last then 0x80 else 0) + 2, r.data.length, zeroSum r.data]

def encodeRecord (r : Record) (last : Bool) : List Nat :=
  r.hdr4 last ++ [zeroSum (r.hdr4 last)] ++ r.data

/-- the last record carries the end-of-list flag -/
def encodeRecords : List Record → List Nat
  | [] => []
  | [r] => encodeRecord r true
  | r :: r' :: rs => encodeRecord r false ++ encodeRecords (r' :: rs)

/-- internal use area: version byte, data, 00h up to a multiple of 8 -/
def encodeInternal (d : List Nat) : List Nat :=
  (1 :: d) ++ List.replicate ((8 - (d.length + 1) % 8) % 8) 0

def optBytes {α} (f : α → List Nat) : Option α → List Nat
  | none => []
  | some a => f a

/-- offset of an area that starts after `before` bytes, 0 when the area is absent -/
def offOf (present : Bool) (before : Nat) : Nat := if present then before else 0

structure Parts where
  iu : List Nat
  ch : List Nat
  bd : List Nat
  pr : List Nat
  mr : List Nat

def FruImage.parts (img : FruImage) : Parts :=
  ⟨optBytes encodeInternal img.internal,
   optBytes (fun c => encodeArea c.toArea) img.chassis,
   optBytes (fun b => encodeArea b.toArea) img.board,
   optBytes (fun p => encodeArea p.toArea) img.product,
   encodeRecords img.records⟩

def FruImage.iuOff (img : FruImage) : Nat := offOf img.internal.isSome 8
def FruImage.chOff (img : FruImage) : Nat := offOf img.chassis.isSome (8 + img.parts.iu.length)
def FruImage.bdOff (img : FruImage) : Nat :=
  offOf img.board.isSome (8 + img.parts.iu.length + img.parts.ch.length)
def FruImage.prOff (img : FruImage) : Nat :=
  offOf img.product.isSome (8 + img.parts.iu.length + img.parts.ch.length + img.parts.bd.length)
def FruImage.mrOff (img : FruImage) : Nat :=
  offOf (!img.records.isEmpty)
    (8 + img.parts.iu.length + img.parts.ch.length + img.parts.bd.length + img.parts.pr.length)

def FruImage.header7 (img : FruImage) : List Nat :=
  [1, img.iuOff / 8, img.chOff / 8, img.bdOff / 8, img.prOff / 8, img.mrOff / 8, 0]

def FruImage.header (img : FruImage) : List Nat := img.header7 ++ [zeroSum img.header7]

/-- the storage image -/
def encodeFru (img : FruImage) : List Nat :=
  img.header ++ (img.parts.iu ++ (img.parts.ch ++ (img.parts.bd ++ (img.parts.pr ++ img.parts.mr))))

/-! ### well-formedness (the property's quantifier) -/

def Field.wf : Field → Bool
  | .binary bs => isBytes bs && decide (bs.length ≤ 63)
  | .bcdPlus ds => ds.all (· < 13) && decide (ds.length % 2 = 0) && decide (ds.length ≤ 126)
  | .ascii6 cs => cs.all (· < 64) && decide (cs.length ≤ 84)
  -- C1h (type 11b, length 1) is the end-of-fields marker, so an 8-bit field cannot have length 1
  | .text8 bs => isBytes bs && decide (bs.length ≤ 63) && decide (bs.length ≠ 1)

def InfoArea.wf (a : InfoArea) : Bool :=
  isBytes a.pre && a.fields.all Field.wf && a.custom.all Field.wf && decide (a.total / 8 < 256)

/-- OEM record data that identify a PICMG record: the PICMG manufacturer id followed by (at
least) the PICMG record id and the record format version -/
def isPicmgData (d : List Nat) : Bool := decide (5 ≤ d.length) && d.take 3 == leBytes 3 picmgMfgId

/-- `generic` is any record that is not a PICMG record: every type id (C0h included – then the
data are another manufacturer's, or too short for a PICMG record).  The same bytes with the PICMG
signature are written as `picmg` / `power`; what is left out is a C0h/00315Ah record with PICMG
record id 27h and fewer than 7 data bytes (a truncated power module capability record). -/
def Record.wf : Record → Bool
  | .generic t d => decide (t < 256) && !(t == picmgRecordType && isPicmgData d) && isBytes d && decide (d.length ≤ 255)
  | .picmg pid ver payload =>
    decide (pid < 256) && decide (pid ≠ powerModuleId) && decide (ver < 256) && isBytes payload &&
      decide (payload.length ≤ 250)
  | .power ver tenths extra =>
    decide (ver < 256) && decide (tenths < 65536) && isBytes extra && decide (extra.length ≤ 248)

def optAll {α} (p : α → Bool) : Option α → Bool
  | none => true
  | some a => p a

def FruImage.wf (img : FruImage) : Bool :=
  optAll isBytes img.internal &&
  optAll (fun c => decide (c.ctype < 256) && c.toArea.wf) img.chassis &&
  optAll (fun b => decide (b.lang < 256) && decide (b.minutes < 256 ^ 3) && b.toArea.wf) img.board &&
  optAll (fun p => decide (p.lang < 256) && p.toArea.wf) img.product &&
  img.records.all Record.wf &&
  -- every area offset fits the header's one-byte multiple-of-8 field
  decide ((8 + img.parts.iu.length + img.parts.ch.length + img.parts.bd.length + img.parts.pr.length) / 8 < 256)

def WellFormed (img : FruImage) : Prop := img.wf = true

instance (img : FruImage) : Decidable (WellFormed img) :=
  inferInstanceAs (Decidable (img.wf = true))

/-! ### what a faithful parser reports -/

def bcdChar (d : Nat) : Nat :=
  if d < 10 then 48 + d else if d = 10 then 32 else if d = 11 then 45 else 46

/-- complete 6-bit characters held by `n` data bytes -/
def sixCapacity (n : Nat) : Nat := n * 8 / 6

def Field.text : Field → List Nat
  | .binary bs => bs
  | .bcdPlus ds => ds.map bcdChar
  -- "ABC" and "ABC " have the same packed encoding: three characters fill 18 of 24 bits and the
  -- remaining 6 zero bits read as a fourth character, code 0 = space.  Format limit.
  | .ascii6 cs => (cs ++ (if cs.length % 4 = 3 then [0] else [])).map (0x20 + ·)
  | .text8 bs => bs

def viewField (f : Field) : FieldView :=
  ⟨f.typeCode, f.payload.length, f.payload, f.text⟩

def viewArea (a : InfoArea) (b2 minutes : Nat) : AreaView :=
  ⟨1, a.total, b2, minutes, a.fields.map viewField, a.custom.map viewField⟩

def viewRecord (r : Record) (last : Bool) : RecView :=
  match r with
  | .generic t d => .unknown t 2 last d.length d
  | .picmg pid ver _ =>
    .picmg picmgRecordType last (r.data.length) r.data picmgMfgId pid ver
  | .power ver tenths _ =>
    .power picmgRecordType last (r.data.length) r.data picmgMfgId powerModuleId ver tenths

def viewRecords : List Record → List RecView
  | [] => []
  | [r] => [viewRecord r true]
  | r :: r' :: rs => viewRecord r false :: viewRecords (r' :: rs)

def optSlot {α β} (f : α → β) : Option α → Slot β
  | none => .absent
  | some a => .parsed (f a)

def view (img : FruImage) : FruView :=
  { header := some ⟨1, img.iuOff, img.chOff, img.bdOff, img.prOff, img.mrOff⟩
    chassis := optSlot (fun c => viewArea c.toArea c.ctype 0) img.chassis
    board := optSlot (fun b => viewArea b.toArea b.lang b.minutes) img.board
    product := optSlot (fun p => viewArea p.toArea p.lang 0) img.product
    multi := if img.records.isEmpty then .absent else .parsed (viewRecords img.records) }

/-! ### the acceptance condition defined by the format (zero-sum checksums)

Evaluated on raw bytes, with the extents the bytes themselves define: header = first 8 bytes;
info area at offset `8·bs[k]` of length `8·(area byte 1)`; records chained through their
length bytes up to the end-of-list flag.

An info area's checksum is over its DECLARED length: the declared length is at least one unit of
8 bytes and lies inside the data (so every byte of the area – the length byte itself included –
is inside the span whose sum is verified; a length of 0 would verify nothing, a length behind the
end of the data would verify a span that does not exist). -/

def areaSumOk (d : List Nat) : Bool :=
  match d with
  | [] => true       -- the header's offset points behind the end of the data: no area bytes at all
  | _ => decide (1 ≤ d.getD 1 0) && decide (8 * d.getD 1 0 ≤ d.length) &&
           sum8 (d.take (8 * d.getD 1 0)) == 0

/-- header and body checksum of every record of the chain (`fuel` ≥ number of records) -/
def recordsOk : Nat → List Nat → Bool
  | 0, _ => false
  | fuel + 1, d =>
    decide (5 ≤ d.length) && sum8 (d.take 5) == 0 &&
      (((d.drop 5).take (d.getD 2 0)).sum + d.getD 3 0) % 256 == 0 &&
      (d.getD 1 0 / 128 % 2 == 1 || recordsOk fuel (d.drop (d.getD 2 0 + 5)))

def multiSumOk (d : List Nat) : Bool :=
  match d with
  | [] => true
  | _ => recordsOk d.length d

def areaAt (bs : List Nat) (k : Nat) : List Nat := bs.drop (8 * bs.getD k 0)

def checksumsOk (bs : List Nat) : Bool :=
  sum8 (bs.take 8) == 0 &&
  (bs.getD 2 0 == 0 || areaSumOk (areaAt bs 2)) &&
  (bs.getD 3 0 == 0 || areaSumOk (areaAt bs 3)) &&
  (bs.getD 4 0 == 0 || areaSumOk (areaAt bs 4)) &&
  (bs.getD 5 0 == 0 || multiSumOk (areaAt bs 5))

/-! ### the fields of an info area lie inside the area (§10–12)

The length byte says how many bytes belong to the area; its last byte is the checksum.  The
predefined fields, the custom fields and the C1h "no more fields" byte are PART of the area: a
reader walks the type/length bytes (§13: bits 5:0 = number of data bytes that follow) from the first
field – chassis and product areas: area offset 3, board area: offset 6 (behind the 3-byte
manufacturing date) – through the predefined fields (2 / 5 / 7) and then the custom fields until it
meets C1h, and every byte it looks at has to lie in front of the area's checksum byte.  An area in
which a field or the end marker would lie behind the declared length is not an info area of this
format, whatever its checksum says.  Keyed by the header byte `k` that announces the area
(2 chassis, 3 board, 4 product). -/

/-- area offset of the first predefined type/length byte -/
def firstFieldAt : Nat → Nat
  | 3 => 6
  | _ => 3

/-- number of predefined fields -/
def predefined : Nat → Nat
  | 2 => 2
  | 3 => 5
  | _ => 7

/-- skip `n` type/length fields; `none` when a type/length byte or a field body does not fit into
the bytes given -/
def skipFields : Nat → List Nat → Option (List Nat)
  | 0, d => some d
  | _ + 1, [] => none
  | n + 1, b :: t => if t.length < b % 64 then none else skipFields n (t.drop (b % 64))

/-- custom fields up to the C1h byte: `true` iff the marker is reached with every field inside the
bytes given (every step consumes at least one byte: `fuel` = number of bytes is enough) -/
def endMarkerIn : Nat → List Nat → Bool
  | 0, _ => false
  | _ + 1, [] => false
  | fuel + 1, b :: t =>
    b == endOfFields || (decide (b % 64 ≤ t.length) && endMarkerIn fuel (t.drop (b % 64)))

/-- the part of an info area `d` (bytes from the area offset on) in which its fields lie: behind
the fixed bytes, in front of the checksum byte at `8·d[1] - 1` -/
def fieldBytes (k : Nat) (d : List Nat) : List Nat :=
  (d.take (8 * d.getD 1 0 - 1)).drop (firstFieldAt k)

def fieldsInside (k : Nat) (d : List Nat) : Bool :=
  match d with
  | [] => true       -- the header's offset points behind the end of the data: no area bytes at all
  | _ =>
    match skipFields (predefined k) (fieldBytes k d) with
    | none => false
    | some r => endMarkerIn r.length r

def fieldsOk (bs : List Nat) : Bool :=
  (bs.getD 2 0 == 0 || fieldsInside 2 (areaAt bs 2)) &&
  (bs.getD 3 0 == 0 || fieldsInside 3 (areaAt bs 3)) &&
  (bs.getD 4 0 == 0 || fieldsInside 4 (areaAt bs 4))

/-! ### the areas do not overlap (§8: "offsets" of separate areas)

Every area the common header announces (bytes 1..5: internal use, chassis, board, product,
multi-record) starts at 8 × its offset byte.  An info area extends over its declared length, the
multi-record area over its chain of records (5 header bytes + the length byte's data bytes each, up
to the end-of-list flag); the internal use area has no length of its own.  In a FRU image these spans
are disjoint: no area starts inside the span of another one (two areas at the same offset included). -/

/-- bytes occupied by the chain of records (`fuel` ≥ number of records) -/
def multiLen : Nat → List Nat → Nat
  | 0, _ => 0
  | fuel + 1, d =>
    d.getD 2 0 + 5 + (if d.getD 1 0 / 128 % 2 == 1 then 0 else multiLen fuel (d.drop (d.getD 2 0 + 5)))

def multiSpan (d : List Nat) : Nat := multiLen d.length d

/-- start of the area announced by header byte `k` (0: absent) -/
def startOf (bs : List Nat) (k : Nat) : Nat := 8 * bs.getD k 0

/-- declared extent of the area announced by header byte `k` (1 internal use: none) -/
def spanOf (bs : List Nat) (k : Nat) : Nat :=
  if bs.getD k 0 == 0 then 0
  else if k = 5 then multiSpan (areaAt bs 5)
  else if k = 1 then 0
  else 8 * (areaAt bs k).getD 1 0

/-- an area that starts at `o` lies inside the span `[s, s + len)` of another one -/
def startsInside (s len o : Nat) : Bool :=
  decide (s ≠ 0) && decide (o ≠ 0) && decide (s ≤ o) && decide (o < s + len)

/-- the ordered pairs of different areas -/
def areaPairs : List (Nat × Nat) :=
  [(1, 2), (1, 3), (1, 4), (1, 5), (2, 1), (2, 3), (2, 4), (2, 5), (3, 1), (3, 2), (3, 4), (3, 5),
   (4, 1), (4, 2), (4, 3), (4, 5), (5, 1), (5, 2), (5, 3), (5, 4)]

/-- `starts`, `spans`: functions of the header byte index 1..5 -/
def disjointAreas (starts spans : Nat → Nat) : Bool :=
  areaPairs.all fun p => !startsInside (starts p.1) (spans p.1) (starts p.2)

def layoutOk (bs : List Nat) : Bool := disjointAreas (startOf bs) (spanOf bs)

/-! ### every check a reader of this format can make

`imageOk`: all zero-sum checksums over the spans the bytes themselves declare, all fields and end
markers inside those spans, areas disjoint.  This is what "accepted" has to imply, and an image that
satisfies it is – for a reader – a FRU image. -/

def imageOk (bs : List Nat) : Bool := checksumsOk bs && fieldsOk bs && layoutOk bs

/-- the bytes an info area needs (version, length, fixed bytes, fields, C1h, checksum) – what is
left of its declared length is unused space.  For the info area whose LENGTH BYTE is at position `i`
of the encoded image (0 when `i` is no such position). -/
def optNat {α} (f : α → Nat) : Option α → Nat
  | none => 0
  | some a => f a

def lengthByteNeed (img : FruImage) (i : Nat) : Nat :=
  if img.chOff ≠ 0 ∧ i = img.chOff + 1 then optNat (fun c : Chassis => c.toArea.need) img.chassis
  else if img.bdOff ≠ 0 ∧ i = img.bdOff + 1 then optNat (fun b : Board => b.toArea.need) img.board
  else if img.prOff ≠ 0 ∧ i = img.prOff + 1 then optNat (fun p : Product => p.toArea.need) img.product
  else 0

/-! ### which bytes of an encoded image are covered by a checksum -/

/-- `i` lies in the area that starts at `off` (≠ 0) and is `len` bytes long -/
def inArea (off len i : Nat) : Bool := decide (off ≠ 0) && decide (off ≤ i) && decide (i < off + len)

/-- covered by a checksum: common header, info areas, multi-record area (the internal use area
has no checksum) -/
def covered (img : FruImage) (i : Nat) : Bool :=
  decide (i < 8) || inArea img.chOff img.parts.ch.length i || inArea img.bdOff img.parts.bd.length i ||
    inArea img.prOff img.parts.pr.length i || inArea img.mrOff img.parts.mr.length i

/-- the length byte of an info area (it defines the extent of the checksum that covers it) -/
def isAreaLengthByte (img : FruImage) (i : Nat) : Bool :=
  (decide (img.chOff ≠ 0) && decide (i = img.chOff + 1)) ||
  (decide (img.bdOff ≠ 0) && decide (i = img.bdOff + 1)) ||
  (decide (img.prOff ≠ 0) && decide (i = img.prOff + 1))

/-! ### manufacturing date (civil date of "minutes from 0:00 hrs 1/1/96") -/

/-- (year, month, day, hour, minute) – proleptic Gregorian calendar, days-to-civil algorithm -/
def dateOfMinutes (m : Nat) : Nat × Nat × Nat × Nat × Nat :=
  let days := m / 1440
  let rem := m % 1440
  -- days since 0000-03-01; 1996-01-01 is day 9496 of the Unix era, which starts at 719468
  let z := days + 9496 + 719468
  let era := z / 146097
  let doe := z % 146097
  let yoe := (doe - doe / 1460 + doe / 36524 - doe / 146096) / 365
  let doy := doe - (365 * yoe + yoe / 4 - yoe / 100)
  let mp := (5 * doy + 2) / 153
  let d := doy - (153 * mp + 2) / 5 + 1
  let mo := if mp < 10 then mp + 3 else mp - 9
  let y := yoe + era * 400 + (if mo ≤ 2 then 1 else 0)
  (y, mo, d, rem / 60, rem % 60)

end PyIpmi.Fru
