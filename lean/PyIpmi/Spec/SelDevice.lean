/-
  Reference SEL device, byte level (IPMI v2.0 §31 "SEL Commands").  Written from the
  specification, not from the Python.

    Get SEL Info      (NetFn Storage, cmd 40h)  → [cc, 51h, entries LS, MS, free LS, MS,
                                                   add-timestamp ×4, erase-timestamp ×4, support]
    Reserve SEL       (42h)                     → [cc, reservation LS, MS]
    Get SEL Entry     (43h)  [res LS, MS, record LS, MS, offset, bytes-to-read (FFh = entire)]
                                                → [cc, next record LS, MS, data …]
    Delete SEL Entry  (46h)  [res LS, MS, record LS, MS]
                                                → [cc, deleted record LS, MS]

  * The log is a list of 16-byte records; a record's id is its first two bytes (LE).  Record
    id 0000h addresses the first, FFFFh the last record; "next record id" FFFFh says that the
    record returned is the last one.
  * Partial reads: the device serves at most `limit` bytes per Get SEL Entry and, if
    `whole = false`, refuses "entire record" requests; what it refuses it answers with CAh.
  * Reservation: Reserve SEL hands out a fresh id.  Any change of the log (`Change`) cancels it.
    A Get SEL Entry is checked against the reservation when it carries one (≠ 0000h) or is a
    partial read at an offset ≠ 0; Delete SEL Entry always is.  A request failing the check is
    answered C5h.
  * Concurrent activity is a script `evs`: before the device looks at its n-th request it
    applies the n-th element (nothing / a change by another party that cancels the reservation).
  * `deleted` is the deletion record: the bytes of every record removed by a Delete SEL Entry
    command together with the reservation id the command carried.
-/
import PyIpmi.Base.Bytes
namespace PyIpmi.Spec.Sel
open PyIpmi

/-- Something another party does to the log; each cancels the reservation. -/
inductive Change where
  | cancel                       -- reservation lost, log content unchanged
  | add (e : List Nat)           -- a new record is appended
  | delFirst                     -- the oldest record is removed
  deriving Repr, DecidableEq, Inhabited

structure SelDev where
  log : List (List Nat)
  limit : Nat                          -- most bytes served per partial read
  whole : Bool                         -- serves "entire record" (FFh) requests
  cur : Nat                            -- reservation id handed out last
  valid : Bool                         -- … and whether it still stands
  evs : List (Option Change)           -- script of concurrent changes, one slot per request
  deleted : List (List Nat × Nat)      -- deletion record
  deriving Repr, DecidableEq, Inhabited

def entryId (e : List Nat) : Nat := e.getD 0 0 + 256 * e.getD 1 0

def Change.apply : Change → List (List Nat) → List (List Nat)
  | .cancel, l => l
  | .add e, l => l ++ [e]
  | .delFirst, l => l.drop 1

/-- Apply the script slot of the next request. -/
def tick (d : SelDev) : SelDev :=
  match d.evs with
  | [] => d
  | none :: r => { d with evs := r }
  | some c :: r => { d with evs := r, valid := false, log := c.apply d.log }

def nextOf : List (List Nat) → Nat
  | [] => 0xFFFF
  | e :: _ => entryId e

/-- Record with id `rid` and the id of its successor. -/
def findId : List (List Nat) → Nat → Option (List Nat × Nat)
  | [], _ => none
  | e :: rest, rid => if entryId e = rid then some (e, nextOf rest) else findId rest rid

def findLast : List (List Nat) → Option (List Nat × Nat)
  | [] => none
  | [e] => some (e, 0xFFFF)
  | _ :: e :: rest => findLast (e :: rest)

/-- Get SEL Entry addressing: 0000h first, FFFFh last, else by id. -/
def find (log : List (List Nat)) (rid : Nat) : Option (List Nat × Nat) :=
  if rid = 0 then
    match log with
    | [] => none
    | e :: rest => some (e, nextOf rest)
  else if rid = 0xFFFF then findLast log
  else findId log rid

/-- Remove the first record equal to `e`. -/
def remove : List (List Nat) → List Nat → List (List Nat)
  | [], _ => []
  | x :: rest, e => if x = e then rest else x :: remove rest e

def ccCancelled : Nat := 0xC5
def ccCantReturn : Nat := 0xCA
def ccNotPresent : Nat := 0xCB
def ccOutOfRange : Nat := 0xC9
def ccInvalidField : Nat := 0xCC
def ccInvalidLength : Nat := 0xC7
def ccInvalidCmd : Nat := 0xC1

def cmdInfo : Nat := 0x40
def cmdReserve : Nat := 0x42
def cmdGet : Nat := 0x43
def cmdDelete : Nat := 0x46

def holds (d : SelDev) (res : Nat) : Bool := d.valid && res == d.cur

def respondInfo (d : SelDev) (p : List Nat) : SelDev × List Nat :=
  match p with
  | [] => (d, [0, 0x51, d.log.length % 256, d.log.length / 256 % 256, 0xFF, 0xFF,
               0, 0, 0, 0, 0, 0, 0, 0, 0x0A])
  | _ => (d, [ccInvalidLength])

def respondReserve (d : SelDev) (p : List Nat) : SelDev × List Nat :=
  match p with
  | [] =>
    let id := d.cur % 0xFFFF + 1
    ({ d with cur := id, valid := true }, [0, id % 256, id / 256 % 256])
  | _ => (d, [ccInvalidLength])

def respondGet (d : SelDev) (p : List Nat) : SelDev × List Nat :=
  match p with
  | [rlo, rhi, ilo, ihi, off, len] =>
    let res := rlo + 256 * rhi
    let rid := ilo + 256 * ihi
    if (res ≠ 0 ∨ off ≠ 0) ∧ holds d res = false then (d, [ccCancelled])
    else
      match find d.log rid with
      | none => (d, [ccNotPresent])
      | some (e, next) =>
        if len = 0xFF then
          if d.whole then (d, 0 :: next % 256 :: next / 256 % 256 :: e.drop off)
          else (d, [ccCantReturn])
        else if len = 0 then (d, [ccInvalidField])
        else if len > d.limit then (d, [ccCantReturn])
        else if off + len > e.length then (d, [ccOutOfRange])
        else (d, 0 :: next % 256 :: next / 256 % 256 :: (e.drop off).take len)
  | _ => (d, [ccInvalidLength])

def respondDelete (d : SelDev) (p : List Nat) : SelDev × List Nat :=
  match p with
  | [rlo, rhi, ilo, ihi] =>
    let res := rlo + 256 * rhi
    let rid := ilo + 256 * ihi
    if holds d res = false then (d, [ccCancelled])
    else
      match find d.log rid with
      | none => (d, [ccNotPresent])
      | some (e, _) =>
        ({ d with log := remove d.log e, valid := false, deleted := d.deleted ++ [(e, res)] },
         [0, entryId e % 256, entryId e / 256 % 256])
  | _ => (d, [ccInvalidLength])

def dispatch (d : SelDev) (cmd : Nat) (p : List Nat) : SelDev × List Nat :=
  if cmd = cmdInfo then respondInfo d p
  else if cmd = cmdReserve then respondReserve d p
  else if cmd = cmdGet then respondGet d p
  else if cmd = cmdDelete then respondDelete d p
  else (d, [ccInvalidCmd])

/-- One request ↦ new device state and raw response; the script slot is applied first. -/
def respond (d : SelDev) (cmd : Nat) (p : List Nat) : SelDev × List Nat :=
  dispatch (tick d) cmd p

/-- A record the library accepts: 16 bytes, type 02h (system event) or C0h..FFh (OEM), and an
id that is not one of the two reserved values. -/
def entryOk (e : List Nat) : Bool :=
  e.length == 16 && e.all (· < 256) && (e.getD 2 0 == 2 || decide (0xC0 ≤ e.getD 2 0)) &&
    entryId e != 0 && entryId e != 0xFFFF

end PyIpmi.Spec.Sel
