/-
  Spec/Attribution.lean — what "this frame is the reply to that request" means (C04).

  Written from IPMI v1.5 §7.3 / Figure 7-1 (IPMB/LAN message format) and §18.? "Send Message"
  (22.7 in v2.0), not from the Python:

    response:  rqSA | netFn(6)/rqLUN(2) | chk1 | rsSA | rqSeq(6)/rsLUN(2) | cmd | cc data… | chk2

    chk1 makes bytes 0..2 sum to 0 mod 256, chk2 makes bytes 3..end sum to 0 mod 256;
    a response carries the request's netFn + 1 (odd), its command, its sequence number and
    the responder LUN the request addressed.

    Send Message response that carries an embedded response (tracked bridging):
      the same layout with cmd = 34h, completion code 00h and the embedded message as data.
    Without embedded data (hdr, cc, chk2) it is a bare acknowledgement.

  Self-contained on purpose (Spec/Wire.lean of C03 is written by somebody else at the same
  time); core Lean only.
-/
import PyIpmi.Base.Bytes
namespace PyIpmi.Spec.Attribution
open PyIpmi

/-- What identifies an outstanding request. -/
structure ReqId where
  netfn : Nat
  rsLun : Nat
  cmd : Nat
  seq : Nat
  deriving Repr, DecidableEq

/-- Byte `i` of a frame (0 beyond the end; every use is guarded by a length condition). -/
def byte (f : List Nat) (i : Nat) : Nat := f.getD i 0

/-- Command code of Send Message (IPMI v1.5 table 18-?, netFn App). -/
def cmdSendMessage : Nat := 0x34

/-- `f` is an intact response to request `r`.  `checkSeq = false` is the documented opt-out
`rmcp_ignore_rq_seq` (the user asked for sequence numbers not to be compared). -/
def isReplyTo (checkSeq : Bool) (r : ReqId) (f : List Nat) : Prop :=
  6 ≤ f.length ∧
  sum8 (f.take 3) = 0 ∧
  sum8 (f.drop 3) = 0 ∧
  byte f 1 / 4 = r.netfn + 1 ∧
  byte f 5 = r.cmd ∧
  byte f 4 % 4 = r.rsLun ∧
  (checkSeq = true → byte f 4 / 4 = r.seq)

instance (cs : Bool) (r : ReqId) (f : List Nat) : Decidable (isReplyTo cs r f) := by
  unfold isReplyTo; infer_instance

/-- The data a reply carries: everything between the command byte and the second checksum
(completion code first). -/
def replyData (f : List Nat) : List Nat := (f.drop 6).dropLast

/-- The message embedded in a Send Message response with completion code 0. -/
def embedded (f : List Nat) : Option (List Nat) :=
  if 8 ≤ f.length ∧ byte f 5 = cmdSendMessage ∧ byte f 6 = 0 then some ((f.drop 7).dropLast)
  else none

/-- `Carries dg f`: frame `f` was delivered by datagram `dg` — it is `dg` itself or is
embedded in it through any number of successful Send Message responses. -/
inductive Carries : List Nat → List Nat → Prop
  | self (f : List Nat) : Carries f f
  | inner {dg g f : List Nat} : embedded dg = some g → Carries g f → Carries dg f

/-- Executable form of `Carries` for the oracle (fuel = length; an embedded message is at
least 8 bytes shorter, so the fuel never runs out — `carries_iff_mem_layers`). -/
def layersN : Nat → List Nat → List (List Nat)
  | 0, f => [f]
  | n + 1, f =>
    f :: (match embedded f with
          | some g => layersN n g
          | none => [])

def layers (f : List Nat) : List (List Nat) := layersN f.length f

theorem embedded_length {f g : List Nat} (h : embedded f = some g) : g.length + 8 ≤ f.length := by
  unfold embedded at h
  split at h
  · rename_i hc
    injection h with h
    subst h
    simp
    omega
  · cases h

theorem mem_layersN_carries (n : Nat) (f g : List Nat) (h : g ∈ layersN n f) : Carries f g := by
  induction n generalizing f with
  | zero =>
    simp [layersN] at h
    subst h
    exact .self _
  | succ n ih =>
    simp only [layersN, List.mem_cons] at h
    rcases h with h | h
    · subst h; exact .self _
    · cases he : embedded f with
      | none => simp [he] at h
      | some e =>
        simp only [he] at h
        exact .inner he (ih e h)

theorem carries_mem_layersN {f g : List Nat} (h : Carries f g) :
    ∀ n, f.length ≤ n → g ∈ layersN n f := by
  induction h with
  | self f =>
    intro n _
    cases n <;> simp [layersN]
  | inner he _ ih =>
    intro n hn
    have hl := embedded_length he
    cases n with
    | zero => omega
    | succ n =>
      simp only [layersN, he, List.mem_cons]
      exact Or.inr (ih n (by omega))

/-- The executable oracle computes exactly the relation. -/
theorem carries_iff_mem_layers (f g : List Nat) : Carries f g ↔ g ∈ layers f :=
  ⟨fun h => carries_mem_layersN h _ (Nat.le_refl _), mem_layersN_carries _ _ _⟩

/-- A frame that is not a Send Message response carries only itself. -/
theorem carries_plain {f g : List Nat} (hp : byte f 5 ≠ cmdSendMessage) (h : Carries f g) : g = f := by
  cases h with
  | self => rfl
  | inner he _ =>
    unfold embedded at he
    split at he
    · rename_i hc; exact absurd hc.2.1 hp
    · cases he

/-- Oracle: every answer the property allows for request `r`, given what was received. -/
def allowedAnswers (checkSeq : Bool) (r : ReqId) (received : List (List Nat)) : List (List Nat) :=
  (received.flatMap layers).filterMap fun f =>
    if isReplyTo checkSeq r f then some (replyData f) else none

theorem mem_allowedAnswers {cs : Bool} {r : ReqId} {rc : List (List Nat)} {d : List Nat} :
    d ∈ allowedAnswers cs r rc ↔
      ∃ dg ∈ rc, ∃ f, Carries dg f ∧ isReplyTo cs r f ∧ d = replyData f := by
  simp only [allowedAnswers, List.mem_filterMap, List.mem_flatMap]
  constructor
  · rintro ⟨f, ⟨dg, hdg, hf⟩, h⟩
    split at h
    · rename_i hr
      injection h with h
      exact ⟨dg, hdg, f, (carries_iff_mem_layers _ _).2 hf, hr, h.symm⟩
    · cases h
  · rintro ⟨dg, hdg, f, hc, hr, hd⟩
    exact ⟨f, ⟨dg, hdg, (carries_iff_mem_layers _ _).1 hc⟩, by simp [hr, hd]⟩

/-- A received frame that has nothing to do with request `r` and is not bridging traffic:
long enough to have a header, not a Send Message response, not a reply to `r`. -/
def Unrelated (checkSeq : Bool) (r : ReqId) (f : List Nat) : Prop :=
  6 ≤ f.length ∧ byte f 5 ≠ cmdSendMessage ∧ ¬ isReplyTo checkSeq r f

instance (cs : Bool) (r : ReqId) (f : List Nat) : Decidable (Unrelated cs r f) := by
  unfold Unrelated; infer_instance

/-- Bare acknowledgement of a Send Message request: header, completion code 00h, checksum. -/
def BareAck (f : List Nat) : Prop :=
  f.length = 8 ∧ byte f 5 = cmdSendMessage ∧ byte f 6 = 0

instance (f : List Nat) : Decidable (BareAck f) := by unfold BareAck; infer_instance

end PyIpmi.Spec.Attribution
