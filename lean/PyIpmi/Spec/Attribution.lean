/-
  Spec/Attribution.lean — what "this frame is the reply to that request" means (C04).

  Written from IPMI v1.5 §7.3 / Figure 7-1 (IPMB/LAN message format) and §18.? "Send Message"
  (22.7 in v2.0), not from the Python:

    response:  rqSA | netFn(6)/rqLUN(2) | chk1 | rsSA | rqSeq(6)/rsLUN(2) | cmd | cc data… | chk2

    chk1 makes bytes 0..2 sum to 0 mod 256, chk2 makes bytes 3..end sum to 0 mod 256;
    a response carries the request's netFn + 1 (odd), its command, its sequence number and
    the responder LUN the request addressed.

    Send Message response that carries an embedded response (tracked bridging):
      the same layout with netFn App + 1 (07h) AND cmd = 34h (a command is identified by both: other
      network functions use command number 34h too, e.g. PICMG HPM.1 Get Upgrade Status 2Ch/34h),
      both checksums valid, completion code 00h and the embedded message as data.
    Without embedded data (hdr, cc, chk2) it is a bare acknowledgement.  It belongs to the
    transaction whose Send Message REQUEST it answers: same sequence number, LUN 0.
    A frame with a failing checksum is not a message at all (§13.8), whatever its header says.

  Self-contained on purpose (Spec/Wire.lean of C03 is written by somebody else at the same
  time); core Lean only.
-/
import PyIpmi.Base.Bytes
namespace PyIpmi.Spec.Attribution
open PyIpmi

/-- What identifies an outstanding request. -/
structure ReqId where
  netfn : Nat
  rsLun : Nat
  cmd : Nat
  seq : Nat
  deriving Repr, DecidableEq

/-- Byte `i` of a frame (0 beyond the end; every use is guarded by a length condition). -/
def byte (f : List Nat) (i : Nat) : Nat := f.getD i 0

/-- Command code of Send Message (IPMI v1.5 table 18-?, netFn App). -/
def cmdSendMessage : Nat := 0x34

/-- `f` is an intact response to request `r`.  `checkSeq = false` is the documented opt-out
`rmcp_ignore_rq_seq` (the user asked for sequence numbers not to be compared). -/
def isReplyTo (checkSeq : Bool) (r : ReqId) (f : List Nat) : Prop :=
  6 ≤ f.length ∧
  sum8 (f.take 3) = 0 ∧
  sum8 (f.drop 3) = 0 ∧
  byte f 1 / 4 = r.netfn + 1 ∧
  byte f 5 = r.cmd ∧
  byte f 4 % 4 = r.rsLun ∧
  (checkSeq = true → byte f 4 / 4 = r.seq)

instance (cs : Bool) (r : ReqId) (f : List Nat) : Decidable (isReplyTo cs r f) := by
  unfold isReplyTo; infer_instance

/-- The data a reply carries: everything between the command byte and the second checksum
(completion code first). -/
def replyData (f : List Nat) : List Nat := (f.drop 6).dropLast

/-- Network function of Send Message (App; its response carries 07h). -/
def netfnApp : Nat := 6

/-- An intact Send Message response: long enough for header, completion code and checksum, both
checksums verify, netFn App + 1 and command 34h.  (Command 34h alone does not make one: other
network functions use the same number.) -/
def IntactSendMsgRsp (f : List Nat) : Prop :=
  8 ≤ f.length ∧ sum8 (f.take 3) = 0 ∧ sum8 (f.drop 3) = 0 ∧ byte f 1 / 4 = netfnApp + 1 ∧
  byte f 5 = cmdSendMessage

instance (f : List Nat) : Decidable (IntactSendMsgRsp f) := by unfold IntactSendMsgRsp; infer_instance

/-- The message embedded in a Send Message response with completion code 0.  `strict = true`: the
response must be intact (what the property means by a *received reply whose checksums are valid*
when the reply arrives wrapped); `strict = false` is what the transport AS SHIPPED goes by: any frame
whose sixth byte is 34h. -/
def embedded (strict : Bool) (f : List Nat) : Option (List Nat) :=
  if 8 ≤ f.length ∧ byte f 5 = cmdSendMessage ∧ byte f 6 = 0 ∧ (strict = true → IntactSendMsgRsp f)
  then some ((f.drop 7).dropLast)
  else none

/-- `Carries strict dg f`: frame `f` was delivered by datagram `dg` — it is `dg` itself or is
embedded in it through any number of successful (and, if `strict`, intact) Send Message responses. -/
inductive Carries (strict : Bool) : List Nat → List Nat → Prop
  | self (f : List Nat) : Carries strict f f
  | inner {dg g f : List Nat} : embedded strict dg = some g → Carries strict g f → Carries strict dg f

/-- Executable form of `Carries` for the oracle (fuel = length; an embedded message is at
least 8 bytes shorter, so the fuel never runs out — `carries_iff_mem_layers`). -/
def layersN (strict : Bool) : Nat → List Nat → List (List Nat)
  | 0, f => [f]
  | n + 1, f =>
    f :: (match embedded strict f with
          | some g => layersN strict n g
          | none => [])

def layers (strict : Bool) (f : List Nat) : List (List Nat) := layersN strict f.length f

theorem embedded_length {strict : Bool} {f g : List Nat} (h : embedded strict f = some g) :
    g.length + 8 ≤ f.length := by
  unfold embedded at h
  split at h
  · rename_i hc
    injection h with h
    subst h
    simp
    omega
  · cases h

/-- what is embedded in an intact response is embedded in it by the lax reading too -/
theorem embedded_weaken {f g : List Nat} (h : embedded true f = some g) : embedded false f = some g := by
  unfold embedded at h ⊢
  split at h
  · rename_i hc
    rw [if_pos ⟨hc.1, hc.2.1, hc.2.2.1, fun hx => by cases hx⟩]
    exact h
  · cases h

theorem Carries.weaken {a b : List Nat} (h : Carries true a b) : Carries false a b := by
  induction h with
  | self => exact .self _
  | inner he _ ih => exact .inner (embedded_weaken he) ih

theorem mem_layersN_carries (strict : Bool) (n : Nat) (f g : List Nat) (h : g ∈ layersN strict n f) :
    Carries strict f g := by
  induction n generalizing f with
  | zero =>
    simp [layersN] at h
    subst h
    exact .self _
  | succ n ih =>
    simp only [layersN, List.mem_cons] at h
    rcases h with h | h
    · subst h; exact .self _
    · cases he : embedded strict f with
      | none => simp [he] at h
      | some e =>
        simp only [he] at h
        exact .inner he (ih e h)

theorem carries_mem_layersN {strict : Bool} {f g : List Nat} (h : Carries strict f g) :
    ∀ n, f.length ≤ n → g ∈ layersN strict n f := by
  induction h with
  | self f =>
    intro n _
    cases n <;> simp [layersN]
  | inner he _ ih =>
    intro n hn
    have hl := embedded_length he
    cases n with
    | zero => omega
    | succ n =>
      simp only [layersN, he, List.mem_cons]
      exact Or.inr (ih n (by omega))

/-- The executable oracle computes exactly the relation. -/
theorem carries_iff_mem_layers (strict : Bool) (f g : List Nat) : Carries strict f g ↔ g ∈ layers strict f :=
  ⟨fun h => carries_mem_layersN h _ (Nat.le_refl _), mem_layersN_carries _ _ _ _⟩

/-- A frame that is not a Send Message response carries only itself. -/
theorem carries_plain {strict : Bool} {f g : List Nat} (hp : byte f 5 ≠ cmdSendMessage)
    (h : Carries strict f g) : g = f := by
  cases h with
  | self => rfl
  | inner he _ =>
    unfold embedded at he
    split at he
    · rename_i hc; exact absurd hc.2.1 hp
    · cases he

/-- Oracle: every answer the property allows for request `r`, given what was received (replies inside
intact Send Message responses included, replies inside damaged ones not). -/
def allowedAnswers (checkSeq : Bool) (r : ReqId) (received : List (List Nat)) : List (List Nat) :=
  (received.flatMap (layers true)).filterMap fun f =>
    if isReplyTo checkSeq r f then some (replyData f) else none

theorem mem_allowedAnswers {cs : Bool} {r : ReqId} {rc : List (List Nat)} {d : List Nat} :
    d ∈ allowedAnswers cs r rc ↔
      ∃ dg ∈ rc, ∃ f, Carries true dg f ∧ isReplyTo cs r f ∧ d = replyData f := by
  simp only [allowedAnswers, List.mem_filterMap, List.mem_flatMap]
  constructor
  · rintro ⟨f, ⟨dg, hdg, hf⟩, h⟩
    split at h
    · rename_i hr
      injection h with h
      exact ⟨dg, hdg, f, (carries_iff_mem_layers _ _ _).2 hf, hr, h.symm⟩
    · cases h
  · rintro ⟨dg, hdg, f, hc, hr, hd⟩
    exact ⟨f, ⟨dg, hdg, (carries_iff_mem_layers _ _ _).1 hc⟩, by simp [hr, hd]⟩

/-! ### frames that are not the answer

`bridged = some s`: the request in hand is bridged, i.e. it was sent inside a Send Message request
(netFn App, LUN 0, command 34h) that carries sequence number `s`; `none`: it was sent as it is. -/

/-- the identity of the Send Message request a bridged transaction has outstanding -/
def bridgeId (s : Nat) : ReqId := ⟨netfnApp, 0, cmdSendMessage, s⟩

/-- `f` is an intact response to the Send Message request of THIS transaction -/
def OwnSendMsgRsp (checkSeq : Bool) (bridged : Option Nat) (f : List Nat) : Prop :=
  match bridged with
  | none => False
  | some s => isReplyTo checkSeq (bridgeId s) f

instance (cs : Bool) (b : Option Nat) (f : List Nat) : Decidable (OwnSendMsgRsp cs b f) := by
  unfold OwnSendMsgRsp; cases b <;> infer_instance

/-- A received frame that has nothing to do with the transaction in hand: long enough to have a
header, not a reply to request `r`, not a response to this transaction's own Send Message.  Replies
to other commands / sequence numbers / LUNs, corrupted frames, AND Send Message responses of other
(earlier) transactions or with a failing checksum are all of this kind. -/
def Unrelated (checkSeq : Bool) (r : ReqId) (bridged : Option Nat) (f : List Nat) : Prop :=
  6 ≤ f.length ∧ ¬ isReplyTo checkSeq r f ∧ ¬ OwnSendMsgRsp checkSeq bridged f

instance (cs : Bool) (r : ReqId) (b : Option Nat) (f : List Nat) : Decidable (Unrelated cs r b f) := by
  unfold Unrelated; infer_instance

/-- Bare acknowledgement of this transaction's Send Message request: header, completion code 00h,
checksum — and nothing else. -/
def BareAck (checkSeq : Bool) (bridged : Option Nat) (f : List Nat) : Prop :=
  f.length = 8 ∧ byte f 6 = 0 ∧ OwnSendMsgRsp checkSeq bridged f

instance (cs : Bool) (b : Option Nat) (f : List Nat) : Decidable (BareAck cs b f) := by
  unfold BareAck; infer_instance

end PyIpmi.Spec.Attribution
