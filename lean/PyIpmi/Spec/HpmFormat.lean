/-
  Specification of the PICMG HPM.1 upgrade image format (HPM.1 R1.0 §4, "Upgrade Image
  Format"), written from the document – not from pyipmi/hpm.py.  Core Lean only.

  Upgrade image  =  image header  ++  upgrade action record*  ++  MD5 of everything before

  Image header (Table "Upgrade image header"), offsets in bytes:
     0.. 7  signature "PICMGFWU"
     8      format version
     9      device id
    10..12  manufacturer id (IANA), LS byte first
    13..14  product id, LS byte first
    15..18  time, LS byte first
    19      image capabilities
    20      components (bit i set <=> component i is addressed by the image)
    21      self-test time-out      22  rollback time-out      23  inaccessibility time-out
    24..25  earliest compatible revision: major, minor (BCD)
    26..31  firmware revision: major, minor (BCD), 4 auxiliary bytes
    32..33  OEM data length N, LS byte first
    34..    N bytes of OEM data
    34+N    header checksum: all header bytes including this one sum to 0 modulo 256

  Upgrade action record:
     0      action type: 0 backup components, 1 prepare components, 2 upload firmware image
            (pyipmi additionally accepts 3, "upload for compare", as a header-only record;
            the property text asks for "every type", so the generator emits it as such)
     1      components (bit mask)
     2      header checksum (the three header bytes sum to 0 modulo 256)
    only for type 2:
     3.. 8  firmware version: major, minor (BCD), 4 auxiliary bytes
     9..29  firmware description string, 21 bytes
    30..33  firmware length L, LS byte first
    34..    L bytes of firmware image data

  Minor revisions are BCD (0x00..0x99) or 0xFF = "not specified".

  The MD5 function itself is a parameter `digest` (any function producing 16 bytes): nothing
  the property demands depends on which 16 bytes end the image, and the theorems therefore
  hold for the real MD5 in particular.
-/
import PyIpmi.Base.Bytes
namespace PyIpmi.Spec.HpmFormat
open PyIpmi

/-- "PICMGFWU" -/
def signature : List Nat := [0x50, 0x49, 0x43, 0x4D, 0x47, 0x46, 0x57, 0x55]

/-- A firmware revision.  `minor` is the *number* 0..99, or 255 for "not specified".
`aux` is used only by the 6-byte form. -/
structure Version where
  major : Nat
  minor : Nat
  a0 : Nat := 0
  a1 : Nat := 0
  a2 : Nat := 0
  a3 : Nat := 0
  deriving Repr, DecidableEq, Inhabited

def Version.aux (v : Version) : List Nat := [v.a0, v.a1, v.a2, v.a3]

def Version.wf (v : Version) : Prop :=
  v.major < 256 ∧ (v.minor < 100 ∨ v.minor = 255) ∧ v.a0 < 256 ∧ v.a1 < 256 ∧ v.a2 < 256 ∧ v.a3 < 256

/-- BCD byte of a minor revision. -/
def bcd (minor : Nat) : Nat :=
  if minor = 255 then 0xFF else 16 * (minor / 10) + minor % 10

structure Header where
  formatVersion : Nat
  deviceId : Nat
  manufacturerId : Nat
  productId : Nat
  time : Nat
  capabilities : Nat
  componentsMask : Nat
  selftestTimeout : Nat
  rollbackTimeout : Nat
  inaccessibilityTimeout : Nat
  earliest : Version          -- 2-byte form (aux unused)
  firmwareRevision : Version  -- 6-byte form
  oem : List Nat
  deriving Repr, DecidableEq, Inhabited

def Header.wf (h : Header) : Prop :=
  h.formatVersion < 256 ∧ h.deviceId < 256 ∧ h.manufacturerId < 256 ^ 3 ∧ h.productId < 256 ^ 2 ∧
  h.time < 256 ^ 4 ∧ h.capabilities < 256 ∧ h.componentsMask < 256 ∧ h.selftestTimeout < 256 ∧
  h.rollbackTimeout < 256 ∧ h.inaccessibilityTimeout < 256 ∧ h.earliest.wf ∧ h.firmwareRevision.wf ∧
  h.oem.length < 256 ^ 2 ∧ Bytes h.oem

inductive Record where
  /-- header-only record: `kind` 0 (backup), 1 (prepare) or 3 -/
  | simple (kind : Nat) (components : Nat)
  /-- type 2: upload firmware image -/
  | upload (components : Nat) (version : Version) (description : List Nat) (firmware : List Nat)
  deriving Repr, DecidableEq, Inhabited

def Record.wf : Record → Prop
  | .simple k c => (k = 0 ∨ k = 1 ∨ k = 3) ∧ c < 256
  | .upload c v d fw => c < 256 ∧ v.wf ∧ d.length = 21 ∧ Bytes d ∧ fw.length < 256 ^ 4 ∧ Bytes fw

structure Image where
  header : Header
  records : List Record
  deriving Repr, DecidableEq, Inhabited

def Image.wf (img : Image) : Prop := img.header.wf ∧ ∀ r ∈ img.records, r.wf

/-- The byte that makes `l ++ [zeroSum l]` sum to 0 modulo 256. -/
def zeroSum (l : List Nat) : Nat := (256 - l.sum % 256) % 256

def headerBody (h : Header) : List Nat :=
  signature ++ [h.formatVersion, h.deviceId] ++ leBytes 3 h.manufacturerId ++ leBytes 2 h.productId ++
  leBytes 4 h.time ++
  [h.capabilities, h.componentsMask, h.selftestTimeout, h.rollbackTimeout, h.inaccessibilityTimeout] ++
  [h.earliest.major, bcd h.earliest.minor] ++
  [h.firmwareRevision.major, bcd h.firmwareRevision.minor] ++ h.firmwareRevision.aux ++
  leBytes 2 h.oem.length ++ h.oem

def encodeHeader (h : Header) : List Nat := headerBody h ++ [zeroSum (headerBody h)]

def encodeRecord : Record → List Nat
  | .simple k c => [k, c, zeroSum [k, c]]
  | .upload c v d fw =>
    [2, c, zeroSum [2, c]] ++ [v.major, bcd v.minor] ++ v.aux ++ d ++ leBytes 4 fw.length ++ fw

def encodeRecords (rs : List Record) : List Nat := (rs.map encodeRecord).flatten

/-- Everything the MD5 covers. -/
def imageBody (img : Image) : List Nat := encodeHeader img.header ++ encodeRecords img.records

/-- The image file. -/
def encodeImage (digest : List Nat → List Nat) (img : Image) : List Nat :=
  imageBody img ++ digest (imageBody img)

/-! ### What a faithful parser must report (the "view") -/

structure VersionView where
  major : Nat
  minor : Nat
  aux : Option (List Nat)
  deriving Repr, DecidableEq, Inhabited

def Version.view2 (v : Version) : VersionView := ⟨v.major, v.minor, none⟩
def Version.view6 (v : Version) : VersionView := ⟨v.major, v.minor, some v.aux⟩

/-- component numbers named by a mask: bit `i` set, `i` in 0..7, ascending -/
def componentsOf (mask : Nat) : List Nat := (List.range 8).filter (fun i => mask / 2 ^ i % 2 = 1)

structure HeaderView where
  signature : List Nat
  formatVersion : Nat
  deviceId : Nat
  manufacturerId : Nat
  productId : Nat
  time : Nat
  capabilities : Nat
  components : List Nat
  selftestTimeout : Nat
  rollbackTimeout : Nat
  inaccessibilityTimeout : Nat
  earliest : VersionView
  firmwareRevision : VersionView
  oemLength : Nat
  oem : List Nat
  /-- the parse result HAS an OEM data field.  The OEM data is a header field for every declared
  length 0..65535 (for length 0 it is the empty byte string): a faithful parser reports it always. -/
  oemPresent : Bool := true
  checksum : Nat
  length : Nat
  deriving Repr, DecidableEq, Inhabited

structure UploadView where
  version : VersionView
  description : List Nat      -- the 21 characters (code points)
  firmwareLength : Nat        -- declared length
  firmware : List Nat         -- exactly the firmware bytes of the record
  deriving Repr, DecidableEq, Inhabited

structure ActionView where
  actionType : Nat
  components : Nat
  checksum : Nat
  length : Nat                -- bytes the record occupies in the image
  upload : Option UploadView
  deriving Repr, DecidableEq, Inhabited

structure ImageView where
  header : HeaderView
  actions : List ActionView
  trailer : List Nat          -- the 16 bytes following the last record
  expected : List Nat         -- the last 16 bytes of the file
  deriving Repr, DecidableEq, Inhabited

def Header.view (h : Header) : HeaderView :=
  { signature := signature, formatVersion := h.formatVersion, deviceId := h.deviceId,
    manufacturerId := h.manufacturerId, productId := h.productId, time := h.time,
    capabilities := h.capabilities, components := componentsOf h.componentsMask,
    selftestTimeout := h.selftestTimeout, rollbackTimeout := h.rollbackTimeout,
    inaccessibilityTimeout := h.inaccessibilityTimeout,
    earliest := h.earliest.view2, firmwareRevision := h.firmwareRevision.view6,
    oemLength := h.oem.length, oem := h.oem, oemPresent := true, checksum := zeroSum (headerBody h),
    length := 34 + h.oem.length + 1 }

def Record.view : Record → ActionView
  | .simple k c => ⟨k, c, zeroSum [k, c], 3, none⟩
  | .upload c v d fw => ⟨2, c, zeroSum [2, c], 34 + fw.length, some ⟨v.view6, d, fw.length, fw⟩⟩

def Image.view (digest : List Nat → List Nat) (img : Image) : ImageView :=
  { header := img.header.view, actions := img.records.map Record.view,
    trailer := digest (imageBody img), expected := digest (imageBody img) }

/-- The two checksums of the format really are zero-sums (sanity of this specification). -/
theorem zeroSum_spec (l : List Nat) : (l ++ [zeroSum l]).sum % 256 = 0 := by
  simp [zeroSum, List.sum_append]
  omega

end PyIpmi.Spec.HpmFormat
