/-
  Specification of the sensor reading conversion (C17), written from IPMI v2.0 §36.3
  "Sensor Reading Conversion Formula" and table 43-1 (bytes 21, 24–30), not from the Python.

      y = L[(M·x + (B · 10^K1)) · 10^K2]

  x  the raw reading byte, read according to the analog data format (units 1 [7:6]):
     00b unsigned, 01b 1's complement (signed), 10b 2's complement (signed), 11b no analog reading;
  M, B  signed 10-bit factors, K1 = B exponent, K2 = R (result) exponent, signed 4-bit;
  L  the linearisation function selected by byte 24 [6:0].

  Everything is exact arithmetic over core `Rat`.  The transcendental functions are
  parameters (`Fns`): nothing is claimed about them except which one is applied — and, for the
  cube root (0Bh, `cube⁻¹(x)`), that it is the REAL cube root: unlike ln / log / sqrt it has a
  value for every real argument, negative ones included (∛(−8) = −2), and it is odd
  (`Fns.RealCubeRoot`).  A reader that reports a domain error for a negative argument of the
  cube root does not compute `L[…]`.
  Core only.
-/
import PyIpmi.Base.Outcome
namespace PyIpmi.Spec.Sensor
open PyIpmi

/-- Analog (numeric) data format, units 1 bits [7:6]. -/
inductive Fmt where
  | unsigned | ones | twos | noAnalog
  deriving DecidableEq, Repr, Inhabited

def Fmt.ofCode : Nat → Fmt
  | 0 => .unsigned
  | 1 => .ones
  | 2 => .twos
  | _ => .noAnalog

/-- A reading byte `r < 256` as a number.  1's complement: `r ≥ 128` stands for `-(255 - r)`
(so 255 is negative zero); 2's complement: `r ≥ 128` stands for `r - 256`. -/
def signed : Fmt → Nat → Int
  | .ones, r => if r < 128 then (r : Int) else (r : Int) - 255
  | .twos, r => if r < 128 then (r : Int) else (r : Int) - 256
  | _, r => (r : Int)

/-- `10^k` for an integer exponent. -/
def pow10 (k : Int) : Rat :=
  if 0 ≤ k then (10 : Rat) ^ k.toNat else 1 / (10 : Rat) ^ (-k).toNat

/-- Conversion factors of a full sensor record. -/
structure Factors where
  m : Int
  b : Int
  k1 : Int   -- B exponent
  k2 : Int   -- R (result) exponent
  deriving Repr, DecidableEq, Inhabited

/-- `(M·x + B·10^K1)·10^K2`. -/
def affine (f : Factors) (x : Rat) : Rat :=
  (f.m * x + f.b * pow10 f.k1) * pow10 f.k2

/-- Linearisation functions, table 43-1 byte 24. -/
inductive Lin where
  | linear | ln | log10 | log2 | exp | exp10 | exp2 | inv | sqr | cube | sqrt | cubert
  deriving DecidableEq, Repr, Inhabited

/-- Table 43-1 byte 24 [6:0]: 0 linear, 1 ln, 2 log10, 3 log2, 4 e, 5 exp10, 6 exp2, 7 1/x,
8 sqr(x), 9 cube(x), 10 sqrt(x), 11 cube⁻¹(x); 70h–7Fh non-linear OEM, the rest reserved. -/
def linOfCode : Nat → Option Lin
  | 0 => some .linear
  | 1 => some .ln
  | 2 => some .log10
  | 3 => some .log2
  | 4 => some .exp
  | 5 => some .exp10
  | 6 => some .exp2
  | 7 => some .inv
  | 8 => some .sqr
  | 9 => some .cube
  | 10 => some .sqrt
  | 11 => some .cubert
  | _ => none

/-- Number of a linearisation function (used only to print / compare tables). -/
def Lin.code : Lin → Nat
  | .linear => 0 | .ln => 1 | .log10 => 2 | .log2 => 3 | .exp => 4 | .exp10 => 5 | .exp2 => 6
  | .inv => 7 | .sqr => 8 | .cube => 9 | .sqrt => 10 | .cubert => 11

/-- The transcendental functions: parameters of the specification.  Each may fail where the
mathematical function has no real value (ln / log10 / log2 of x ≤ 0, sqrt of x < 0) or where the
host's number type cannot hold the result (overflow of e^x, 10^x, 2^x).  `cubert` is the real
cube root, see `Fns.RealCubeRoot`. -/
structure Fns where
  ln : Rat → Outcome Rat
  log10 : Rat → Outcome Rat
  log2 : Rat → Outcome Rat
  exp : Rat → Outcome Rat
  exp10 : Rat → Outcome Rat
  exp2 : Rat → Outcome Rat
  sqrt : Rat → Outcome Rat
  cubert : Rat → Outcome Rat

/-- Sign change of a result (an error stays that error). -/
def negO : Outcome Rat → Outcome Rat
  | .ok y => .ok (-y)
  | e => e

/-- What the specification says about `cube⁻¹(x)` beyond its name: the cube root of table 43-1
is the real cube root, so it is
* `defined` for every argument — in particular a negative argument is not a domain error —, and
* `odd`: ∛(−x) = −∛x (which fixes its values on the negative reals from those on the positive). -/
structure Fns.RealCubeRoot (F : Fns) : Prop where
  defined : ∀ x : Rat, ∃ y, F.cubert x = .ok y
  odd : ∀ x : Rat, F.cubert (-x) = negO (F.cubert x)

/-- `L[x]`.  The algebraic functions are exact; `1/x` is undefined at 0 (reported as the
host's division error). -/
def applyLin (F : Fns) : Lin → Rat → Outcome Rat
  | .linear, x => .ok x
  | .ln, x => F.ln x
  | .log10, x => F.log10 x
  | .log2, x => F.log2 x
  | .exp, x => F.exp x
  | .exp10, x => F.exp10 x
  | .exp2, x => F.exp2 x
  | .inv, x => if x = 0 then .pyError "ZeroDivisionError" else .ok (1 / x)
  | .sqr, x => .ok (x * x)
  | .cube, x => .ok (x * x * x)
  | .sqrt, x => F.sqrt x
  | .cubert, x => F.cubert x

/-- Reading conversion: an absent reading converts to an absent value; a linearisation code
outside the table is a decoding error. -/
def convert (F : Fns) (fmtCode linCode : Nat) (f : Factors) : Option Nat → Option (Outcome Rat)
  | none => none
  | some raw =>
    some (match linOfCode (linCode % 128) with
      | none => .decodingError
      | some l => applyLin F l (affine f (signed (Fmt.ofCode fmtCode) raw)))

end PyIpmi.Spec.Sensor
