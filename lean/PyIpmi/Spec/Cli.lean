/-
  C20 — specification side, written from the IPMI specification and the tool's documented
  interface, not from the Python.

  * Chassis Control (IPMI v2.0 §28.3, table 28-4): request = NetFn Chassis (00h), command 02h,
    data byte 1 bits [3:0] = 0 power down, 1 power up, 2 power cycle, 3 hard reset,
    4 pulse diagnostic interrupt, 5 initiate soft shutdown via overtemperature.
  * The sub-command words are the ones the tool documents:
    `chassis power <on|off|cycle|reset|diag|soft>`.
  * `raw` prints the reply as two lower-case hex digits per byte, separated by one blank;
    `parseHex` is the reader of that format (what a user / script does with the output).
  * last-wins option semantics (`lastWins`).

  Core Lean only.
-/
namespace PyIpmi.Spec.Cli

abbrev Str := List Nat

inductive ChassisAction where
  | powerDown | powerUp | powerCycle | hardReset | diagnosticInterrupt | softShutdown
  deriving Repr, DecidableEq

/-- table 28-4, byte 1 [3:0] -/
def ChassisAction.code : ChassisAction → Nat
  | .powerDown => 0
  | .powerUp => 1
  | .powerCycle => 2
  | .hardReset => 3
  | .diagnosticInterrupt => 4
  | .softShutdown => 5

def allActions : List ChassisAction :=
  [.powerDown, .powerUp, .powerCycle, .hardReset, .diagnosticInterrupt, .softShutdown]

/-- `chassis power <word>` ↦ action -/
def chassisPower : List (String × ChassisAction) := [
  ("off", .powerDown), ("on", .powerUp), ("cycle", .powerCycle),
  ("reset", .hardReset), ("diag", .diagnosticInterrupt), ("soft", .softShutdown)]

def netfnChassis : Nat := 0
def cmdChassisControl : Nat := 2

/-- the request a conforming tool sends for an action: (netfn, [cmd, data…]) -/
def chassisControlRequest (a : ChassisAction) : Nat × List Nat := (netfnChassis, [cmdChassisControl, a.code])

/-! ### hex output of `raw` -/

def hexChar (n : Nat) : Nat := if n < 10 then 48 + n else 87 + n     -- '0'..'9', 'a'..'f'

def hexVal (c : Nat) : Option Nat :=
  if 48 ≤ c ∧ c ≤ 57 then some (c - 48)
  else if 97 ≤ c ∧ c ≤ 102 then some (c - 87)
  else none

/-- bytes ↦ "c1 00 ff" -/
def printHex : List Nat → Str
  | [] => []
  | [b] => [hexChar (b / 16), hexChar (b % 16)]
  | b :: c :: rest => hexChar (b / 16) :: hexChar (b % 16) :: 32 :: printHex (c :: rest)

/-- reader of that format: two hex digits per byte, exactly one blank between bytes -/
def parseHex : Str → Option (List Nat)
  | [] => some []
  | [a, b] =>
    match hexVal a, hexVal b with
    | some x, some y => some [16 * x + y]
    | _, _ => none
  | a :: b :: 32 :: c :: rest =>
    match hexVal a, hexVal b, parseHex (c :: rest) with
    | some x, some y, some l => some ((16 * x + y) :: l)
    | _, _, _ => none
  | _ => none

/-! ### options: the last occurrence of an option wins, untouched variables keep their default -/

/-- value of variable `x` after the settings `sets` (pairs (variable, value), in command-line
order): the value of the LAST setting of `x`, the default if there is none -/
def lastWins {β} (dflt : Nat → β) (sets : List (Nat × β)) (x : Nat) : β :=
  match sets.reverse.find? (fun s => s.1 == x) with
  | some s => s.2
  | none => dflt x

end PyIpmi.Spec.Cli
