/-
  C20 — specification side, written from the IPMI specification and the tool's documented
  interface, not from the Python.

  * Chassis Control (IPMI v2.0 §28.3, table 28-4): request = NetFn Chassis (00h), command 02h,
    data byte 1 bits [3:0] = 0 power down, 1 power up, 2 power cycle, 3 hard reset,
    4 pulse diagnostic interrupt, 5 initiate soft shutdown via overtemperature.
  * The sub-command words are the ones the tool documents:
    `chassis power <on|off|cycle|reset|diag|soft>`.
  * `raw` prints the reply as two lower-case hex digits per byte, separated by one blank;
    `parseHex` is the reader of that format (what a user / script does with the output).
  * last-wins option semantics (`lastWins`).
  * What a conforming BMC may answer to the commands the printing handlers issue:
    Get Port State (PICMG 3.0 §3.7.2.4, table 3-59) returns Link Info / State bytes only for a channel that
    carries a link; the SDR repository holds records of every type of IPMI v2.0 ch. 43, only some of which
    have an entity and an ID string; a full sensor record names one of twelve linearisation functions
    (table 43-1 byte 24), not all of which are defined for every raw reading or threshold byte - or it is
    non-linear (70h, 71h..7Fh OEM): then there is no function at all (`LinClass`, `linConforming`, `hasValue`).
  * A sensor is named by (owner, owner LUN, number) - table 43-1 / 43-2 bytes 6-8; Get Sensor Reading reaches it
    on its LUN (`SensorKey`, `readSensorOf`), and the API twin of the printing commands (`apiTwin`).

  Core Lean only.
-/
namespace PyIpmi.Spec.Cli

abbrev Str := List Nat

inductive ChassisAction where
  | powerDown | powerUp | powerCycle | hardReset | diagnosticInterrupt | softShutdown
  deriving Repr, DecidableEq

/-- table 28-4, byte 1 [3:0] -/
def ChassisAction.code : ChassisAction → Nat
  | .powerDown => 0
  | .powerUp => 1
  | .powerCycle => 2
  | .hardReset => 3
  | .diagnosticInterrupt => 4
  | .softShutdown => 5

def allActions : List ChassisAction :=
  [.powerDown, .powerUp, .powerCycle, .hardReset, .diagnosticInterrupt, .softShutdown]

/-- `chassis power <word>` ↦ action -/
def chassisPower : List (String × ChassisAction) := [
  ("off", .powerDown), ("on", .powerUp), ("cycle", .powerCycle),
  ("reset", .hardReset), ("diag", .diagnosticInterrupt), ("soft", .softShutdown)]

def netfnChassis : Nat := 0
def cmdChassisControl : Nat := 2

/-- the request a conforming tool sends for an action: (netfn, [cmd, data…]) -/
def chassisControlRequest (a : ChassisAction) : Nat × List Nat := (netfnChassis, [cmdChassisControl, a.code])

/-! ### hex output of `raw` -/

def hexChar (n : Nat) : Nat := if n < 10 then 48 + n else 87 + n     -- '0'..'9', 'a'..'f'

def hexVal (c : Nat) : Option Nat :=
  if 48 ≤ c ∧ c ≤ 57 then some (c - 48)
  else if 97 ≤ c ∧ c ≤ 102 then some (c - 87)
  else none

/-- bytes ↦ "c1 00 ff" -/
def printHex : List Nat → Str
  | [] => []
  | [b] => [hexChar (b / 16), hexChar (b % 16)]
  | b :: c :: rest => hexChar (b / 16) :: hexChar (b % 16) :: 32 :: printHex (c :: rest)

/-- reader of that format: two hex digits per byte, exactly one blank between bytes -/
def parseHex : Str → Option (List Nat)
  | [] => some []
  | [a, b] =>
    match hexVal a, hexVal b with
    | some x, some y => some [16 * x + y]
    | _, _ => none
  | a :: b :: 32 :: c :: rest =>
    match hexVal a, hexVal b, parseHex (c :: rest) with
    | some x, some y, some l => some ((16 * x + y) :: l)
    | _, _, _ => none
  | _ => none

/-! ### options: the last occurrence of an option wins, untouched variables keep their default -/

/-- value of variable `x` after the settings `sets` (pairs (variable, value), in command-line
order): the value of the LAST setting of `x`, the default if there is none -/
def lastWins {β} (dflt : Nat → β) (sets : List (Nat × β)) (x : Nat) : β :=
  match sets.reverse.find? (fun s => s.1 == x) with
  | some s => s.2
  | none => dflt x

/-! ### replies of a conforming BMC that the printing handlers must cope with -/

/-- Get Port State for a channel that exists: with or without a link on it -/
inductive PortState where
  | noLink
  | link
  deriving Repr, DecidableEq

def PortState.all : List PortState := [.noLink, .link]
def PortState.hasLink : PortState → Bool
  | .noLink => false
  | .link => true

/-- Get Sensor Reading (IPMI v2.0 table 35-15), byte 3 bit 5: 1 = reading/state unavailable (e.g. during the
sensor's initial update, or after a re-arm until the next scan); reading and state bytes are then not valid -/
inductive SensorReading where
  | available
  | unavailable
  deriving Repr, DecidableEq

def SensorReading.all : List SensorReading := [.available, .unavailable]
def SensorReading.isAvailable : SensorReading → Bool
  | .available => true
  | .unavailable => false

/-- IPMI v2.0 ch. 43: record type ↦ (record has an ID string, record has an entity id / instance).
01h full, 02h compact, 03h event-only sensor; 08h entity association, 09h device-relative entity association
(container / contained entities, no ID string); 10h generic, 11h FRU, 12h management controller device
locator; 13h management controller confirmation; 14h BMC message channel info; C0h OEM. -/
def sdrRecordTypes : List (Nat × Bool × Bool) := [
  (0x01, true, true), (0x02, true, true), (0x03, true, true),
  (0x08, false, false), (0x09, false, false),
  (0x10, true, true), (0x11, true, true), (0x12, true, true),
  (0x13, false, false), (0x14, false, false), (0xC0, false, false)]

/-! ### which sensor a record names, and the API twin of the printing commands -/

/-- IPMI v2.0 table 43-1 (full) / 43-2 (compact sensor record), record key bytes 6-8: sensor owner id, sensor
owner LUN (byte 7 bits [1:0]) and sensor number.  Together they name the sensor: one management controller may
implement up to 255 sensors on EACH of its LUNs, so the same number on another LUN is another sensor. -/
structure SensorKey where
  ownerLun : Nat
  number : Nat
  deriving Repr, DecidableEq

/-- Get Sensor Reading (§35.14, table 35-15): NetFn Sensor/Event 04h, command 2Dh, data byte 1 = sensor number;
the sensor's LUN is the responder LUN of the request.  As seen at the interface: (LUN, NetFn, command + data). -/
def getSensorReading (lun number : Nat) : Nat × Nat × List Nat := (lun, 0x04, [0x2d, number])

/-- the request that reads the sensor a record describes -/
def readSensorOf (k : SensorKey) : Nat × Nat × List Nat := getSensorReading k.ownerLun k.number

/-- how the API call that corresponds to a printing command names the LUN -/
inductive TwinLun where
  | ownerLun       -- `get_sensor_reading(number, owner_lun)`
  | lun0           -- `get_sensor_reading(number)`: the API's default, LUN 0
  deriving Repr, DecidableEq

/-- The API twin of the commands that print a sensor (command, record type ↦ LUN of the Get Sensor Reading):
`sdr show <id>` / `sdr showall` of a full sensor record correspond to `get_device_sdr(id)` +
`get_sensor_reading(number, owner_lun)`; `sdr list` (both record types) and the compact branch of `sdr show` /
`sdr showall` to `get_sensor_reading(number)` - the tool as shipped reads LUN 0 there whatever the record says,
which was judged an observation (DESIGN §9.7), so the twin does the same. -/
def apiTwin : List (String × Nat × TwinLun) := [
  ("sdr list", 0x01, .lun0), ("sdr list", 0x02, .lun0),
  ("sdr show", 0x01, .ownerLun), ("sdr show", 0x02, .lun0),
  ("sdr showall", 0x01, .ownerLun), ("sdr showall", 0x02, .lun0)]

def TwinLun.of : TwinLun → SensorKey → Nat
  | .ownerLun, k => k.ownerLun
  | .lun0, _ => 0

/-- the Get Sensor Reading of the API twin for a record with key `k` -/
def twinRequest (l : TwinLun) (k : SensorKey) : Nat × Nat × List Nat := getSensorReading (l.of k) k.number

/-- table 43-1, byte 24 [6:0]: linearisation -/
inductive Lin where
  | linear | ln | log10 | log2 | e | exp10 | exp2 | reciprocal | sqr | cube | sqrt | cubeRoot
  deriving Repr, DecidableEq

def Lin.all : List Lin := [.linear, .ln, .log10, .log2, .e, .exp10, .exp2, .reciprocal, .sqr, .cube, .sqrt, .cubeRoot]

def Lin.code : Lin → Nat
  | .linear => 0 | .ln => 1 | .log10 => 2 | .log2 => 3 | .e => 4 | .exp10 => 5 | .exp2 => 6
  | .reciprocal => 7 | .sqr => 8 | .cube => 9 | .sqrt => 10 | .cubeRoot => 11

/-- sign of x = (M·raw + B·10^K1)·10^K2 -/
inductive Sign where
  | neg | zero | pos
  deriving Repr, DecidableEq

def Sign.all : List Sign := [.neg, .zero, .pos]

/-- is the (real) function defined at an x of this sign?  Where it is not, the reading has no value
("na"), which is not an error of the BMC: raw 0 is an ordinary reading and the content of every threshold
byte the sensor does not support. -/
def Lin.defined : Lin → Sign → Bool
  | .ln, s | .log10, s | .log2, s => s == .pos
  | .reciprocal, s => s != .zero
  | .sqrt, s => s != .neg
  | _, _ => true

/-- table 43-1, byte 24 [6:0], ALL 128 values: 00h..0Bh name one of the twelve formulas; 70h = non-linear;
71h..7Fh = non-linear, OEM defined; 0Ch..6Fh are reserved.  ("Linearization: [7] reserved, [6:0] enum
(linear, ln, log10, log2, e, exp10, exp2, 1/x, sqr(x), cube(x), sqrt(x), cube-1(x)); 70h = non-linear,
71h-7Fh = non-linear, OEM defined.") -/
inductive LinClass where
  | formula (l : Lin)
  | nonLinear
  | oemNonLinear
  | reserved
  deriving Repr, DecidableEq

def linClass (code : Nat) : LinClass :=
  match Lin.all.find? (fun l => l.code == code) with
  | some l => .formula l
  | none => if code == 0x70 then .nonLinear else if 0x71 ≤ code ∧ code ≤ 0x7f then .oemNonLinear else .reserved

/-- the linearisation codes a CONFORMING controller may put into a full sensor record -/
def linConforming (code : Nat) : Bool :=
  match linClass code with
  | .reserved => false
  | _ => true

/-- Does a tool that knows the record only (M, B, exponents, byte 24) have a value for x of this sign?  For a
formula: where the function is defined.  For a non-linear sensor (70h..7Fh) never: there is no formula - the
factors hold for one reading only and have to be fetched with Get Sensor Reading Factors (§35.5) - so such a
tool has "na" to print, for every reading and threshold.  That is a property of the sensor, not an error of the
BMC: the listing goes on with the next record. -/
def hasValue (code : Nat) (s : Sign) : Bool :=
  match linClass code with
  | .formula l => l.defined s
  | _ => false

/-! ## options `-b <channel>` and the aardvark interface options (the tool's documented interface)

`-t <addr>` "Set target address", `-b <channel>` "Set target channel": the request must reach the controller with
slave address `addr` BEHIND the BMC, over the BMC's channel `channel`.  Over a LAN / system interface that is one
Send Message (IPMI v2.0 §22.7: NetFn App 06h, command 34h, data byte 1 [3:0] = channel number, [7:6] = tracking;
§6.13 / figure 6-?: the rest of the data is the encapsulated IPMB request, whose first byte is the responder's
slave address) to the BMC. -/

/-- where a request must arrive: the BMC itself (`channel = none`) or the controller `addr` behind channel `ch` -/
structure Destination where
  addr : Int
  channel : Option Int
  deriving Repr, DecidableEq

/-- what `-t T` (default 20h) and `-b B` (optional) ask for, no explicit `-r` -/
def destinationOf (t : Int) (b : Option Int) : Destination := ⟨t, b⟩

/-- a path "console → … → target" as a list of hops (requester, responder, channel to bridge on; `none` = last hop):
the destination it reaches is the responder of the LAST hop over the channel of the hop BEFORE it -/
def reaches : List (Int × Int × Option Int) → Option Destination
  | [] => none
  | [(_, rs, _)] => some ⟨rs, none⟩
  | [(_, _, ch), (_, rs, _)] => some ⟨rs, ch⟩
  | _ :: rest => reaches rest

/-- Send Message request data for channel `ch` with tracking (01b) around an encapsulated request -/
def sendMessageData (ch : Nat) (inner : List Nat) : List Nat := (0x40 ||| (ch % 16)) :: inner

/-- aardvark interface options: `pullups=<on|off>` "Enable/disable pullups", `power=<on|off>` "Enable/disable target
power", `fastmode=<on|off>`: every option GIVEN is written to the adapter with its value; an option not given is
not written (fast mode: the bit rate, 400 kHz on / 100 kHz off). -/
inductive AdapterSetting where
  | pullups (on : Bool)
  | power (on : Bool)
  | bitrate (khz : Nat)
  deriving Repr, DecidableEq

def adapterSettings (pullups power fastmode : Option Bool) : List AdapterSetting :=
  (match pullups with | some v => [.pullups v] | none => []) ++
  (match power with | some v => [.power v] | none => []) ++
  (match fastmode with | some v => [.bitrate (if v then 400 else 100)] | none => [])

end PyIpmi.Spec.Cli
