/-
  Specification of the IPMI-over-LAN datagram (C05 oracle), written from the documents, not
  from the Python:

  * RMCP header (ASF 2.0 §3.2.2.2 / IPMI v1.5 Table 12-8... "RMCP/IPMI LAN packet"):
      byte 0  version            06h = RMCP 1.0
      byte 1  reserved           00h
      byte 2  sequence number    FFh = no RMCP ACK wanted (IPMI always uses FFh)
      byte 3  class of message   bit 7 ACK, bits 3:0 06h = ASF, 07h = IPMI
  * IPMI session header (IPMI v1.5 Table 6-6 / Table 12-8):
      auth type (1) | session sequence number (4, LS byte first) | session id (4, LS byte first)
      | [authentication code (16) — present iff auth type ≠ none] | payload length (1) | payload
  * AuthCode (IPMI v1.5 §18.15.1 / Table 22-22 in v2.0):
      straight password: the password/key, zero padded to 16 bytes
      MD5: MD5( password(16) ‖ session id(4) ‖ IPMI message data ‖ session seq#(4) ‖ password(16) ),
      id and sequence number in the byte order they have in the header
  * ASF (ASF 2.0 §3.2.4):  IANA enterprise number (4, MS byte first, 4542) | message type
      (80h presence ping, 40h presence pong) | message tag | reserved 00h | data length | data;
      pong data: IANA (4) | OEM defined (4) | supported entities (1) | supported interactions
      (1) | reserved (6)  — 16 bytes.
  * Presence Pong (ASF 2.0 §3.2.4.3, IPMI v2.0 §13.2.4 table 13-6), field by field:
      message tag            copied from the ping it answers
      data length            10h
      IANA enterprise number 4542 when there are no OEM capabilities, then OEM-defined is 00000000h;
                             otherwise the OEM's number and OEM-defined is the OEM's business
      supported entities     bit 7 IPMI supported, bits 6:4 reserved, bits 3:0 ASF version (0001b = 1.0);
                             a BMC says 81h
      supported interactions bit 7 RMCP security extensions supported (ASF 2.0), bit 5 DASH supported
                             (DMTF DSP0232), other bits reserved - a CAPABILITY bit field, reserved (00h)
                             in ASF 1.0 only
      reserved               six bytes 00h
    `Pong`, `Pong.WellFormed`, `pongDatagram`, `parsePong` below.

  Core only.
-/
import PyIpmi.Base.Bytes
namespace PyIpmi.Spec.Lan
open PyIpmi

/-- what a LAN datagram of class IPMI says -/
structure LanPacket where
  ver : Nat
  rsvd : Nat
  rmcpSeq : Nat
  cls : Nat
  auth : Nat
  seq : Nat
  sid : Nat
  code : Option (List Nat)
  len : Nat
  payload : List Nat
  deriving Repr, DecidableEq

/-- value of four bytes, least significant first -/
def u32le (b0 b1 b2 b3 : Nat) : Nat := b0 + 256 * b1 + 65536 * b2 + 16777216 * b3

/-- split the rest of the session header (after id) into code, length byte and payload -/
def parseTail (auth : Nat) (r : List Nat) : Option (Option (List Nat) × Nat × List Nat) :=
  if auth = 0 then
    match r with
    | len :: payload => some (none, len, payload)
    | [] => none
  else if r.length < 17 then none
  else some (some (r.take 16), r.getD 16 0, r.drop 17)

/-- Parse a datagram as RMCP header + IPMI session header.  Purely structural: `none` only
when the datagram is too short to contain the fields. -/
def parseLan : List Nat → Option LanPacket
  | ver :: rsvd :: rseq :: cls :: auth :: s0 :: s1 :: s2 :: s3 :: i0 :: i1 :: i2 :: i3 :: r =>
    match parseTail auth r with
    | some (code, len, payload) =>
      some { ver := ver, rsvd := rsvd, rmcpSeq := rseq, cls := cls, auth := auth,
             seq := u32le s0 s1 s2 s3, sid := u32le i0 i1 i2 i3,
             code := code, len := len, payload := payload }
    | none => none
  | _ => none

def authNone : Nat := 0
def authMd2 : Nat := 1
def authMd5 : Nat := 2
def authPassword : Nat := 4
def authOem : Nat := 5

/-- password / key zero-padded to 16 bytes -/
def pad16 (pw : List Nat) : List Nat := pw ++ List.replicate (16 - pw.length) 0

/-- the bytes MD5 authentication hashes -/
def md5Preimage (pw : List Nat) (sid seq : Nat) (payload : List Nat) : List Nat :=
  pad16 pw ++ leBytes 4 sid ++ payload ++ leBytes 4 seq ++ pad16 pw

/-- the authentication code a datagram must carry; `none` = type not defined here (MD2, OEM) -/
def expectedCode (md5 : List Nat → List Nat) (auth : Nat) (pw : List Nat) (sid seq : Nat)
    (payload : List Nat) : Option (Option (List Nat)) :=
  if auth = authNone then some none
  else if auth = authPassword then some (some (pad16 pw))
  else if auth = authMd5 then some (some (md5 (md5Preimage pw sid seq payload)))
  else none

/-- session sequence number after one more datagram: +1, wrapping from FFFFFFFFh to 1 (0 is
reserved for packets outside a session) -/
def nextSeq (s : Nat) : Nat := if s = 0xffffffff then 1 else s + 1

/-- The packet a conforming sender emits for this authentication type, sequence number,
session id, password and payload. -/
def expectedPacket (md5 : List Nat → List Nat) (auth : Nat) (pw : List Nat) (sid seq : Nat)
    (payload : List Nat) (rmcpSeq : Nat) : Option LanPacket :=
  match expectedCode md5 auth pw sid seq payload with
  | some code =>
    some { ver := 6, rsvd := 0, rmcpSeq := rmcpSeq, cls := 7, auth := auth, seq := seq, sid := sid,
           code := code, len := payload.length, payload := payload }
  | none => none

/-- Judgement of a sent datagram (the always-on oracle): it parses, and says exactly what
`expectedPacket` says, the RMCP sequence byte apart. -/
def sentOk (md5 : List Nat → List Nat) (auth : Nat) (pw : List Nat) (sid seq : Nat)
    (payload dgram : List Nat) : Bool :=
  match parseLan dgram with
  | some p => decide (some p = expectedPacket md5 auth pw sid seq payload p.rmcpSeq)
  | none => false

/-- What a receiver must do with a datagram: hand on exactly the payload, or reject (`none`)
when the RMCP version or the message class is wrong, or the length byte disagrees with the
actual payload length (unless that check is disabled). -/
def receive (ignoreLen : Bool) (dgram : List Nat) : Option (List Nat) :=
  match parseLan dgram with
  | some p =>
    if p.ver ≠ 6 then none
    else if p.cls ≠ 7 then none
    else if !ignoreLen && p.len ≠ p.payload.length then none
    else some p.payload
  | none => none

/-! ### ASF -/

def asfIana : Nat := 4542

/-- the presence ping datagram: RMCP header of class ASF, IANA 4542 MS byte first, type 80h,
tag, reserved, data length 0 -/
def pingBytes (rmcpSeq tag : Nat) : List Nat :=
  [6, 0, rmcpSeq, 6, 0, 0, 0x11, 0xbe, 0x80, tag, 0, 0]

structure AsfPacket where
  ver : Nat
  cls : Nat
  iana : Nat
  type : Nat
  tag : Nat
  dlen : Nat
  data : List Nat
  deriving Repr, DecidableEq

def parseAsf : List Nat → Option AsfPacket
  | ver :: _rsvd :: _rseq :: cls :: n3 :: n2 :: n1 :: n0 :: ty :: tag :: _r :: dlen :: data =>
    some { ver := ver, cls := cls, iana := u32le n0 n1 n2 n3, type := ty, tag := tag,
           dlen := dlen, data := data }
  | _ => none

/-- A datagram has the format of a presence pong (ASF 2.0 §3.2.4.3): version 6, class ASF,
type 40h, 16 data bytes as announced by the length byte. -/
def isPongFormat (d : List Nat) : Bool :=
  match parseAsf d with
  | some p => p.ver == 6 && p.cls == 6 && p.type == 0x40 && p.dlen == 16 && p.data.length == 16
  | none => false

/-- a pong as a managed client sends it: OEM fields free, interactions byte given -/
def pongBytes (tag : Nat) (oemIana : List Nat) (oemDefined : List Nat) (entities interactions : Nat) :
    List Nat :=
  [6, 0, 0xff, 6, 0, 0, 0x11, 0xbe, 0x40, tag, 0, 16] ++ oemIana ++ oemDefined ++
    [entities, interactions, 0, 0, 0, 0, 0, 0]

/-! ### the presence pong field by field (ASF 2.0 §3.2.4.3 / IPMI v2.0 table 13-6) -/

/-- four bytes, most significant first -/
def be32 (v : Nat) : List Nat := [v / 16777216 % 256, v / 65536 % 256, v / 256 % 256, v % 256]

/-- what a presence pong says -/
structure Pong where
  /-- message tag: copied from the ping -/
  tag : Nat
  /-- IANA enterprise number of the data block: 4542 when there are no OEM capabilities -/
  oemIana : Nat
  /-- OEM-defined capabilities; 0 when `oemIana` = 4542 -/
  oemDefined : Nat
  /-- supported entities: bit 7 IPMI, bits 3:0 ASF version -/
  entities : Nat
  /-- supported interactions: bit 7 RMCP security extensions, bit 5 DASH -/
  interactions : Nat
  deriving Repr, DecidableEq

/-- A pong the format allows: every field fits its width, and the ASF enterprise number comes with
an all-zero OEM-defined field.  BOTH capability bytes are free: they are bit fields whose reserved
bits later specifications assign (ASF 2.0 gave bit 7 of the interactions byte a meaning, DASH bit 5),
so a console has to take a pong whatever they say. -/
def Pong.WellFormed (p : Pong) : Prop :=
  p.tag < 256 ∧ p.oemIana < 4294967296 ∧ p.oemDefined < 4294967296 ∧ p.entities < 256 ∧
    p.interactions < 256 ∧ (p.oemIana = asfIana → p.oemDefined = 0)

instance (p : Pong) : Decidable p.WellFormed := by unfold Pong.WellFormed; infer_instance

/-- the datagram that carries it: RMCP version 6, reserved 0, sequence FFh (no RMCP ACK), class ASF;
ASF enterprise number 4542, type 40h, tag, reserved 0, data length 10h; the 16 data bytes -/
def pongDatagram (p : Pong) : List Nat :=
  [6, 0, 0xff, 6] ++ be32 asfIana ++ [0x40, p.tag, 0, 0x10] ++ be32 p.oemIana ++ be32 p.oemDefined ++
    [p.entities, p.interactions, 0, 0, 0, 0, 0, 0]

/-- The run-time oracle: the pong a datagram is, if it is a well-formed one (`parsePong_iff`). -/
def parsePong (d : List Nat) : Option Pong :=
  match d with
  | [_, _, _, _, _, _, _, _, _, tag, _, _, i3, i2, i1, i0, o3, o2, o1, o0, ent, inter, _, _, _, _, _, _] =>
    let p : Pong := ⟨tag, u32le i0 i1 i2 i3, u32le o0 o1 o2 o3, ent, inter⟩
    if p.WellFormed ∧ d = pongDatagram p then some p else none
  | _ => none

end PyIpmi.Spec.Lan
