/-
  Reference IPM controller for the HPM.1 upload phase, and the property oracle over what it
  records.  Written from PICMG HPM.1 R1.0 §3 ("Upload firmware block", "Get upgrade status",
  long-duration commands) – not from pyipmi/hpm.py.  Core Lean only.

  * Upload firmware block (cmd 32h): request = PICMG id, block number, 1..N firmware bytes.
    The controller answers with completion code 00h, or 80h "command in progress" when it
    accepted the block but needs time (a long duration command), or an error code.
  * Get upgrade status (cmd 34h): response = PICMG id, command in progress, last completion
    code, [completion estimate].  While a long duration command is executing the last
    completion code is 80h; afterwards it is the command's final code.

  The device is driven by a *plan*: what it answers to the i-th Upload-firmware-block request
  it receives (i = 0, 1, …): accept, accept-as-long-duration (the next `polls` status
  requests still say 80h), reject with a code, or stay silent.  It records every request.
-/
import PyIpmi.Base.Bytes
namespace PyIpmi.Spec.HpmDevice

inductive Reply where
  | ok
  | inProgress (polls : Nat)
  | err (cc : Nat)
  | noAnswer
  deriving Repr, DecidableEq, Inhabited

/-- What the device saw. -/
inductive Ev where
  | block (num : Nat) (data : List Nat)
  | status
  deriving Repr, DecidableEq, Inhabited

/-- What the requester gets back. -/
inductive Rsp where
  | cc (c : Nat)                       -- response carrying completion code `c` (0 = OK)
  | status (cmd : Nat) (last : Nat)    -- Get upgrade status: command in progress, last code
  | silent                             -- no response (the interface times out)
  deriving Repr, DecidableEq, Inhabited

def ccInProgress : Nat := 0x80
def cmdUploadBlock : Nat := 0x32

structure Dev where
  plan : Nat → Reply
  idx : Nat := 0            -- number of Upload-firmware-block requests received so far
  pending : Nat := 0        -- status requests that will still report "in progress"
  trace : List Ev := []     -- chronological

def Dev.init (plan : Nat → Reply) : Dev := { plan := plan }

def replyRsp : Reply → Rsp
  | .ok => .cc 0
  | .inProgress _ => .cc ccInProgress
  | .err c => .cc c
  | .noAnswer => .silent

def replyPending : Reply → Nat
  | .inProgress k => k
  | _ => 0

def Dev.upload (d : Dev) (num : Nat) (data : List Nat) : Rsp × Dev :=
  (replyRsp (d.plan d.idx),
   { d with idx := d.idx + 1, pending := replyPending (d.plan d.idx),
            trace := d.trace ++ [.block num data] })

def Dev.getStatus (d : Dev) : Rsp × Dev :=
  (.status cmdUploadBlock (if d.pending = 0 then 0 else ccInProgress),
   { d with pending := d.pending - 1, trace := d.trace ++ [.status] })

/-! ### The property, as predicates over the recorded trace -/

/-- the Upload-firmware-block requests, in order -/
def blocksOf : List Ev → List (Nat × List Nat)
  | [] => []
  | .block n d :: r => (n, d) :: blocksOf r
  | .status :: r => blocksOf r

/-- "When the device answers a block with 'in progress' the library polls the upgrade status
before continuing": walking the trace, `i` counts the blocks seen so far; after the i-th
block, if the plan answered it 80h, the very next recorded request is a status request. -/
def pollsOk (plan : Nat → Reply) : Nat → List Ev → Bool
  | _, [] => true
  | i, .status :: r => pollsOk plan i r
  | i, .block _ _ :: r =>
    (match plan i with
     | .inProgress _ => (match r with | .status :: _ => true | _ => false)
     | _ => true) && pollsOk plan (i + 1) r

/-- blocks are numbered consecutively modulo 256 from `i`, non-empty and at most `bs` long -/
def numberedFrom (bs : Nat) : Nat → List (Nat × List Nat) → Bool
  | _, [] => true
  | i, (n, d) :: r => (n == i % 256) && decide (0 < d.length) && decide (d.length ≤ bs) && numberedFrom bs (i + 1) r

/-- A complete, exact upload of `binary`. -/
def uploadExact (bs : Nat) (plan : Nat → Reply) (binary : List Nat) (trace : List Ev) : Bool :=
  decide (((blocksOf trace).map (·.2)).flatten = binary) && numberedFrom bs 0 (blocksOf trace) &&
  pollsOk plan 0 trace

/-- An upload aborted at block `j`: exactly the first `j+1` blocks were sent (a prefix of the
binary, correctly numbered) and nothing at all after the rejected block. -/
def uploadAbortedAt (bs : Nat) (plan : Nat → Reply) (binary : List Nat) (j : Nat) (trace : List Ev) : Bool :=
  decide ((blocksOf trace).length = j + 1) &&
  decide (((blocksOf trace).map (·.2)).flatten = binary.take (((blocksOf trace).map (·.2)).flatten.length)) &&
  numberedFrom bs 0 (blocksOf trace) && pollsOk plan 0 trace &&
  (match trace.getLast? with | some (.block _ _) => true | _ => false)

end PyIpmi.Spec.HpmDevice
