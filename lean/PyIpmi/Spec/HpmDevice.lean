/-
  Reference IPM controller for the HPM.1 upload phase, and the property oracle over what it
  records.  Written from PICMG HPM.1 R1.0 §3 ("Upload firmware block", "Get upgrade status",
  long-duration commands) – not from pyipmi/hpm.py.  Core Lean only.

  * Upload firmware block (cmd 32h): request = PICMG id, block number, 1..N firmware bytes.
    The controller answers with completion code 00h, or 80h "command in progress" when it
    accepted the block but needs time (a long duration command), or an error code.
  * Get upgrade status (cmd 34h): response = PICMG id, command in progress, last completion
    code, [completion estimate].  While a long duration command is executing the last
    completion code is 80h; afterwards it is the command's FINAL code: 00h when the command
    succeeded, any other code when it failed.  A block accepted with 80h has been uploaded only
    when the status reports 00h; a requester that goes on to the next block before that, or
    after a final code other than 00h, has not uploaded the binary.

  The device is driven by a *plan*: what it answers to the i-th Upload-firmware-block request
  it receives (i = 0, 1, …): accept, accept-as-long-duration (the next `polls` status
  requests still say 80h, every later one reports the final code `final`), reject with a
  code, or stay silent.  It records every request.
-/
import PyIpmi.Base.Bytes
namespace PyIpmi.Spec.HpmDevice

inductive Reply where
  | ok
  | inProgress (polls : Nat) (final : Nat)
  | err (cc : Nat)
  | noAnswer
  deriving Repr, DecidableEq, Inhabited

/-- What the device saw. -/
inductive Ev where
  | block (num : Nat) (data : List Nat)
  | status
  deriving Repr, DecidableEq, Inhabited

/-- What the requester gets back. -/
inductive Rsp where
  | cc (c : Nat)                       -- response carrying completion code `c` (0 = OK)
  | status (cmd : Nat) (last : Nat)    -- Get upgrade status: command in progress, last code
  | silent                             -- no response (the interface times out)
  deriving Repr, DecidableEq, Inhabited

def ccInProgress : Nat := 0x80
def cmdUploadBlock : Nat := 0x32

structure Dev where
  plan : Nat → Reply
  idx : Nat := 0            -- number of Upload-firmware-block requests received so far
  pending : Nat := 0        -- status requests that will still report "in progress"
  final : Nat := 0          -- what the status reports once the long duration command has ended
  trace : List Ev := []     -- chronological

def Dev.init (plan : Nat → Reply) : Dev := { plan := plan }

def replyRsp : Reply → Rsp
  | .ok => .cc 0
  | .inProgress _ _ => .cc ccInProgress
  | .err c => .cc c
  | .noAnswer => .silent

def replyPending : Reply → Nat
  | .inProgress k _ => k
  | _ => 0

def replyFinal : Reply → Nat
  | .inProgress _ f => f
  | _ => 0

def Dev.upload (d : Dev) (num : Nat) (data : List Nat) : Rsp × Dev :=
  (replyRsp (d.plan d.idx),
   { d with idx := d.idx + 1, pending := replyPending (d.plan d.idx), final := replyFinal (d.plan d.idx),
            trace := d.trace ++ [.block num data] })

def Dev.getStatus (d : Dev) : Rsp × Dev :=
  (.status cmdUploadBlock (if d.pending = 0 then d.final else ccInProgress),
   { d with pending := d.pending - 1, trace := d.trace ++ [.status] })

/-! ### The property, as predicates over the recorded trace -/

/-- the Upload-firmware-block requests, in order -/
def blocksOf : List Ev → List (Nat × List Nat)
  | [] => []
  | .block n d :: r => (n, d) :: blocksOf r
  | .status :: r => blocksOf r

/-- "When the device answers a block with 'in progress' the library polls the upgrade status
before continuing": walking the trace, `i` counts the blocks seen so far; after the i-th
block, if the plan answered it 80h, the very next recorded request is a status request. -/
def pollsOk (plan : Nat → Reply) : Nat → List Ev → Bool
  | _, [] => true
  | i, .status :: r => pollsOk plan i r
  | i, .block _ _ :: r =>
    (match plan i with
     | .inProgress _ _ => (match r with | .status :: _ => true | _ => false)
     | _ => true) && pollsOk plan (i + 1) r

/-- the status requests at the head of a trace (those recorded before the next block) -/
def leadingPolls : List Ev → Nat
  | .status :: r => leadingPolls r + 1
  | _ => 0

/-- "… before continuing": a block the plan answered 80h (`polls` further in-progress answers,
then the final code) counts as uploaded only when the requester saw the long duration command
end (more than `polls` status requests follow the block before anything else) and the final
code was 00h.  Walking the trace, `i` counts the blocks seen so far; blocks from number `upto`
on are not judged here (an aborted upload is judged up to the block it was aborted at). -/
def waitsOk (plan : Nat → Reply) (upto : Nat) : Nat → List Ev → Bool
  | _, [] => true
  | i, .status :: r => waitsOk plan upto i r
  | i, .block _ _ :: r =>
    (decide (upto ≤ i) ||
     (match plan i with
      | .inProgress k f => decide (k < leadingPolls r) && decide (f = 0)
      | _ => true)) && waitsOk plan upto (i + 1) r

/-- blocks are numbered consecutively modulo 256 from `i`, non-empty and at most `bs` long -/
def numberedFrom (bs : Nat) : Nat → List (Nat × List Nat) → Bool
  | _, [] => true
  | i, (n, d) :: r => (n == i % 256) && decide (0 < d.length) && decide (d.length ≤ bs) && numberedFrom bs (i + 1) r

/-- A complete, exact upload of `binary`: every byte once and in order, blocks numbered and sized,
a status poll right after every 80h, and every block answered 80h seen through to a final 00h. -/
def uploadExact (bs : Nat) (plan : Nat → Reply) (binary : List Nat) (trace : List Ev) : Bool :=
  decide (((blocksOf trace).map (·.2)).flatten = binary) && numberedFrom bs 0 (blocksOf trace) &&
  pollsOk plan 0 trace && waitsOk plan (blocksOf trace).length 0 trace

/-- the status requests recorded after the last Upload-firmware-block request -/
def pollsAfterLast : List Ev → Nat → Nat
  | [], acc => acc
  | .block _ _ :: r, _ => pollsAfterLast r 0
  | .status :: r, acc => pollsAfterLast r (acc + 1)

def trailingPolls (trace : List Ev) : Nat := pollsAfterLast trace 0

/-- An upload aborted at block `j` whose long duration processing did not end with 00h (the
status reported a final code other than 00h, or still 80h when the requester gave up):
exactly the first `j+1` blocks were sent (a prefix of the binary, correctly numbered), block
`j` is followed by status requests only - no block after it - and there is at least one. -/
def uploadAbortedLongAt (bs : Nat) (plan : Nat → Reply) (binary : List Nat) (j : Nat) (trace : List Ev) : Bool :=
  decide ((blocksOf trace).length = j + 1) &&
  decide (((blocksOf trace).map (·.2)).flatten = binary.take (((blocksOf trace).map (·.2)).flatten.length)) &&
  numberedFrom bs 0 (blocksOf trace) && pollsOk plan 0 trace && waitsOk plan j 0 trace &&
  (match trace.getLast? with | some .status => true | _ => false)

/-- Did the requester see the end of the long duration command of the LAST block it sent?
(`polls` = in-progress answers the plan gives for that block) -/
def sawFinal (polls : Nat) (trace : List Ev) : Bool := decide (polls < trailingPolls trace)

/-- An upload aborted at block `j`: exactly the first `j+1` blocks were sent (a prefix of the
binary, correctly numbered) and nothing at all after the rejected block. -/
def uploadAbortedAt (bs : Nat) (plan : Nat → Reply) (binary : List Nat) (j : Nat) (trace : List Ev) : Bool :=
  decide ((blocksOf trace).length = j + 1) &&
  decide (((blocksOf trace).map (·.2)).flatten = binary.take (((blocksOf trace).map (·.2)).flatten.length)) &&
  numberedFrom bs 0 (blocksOf trace) && pollsOk plan 0 trace && waitsOk plan j 0 trace &&
  (match trace.getLast? with | some (.block _ _) => true | _ => false)

/-! ### requests that get no answer

HPM.1, Upload firmware block: when no response arrives the upgrade agent repeats the block with the SAME block
number; a controller that already took the block sees the number it has and ignores the duplicate.  The agent
cannot tell a lost request from a lost response, so for the oracle a request the plan leaves unanswered did NOT
reach the controller. -/

/-- the Upload-firmware-block requests the controller received: those the plan answers (`i` = requests so far) -/
def heardFrom (plan : Nat → Reply) : Nat → List Ev → List (Nat × List Nat)
  | _, [] => []
  | i, .status :: r => heardFrom plan i r
  | i, .block n d :: r =>
    if plan i = .noAnswer then heardFrom plan (i + 1) r else (n, d) :: heardFrom plan (i + 1) r

/-- what the controller accepts: a request equal to its predecessor in number and data is a repetition -/
def dropRepeats : List (Nat × List Nat) → List (Nat × List Nat)
  | a :: b :: r => if a = b then dropRepeats (b :: r) else a :: dropRepeats (b :: r)
  | l => l

/-- the controller holds exactly `binary`: the blocks it accepted are the binary, in order, once, numbered
consecutively modulo 256 from zero, non-empty and at most `bs` long -/
def uploadDelivered (bs : Nat) (plan : Nat → Reply) (binary : List Nat) (trace : List Ev) : Bool :=
  decide (((dropRepeats (heardFrom plan 0 trace)).map (·.2)).flatten = binary) &&
  numberedFrom bs 0 (dropRepeats (heardFrom plan 0 trace))

end PyIpmi.Spec.HpmDevice
