/-
  IPMB wire format, written from the specification's figure (IPMI v1.5/v2.0 §13.8 "IPMB
  messages", IPMB v1.0 §2.11), NOT from the Python:

      request   | rsSA | netFn(7:2)/rsLUN(1:0) | chk1 | rqSA | rqSeq(7:2)/rqLUN(1:0) | cmd | data… | chk2 |
      response  | rqSA | netFn(7:2)/rqLUN(1:0) | chk1 | rsSA | rqSeq(7:2)/rsLUN(1:0) | cmd | cc data… | chk2 |

  chk1 makes bytes 0..2 sum to zero modulo 256, chk2 makes bytes 3..end sum to zero; the
  response netFn is the request's (even) netFn plus one.

  Small, stable, core only: other properties (C04, C09, C14) import `isReplyTo` from here.
-/
import PyIpmi.Base.Bytes
namespace PyIpmi.Spec.Wire
open PyIpmi

/-- The seven addressing fields of an IPMB message (request view). -/
structure Hdr where
  rsSa : Nat
  rsLun : Nat
  netfn : Nat
  rqSa : Nat
  rqLun : Nat
  seq : Nat
  cmd : Nat
  deriving DecidableEq, Repr, Inhabited

/-- 8-bit addresses and command, 6-bit netFn and sequence number, 2-bit LUNs. -/
def Hdr.InRange (h : Hdr) : Prop :=
  h.rsSa < 256 ∧ h.rsLun < 4 ∧ h.netfn < 64 ∧ h.rqSa < 256 ∧ h.rqLun < 4 ∧ h.seq < 64 ∧ h.cmd < 256

instance (h : Hdr) : Decidable h.InRange := by unfold Hdr.InRange; infer_instance

/-- connection header (bytes 0,1,2) sums to zero -/
@[reducible] def hdrOk (f : List Nat) : Prop := sum8 (f.take 3) = 0
/-- everything after the connection header, second checksum included, sums to zero -/
@[reducible] def payOk (f : List Nat) : Prop := sum8 (f.drop 3) = 0

/-- byte `i` of a frame (0 beyond the end; every use is guarded by a length test) -/
def byteAt (f : List Nat) (i : Nat) : Nat := f.getD i 0

/-- data bytes of a frame: between the command byte and the second checksum -/
def frameData (f : List Nat) : List Nat := (f.drop 6).dropLast

/-- What a responder reads from a request frame: `none` unless the frame has a header, a
second checksum and both checksums verify. -/
def parseReq (f : List Nat) : Option (Hdr × List Nat) :=
  if 7 ≤ f.length ∧ hdrOk f ∧ payOk f then
    some ({ rsSa := byteAt f 0, netfn := byteAt f 1 / 4, rsLun := byteAt f 1 % 4,
            rqSa := byteAt f 3, seq := byteAt f 4 / 4, rqLun := byteAt f 4 % 4,
            cmd := byteAt f 5 }, frameData f)
  else none

/-! ### response frame field positions -/
def rspRqSa (f : List Nat) : Nat := byteAt f 0
def rspNetfn (f : List Nat) : Nat := byteAt f 1 / 4
def rspRqLun (f : List Nat) : Nat := byteAt f 1 % 4
def rspRsSa (f : List Nat) : Nat := byteAt f 3
def rspSeq (f : List Nat) : Nat := byteAt f 4 / 4
def rspRsLun (f : List Nat) : Nat := byteAt f 4 % 4
def rspCmd (f : List Nat) : Nat := byteAt f 5

/-- Which optional comparisons a transport enabled (responder LUN and sequence number are on
unless the transport says otherwise). -/
structure Flags where
  rqSa : Bool := false
  rsSa : Bool := false
  rqLun : Bool := false
  rsLun : Bool := true
  rqSeq : Bool := true
  deriving DecidableEq, Repr, Inhabited

/-- `f` is an intact reply to the outstanding request `req` (whose netFn is even). -/
def isReplyTo (req : Hdr) (f : List Nat) (fl : Flags := {}) : Prop :=
  6 ≤ f.length ∧ hdrOk f ∧ payOk f ∧
  rspNetfn f = req.netfn + 1 ∧ rspCmd f = req.cmd ∧
  (fl.rsLun = true → rspRsLun f = req.rsLun) ∧
  (fl.rqSeq = true → rspSeq f = req.seq) ∧
  (fl.rqSa = true → rspRqSa f = req.rqSa) ∧
  (fl.rsSa = true → rspRsSa f = req.rsSa) ∧
  (fl.rqLun = true → rspRqLun f = req.rqLun)

instance (req : Hdr) (f : List Nat) (fl : Flags) : Decidable (isReplyTo req f fl) := by
  unfold isReplyTo; infer_instance

/-- completion code and data of a reply: what the transport hands to the caller -/
def replyData (f : List Nat) : List Nat := frameData f

/-- The reply a responder sends (figure "response"): used as stimulus and in non-vacuity
examples; `h` is the REQUEST header it answers, `body` = completion code ++ data. -/
def mkReply (h : Hdr) (body : List Nat) : List Nat :=
  let b1 := (h.netfn + 1) * 4 + h.rqLun
  let c1 := (256 - (h.rqSa + b1) % 256) % 256
  let rest := [h.rsSa, h.seq * 4 + h.rsLun, h.cmd] ++ body
  [h.rqSa, b1, c1] ++ rest ++ [(256 - rest.sum % 256) % 256]

/-- The request a requester sends (figure "request"): stimulus for code that ANSWERS requests. -/
def mkRequest (h : Hdr) (data : List Nat) : List Nat :=
  let b1 := h.netfn * 4 + h.rsLun
  let c1 := (256 - (h.rsSa + b1) % 256) % 256
  let rest := [h.rqSa, h.seq * 4 + h.rqLun, h.cmd] ++ data
  [h.rsSa, b1, c1] ++ rest ++ [(256 - rest.sum % 256) % 256]

/-- What the requester reads from a response frame (figure "response"): requester address and LUN in
the connection header, responder address and LUN behind it — both keep their ROLES, `rsSa` is the
controller that answers; `netfn` is the network function on the wire (the request's plus one); the data
starts with the completion code.  `none` unless the frame has a header, a second checksum and both
checksums verify. -/
def parseRsp (f : List Nat) : Option (Hdr × List Nat) :=
  if 7 ≤ f.length ∧ hdrOk f ∧ payOk f then
    some ({ rqSa := byteAt f 0, netfn := byteAt f 1 / 4, rqLun := byteAt f 1 % 4,
            rsSa := byteAt f 3, seq := byteAt f 4 / 4, rsLun := byteAt f 4 % 4,
            cmd := byteAt f 5 }, frameData f)
  else none

end PyIpmi.Spec.Wire
