/-
  C14 — specification side: the monitor that judges a wire log.

  Written from the property text and IPMI v1.5 §6.12 (session sequence numbers), not from
  the Python.  A *wire log* is what a substituted socket sees, in transmission order:

    tx tid serial seq rq cmd   thread `tid` handed datagram number `serial` to the socket; it
                               carries session sequence number `seq` (and, not judged here, the
                               IPMB request sequence `rq` and command `cmd`)
    rx tid serial              thread `tid` took from the socket the reply to datagram `serial`
    to tid serial              the socket let thread `tid` time out (`socket.timeout`) while datagram
                               `serial` was the latest one transmitted: its reply was lost

  and a *result list* says, for every finished call, which datagram the caller sent and which
  datagram the reply it was handed answers.

  The clauses of the property:
   (X) exchanges are not interleaved: the log is  tx (rx|to) tx (rx|to) … [tx]  where each rx / to
       is taken by the thread that sent the preceding tx and concerns exactly that datagram
       (a datagram whose reply is lost ends in a time-out of its sender; what follows may be
       the retransmission, `Rmcp(max_retries >= 1)`, or the next request of any thread);
   (S) session sequence numbers strictly increase in transmission order — over the WHOLE log,
       retransmissions included: a retransmitted request is a new datagram of the session and
       takes the next number (IPMI v1.5 §6.12, sequence number window: the BMC drops a repeated number as a
       duplicate) — the only other step IPMI allows is the 32-bit wrap 0xffffffff → 1, zero
       being skipped;
   (O) every caller got the reply to its own request: the reply answers the datagram the
       caller itself transmitted (last) for that call — or the call failed with an error, and
       then only because the socket timed out on the datagram it had transmitted last.
   (C) session teardown (Close Session, IPMI v1.5 §18.17 / v2.0 §22.19: the session is gone once the
       BMC has answered): Close Session is the last datagram of the session — nothing is transmitted
       after it, by any thread, the interface's own keep-alive included; the one exception is the
       retransmission of Close Session itself by the thread that sent it (its answer was lost).
       (A datagram that did follow would also break (S): the console stops advancing the sequence
       number of a session it has closed.)  A log without Close Session satisfies (C) trivially.
  Datagram numbers are positions: the n-th transmitted datagram has serial n (checked), so a
  serial names exactly one datagram.

  One more clause is judged on the same log although it is worded in property C04 ("consecutive requests
  carry different sequence numbers", whose quantifier names schedules):
   (Q) the IPMB request sequence number `rq` of every transmitted datagram differs from that of the
       datagram transmitted before it — by whichever thread.  It is what keeps a LATE reply (one that
       arrives after its request timed out) from being taken for the answer to the next request.
-/
namespace PyIpmi.Spec.Threads

inductive WEv where
  | tx (tid serial seq rq cmd : Nat)
  | rx (tid serial : Nat)
  | to (tid serial : Nat)
deriving DecidableEq, Repr, Inhabited

/-- Close Session (NetFn App, command 3Ch). -/
def closeCmd : Nat := 0x3c

/-- May session sequence number `b` follow `a` on the wire? -/
def seqNext (a b : Nat) : Bool :=
  decide (a < b) || (a == 0xffffffff && b == 1)

/-- Online monitor state. -/
structure Mon where
  exch : Bool                  -- clause (X) so far
  incr : Bool                  -- clause (S) so far
  ntx : Nat                    -- datagrams seen
  opn : Option (Nat × Nat)     -- exchange in progress: (tid, serial)
  last : Option Nat            -- session sequence number of the latest datagram
  closed : Bool := false       -- a Close Session datagram has been transmitted
  after : Bool := true         -- clause (C) so far
  closedBy : Option Nat := none  -- the thread that transmitted the first Close Session
deriving DecidableEq, Repr

def Mon.init : Mon := ⟨true, true, 0, none, none, false, true, none⟩

def Mon.step (m : Mon) : WEv → Mon
  | .tx t n s _ c =>
    { exch := m.exch && m.opn.isNone && n == m.ntx
      incr := m.incr && (match m.last with | none => true | some a => seqNext a s)
      ntx := m.ntx + 1
      opn := some (t, n)
      last := some s
      closed := m.closed || c == closeCmd
      after := m.after && (!m.closed || (c == closeCmd && m.closedBy == some t))
      closedBy := if m.closed then m.closedBy else if c == closeCmd then some t else none }
  | .rx t n =>
    { m with exch := m.exch && m.opn == some (t, n), opn := none }
  | .to t n =>
    { m with exch := m.exch && m.opn == some (t, n), opn := none }

/-- Monitor state after a chronological wire log. -/
def monitor (wire : List WEv) : Mon := wire.foldl Mon.step Mon.init

/-- One finished call. `got = none`: the call failed (no reply handed to the caller). -/
structure Res where
  tid : Nat
  sent : Nat
  got : Option Nat
deriving DecidableEq, Repr

def sentBy (wire : List WEv) (t n : Nat) : Bool :=
  wire.any fun e => match e with
    | .tx t' n' _ _ _ => t' == t && n' == n
    | _ => false

/-- Thread `t` timed out waiting for the reply to datagram `n`. -/
def timedOut (wire : List WEv) (t n : Nat) : Bool :=
  wire.any fun e => match e with
    | .to t' n' => t' == t && n' == n
    | _ => false

/-- Clause (O): the reply to the caller's own datagram — or an error after a time-out on it. -/
def ownReply (wire : List WEv) (rs : List Res) : Bool :=
  rs.all fun r => (r.got == some r.sent && sentBy wire r.tid r.sent) ||
    (r.got == none && sentBy wire r.tid r.sent && timedOut wire r.tid r.sent)

def exchangesOk (wire : List WEv) : Bool := (monitor wire).exch
def seqIncreasing (wire : List WEv) : Bool := (monitor wire).incr
/-- Clause (C). -/
def closeLast (wire : List WEv) : Bool := (monitor wire).after

/-- Clause (Q), with the request sequence number of the previous transmission as state. -/
def rqDistinctFrom : Option Nat → List WEv → Bool
  | _, [] => true
  | last, .tx _ _ _ r _ :: w => (last != some r) && rqDistinctFrom (some r) w
  | last, .rx _ _ :: w => rqDistinctFrom last w
  | last, .to _ _ :: w => rqDistinctFrom last w

/-- Clause (Q) on a chronological wire log. -/
def rqDistinct (wire : List WEv) : Bool := rqDistinctFrom none wire

/-- The property oracle: all clauses on a chronological wire log and the results. -/
def accepts (wire : List WEv) (rs : List Res) : Bool :=
  exchangesOk wire && seqIncreasing wire && ownReply wire rs && closeLast wire

/-! ### exchanges of more than one datagram (bridged targets)

A request for a target behind the BMC goes out inside a Send Message request; the BMC answers with one, two or more
datagrams (IPMI v1.5 §18.? / v2.0 §6.13.2 response tracking: the Send Message response itself — a bare acknowledgement —
and the bridged reply, which arrives wrapped in the same envelope; one more acknowledgement per further bridge).  They
all belong to the exchange of the datagram that asked for them.  Clause (X) for such logs:

   (X′) the log is  tx rx* (rx|to)  tx rx* (rx|to) … [tx rx*]  where every rx / to is taken by the thread that sent the
        preceding tx and concerns exactly that datagram: an exchange is  tx (rx)+  — or a time-out — OWNED BY ONE
        THREAD; another thread's tx, rx or to between the tx and the last rx of an exchange is an interleaving.

The other clauses are unchanged ((S), (C) look at transmissions only, (O) at the results).  On logs with one reply per
datagram (X′) is implied by (X) (`Props.C14.exchangesOk_imp_multi`). -/

structure MonM where
  ok : Bool                    -- clause (X′) so far
  ntx : Nat                    -- datagrams seen
  opn : Option (Nat × Nat)     -- the exchange in progress / the latest one: (tid, serial)
  answered : Bool              -- … has been answered at least once (a new exchange may begin)
deriving DecidableEq, Repr

def MonM.init : MonM := ⟨true, 0, none, false⟩

def MonM.step (m : MonM) : WEv → MonM
  | .tx t n _ _ _ =>
    { ok := m.ok && (m.opn.isNone || m.answered) && n == m.ntx, ntx := m.ntx + 1, opn := some (t, n), answered := false }
  | .rx t n => { m with ok := m.ok && m.opn == some (t, n), answered := true }
  | .to t n => { m with ok := m.ok && m.opn == some (t, n), opn := none, answered := false }

def monitorM (wire : List WEv) : MonM := wire.foldl MonM.step MonM.init

/-- Clause (X′). -/
def exchangesOkMulti (wire : List WEv) : Bool := (monitorM wire).ok

/-- The property oracle for wire logs with multi-datagram exchanges (threads addressing bridged targets). -/
def acceptsMulti (wire : List WEv) (rs : List Res) : Bool :=
  exchangesOkMulti wire && seqIncreasing wire && ownReply wire rs && closeLast wire

/-! ### a retransmission belongs to the exchange it repeats

Clause (X) looks at single datagrams: a datagram whose reply is lost ends in a time-out of its sender, and what follows
is "the retransmission or the next request of any thread" - the log alone does not say which.  The request/reply
EXCHANGE of the property is the whole call: the request, every retransmission of it (`Rmcp(max_retries >= 1)`: IPMI v1.5
§6.12.? - the console repeats a request that was not answered), and the reply that ends it.  Which datagrams one call
transmitted is known to whoever observes the interface from outside (the call's entry and return):

   (W) the datagrams of one call are CONSECUTIVE datagrams of the log, all transmitted by the calling thread: no other
       thread's exchange lies between a request and its retransmission (with (X) / (X′): nothing of another thread lies
       between the first transmission of a call and the reception - or the last time-out - that ends it).
-/

/-- One finished call with EVERY datagram it transmitted, in order: the request and its retransmissions. -/
structure Call where
  tid : Nat
  sent : List Nat
deriving DecidableEq, Repr

/-- consecutive datagram numbers a, a+1, a+2, … -/
def consecutive : List Nat → Bool
  | a :: b :: r => b == a + 1 && consecutive (b :: r)
  | _ => true

/-- Clause (W). -/
def wholeExchanges (wire : List WEv) (cs : List Call) : Bool :=
  cs.all fun c => consecutive c.sent && c.sent.all (sentBy wire c.tid)

end PyIpmi.Spec.Threads
