/-
  Message bridging, written from the IPMI specification (v1.5/v2.0 §6.13 "BMC message
  bridging", §22.7 "Send Message command"), NOT from the Python.

  A bridge is a management controller that receives an IPMB request addressed to it with
  netFn App (06h), command Send Message (34h) and data

      byte 1   [7:6] tracking (01b = track request)  [5] encrypt  [4] authenticate  [3:0] channel
      byte 2…  the message to put on that channel

  verifies both checksums, and forwards bytes 2… unchanged.  With request tracking the reply
  travels back as the data of the Send Message response (completion code 00h first); a
  failing Send Message is a response carrying only its non-zero completion code; a bridge may
  also acknowledge the Send Message at once (completion code, no data) and deliver the
  forwarded reply in a later message.
-/
import PyIpmi.Spec.Wire
namespace PyIpmi.Spec.Bridges
open PyIpmi PyIpmi.Spec.Wire

def netfnApp : Nat := 6
def cmdSendMessage : Nat := 0x34

/-- what one bridge sees in the Send Message request it executes -/
structure Hop where
  bridge : Nat      -- address of the controller executing the Send Message (rsSA of the layer)
  src : Nat         -- requester address of the layer (rqSA)
  channel : Nat
  tracking : Nat
  seq : Nat
  deriving DecidableEq, Repr

/-- One bridge: accept a Send Message request with valid checksums, hand on the embedded message. -/
def peel (f : List Nat) : Option (Hop × List Nat) :=
  match parseReq f with
  | some (h, chan :: inner) =>
    if h.netfn = netfnApp ∧ h.cmd = cmdSendMessage ∧ h.rsLun = 0 ∧ chan / 16 % 4 = 0 then
      some ({ bridge := h.rsSa, src := h.rqSa, channel := chan % 16, tracking := chan / 64, seq := h.seq }, inner)
    else none
  | _ => none

/-- a chain of `n` bridges -/
def peelN : Nat → List Nat → Option (List Hop × List Nat)
  | 0, f => some ([], f)
  | n + 1, f =>
    match peel f with
    | some (hop, g) =>
      match peelN n g with
      | some (hops, inner) => some (hop :: hops, inner)
      | none => none
    | none => none

/-- Send Message response of the bridge that executed the request with header `h`:
completion code `cc`, then (if any) the tracked reply. -/
def wrapLayer (h : Hdr) (cc : Nat) (inner : List Nat) : List Nat :=
  mkReply { h with netfn := netfnApp, cmd := cmdSendMessage } (cc :: inner)

/-- the target's reply `r` on its way back through the bridges (outermost first), every Send
Message having succeeded -/
def wrapReply : List Hdr → List Nat → List Nat
  | [], r => r
  | h :: hs, r => wrapLayer h 0 (wrapReply hs r)

/-- a bare acknowledgement (completion code 00h, no forwarded reply), possibly itself wrapped by
outer bridges -/
def IsBareAck (f : List Nat) : Prop := ∃ layers acking, f = wrapReply layers (wrapLayer acking 0 [])

/-! ### what the requester may take for a Send Message response

A command is identified by network function AND command number (§5.1): 34h is Send Message only in
netFn App (response netFn 07h).  Other network functions use the same number (PICMG HPM.1 "Get
Upgrade Status" is 2Ch/34h).  Like every IPMB message a response counts only if both checksums
verify (§13.8: a message with a bad checksum is ignored). -/

/-- the header of `f` names the Send Message response -/
def NamesSendMsgRsp (f : List Nat) : Prop := rspNetfn f = netfnApp + 1 ∧ rspCmd f = cmdSendMessage

instance (f : List Nat) : Decidable (NamesSendMsgRsp f) := by unfold NamesSendMsgRsp; infer_instance

/-- a genuine, intact Send Message response -/
def IsSendMsgRsp (f : List Nat) : Prop := 6 ≤ f.length ∧ hdrOk f ∧ payOk f ∧ NamesSendMsgRsp f

instance (f : List Nat) : Decidable (IsSendMsgRsp f) := by unfold IsSendMsgRsp; infer_instance

/-- `h` is the header of a Send Message request of the transaction that uses sequence number `seq`:
addressed to LUN 0 of the bridge, carrying that sequence number (the requester LUN is 2 bits) -/
def SendMsgOf (seq : Nat) (h : Hdr) : Prop := h.rsLun = 0 ∧ h.rqLun < 4 ∧ h.seq = seq

instance (seq : Nat) (h : Hdr) : Decidable (SendMsgOf seq h) := by unfold SendMsgOf; infer_instance

/-- a bare acknowledgement (at any nesting depth) sent by the bridges of the transaction that uses
sequence number `seq` -/
def AckOf (seq : Nat) (f : List Nat) : Prop :=
  ∃ layers acking, (∀ h ∈ layers, SendMsgOf seq h) ∧ SendMsgOf seq acking ∧
    f = wrapReply layers (wrapLayer acking 0 [])

end PyIpmi.Spec.Bridges
