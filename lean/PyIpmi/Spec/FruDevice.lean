/-
  Reference FRU inventory device, byte level (IPMI v2.0 §34 "FRU Inventory Device Commands").
  Written from the specification, not from the Python.

    Get FRU Inventory Area Info  (NetFn Storage, cmd 10h)
        request  [fru id]
        response [cc, area size LS, area size MS, access (bit0: 0 = bytes)]
    Read FRU Data                (cmd 11h)
        request  [fru id, offset LS, offset MS, count]          (count is 1-based)
        response [cc, count returned, data …]
    Write FRU Data               (cmd 12h)
        request  [fru id, offset LS, offset MS, data …]
        response [cc, count written]

  The device holds one byte string per FRU id.  It serves at most `limit` bytes per read: a
  larger read is rejected with `rejectCc` (C8h / C9h / CAh are what real controllers answer)
  or – `short = true` – served short (the response's own count says how much came back; the
  specification allows that).  A read that is not inside the inventory area is refused with
  C9h.  A write stores at most `wmax` bytes of the request and acknowledges how many it
  stored.  A conforming device never answers a read with zero bytes.
-/
import PyIpmi.Base.Bytes
namespace PyIpmi.Spec.Fru
open PyIpmi

structure FruDev where
  frus : List (Nat × List Nat)     -- (fru id, contents of its inventory area)
  limit : Nat                      -- most bytes served per Read FRU Data
  rejectCc : Nat                   -- completion code for a read larger than `limit`
  short : Bool                     -- serve a larger read short instead of rejecting it
  wmax : Nat                       -- most bytes stored per Write FRU Data
  deriving Repr, DecidableEq, Inhabited

def lookup : List (Nat × List Nat) → Nat → Option (List Nat)
  | [], _ => none
  | (i, c) :: r, id => if i = id then some c else lookup r id

def update : List (Nat × List Nat) → Nat → List Nat → List (Nat × List Nat)
  | [], _, _ => []
  | (i, c) :: r, id, new => if i = id then (i, new) :: r else (i, c) :: update r id new

/-- The inventory area of FRU `id`, if the device has one. -/
def FruDev.get (d : FruDev) (id : Nat) : Option (List Nat) := lookup d.frus id

/-- `c` with `data` stored contiguously from `off`. -/
def splice (c : List Nat) (off : Nat) (data : List Nat) : List Nat :=
  c.take off ++ data ++ c.drop (off + data.length)

def ccNotPresent : Nat := 0xCB
def ccOutOfRange : Nat := 0xC9
def ccInvalidField : Nat := 0xCC
def ccInvalidLength : Nat := 0xC7
def ccInvalidCmd : Nat := 0xC1

def cmdInfo : Nat := 0x10
def cmdRead : Nat := 0x11
def cmdWrite : Nat := 0x12

def respondInfo (d : FruDev) (p : List Nat) : FruDev × List Nat :=
  match p with
  | [id] =>
    match d.get id with
    | none => (d, [ccNotPresent])
    | some c => (d, [0, c.length % 256, c.length / 256 % 256, 0])
  | _ => (d, [ccInvalidLength])

/-- how many bytes a read of `cnt` gets (only called when it is not rejected) -/
def served (d : FruDev) (cnt : Nat) : Nat := if cnt > d.limit then d.limit else cnt

def respondRead (d : FruDev) (p : List Nat) : FruDev × List Nat :=
  match p with
  | [id, lo, hi, cnt] =>
    match d.get id with
    | none => (d, [ccNotPresent])
    | some c =>
      let off := lo + 256 * hi
      if cnt = 0 then (d, [ccInvalidField])
      else if cnt > d.limit ∧ d.short = false then (d, [d.rejectCc])
      else if served d cnt = 0 then (d, [d.rejectCc])
      else if off + served d cnt > c.length then (d, [ccOutOfRange])
      else (d, 0 :: served d cnt :: (c.drop off).take (served d cnt))
  | _ => (d, [ccInvalidLength])

def respondWrite (d : FruDev) (p : List Nat) : FruDev × List Nat :=
  match p with
  | id :: lo :: hi :: data =>
    match d.get id with
    | none => (d, [ccNotPresent])
    | some c =>
      let off := lo + 256 * hi
      let stored := (data.take d.wmax).take (c.length - off)
      if off ≥ c.length ∧ data ≠ [] then (d, [ccOutOfRange])
      else ({ d with frus := update d.frus id (splice c off stored) }, [0, stored.length % 256])
  | _ => (d, [ccInvalidLength])

/-- One request (command, data bytes) ↦ new device state and raw response (completion code first). -/
def respond (d : FruDev) (cmd : Nat) (p : List Nat) : FruDev × List Nat :=
  if cmd = cmdInfo then respondInfo d p
  else if cmd = cmdRead then respondRead d p
  else if cmd = cmdWrite then respondWrite d p
  else (d, [ccInvalidCmd])

/-! ### faults at chosen request indices (histories: a write that fails midway and is resumed)

  `FaultyDev` is the reference device plus a plan of faults keyed by the index of the request
  (counted from the moment the plan was installed): `cc c` – the request is not processed, the
  whole answer is completion code `c`; `short n` – a Write FRU Data stores and acknowledges only
  the first `n` data bytes of the request (other commands are served normally); `ack n` – a Write
  FRU Data is processed as by the reference device but its acknowledge says `n` bytes (a count
  LARGER than what was sent is possible this way; other commands are served normally).  With an
  empty plan it is the reference device (`respondF_nofault`). -/

inductive Fault where
  | cc (c : Nat)
  | short (n : Nat)
  | ack (n : Nat)
  deriving Repr, DecidableEq, Inhabited

structure FaultyDev where
  dev : FruDev
  seen : Nat
  faults : List (Nat × Fault)
  deriving Repr, Inhabited

def faultAt : List (Nat × Fault) → Nat → Option Fault
  | [], _ => none
  | (i, f) :: r, n => if i = n then some f else faultAt r n

def respondF (s : FaultyDev) (cmd : Nat) (p : List Nat) : FaultyDev × List Nat :=
  match faultAt s.faults s.seen with
  | some (.cc c) => ({ s with seen := s.seen + 1 }, [c])
  | some (.short n) =>
    let r := respond s.dev cmd (if cmd = cmdWrite then p.take (3 + n) else p)
    ({ s with dev := r.1, seen := s.seen + 1 }, r.2)
  | some (.ack n) =>
    let r := respond s.dev cmd p
    ({ s with dev := r.1, seen := s.seen + 1 },
      if cmd = cmdWrite ∧ r.2.length = 2 ∧ r.2.head? = some 0 then [0, n % 256] else r.2)
  | none =>
    let r := respond s.dev cmd p
    ({ s with dev := r.1, seen := s.seen + 1 }, r.2)

theorem respondF_nofault (d : FruDev) (n cmd : Nat) (p : List Nat) :
    respondF ⟨d, n, []⟩ cmd p = (⟨(respond d cmd p).1, n + 1, []⟩, (respond d cmd p).2) := rfl

end PyIpmi.Spec.Fru
