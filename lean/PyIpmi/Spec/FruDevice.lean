/-
  Reference FRU inventory device, byte level (IPMI v2.0 §34 "FRU Inventory Device Commands").
  Written from the specification, not from the Python.

    Get FRU Inventory Area Info  (NetFn Storage, cmd 10h)
        request  [fru id]
        response [cc, area size LS, area size MS, access (bit0: 0 = bytes)]
    Read FRU Data                (cmd 11h)
        request  [fru id, offset LS, offset MS, count]          (count is 1-based)
        response [cc, count returned, data …]
    Write FRU Data               (cmd 12h)
        request  [fru id, offset LS, offset MS, data …]
        response [cc, count written]

  The device holds one byte string per FRU id.  It serves at most `limit` bytes per read: a
  larger read is rejected with `rejectCc` (C8h / C9h / CAh are what real controllers answer)
  or – `short = true` – served short (the response's own count says how much came back; the
  specification allows that).  A read that is not inside the inventory area is refused with
  C9h.  A write stores at most `wmax` bytes of the request and acknowledges how many it
  stored.  A conforming device never answers a read with zero bytes.
-/
import PyIpmi.Base.Bytes
namespace PyIpmi.Spec.Fru
open PyIpmi

structure FruDev where
  frus : List (Nat × List Nat)     -- (fru id, contents of its inventory area)
  limit : Nat                      -- most bytes served per Read FRU Data
  rejectCc : Nat                   -- completion code for a read larger than `limit`
  short : Bool                     -- serve a larger read short instead of rejecting it
  wmax : Nat                       -- most bytes stored per Write FRU Data
  deriving Repr, DecidableEq, Inhabited

def lookup : List (Nat × List Nat) → Nat → Option (List Nat)
  | [], _ => none
  | (i, c) :: r, id => if i = id then some c else lookup r id

def update : List (Nat × List Nat) → Nat → List Nat → List (Nat × List Nat)
  | [], _, _ => []
  | (i, c) :: r, id, new => if i = id then (i, new) :: r else (i, c) :: update r id new

/-- The inventory area of FRU `id`, if the device has one. -/
def FruDev.get (d : FruDev) (id : Nat) : Option (List Nat) := lookup d.frus id

/-- `c` with `data` stored contiguously from `off`. -/
def splice (c : List Nat) (off : Nat) (data : List Nat) : List Nat :=
  c.take off ++ data ++ c.drop (off + data.length)

def ccNotPresent : Nat := 0xCB
def ccOutOfRange : Nat := 0xC9
def ccInvalidField : Nat := 0xCC
def ccInvalidLength : Nat := 0xC7
def ccInvalidCmd : Nat := 0xC1

def cmdInfo : Nat := 0x10
def cmdRead : Nat := 0x11
def cmdWrite : Nat := 0x12

/-- The size Get FRU Inventory Area Info reports for an inventory area of `n` bytes: "FRU Inventory area size in
bytes", a 16-bit field (§34.1), so 65535 is the most it can say.  The offset of Read / Write FRU Data is 16 bits
too and addresses bytes 0..FFFFh: a device may hold a full 64 KiB (65536 bytes); it then reports FFFFh and its
last byte is reachable only through an explicit range (offset + count = 10000h), not through "the whole
inventory area" (which is what the device reports). -/
def infoSize (n : Nat) : Nat := if n > 65535 then 65535 else n

def respondInfo (d : FruDev) (p : List Nat) : FruDev × List Nat :=
  match p with
  | [id] =>
    match d.get id with
    | none => (d, [ccNotPresent])
    | some c => (d, [0, infoSize c.length % 256, infoSize c.length / 256 % 256, 0])
  | _ => (d, [ccInvalidLength])

/-- how many bytes a read of `cnt` gets (only called when it is not rejected) -/
def served (d : FruDev) (cnt : Nat) : Nat := if cnt > d.limit then d.limit else cnt

def respondRead (d : FruDev) (p : List Nat) : FruDev × List Nat :=
  match p with
  | [id, lo, hi, cnt] =>
    match d.get id with
    | none => (d, [ccNotPresent])
    | some c =>
      let off := lo + 256 * hi
      if cnt = 0 then (d, [ccInvalidField])
      else if cnt > d.limit ∧ d.short = false then (d, [d.rejectCc])
      else if served d cnt = 0 then (d, [d.rejectCc])
      else if off + served d cnt > c.length then (d, [ccOutOfRange])
      else (d, 0 :: served d cnt :: (c.drop off).take (served d cnt))
  | _ => (d, [ccInvalidLength])

def respondWrite (d : FruDev) (p : List Nat) : FruDev × List Nat :=
  match p with
  | id :: lo :: hi :: data =>
    match d.get id with
    | none => (d, [ccNotPresent])
    | some c =>
      let off := lo + 256 * hi
      let stored := (data.take d.wmax).take (c.length - off)
      if off ≥ c.length ∧ data ≠ [] then (d, [ccOutOfRange])
      else ({ d with frus := update d.frus id (splice c off stored) }, [0, stored.length % 256])
  | _ => (d, [ccInvalidLength])

/-- One request (command, data bytes) ↦ new device state and raw response (completion code first). -/
def respond (d : FruDev) (cmd : Nat) (p : List Nat) : FruDev × List Nat :=
  if cmd = cmdInfo then respondInfo d p
  else if cmd = cmdRead then respondRead d p
  else if cmd = cmdWrite then respondWrite d p
  else (d, [ccInvalidCmd])

/-! ### what the inventory area holds: Platform Management FRU Information Storage Definition v1.0

  §8 Common Header (8 bytes at offset 0): byte 0 format version (01h); bytes 1..5 the starting offsets of
  the Internal Use, Chassis Info, Board Info, Product Info and MultiRecord areas "in multiples of 8 bytes.
  00h indicates that this area is not present"; byte 6 PAD; byte 7 zero checksum of the header.
  §10-§12 info areas: byte 0 format version, byte 1 "area length (in multiples of 8 bytes)".
  §16 MultiRecord area: records of a 5-byte header [type id, bit 7 = end of list | format version, record
  length, record checksum, header checksum] followed by `record length` bytes; the record whose end-of-list
  bit is set is the last.

  Which bytes are "the area the FRU device stores" is read off the image here, independently of the library:
  an area whose offset byte is 00h is NOT stored (`none`), whatever other bytes the image holds. -/

inductive AreaId where
  | internal | chassis | board | product | multirecord
  deriving Repr, DecidableEq, Inhabited

/-- index of the area's starting-offset byte in the common header (§8) -/
def AreaId.hdrByte : AreaId → Nat
  | .internal => 1
  | .chassis => 2
  | .board => 3
  | .product => 4
  | .multirecord => 5

/-- the image starts with a common header whose eight bytes sum to zero -/
def headerOk (image : List Nat) : Prop := 8 ≤ image.length ∧ (image.take 8).sum % 256 = 0

/-- byte offset at which area `a` starts; `none`: "00h indicates that this area is not present" -/
def areaStart (image : List Nat) (a : AreaId) : Option Nat :=
  if image.getD a.hdrByte 0 = 0 then none else some (image.getD a.hdrByte 0 * 8)

/-- the bytes of info area `a` (chassis / board / product): from its start, `8 ×` its length byte -/
def infoArea (image : List Nat) (a : AreaId) : Option (List Nat) :=
  (areaStart image a).map fun o => (image.drop o).take (image.getD (o + 1) 0 * 8)

/-- end (exclusive) of the record list that starts at `p`: the end of the first record whose end-of-list
bit is set; `none` when the list runs out of the image (fuel = bytes left, every record has ≥ 5) -/
def recordsEnd (image : List Nat) : Nat → Nat → Option Nat
  | 0, _ => none
  | fuel + 1, p =>
    if image.length < p + 5 then none
    else
      let next := p + 5 + image.getD (p + 2) 0
      if image.length < next then none
      else if image.getD (p + 1) 0 / 128 % 2 = 1 then some next
      else recordsEnd image fuel next

/-- the bytes of the multirecord area: all records up to and including the end-of-list record -/
def multiArea (image : List Nat) : Option (Option (List Nat)) :=
  match areaStart image .multirecord with
  | none => some none
  | some o => (recordsEnd image (image.length + 1) o).map fun e => some ((image.drop o).take (e - o))

/-! ### faults at chosen request indices (histories: a write that fails midway and is resumed)

  `FaultyDev` is the reference device plus a plan of faults keyed by the index of the request
  (counted from the moment the plan was installed): `cc c` – the request is not processed, the
  whole answer is completion code `c`; `short n` – a Write FRU Data stores and acknowledges only
  the first `n` data bytes of the request (other commands are served normally); `ack n` – a Write
  FRU Data is processed as by the reference device but its acknowledge says `n` bytes (a count
  LARGER than what was sent is possible this way; other commands are served normally).  With an
  empty plan it is the reference device (`respondF_nofault`). -/

inductive Fault where
  | cc (c : Nat)
  | short (n : Nat)
  | ack (n : Nat)
  deriving Repr, DecidableEq, Inhabited

structure FaultyDev where
  dev : FruDev
  seen : Nat
  faults : List (Nat × Fault)
  deriving Repr, Inhabited

def faultAt : List (Nat × Fault) → Nat → Option Fault
  | [], _ => none
  | (i, f) :: r, n => if i = n then some f else faultAt r n

def respondF (s : FaultyDev) (cmd : Nat) (p : List Nat) : FaultyDev × List Nat :=
  match faultAt s.faults s.seen with
  | some (.cc c) => ({ s with seen := s.seen + 1 }, [c])
  | some (.short n) =>
    let r := respond s.dev cmd (if cmd = cmdWrite then p.take (3 + n) else p)
    ({ s with dev := r.1, seen := s.seen + 1 }, r.2)
  | some (.ack n) =>
    let r := respond s.dev cmd p
    ({ s with dev := r.1, seen := s.seen + 1 },
      if cmd = cmdWrite ∧ r.2.length = 2 ∧ r.2.head? = some 0 then [0, n % 256] else r.2)
  | none =>
    let r := respond s.dev cmd p
    ({ s with dev := r.1, seen := s.seen + 1 }, r.2)

theorem respondF_nofault (d : FruDev) (n cmd : Nat) (p : List Nat) :
    respondF ⟨d, n, []⟩ cmd p = (⟨(respond d cmd p).1, n + 1, []⟩, (respond d cmd p).2) := rfl

end PyIpmi.Spec.Fru
