/-
  Reference IPMI v1.5 BMC for LAN session establishment (C06 oracle), written from the
  specification (IPMI v1.5 §6.11/6.12 session model, §18.12–18.17 / v2.0 §22.13–22.19
  commands, §12 LAN packet, ASF 2.0 §3.2.4 presence ping), not from the Python.

  It is a *monitor* as well as a responder: every datagram of the remote console is
  validated against the session rules and answered, or flagged with the rule it breaks.

    start ──ping──▶ pinged ──Get Channel Auth Cap──▶ capsSent ──Get Session Challenge──▶
    challenged(auth) ──Activate Session──▶ active(auth, last seq) ──…requests…──▶
    ──Close Session──▶ closed

  Rules enforced
  * order: presence ping, Get Channel Authentication Capabilities, Get Session Challenge,
    Activate Session, in that order; nothing after Close Session
  * outside a session (the first three): authentication type none, session id 0, sequence 0
  * Get Channel Auth Cap asks for the configured privilege level; Get Session Challenge names
    an authentication type the BMC offered and the configured user name, zero padded to 16
  * Activate Session: header carries the challenge's authentication type and the temporary
    session id, the NULL session sequence number (no session is active yet: its numbers are created by
    this very exchange - the console proposes the outbound start value in the request data, the BMC assigns
    the inbound one in the response - and 0000_0000h is the value of packets outside an active session,
    v1.5 Table 12-8 / v2.0 Table 13-8 "Session Seq#"; a number left over from an EARLIER session of the
    same console is flagged `activate-seq-not-null`), a valid authentication code; data echoes authentication type, configured
    privilege level, the challenge string given, and a non-zero initial outbound sequence number
  * afterwards every datagram carries the granted session id, that authentication type, a valid
    authentication code, and a session sequence number that starts within 8 counts of the
    assigned initial inbound value, then increases by exactly one, 0xFFFFFFFF being followed by 1
  * Close Session names the granted session id
  * every IPMI message is addressed to the BMC (20h) and has two valid checksums
  * a datagram that is lost still counts (`stepLost`): a retransmission after a time-out is a new
    datagram and carries the next sequence number; a repeated number is flagged (`seq-step`)
  * a request may be refused (`stepRefused`): the BMC answers with an error completion code and
    does not execute it; like a lost datagram it has been on the wire and is counted
  * a session that is never activated leaves no session behind (`Phase.sessionOpen`): only
    `active` is an open session; a temporary session id handed out by Get Session Challenge
    that is never activated simply expires

  Core only.
-/
import PyIpmi.Base.Bytes
import PyIpmi.Spec.Lan
namespace PyIpmi.Spec.BmcSession
open PyIpmi PyIpmi.Spec.Lan

/-- what the BMC is configured with / will hand out -/
structure BmcCfg where
  caps : Nat              -- support byte: bit 0 none, 1 MD2, 2 MD5, 4 straight password, 5 OEM
  user : List Nat         -- user name, at most 16 bytes
  pw : List Nat           -- password / key, at most 16 bytes
  priv : Nat              -- privilege level the console is configured to request
  tempSid : Nat
  challenge : List Nat    -- 16 bytes
  sid : Nat
  inSeq0 : Nat            -- initial inbound sequence number assigned at activation
  deriving Repr, DecidableEq

inductive Phase where
  | start
  | pinged
  | capsSent
  | challenged (auth : Nat)
  | active (auth : Nat) (last : Option Nat)
  | closed
  deriving Repr, DecidableEq

/-- the rule a datagram breaks -/
inductive Why where
  | malformedRmcp | notPing | malformedSession | lengthByte | malformedIpmi | notForBmc
  | order | outsideSession | privilege | authNotOffered | userName
  | activateAuth | activateSid | activateSeq | authCode | activateData | challengeEcho | outboundSeqZero
  | sessionAuth | sessionId | seqWindow | seqStep | seqZero | closeSid | afterClose
  deriving Repr, DecidableEq

def Why.name : Why → String
  | .malformedRmcp => "malformed-rmcp" | .notPing => "asf-not-a-presence-ping"
  | .malformedSession => "malformed-session-header" | .lengthByte => "length-byte"
  | .malformedIpmi => "malformed-ipmi-message" | .notForBmc => "not-addressed-to-bmc"
  | .order => "handshake-order" | .outsideSession => "pre-session-packet-inside-session"
  | .privilege => "privilege-level" | .authNotOffered => "auth-type-not-offered"
  | .userName => "user-name" | .activateAuth => "activate-auth-type" | .activateSid => "activate-temporary-session-id"
  | .activateSeq => "activate-seq-not-null"
  | .authCode => "auth-code" | .activateData => "activate-data" | .challengeEcho => "challenge-not-echoed"
  | .outboundSeqZero => "initial-outbound-seq-zero" | .sessionAuth => "session-auth-type"
  | .sessionId => "session-id" | .seqWindow => "seq-outside-window" | .seqStep => "seq-step"
  | .seqZero => "seq-zero" | .closeSid => "close-session-id" | .afterClose => "datagram-after-close"

structure BmcState where
  phase : Phase
  outSeq : Nat            -- BMC → console session sequence number
  bad : Option Why        -- first rule broken so far (sticky)
  deriving Repr, DecidableEq

def init : BmcState := ⟨.start, 0, none⟩

inductive Verdict where
  | reply (d : List Nat)
  | protocolError (w : Why)
  deriving Repr, DecidableEq

/-! ### IPMI message (IPMB-style) inside the payload — IPMI v1.5 Figure 12-? "LAN message formats"

  request : rsAddr | netFn/rsLUN | chk1 | rqAddr | rqSeq/rqLUN | cmd | data… | chk2
  response: rqAddr | netFn/rqLUN | chk1 | rsAddr | rqSeq/rsLUN | cmd | completion code | data… | chk2
  chk = 2's complement checksum: all bytes it covers, plus it, sum to 0 mod 256 -/

structure IpmiReq where
  rsAddr : Nat
  netfn : Nat
  rsLun : Nat
  rqAddr : Nat
  rqSeq : Nat
  rqLun : Nat
  cmd : Nat
  data : List Nat
  deriving Repr, DecidableEq

def chk (l : List Nat) : Nat := (256 - l.sum % 256) % 256

def parseIpmiReq : List Nat → Option IpmiReq
  | rsAddr :: nl :: c1 :: rqAddr :: sl :: cmd :: rest =>
    match rest.getLast? with
    | none => none
    | some c2 =>
      let data := rest.dropLast
      if (rsAddr + nl + c1) % 256 ≠ 0 then none
      else if (rqAddr + sl + cmd + data.sum + c2) % 256 ≠ 0 then none
      else some ⟨rsAddr, nl / 4, nl % 4, rqAddr, sl / 4, sl % 4, cmd, data⟩
  | _ => none

def ipmiRsp (rq : IpmiReq) (cc : Nat) (data : List Nat) : List Nat :=
  let nl := (rq.netfn + 1) * 4 + rq.rqLun
  let body := [rq.rsAddr, rq.rqSeq * 4 + rq.rsLun, rq.cmd, cc] ++ data
  [rq.rqAddr, nl, chk [rq.rqAddr, nl]] ++ body ++ [chk body]

/-- a LAN packet carrying `payload` under the given session header -/
def lanPacket (md5 : List Nat → List Nat) (auth : Nat) (pw : List Nat) (sid seq : Nat)
    (payload : List Nat) : List Nat :=
  let code := match expectedCode md5 auth pw sid seq payload with
    | some (some c) => c
    | some none => []
    | none => List.replicate 16 0
  [6, 0, 0xff, 7, auth] ++ leBytes 4 seq ++ leBytes 4 sid ++ code ++ [payload.length] ++ payload

def bmcAddr : Nat := 0x20
def netfnApp : Nat := 6
def cmdGetDeviceId : Nat := 0x01
def cmdGetAuthCap : Nat := 0x38
def cmdGetChallenge : Nat := 0x39
def cmdActivate : Nat := 0x3a
def cmdSetPriv : Nat := 0x3b
def cmdClose : Nat := 0x3c

def offered (caps auth : Nat) : Bool := auth < 8 && caps.testBit auth

/-- is `s` reachable from `base` in at most 8 steps of `nextSeq` -/
def inWindow (base s : Nat) : Bool :=
  s == base || s == nextSeq base || s == nextSeq (nextSeq base) || s == nextSeq (nextSeq (nextSeq base))
  || s == nextSeq (nextSeq (nextSeq (nextSeq base)))
  || s == nextSeq (nextSeq (nextSeq (nextSeq (nextSeq base))))
  || s == nextSeq (nextSeq (nextSeq (nextSeq (nextSeq (nextSeq base)))))
  || s == nextSeq (nextSeq (nextSeq (nextSeq (nextSeq (nextSeq (nextSeq base))))))
  || s == nextSeq (nextSeq (nextSeq (nextSeq (nextSeq (nextSeq (nextSeq (nextSeq base)))))))

/-- the authentication code of packet `p` is the one its header values demand (types this
reference does not implement — MD2, OEM — only need a code to be present) -/
def codeOk (md5 : List Nat → List Nat) (pw : List Nat) (p : LanPacket) : Bool :=
  match expectedCode md5 p.auth pw p.sid p.seq p.payload with
  | some c => decide (p.code = c)
  | none => p.code.isSome

def fail (st : BmcState) (w : Why) : BmcState × Verdict :=
  ({ st with bad := st.bad <|> some w }, .protocolError w)

/-- Get Device ID data (IPMI v1.5 §17.1), 11 bytes after the completion code -/
def deviceIdData : List Nat := [0x20, 0x81, 0x01, 0x02, 0x51, 0xbf, 0x57, 0x01, 0x00, 0x00, 0x01]

/-- commands inside an active session -/
def inSession (md5 : List Nat → List Nat) (cfg : BmcCfg) (st : BmcState) (auth : Nat) (seq : Nat)
    (rq : IpmiReq) : BmcState × Verdict :=
  let answer (ph : Phase) (cc : Nat) (data : List Nat) : BmcState × Verdict :=
    ({ st with phase := ph, outSeq := nextSeq st.outSeq },
     .reply (lanPacket md5 auth cfg.pw cfg.sid st.outSeq (ipmiRsp rq cc data)))
  if rq.netfn = netfnApp ∧ rq.cmd = cmdClose then
    if rq.data = leBytes 4 cfg.sid then answer .closed 0 []
    else fail st .closeSid
  else if rq.netfn = netfnApp ∧ rq.cmd = cmdSetPriv then
    match rq.data with
    | [lvl] => answer (.active auth (some seq)) 0 [lvl % 16]
    | _ => answer (.active auth (some seq)) 0xc7 []
  else if rq.netfn = netfnApp ∧ rq.cmd = cmdGetDeviceId then
    answer (.active auth (some seq)) 0 deviceIdData
  else answer (.active auth (some seq)) 0xc1 []

/-- a well-formed IPMI request `rq` under session header `p`, in a phase after the ping -/
def handle (md5 : List Nat → List Nat) (cfg : BmcCfg) (st : BmcState) (p : LanPacket) (rq : IpmiReq) :
    BmcState × Verdict :=
  let pre (ph' : Phase) (cc : Nat) (data : List Nat) : BmcState × Verdict :=
    ({ st with phase := ph' }, .reply (lanPacket md5 0 [] 0 0 (ipmiRsp rq cc data)))
  match st.phase with
  | .pinged =>
    if rq.netfn ≠ netfnApp ∨ rq.cmd ≠ cmdGetAuthCap then fail st .order
    else if p.auth ≠ 0 ∨ p.sid ≠ 0 ∨ p.seq ≠ 0 then fail st .outsideSession
    else match rq.data with
    | [ch, lvl] =>
      if lvl % 16 ≠ cfg.priv then fail st .privilege
      else pre .capsSent 0 [if ch % 16 = 0xe then 1 else ch % 16, cfg.caps % 64, 0, 0, 0, 0, 0, 0]
    | _ => fail st .malformedIpmi
  | .capsSent =>
    if rq.netfn ≠ netfnApp ∨ rq.cmd ≠ cmdGetChallenge then fail st .order
    else if p.auth ≠ 0 ∨ p.sid ≠ 0 ∨ p.seq ≠ 0 then fail st .outsideSession
    else match rq.data with
    | a :: user =>
      if user.length ≠ 16 then fail st .malformedIpmi
      else if !offered cfg.caps (a % 16) then fail st .authNotOffered
      else if user ≠ pad16 cfg.user then fail st .userName
      else pre (.challenged (a % 16)) 0 (leBytes 4 cfg.tempSid ++ cfg.challenge)
    | [] => fail st .malformedIpmi
  | .challenged auth =>
    if rq.netfn ≠ netfnApp ∨ rq.cmd ≠ cmdActivate then fail st .order
    else if p.auth ≠ auth then fail st .activateAuth
    else if p.sid ≠ cfg.tempSid then fail st .activateSid
    else if p.seq ≠ 0 then fail st .activateSeq
    else if !codeOk md5 cfg.pw p then fail st .authCode
    else match rq.data with
    | a :: lvl :: rest =>
      if rest.length ≠ 20 then fail st .activateData
      else if a % 16 ≠ auth then fail st .activateAuth
      else if lvl % 16 ≠ cfg.priv then fail st .privilege
      else if rest.take 16 ≠ cfg.challenge then fail st .challengeEcho
      else
        let out := leVal (rest.drop 16)
        if out = 0 then fail st .outboundSeqZero
        else
          ({ st with phase := .active auth none, outSeq := nextSeq out },
           .reply (lanPacket md5 auth cfg.pw cfg.sid out
             (ipmiRsp rq 0 ([auth] ++ leBytes 4 cfg.sid ++ leBytes 4 cfg.inSeq0 ++ [cfg.priv]))))
    | _ => fail st .activateData
  | .active auth last =>
    if p.auth ≠ auth then fail st .sessionAuth
    else if p.sid ≠ cfg.sid then fail st .sessionId
    else if !codeOk md5 cfg.pw p then fail st .authCode
    else if p.seq = 0 then fail st .seqZero
    else match last with
    | none =>
      if !inWindow cfg.inSeq0 p.seq then fail st .seqWindow
      else inSession md5 cfg st auth p.seq rq
    | some l =>
      if p.seq ≠ nextSeq l then fail st .seqStep
      else inSession md5 cfg st auth p.seq rq
  | _ => fail st .order

/-- one datagram from the remote console -/
def step (md5 : List Nat → List Nat) (cfg : BmcCfg) (st : BmcState) (dgram : List Nat) :
    BmcState × Verdict :=
  match st.phase with
  | .closed => fail st .afterClose
  | .start =>
    -- only a presence ping opens the conversation
    match parseAsf dgram with
    | some a =>
      if a.ver ≠ 6 then fail st .malformedRmcp
      else if a.cls ≠ 6 then fail st .order
      else if a.iana ≠ 4542 ∨ a.type ≠ 0x80 ∨ a.dlen ≠ 0 ∨ a.data ≠ [] then fail st .notPing
      else ({ st with phase := .pinged },
            .reply (pongBytes a.tag [0, 0, 0x11, 0xbe] [0, 0, 0, 0] 0x81 0))
    | none => fail st .malformedRmcp
  | _ =>
    match parseLan dgram with
    | none => fail st .malformedSession
    | some p =>
      if p.ver ≠ 6 then fail st .malformedRmcp
      else if p.cls ≠ 7 then fail st .order
      else if p.len ≠ p.payload.length then fail st .lengthByte
      else match parseIpmiReq p.payload with
      | none => fail st .malformedIpmi
      | some rq =>
        if rq.rsAddr ≠ bmcAddr then fail st .notForBmc else handle md5 cfg st p rq

/-- A datagram that gets lost on its way to the BMC (or whose answer gets lost: the console
cannot tell the difference, it sees a time-out and sends the request again).  The monitor sits on
the console's side of the wire: it validates the datagram like any other and counts its session
sequence number, so that the retransmission has to carry the NEXT number; the BMC itself does
not act on it (phase, outbound sequence number unchanged). -/
def stepLost (md5 : List Nat → List Nat) (cfg : BmcCfg) (st : BmcState) (dgram : List Nat) :
    BmcState × Verdict :=
  match step md5 cfg st dgram with
  | (st', .protocolError w) => (st', .protocolError w)
  | (_, .reply r) =>
    match st.phase, parseLan dgram with
    | .active a _, some p => ({ st with phase := .active a (some p.seq) }, .reply r)
    | _, _ => (st, .reply r)

/-! ### faults: what can go wrong with one datagram (the quantifier "an error reply or silence") -/

inductive Fault where
  | silence               -- the datagram, or its answer, is lost
  | refuse (cc : Nat)     -- the BMC answers with completion code `cc` (≠ 0) and does not execute the command
  deriving Repr, DecidableEq

/-- The answer of a BMC that refuses the request in `dgram` with completion code `cc`: no data
after the completion code; it goes out under the session header values of the request
(authentication type, session id) with the BMC's outbound sequence number.  (A presence ping
has no completion code: it cannot be refused, only lost.) -/
def refusal (md5 : List Nat → List Nat) (cfg : BmcCfg) (st : BmcState) (cc : Nat) (dgram : List Nat) : List Nat :=
  match parseLan dgram with
  | some p =>
    match parseIpmiReq p.payload with
    | some rq => lanPacket md5 p.auth cfg.pw p.sid st.outSeq (ipmiRsp rq cc [])
    | none => []
  | none => []

/-- A request that the BMC refuses.  The monitor validates the datagram like any other and
counts its session sequence number (it has been on the wire: `stepLost`); the BMC does not
execute the command (phase unchanged: a refused Activate Session grants nothing, a refused Close
Session leaves the session open). -/
def stepRefused (md5 : List Nat → List Nat) (cfg : BmcCfg) (st : BmcState) (cc : Nat) (dgram : List Nat) :
    BmcState × Verdict :=
  match stepLost md5 cfg st dgram with
  | (st', .protocolError w) => (st', .protocolError w)
  | (st', .reply _) => (st', .reply (refusal md5 cfg st cc dgram))

/-- does the BMC hold an open session (one that Close Session would have to end)? -/
def Phase.sessionOpen : Phase → Bool
  | .active _ _ => true
  | _ => false

/-- the BMC as a peer of a remote console: it answers, or stays silent when it objects -/
def peer (md5 : List Nat → List Nat) (cfg : BmcCfg) (st : BmcState) (d : List Nat) :
    BmcState × Option (List Nat) :=
  match step md5 cfg st d with
  | (st', .reply r) => (st', some r)
  | (st', .protocolError _) => (st', none)

/-- the BMC behind a network that loses datagrams: `plan i` tells whether datagram number `i`
(counted from 0 over everything the console transmits) is lost -/
def lossy (md5 : List Nat → List Nat) (cfg : BmcCfg) (plan : Nat → Bool) :
    Nat × BmcState → List Nat → (Nat × BmcState) × Option (List Nat)
  | (i, st), d =>
    if plan i then ((i + 1, (stepLost md5 cfg st d).1), none)
    else ((i + 1, (peer md5 cfg st d).1), (peer md5 cfg st d).2)

/-- the BMC with a fault plan: `plan i` tells what happens to datagram number `i` (counted from 0
over everything the console transmits): `none` = it is answered -/
def faulty (md5 : List Nat → List Nat) (cfg : BmcCfg) (plan : Nat → Option Fault) :
    Nat × BmcState → List Nat → (Nat × BmcState) × Option (List Nat)
  | (i, st), d =>
    match plan i with
    | none => ((i + 1, (peer md5 cfg st d).1), (peer md5 cfg st d).2)
    | some .silence => ((i + 1, (stepLost md5 cfg st d).1), none)
    | some (.refuse cc) =>
      ((i + 1, (stepRefused md5 cfg st cc d).1),
       match (stepRefused md5 cfg st cc d).2 with
       | .reply r => some r
       | .protocolError _ => none)

/-- how many consecutive transmissions a fault has to hit to make one request fail when the
console transmits every request up to `R + 1` times: silence all of them, a refusal the first -/
def Fault.span (R : Nat) : Fault → Nat
  | .silence => R + 1
  | .refuse _ => 1

/-- the fault plan "fault `f` on the `n` datagrams number `i0 … i0 + n - 1`, none elsewhere" -/
def faultAt (i0 n : Nat) (f : Fault) : Nat → Option Fault :=
  fun i => if i0 ≤ i ∧ i < i0 + n then some f else none

/-- run the monitor over a list of datagrams; the final state tells whether any was flagged -/
def run (md5 : List Nat → List Nat) (cfg : BmcCfg) : BmcState → List (List Nat) → BmcState
  | st, [] => st
  | st, d :: ds => run md5 cfg (step md5 cfg st d).1 ds

/-- the monitor over everything the console transmitted, each datagram with the flag "lost" -/
def runWire (md5 : List Nat → List Nat) (cfg : BmcCfg) : BmcState → List (Bool × List Nat) → BmcState
  | st, [] => st
  | st, (lost, d) :: ds =>
    runWire md5 cfg (if lost then (stepLost md5 cfg st d).1 else (step md5 cfg st d).1) ds

/-- the verdicts of the monitor on a list of datagrams, one per datagram -/
def verdicts (md5 : List Nat → List Nat) (cfg : BmcCfg) : BmcState → List (List Nat) → List Verdict
  | _, [] => []
  | st, d :: ds => (step md5 cfg st d).2 :: verdicts md5 cfg (step md5 cfg st d).1 ds

def Verdict.isReply : Verdict → Bool
  | .reply _ => true
  | .protocolError _ => false

/-! ### authentication-type strength (IPMI: MD5 > MD2 > straight password > none; OEM is not comparable
and never preferred over a standard type here) -/

/-- strongest type of `types` that is offered, in the order given (strongest first) -/
def strongest (caps : Nat) : List Nat → Option Nat
  | [] => none
  | a :: r => if offered caps a then some a else strongest caps r

/-- the types this specification ranks, strongest first -/
def strengthOrder : List Nat := [authMd5, authMd2, authPassword, authOem, authNone]

end PyIpmi.Spec.BmcSession
