/-
  Spec.Ipmitool — what the program `ipmitool` expects on its command line and what it prints,
  written from ipmitool(1) and ipmitool's sources (src/ipmitool.c option table,
  lib/ipmi_raw.c `ipmi_raw_main`, lib/log.c `lprintf`, lib/ipmi_strings.c), not from the Python.

  Command line (ipmitool(1)):
      ipmitool -I <intf> -H <host> -p <port> -L <privlvl> [-C <cipher>] -U <user> -P <password>
               [-T <transit addr> -B <transit channel>] [-t <target addr> [-b <target channel>]]
               -l <lun> raw <netfn> <cmd> [<data> …]
      privilege levels: CALLBACK, USER, OPERATOR, ADMINISTRATOR  (IPMI: 1, 2, 3, 4)
      numeric operands are read with strtol(…, 0): decimal or 0x-prefixed hexadecimal.

  Output of `raw` (lib/ipmi_raw.c):
      no response:        lprintf(LOG_ERR, "Unable to send RAW command (channel=0x%x netfn=0x%x lun=0x%x cmd=0x%x)")
      completion code≠0:  lprintf(LOG_ERR, "Unable to send RAW command (channel=0x%x netfn=0x%x lun=0x%x cmd=0x%x rsp=0x%x): %s")
      otherwise, on stdout:
          for (i = 0; i < len; i++) { if (i % 16 == 0 && i != 0) printf("\n"); printf(" %2.2x", data[i]); }
          printf("\n");
      `lprintf` writes the line and "\n" to STDERR (lib/log.c) – a caller that wants to see
      these lines has to redirect descriptor 2.
-/
import PyIpmi.Spec.Sh
namespace PyIpmi.Spec.Ipmitool
open PyIpmi.Spec.Sh (Str)

/-! ### numbers -/

def hexDigit (n : Nat) : Nat := if n < 10 then 48 + n else 87 + n

/-- lower-case hexadecimal digits of `n`, most significant first, no padding (`%x`);
`fuel` bounds the recursion (any `fuel > log16 n` gives the same result) -/
def hexAux : Nat → Nat → Str → Str
  | 0, _, acc => acc
  | fuel + 1, n, acc =>
    if n < 16 then hexDigit n :: acc else hexAux fuel (n / 16) (hexDigit (n % 16) :: acc)

/-- `%x` -/
def hexL (n : Nat) : Str := hexAux (n + 1) n []

/-- `%02x` / `%2.2x`: at least two digits -/
def hex02 (n : Nat) : Str := if n < 16 then [48, hexDigit n] else hexL n

def decAux : Nat → Nat → Str → Str
  | 0, _, acc => acc
  | fuel + 1, n, acc =>
    if n < 10 then (48 + n) :: acc else decAux fuel (n / 10) ((48 + n % 10) :: acc)

/-- `%d` of a natural number -/
def dec (n : Nat) : Str := decAux (n + 1) n []

/-- "0x" ++ s -/
def ox (s : Str) : Str := 48 :: 120 :: s

/-! ### command line -/

structure Hop where
  rqSa : Nat
  rsSa : Nat
  chan : Nat
  deriving DecidableEq, Repr

/-- who the request is for: the BMC itself, a slave address behind it, or an explicit path
`[(rq, rs, channel to the next hop), …]` whose last responder is the addressee -/
inductive Target where
  | bmc
  | addr (a : Nat)
  | routed (hops : List Hop)
  deriving DecidableEq, Repr

/-- IPMI privilege level → ipmitool's `-L` operand -/
def levelName : Nat → Option Str
  | 2 => some [85, 83, 69, 82]                                                   -- USER
  | 3 => some [79, 80, 69, 82, 65, 84, 79, 82]                                   -- OPERATOR
  | 4 => some [65, 68, 77, 73, 78, 73, 83, 84, 82, 65, 84, 79, 82]               -- ADMINISTRATOR
  | _ => none

def opt (letter : Nat) (v : Str) : List Str := [[45, letter], v]

/-- bridging options.  One hop: the session's BMC answers itself, nothing to bridge.
Two hops: single bridging (`-t` addressee, `-b` channel of the first hop).  Three hops:
double bridging (`-T`/`-B` transit hop, `-t`/`-b` addressee). -/
def targetArgv : Target → Option (List Str)
  | .bmc => some []
  | .addr a => some (if a = 0 then [] else opt 116 (ox (hex02 a)))
  | .routed [_] => some []
  | .routed [h0, h1] => some (opt 116 (ox (hex02 h1.rsSa)) ++ opt 98 (dec h0.chan))
  | .routed [h0, h1, h2] =>
    some (opt 84 (ox (hex02 h1.rsSa)) ++ opt 66 (dec h0.chan)
          ++ opt 116 (ox (hex02 h2.rsSa)) ++ opt 98 (dec h1.chan))
  | .routed _ => none

/-- `-l <lun> raw <netfn> <bytes…>` -/
def rawArgv (lun netfn : Nat) (raw : List Nat) : List Str :=
  opt 108 (dec lun) ++ [[114, 97, 119]] ++ (netfn :: raw).map (fun b => ox (hex02 b))

/-- credentials: user and password as they are, each ONE argument; without credentials an
empty password keeps ipmitool from prompting -/
def credArgv : Option (Str × Str) → List Str
  | some (u, p) => opt 85 u ++ opt 80 p
  | none => opt 80 []

/-- `-C <cipher suite>` when one was configured -/
def cipherArgv : Option Str → List Str
  | some x => opt 67 x
  | none => []

structure Lan where
  path : Str
  iface : Str
  host : Str
  port : Str
  level : Nat
  cipher : Option Str
  cred : Option (Str × Str)
  deriving DecidableEq, Repr

/-- argument vector (argv[0] included) of a raw request over lan / lanplus -/
def lanArgv (c : Lan) (t : Target) (lun netfn : Nat) (raw : List Nat) : Option (List Str) := do
  let lv ← levelName c.level
  let tg ← targetArgv t
  pure ([c.path] ++ opt 73 c.iface ++ opt 72 c.host ++ opt 112 c.port ++ opt 76 lv
        ++ cipherArgv c.cipher
        ++ credArgv c.cred ++ tg ++ rawArgv lun netfn raw)

/-- raw request over the local `open` driver -/
def openArgv (path iface : Str) (t : Target) (lun netfn : Nat) (raw : List Nat) : Option (List Str) := do
  let tg ← targetArgv t
  pure ([path] ++ opt 73 iface ++ tg ++ rawArgv lun netfn raw)

/-- raw request over a serial terminal: `-D <device>:<baud>` -/
def serialArgv (path iface port baud : Str) (t : Target) (lun netfn : Nat) (raw : List Nat) :
    Option (List Str) := do
  let tg ← targetArgv t
  pure ([path] ++ opt 73 iface ++ opt 68 (port ++ [58] ++ baud) ++ tg ++ rawArgv lun netfn raw)

/-- credentials of the presence ping: user and password, or `-A NONE` -/
def pingCredArgv : Option (Str × Str) → List Str
  | some (u, p) => opt 85 u ++ opt 80 p
  | none => opt 65 [78, 79, 78, 69]

/-- ipmitool(1): "-L <privlvl>  Force session privilege level.  Can be CALLBACK, USER, OPERATOR,
ADMINISTRATOR.  Default is ADMINISTRATOR." -/
def defaultLevel : Str := [65, 68, 77, 73, 78, 73, 83, 84, 82, 65, 84, 79, 82]

/-- the two ways to start ipmitool at privilege level `lv`: `-L lv` spelled out, or — only for the
default level — no `-L` at all -/
def levelArgvD (spelled : Bool) (lv : Str) : List Str :=
  if lv = defaultLevel ∧ spelled = false then [] else opt 76 lv

/-- presence ping: `session info all` on the configured interface / host / port, at the configured
privilege level, with the configured cipher suite and the session's credentials.  `spelled = false`
leaves `-L` out when (and only when) the configured level is ipmitool's default. -/
def pingArgv (spelled : Bool) (path iface host port : Str) (level : Nat) (cipher : Option Str)
    (cred : Option (Str × Str)) : Option (List Str) := do
  let lv ← levelName level
  pure ([path] ++ opt 73 iface ++ opt 72 host ++ opt 112 port ++ levelArgvD spelled lv
    ++ cipherArgv cipher ++ pingCredArgv cred
    ++ [[115, 101, 115, 115, 105, 111, 110], [105, 110, 102, 111], [97, 108, 108]])

/-- what ipmitool's option scan (getopt: every option of this back-end takes one operand) makes of
an argument vector without argv[0]: (letter, operand) pairs up to the first non-option -/
def optScan : List Str → List (Nat × Str)
  | [45, c] :: v :: rest => (c, v) :: optScan rest
  | _ => []

/-- the operand the program works with for option `letter`: the last one given, else its default -/
def effOpt (letter : Nat) (dflt : Option Str) (args : List Str) : Option Str :=
  match ((optScan args).filter (fun p => p.1 = letter)).getLast? with
  | some p => some p.2
  | none => dflt

/-- privilege level / cipher suite a started ipmitool runs with (`none` = ipmitool's built-in suite) -/
def effLevel (argv : List Str) : Option Str := effOpt 76 (some defaultLevel) argv.tail
def effCipher (argv : List Str) : Option Str := effOpt 67 none argv.tail

/-! ### output -/

/-- " %2.2x" -/
def byteCell (b : Nat) : Str := 32 :: hex02 b

/-- the loop of `ipmi_raw_main`, `i` being the index of the next byte -/
def printFrom (i : Nat) : List Nat → Str
  | [] => [10]
  | b :: bs => (if i % 16 = 0 ∧ i ≠ 0 then [10] else []) ++ byteCell b ++ printFrom (i + 1) bs

/-- what `ipmitool raw` writes to stdout for response data `bs` (completion code 0) -/
def printRaw (bs : List Nat) : Str := printFrom 0 bs

/-- one output line per chunk, every line ended by "\n" — `printRaw` for any wrapping -/
def printLines (chunks : List (List Nat)) : Str :=
  chunks.flatMap (fun ch => ch.flatMap byteCell ++ [10])

/-- "Unable to send RAW command (channel=0x… netfn=0x… lun=0x… cmd=0x…" -/
def errHead (ch nf lun cmd : Nat) : Str :=
  [85, 110, 97, 98, 108, 101, 32, 116, 111, 32, 115, 101, 110, 100, 32, 82, 65, 87, 32,
   99, 111, 109, 109, 97, 110, 100, 32, 40,
   99, 104, 97, 110, 110, 101, 108, 61, 48, 120] ++ hexL ch
  ++ [32, 110, 101, 116, 102, 110, 61, 48, 120] ++ hexL nf
  ++ [32, 108, 117, 110, 61, 48, 120] ++ hexL lun
  ++ [32, 99, 109, 100, 61, 48, 120] ++ hexL cmd

/-- the line printed when no response arrived -/
def timeoutLine (ch nf lun cmd : Nat) : Str := errHead ch nf lun cmd ++ [41]

/-- the line printed for completion code `cc ≠ 0`, `text` being `val2str(cc, completion_code_vals)` -/
def ccLine (ch nf lun cmd cc : Nat) (text : Str) : Str :=
  errHead ch nf lun cmd ++ [32, 114, 115, 112, 61, 48, 120] ++ hexL cc ++ [41, 58, 32] ++ text

/-! ### the text behind a completion code -/

/-- `completion_code_vals` of ipmitool's lib/ipmi_strings.c -/
def ccTexts : List (Nat × Str) :=
  [
   (192, [78, 111, 100, 101, 32, 98, 117, 115, 121]),  -- 0xc0 Node busy
   (193, [73, 110, 118, 97, 108, 105, 100, 32, 99, 111, 109, 109, 97, 110, 100]),  -- 0xc1 Invalid command
   (194, [73, 110, 118, 97, 108, 105, 100, 32, 99, 111, 109, 109, 97, 110, 100, 32, 111, 110, 32, 76, 85, 78]),  -- 0xc2 Invalid command on LUN
   (195, [84, 105, 109, 101, 111, 117, 116]),  -- 0xc3 Timeout
   (196, [79, 117, 116, 32, 111, 102, 32, 115, 112, 97, 99, 101]),  -- 0xc4 Out of space
   (197, [82, 101, 115, 101, 114, 118, 97, 116, 105, 111, 110, 32, 99, 97, 110, 99, 101, 108, 108, 101, 100, 32, 111, 114, 32, 105, 110, 118, 97, 108, 105, 100]),  -- 0xc5 Reservation cancelled or invalid
   (198, [82, 101, 113, 117, 101, 115, 116, 32, 100, 97, 116, 97, 32, 116, 114, 117, 110, 99, 97, 116, 101, 100]),  -- 0xc6 Request data truncated
   (199, [82, 101, 113, 117, 101, 115, 116, 32, 100, 97, 116, 97, 32, 108, 101, 110, 103, 116, 104, 32, 105, 110, 118, 97, 108, 105, 100]),  -- 0xc7 Request data length invalid
   (200, [82, 101, 113, 117, 101, 115, 116, 32, 100, 97, 116, 97, 32, 102, 105, 101, 108, 100, 32, 108, 101, 110, 103, 116, 104, 32, 108, 105, 109, 105, 116, 32, 101, 120, 99, 101, 101, 100, 101, 100]),  -- 0xc8 Request data field length limit exceeded
   (201, [80, 97, 114, 97, 109, 101, 116, 101, 114, 32, 111, 117, 116, 32, 111, 102, 32, 114, 97, 110, 103, 101]),  -- 0xc9 Parameter out of range
   (202, [67, 97, 110, 110, 111, 116, 32, 114, 101, 116, 117, 114, 110, 32, 110, 117, 109, 98, 101, 114, 32, 111, 102, 32, 114, 101, 113, 117, 101, 115, 116, 101, 100, 32, 100, 97, 116, 97, 32, 98, 121, 116, 101, 115]),  -- 0xca Cannot return number of requested data bytes
   (203, [82, 101, 113, 117, 101, 115, 116, 101, 100, 32, 115, 101, 110, 115, 111, 114, 44, 32, 100, 97, 116, 97, 44, 32, 111, 114, 32, 114, 101, 99, 111, 114, 100, 32, 110, 111, 116, 32, 102, 111, 117, 110, 100]),  -- 0xcb Requested sensor, data, or record not found
   (204, [73, 110, 118, 97, 108, 105, 100, 32, 100, 97, 116, 97, 32, 102, 105, 101, 108, 100, 32, 105, 110, 32, 114, 101, 113, 117, 101, 115, 116]),  -- 0xcc Invalid data field in request
   (205, [67, 111, 109, 109, 97, 110, 100, 32, 105, 108, 108, 101, 103, 97, 108, 32, 102, 111, 114, 32, 115, 112, 101, 99, 105, 102, 105, 101, 100, 32, 115, 101, 110, 115, 111, 114, 32, 111, 114, 32, 114, 101, 99, 111, 114, 100, 32, 116, 121, 112, 101]),  -- 0xcd Command illegal for specified sensor or record type
   (206, [67, 111, 109, 109, 97, 110, 100, 32, 114, 101, 115, 112, 111, 110, 115, 101, 32, 99, 111, 117, 108, 100, 32, 110, 111, 116, 32, 98, 101, 32, 112, 114, 111, 118, 105, 100, 101, 100]),  -- 0xce Command response could not be provided
   (207, [67, 97, 110, 110, 111, 116, 32, 101, 120, 101, 99, 117, 116, 101, 32, 100, 117, 112, 108, 105, 99, 97, 116, 101, 100, 32, 114, 101, 113, 117, 101, 115, 116]),  -- 0xcf Cannot execute duplicated request
   (208, [83, 68, 82, 32, 82, 101, 112, 111, 115, 105, 116, 111, 114, 121, 32, 105, 110, 32, 117, 112, 100, 97, 116, 101, 32, 109, 111, 100, 101]),  -- 0xd0 SDR Repository in update mode
   (209, [68, 101, 118, 105, 99, 101, 32, 102, 105, 114, 109, 101, 119, 97, 114, 101, 32, 105, 110, 32, 117, 112, 100, 97, 116, 101, 32, 109, 111, 100, 101]),  -- 0xd1 Device firmeware in update mode
   (210, [66, 77, 67, 32, 105, 110, 105, 116, 105, 97, 108, 105, 122, 97, 116, 105, 111, 110, 32, 105, 110, 32, 112, 114, 111, 103, 114, 101, 115, 115]),  -- 0xd2 BMC initialization in progress
   (211, [68, 101, 115, 116, 105, 110, 97, 116, 105, 111, 110, 32, 117, 110, 97, 118, 97, 105, 108, 97, 98, 108, 101]),  -- 0xd3 Destination unavailable
   (212, [73, 110, 115, 117, 102, 102, 105, 99, 105, 101, 110, 116, 32, 112, 114, 105, 118, 105, 108, 101, 103, 101, 32, 108, 101, 118, 101, 108]),  -- 0xd4 Insufficient privilege level
   (213, [67, 111, 109, 109, 97, 110, 100, 32, 110, 111, 116, 32, 115, 117, 112, 112, 111, 114, 116, 101, 100, 32, 105, 110, 32, 112, 114, 101, 115, 101, 110, 116, 32, 115, 116, 97, 116, 101]),  -- 0xd5 Command not supported in present state
   (214, [67, 97, 110, 110, 111, 116, 32, 101, 120, 101, 99, 117, 116, 101, 32, 99, 111, 109, 109, 97, 110, 100, 44, 32, 99, 111, 109, 109, 97, 110, 100, 32, 100, 105, 115, 97, 98, 108, 101, 100]),  -- 0xd6 Cannot execute command, command disabled
   (255, [85, 110, 115, 112, 101, 99, 105, 102, 105, 101, 100, 32, 101, 114, 114, 111, 114])   -- 0xff Unspecified error
  ]

def hexDigitU (n : Nat) : Nat := if n < 10 then 48 + n else 55 + n

/-- `val2str(cc, completion_code_vals)`: the table's text, else "Unknown (0x%02X)" -/
def ccText (cc : Nat) : Str :=
  match ccTexts.lookup cc with
  | some t => t
  | none => [85, 110, 107, 110, 111, 119, 110, 32, 40, 48, 120, hexDigitU (cc / 16 % 16), hexDigitU (cc % 16), 41]

end PyIpmi.Spec.Ipmitool
