/-
  C08 specification side for HPM.1 long duration commands.  Written from HPM.1 R1.0 §3
  ("long duration commands", Get upgrade status), not from pyipmi/hpm.py:

    An IPM controller may answer Initiate upgrade action, Upload firmware block, Finish firmware
    upload, Activate firmware and Initiate manual rollback with completion code 80h "command in
    progress".  The command then goes on executing; its OUTCOME is delivered by Get upgrade
    status, response byte "last completion code": 80h while the command executes, afterwards
    the completion code the command ended with - 00h when it succeeded, any other value when it
    failed (e.g. Finish firmware upload: 81h number of bytes received does not match, 82h
    checksum mismatch, 83h image does not match the component).

  So an operation whose request was answered 80h "completes with the same result it produces
  without the fault" (the property's clause for adaptations) only if the BMC reported the end
  of the command with 00h.  In the fault-injection device of Spec/FaultDevice.lean the BMC is a
  fixed script, hence what its Get upgrade status says is one of three things:
-/
import PyIpmi.Spec.FaultDevice
namespace PyIpmi.Spec.HpmLong
open PyIpmi PyIpmi.Prog PyIpmi.Spec.FaultDevice

/-- What the BMC's Get upgrade status says about the long duration command. -/
inductive LongEnd where
  | succeeded       -- last completion code 00h
  | failed          -- a final code other than 00h (or the status query itself is refused)
  | stillRunning    -- last completion code 80h, for as long as the requester polls
  deriving DecidableEq, Repr

/-- `busy` / `failed` read the last completion code out of a status response. -/
def longEnd (busy failed : Rsp → Bool) (rsp : Rsp) : LongEnd :=
  if rsp.cc ≠ 0 then .failed
  else if busy rsp then .stillRunning
  else if failed rsp then .failed
  else .succeeded

/-- "Errors reported by the BMC are never mistaken for success", for an operation whose request
the BMC answered with 80h: it may complete normally ONLY IF the status reports that the command
ended with 00h.  (Everything else - an error carrying a code, HpmError - is admitted by `Safe`.) -/
def LongSafe (e : LongEnd) (bad : Res Unit) : Prop := bad = .ok () → e = .succeeded

end PyIpmi.Spec.HpmLong
