/-
  Spec/SdrDevice.lean — reference SDR device (C11), written from IPMI v2.0 §33 (SDR Repository
  commands: 33.11 Reserve SDR Repository, 33.12 Get SDR) and §35 (35.3 Get Device SDR, 35.4 Reserve
  Device SDR Repository), NOT from the Python.

  One management controller holds two record stores — the SDR Repository (NetFn Storage 0Ah) and
  the Device SDR store of its sensor device (NetFn Sensor/Event 04h) — each with its own
  reservation.  What the property quantifies over is configuration (`Cfg`):

    * the records of each store (full record bytes: 5-byte header `id_lo id_hi ver type len` +
      `len` payload bytes) in repository order;
    * `limit`   — most bytes the device returns per read; a longer read is refused with CAh
                  "cannot return number of requested data bytes";
    * `strict`  — whether the reservation is also checked for reads at offset 0 (the text makes
                  it mandatory only for partial reads with a non-zero offset; both are conforming);
    * `cancels` — request indices (over ALL requests, from 0) before which the reservations are
                  cancelled (as after any repository update);
    * `transients` — request indices answered C3h (timeout) / CEh (response could not be provided)
                  instead of being processed.

  The device works on decoded requests (`step`); `handleBytes` is the thin wire wrapper used by the
  driver and mirrored by `harness/sim/dev11.py` (compared byte by byte on every run).
  Core Lean only.
-/
import PyIpmi.Base.Bytes
namespace PyIpmi.Spec.Sdr

inductive Store where
  | repo | dev
  deriving DecidableEq, Repr, Inhabited

/-- A decoded request as the device sees it. -/
inductive Req where
  | reserve (s : Store)
  | get (s : Store) (res id off cnt : Nat)
  | badLength
  | other (netfn cmd : Nat)
  deriving DecidableEq, Repr, Inhabited

inductive Rsp where
  | err (cc : Nat)
  | reserved (id : Nat)
  | data (next : Nat) (bytes : List Nat)
  deriving DecidableEq, Repr, Inhabited

def Req.store? : Req → Option Store
  | .reserve s => some s
  | .get s _ _ _ _ => some s
  | _ => none

/-! ### completion codes (IPMI v2.0 table 5-2) -/
def ccInvalidCmd : Nat := 0xC1
def ccTimeout : Nat := 0xC3
def ccResCanceled : Nat := 0xC5
def ccBadLength : Nat := 0xC7
def ccOutOfRange : Nat := 0xC9
def ccCantReturn : Nat := 0xCA
def ccNotPresent : Nat := 0xCB
def ccRespUnavail : Nat := 0xCE
def lastRecord : Nat := 0xFFFF

/-! ### records -/

/-- Record ID: bytes 0..1 of the record, little-endian. -/
def recId (r : List Nat) : Nat := r.getD 0 0 + 256 * r.getD 1 0

/-- ID of the record following the given suffix, or FFFFh. -/
def nextOf : List (List Nat) → Nat
  | [] => lastRecord
  | r :: _ => recId r

def findRec : List (List Nat) → Nat → Option (List Nat × Nat)
  | [], _ => none
  | r :: rest, id => if recId r = id then some (r, nextOf rest) else findRec rest id

/-- Record addressed by `id` and the id of its successor; 0000h addresses the first record. -/
def lookup (recs : List (List Nat)) (id : Nat) : Option (List Nat × Nat) :=
  if id = 0 then
    match recs with
    | [] => none
    | r :: rest => some (r, nextOf rest)
  else findRec recs id

/-- One well-formed record: header present, length byte consistent, all bytes. -/
def recWf (r : List Nat) : Prop := 5 ≤ r.length ∧ r.getD 4 0 + 5 = r.length ∧ Bytes r

/-- A well-formed store: well-formed records with pairwise distinct ids, none FFFFh, and
0000h only possibly on the first record. -/
def recsWf : List (List Nat) → Prop
  | [] => True
  | r :: rest => recWf r ∧ recId r ≠ lastRecord ∧ (∀ q ∈ rest, recId q ≠ recId r ∧ recId q ≠ 0) ∧ recsWf rest

/-! ### configuration and state -/

structure Cfg where
  repo : List (List Nat)
  dev : List (List Nat)
  limit : Nat
  strict : Bool
  cancels : List Nat
  transients : List (Nat × Nat)
  deriving Repr, Inhabited

def Cfg.recs (c : Cfg) : Store → List (List Nat)
  | .repo => c.repo
  | .dev => c.dev

structure State where
  n : Nat               -- requests received so far
  repoRes : Nat         -- last reservation id issued for the repository
  repoValid : Bool      -- … and whether it is still valid
  devRes : Nat
  devValid : Bool
  log : List Req        -- every request received, oldest first
  deriving Repr, Inhabited

def State.init (repoRes devRes : Nat) : State := ⟨0, repoRes, false, devRes, false, []⟩

def State.res (st : State) : Store → Nat
  | .repo => st.repoRes
  | .dev => st.devRes

def State.valid (st : State) : Store → Bool
  | .repo => st.repoValid
  | .dev => st.devValid

def State.grant (st : State) (s : Store) (id : Nat) : State :=
  match s with
  | .repo => { st with repoRes := id, repoValid := true }
  | .dev => { st with devRes := id, devValid := true }

def State.cancelAll (st : State) : State := { st with repoValid := false, devValid := false }

/-- Reservation ids run 1..FFFFh and wrap; 0000h is never issued. -/
def nextRes (c : Nat) : Nat := if c + 1 ≥ 0x10000 then 1 else c + 1

def transientAt : List (Nat × Nat) → Nat → Option Nat
  | [], _ => none
  | (i, c) :: rest, n => if i = n then some c else transientAt rest n

/-- "Bytes to read": FFh means the rest of the record. -/
def effCount (recLen off cnt : Nat) : Nat := if cnt = 0xFF then recLen - off else cnt

/-- Get SDR / Get Device SDR on store `s` in state `st`. -/
def getRsp (cfg : Cfg) (st : State) (s : Store) (res id off cnt : Nat) : Rsp :=
  match lookup (cfg.recs s) id with
  | none => .err ccNotPresent
  | some (rec, nxt) =>
    if (cfg.strict || off != 0) && !(st.valid s && st.res s == res) then .err ccResCanceled
    else if off > rec.length then .err ccOutOfRange
    else
      let cnt' := effCount rec.length off cnt
      if off + cnt' > rec.length then .err ccOutOfRange
      else if cnt' > cfg.limit then .err ccCantReturn
      else .data nxt ((rec.drop off).take cnt')

/-- The device: one request, one response. -/
def step (cfg : Cfg) (st : State) (r : Req) : State × Rsp :=
  let st1 : State := { st with n := st.n + 1, log := st.log ++ [r] }
  let st2 : State := if cfg.cancels.contains st.n then st1.cancelAll else st1
  match transientAt cfg.transients st.n with
  | some c => (st2, .err c)
  | none =>
    match r with
    | .reserve s => let id := nextRes (st2.res s); (st2.grant s id, .reserved id)
    | .get s res id off cnt => (st2, getRsp cfg st2 s res id off cnt)
    | .badLength => (st2, .err ccBadLength)
    | .other _ _ => (st2, .err ccInvalidCmd)

/-- Configuration well-formedness: what the property quantifies over. -/
structure Cfg.wf (c : Cfg) : Prop where
  repo : recsWf c.repo
  dev : recsWf c.dev
  trans : ∀ p ∈ c.transients, p.2 = ccTimeout ∨ p.2 = ccRespUnavail

/-! ### wire wrapper (driver / Python twin only; no theorem depends on it) -/

def netfnStorage : Nat := 0x0A
def netfnSensor : Nat := 0x04
def cmdReserve : Nat := 0x22
def cmdGetSdr : Nat := 0x23
def cmdGetDeviceSdr : Nat := 0x21

def parseFrame (netfn cmd : Nat) (data : List Nat) : Req :=
  let store? : Option Store :=
    if netfn = netfnStorage then some .repo else if netfn = netfnSensor then some .dev else none
  match store? with
  | none => .other netfn cmd
  | some s =>
    if cmd = cmdReserve then (if data.isEmpty then .reserve s else .badLength)
    else if (s = .repo ∧ cmd = cmdGetSdr) ∨ (s = .dev ∧ cmd = cmdGetDeviceSdr) then
      match data with
      | [a, b, c, d, e, f] => .get s (a + 256 * b) (c + 256 * d) e f
      | _ => .badLength
    else .other netfn cmd

def Rsp.toBytes : Rsp → List Nat
  | .err c => [c]
  | .reserved id => [0, id % 256, id / 256 % 256]
  | .data nxt b => [0, nxt % 256, nxt / 256 % 256] ++ b

/-- Request frame of a decoded request (what a conforming requester puts on the wire). -/
def Req.frame : Req → Nat × Nat × List Nat
  | .reserve .repo => (netfnStorage, cmdReserve, [])
  | .reserve .dev => (netfnSensor, cmdReserve, [])
  | .get s res id off cnt =>
    ((match s with | .repo => netfnStorage | .dev => netfnSensor),
     (match s with | .repo => cmdGetSdr | .dev => cmdGetDeviceSdr),
     [res % 256, res / 256 % 256, id % 256, id / 256 % 256, off % 256, cnt % 256])
  | .badLength => (0, 0, [])
  | .other nf c => (nf, c, [])

def handleBytes (cfg : Cfg) (st : State) (netfn cmd : Nat) (data : List Nat) : State × List Nat :=
  let (st', r) := step cfg st (parseFrame netfn cmd data)
  (st', r.toBytes)

end PyIpmi.Spec.Sdr
