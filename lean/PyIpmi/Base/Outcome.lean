/-
  Outcome: the explicit sum that stands for "returned a value" / "raised exception X"
  in every model of Python code.  Kept tiny and import-free so that drivers link natively.
-/
namespace PyIpmi

/-- Result of running a piece of modelled Python.  Each library exception class is its own
constructor; `pyError n` is any *other* Python exception (IndexError, TypeError,
AttributeError, …) with its class name. -/
inductive Outcome (α : Type) where
  | ok (a : α)
  | decodingError
  | encodingError
  | ccError (cc : Nat)
  | retryError
  | hpmError
  | timeoutError
  | notSupported
  | pyError (name : String)
  deriving Repr, DecidableEq, Inhabited

namespace Outcome

@[inline] def bind {α β} (x : Outcome α) (f : α → Outcome β) : Outcome β :=
  match x with
  | ok a => f a
  | decodingError => decodingError
  | encodingError => encodingError
  | ccError c => ccError c
  | retryError => retryError
  | hpmError => hpmError
  | timeoutError => timeoutError
  | notSupported => notSupported
  | pyError n => pyError n

instance : Monad Outcome where
  pure := ok
  bind := bind

def isOk {α} : Outcome α → Bool
  | ok _ => true
  | _ => false

/-- Canonical short tag used by the line protocol. -/
def tag {α} : Outcome α → String
  | ok _ => "ok"
  | decodingError => "DecodingError"
  | encodingError => "EncodingError"
  | ccError c => s!"CompletionCodeError:{c}"
  | retryError => "RetryError"
  | hpmError => "HpmError"
  | timeoutError => "IpmiTimeoutError"
  | notSupported => "NotSupportedError"
  | pyError n => s!"py:{n}"

@[simp] theorem bind_ok {α β} (a : α) (f : α → Outcome β) : (ok a).bind f = f a := rfl
@[simp] theorem pure_eq {α} (a : α) : (pure a : Outcome α) = ok a := rfl
@[simp] theorem bind_eq {α β} (x : Outcome α) (f : α → Outcome β) : (x >>= f) = x.bind f := rfl

end Outcome
end PyIpmi
