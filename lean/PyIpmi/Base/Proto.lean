/-
  Line-protocol helpers shared by all drivers: hex <-> byte lists, integer tokens,
  a generic stdin loop.  Not part of any theorem (trusted as test plumbing; any bug here
  shows up as a correspondence disagreement on the first case).
-/
import PyIpmi.Base.Outcome
namespace PyIpmi.Proto

def hexDigit (n : Nat) : Char :=
  if n < 10 then Char.ofNat (48 + n) else Char.ofNat (87 + n)

def hex2 (b : Nat) : String :=
  String.ofList [hexDigit (b / 16 % 16), hexDigit (b % 16)]

/-- Byte list → lowercase hex; the empty list is printed as `-` so that tokens never vanish. -/
def toHex (l : List Nat) : String :=
  if l.isEmpty then "-" else String.join (l.map hex2)

def hexVal (c : Char) : Option Nat :=
  if '0' ≤ c ∧ c ≤ '9' then some (c.toNat - 48)
  else if 'a' ≤ c ∧ c ≤ 'f' then some (c.toNat - 87)
  else if 'A' ≤ c ∧ c ≤ 'F' then some (c.toNat - 55)
  else none

def parseHexAux : List Char → List Nat → Option (List Nat)
  | [], acc => some acc.reverse
  | [_], _ => none
  | a :: b :: rest, acc =>
    match hexVal a, hexVal b with
    | some x, some y => parseHexAux rest ((16 * x + y) :: acc)
    | _, _ => none

/-- Inverse of `toHex` (`-` is the empty list). -/
def ofHex (s : String) : Option (List Nat) :=
  if s == "-" then some [] else parseHexAux s.toList []

def tokens (line : String) : List String :=
  (line.trimAscii.toString.splitOn " ").filter (· ≠ "")

def natList (l : List Nat) : String :=
  if l.isEmpty then "-" else ",".intercalate (l.map toString)

def parseNatList (s : String) : Option (List Nat) :=
  if s == "-" then some [] else (s.splitOn ",").mapM String.toNat?

def parseInt (s : String) : Option Int :=
  if s.startsWith "-" then (s.drop 1).toNat?.map (fun n => - (Int.ofNat n))
  else s.toNat?.map Int.ofNat

/-- Generic request/response loop: one input line ↦ one output line. -/
partial def loop (h : IO.FS.Stream) (out : IO.FS.Stream) (f : String → String) : IO Unit := do
  let line ← h.getLine
  if line.isEmpty then return ()
  out.putStrLn (f line)
  out.flush
  loop h out f

/-- Stateful variant. -/
partial def loopS {σ : Type} (h : IO.FS.Stream) (out : IO.FS.Stream)
    (f : σ → String → σ × String) (s : σ) : IO Unit := do
  let line ← h.getLine
  if line.isEmpty then return ()
  let (s', r) := f s line
  out.putStrLn r
  out.flush
  loopS h out f s'

end PyIpmi.Proto
