/-
  Bytes as `List Nat` with an explicit range predicate, little-endian integers,
  8-bit sums.  Core only.
-/
namespace PyIpmi

/-- Every element is a byte. -/
def Bytes (l : List Nat) : Prop := ∀ b ∈ l, b < 256

/-- Boolean version (used in generated / decidable side conditions). -/
def isBytes (l : List Nat) : Bool := l.all (· < 256)

theorem isBytes_iff (l : List Nat) : isBytes l = true ↔ Bytes l := by
  simp [isBytes, Bytes]

theorem Bytes.nil : Bytes [] := by intro b h; cases h

theorem Bytes.cons {b : Nat} {l : List Nat} (hb : b < 256) (hl : Bytes l) : Bytes (b :: l) := by
  intro x hx
  cases hx with
  | head => exact hb
  | tail _ h => exact hl x h

theorem Bytes.head {b : Nat} {l : List Nat} (h : Bytes (b :: l)) : b < 256 :=
  h b (List.mem_cons_self)

theorem Bytes.tail {b : Nat} {l : List Nat} (h : Bytes (b :: l)) : Bytes l :=
  fun x hx => h x (List.mem_cons_of_mem _ hx)

theorem Bytes.append {a b : List Nat} (ha : Bytes a) (hb : Bytes b) : Bytes (a ++ b) := by
  intro x hx
  rcases List.mem_append.mp hx with h | h
  · exact ha x h
  · exact hb x h

theorem Bytes.of_append_left {a b : List Nat} (h : Bytes (a ++ b)) : Bytes a :=
  fun x hx => h x (List.mem_append.mpr (Or.inl hx))

theorem Bytes.of_append_right {a b : List Nat} (h : Bytes (a ++ b)) : Bytes b :=
  fun x hx => h x (List.mem_append.mpr (Or.inr hx))

theorem Bytes.take {l : List Nat} (h : Bytes l) (n : Nat) : Bytes (l.take n) :=
  fun x hx => h x (List.mem_of_mem_take hx)

theorem Bytes.drop {l : List Nat} (h : Bytes l) (n : Nat) : Bytes (l.drop n) :=
  fun x hx => h x (List.mem_of_mem_drop hx)

/-- `n` little-endian bytes of `v` (Python: `(v >> 8*i) & 0xff` for `i` in `range(n)`);
silently truncates, exactly like `ByteBuffer.push_unsigned_int`. -/
def leBytes : Nat → Nat → List Nat
  | 0, _ => []
  | n + 1, v => (v % 256) :: leBytes n (v / 256)

/-- Value of a little-endian byte list (Python: `value |= b << 8*i`). -/
def leVal : List Nat → Nat
  | [] => 0
  | b :: bs => b + 256 * leVal bs

@[simp] theorem leBytes_length (n v : Nat) : (leBytes n v).length = n := by
  induction n generalizing v with
  | zero => rfl
  | succ n ih => simp [leBytes, ih]

theorem leBytes_bytes (n v : Nat) : Bytes (leBytes n v) := by
  induction n generalizing v with
  | zero => exact Bytes.nil
  | succ n ih => exact Bytes.cons (Nat.mod_lt _ (by decide)) (ih _)

theorem leVal_leBytes (n v : Nat) (h : v < 256 ^ n) : leVal (leBytes n v) = v := by
  induction n generalizing v with
  | zero => simp [leBytes, leVal]; simp at h; omega
  | succ n ih =>
    simp only [leBytes, leVal]
    have : v / 256 < 256 ^ n := by
      rw [Nat.pow_succ] at h
      exact Nat.div_lt_of_lt_mul (by rw [Nat.mul_comm]; exact h)
    rw [ih _ this]; omega

theorem leVal_lt (l : List Nat) (h : Bytes l) : leVal l < 256 ^ l.length := by
  induction l with
  | nil => simp [leVal]
  | cons b bs ih =>
    have hb := h.head
    have := ih h.tail
    simp only [leVal, List.length_cons, Nat.pow_succ]
    omega

theorem leBytes_leVal (l : List Nat) (h : Bytes l) : leBytes l.length (leVal l) = l := by
  induction l with
  | nil => rfl
  | cons b bs ih =>
    have hb := h.head
    simp only [List.length_cons, leBytes, leVal]
    have h1 : (b + 256 * leVal bs) % 256 = b := by omega
    have h2 : (b + 256 * leVal bs) / 256 = leVal bs := by omega
    rw [h1, h2, ih h.tail]

/-- Byte `i` of the little-endian encoding is `v / 256^i % 256` (wire-format statement). -/
theorem leBytes_getElem (n v i : Nat) (hi : i < n) :
    (leBytes n v)[i]'(by simpa using hi) = v / 256 ^ i % 256 := by
  induction n generalizing v i with
  | zero => omega
  | succ n ih =>
    cases i with
    | zero => simp [leBytes]
    | succ i =>
      simp only [leBytes, List.getElem_cons_succ]
      rw [ih (v / 256) i (by omega), Nat.div_div_eq_div_mul, Nat.pow_succ, Nat.mul_comm]

/-- Sum of all elements modulo 256. -/
def sum8 (l : List Nat) : Nat := l.sum % 256

end PyIpmi
