/-
  Compositions of modelled operations (C08): every resolution of a skeleton whose calls of
  modelled operations (`leaf`) are interpreted by their models is safe, for either notion of
  safety (`Safety`: one fault / any fault set), provided each model is safe on the states it is
  reached in.

  `R` is any property of interpreter states that the fault-free run preserves (what the data
  seen so far guarantee about the next leaf's arguments: an area offset inside the inventory,
  a record id the device named, ...); with `R := fun _ => True` the leaf hypothesis is
  unconditional.

  * `SkH.run_safe`     the joint statement: safe, and the fault-free run preserves `R`
-/
import PyIpmi.Lemmas.ProgMulti
namespace PyIpmi.Prog
open PyIpmi.Spec.FaultDevice

theorem outcome_done_inv {α σ : Type} {a b : α} {d : Dev σ} {s : σ}
    (h : outcome (.done a : Prog α) d s = .ok b) : b = a := by
  rw [outcome_done] at h; cases h; rfl

theorem outcome_fail_inv {α σ : Type} {e : Err} {b : α} {d : Dev σ} {s : σ}
    (h : outcome (.fail e : Prog α) d s = .ok b) : False := by
  rw [outcome_fail] at h; cases h

theorem SkH.run_safe (base : Req → Rsp) (S : {α : Type} → Prog α → Prop) (hS : Safety base S)
    (env : Env) (leaf : Nat → Option (St → Prog St)) (table : List Sk) (R : St → Prop)
    (hpc : ∀ st, R st → R { st with pc := st.pc + 1 })
    (hstop : ∀ st b, R st → R { st with stopped := b })
    (hsend : ∀ st m rsp n, R st →
      outcome (sendChecked ⟨m, env.payload m st.hist⟩) (pureDev base) n = .ok rsp →
      R { st with hist := rsp :: st.hist })
    (hleafR : ∀ op L st st' n, leaf op = some L → R st →
      outcome (L st) (pureDev base) n = .ok st' → R st')
    (hleaf : ∀ op L st, leaf op = some L → R st → S (L st))
    (fuel : Nat) (sk : Sk) (st : St) (hR : R st) :
    S (SkH.run env leaf table fuel sk st) ∧
      ∀ n st', outcome (SkH.run env leaf table fuel sk st) (pureDev base) n = .ok st' → R st' := by
  induction fuel generalizing sk st with
  | zero =>
    unfold SkH.run
    exact ⟨hS.fail _, fun n st' h => (outcome_fail_inv h).elim⟩
  | succ f ih =>
    cases sk with
    | skip =>
      unfold SkH.run
      exact ⟨hS.done _, fun n st' h => by rw [outcome_done_inv h]; exact hR⟩
    | send m =>
      unfold SkH.run
      refine ⟨hS.bind _ _ (hS.sendChecked _) (fun _ _ => hS.done _), fun n st' h => ?_⟩
      obtain ⟨rsp, h1, h2⟩ := outcome_bind_inv h
      rw [outcome_done_inv h2]
      exact hsend st m rsp n hR h1
    | call op =>
      unfold SkH.run
      cases hl : leaf op with
      | some L =>
        simp only
        refine ⟨hS.bind _ _ (hleaf op L st hl hR) (fun _ _ => hS.done _), fun n st' h => ?_⟩
        obtain ⟨st1, h1, h2⟩ := outcome_bind_inv h
        rw [outcome_done_inv h2]
        exact hstop _ _ (hleafR op L st st1 n hl hR h1)
      | none =>
        simp only
        cases ht : table[op]? with
        | some sk' =>
          simp only
          refine ⟨hS.bind _ _ (ih sk' st hR).1 (fun _ _ => hS.done _), fun n st' h => ?_⟩
          obtain ⟨st1, h1, h2⟩ := outcome_bind_inv h
          rw [outcome_done_inv h2]
          exact hstop _ _ ((ih sk' st hR).2 n st1 h1)
        | none =>
          simp only
          exact ⟨hS.fail _, fun n st' h => (outcome_fail_inv h).elim⟩
    | seq a b =>
      unfold SkH.run
      refine ⟨hS.bind _ _ (ih a st hR).1 (fun st1 h1 => ?_), fun n st' h => ?_⟩
      · obtain ⟨n1, hn1⟩ := h1
        have hR1 := (ih a st hR).2 n1 st1 hn1
        split
        · exact hS.done _
        · exact (ih b st1 hR1).1
      · obtain ⟨st1, h1, h2⟩ := outcome_bind_inv h
        have hR1 := (ih a st hR).2 n st1 h1
        split at h2
        · rw [outcome_done_inv h2]; exact hR1
        · exact (ih b st1 hR1).2 _ st' h2
    | alt a b =>
      unfold SkH.run
      simp only
      split
      · exact ih a _ (hpc st hR)
      · exact ih b _ (hpc st hR)
    | rep body =>
      unfold SkH.run
      simp only
      split
      · refine ⟨hS.bind _ _ (ih body _ (hpc st hR)).1 (fun st1 h1 => ?_), fun n st' h => ?_⟩
        · obtain ⟨n1, hn1⟩ := h1
          have hR1 := (ih body _ (hpc st hR)).2 n1 st1 hn1
          split
          · exact hS.done _
          · exact (ih (.rep body) st1 hR1).1
        · obtain ⟨st1, h1, h2⟩ := outcome_bind_inv h
          have hR1 := (ih body _ (hpc st hR)).2 n st1 h1
          split at h2
          · rw [outcome_done_inv h2]; exact hR1
          · exact (ih (.rep body) st1 hR1).2 _ st' h2
      · exact ⟨hS.done _, fun n st' h => by rw [outcome_done_inv h]; exact hpc st hR⟩
    | stop =>
      unfold SkH.run
      split
      · exact ⟨hS.done _, fun n st' h => by rw [outcome_done_inv h]; exact hstop st true hR⟩
      · exact ⟨hS.fail _, fun n st' h => (outcome_fail_inv h).elim⟩

end PyIpmi.Prog
