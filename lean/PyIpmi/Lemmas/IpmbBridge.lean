/-
  Lemmas for C09: one Send Message layer (wrap ↦ peel), the layered reply (wrap ↦ unwrap).
-/
import PyIpmi.Lemmas.Ipmb
import PyIpmi.Model.Bridge
import PyIpmi.Spec.Bridges
namespace PyIpmi.Bridge
open PyIpmi PyIpmi.Ipmb PyIpmi.Spec.Wire PyIpmi.Spec.Bridges

/-! ### request direction -/

/-- header of the Send Message request `encode_send_message` builds -/
def sendHdr (rqSa rsSa seq : Nat) : Hdr :=
  { netfn := 6, rsLun := 0, rsSa := rsSa, seq := seq, rqLun := 0, rqSa := rqSa, cmd := 0x34 }

theorem sendHdr_inRange {rqSa rsSa seq : Nat} (h1 : rqSa < 256) (h2 : rsSa < 256) (h3 : seq < 64) :
    (sendHdr rqSa rsSa seq).InRange := by
  simp [sendHdr, Hdr.InRange]; omega

/-- channel number in bits 3:0, request tracking (01b) in bits 7:6, nothing else set -/
theorem channelByte_track : ∀ ch, ch < 16 → channelByte ch 1 = 64 + ch := by decide

theorem encodeSendMessage_eq (p : List Nat) (rqSa rsSa ch seq : Nat)
    (h1 : rqSa < 256) (h2 : rsSa < 256) (h3 : seq < 64) :
    encodeSendMessage p rqSa rsSa ch seq = .ok (frameOf (sendHdr rqSa rsSa seq) (channelByte ch 1 :: p)) := by
  unfold encodeSendMessage
  exact encodeIpmbMsg_frameOf (sendHdr rqSa rsSa seq) _ (sendHdr_inRange h1 h2 h3)

theorem peel_sendFrame (p : List Nat) (rqSa rsSa ch seq : Nat)
    (h1 : rqSa < 256) (h2 : rsSa < 256) (h3 : seq < 64) (h4 : ch < 16) :
    peel (frameOf (sendHdr rqSa rsSa seq) (channelByte ch 1 :: p)) =
      some ({ bridge := rsSa, src := rqSa, channel := ch, tracking := 1, seq := seq }, p) := by
  unfold peel
  rw [parseReq_frameOf _ _ (sendHdr_inRange h1 h2 h3), channelByte_track ch h4]
  have e1 : (64 + ch) / 16 % 4 = 0 := by omega
  have e2 : (64 + ch) % 16 = ch := by omega
  have e3 : (64 + ch) / 64 = 1 := by omega
  simp [sendHdr, netfnApp, cmdSendMessage, e1, e2, e3]

/-! ### reply direction -/

theorem wrapLayer_length (h : Hdr) (cc : Nat) (inner : List Nat) :
    (wrapLayer h cc inner).length = inner.length + 8 := by
  simp [wrapLayer, mkReply_length]

theorem wrapReply_length_ge (hs : List Hdr) (r : List Nat) : r.length ≤ (wrapReply hs r).length := by
  induction hs with
  | nil => simp [wrapReply]
  | cons h hs ih => simp only [wrapReply, wrapLayer_length]; omega

theorem wrapLayer_cmd (h : Hdr) (cc : Nat) (inner : List Nat) :
    (wrapLayer h cc inner)[5]'(by rw [wrapLayer_length]; omega) = 0x34 := by
  simp [wrapLayer, mkReply, cmdSendMessage]

theorem wrapLayer_byte5 (h : Hdr) (cc : Nat) (inner : List Nat) : byteAt (wrapLayer h cc inner) 5 = 0x34 := by
  simp [wrapLayer, mkReply, cmdSendMessage, byteAt]

theorem wrapLayer_byte1 (h : Hdr) (cc : Nat) (inner : List Nat) :
    byteAt (wrapLayer h cc inner) 1 = 28 + h.rqLun := by
  simp [wrapLayer, mkReply, netfnApp, byteAt]

theorem wrapLayer_byte4 (h : Hdr) (cc : Nat) (inner : List Nat) :
    byteAt (wrapLayer h cc inner) 4 = h.seq * 4 + h.rsLun := by
  simp [wrapLayer, mkReply, byteAt]

theorem wrapLayer_hdrOk (h : Hdr) (cc : Nat) (inner : List Nat) : hdrOk (wrapLayer h cc inner) :=
  mkReply_hdrOk _ _

theorem wrapLayer_payOk (h : Hdr) (cc : Nat) (inner : List Nat) : payOk (wrapLayer h cc inner) :=
  mkReply_payOk _ _

/-- the specification's Send Message response IS one (for a 2-bit requester LUN) -/
theorem wrapLayer_isSendMsgRsp (h : Hdr) (cc : Nat) (inner : List Nat) (hq : h.rqLun < 4) :
    IsSendMsgRsp (wrapLayer h cc inner) := by
  refine ⟨by rw [wrapLayer_length]; omega, wrapLayer_hdrOk _ _ _, wrapLayer_payOk _ _ _, ?_, ?_⟩
  · unfold rspNetfn; rw [wrapLayer_byte1]; simp [netfnApp]; omega
  · unfold rspCmd; rw [wrapLayer_byte5]; rfl

theorem wrapLayer_drop6 (h : Hdr) (cc : Nat) (inner : List Nat) :
    ∃ c, (wrapLayer h cc inner).drop 6 = cc :: (inner ++ [c]) := by
  simp [wrapLayer, mkReply]

theorem wrapLayer_inner (h : Hdr) (cc : Nat) (inner : List Nat) :
    ((wrapLayer h cc inner).drop 7).dropLast = inner := by
  simp [wrapLayer, mkReply]

/-! #### recognition -/

/-- the model's test is the specification's, per variant -/
theorem isSendMsgRsp_repaired_iff (verify : Bool) (f : List Nat) :
    isSendMsgRsp .repaired verify f = true ↔
      (NamesSendMsgRsp f ∧ (verify = true → hdrOk f ∧ payOk f)) := by
  unfold isSendMsgRsp NamesSendMsgRsp rspNetfn rspCmd hdrOk payOk
  simp only [Bool.and_eq_true, beq_iff_eq, Bool.or_eq_true, Bool.not_eq_true', pyChecksum_zero_iff, shr2,
    Gen.IpmbFilter.constNetfnApp, Gen.IpmbFilter.constSendMsgCmd, netfnApp, cmdSendMessage]
  cases verify <;> simp

theorem isSendMsgRsp_asShipped_iff (verify : Bool) (f : List Nat) :
    isSendMsgRsp .asShipped verify f = true ↔ rspCmd f = cmdSendMessage := by
  simp [isSendMsgRsp, rspCmd, Gen.IpmbFilter.constSendMsgCmd, cmdSendMessage]

/-- both variants recognise an intact Send Message response -/
theorem isSendMsgRsp_of_spec (v : Variant) (verify : Bool) (f : List Nat) (hs : IsSendMsgRsp f) :
    isSendMsgRsp v verify f = true := by
  cases v with
  | asShipped => exact (isSendMsgRsp_asShipped_iff verify f).2 hs.2.2.2.2
  | repaired => exact (isSendMsgRsp_repaired_iff verify f).2 ⟨hs.2.2.2, fun _ => ⟨hs.2.1, hs.2.2.1⟩⟩

/-- repaired: a frame that does not name the Send Message response is left alone -/
theorem not_names_not_recognised (verify : Bool) (f : List Nat) (hn : ¬ NamesSendMsgRsp f) :
    isSendMsgRsp .repaired verify f = false := by
  rw [Bool.eq_false_iff]
  intro h
  exact hn ((isSendMsgRsp_repaired_iff verify f).1 h).1

/-- repaired, `verify=True`: a frame with a bad checksum is not taken for a Send Message response -/
theorem damaged_not_recognised (f : List Nat) (hd : ¬ (hdrOk f ∧ payOk f)) :
    isSendMsgRsp .repaired true f = false := by
  rw [Bool.eq_false_iff]
  intro h
  exact hd (((isSendMsgRsp_repaired_iff true f).1 h).2 rfl)

/-- more fuel than bytes is as good as any -/
theorem decodeN_fuel (v : Variant) (verify : Bool) (n m : Nat) (rx : List Nat) (hn : rx.length < n)
    (hm : rx.length < m) : decodeN v verify n rx = decodeN v verify m rx := by
  induction n generalizing m rx with
  | zero => omega
  | succ n ih =>
    cases m with
    | zero => omega
    | succ m =>
      simp only [decodeN]
      by_cases hl : 5 < rx.length
      · simp only [hl, if_true]
        cases hs : isSendMsgRsp v verify rx with
        | false => simp
        | true =>
          simp only [if_true]
          cases hd : rx.drop 6 with
          | nil => rfl
          | cons cc t =>
            simp only
            by_cases hcc : cc = 0
            · simp only [hcc, ne_eq, not_true_eq_false, if_false]
              by_cases hs6 : ((rx.drop 7).dropLast).length < 6
              · simp only [hs6, if_true]
              · simp only [hs6, if_false]
                apply ih <;> (simp only [List.length_dropLast, List.length_drop]; omega)
            · simp [hcc]
      · simp only [hl, if_false]

/-- the loop of `decode_bridged_message`, one round unfolded -/
theorem decodeBridged_eq (v : Variant) (verify : Bool) (rx : List Nat) :
    decodeBridged v verify rx =
      if 5 < rx.length then
        if isSendMsgRsp v verify rx then
          match rx.drop 6 with
          | [] => .decodingError
          | cc :: _ =>
            if cc ≠ 0 then .ccError cc
            else if ((rx.drop 7).dropLast).length < 6 then .ok (rx.drop 7).dropLast
            else decodeBridged v verify (rx.drop 7).dropLast
        else .ok rx
      else shortFrame v rx := by
  conv => lhs; unfold decodeBridged; simp only [decodeN]
  by_cases hl : 5 < rx.length
  · simp only [hl, if_true]
    cases hs : isSendMsgRsp v verify rx with
    | false => simp
    | true =>
      simp only [if_true]
      cases hd : rx.drop 6 with
      | nil => rfl
      | cons cc t =>
        simp only
        by_cases hcc : cc = 0
        · simp only [hcc, ne_eq, not_true_eq_false, if_false]
          by_cases hs6 : ((rx.drop 7).dropLast).length < 6
          · simp only [hs6, if_true]
          · simp only [hs6, if_false]
            unfold decodeBridged
            apply decodeN_fuel <;> (simp only [List.length_dropLast, List.length_drop]; omega)
        · simp [hcc]
  · simp only [hl, if_false]

/-- one step of the unwrapping loop on a Send Message response -/
theorem decodeBridged_layer (v : Variant) (verify : Bool) (h : Hdr) (cc : Nat) (inner : List Nat)
    (hq : v = .repaired → h.rqLun < 4) :
    decodeBridged v verify (wrapLayer h cc inner) =
      if cc ≠ 0 then .ccError cc
      else if inner.length < 6 then .ok inner else decodeBridged v verify inner := by
  rw [decodeBridged_eq]
  have hl : 5 < (wrapLayer h cc inner).length := by rw [wrapLayer_length]; omega
  obtain ⟨c, hc⟩ := wrapLayer_drop6 h cc inner
  have hrec : isSendMsgRsp v verify (wrapLayer h cc inner) = true := by
    cases v with
    | asShipped => rw [isSendMsgRsp_asShipped_iff]; unfold rspCmd; rw [wrapLayer_byte5]; rfl
    | repaired => exact isSendMsgRsp_of_spec _ _ _ (wrapLayer_isSendMsgRsp h cc inner (hq rfl))
  simp only [hl, if_true, hrec, hc, wrapLayer_inner]

theorem decodeBridged_plain (v : Variant) (verify : Bool) (r : List Nat) (h6 : 6 ≤ r.length)
    (hn : isSendMsgRsp v verify r = false) : decodeBridged v verify r = .ok r := by
  rw [decodeBridged_eq]
  have hl : 5 < r.length := by omega
  simp [hl, hn]

theorem rspCmd_of_getElem? (r : List Nat) (hc : r[5]? ≠ some 0x34) : rspCmd r ≠ cmdSendMessage := by
  unfold rspCmd byteAt cmdSendMessage
  intro h
  apply hc
  by_cases hl : 5 < r.length
  · rw [List.getElem?_eq_getElem hl]
    simp [List.getD, List.getElem?_eq_getElem hl] at h
    rw [h]
  · simp [List.getD, List.getElem?_eq_none (by omega : r.length ≤ 5)] at h

/-! ### whole-message lemmas used by Props/C09 -/

theorem encodeBridged_append (rs : List Route) (last : Route) (h : Hdr) (p : List Nat) (seq : Nat) :
    encodeBridged (rs ++ [last]) h p seq =
      rs.foldr (fun b acc => acc.bind fun tx => encodeSendMessage tx b.rqSa b.rsSa b.channel seq)
        (encodeIpmbMsg { h with rqSa := last.rqSa, rsSa := last.rsSa } p) := by
  simp [encodeBridged]

theorem decodeBridged_ack (v : Variant) (verify : Bool) (layers : List Hdr) (acking : Hdr)
    (hq : v = .repaired → (∀ h ∈ layers, h.rqLun < 4) ∧ acking.rqLun < 4) :
    decodeBridged v verify (wrapReply layers (wrapLayer acking 0 [])) = .ok [] := by
  induction layers with
  | nil => simp [wrapReply, decodeBridged_layer v verify acking 0 [] (fun hv => (hq hv).2)]
  | cons h hs ih =>
    have hlen := wrapReply_length_ge hs (wrapLayer acking 0 [])
    rw [wrapLayer_length] at hlen
    have : ¬ (wrapReply hs (wrapLayer acking 0 [])).length < 6 := by omega
    have ih' := ih (fun hv => ⟨fun x hx => (hq hv).1 x (List.mem_cons_of_mem _ hx), (hq hv).2⟩)
    simp [wrapReply, decodeBridged_layer v verify h 0 _ (fun hv => (hq hv).1 h List.mem_cons_self), this, ih']

/-! ### the transport's treatment of one frame -/

theorem bridgeHdr_even (seq : Nat) : (bridgeHdr seq).netfn % 2 = 0 := by
  simp [bridgeHdr, Gen.IpmbFilter.constNetfnApp]

/-- the response to the outermost Send Message of THIS transaction passes the repaired transport's
first filter (`rx_filter(bridge_header, …)`) -/
theorem bridge_filter_layer (seq : Nat) (fl : Flags) (h : Hdr) (cc : Nat) (inner : List Nat)
    (hs : SendMsgOf seq h) :
    rxFilter (bridgeHdr seq) (wrapLayer h cc inner) { rqSeq := fl.rqSeq } = .ok true := by
  obtain ⟨h1, h2, h3⟩ := hs
  rw [rxFilter_true_iff _ _ _ (bridgeHdr_even seq)]
  have e1 : (28 + h.rqLun) / 4 = 7 := by omega
  refine ⟨by rw [wrapLayer_length]; omega, wrapLayer_hdrOk _ _ _, wrapLayer_payOk _ _ _, ?_, ?_, ?_, ?_, ?_, ?_, ?_⟩
  · unfold rspNetfn; rw [wrapLayer_byte1, e1]; rfl
  · unfold rspCmd; rw [wrapLayer_byte5]; rfl
  · intro _; unfold rspRsLun; rw [wrapLayer_byte4, h1]; simp [bridgeHdr]
  · intro _; unfold rspSeq; rw [wrapLayer_byte4, h1, h3]; simp [bridgeHdr]
  · intro hx; cases hx
  · intro hx; cases hx
  · intro hx; cases hx

/-- a Send Message response that belongs to ANOTHER transaction (other sequence number, comparison
not switched off) does not pass it -/
theorem bridge_filter_foreign (seq : Nat) (fl : Flags) (h : Hdr) (cc : Nat) (inner : List Nat)
    (hfl : fl.rqSeq = true) (hl : h.rsLun < 4) (hne : h.seq ≠ seq) :
    rxFilter (bridgeHdr seq) (wrapLayer h cc inner) { rqSeq := fl.rqSeq } = .ok false := by
  have h6 : 6 ≤ (wrapLayer h cc inner).length := by rw [wrapLayer_length]; omega
  cases hx : rxFilter (bridgeHdr seq) (wrapLayer h cc inner) { rqSeq := fl.rqSeq } with
  | ok b =>
    cases b with
    | false => rfl
    | true =>
      have := ((rxFilter_true_iff _ _ _ (bridgeHdr_even seq)).1 hx).2.2.2.2.2.2.1 hfl
      unfold rspSeq at this
      rw [wrapLayer_byte4] at this
      simp only [bridgeHdr] at this
      omega
  | _ =>
    unfold rxFilter at hx
    rw [rspNeeds_eq] at hx
    simp [show ¬ (wrapLayer h cc inner).length = 0 by omega, show ¬ (wrapLayer h cc inner).length < 6 by omega] at hx


theorem afterFilter_hit (req : Hdr) (fl : Flags) (g : List Nat) (hn : req.netfn % 2 = 0)
    (hr : isReplyTo req g fl) : afterFilter req fl g = .hit (replyData g) := by
  simp [afterFilter, (rxFilter_true_iff req g fl hn).2 hr, replyData, frameData]

theorem afterFilter_noise (req : Hdr) (fl : Flags) (g : List Nat) (hn : req.netfn % 2 = 0) (h6 : 6 ≤ g.length)
    (hr : ¬ isReplyTo req g fl) : afterFilter req fl g = .noise := by
  simp [afterFilter, rxFilter_false req g fl hn h6 hr]

theorem rxFilter_shape (req : Hdr) (fl : Flags) (g : List Nat) :
    (∃ b, rxFilter req g fl = .ok b) ∨ (∃ n, rxFilter req g fl = .pyError n) := by
  unfold rxFilter
  split
  · exact Or.inr ⟨_, rfl⟩
  · split
    · exact Or.inr ⟨_, rfl⟩
    · exact Or.inl ⟨_, rfl⟩

/-- the filter never produces a completion-code error: only unwrapping does -/
theorem afterFilter_no_cc (req : Hdr) (fl : Flags) (g : List Nat) (c : Nat) :
    afterFilter req fl g ≠ .err (.ccError c) := by
  unfold afterFilter
  rcases rxFilter_shape req fl g with ⟨b, hb⟩ | ⟨n, hn⟩
  · rw [hb]; cases b <;> (intro h; cases h)
  · rw [hn]; intro h; simp [errAs] at h

/-- repaired transport: a bare acknowledgement of THIS transaction is skipped -/
theorem classify_ack (seq : Nat) (req : Hdr) (fl : Flags) (f : List Nat) (ha : AckOf seq f) :
    classifyRx .repaired (some (bridgeHdr seq)) req fl f = .ack := by
  obtain ⟨layers, acking, hl, hk, rfl⟩ := ha
  have hq : Variant.repaired = .repaired → (∀ h ∈ layers, h.rqLun < 4) ∧ acking.rqLun < 4 :=
    fun _ => ⟨fun h hh => (hl h hh).2.1, hk.2.1⟩
  have hdec := decodeBridged_ack .repaired true layers acking hq
  cases layers with
  | nil =>
    simp only [wrapReply] at hdec ⊢
    simp [classifyRx, bridge_filter_layer seq fl acking 0 [] hk, hdec, afterUnwrap]
  | cons h hs =>
    simp only [wrapReply] at hdec ⊢
    simp [classifyRx, bridge_filter_layer seq fl h 0 _ (hl h List.mem_cons_self), hdec, afterUnwrap]

theorem recv_skip_ack (seq : Nat) (req : Hdr) (fl : Flags) (f : List Nat) (rest : List (List Nat))
    (ha : AckOf seq f) :
    recvBridged .repaired (some (bridgeHdr seq)) req fl (f :: rest) =
      recvBridged .repaired (some (bridgeHdr seq)) req fl rest := by
  rw [recvBridged, classify_ack seq req fl f ha]

end PyIpmi.Bridge
