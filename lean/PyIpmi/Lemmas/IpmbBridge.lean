/-
  Lemmas for C09: one Send Message layer (wrap ↦ peel), the layered reply (wrap ↦ unwrap).
-/
import PyIpmi.Lemmas.Ipmb
import PyIpmi.Model.Bridge
import PyIpmi.Spec.Bridges
namespace PyIpmi.Bridge
open PyIpmi PyIpmi.Ipmb PyIpmi.Spec.Wire PyIpmi.Spec.Bridges

/-! ### request direction -/

/-- header of the Send Message request `encode_send_message` builds -/
def sendHdr (rqSa rsSa seq : Nat) : Hdr :=
  { netfn := 6, rsLun := 0, rsSa := rsSa, seq := seq, rqLun := 0, rqSa := rqSa, cmd := 0x34 }

theorem sendHdr_inRange {rqSa rsSa seq : Nat} (h1 : rqSa < 256) (h2 : rsSa < 256) (h3 : seq < 64) :
    (sendHdr rqSa rsSa seq).InRange := by
  simp [sendHdr, Hdr.InRange]; omega

/-- channel number in bits 3:0, request tracking (01b) in bits 7:6, nothing else set -/
theorem channelByte_track : ∀ ch, ch < 16 → channelByte ch 1 = 64 + ch := by decide

theorem encodeSendMessage_eq (p : List Nat) (rqSa rsSa ch seq : Nat)
    (h1 : rqSa < 256) (h2 : rsSa < 256) (h3 : seq < 64) :
    encodeSendMessage p rqSa rsSa ch seq = .ok (frameOf (sendHdr rqSa rsSa seq) (channelByte ch 1 :: p)) := by
  unfold encodeSendMessage
  exact encodeIpmbMsg_frameOf (sendHdr rqSa rsSa seq) _ (sendHdr_inRange h1 h2 h3)

theorem peel_sendFrame (p : List Nat) (rqSa rsSa ch seq : Nat)
    (h1 : rqSa < 256) (h2 : rsSa < 256) (h3 : seq < 64) (h4 : ch < 16) :
    peel (frameOf (sendHdr rqSa rsSa seq) (channelByte ch 1 :: p)) =
      some ({ bridge := rsSa, src := rqSa, channel := ch, tracking := 1, seq := seq }, p) := by
  unfold peel
  rw [parseReq_frameOf _ _ (sendHdr_inRange h1 h2 h3), channelByte_track ch h4]
  have e1 : (64 + ch) / 16 % 4 = 0 := by omega
  have e2 : (64 + ch) % 16 = ch := by omega
  have e3 : (64 + ch) / 64 = 1 := by omega
  simp [sendHdr, netfnApp, cmdSendMessage, e1, e2, e3]

/-! ### reply direction -/

theorem mkReply_length (h : Hdr) (body : List Nat) : (mkReply h body).length = body.length + 7 := by
  simp [mkReply]

theorem wrapLayer_length (h : Hdr) (cc : Nat) (inner : List Nat) :
    (wrapLayer h cc inner).length = inner.length + 8 := by
  simp [wrapLayer, mkReply_length]

theorem wrapReply_length_ge (hs : List Hdr) (r : List Nat) : r.length ≤ (wrapReply hs r).length := by
  induction hs with
  | nil => simp [wrapReply]
  | cons h hs ih => simp only [wrapReply, wrapLayer_length]; omega

theorem wrapLayer_cmd (h : Hdr) (cc : Nat) (inner : List Nat) :
    (wrapLayer h cc inner)[5]'(by rw [wrapLayer_length]; omega) = 0x34 := by
  simp [wrapLayer, mkReply, cmdSendMessage]

theorem wrapLayer_drop6 (h : Hdr) (cc : Nat) (inner : List Nat) :
    ∃ c, (wrapLayer h cc inner).drop 6 = cc :: (inner ++ [c]) := by
  simp [wrapLayer, mkReply]

theorem wrapLayer_inner (h : Hdr) (cc : Nat) (inner : List Nat) :
    ((wrapLayer h cc inner).drop 7).dropLast = inner := by
  simp [wrapLayer, mkReply]

/-- one step of the unwrapping loop on a Send Message response -/
theorem decodeBridged_layer (h : Hdr) (cc : Nat) (inner : List Nat) :
    decodeBridged (wrapLayer h cc inner) =
      if cc ≠ 0 then .ccError cc
      else if inner.length < 6 then .ok inner else decodeBridged inner := by
  rw [decodeBridged]
  have hl : 5 < (wrapLayer h cc inner).length := by rw [wrapLayer_length]; omega
  obtain ⟨c, hc⟩ := wrapLayer_drop6 h cc inner
  simp only [hl, dite_true, wrapLayer_cmd, Gen.IpmbFilter.constSendMsgCmd, ne_eq, not_true_eq_false,
    if_false, hc, wrapLayer_inner]

theorem decodeBridged_plain (r : List Nat) (h6 : 6 ≤ r.length) (hc : r[5]? ≠ some 0x34) :
    decodeBridged r = .ok r := by
  rw [decodeBridged]
  have hl : 5 < r.length := by omega
  have : r[5] ≠ 0x34 := by
    intro h; apply hc; rw [← h]; exact List.getElem?_eq_getElem hl
  simp [hl, this, Gen.IpmbFilter.constSendMsgCmd]

/-! ### whole-message lemmas used by Props/C09 -/

theorem encodeBridged_append (rs : List Route) (last : Route) (h : Hdr) (p : List Nat) (seq : Nat) :
    encodeBridged (rs ++ [last]) h p seq =
      rs.foldr (fun b acc => acc.bind fun tx => encodeSendMessage tx b.rqSa b.rsSa b.channel seq)
        (encodeIpmbMsg { h with rqSa := last.rqSa, rsSa := last.rsSa } p) := by
  simp [encodeBridged]

theorem decodeBridged_ack (layers : List Hdr) (acking : Hdr) :
    decodeBridged (wrapReply layers (wrapLayer acking 0 [])) = .ok [] := by
  induction layers with
  | nil => simp [wrapReply, decodeBridged_layer]
  | cons h hs ih =>
    have hlen := wrapReply_length_ge hs (wrapLayer acking 0 [])
    rw [wrapLayer_length] at hlen
    have : ¬ (wrapReply hs (wrapLayer acking 0 [])).length < 6 := by omega
    simp [wrapReply, decodeBridged_layer, this, ih]

theorem ack_cmd (f : List Nat) (ha : IsBareAck f) :
    ∃ h : 5 < f.length, f[5] = 0x34 := by
  obtain ⟨layers, acking, rfl⟩ := ha
  cases layers with
  | nil => exact ⟨by rw [wrapReply, wrapLayer_length]; omega, by simp only [wrapReply]; exact wrapLayer_cmd _ _ _⟩
  | cons h hs => exact ⟨by rw [wrapReply, wrapLayer_length]; omega, by simp only [wrapReply]; exact wrapLayer_cmd _ _ _⟩

theorem recv_skip_ack (req : Hdr) (fl : Flags) (f : List Nat) (rest : List (List Nat))
    (ha : IsBareAck f) : recvBridged req fl (f :: rest) = recvBridged req fl rest := by
  obtain ⟨hl, hc⟩ := ack_cmd f ha
  obtain ⟨layers, acking, rfl⟩ := ha
  rw [recvBridged]
  simp only [hl, dite_true, hc, Gen.IpmbFilter.constSendMsgCmd, if_true, decodeBridged_ack]


end PyIpmi.Bridge
