/-
  Decidable well-formedness checks over the generated operation table (C08), evaluated by
  `decide +kernel` in Props/C08.lean.  Numbers only (names are crc32 keys).
-/
import PyIpmi.Gen.ApiShapes
import PyIpmi.Gen.Registry
namespace PyIpmi.Prog
open PyIpmi.Gen.ApiShapes PyIpmi.Codec

def Sk.sends : Sk → List Nat
  | .send m => [m]
  | .seq a b => a.sends ++ b.sends
  | .alt a b => a.sends ++ b.sends
  | .rep b => b.sends
  | _ => []

def Sk.calls : Sk → List Nat
  | .call j => [j]
  | .seq a b => a.calls ++ b.calls
  | .alt a b => a.calls ++ b.calls
  | .rep b => b.calls
  | _ => []

/-- Message `m` of the registry is a request class whose response class (its neighbour in
the generated order) starts with the completion code -- what `sendChecked` tests. -/
def reqOk (reg : List MsgSpec) (m : Nat) : Bool :=
  match reg[m]?, reg[m + 1]? with
  | some q, some r =>
    q.isReq && !r.isReq && !q.malformed && !r.malformed &&
    decide (r.netfn = q.netfn + 1) && decide (r.cmd = q.cmd) &&
    (match r.layout with
     | f :: _ => decide (f.wrap = .plain) && decide (f.prim = .cc)
     | [] => false)
  | _, _ => false

def isCheckedShape (s : Shape) : Bool :=
  match s with
  | .checked => true
  | .nosend => true
  | _ => false

def shapeAt (tbl : List Op) (j : Nat) : Option Shape := (tbl[j]?).map (·.shape)

/-- Shapes that issue no request at message level. -/
def isQuietShape (s : Shape) : Bool :=
  match s with
  | .nosend => true
  | .transport => true
  | _ => false

/-- Entry `i`: calls point backwards; sends are registered request classes with a
completion-code-first response; a checked / nosend operation only calls checked / nosend
operations; nosend and transport issue nothing; kinds are known, the own ones are among
them; `loop` iff it uses a handler kind. -/
def opOk (reg : List MsgSpec) (tbl : List Op) (i : Nat) (op : Op) : Bool :=
  op.sk.calls.all (fun j => decide (j < i)) &&
  op.sk.sends.all (reqOk reg) &&
  (!isCheckedShape op.shape ||
    op.sk.calls.all (fun j => match shapeAt tbl j with | some s => isCheckedShape s | none => false)) &&
  (!isQuietShape op.shape ||
    (op.sk.sends.isEmpty &&
      op.sk.calls.all (fun j => match shapeAt tbl j with | some s => isQuietShape s | none => false))) &&
  op.kinds.all (fun k => decide (k < handlerKinds)) &&
  op.own.all (fun k => op.kinds.contains k) &&
  (decide (op.shape = .loop) == !op.kinds.isEmpty)

def tableOkAux (reg : List MsgSpec) (tbl : List Op) : Nat → List Op → Bool
  | _, [] => true
  | i, op :: rest => opOk reg tbl i op && tableOkAux reg tbl (i + 1) rest

def tableOk (reg : List MsgSpec) (tbl : List Op) : Bool := tableOkAux reg tbl 0 tbl

/-- Every public operation classified `other` is one of the listed residue. -/
def residueClosed (tbl : List Op) (allowed : List Nat) : Bool :=
  tbl.all fun op => !(op.pub && decide (op.shape = .other)) || allowed.contains op.key

/-- Every listed key is a public operation of the table with one of the given shapes. -/
def keysHaveShape (tbl : List Op) (keys : List Nat) (ok : Shape → Bool) : Bool :=
  keys.all fun k => tbl.any fun op => op.pub && decide (op.key = k) && ok op.shape

/-! ### which theorem covers which entry -/

/-- How an entry of the table is covered (the theorems are named in Props/C08.lean). -/
inductive Cover where
  | skeleton            -- checked / nosend: every resolution of its skeleton
  | primitive           -- hands the response, code included, to the caller / is `sendChecked`
  | transport           -- no request at message level: nothing to inject into
  | leaf (model : Nat)  -- has handlers of its own: the model with that number
  | composite           -- no handler of its own: a skeleton over covered entries
  | asShipped           -- outside the grammar, with a counter-example theorem
  deriving DecidableEq, Repr

/-- The cover of `op`, given the covers of the entries before it.  A leaf must be listed in
`leafs` (key, own handler kinds, model) with exactly its own handler kinds; leaves and
composites may only call covered entries. -/
def coverOf (leafs : List (Nat × List Nat × Nat)) (shipped : List Nat) (prev : List (Option Cover))
    (op : Op) : Option Cover :=
  match op.shape with
  | .checked => some .skeleton
  | .nosend => some .skeleton
  | .primitive => some .primitive
  | .transport => some .transport
  | .other => if shipped.contains op.key then some .asShipped else none
  | .loop =>
    if op.sk.calls.all (fun j => match prev[j]? with | some (some _) => true | _ => false) then
      if op.own.isEmpty then some .composite
      else
        match leafs.find? (fun l => l.1 == op.key) with
        | some l => if l.2.1 == op.own then some (.leaf l.2.2) else none
        | none => none
    else none

def covers (leafs : List (Nat × List Nat × Nat)) (shipped : List Nat) (tbl : List Op) : List (Option Cover) :=
  tbl.foldl (fun acc op => acc ++ [coverOf leafs shipped acc op]) []

def allCovered (leafs : List (Nat × List Nat × Nat)) (shipped : List Nat) (tbl : List Op) : Bool :=
  (covers leafs shipped tbl).all Option.isSome

/-- Number of public entries covered in the way `p` selects. -/
def coverCount (leafs : List (Nat × List Nat × Nat)) (shipped : List Nat) (tbl : List Op)
    (p : Cover → Bool) : Nat :=
  ((tbl.zip (covers leafs shipped tbl)).filter fun x =>
    x.1.pub && (match x.2 with | some c => p c | none => false)).length

def Cover.isLeaf : Cover → Bool
  | .leaf _ => true
  | _ => false

end PyIpmi.Prog
