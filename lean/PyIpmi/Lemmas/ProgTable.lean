/-
  Decidable well-formedness checks over the generated operation table (C08), evaluated by
  `decide +kernel` in Props/C08.lean.  Numbers only (names are crc32 keys).
-/
import PyIpmi.Gen.ApiShapes
import PyIpmi.Gen.Registry
namespace PyIpmi.Prog
open PyIpmi.Gen.ApiShapes PyIpmi.Codec

def Sk.sends : Sk → List Nat
  | .send m => [m]
  | .seq a b => a.sends ++ b.sends
  | .alt a b => a.sends ++ b.sends
  | .rep b => b.sends
  | _ => []

def Sk.calls : Sk → List Nat
  | .call j => [j]
  | .seq a b => a.calls ++ b.calls
  | .alt a b => a.calls ++ b.calls
  | .rep b => b.calls
  | _ => []

/-- Message `m` of the registry is a request class whose response class (its neighbour in
the generated order) starts with the completion code -- what `sendChecked` tests. -/
def reqOk (reg : List MsgSpec) (m : Nat) : Bool :=
  match reg[m]?, reg[m + 1]? with
  | some q, some r =>
    q.isReq && !r.isReq && !q.malformed && !r.malformed &&
    decide (r.netfn = q.netfn + 1) && decide (r.cmd = q.cmd) &&
    (match r.layout with
     | f :: _ => decide (f.wrap = .plain) && decide (f.prim = .cc)
     | [] => false)
  | _, _ => false

def isCheckedShape (s : Shape) : Bool :=
  match s with
  | .checked => true
  | .nosend => true
  | _ => false

def shapeAt (tbl : List Op) (j : Nat) : Option Shape := (tbl[j]?).map (·.shape)

/-- Entry `i`: calls point backwards; sends are registered request classes with a
completion-code-first response; a checked / nosend operation only calls checked / nosend
operations; nosend issues nothing; kinds are known; `loop` iff it uses a handler kind. -/
def opOk (reg : List MsgSpec) (tbl : List Op) (i : Nat) (op : Op) : Bool :=
  op.sk.calls.all (fun j => decide (j < i)) &&
  op.sk.sends.all (reqOk reg) &&
  (!isCheckedShape op.shape ||
    op.sk.calls.all (fun j => match shapeAt tbl j with | some s => isCheckedShape s | none => false)) &&
  (!decide (op.shape = .nosend) ||
    (op.sk.sends.isEmpty && op.sk.calls.all (fun j => decide (shapeAt tbl j = some .nosend)))) &&
  op.kinds.all (fun k => decide (k < handlerKinds)) &&
  (decide (op.shape = .loop) == !op.kinds.isEmpty)

def tableOkAux (reg : List MsgSpec) (tbl : List Op) : Nat → List Op → Bool
  | _, [] => true
  | i, op :: rest => opOk reg tbl i op && tableOkAux reg tbl (i + 1) rest

def tableOk (reg : List MsgSpec) (tbl : List Op) : Bool := tableOkAux reg tbl 0 tbl

/-- Every public operation classified `other` is one of the listed residue. -/
def residueClosed (tbl : List Op) (allowed : List Nat) : Bool :=
  tbl.all fun op => !(op.pub && decide (op.shape = .other)) || allowed.contains op.key

/-- Every listed key is a public operation of the table with one of the given shapes. -/
def keysHaveShape (tbl : List Op) (keys : List Nat) (ok : Shape → Bool) : Bool :=
  keys.all fun k => tbl.any fun op => op.pub && decide (op.key = k) && ok op.shape

end PyIpmi.Prog
