/-
  C14 — progress: no deadlock (in particular: the join of the stopper cannot deadlock), every
  step consumes a finite budget, and the bookkeeping (calls made + calls to make = calls asked
  for) that turns the safety invariant into "every maximal run completes every call with the
  caller's own reply".
-/
import PyIpmi.Lemmas.ThreadsClose
namespace PyIpmi.Threads
open PyIpmi.Spec.Threads

/-- The only program points where a thread can be blocked: the lock, the timer/event of the
keep-alive loop, the application's barrier, the join. -/
theorem stepThr_isSome {s : Sys} {t : Nat} {th : Thr} (h1 : th.pc ≠ .done)
    (h2 : th.pc = .acquire → s.lock = none) (h2' : th.pc = .idle → s.lock = none)
    (h3 : th.pc = .kaWait → s.stopped = true ∨ th.todo ≠ 0)
    (h4 : th.pc = .await → allDone .worker s.thr = true)
    (h5 : th.pc = .joinKa → allDone .keepAlive s.thr = true) : (stepThr s t th).isSome = true := by
  cases hpc : th.pc with
  | done => exact absurd hpc h1
  | acquire => simp [stepThr, hpc, h2 hpc]
  | idle => simp only [stepThr, hpc, h2' hpc]; split <;> rfl
  | ssHdr k => cases k <;> simp [stepThr, hpc]
  | recv =>
    simp only [stepThr, hpc]
    cases s.q with
    | cons r q' => simp
    | nil => cases s.sock <;> simp
  | requeue => simp [stepThr, hpc]
  | kaWait =>
    simp only [stepThr, hpc]
    rcases h3 hpc with h | h
    · simp [h]
    · split
      · rfl
      · simp
  | await => simp [stepThr, hpc, h4 hpc]
  | joinKa => simp [stepThr, hpc, h5 hpc]
  | _ => simp [stepThr, hpc]

/-- A thread that has nothing left to do: finished, or the keep-alive loop sleeping in
`stopped.wait` with no further interval to elapse and nobody having stopped it (a daemon thread). -/
def parked (s : Sys) (th : Thr) : Prop :=
  th.pc = .done ∨ (th.pc = .kaWait ∧ th.todo = 0 ∧ s.stopped = false)

theorem not_allDone {k : Kind} {l : List Thr} (h : ¬ allDone k l = true) :
    ∃ (t : Nat) (th : Thr), l[t]? = some th ∧ th.kind = k ∧ th.pc ≠ .done := by
  simp only [allDone, List.all_eq_true, Bool.or_eq_true, bne_iff_ne, beq_iff_eq] at h
  apply Classical.byContradiction
  intro hn
  apply h
  intro x hx
  obtain ⟨i, hi⟩ := List.getElem?_of_mem hx
  by_cases hk : x.kind = k
  · by_cases hd : x.pc = .done
    · exact Or.inr hd
    · exact absurd ⟨i, x, hi, hk, hd⟩ hn
  · exact Or.inl hk

/-- While some thread still has work to do, some thread can take a step.  The closing thread waits
for the keep-alive thread at `joinKa` WITHOUT holding the lock (`Inv.owner`), the event is set
(`Tear.stop`), so the keep-alive thread can always finish its call and leave its loop. -/
theorem deadlock_free {s : Sys} (hi : Inv s) (ht : Tear s) {t0 : Nat} {th0 : Thr}
    (hget : s.thr[t0]? = some th0) (hnp : ¬ parked s th0) : ∃ t, (step s t).isSome = true := by
  cases hl : s.lock with
  | some t =>
    obtain ⟨th, hth⟩ := hi.valid t hl
    have hin := (hi.owner t th hth).mpr hl
    refine ⟨t, ?_⟩
    simp only [step, hth]
    apply stepThr_isSome <;> (intro h; rw [h] at hin; simp [inLock] at hin)
  | none =>
    -- a thread of kind `k` that is not finished can move, provided (keep-alive) the event is set
    have other : ∀ (k : Kind) (t1 : Nat) (th1 : Thr), s.thr[t1]? = some th1 → th1.kind = k → th1.pc ≠ .done →
        k ≠ .closer → (k = .keepAlive → s.stopped = true) → (step s t1).isSome = true := by
      intro k t1 th1 h1 hk hd hnc hst
      simp only [step, h1]
      apply stepThr_isSome hd (fun _ => hl) (fun _ => hl)
      · intro hp
        have := ht.kaPc _ _ h1 hp
        exact Or.inl (hst (by rw [← hk, this]))
      · intro hp
        have := ht.closerPc _ _ h1 (by rw [hp]; rfl)
        rw [hk] at this; exact absurd this hnc
      · intro hp
        have := ht.closerPc _ _ h1 (by rw [hp]; rfl)
        rw [hk] at this; exact absurd this hnc
    by_cases hA : th0.pc = .await ∧ ¬ allDone .worker s.thr = true
    · obtain ⟨t1, th1, h1, hk, hd⟩ := not_allDone hA.2
      exact ⟨t1, other .worker t1 th1 h1 hk hd (by intro h; cases h) (by intro h; cases h)⟩
    by_cases hJ : th0.pc = .joinKa ∧ ¬ allDone .keepAlive s.thr = true
    · obtain ⟨t1, th1, h1, hk, hd⟩ := not_allDone hJ.2
      exact ⟨t1, other .keepAlive t1 th1 h1 hk hd (by intro h; cases h) (fun _ => ht.stop _ _ hget hJ.1)⟩
    refine ⟨t0, ?_⟩
    simp only [step, hget]
    apply stepThr_isSome
    · intro h; exact hnp (Or.inl h)
    · intro _; exact hl
    · intro _; exact hl
    · intro hp
      cases hs : s.stopped with
      | true => exact Or.inl rfl
      | false =>
        refine Or.inr ?_
        intro h0
        exact hnp (Or.inr ⟨hp, h0, hs⟩)
    · intro hp
      apply Classical.byContradiction
      intro h; exact hA ⟨hp, h⟩
    · intro hp
      apply Classical.byContradiction
      intro h; exact hJ ⟨hp, h⟩

/-- Budget of one attempt: packing (`xl + 6` steps), the transmission, and `M + 1` read / filter pairs. -/
def attLen (xl M : Nat) : Nat := xl + 2 * M + 10

/-- Above every program point inside an attempt, whatever the retry counters. -/
def top (xl M : Nat) : Nat := 3 + (M + 1) * attLen xl M

/-- Upper bound on the steps left in the current phase: inside the retry loop, (attempts still possible after
this one) × (budget of an attempt) + (steps left in this attempt, the reads still possible included). -/
def rank (xl M : Nat) (th : Thr) : Nat :=
  match th.pc with
  | .done => 0 | .actStore => 1 | .kaWait => 1 | .release => 2
  | .requeue => 3 + (M - th.retry) * attLen xl M + (2 * (M - th.rretry) + 1)
  | .recv => 3 + (M - th.retry) * attLen xl M + (2 * (M - th.rretry) + 2)
  | .send => 3 + (M - th.retry) * attLen xl M + (2 * M + 3)
  | .ssHdr k => 3 + (M - th.retry) * attLen xl M + (2 * M + 4 + k)
  | .ssWrap => 3 + (M - th.retry) * attLen xl M + (2 * M + 5 + xl)
  | .ssChk => 3 + (M - th.retry) * attLen xl M + (2 * M + 6 + xl)
  | .ssStore => 3 + (M - th.retry) * attLen xl M + (2 * M + 7 + xl)
  | .ssLoad => 3 + (M - th.retry) * attLen xl M + (2 * M + 8 + xl)
  | .actLoad => 3 + (M - th.retry) * attLen xl M + (2 * M + 9 + xl)
  | .lkHdr => top xl M | .lkStore => top xl M + 1 | .lkLoad => top xl M + 2
  | .acquire => top xl M + 3 | .hdrLoad => top xl M + 4 | .incStore => top xl M + 5 | .idle => top xl M + 6
  | .chkAct => top xl M + 7 | .joinKa => top xl M + 8 | .stopSet => top xl M + 9 | .await => top xl M + 10

/-- length budget of one call -/
def callLen (xl M : Nat) : Nat := top xl M + 11

/-- calls still to begin (keep-alive: intervals that may still elapse) × length of a call + steps
left in the current phase -/
def work (xl M : Nat) (th : Thr) : Nat := th.todo * callLen xl M + rank xl M th

def measure (s : Sys) : Nat := (s.thr.map (work s.xl s.par.maxRetries)).sum

theorem att_bound (xl M r : Nat) : 3 + (M - r) * attLen xl M + attLen xl M ≤ top xl M := by
  have h : (M - r) * attLen xl M ≤ M * attLen xl M := Nat.mul_le_mul_right _ (Nat.sub_le _ _)
  simp only [top, Nat.add_mul, Nat.one_mul]
  omega

theorem retry_dec (M r A b c : Nat) (h : r + 1 ≤ M) (hb : b < A + c) :
    (M - (r + 1)) * A + b < (M - r) * A + c := by
  have : M - r = (M - (r + 1)) + 1 := by omega
  rw [this, Nat.add_mul, Nat.one_mul]
  omega

theorem sum_set {f : Thr → Nat} {l : List Thr} {t : Nat} {a b : Thr} (h : l[t]? = some a) :
    ((l.set t b).map f).sum + f a = (l.map f).sum + f b := by
  induction l generalizing t with
  | nil => simp at h
  | cons x rest ih =>
    cases t with
    | zero => simp at h; subst h; simp; omega
    | succ t =>
      have h' : rest[t]? = some a := by simpa using h
      have := ih h'
      simp only [List.set_cons_succ, List.map_cons, List.sum_cons]; omega

theorem mul_pred_lt (n L a b : Nat) (hn : n ≠ 0) (hb : b < L + a) : (n - 1) * L + b < n * L + a := by
  have : n = (n - 1) + 1 := by omega
  generalize n - 1 = m at this
  rw [this]
  simp only [Nat.add_mul, Nat.one_mul]
  omega

theorem work_afterCall (xl M : Nat) (th : Thr) (r : CallRes) :
    work xl M (afterCall th r) < th.todo * callLen xl M + 2 := by
  have hle : (th.todo - 1) * callLen xl M ≤ th.todo * callLen xl M := Nat.mul_le_mul_right _ (Nat.sub_le _ _)
  have hL : callLen xl M = top xl M + 11 := rfl
  cases hk : th.kind with
  | keepAlive =>
    simp only [work, afterCall, nextPc, hk, if_true]
    cases r.isOk <;> simp [rank]
  | worker =>
    simp only [work, afterCall, nextPc, hk]
    by_cases h0 : th.todo - 1 = 0
    · simp [h0, rank]
    · rw [if_neg (by simp), if_neg h0]
      exact mul_pred_lt _ _ _ _ (by omega) (by simp [rank]; omega)
  | closer =>
    simp only [work, afterCall, nextPc, hk]
    rw [if_neg (by simp)]
    by_cases hc : th.closing = true
    · rw [if_pos hc]
      cases r.isOk <;> simp [rank] <;> omega
    · rw [if_neg hc]
      by_cases h0 : th.todo - 1 = 0
      · simp [h0, rank]
      · rw [if_neg h0]
        by_cases h1 : th.todo - 1 = 1
        · rw [if_pos h1]
          exact mul_pred_lt _ _ _ _ (by omega) (by simp [rank]; omega)
        · rw [if_neg h1]
          exact mul_pred_lt _ _ _ _ (by omega) (by simp [rank]; omega)

/-- What one step does to the stepping thread's own record: its work decreases. -/
theorem stepThr_dec {s s' : Sys} {t : Nat} {th : Thr} (h : stepThr s t th = some s') :
    ∃ th', s'.thr = s.thr.set t th' ∧ s'.xl = s.xl ∧ s'.par = s.par ∧
      work s.xl s.par.maxRetries th' < work s.xl s.par.maxRetries th := by
  have hb := att_bound s.xl s.par.maxRetries th.retry
  have hA : attLen s.xl s.par.maxRetries = s.xl + 2 * s.par.maxRetries + 10 := rfl
  have hL : callLen s.xl s.par.maxRetries = top s.xl s.par.maxRetries + 11 := rfl
  cases hpc : th.pc with
  | done => simp [stepThr, hpc] at h
  | acquire =>
    cases hl : s.lock with
    | some x => simp [stepThr, hpc, hl] at h
    | none =>
      simp [stepThr, hpc, hl] at h; subst h
      exact ⟨_, rfl, rfl, rfl, by simp [work, rank, hpc]; omega⟩
  | idle =>
    cases hsl : s.seqLocked with
    | false =>
      simp [stepThr, hpc, hsl] at h; subst h
      exact ⟨_, rfl, rfl, rfl, by simp [work, rank, hpc]⟩
    | true =>
      cases hl : s.lock with
      | some x => simp [stepThr, hpc, hsl, hl] at h
      | none =>
        simp [stepThr, hpc, hsl, hl] at h; subst h
        exact ⟨_, rfl, rfl, rfl, by simp [work, rank, hpc]⟩
  | lkHdr =>
    simp [stepThr, hpc] at h; subst h
    exact ⟨_, rfl, rfl, rfl, by simp [work, rank, hpc]; omega⟩
  | actLoad =>
    simp [stepThr, hpc] at h; subst h
    refine ⟨_, rfl, rfl, rfl, ?_⟩
    simp only [work]; split <;> simp [rank, hpc] <;> omega
  | ssHdr k =>
    cases k with
    | zero =>
      simp [stepThr, hpc] at h; subst h
      exact ⟨_, rfl, rfl, rfl, by simp [work, rank, hpc]⟩
    | succ k =>
      simp [stepThr, hpc] at h; subst h
      exact ⟨_, rfl, rfl, rfl, by simp [work, rank, hpc]⟩
  | ssChk =>
    simp [stepThr, hpc] at h; subst h
    refine ⟨_, rfl, rfl, rfl, ?_⟩
    simp only [work]; split <;> simp [rank, hpc] <;> omega
  | send =>
    simp [stepThr, hpc] at h; subst h
    exact ⟨_, rfl, rfl, rfl, by simp [work, rank, hpc]⟩
  | recv =>
    simp only [stepThr, hpc] at h
    cases hq : s.q with
    | cons r q' =>
      simp [hq] at h; subst h
      refine ⟨_, rfl, rfl, rfl, ?_⟩
      simp only [work]; split <;> simp [rank, hpc] <;> omega
    | nil =>
      cases hsk : s.sock with
      | cons r sk =>
        simp [hq, hsk] at h; subst h
        refine ⟨_, rfl, rfl, rfl, ?_⟩
        simp only [work]; split <;> simp [rank, hpc] <;> omega
      | nil =>
        simp [hq, hsk] at h; subst h
        refine ⟨_, rfl, rfl, rfl, ?_⟩
        by_cases hr : th.retry + 1 ≤ s.par.maxRetries
        · have key : ∀ b, b < attLen s.xl s.par.maxRetries + (2 * (s.par.maxRetries - th.rretry) + 2) →
              3 + (s.par.maxRetries - (th.retry + 1)) * attLen s.xl s.par.maxRetries + b <
              3 + (s.par.maxRetries - th.retry) * attLen s.xl s.par.maxRetries + (2 * (s.par.maxRetries - th.rretry) + 2) := by
            intro b hb'
            have := retry_dec s.par.maxRetries th.retry (attLen s.xl s.par.maxRetries) b
              (2 * (s.par.maxRetries - th.rretry) + 2) hr hb'
            omega
          cases hp : s.par.packOnce with
          | true =>
            simp only [work, rank, hpc, hr, if_true, Nat.add_lt_add_iff_left]
            exact key _ (by omega)
          | false =>
            simp only [work, rank, hpc, hr, if_true, Nat.add_lt_add_iff_left]
            exact key _ (by omega)
        · simp [work, rank, hpc, hr]
          omega
  | requeue =>
    simp [stepThr, hpc] at h; subst h
    refine ⟨_, rfl, rfl, rfl, ?_⟩
    simp only [work]; split <;> simp [rank, hpc] <;> omega
  | release =>
    simp [stepThr, hpc] at h; subst h
    refine ⟨_, rfl, rfl, rfl, ?_⟩
    have := work_afterCall s.xl s.par.maxRetries th (match th.got with
      | some r => CallRes.ok th.mine r.serial | none => CallRes.retryError th.mine)
    simp only [work, hpc, rank] at this ⊢
    exact this
  | kaWait =>
    simp only [stepThr, hpc] at h
    split at h
    · simp at h; subst h
      exact ⟨_, rfl, rfl, rfl, by simp [work, rank, hpc]⟩
    · split at h
      · cases h
      · rename_i h0
        simp at h; subst h
        refine ⟨_, rfl, rfl, rfl, ?_⟩
        simp only [work, hpc, rank]
        exact mul_pred_lt _ _ _ _ h0 (by omega)
  | await =>
    simp only [stepThr, hpc] at h
    split at h
    · simp at h; subst h
      refine ⟨_, rfl, rfl, rfl, ?_⟩
      simp only [work]; split <;> simp [rank, hpc]
    · cases h
  | stopSet =>
    simp [stepThr, hpc] at h; subst h
    refine ⟨_, rfl, rfl, rfl, ?_⟩
    simp only [work]; split <;> simp [rank, hpc]
  | joinKa =>
    simp only [stepThr, hpc] at h
    split at h
    · simp at h; subst h
      exact ⟨_, rfl, rfl, rfl, by simp [work, rank, hpc]⟩
    · cases h
  | chkAct =>
    simp [stepThr, hpc] at h; subst h
    refine ⟨_, rfl, rfl, rfl, ?_⟩
    simp only [work]; split <;> simp [rank, hpc] <;> omega
  | _ =>
    simp [stepThr, hpc] at h; subst h
    exact ⟨_, rfl, rfl, rfl, by simp [work, rank, hpc]⟩

/-- Every step strictly decreases the measure: no schedule makes more than `measure (init c)`
effective steps. -/
theorem step_decreases {s s' : Sys} {t : Nat} (h : step s t = some s') : measure s' < measure s := by
  unfold step at h
  cases hget : s.thr[t]? with
  | none => simp [hget] at h
  | some th =>
    simp [hget] at h
    obtain ⟨th', h1, h2, h2', h3⟩ := stepThr_dec h
    have := sum_set (f := work s.xl s.par.maxRetries) (b := th') hget
    simp only [measure, h1, h2, h2']
    omega

/-- The retry budget, the loss plan and the packing variant are constants of a run. -/
theorem step_par {s s' : Sys} {t : Nat} (h : step s t = some s') : s'.par = s.par := by
  unfold step at h
  cases hget : s.thr[t]? with
  | none => simp [hget] at h
  | some th =>
    simp [hget] at h
    exact (stepThr_dec h).choose_spec.2.2.1

theorem run_par (s : Sys) (sched : List Nat) : (run s sched).par = s.par := by
  induction sched generalizing s with
  | nil => rfl
  | cons t rest ih =>
    simp only [run, List.foldl_cons]
    cases hs : step s t with
    | none => exact ih s
    | some s' => exact (ih s').trans (step_par hs)

/-- What one step does to the stepping thread's record: the kind is kept; a worker either stays in its
call, or finishes one call. -/
theorem stepThr_kind {s s' : Sys} {t : Nat} {th : Thr} (ht : Tear s) (hget : s.thr[t]? = some th)
    (h : stepThr s t th = some s') :
    ∃ th', s'.thr = s.thr.set t th' ∧ th'.kind = th.kind ∧ (th.kind = .worker →
      ((th'.todo = th.todo ∧ th'.results = th.results ∧ th'.pc ≠ .done) ∨
       (th'.todo = th.todo - 1 ∧ th'.results.length = th.results.length + 1 ∧
         (th'.pc = .done ↔ th.todo - 1 = 0)))) := by
  have hnc : closerOnly th.pc = true → th.kind ≠ .worker := by
    intro hc hk; rw [ht.closerPc _ _ hget hc] at hk; cases hk
  cases hpc : th.pc with
  | done => simp [stepThr, hpc] at h
  | acquire =>
    cases hl : s.lock with
    | some x => simp [stepThr, hpc, hl] at h
    | none =>
      simp [stepThr, hpc, hl] at h; subst h
      exact ⟨_, rfl, rfl, fun _ => Or.inl ⟨rfl, rfl, by simp⟩⟩
  | idle =>
    cases hsl : s.seqLocked with
    | false =>
      simp [stepThr, hpc, hsl] at h; subst h
      exact ⟨_, rfl, rfl, fun _ => Or.inl ⟨rfl, rfl, by simp⟩⟩
    | true =>
      cases hl : s.lock with
      | some x => simp [stepThr, hpc, hsl, hl] at h
      | none =>
        simp [stepThr, hpc, hsl, hl] at h; subst h
        exact ⟨_, rfl, rfl, fun _ => Or.inl ⟨rfl, rfl, by simp⟩⟩
  | actLoad =>
    simp [stepThr, hpc] at h; subst h
    refine ⟨_, rfl, rfl, fun _ => Or.inl ⟨rfl, rfl, ?_⟩⟩
    simp only []; split <;> simp
  | ssHdr k =>
    cases k with
    | zero =>
      simp [stepThr, hpc] at h; subst h
      exact ⟨_, rfl, rfl, fun _ => Or.inl ⟨rfl, rfl, by simp⟩⟩
    | succ k =>
      simp [stepThr, hpc] at h; subst h
      exact ⟨_, rfl, rfl, fun _ => Or.inl ⟨rfl, rfl, by simp⟩⟩
  | ssChk =>
    simp [stepThr, hpc] at h; subst h
    refine ⟨_, rfl, rfl, fun _ => Or.inl ⟨rfl, rfl, ?_⟩⟩
    simp only []; split <;> simp
  | recv =>
    simp only [stepThr, hpc] at h
    cases hq : s.q with
    | cons r q' =>
      simp [hq] at h; subst h
      refine ⟨_, rfl, rfl, fun _ => Or.inl ⟨rfl, rfl, ?_⟩⟩
      simp only []; split <;> simp
    | nil =>
      cases hsk : s.sock with
      | cons r sk =>
        simp [hq, hsk] at h; subst h
        refine ⟨_, rfl, rfl, fun _ => Or.inl ⟨rfl, rfl, ?_⟩⟩
        simp only []; split <;> simp
      | nil =>
        simp [hq, hsk] at h; subst h
        refine ⟨_, rfl, rfl, fun _ => Or.inl ⟨rfl, rfl, ?_⟩⟩
        simp only []; (repeat' split) <;> simp
  | requeue =>
    simp [stepThr, hpc] at h; subst h
    refine ⟨_, rfl, rfl, fun _ => Or.inl ⟨rfl, rfl, ?_⟩⟩
    simp only []; split <;> simp
  | release =>
    simp [stepThr, hpc] at h; subst h
    refine ⟨_, rfl, rfl, fun hk => Or.inr ⟨?_, by simp [afterCall], ?_⟩⟩
    · simp [afterCall, hk]
    · simp only [afterCall, nextPc, hk]
      split <;> simp_all
  | kaWait =>
    have hka := ht.kaPc _ _ hget hpc
    simp only [stepThr, hpc] at h
    split at h
    · simp at h; subst h
      exact ⟨_, rfl, rfl, fun hk => by rw [hka] at hk; cases hk⟩
    · split at h
      · cases h
      · simp at h; subst h
        exact ⟨_, rfl, rfl, fun hk => by rw [hka] at hk; cases hk⟩
  | await =>
    simp only [stepThr, hpc] at h
    split at h
    · simp at h; subst h
      refine ⟨_, rfl, ?_, fun hk => absurd hk (hnc (by rw [hpc]; rfl))⟩
      split <;> rfl
    · cases h
  | stopSet =>
    simp [stepThr, hpc] at h; subst h
    refine ⟨_, rfl, ?_, fun hk => absurd hk (hnc (by rw [hpc]; rfl))⟩
    split <;> rfl
  | joinKa =>
    simp only [stepThr, hpc] at h
    split at h
    · simp at h; subst h
      exact ⟨_, rfl, rfl, fun hk => absurd hk (hnc (by rw [hpc]; rfl))⟩
    · cases h
  | chkAct =>
    simp [stepThr, hpc] at h; subst h
    refine ⟨_, rfl, ?_, fun hk => absurd hk (hnc (by rw [hpc]; rfl))⟩
    split <;> rfl
  | actStore =>
    simp [stepThr, hpc] at h; subst h
    exact ⟨_, rfl, rfl, fun hk => absurd hk (hnc (by rw [hpc]; rfl))⟩
  | _ =>
    simp [stepThr, hpc] at h; subst h
    exact ⟨_, rfl, rfl, fun _ => Or.inl ⟨rfl, rfl, by simp⟩⟩

/-- Bookkeeping relative to the initial configuration: the threads keep their kinds, and a worker has
made exactly the calls it no longer has to make. -/
structure Acc (c : Cfg) (s : Sys) : Prop where
  kinds : ∀ (t : Nat), (s.thr[t]?).map (·.kind) = ((init c).thr[t]?).map (·.kind)
  cnt : ∀ (t : Nat) (th : Thr) (p : Nat × Nat), s.thr[t]? = some th → c.threads[t]? = some p →
      th.kind = .worker → th.results.length + th.todo = p.1 ∧ (th.pc = .done ↔ th.todo = 0)

theorem init_acc (c : Cfg) : Acc c (init c) := by
  constructor
  · intro t; rfl
  · intro t th p hget hp hk
    rcases init_get hget with ⟨p', hp', rfl⟩ | ⟨n, _, ht, rfl⟩
    · rw [hp] at hp'; injection hp' with hp'; subst hp'
      simp only [initThr] at hk ⊢
      split at hk
      · cases hk
      · rename_i hcl
        simp only [hcl, if_false]
        refine ⟨by simp, ?_⟩
        split <;> simp_all
    · cases hk

theorem step_acc {c : Cfg} {s s' : Sys} {t : Nat} (ha : Acc c s) (ht : Tear s) (h : step s t = some s') :
    Acc c s' := by
  unfold step at h
  cases hget : s.thr[t]? with
  | none => simp [hget] at h
  | some th =>
    simp [hget] at h
    obtain ⟨th', h1, hkind, hw⟩ := stepThr_kind ht hget h
    constructor
    · intro t'
      rw [← ha.kinds t', h1, List.getElem?_set]
      by_cases e : t = t'
      · subst e
        have hl : t < s.thr.length := by
          rcases Nat.lt_or_ge t s.thr.length with h | h
          · exact h
          · rw [List.getElem?_eq_none h] at hget; cases hget
        have hg : s.thr[t] = th := by
          have := List.getElem?_eq_getElem hl
          rw [hget] at this; injection this with this; exact this.symm
        simp [hl, hkind, hg]
      · simp [e]
    · intro t' b p hb hp hk
      rw [h1] at hb
      rcases get_set_cases hget hb with ⟨rfl, rfl⟩ | ⟨_, hb⟩
      · rw [hkind] at hk
        obtain ⟨hcnt, hdone⟩ := ha.cnt _ _ _ hget hp hk
        have hnd : th.pc ≠ .done := by
          intro hd; simp [stepThr, hd] at h
        have h0 : th.todo ≠ 0 := fun h0 => hnd (hdone.mpr h0)
        rcases hw hk with ⟨e1, e2, e3⟩ | ⟨e1, e2, e3⟩
        · refine ⟨by rw [e1, e2]; exact hcnt, ?_⟩
          constructor
          · intro hd; exact absurd hd e3
          · intro hz; rw [e1] at hz; exact absurd hz h0
        · refine ⟨by rw [e1, e2]; omega, ?_⟩
          rw [e1]; exact e3
      · exact ha.cnt _ _ _ hb hp hk

theorem step_close {s s' : Sys} {t : Nat} (hi : Inv s) (ht : Tear s) (hc : Close s) (h : step s t = some s') :
    Close s' := by
  unfold step at h
  cases hget : s.thr[t]? with
  | none => simp [hget] at h
  | some th => simp [hget] at h; exact stepThr_close hi ht hc hget h

/-- All four invariants along any schedule. -/
theorem run_all {c : Cfg} {s : Sys} (hi : Inv s) (ht : Tear s) (hc : Close s) (ha : Acc c s) (sched : List Nat) :
    Inv (run s sched) ∧ Tear (run s sched) ∧ Close (run s sched) ∧ Acc c (run s sched) := by
  induction sched generalizing s with
  | nil => exact ⟨hi, ht, hc, ha⟩
  | cons t rest ih =>
    simp only [run, List.foldl_cons]
    cases hs : step s t with
    | none => exact ih hi ht hc ha
    | some s' =>
      exact ih (step_inv hi ht hs).1 (step_inv hi ht hs).2 (step_close hi ht hc hs) (step_acc ha ht hs)

theorem init_get_app {c : Cfg} {t : Nat} {p : Nat × Nat} (hp : c.threads[t]? = some p) :
    (init c).thr[t]? = some (initThr c.closer t p) := by
  have hlt : t < c.threads.length := by
    rcases Nat.lt_or_ge t c.threads.length with h | h
    · exact h
    · rw [List.getElem?_eq_none h] at hp; cases hp
  have hg : c.threads[t] = p := by
    have := List.getElem?_eq_getElem hlt
    rw [hp] at this; injection this with this; exact this.symm
  simp [init, List.getElem?_append, hlt, hg]

/-- In a state where no thread can move, every thread is finished (the keep-alive loop: finished or
asleep for good), each call made returned the reply to the datagram that same thread transmitted — or
failed after a time-out on a datagram whose reply the network lost —, every application thread other than
the closing one has made all the calls it was asked to make, and if a thread closes the session: Close Session
is on the wire, every thread — the keep-alive too — has terminated, and the session is deactivated unless a
call of the closing thread failed. -/
theorem terminal_complete {c : Cfg} {s : Sys} (hi : Inv s) (ht : Tear s) (hc : Close s) (ha : Acc c s)
    (hterm : ∀ t, step s t = none) :
    (∀ (t : Nat) (th : Thr), s.thr[t]? = some th → parked s th ∧
      ∀ r ∈ th.results, (∃ n, r = .ok n n ∧ sentBy s.wireChron t n = true) ∨
        (∃ n, r = .retryError n ∧ timedOut s.wireChron t n = true ∧ lostAt s.par.loss n = true)) ∧
    (∀ (t : Nat) (p : Nat × Nat), c.threads[t]? = some p → c.closer ≠ some t →
      ∃ th, s.thr[t]? = some th ∧ th.pc = .done ∧ th.results.length = p.1) ∧
    (∀ (t : Nat) (p : Nat × Nat), c.threads[t]? = some p → c.closer = some t →
      (monitor s.wireChron).closed = true ∧
      (∀ (t' : Nat) (th' : Thr), s.thr[t']? = some th' → th'.pc = .done) ∧
      (s.activated = false ∨ ∃ th, s.thr[t]? = some th ∧ ∃ r ∈ th.results, r.isOk = false)) := by
  have hpark : ∀ (t : Nat) (th : Thr), s.thr[t]? = some th → parked s th := by
    intro t th hget
    apply Classical.byContradiction
    intro hnp
    obtain ⟨t1, h1⟩ := deadlock_free hi ht hget hnp
    rw [hterm t1] at h1
    cases h1
  refine ⟨?_, ?_, ?_⟩
  · intro t th hget
    refine ⟨hpark t th hget, ?_⟩
    intro r hr
    rcases hi.res t _ hget r hr with ⟨n, h1, h2⟩ | ⟨n, h1, _, h3, h4⟩
    · exact Or.inl ⟨n, h1, by rw [Sys.wireChron, sentBy_reverse]; exact h2⟩
    · exact Or.inr ⟨n, h1, by rw [Sys.wireChron, timedOut_reverse]; exact h3, h4⟩
  rotate_left
  · intro t p hp hcl
    have hk := ha.kinds t
    rw [init_get_app hp] at hk
    cases hget : s.thr[t]? with
    | none => rw [hget] at hk; cases hk
    | some th =>
      rw [hget] at hk
      simp only [Option.map_some, Option.some.injEq] at hk
      have hw : th.kind = .closer := by
        rw [hk]; simp only [initThr]; rw [if_pos hcl]
      have hd : th.pc = .done := by
        rcases hpark t th hget with h | ⟨h, _⟩
        · exact h
        · have := ht.kaPc _ _ hget h
          rw [hw] at this; cases this
      obtain ⟨hact, hclosed, hclosing⟩ := hc.doneDeact _ _ hget hw hd
      refine ⟨?_, ?_, ?_⟩
      · rw [Sys.wireChron, ← monOf_eq_monitor]
        exact hclosed
      · intro t' th' h'
        by_cases e : t' = t
        · subst e
          rw [hget] at h'; injection h' with h'; subst h'
          exact hd
        · exact ht.late _ _ hget hclosing _ _ h' e
      · exact hact.imp id (fun h => ⟨th, rfl, h⟩)
  · intro t p hp hnc
    have hk := ha.kinds t
    rw [init_get_app hp] at hk
    cases hget : s.thr[t]? with
    | none => rw [hget] at hk; cases hk
    | some th =>
      rw [hget] at hk
      simp only [Option.map_some, Option.some.injEq] at hk
      have hw : th.kind = .worker := by
        rw [hk]; simp only [initThr]; rw [if_neg (fun h => hnc h)]
      have hd : th.pc = .done := by
        rcases hpark t th hget with h | ⟨h, _⟩
        · exact h
        · have := ht.kaPc _ _ hget h
          rw [hw] at this; cases this
      obtain ⟨hcnt, hdone⟩ := ha.cnt t th p hget hp hw
      have := hdone.mp hd
      exact ⟨th, rfl, hd, by omega⟩

end PyIpmi.Threads
