/-
  C14 — progress: no deadlock, every step consumes a finite budget, and the bookkeeping
  (calls made + calls to make = calls asked for) that turns the safety invariant into
  "every maximal run completes every call with the caller's own reply".
-/
import PyIpmi.Lemmas.ThreadsStep
namespace PyIpmi.Threads
open PyIpmi.Spec.Threads

theorem stepThr_isSome {s : Sys} {t : Nat} {th : Thr} (h1 : th.pc ≠ .done)
    (h2 : th.pc = .acquire → s.lock = none) : (stepThr s t th).isSome = true := by
  cases hpc : th.pc with
  | done => exact absurd hpc h1
  | acquire => simp [stepThr, hpc, h2 hpc]
  | ssHdr k => cases k <;> simp [stepThr, hpc]
  | recv =>
    simp only [stepThr, hpc]
    cases s.q with
    | cons r q' => simp
    | nil => cases s.sock <;> simp
  | requeue => simp only [stepThr, hpc]; cases th.got <;> simp
  | _ => simp [stepThr, hpc]

/-- While some thread still has work to do, some thread can take a step. -/
theorem deadlock_free {s : Sys} (hi : Inv s) {t0 : Nat} {th0 : Thr} (hget : s.thr[t0]? = some th0)
    (hnd : th0.pc ≠ .done) : ∃ t, (step s t).isSome = true := by
  cases hl : s.lock with
  | none =>
    refine ⟨t0, ?_⟩
    simp only [step, hget]
    exact stepThr_isSome hnd (fun _ => hl)
  | some t =>
    obtain ⟨th, hth⟩ := hi.valid t hl
    have hin := (hi.owner t th hth).mpr hl
    refine ⟨t, ?_⟩
    simp only [step, hth]
    apply stepThr_isSome
    · intro h; rw [h] at hin; simp [inLock] at hin
    · intro h; rw [h] at hin; simp [inLock] at hin

/-- Upper bound on the steps left in the current call. -/
def rank (xl : Nat) : PC → Nat
  | .done => 0 | .release => 1 | .requeue => 2 | .recv => 3 | .send => 4 | .ssHdr k => k + 5
  | .ssWrap => xl + 6 | .ssChk => xl + 7 | .ssStore => xl + 8 | .ssLoad => xl + 9
  | .acquire => xl + 10 | .hdrLoad => xl + 11 | .incStore => xl + 12 | .idle => xl + 13

def work (xl : Nat) (th : Thr) : Nat := (th.todo - 1) * (xl + 13) + rank xl th.pc

def measure (s : Sys) : Nat := (s.thr.map (work s.xl)).sum

theorem sum_set {f : Thr → Nat} {l : List Thr} {t : Nat} {a b : Thr} (h : l[t]? = some a) :
    ((l.set t b).map f).sum + f a = (l.map f).sum + f b := by
  induction l generalizing t with
  | nil => simp at h
  | cons x rest ih =>
    cases t with
    | zero => simp at h; subst h; simp; omega
    | succ t =>
      have h' : rest[t]? = some a := by simpa using h
      have := ih h'
      simp only [List.set_cons_succ, List.map_cons, List.sum_cons]; omega

/-- What one step does to the stepping thread's own record. -/
theorem stepThr_shape {s s' : Sys} {t : Nat} {th : Thr} (h : stepThr s t th = some s') :
    ∃ th', s'.thr = s.thr.set t th' ∧ s'.xl = s.xl ∧ work s.xl th' < work s.xl th ∧ th'.cmd = th.cmd ∧
      th.pc ≠ .done ∧
      ((th'.todo = th.todo ∧ th'.results = th.results ∧ th'.pc ≠ .done) ∨
       (th'.todo = th.todo - 1 ∧ th'.results.length = th.results.length + 1 ∧
         (th'.pc = .done ↔ th.todo - 1 = 0))) := by
  cases hpc : th.pc with
  | done => simp [stepThr, hpc] at h
  | acquire =>
    cases hl : s.lock with
    | some x => simp [stepThr, hpc, hl] at h
    | none =>
      simp [stepThr, hpc, hl] at h; subst h
      exact ⟨_, rfl, rfl, by simp [work, rank, hpc], rfl, by simp, Or.inl ⟨rfl, rfl, by simp⟩⟩
  | ssHdr k =>
    cases k with
    | zero =>
      simp [stepThr, hpc] at h; subst h
      exact ⟨_, rfl, rfl, by simp [work, rank, hpc], rfl, by simp, Or.inl ⟨rfl, rfl, by simp⟩⟩
    | succ k =>
      simp [stepThr, hpc] at h; subst h
      exact ⟨_, rfl, rfl, by simp [work, rank, hpc], rfl, by simp, Or.inl ⟨rfl, rfl, by simp⟩⟩
  | ssChk =>
    simp [stepThr, hpc] at h; subst h
    refine ⟨_, rfl, rfl, ?_, rfl, by simp, Or.inl ⟨rfl, rfl, ?_⟩⟩
    · simp only [work, hpc]; split <;> simp [rank] <;> omega
    · simp only []; split <;> simp
  | recv =>
    simp only [stepThr, hpc] at h
    cases hq : s.q with
    | cons r q' =>
      simp [hq] at h; subst h
      refine ⟨_, rfl, rfl, ?_, rfl, by simp, Or.inl ⟨rfl, rfl, ?_⟩⟩
      · simp only [work, hpc]; split <;> simp [rank]
      · simp only []; split <;> simp
    | nil =>
      cases hsk : s.sock with
      | cons r sk =>
        simp [hq, hsk] at h; subst h
        refine ⟨_, rfl, rfl, ?_, rfl, by simp, Or.inl ⟨rfl, rfl, ?_⟩⟩
        · simp only [work, hpc]; split <;> simp [rank]
        · simp only []; split <;> simp
      | nil =>
        simp [hq, hsk] at h; subst h
        exact ⟨_, rfl, rfl, by simp [work, rank, hpc], rfl, by simp, Or.inl ⟨rfl, rfl, by simp⟩⟩
  | requeue =>
    simp only [stepThr, hpc] at h
    cases hg : th.got with
    | some r =>
      simp [hg] at h; subst h
      exact ⟨_, rfl, rfl, by simp [work, rank, hpc], rfl, by simp, Or.inl ⟨rfl, rfl, by simp⟩⟩
    | none =>
      simp [hg] at h; subst h
      exact ⟨_, rfl, rfl, by simp [work, rank, hpc], rfl, by simp, Or.inl ⟨rfl, rfl, by simp⟩⟩
  | release =>
    simp [stepThr, hpc] at h; subst h
    refine ⟨_, rfl, rfl, ?_, rfl, by simp, Or.inr ⟨rfl, by simp [afterCall], ?_⟩⟩
    · simp only [work, hpc, afterCall, rank]
      by_cases h0 : th.todo - 1 = 0
      · simp [h0]
      · simp only [h0, if_false]
        have : th.todo - 1 = (th.todo - 1 - 1) + 1 := by omega
        generalize th.todo - 1 - 1 = m at this
        rw [this]
        simp only [Nat.add_mul, Nat.one_mul]
        omega
    · simp only [afterCall]; split <;> simp_all
  | _ =>
    simp [stepThr, hpc] at h; subst h
    exact ⟨_, rfl, rfl, by simp [work, rank, hpc], rfl, by simp, Or.inl ⟨rfl, rfl, by simp⟩⟩

/-- Every step strictly decreases the measure: no schedule makes more than `measure (init c)`
effective steps. -/
theorem step_decreases {s s' : Sys} {t : Nat} (h : step s t = some s') : measure s' < measure s := by
  unfold step at h
  cases hget : s.thr[t]? with
  | none => simp [hget] at h
  | some th =>
    simp [hget] at h
    obtain ⟨th', h1, h2, h3, _⟩ := stepThr_shape h
    have := sum_set (f := work s.xl) (b := th') hget
    simp only [measure, h1, h2]
    omega

/-- Bookkeeping invariant relative to the initial configuration. -/
structure Acc (c : Cfg) (s : Sys) : Prop where
  len : s.thr.length = c.threads.length
  cnt : ∀ (t : Nat) (th : Thr), s.thr[t]? = some th → ∃ p, c.threads[t]? = some p ∧
      th.results.length + th.todo = p.1 ∧ th.cmd = p.2 ∧ (th.pc = .done ↔ th.todo = 0)

theorem init_acc (c : Cfg) : Acc c (init c) := by
  constructor
  · simp [init]
  · intro t th hget
    simp [init] at hget
    obtain ⟨n, k, hp, rfl⟩ := hget
    refine ⟨(n, k), hp, by simp [initThr], rfl, ?_⟩
    simp only [initThr]
    split <;> simp_all

theorem step_acc {c : Cfg} {s s' : Sys} {t : Nat} (ha : Acc c s) (h : step s t = some s') : Acc c s' := by
  unfold step at h
  cases hget : s.thr[t]? with
  | none => simp [hget] at h
  | some th =>
    simp [hget] at h
    obtain ⟨th', h1, _, _, hc, hnd, hcase⟩ := stepThr_shape h
    obtain ⟨p, hp, hcnt, hcmd, hdone⟩ := ha.cnt t th hget
    constructor
    · rw [h1, List.length_set]; exact ha.len
    · intro t' b hb
      rw [h1] at hb
      rcases get_set_cases hget hb with ⟨rfl, rfl⟩ | ⟨_, hb⟩
      · refine ⟨p, hp, ?_, by rw [hc, hcmd], ?_⟩
        · rcases hcase with ⟨e1, e2, _⟩ | ⟨e1, e2, _⟩
          · rw [e1, e2]; exact hcnt
          · have : th.todo ≠ 0 := fun h0 => hnd (hdone.mpr h0)
            rw [e1, e2]; omega
        · rcases hcase with ⟨e1, _, e3⟩ | ⟨e1, _, e3⟩
          · constructor
            · intro h; exact absurd h e3
            · intro h; rw [e1] at h; exact absurd (hdone.mpr h) hnd
          · rw [e1]; exact e3
      · exact ha.cnt _ _ hb

theorem run_acc {c : Cfg} {s : Sys} (ha : Acc c s) (sched : List Nat) : Acc c (run s sched) := by
  induction sched generalizing s with
  | nil => exact ha
  | cons t rest ih =>
    simp only [run, List.foldl_cons]
    cases hs : step s t with
    | none => exact ih ha
    | some s' => exact ih (step_acc ha hs)

/-- In a state where no thread can move, every thread has made all the calls it was asked to
make, and each call returned the reply to the datagram that thread itself transmitted. -/
theorem terminal_complete {c : Cfg} {s : Sys} (hi : Inv s) (ha : Acc c s)
    (hterm : ∀ t, step s t = none) (t : Nat) (p : Nat × Nat) (hp : c.threads[t]? = some p) :
    ∃ th, s.thr[t]? = some th ∧ th.pc = .done ∧ th.results.length = p.1 ∧
      ∀ r ∈ th.results, ∃ n, r = .ok n n ∧ sentBy s.wireChron t n = true := by
  have hlt : t < s.thr.length := by
    rw [ha.len]
    rcases Nat.lt_or_ge t c.threads.length with h | h
    · exact h
    · rw [List.getElem?_eq_none h] at hp; cases hp
  have hget : s.thr[t]? = some s.thr[t] := List.getElem?_eq_getElem hlt
  refine ⟨s.thr[t], hget, ?_⟩
  have hd : s.thr[t].pc = .done := by
    apply Classical.byContradiction
    intro hnd
    obtain ⟨t1, h1⟩ := deadlock_free hi hget hnd
    rw [hterm t1] at h1
    cases h1
  obtain ⟨p', hp', hcnt, _, hdone⟩ := ha.cnt t _ hget
  rw [hp] at hp'
  injection hp' with hp'
  subst hp'
  refine ⟨hd, ?_, ?_⟩
  · have := hdone.mp hd; omega
  · intro r hr
    obtain ⟨n, h1, h2⟩ := hi.res t _ hget r hr
    exact ⟨n, h1, by rw [Sys.wireChron, sentBy_reverse]; exact h2⟩

end PyIpmi.Threads
