/-
  Info areas: parsing the encoding of a well-formed area (followed by anything) gives its view;
  zero-sum checksum facts.  Core only.
-/
import PyIpmi.Lemmas.FruField
namespace PyIpmi.Fru
open PyIpmi PyIpmi.Gen

/-! ### zero-sum checksum -/

theorem zeroSum_lt (l : List Nat) : zeroSum l < 256 := by
  unfold zeroSum; omega

theorem sum_append_zeroSum (l : List Nat) : (l ++ [zeroSum l]).sum % 256 = 0 := by
  simp [zeroSum]; omega

theorem sum_zeroSum_add (l : List Nat) : (l.sum + zeroSum l) % 256 = 0 := by
  unfold zeroSum; omega

theorem sum_set (l : List Nat) (i b : Nat) (hi : i < l.length) :
    (l.set i b).sum + l[i] = l.sum + b := by
  induction l generalizing i with
  | nil => simp at hi
  | cons x xs ih =>
    cases i with
    | zero => simp; omega
    | succ i =>
      simp only [List.length_cons] at hi
      have := ih i (by omega)
      simp only [List.set_cons_succ, List.sum_cons, List.getElem_cons_succ]
      omega

/-- altering one byte of a zero-sum range breaks the sum -/
theorem sum_set_ne (l : List Nat) (i b : Nat) (hi : i < l.length) (h0 : l.sum % 256 = 0)
    (hold : l[i] < 256) (hb : b < 256) (hne : b ≠ l[i]) : (l.set i b).sum % 256 ≠ 0 := by
  have := sum_set l i b hi
  omega

/-! ### field lists -/

theorem encodeFields_append (fs gs : List Field) :
    encodeFields (fs ++ gs) = encodeFields fs ++ encodeFields gs := by
  induction fs with
  | nil => rfl
  | cons f fs ih => simp [encodeFields, ih]

theorem encodeFields_length_ge (fs : List Field) : fs.length ≤ (encodeFields fs).length := by
  induction fs with
  | nil => simp [encodeFields]
  | cons f fs ih => simp [encodeFields, encodeField]; omega

theorem encodeFields_bytes (fs : List Field) (h : ∀ f ∈ fs, f.wf = true) : Bytes (encodeFields fs) := by
  induction fs with
  | nil => exact Bytes.nil
  | cons f fs ih =>
    exact Bytes.append (encodeField_bytes f (h f (by simp))) (ih fun g hg => h g (by simp [hg]))

theorem parseFields_encode (v : Variant) (k : InputKind) (fs : List Field) (rest : List Nat)
    (hwf : ∀ f ∈ fs, f.wf = true) (hok : ∀ f ∈ fs, f.okFor v k = true) :
    parseFields v k fs.length (encodeFields fs ++ rest) = .ok (fs.map viewField, rest) := by
  induction fs with
  | nil => simp [parseFields, encodeFields]
  | cons f fs ih =>
    have h1 := tlString_encode v k f (encodeFields fs ++ rest) (hwf f (by simp)) (hok f (by simp))
    have h2 := ih (fun g hg => hwf g (by simp [hg])) (fun g hg => hok g (by simp [hg]))
    simp only [encodeFields, List.length_cons, parseFields, List.append_assoc, h1, Outcome.bind_ok,
      drop_encodeField, h2, List.map_cons]

theorem customFieldEnd_eq : FruTables.customFieldEnd = endOfFields := by decide

theorem customFields_encode (v : Variant) (k : InputKind) (fs : List Field) (rest : List Nat)
    (fuel : Nat) (hfuel : fs.length < fuel)
    (hwf : ∀ f ∈ fs, f.wf = true) (hok : ∀ f ∈ fs, f.okFor v k = true) :
    customFields v k fuel (encodeFields fs ++ endOfFields :: rest) = .ok (fs.map viewField) := by
  induction fs generalizing fuel with
  | nil =>
    cases fuel with
    | zero => simp at hfuel
    | succ n => simp [customFields, encodeFields, customFieldEnd_eq]
  | cons f fs ih =>
    cases fuel with
    | zero => simp at hfuel
    | succ n =>
      have h1 := tlString_encode v k f (encodeFields fs ++ endOfFields :: rest) (hwf f (by simp))
        (hok f (by simp))
      have h2 := ih n (by simp at hfuel; omega) (fun g hg => hwf g (by simp [hg]))
        (fun g hg => hok g (by simp [hg]))
      have hne := encodeField_head_ne f (hwf f (by simp))
      simp only [encodeFields, List.append_assoc, List.map_cons]
      rw [show encodeField f ++ (encodeFields fs ++ endOfFields :: rest) =
        (f.typeCode * 64 + f.payload.length) :: (f.payload ++ (encodeFields fs ++ endOfFields :: rest)) from by
          simp [encodeField]]
      simp only [customFields, customFieldEnd_eq, endOfFields]
      rw [if_neg hne]
      rw [show (f.typeCode * 64 + f.payload.length) :: (f.payload ++ (encodeFields fs ++ 193 :: rest)) =
        encodeField f ++ (encodeFields fs ++ endOfFields :: rest) from by simp [encodeField, endOfFields]]
      simp only [h1, Outcome.bind_ok, drop_encodeField, h2]

/-! ### a whole area -/

theorem InfoArea.total_mod (a : InfoArea) : a.total % 8 = 0 := by
  unfold InfoArea.total InfoArea.padLen; omega

theorem InfoArea.total_div (a : InfoArea) : a.total / 8 * 8 = a.total := by
  have := a.total_mod; omega

theorem encodeArea_length (a : InfoArea) : (encodeArea a).length = a.total := by
  simp [encodeArea, InfoArea.noCk, InfoArea.total, InfoArea.need]; omega

theorem encodeArea_sum (a : InfoArea) : (encodeArea a).sum % 256 = 0 :=
  sum_append_zeroSum _

theorem InfoArea.total_pos (a : InfoArea) : 8 ≤ a.total := by
  have := a.total_mod
  unfold InfoArea.total InfoArea.need at *; omega

/-- explicit shape of an encoded area followed by `rest` -/
theorem encodeArea_shape (a : InfoArea) (rest : List Nat) :
    encodeArea a ++ rest = 1 :: (a.total / 8) :: (a.pre ++ (encodeFields a.fields ++
      (encodeFields a.custom ++ endOfFields ::
        (List.replicate a.padLen 0 ++ zeroSum a.noCk :: rest)))) := by
  simp [encodeArea, InfoArea.noCk, InfoArea.body]

theorem noCk_shape (a : InfoArea) :
    a.noCk = 1 :: (a.total / 8) :: (a.pre ++ (encodeFields a.fields ++
      (encodeFields a.custom ++ endOfFields :: List.replicate a.padLen 0))) := by
  simp [InfoArea.noCk, InfoArea.body]

theorem noCk_length (a : InfoArea) : a.noCk.length = a.total - 1 := by
  have := encodeArea_length a
  simp only [encodeArea, List.length_append, List.length_singleton] at this
  omega

/-- the sub-class decoder on bytes of the shape version, length, fixed bytes, fields, custom fields,
C1h, anything -/
theorem areaBody_shape (v : Variant) (k : InputKind) (kind : AreaKind) (a : InfoArea)
    (b0 b1 x : Nat) (tail : List Nat) (b2 minutes : Nat)
    (hwf_f : ∀ f ∈ a.fields, f.wf = true) (hwf_c : ∀ f ∈ a.custom, f.wf = true)
    (hokf : ∀ f ∈ a.fields, f.okFor v k = true) (hokc : ∀ f ∈ a.custom, f.okFor v k = true)
    (hn : a.fields.length = kind.nFields)
    (hb2 : ∀ x tail, (1 :: x :: (a.pre ++ tail))[2]? = some b2)
    (hfix : ∀ x tail, areaFixed kind (1 :: x :: (a.pre ++ tail)) = some (2 + a.pre.length, minutes)) :
    areaBody v k kind b0 b1 (1 :: x :: (a.pre ++ (encodeFields a.fields ++
      (encodeFields a.custom ++ endOfFields :: tail)))) =
      .ok (.parsed ⟨b0 % 16, b1 * 8, b2, minutes, a.fields.map viewField, a.custom.map viewField⟩) := by
  have hdrop : (1 :: x :: (a.pre ++ (encodeFields a.fields ++
      (encodeFields a.custom ++ endOfFields :: tail)))).drop (2 + a.pre.length) =
      encodeFields a.fields ++ (encodeFields a.custom ++ endOfFields :: tail) := by
    rw [show 2 + a.pre.length = a.pre.length + 1 + 1 from by omega]
    simp
  have hpf := parseFields_encode v k a.fields (encodeFields a.custom ++ endOfFields :: tail) hwf_f hokf
  have hcf := customFields_encode v k a.custom tail
    ((encodeFields a.custom ++ endOfFields :: tail).length + 1)
    (by have := encodeFields_length_ge a.custom; simp; omega) hwf_c hokc
  rw [hn] at hpf
  simp only [areaBody, hb2, hfix, hdrop, hpf, hcf, Outcome.bind_ok]

theorem parseArea_encode (v : Variant) (k : InputKind) (kind : AreaKind) (a : InfoArea)
    (rest : List Nat) (b2 minutes : Nat)
    (hwf : a.wf = true)
    (hokf : ∀ f ∈ a.fields, f.okFor v k = true) (hokc : ∀ f ∈ a.custom, f.okFor v k = true)
    (hn : a.fields.length = kind.nFields)
    (hb2 : ∀ x tail, (1 :: x :: (a.pre ++ tail))[2]? = some b2)
    (hfix : ∀ x tail, areaFixed kind (1 :: x :: (a.pre ++ tail)) = some (2 + a.pre.length, minutes)) :
    parseArea v k kind (encodeArea a ++ rest) = .ok (.parsed (viewArea a b2 minutes)) := by
  simp only [InfoArea.wf, Bool.and_eq_true, List.all_eq_true] at hwf
  obtain ⟨⟨⟨_, hwf_f⟩, hwf_c⟩, _⟩ := hwf
  have hsum : ((encodeArea a ++ rest).take (a.total / 8 * 8)).sum % 256 = 0 := by
    rw [a.total_div, ← encodeArea_length a, List.take_left']
    · exact encodeArea_sum a
    · rfl
  have h1 : (encodeArea a ++ rest)[1]? = some (a.total / 8) := by
    rw [encodeArea_shape]; rfl
  have hp := a.total_pos
  -- the bytes the sub-class decodes, in both variants
  have hdata : ∃ tail, areaData v (a.total / 8) (encodeArea a ++ rest) =
      1 :: (a.total / 8) :: (a.pre ++ (encodeFields a.fields ++
        (encodeFields a.custom ++ endOfFields :: tail))) := by
    unfold areaData
    cases v.fieldsLax with
    | true => exact ⟨_, by rw [if_pos rfl, encodeArea_shape]⟩
    | false =>
      refine ⟨List.replicate a.padLen 0, ?_⟩
      rw [if_neg (by simp), if_neg (by rw [a.total_div]; omega), a.total_div, ← noCk_length a]
      have : encodeArea a ++ rest = a.noCk ++ ([zeroSum a.noCk] ++ rest) := by simp [encodeArea]
      rw [this, List.take_left' rfl, noCk_shape]
  obtain ⟨tail, hdata⟩ := hdata
  have hbody := areaBody_shape v k kind a 1 (a.total / 8) (a.total / 8) tail b2 minutes hwf_f hwf_c hokf hokc hn hb2 hfix
  generalize hd : encodeArea a ++ rest = d at *
  have hd0 : ∃ t, d = 1 :: t := by rw [← hd, encodeArea_shape]; exact ⟨_, rfl⟩
  obtain ⟨t, ht⟩ := hd0
  subst ht
  have hlenchk : (!v.areaLenLax && (a.total / 8 * 8 == 0 || decide ((1 :: t).length < a.total / 8 * 8))) = false := by
    have hl : a.total ≤ (1 :: t).length := by
      rw [← hd, List.length_append, encodeArea_length]; omega
    rw [a.total_div]
    have e1 : (a.total == 0) = false := by simp; omega
    have e2 : decide ((1 :: t).length < a.total) = false := by simp; omega
    rw [e1, e2]; simp
  simp only [parseArea]
  simp only [h1, hlenchk, hsum, hdata, hbody]
  simp [viewArea, a.total_div]

end PyIpmi.Fru
