/-
  Lemmas.ApiBase — vocabulary of the C07 refinement theorems.

  * `BmcState.Wf`   : the state invariant of a conforming BMC under which the theorems hold — every
                      stored value fits the wire field that reports it (nothing else is assumed).
  * `InRange c`     : the arguments of call `c` are values the real code puts on the wire unchanged
                      (field widths of the request layout, list lengths the code accepts).
  * `present`       : how a value of the oracle `Spec.Bmc.run` looks through a Python API
                      (completion code ↦ CompletionCodeError, reserved table code ↦ KeyError).
  * the simp set `api_eval` and the closing tactics `bits_close` / `api_simp`.
-/
import PyIpmi.Lemmas.ApiAttr
import PyIpmi.Model.Api.Ops
namespace PyIpmi.Spec.Bmc
open PyIpmi PyIpmi.Codec PyIpmi.Model.Api PyIpmi.Gen.Tables

/-! ### simp set: one exchange, evaluated symbolically -/

attribute [api_eval] Exchange.run Exchange.request Exchange.raise checkCc reraise bmcAfter resultOf
  fresh defaults setInt setBit setArr intAt bitAt arrAt optIntAt optArrAt
  encode encAux encField encPrim leBytes packBits decode decAux decField decPrim popN isCcStop leVal unpackBits
  Cond.eval handle handleApp handleChassis handleSensorEvent handleTransport handlePicmg reply fail
  ccOk ccInvalidCmd ccLength ccInvalidField le16 le24 fmtOpt handleDcmi le32
  Outcome.bind_ok

attribute [api_eval]
  reqChassisControl_eq rspChassisControl_eq reqColdReset_eq rspColdReset_eq reqFruControl_eq rspFruControl_eq
  reqGetComponentProperties_eq rspGetComponentProperties_eq
  reqGetDcmiCapabilities_eq rspGetDcmiCapabilities_eq reqGetPowerReading_eq rspGetPowerReading_eq
  reqGetDcmiSensorInfo_eq rspGetDcmiSensorInfo_eq
  reqGetChassisStatus_eq rspGetChassisStatus_eq reqGetDeviceGuid_eq rspGetDeviceGuid_eq reqGetDeviceId_eq rspGetDeviceId_eq
  reqGetEventReceiver_eq rspGetEventReceiver_eq reqGetFanLevel_eq rspGetFanLevel_eq
  reqGetFanSpeedProperties_eq rspGetFanSpeedProperties_eq reqGetFruLedState_eq rspGetFruLedState_eq
  reqGetLanConfigurationParameters_eq rspGetLanConfigurationParameters_eq reqGetPicmgProperties_eq rspGetPicmgProperties_eq
  reqGetPortState_eq rspGetPortState_eq reqGetPowerChannelStatus_eq rspGetPowerChannelStatus_eq
  reqGetPowerLevel_eq rspGetPowerLevel_eq reqGetSensorReading_eq rspGetSensorReading_eq
  reqGetSensorThresholds_eq rspGetSensorThresholds_eq reqGetSignalingClass_eq rspGetSignalingClass_eq
  reqGetSystemBootOptions_eq rspGetSystemBootOptions_eq reqGetTargetUpgradeCapabilities_eq rspGetTargetUpgradeCapabilities_eq
  reqGetUpgradeStatus_eq rspGetUpgradeStatus_eq reqGetUserAccess_eq rspGetUserAccess_eq reqGetUserName_eq rspGetUserName_eq
  reqGetWatchdogTimer_eq rspGetWatchdogTimer_eq reqPlatformEvent_eq rspPlatformEvent_eq
  reqQueryRollbackStatus_eq rspQueryRollbackStatus_eq reqQuerySelftestResults_eq rspQuerySelftestResults_eq
  reqRearmSensorEvents_eq rspRearmSensorEvents_eq reqResetWatchdogTimer_eq rspResetWatchdogTimer_eq
  reqSendPmHeartbeat_eq rspSendPmHeartbeat_eq reqSendPowerChannelControl_eq rspSendPowerChannelControl_eq
  reqSetEventReceiver_eq rspSetEventReceiver_eq reqSetFanLevel_eq rspSetFanLevel_eq
  reqSetFruActivation_eq rspSetFruActivation_eq reqSetFruActivationPolicy_eq rspSetFruActivationPolicy_eq
  reqSetFruLedState_eq rspSetFruLedState_eq reqSetLanConfigurationParameters_eq rspSetLanConfigurationParameters_eq
  reqSetPortState_eq rspSetPortState_eq reqSetSensorThresholds_eq rspSetSensorThresholds_eq
  reqSetSignalingClass_eq rspSetSignalingClass_eq reqSetSystemBootOptions_eq rspSetSystemBootOptions_eq
  reqSetUserAccess_eq rspSetUserAccess_eq reqSetUserName_eq rspSetUserName_eq reqSetUserPassword_eq rspSetUserPassword_eq
  reqSetWatchdogTimer_eq rspSetWatchdogTimer_eq reqWarmReset_eq rspWarmReset_eq

@[api_eval, simp] theorem bind_ccError {α β} (c : Nat) (f : α → Outcome β) : (Outcome.ccError c).bind f = .ccError c := rfl
@[api_eval, simp] theorem bind_pyError {α β} (n : String) (f : α → Outcome β) : (Outcome.pyError n).bind f = .pyError n := rfl
@[api_eval, simp] theorem bind_decodingError {α β} (f : α → Outcome β) : Outcome.decodingError.bind f = .decodingError := rfl
@[api_eval, simp] theorem bind_encodingError {α β} (f : α → Outcome β) : Outcome.encodingError.bind f = .encodingError := rfl
@[api_eval, simp] theorem bind_notSupported {α β} (f : α → Outcome β) : Outcome.notSupported.bind f = .notSupported := rfl

/-! ### lists of a known length -/

theorem list_len1 {l : List Nat} (h : l.length = 1) : ∃ a, l = [a] := by
  rcases l with _ | ⟨a, _ | ⟨b, t⟩⟩ <;> simp at h
  exact ⟨a, rfl⟩
theorem list_len4 {l : List Nat} (h : l.length = 4) : ∃ a b c d, l = [a, b, c, d] := by
  rcases l with _ | ⟨a, _ | ⟨b, _ | ⟨c, _ | ⟨d, _ | ⟨e, t⟩⟩⟩⟩⟩ <;> simp at h
  exact ⟨a, b, c, d, rfl⟩
theorem padTo_length (n : Nat) (l : List Nat) : (padTo n l).length = n := by
  simp [padTo]

/-! ### flags as numbers -/

theorem b2n_le (b : Bool) : b2n b ≤ 1 := by cases b <;> decide
@[simp] theorem n2b_b2n (b : Bool) : n2b (b2n b) = b := by cases b <;> rfl
theorem n2b_of_eq {x : Nat} {b : Bool} (h : x = b2n b) : n2b x = b := by subst h; simp
theorem beq_one_of_eq {x : Nat} {b : Bool} (h : x = b2n b) : (x == 1) = b := by subst h; cases b <;> rfl
theorem one_beq_of_eq {x : Nat} {b : Bool} (h : x = b2n b) : (x % 2 == 1) = b := by subst h; cases b <;> rfl
theorem bne_zero_of_eq {x : Nat} {b : Bool} (h : x = b2n b) : (x != 0) = b := by subst h; cases b <;> rfl
theorem bitOf_of_eq {x k : Nat} {b : Bool} (h : x / 2 ^ k % 2 = b2n b) : bitOf x k = b := by
  unfold bitOf; rw [h]; cases b <;> rfl
theorem b2n_eq_ite (b : Bool) : b2n b = if b then 1 else 0 := rfl

/-- closes a conjunction of (in)equalities between byte arithmetic and flags: numeric parts by `omega`
(the hypotheses must contain the range facts, `b2n_le` of every flag involved), flag parts through
`n2b_of_eq` & co. -/
macro "bits_close" : tactic =>
  `(tactic| (repeat' apply And.intro) <;>
      first
        | omega
        | rfl
        | (apply n2b_of_eq; omega)
        | (apply beq_one_of_eq; omega)
        | (apply bne_zero_of_eq; omega)
        | (apply bitOf_of_eq; omega)
        | (apply one_beq_of_eq; omega))

/-! ### association maps -/

namespace Map
variable {α : Type}

/-- every stored entry satisfies `P key value` -/
def All (P : Nat → α → Prop) (m : Map α) : Prop := ∀ e ∈ m.entries, P e.1 e.2

theorem All.empty (P : Nat → α → Prop) : All P ({} : Map α) := by intro e h; cases h

theorem All.getD {P : Nat → α → Prop} {m : Map α} (h : m.All P) (k : Nat) (d : α) (hd : P k d) :
    P k (m.getD k d) := by
  unfold Map.getD Map.find?
  cases hf : m.entries.find? (·.1 == k) with
  | none => simpa using hd
  | some e =>
    have hm := List.mem_of_find?_eq_some hf
    have hk := List.find?_some hf
    simp only [beq_iff_eq] at hk
    simp only [Option.map_some, Option.getD_some]
    rw [← hk]; exact h e hm

theorem All.set {P : Nat → α → Prop} {m : Map α} (h : m.All P) (k : Nat) (v : α) (hv : P k v) :
    (m.set k v).All P := by
  intro e he
  simp only [Map.set, List.mem_cons, List.mem_filter] at he
  rcases he with rfl | ⟨he, _⟩
  · exact hv
  · exact h e he

end Map

/-! ### the invariant -/

structure DeviceId.Wf (d : DeviceId) : Prop where
  revision : d.revision < 16
  fwMajor : d.fwMajor < 128
  fwMinor : d.fwMinor < 100
  ipmiMajor : d.ipmiMajor < 16
  ipmiMinor : d.ipmiMinor ≤ 9
  support : d.support < 256
  manufacturer : d.manufacturer < 16777216
  product : d.product < 65536
  aux : ∀ a, d.aux = some a → a.length = 4

structure Watchdog.Wf (w : Watchdog) : Prop where
  timerUse : w.timerUse < 8
  action : w.action < 8
  preInterrupt : w.preInterrupt < 8
  initial : w.initial < 65536
  present : w.present < 65536

structure Chassis.Wf (c : Chassis) : Prop where
  restorePolicy : c.restorePolicy < 4
  idState : c.idState < 4

structure Sensor.Wf (x : Sensor) : Prop where
  states1 : ∀ a, x.states1 = some a → a < 256
  /-- the second state byte carries the seven states 14..8 -/
  states2 : ∀ b, x.states2 = some b → b < 128
  thresholds : ∀ i, x.thresholds.getD i 0 < 256

/-- LED function bytes 01h..FAh are the blinking off-durations (PICMG 3.0 table 3-29/3-30) -/
def LedFn.Wf (checkOn : Bool) : LedFn → Prop
  | .blink o n => 1 ≤ o ∧ o ≤ 250 ∧ (checkOn = true → 1 ≤ n ∧ n ≤ 250)
  | _ => True

structure Led.Wf (x : Led) : Prop where
  localFn : x.localFn.Wf true
  overrideFn : x.overrideFn.Wf false

structure Port.Wf (p : Port) : Prop where
  flags : p.flags < 16
  linkType : p.linkType < 256
  ext : p.ext < 16

/-- an HPM.1 component description: at most the 12 bytes of the field, characters are non-NUL bytes -/
def DescrWf (d : List Nat) : Prop := d.length ≤ 12 ∧ ∀ c ∈ d, 0 < c ∧ c < 256

/-- the two LAN parameters the API decodes have their defined sizes; data are bytes -/
def lanWf (k : Nat) (d : List Nat) : Prop :=
  Bytes d ∧ (k % 256 = 4 → 1 ≤ d.length) ∧ (k % 256 = 20 → 2 ≤ d.length)

structure PowerReading.Wf (p : PowerReading) : Prop where
  current : p.current < 65536
  minimum : p.minimum < 65536
  maximum : p.maximum < 65536
  average : p.average < 65536
  timestamp : p.timestamp < 4294967296
  period : p.period < 4294967296

structure BmcState.Wf (s : BmcState) : Prop where
  device : s.device.Wf
  guid : s.guid.length = 16
  watchdog : s.watchdog.Wf
  chassis : s.chassis.Wf
  bootFlags : s.bootParams.All fun k d => k = 5 → 2 ≤ d.length
  lan : s.lan.All lanWf
  lanRev : s.lanRev.All fun _ r => r < 256
  userNames : s.userNames.All fun _ n => n.length ≤ 16
  userEnabled : s.userEnabled.All fun _ e => e < 4
  maxUsers : s.maxUsers < 64
  fixedNames : s.fixedNames < 64
  sensors : s.sensors.All fun _ x => x.Wf
  evAddr : s.evReceiverAddr < 256
  evLun : s.evReceiverLun < 4
  leds : s.leds.All fun _ x => x.Wf
  ports : s.ports.All fun _ p => p.Wf
  power : s.power.All fun _ p => p.level < 32
  sigClass : s.sigClass.All fun _ c => c < 16
  powerChannels : s.powerChannels.All fun _ c => c.status < 128
  pmGlobal : s.pmGlobal < 16
  hpmComponents : s.hpm.components < 256
  hpmSelftest2 : s.hpm.selftest2 < 256
  hpmRollback : s.hpm.rollbackStatus < 256
  hpmRollbackEstimate : ∀ e, s.hpm.rollbackEstimate = some e → e < 256
  hpmDescr : s.hpm.compDescr.All fun _ d => DescrWf d
  dcmiMajor : s.dcmi.confMajor < 256
  dcmiMinor : s.dcmi.confMinor < 256
  dcmiPower : s.dcmi.power.All fun _ p => p.Wf
  dcmiSensors : s.dcmi.sensors.All fun _ l => ∀ v ∈ l, v < 65536

/-! ### argument ranges -/

def LedCmd.InRange : LedCmd → Prop
  | .override (.blink o n) color => 1 ≤ o ∧ o ≤ 250 ∧ n < 256 ∧ color < 16
  | .override _ color => color < 16
  | .lampTest d color => d < 128 ∧ color < 16
  | .restoreLocal => False       -- LedState.to_request cannot express it (NotSupportedError)

/-- privilege limits the API can name (messaging.UserPrivilegeLevel) -/
def privCodes : List Nat := [0, 1, 2, 3, 4, 5, 15]

def Call.InRange : Call → Prop
  | .setWatchdog c =>
    c.timerUse < 8 ∧ c.action < 8 ∧ c.preInterrupt < 8 ∧ c.preInterval < 256 ∧ c.clearFlags < 256 ∧ c.initial < 65536
  | .chassisControl opt => opt < 16
  | .chassisControlNamed idx => idx < 6
  | .getBootParam sel setSel blk => sel < 128 ∧ setSel < 256 ∧ blk < 256
  | .setBootParam sel data _ => sel < 128 ∧ Bytes data ∧ (sel = 5 → 2 ≤ data.length)
  | .getLanParam ch sel setSel blk _ => ch < 16 ∧ sel < 256 ∧ setSel < 256 ∧ blk < 256
  | .setLanParam ch sel data => ch < 16 ∧ sel < 256 ∧ lanWf sel data
  | .getIp ch | .getIpSource ch | .getMac ch | .getVlan ch => ch < 16
  | .setIp ip ch => ch < 16 ∧ Bytes ip
  | .setIpSource code ch => ch < 16 ∧ (code = 1 ∨ code = 2)
  | .setVlan v ch => ch < 16 ∧ v ≤ 4095
  | .setUserName uid name => uid < 64 ∧ name.length ≤ 16
  | .getUserName uid => uid < 64
  | .getUserAccess uid ch => uid < 64 ∧ ch < 16
  | .setUserAccess a => a.userId < 64 ∧ a.channel < 16 ∧ a.privilege ∈ privCodes ∧ a.sessionLimit < 16
  | .setUserPassword uid pw => uid < 64 ∧ pw.length ≤ 16
  | .enableUser uid | .disableUser uid => uid < 64
  | .getSensorReading num _ | .getSensorThresholds num _ | .rearmSensorEvents num => num < 256
  | .setSensorThresholds num _ vals => num < 256 ∧ ∀ i v, vals.getD i none = some v → v < 256
  | .sendPlatformEvent e =>
    e.evmRev = 4 ∧ e.sensorType < 256 ∧ e.sensorNum < 256 ∧ e.eventType < 128 ∧ 1 ≤ e.data.length ∧ e.data.length ≤ 3
  | .setEventReceiver a l => a < 128 ∧ l < 4
  | .fruControl fru opt => fru < 256 ∧ opt < 256
  | .fruControlNamed idx fru => idx < 4 ∧ fru < 256
  | .getPowerLevel fru ty => fru < 256 ∧ ty < 256
  | .getFanSpeedProperties fru | .getFanLevel fru => fru < 256
  | .setFanLevel fru lvl => fru < 256 ∧ lvl < 256
  | .getLedState fru led => fru < 256 ∧ led < 256
  | .setLedState fru led c => fru < 256 ∧ led < 256 ∧ c.InRange
  | .setFruActivation fru _ | .setFruActivationPolicy fru _ => fru < 256
  | .fruLockNamed idx fru => idx < 4 ∧ fru < 256
  | .setPortState iface ch p =>
    iface < 4 ∧ ch < 64 ∧ p.hasLink = true ∧ p.Wf ∧ p.grouping < 256 ∧ p.state < 256
  | .setPortStateType8 iface ch p =>
    iface < 4 ∧ ch < 64 ∧ p.hasLink = true ∧ p.Wf ∧ p.grouping < 256 ∧ p.state < 256
  | .getPortState ch iface => ch < 64 ∧ iface < 4
  | .getPowerChannelStatus start => start < 256
  | .sendChannelPower ch _ lim pri bak => ch < 256 ∧ lim < 256 ∧ pri < 256 ∧ bak < 256
  | .setSignalingClass iface ch cls => iface < 4 ∧ ch < 64 ∧ cls < 16
  | .getSignalingClass iface ch => iface < 4 ∧ ch < 64
  | .getComponentDescription id => id < 256
  | .getDcmiCapabilities sel => sel < 256
  | .getPowerReading mode attrs => mode < 256 ∧ attrs < 256
  | _ => True

/-! ### how an oracle value looks through the Python API -/

/-- a completion code is raised as CompletionCodeError; a boot-device / IP-source code that the
conversion table does not name is a KeyError -/
def Result.toOutcome : Result → Outcome Result
  | .error cc => .ccError cc
  | .bootDev none => .pyError "KeyError"
  | .ipSource c => if c ≤ 4 then .ok (.ipSource c) else .pyError "KeyError"
  | r => .ok r

def present (x : BmcState × Result) : BmcState × Outcome Result := (x.1, x.2.toOutcome)

end PyIpmi.Spec.Bmc
