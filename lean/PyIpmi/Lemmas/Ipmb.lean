/-
  Normal forms of the GENERATED ipmb description (these are the lemmas that stop checking
  when `checksum`, `IpmbHeaderReq.encode`, `IpmbHeaderRsp.decode` or the `checks` list of
  `rx_filter` change in the source), plus list/sum8 arithmetic.
-/
import PyIpmi.Model.Ipmb
namespace PyIpmi.Ipmb
open PyIpmi PyIpmi.Spec.Wire

/-! ### sums -/

theorem foldl_add_sum (l : List Nat) (a : Nat) : l.foldl (fun acc b => acc + b) a = a + l.sum := by
  induction l generalizing a with
  | nil => simp
  | cons x xs ih => simp [List.foldl_cons, ih, List.sum_cons]; omega

theorem sum8_append (a b : List Nat) : sum8 (a ++ b) = (sum8 a + sum8 b) % 256 := by
  simp [sum8, List.sum_append]

theorem sum_set (l : List Nat) (i b : Nat) (hi : i < l.length) :
    (l.set i b).sum + l[i] = l.sum + b := by
  induction l generalizing i with
  | nil => simp at hi
  | cons x xs ih =>
    cases i with
    | zero => simp [List.sum_cons]; omega
    | succ i =>
      simp only [List.set_cons_succ, List.sum_cons, List.getElem_cons_succ]
      have := ih i (by simpa using hi)
      omega

/-- altering one byte of a list whose 8-bit sum is zero makes the sum non-zero -/
theorem sum8_set_ne (l : List Nat) (i b : Nat) (hi : i < l.length) (hl : l[i] < 256) (hb : b < 256)
    (hne : b ≠ l[i]) (h0 : sum8 l = 0) : sum8 (l.set i b) ≠ 0 := by
  have := sum_set l i b hi
  unfold sum8 at *
  omega

/-! ### checksum -/

theorem pyChecksum_eq (l : List Nat) : pyChecksum l = (256 - l.sum % 256) % 256 := by
  simp [pyChecksum, runChecksum, Gen.IpmbFilter.cksum, eval, foldl_add_sum]

theorem pyChecksum_lt (l : List Nat) : pyChecksum l < 256 := by
  rw [pyChecksum_eq]; omega

theorem pyChecksum_zero_iff (l : List Nat) : pyChecksum l = 0 ↔ sum8 l = 0 := by
  rw [pyChecksum_eq]; unfold sum8; omega

/-- appending its checksum makes any byte list sum to zero modulo 256 -/
theorem sum8_append_checksum (l : List Nat) : sum8 (l ++ [pyChecksum l]) = 0 := by
  rw [pyChecksum_eq]; simp [sum8, List.sum_append]; omega

/-! ### bit arithmetic of the two packed header bytes -/

theorem shl2_or (a b : Nat) (hb : b < 4) : a <<< 2 ||| b = a * 4 + b := by
  rw [← Nat.shiftLeft_add_eq_or_of_lt (by simpa using hb), Nat.shiftLeft_eq]

theorem shr2 (x : Nat) : x >>> 2 = x / 4 := by
  rw [Nat.shiftRight_eq_div_pow]

theorem and3 (x : Nat) : x &&& 3 = x % 4 := by
  have := Nat.and_two_pow_sub_one_eq_mod x 2
  simpa using this

theorem or1_even (n : Nat) (h : n % 2 = 0) : n ||| 1 = n + 1 := by
  have h2 : n = (n / 2) <<< 1 := by rw [Nat.shiftLeft_eq]; omega
  rw [h2, ← Nat.shiftLeft_add_eq_or_of_lt (by decide)]

/-! ### header encode -/

/-- the six header bytes as the figure has them -/
def hdrBytes (h : Hdr) : List Nat :=
  [h.rsSa, h.netfn * 4 + h.rsLun, (256 - (h.rsSa + (h.netfn * 4 + h.rsLun)) % 256) % 256,
   h.rqSa, h.seq * 4 + h.rqLun, h.cmd]

theorem encodeHeader_eq (h : Hdr) (hr : h.InRange) : encodeHeader h = .ok (hdrBytes h) := by
  obtain ⟨h1, h2, h3, h4, h5, h6, h7⟩ := hr
  have e1 : h.netfn <<< 2 ||| h.rsLun = h.netfn * 4 + h.rsLun := shl2_or _ _ h2
  have e2 : h.seq <<< 2 ||| h.rqLun = h.seq * 4 + h.rqLun := shl2_or _ _ h5
  have c1 : h.netfn * 4 + h.rsLun < 256 := by omega
  have c2 : h.seq * 4 + h.rqLun < 256 := by omega
  have c3 : (256 - (h.rsSa + (h.netfn * 4 + h.rsLun)) % 256) % 256 < 256 := by omega
  simp [encodeHeader, appendAll, Gen.IpmbFilter.reqHeaderBytes, evalTerm, eval, hget, e1, e2, h1, h4, h7,
    c1, c2, c3, hdrBytes, runChecksum, Gen.IpmbFilter.cksum]

theorem encodeIpmbMsg_eq (h : Hdr) (data : List Nat) (hr : h.InRange) :
    encodeIpmbMsg h data = .ok (hdrBytes h ++ data ++ [pyChecksum ((hdrBytes h ++ data).drop 3)]) := by
  simp [encodeIpmbMsg, encodeHeader_eq h hr]

/-! ### response header decode and the filter -/

theorem rspNeeds_eq : rspNeeds = 6 := by decide

theorem decodeRspFields_eq (f : List Nat) :
    decodeRspFields f =
      { rqSa := byteAt f 0, netfn := byteAt f 1 / 4, rqLun := byteAt f 1 % 4, rsSa := byteAt f 3,
        seq := byteAt f 4 / 4, rsLun := byteAt f 4 % 4, cmd := byteAt f 5 } := by
  simp [decodeRspFields, Gen.IpmbFilter.rspHeaderFields, hset, eval, shr2, and3, byteAt]

end PyIpmi.Ipmb

namespace PyIpmi.Ipmb
open PyIpmi PyIpmi.Spec.Wire

/-- the Python filter, evaluated from the generated `checks` list, says yes exactly on the
specification's intact matching replies -/
theorem rxFilter_true_iff (req : Hdr) (f : List Nat) (fl : Flags) (hn : req.netfn % 2 = 0) :
    rxFilter req f fl = .ok true ↔ isReplyTo req f fl := by
  unfold rxFilter isReplyTo
  rw [rspNeeds_eq]
  by_cases h0 : f.length = 0
  · simp [h0]
  by_cases h6 : f.length < 6
  · simp [h0, h6]; omega
  simp only [h0, h6, if_false]
  have hor : req.netfn ||| 1 = req.netfn + 1 := or1_even _ hn
  simp [List.all_filter, Gen.IpmbFilter.rxChecks, active, checkHolds, evalTerm, eval, decodeRspFields_eq,
    hget, fget, show ∀ l, runChecksum Gen.IpmbFilter.cksum l = pyChecksum l from fun _ => rfl,
    pyChecksum_zero_iff, hor]
  have h6' : 6 ≤ f.length := by omega
  simp only [rspNetfn, rspCmd, rspRsLun, rspSeq, rspRqSa, rspRsSa, rspRqLun, hdrOk, payOk, h6', true_and]
  rcases fl with ⟨a, b, c, d, e⟩
  cases a <;> cases b <;> cases c <;> cases d <;> cases e <;> simp <;> grind

end PyIpmi.Ipmb

namespace PyIpmi.Ipmb
open PyIpmi PyIpmi.Spec.Wire

/-- one altered byte breaks exactly one of the two 8-bit sums -/
theorem corrupt_breaks_sums (f : List Nat) (i b : Nat) (hf : Bytes f) (hi : i < f.length)
    (hb : b < 256) (hne : b ≠ f[i]) (hh : hdrOk f) (hp : payOk f) :
    ¬ (hdrOk (f.set i b) ∧ payOk (f.set i b)) := by
  intro ⟨hh', hp'⟩
  unfold hdrOk at hh hh'
  unfold payOk at hp hp'
  have hfi : f[i] < 256 := hf _ (List.getElem_mem hi)
  by_cases h3 : i < 3
  · rw [List.take_set] at hh'
    have hlen : i < (f.take 3).length := by simp; omega
    have hget : (f.take 3)[i] = f[i] := by simp
    exact sum8_set_ne (f.take 3) i b hlen (by rw [hget]; exact hfi) hb (by rw [hget]; exact hne) hh hh'
  · rw [List.drop_set] at hp'
    simp only [h3, if_false] at hp'
    have hlen : i - 3 < (f.drop 3).length := by simp; omega
    have hget : (f.drop 3)[i - 3] = f[i] := by simp [List.getElem_drop]; congr 1; omega
    exact sum8_set_ne (f.drop 3) (i - 3) b hlen (by rw [hget]; exact hfi) hb (by rw [hget]; exact hne) hp hp'

theorem isReplyTo_corrupt (req : Hdr) (f : List Nat) (fl : Flags) (i b : Nat) (hf : Bytes f)
    (h : isReplyTo req f fl) (hi : i < f.length) (hb : b < 256) (hne : b ≠ f[i]) :
    ¬ isReplyTo req (f.set i b) fl := by
  intro h'
  exact corrupt_breaks_sums f i b hf hi hb hne h.2.1 h.2.2.1 ⟨h'.2.1, h'.2.2.1⟩

end PyIpmi.Ipmb

namespace PyIpmi.Ipmb
open PyIpmi PyIpmi.Spec.Wire

/-- the frame of the figure: header, data, second checksum -/
def frameOf (h : Hdr) (data : List Nat) : List Nat :=
  hdrBytes h ++ data ++ [pyChecksum ((hdrBytes h ++ data).drop 3)]

theorem frameOf_length (h : Hdr) (data : List Nat) : (frameOf h data).length = data.length + 7 := by
  simp [frameOf, hdrBytes]

theorem frameOf_hdrOk (h : Hdr) (data : List Nat) : hdrOk (frameOf h data) := by
  simp [frameOf, hdrBytes, hdrOk, sum8]; omega

theorem frameOf_payOk (h : Hdr) (data : List Nat) : payOk (frameOf h data) := by
  have : (frameOf h data).drop 3 =
      ([h.rqSa, h.seq * 4 + h.rqLun, h.cmd] ++ data) ++ [pyChecksum ([h.rqSa, h.seq * 4 + h.rqLun, h.cmd] ++ data)] := by
    simp [frameOf, hdrBytes]
  unfold payOk
  rw [this]
  exact sum8_append_checksum _

theorem frameOf_bytes (h : Hdr) (data : List Nat) (hr : h.InRange) (hd : Bytes data) : Bytes (frameOf h data) := by
  obtain ⟨h1, h2, h3, h4, h5, h6, h7⟩ := hr
  unfold frameOf
  apply Bytes.append
  · apply Bytes.append
    · intro b hb
      simp [hdrBytes] at hb
      omega
    · exact hd
  · intro b hb
    simp at hb
    rw [hb]
    exact pyChecksum_lt _

theorem frameData_frameOf (h : Hdr) (data : List Nat) : frameData (frameOf h data) = data := by
  simp [frameData, frameOf, hdrBytes]

theorem parseReq_frameOf (h : Hdr) (data : List Nat) (hr : h.InRange) :
    parseReq (frameOf h data) = some (h, data) := by
  have hl := frameOf_length h data
  have c : 7 ≤ (frameOf h data).length ∧ hdrOk (frameOf h data) ∧ payOk (frameOf h data) :=
    ⟨by omega, frameOf_hdrOk h data, frameOf_payOk h data⟩
  obtain ⟨h1, h2, h3, h4, h5, h6, h7⟩ := hr
  unfold parseReq
  rw [if_pos c, frameData_frameOf]
  have e1 : (h.netfn * 4 + h.rsLun) / 4 = h.netfn := by omega
  have e2 : (h.netfn * 4 + h.rsLun) % 4 = h.rsLun := by omega
  have e3 : (h.seq * 4 + h.rqLun) / 4 = h.seq := by omega
  have e4 : (h.seq * 4 + h.rqLun) % 4 = h.rqLun := by omega
  simp [frameOf, hdrBytes, byteAt, e1, e2, e3, e4]

theorem encodeIpmbMsg_frameOf (h : Hdr) (data : List Nat) (hr : h.InRange) :
    encodeIpmbMsg h data = .ok (frameOf h data) := encodeIpmbMsg_eq h data hr

/-! ### the reply of the specification's figure -/

theorem mkReply_length (h : Hdr) (body : List Nat) : (mkReply h body).length = body.length + 7 := by
  simp [mkReply]

theorem mkReply_hdrOk (h : Hdr) (body : List Nat) : hdrOk (mkReply h body) := by
  simp [mkReply, hdrOk, sum8]; omega

theorem mkReply_payOk (h : Hdr) (body : List Nat) : payOk (mkReply h body) := by
  have : (mkReply h body).drop 3 =
      ([h.rsSa, h.seq * 4 + h.rsLun, h.cmd] ++ body) ++
        [(256 - ([h.rsSa, h.seq * 4 + h.rsLun, h.cmd] ++ body).sum % 256) % 256] := by
    simp [mkReply]
  unfold payOk
  rw [this, ← pyChecksum_eq]
  exact sum8_append_checksum _

/-- a frame with a bad checksum is rejected whatever request is outstanding -/
theorem rxFilter_damaged (req : Hdr) (f : List Nat) (fl : Flags) (h6 : 6 ≤ f.length)
    (hd : ¬ (hdrOk f ∧ payOk f)) : rxFilter req f fl = .ok false := by
  unfold rxFilter
  rw [rspNeeds_eq]
  have h0 : ¬ f.length = 0 := by omega
  have h1 : ¬ f.length < 6 := by omega
  simp only [h0, h1, if_false]
  congr 1
  rw [Bool.eq_false_iff]
  intro hall
  apply hd
  rw [List.all_eq_true] at hall
  have c1 := hall ⟨none, (.cksumSlice 0 (some 3)), (.e (.const 0))⟩
    (by simp [Gen.IpmbFilter.rxChecks, active])
  have c2 := hall ⟨none, (.cksumSlice 3 none), (.e (.const 0))⟩
    (by simp [Gen.IpmbFilter.rxChecks, active])
  simp only [checkHolds, evalTerm, eval, beq_iff_eq,
    show ∀ l, runChecksum Gen.IpmbFilter.cksum l = pyChecksum l from fun _ => rfl, pyChecksum_zero_iff] at c1 c2
  exact ⟨by simpa [hdrOk] using c1, by simpa [payOk] using c2⟩

/-- the filter returns a boolean on every frame of at least six bytes -/
theorem rxFilter_ok (req : Hdr) (f : List Nat) (fl : Flags) (h6 : 6 ≤ f.length) :
    ∃ b, rxFilter req f fl = .ok b := by
  unfold rxFilter
  rw [rspNeeds_eq]
  have h0 : ¬ f.length = 0 := by omega
  have h1 : ¬ f.length < 6 := by omega
  simp only [h0, h1, if_false]
  exact ⟨_, rfl⟩

/-- … and `false` on everything that is not an intact reply to the request -/
theorem rxFilter_false (req : Hdr) (f : List Nat) (fl : Flags) (hn : req.netfn % 2 = 0) (h6 : 6 ≤ f.length)
    (hr : ¬ isReplyTo req f fl) : rxFilter req f fl = .ok false := by
  obtain ⟨b, hb⟩ := rxFilter_ok req f fl h6
  cases b with
  | false => exact hb
  | true => exact absurd ((rxFilter_true_iff req f fl hn).1 hb) hr

theorem rspNetfn_mkReply (h : Hdr) (body : List Nat) (hq : h.rqLun < 4) : rspNetfn (mkReply h body) = h.netfn + 1 := by
  simp [mkReply, rspNetfn, byteAt]; omega

theorem rspCmd_mkReply (h : Hdr) (body : List Nat) : rspCmd (mkReply h body) = h.cmd := by
  simp [mkReply, rspCmd, byteAt]

end PyIpmi.Ipmb

namespace PyIpmi.Ipmb
open PyIpmi PyIpmi.Spec.Wire

/-! ### the response side: `IpmbHeaderRsp.encode`, `from_req_header` -/

/-- the six bytes of a response header as the figure has them: requester first -/
def rspHdrBytes (h : Hdr) : List Nat :=
  [h.rqSa, h.netfn * 4 + h.rqLun, (256 - (h.rqSa + (h.netfn * 4 + h.rqLun)) % 256) % 256,
   h.rsSa, h.seq * 4 + h.rsLun, h.cmd]

theorem encodeRspHeader_eq (h : Hdr) (hr : h.InRange) : encodeRspHeader h = .ok (rspHdrBytes h) := by
  obtain ⟨h1, h2, h3, h4, h5, h6, h7⟩ := hr
  have e1 : h.netfn <<< 2 ||| h.rqLun = h.netfn * 4 + h.rqLun := shl2_or _ _ h5
  have e2 : h.seq <<< 2 ||| h.rsLun = h.seq * 4 + h.rsLun := shl2_or _ _ h2
  have c1 : h.netfn * 4 + h.rqLun < 256 := by omega
  have c2 : h.seq * 4 + h.rsLun < 256 := by omega
  have c3 : (256 - (h.rqSa + (h.netfn * 4 + h.rqLun)) % 256) % 256 < 256 := by omega
  simp [encodeRspHeader, appendAll, Gen.IpmbFilter.rspHeaderBytes, evalTerm, eval, hget, e1, e2, h1, h4, h7,
    c1, c2, c3, rspHdrBytes, runChecksum, Gen.IpmbFilter.cksum]

/-- a response header object that carries the fields of request `h` in their roles and the network
function `h.netfn + 1` encodes to the response frame of the figure -/
theorem encodeIpmbMsgRsp_mkReply (h : Hdr) (body : List Nat) (hr : h.InRange) (hn : h.netfn + 1 < 64) :
    encodeIpmbMsgRsp { h with netfn := h.netfn + 1 } body = .ok (mkReply h body) := by
  have hr' : ({ h with netfn := h.netfn + 1 } : Hdr).InRange := by
    obtain ⟨h1, h2, h3, h4, h5, h6, h7⟩ := hr
    exact ⟨h1, h2, hn, h4, h5, h6, h7⟩
  simp [encodeIpmbMsgRsp, encodeRspHeader_eq _ hr', rspHdrBytes, mkReply, pyChecksum_eq]

theorem applyFromReq_intended (req : Hdr) (hn : req.netfn % 2 = 0) :
    applyFromReq (fromReqTable .intended) req = { req with netfn := req.netfn + 1 } := by
  simp [applyFromReq, fromReqTable, hset, eval, hget, or1_even _ hn]

/-- requester and responder exchanged -/
def crossed (req : Hdr) : Hdr :=
  { rsSa := req.rqSa, rsLun := req.rqLun, netfn := req.netfn, rqSa := req.rsSa, rqLun := req.rsLun,
    seq := req.seq, cmd := req.cmd }

/-- as shipped the roles are crossed and the network function is the request's own -/
theorem applyFromReq_asShipped (req : Hdr) : applyFromReq (fromReqTable .asShipped) req = crossed req := by
  simp [applyFromReq, fromReqTable, hset, eval, hget, crossed]

/-- … which `IpmbHeaderRsp.encode` (requester first) crosses back: what goes out is the REQUEST header
again, followed by the response body -/
theorem responseFrame_asShipped (req : Hdr) (body : List Nat) (hr : req.InRange) :
    responseFrame (fromReqTable .asShipped) req body = .ok (frameOf req body) := by
  have hr' : (crossed req).InRange := by
    obtain ⟨h1, h2, h3, h4, h5, h6, h7⟩ := hr
    exact ⟨h4, h5, h3, h1, h2, h6, h7⟩
  rw [responseFrame, applyFromReq_asShipped, encodeIpmbMsgRsp, encodeRspHeader_eq _ hr']
  simp [rspHdrBytes, frameOf, hdrBytes, crossed]

theorem frameData_mkReply (h : Hdr) (body : List Nat) : frameData (mkReply h body) = body := by
  simp [frameData, mkReply]

/-- the requester reads from the figure's response frame exactly the fields of the request it answers
(network function plus one) and the body -/
theorem parseRsp_mkReply (h : Hdr) (body : List Nat) (hr : h.InRange) :
    parseRsp (mkReply h body) = some ({ h with netfn := h.netfn + 1 }, body) := by
  have c : 7 ≤ (mkReply h body).length ∧ hdrOk (mkReply h body) ∧ payOk (mkReply h body) :=
    ⟨by rw [mkReply_length]; omega, mkReply_hdrOk h body, mkReply_payOk h body⟩
  obtain ⟨h1, h2, h3, h4, h5, h6, h7⟩ := hr
  unfold parseRsp
  rw [if_pos c, frameData_mkReply]
  have e1 : ((h.netfn + 1) * 4 + h.rqLun) / 4 = h.netfn + 1 := by omega
  have e2 : ((h.netfn + 1) * 4 + h.rqLun) % 4 = h.rqLun := by omega
  have e3 : (h.seq * 4 + h.rsLun) / 4 = h.seq := by omega
  have e4 : (h.seq * 4 + h.rsLun) % 4 = h.rsLun := by omega
  simp [mkReply, byteAt, e1, e2, e3, e4]

/-- the request frame of the figure is the frame the request encoder is proved to produce -/
theorem mkRequest_eq_frameOf (h : Hdr) (data : List Nat) : mkRequest h data = frameOf h data := by
  simp [mkRequest, frameOf, hdrBytes, pyChecksum_eq]

end PyIpmi.Ipmb
