/- C07 refinement lemmas, family 3: LAN configuration parameters (pyipmi/lan.py). -/
import PyIpmi.Lemmas.ApiBase
namespace PyIpmi.Lemmas.Api
open PyIpmi PyIpmi.Codec PyIpmi.Spec.Bmc PyIpmi.Model.Api PyIpmi.Gen.Tables

set_option maxRecDepth 4000
set_option linter.unusedSimpArgs false

/-- the common part of every LAN read: request for (channel, parameter), continuation on the data -/
theorem getLanParam_run (ch sel setSel blk : Nat) (k : List Nat → Outcome Result) (s : BmcState)
    (h1 : ch < 16) (h2 : sel < 256) (h3 : setSel < 256) (h4 : blk < 256) :
    (getLanParam ch sel setSel blk k).run s = (s, k (get_lan_param ch sel s)) := by
  have e1 : ch / 128 = 0 := by omega
  have e2 : ch % 256 = ch := by omega
  simp [getLanParam, getLanRequest, api_eval, bitsOf, bitOf, b2n, Nat.mod_eq_of_lt, *]

/-- INTENDED get_lan_config_param: the normal mode returns the data, the revision-only mode the parameter
revision - both of the ADDRESSED channel and parameter -/
theorem get_lan_config_param_refines (ch sel setSel blk : Nat) (revOnly : Bool) (s : BmcState)
    (h : (Call.getLanParam ch sel setSel blk revOnly).InRange) :
    (api_get_lan_config_param ch sel setSel blk revOnly).run s =
      (s, .ok (if revOnly then .nat (get_lan_revision ch sel s) else .bytes (get_lan_param ch sel s))) := by
  obtain ⟨h1, h2, h3, h4⟩ := h
  have e1 : ch / 128 = 0 := by omega
  have e2 : ch % 256 = ch := by omega
  have e3 : (ch + 128) / 128 % 2 = 1 := by omega
  have e4 : (ch + 128) % 16 = ch := by omega
  have e5 : (ch + 128) % 256 = ch + 128 := by omega
  cases revOnly <;>
    simp [api_get_lan_config_param, getLanRequest, api_eval, bitsOf, bitOf, b2n, Nat.mod_eq_of_lt, *]

/-- AS SHIPPED, revision-only mode: whatever channel and selectors the caller names, the request on the wire is
`80h 00h 00h 00h` (channel 0, parameter 0) and the call returns the (empty) data instead of the revision -/
theorem get_lan_config_param_shipped_revision_only (ch sel setSel blk : Nat) (s : BmcState) :
    (api_get_lan_config_param_shipped ch sel setSel blk true).request =
        .ok { netfn := 0x0c, lun := 0, cmd := 0x02, data := [0x80, 0, 0, 0] } ∧
    (api_get_lan_config_param_shipped ch sel setSel blk true).run s = (s, .ok (.bytes [])) := by
  constructor <;> simp [api_get_lan_config_param_shipped, api_eval, bitsOf, bitOf, b2n]

theorem set_lan_config_param_refines (ch sel : Nat) (data : List Nat) (s : BmcState) (h1 : ch < 16) (h2 : sel < 256) :
    (api_set_lan_config_param ch sel data).run s = (set_lan_param ch sel data s, .ok .unit) := by
  simp [api_set_lan_config_param, api_eval, bitsOf]
  congr 1 <;> omega

theorem get_ip_address_refines (ch : Nat) (s : BmcState) (h : ch < 16) :
    (api_get_ip_address ch).run s = (s, .ok (.ip (get_lan_param ch 3 s))) := by
  simp [api_get_ip_address, lanIp, getLanParam_run, *]

theorem get_mac_address_refines (ch : Nat) (s : BmcState) (h : ch < 16) :
    (api_get_mac_address ch).run s = (s, .ok (.mac (get_lan_param ch 5 s))) := by
  simp [api_get_mac_address, lanMac, getLanParam_run, *]

theorem set_ip_address_refines (ip : List Nat) (ch : Nat) (s : BmcState) (h : ch < 16) (hb : Bytes ip) :
    (api_set_ip_address ip ch).run s = (set_lan_param ch 3 ip s, .ok .unit) := by
  unfold api_set_ip_address
  have : ip.any (· ≥ 256) = false := by
    simp only [List.any_eq_false]; intro x hx; have := hb x hx; simp; omega
  rw [if_neg (by simp [this])]
  simp [lanIp, set_lan_config_param_refines, *]

/-- TABLE LAW (generated CONVERT_RAW_TO_IP_SRC): the five address-source codes of LAN parameter 4 map to
themselves (by meaning), reserved codes are not in the table -/
theorem rawToIpSrc_law :
    (List.range 16).all (fun c => lookup rawToIpSrc c == if c ≤ 4 then some c else none) = true := by
  decide +kernel

theorem rawToIpSrc_spec (c : Nat) (h : c < 16) : lookup rawToIpSrc c = if c ≤ 4 then some c else none := by
  have := List.all_eq_true.mp rawToIpSrc_law c (List.mem_range.mpr h)
  simpa using this

/-- TABLE LAW (ip_source_to_data): "static" is sent as 1, "dhcp" as 2 -/
theorem ipSrcToData_law : ipSrcToData = [(1, [1]), (2, [2])] := by decide

theorem get_ip_source_refines (ch : Nat) (s : BmcState) (h : ch < 16) (hw : 1 ≤ (get_lan_param ch 4 s).length) :
    (api_get_ip_source ch).run s = present (s, .ipSource ((get_lan_param ch 4 s).getD 0 0 % 16)) := by
  simp [api_get_ip_source, lanIpSrc, getLanParam_run, *]
  rcases hd : get_lan_param ch 4 s with _ | ⟨d0, t⟩
  · simp [hd] at hw
  · have hc : d0 % 16 < 16 := by omega
    simp [present, Result.toOutcome, rawToIpSrc_spec _ hc]
    by_cases hq : d0 % 16 ≤ 4 <;> simp [hq]

theorem set_ip_source_refines (code ch : Nat) (s : BmcState) (h : ch < 16) (hc : code = 1 ∨ code = 2) :
    (api_set_ip_source code ch).run s = (set_lan_param ch 4 [code] s, .ok .unit) := by
  unfold api_set_ip_source
  rw [ipSrcToData_law]
  rcases hc with rfl | rfl <;> simp [lookup, lanIpSrc, set_lan_config_param_refines, *]

/-! VLAN id coding (LAN parameter 20) -/

theorem or_eq_add_mul256 (a b : Nat) (hb : b < 256) : a * 256 ||| b = 256 * a + b := by
  rw [Nat.mul_comm a 256, show (256 : Nat) = 2 ^ 8 from rfl]
  exact (Nat.two_pow_add_eq_or_of_lt hb a).symm

theorem or128 (x : Nat) (h : x < 16) : 128 ||| x = 128 + x := by
  have := Nat.two_pow_add_eq_or_of_lt (i := 7) (b := x) (by omega) 1
  simpa using this.symm

/-- TABLE LAW: `dataToVlan (vlanToData v) = v` for every VLAN id the API accepts -/
theorem dataToVlan_vlanToData (v : Nat) (h : v ≤ 4095) : (vlanToData v).bind dataToVlan = .ok v := by
  unfold vlanToData
  rw [if_neg (by omega)]
  by_cases h0 : v = 0
  · simp [h0, dataToVlan]
  · have hx : v / 256 % 16 < 16 := by omega
    simp [h0, dataToVlan, or128 _ hx]
    rw [or_eq_add_mul256 _ _ (by omega)]
    omega

theorem vlanToData_rejects (v : Nat) (h : 4095 < v) : vlanToData v = .pyError "ValueError" := by
  simp [vlanToData, h]

theorem get_vlan_id_refines (ch : Nat) (s : BmcState) (h : ch < 16) (hw : lanWf 20 (get_lan_param ch 20 s)) :
    (api_get_vlan_id ch).run s = (s, .ok (.nat (let v := get_vlan ch s; if v.1 then v.2 else 0))) := by
  simp [api_get_vlan_id, lanVlan, getLanParam_run, *]
  obtain ⟨hb, _, hl⟩ := hw
  rcases hd : get_lan_param ch 20 s with _ | ⟨d0, _ | ⟨d1, t⟩⟩
  · simp [hd] at hl
  · simp [hd] at hl
  · have h0 : d0 < 256 := hb d0 (by simp [hd])
    have h1 : d1 < 256 := hb d1 (by simp [hd])
    simp [dataToVlan, get_vlan, hd, bitOf, bitsOf, or_eq_add_mul256 _ _ h0]
    split <;> split <;> omega

theorem set_vlan_id_refines (v ch : Nat) (s : BmcState) (h : ch < 16) (hv : v ≤ 4095) :
    (api_set_vlan_id v ch).run s = (set_vlan ch (v != 0) v s, .ok .unit) := by
  unfold api_set_vlan_id vlanToData
  rw [if_neg (by omega)]
  by_cases h0 : v = 0
  · simp [h0, lanVlan, set_lan_config_param_refines, set_vlan, b2n, *]
  · have hx : v / 256 % 16 < 16 := by omega
    simp [h0, lanVlan, set_lan_config_param_refines, set_vlan, b2n, or128 _ hx, *]

/-! ### the TEXT of the address argument: decimal per octet, leading zeros ignored -/

theorem digit_not_blank {c : Char} (h : c.isDigit = true) : isPyBlank c = false := by
  have h' := Char.isDigit_iff_toNat.mp h
  have h1 : 48 ≤ c.toNat := h'.1
  have h2 : c.toNat ≤ 57 := h'.2
  have h3 : c ≠ ' ' := by rintro rfl; exact absurd h (by decide)
  simp [isPyBlank, h3]; omega

theorem digit_ne {c d : Char} (h : c.isDigit = true) (hd : d.isDigit = false) : c ≠ d := by
  rintro rfl; simp [h] at hd

theorem dropBlanks_id {l : List Char} (h : ∀ c ∈ l, isPyBlank c = false) : dropBlanks l = l := by
  cases l with
  | nil => rfl
  | cons c cs => simp [dropBlanks, h c (by simp)]

theorem pyStrip_id {l : List Char} (h : ∀ c ∈ l, isPyBlank c = false) : pyStrip l = l := by
  unfold pyStrip
  rw [dropBlanks_id h, dropBlanks_id (by simpa using h), List.reverse_reverse]

theorem numeral_digits (k n : Nat) : ∀ c ∈ numeral k n, c.isDigit = true := by
  intro c hc
  simp only [numeral, List.mem_append, List.mem_replicate] at hc
  rcases hc with ⟨_, rfl⟩ | hc
  · rfl
  · exact Nat.isDigit_of_mem_toDigits (by decide) (by decide) hc

theorem numeral_ne_nil (k n : Nat) : numeral k n ≠ [] := by
  simp [numeral, Nat.toDigits_ne_nil]

theorem numeral_value (k n : Nat) : Nat.ofDigitChars 10 (numeral k n) 0 = n := by
  simp [numeral, Nat.ofDigitChars_append]

/-- a decimal numeral, with any number of zeros in front, denotes its decimal value -/
theorem octetOfText_numeral (k n : Nat) : octetOfText (numeral k n) = .ok n := by
  have hd := numeral_digits k n
  have hne := numeral_ne_nil k n
  have hv := numeral_value k n
  unfold octetOfText
  rw [pyStrip_id (fun c hc => digit_not_blank (hd c hc))]
  generalize numeral k n = w at *
  cases w with
  | nil => exact absurd rfl hne
  | cons c cs =>
    have hc := hd c (by simp)
    have h1 : c ≠ '+' := digit_ne hc (by decide)
    have h2 : c ≠ '-' := digit_ne hc (by decide)
    have hall : (c :: cs).all Char.isDigit = true := List.all_eq_true.mpr hd
    split
    · next h => cases h; exact absurd rfl h1
    · next h => cases h; exact absurd rfl h2
    · simp [hall, hv]

theorem splitDots_plain {w : List Char} (h : '.' ∉ w) : splitDots w = [w] := by
  induction w with
  | nil => rfl
  | cons c cs ih =>
    have hc : c ≠ '.' := by intro e; exact h (by simp [e])
    have := ih (by intro m; exact h (by simp [m]))
    simp [splitDots, hc, this]

theorem splitDots_dot {w : List Char} (rest : List Char) (h : '.' ∉ w) :
    splitDots (w ++ '.' :: rest) = w :: splitDots rest := by
  induction w with
  | nil => simp [splitDots]
  | cons c cs ih =>
    have hc : c ≠ '.' := by intro e; exact h (by simp [e])
    have := ih (by intro m; exact h (by simp [m]))
    simp [splitDots, hc, this]

theorem splitDots_joinDots {ws : List (List Char)} (hne : ws ≠ []) (h : ∀ w ∈ ws, '.' ∉ w) :
    splitDots (joinDots ws) = ws := by
  induction ws with
  | nil => exact absurd rfl hne
  | cons w ws ih =>
    cases ws with
    | nil => simpa [joinDots] using splitDots_plain (h w (by simp))
    | cons v vs =>
      have := ih (by simp) (fun x hx => h x (by simp [hx]))
      simp only [joinDots]
      rw [splitDots_dot _ (h w (by simp)), this]

theorem octetsOfTexts_numerals (pads ip : List Nat) (hl : pads.length = ip.length) :
    octetsOfTexts (List.zipWith numeral pads ip) = .ok ip := by
  induction ip generalizing pads with
  | nil => cases pads <;> simp [octetsOfTexts]
  | cons n ns ih =>
    cases pads with
    | nil => simp at hl
    | cons k ks =>
      simp only [List.length_cons, Nat.add_right_cancel_iff] at hl
      simp [octetsOfTexts, octetOfText_numeral, ih ks hl]

theorem zip_numeral_digits (pads ip : List Nat) : ∀ w ∈ List.zipWith numeral pads ip, ∀ c ∈ w, c.isDigit = true := by
  induction ip generalizing pads with
  | nil => cases pads <;> simp
  | cons n ns ih =>
    cases pads with
    | nil => simp
    | cons k ks =>
      intro w hw
      simp only [List.zipWith_cons_cons, List.mem_cons] at hw
      rcases hw with rfl | hw
      · exact numeral_digits k n
      · exact ih ks w hw

/-- DECIMAL PER OCTET: a dotted spelling of the octets `ip`, each with any number of leading zeros
('192.168.001.010', '010.020.030.040', '08.09.0.255'), converts to exactly `ip` -/
theorem ipAddressToData_dotted (pads ip : List Nat) (hl : pads.length = ip.length) (hne : ip ≠ []) :
    ipAddressToData (dotted pads ip) = .ok ip := by
  unfold ipAddressToData dotted
  rw [splitDots_joinDots, octetsOfTexts_numerals pads ip hl]
  · cases ip with
    | nil => exact absurd rfl hne
    | cons n ns => cases pads with
      | nil => simp at hl
      | cons k ks => simp
  · intro w hw hdot
    exact absurd (zip_numeral_digits pads ip w hw '.' hdot) (by decide)

/-- set_ip_address on a dotted spelling with leading zeros stores the decimal value of every octet -/
theorem set_ip_address_text_refines (pads ip : List Nat) (ch : Nat) (s : BmcState) (h : ch < 16) (hb : Bytes ip)
    (hl : pads.length = ip.length) (hne : ip ≠ []) :
    (api_set_ip_address_text (dotted pads ip) ch).run s = (set_lan_param ch 3 ip s, .ok .unit) := by
  unfold api_set_ip_address_text
  rw [ipAddressToData_dotted pads ip hl hne]
  exact set_ip_address_refines ip ch s h hb

end PyIpmi.Lemmas.Api
