/-
  Id strings (C16): `_device_id_string` / `TypeLengthString` / `_unpack6bitascii` / `bcd_decode`
  of the (intended) model read back every id string written by the specification's encoder,
  in all four type/length encodings, for every length — by induction on the string.
  The BCD plus table of the SDR path is the sixteen-code table of §43.15 (`bcdPlusSdr_sweep`); that the table
  regenerated from the working tree is this table is `Props.C16.bcd_plus_sdr_table`.  Core only.
-/
import PyIpmi.Lemmas.SdrBits
namespace PyIpmi.SdrParse
open PyIpmi PyIpmi.Sensor PyIpmi.Spec.Sdr

theorem pack6_length (cs : List Nat) : (pack6 cs).length * 4 ≤ cs.length * 3 + 3 := by
  induction cs using pack6.induct with
  | case1 => simp [pack6]
  | case2 a => simp [pack6]
  | case3 a b => simp [pack6]
  | case4 a b c => simp [pack6]
  | case5 a b c d rest ih => simp [pack6]; omega

theorem dataBytes_length_le (s : IdString) (h : s.wf = true) : s.dataBytes.length ≤ 30 := by
  cases s with
  | unicode bs => simp [IdString.wf] at h; simpa [IdString.dataBytes] using h.2
  | bcdPlus ps => simp [IdString.wf] at h; simpa [IdString.dataBytes] using h.2
  | sixBit cs =>
    simp [IdString.wf] at h
    have := pack6_length cs
    simp only [IdString.dataBytes]; omega
  | ascii8 cs => simp [IdString.wf] at h; simpa [IdString.dataBytes] using h.2


theorem take_raw (tl n : Nat) (data tail : List Nat) (h : data.length = n) :
    List.take n (List.drop 1 (List.take (1 + n) (tl :: (data ++ tail)))) = data := by
  subst h
  rw [Nat.add_comm, List.take_succ_cons, List.drop_succ_cons, List.drop_zero, List.take_left,
    List.take_length]

theorem bcdMap_sweep :
    allLt 13 (fun d => decide (Gen.SdrTables.bcdMap[d]? = some (bcdChar d))) = true := by decide +kernel

theorem bcdDecode_pairs (ps : List (Nat × Nat)) (h : ∀ p ∈ ps, p.1 < 13 ∧ p.2 < 13) :
    bcdDecode (ps.map fun p => p.1 * 16 + p.2) = .ok (ps.flatMap fun p => [bcdChar p.1, bcdChar p.2]) := by
  induction ps with
  | nil => rfl
  | cons p ps ih =>
    have hp := h p (List.mem_cons_self)
    have h1 : (p.1 * 16 + p.2) >>> 4 &&& 0xf = p.1 := by rw [and_f]; omega
    have h2 : (p.1 * 16 + p.2) &&& 0xf = p.2 := by rw [and_f]; omega
    have m1 : Gen.SdrTables.bcdMap[p.1]? = some (bcdChar p.1) := by
      simpa using allLt_spec bcdMap_sweep p.1 hp.1
    have m2 : Gen.SdrTables.bcdMap[p.2]? = some (bcdChar p.2) := by
      simpa using allLt_spec bcdMap_sweep p.2 hp.2
    simp only [List.map_cons, bcdDecode, h1, h2, m1, m2, ih (fun q hq => h q (List.mem_cons_of_mem _ hq)),
      List.flatMap_cons, List.cons_append, List.nil_append]


/-- The SDR table holds the character of each of the sixteen codes of §43.15. -/
theorem bcdPlusSdr_sweep :
    allLt 16 (fun d => decide (bcdPlusSdr[d]? = some (bcdChar d))) = true := by decide +kernel

theorem sdrBcdDecode_pairs (ps : List (Nat × Nat)) (h : ∀ p ∈ ps, p.1 < 16 ∧ p.2 < 16) :
    sdrBcdDecode (ps.map fun p => p.1 * 16 + p.2) = .ok (ps.flatMap fun p => [bcdChar p.1, bcdChar p.2]) := by
  induction ps with
  | nil => rfl
  | cons p ps ih =>
    have hp := h p (List.mem_cons_self)
    have h1 : (p.1 * 16 + p.2) >>> 4 = p.1 := by omega
    have h2 : (p.1 * 16 + p.2) &&& 0xf = p.2 := by rw [and_f]; omega
    have m1 : bcdPlusSdr[p.1]? = some (bcdChar p.1) := by
      simpa using allLt_spec bcdPlusSdr_sweep p.1 hp.1
    have m2 : bcdPlusSdr[p.2]? = some (bcdChar p.2) := by
      simpa using allLt_spec bcdPlusSdr_sweep p.2 hp.2
    simp only [List.map_cons, sdrBcdDecode, h1, h2, m1, m2, ih (fun q hq => h q (List.mem_cons_of_mem _ hq)),
      List.flatMap_cons, List.cons_append, List.nil_append]

theorem six_a (x : Nat) : 0x20 + (x &&& 0x3f) = x % 64 + 0x20 := by rw [and_3f]; omega
theorem six_b (x y : Nat) (hx : x < 256) :
    ((x &&& 0xc0) >>> 6) ||| ((y &&& 0xf) <<< 2) = x / 64 + 4 * (y % 16) := by
  have e1 : (x &&& 0xc0) >>> 6 = x / 64 := by rw [and_c0 x hx]; omega
  have e2 : (y &&& 0xf) <<< 2 = 4 * (y % 16) := by rw [and_f]; omega
  rw [e1, e2, or_4 _ _ (by omega) (by omega)]
theorem six_c (y z : Nat) (hy : y < 256) :
    ((y &&& 0xf0) >>> 4) ||| ((z &&& 0x3) <<< 4) = y / 16 + 16 * (z % 4) := by
  have e1 : (y &&& 0xf0) >>> 4 = y / 16 := by rw [and_f0 y hy]; omega
  have e2 : (z &&& 0x3) <<< 4 = 16 * (z % 4) := by rw [and_3]; omega
  rw [e1, e2, or_16 _ _ (by omega) (by omega)]
theorem six_d (z : Nat) (hz : z < 256) : (z &&& 0xfc) >>> 2 = z / 4 := by
  rw [and_fc z hz]; omega

theorem unpack6_pack6 (cs : List Nat) (h : ∀ c ∈ cs, c < 64) :
    unpack6 false (pack6 cs) = .ok (cs.map (· + 0x20) ++ (if cs.length % 4 = 3 then [0x20] else [])) := by
  induction cs using pack6.induct with
  | case1 => rfl
  | case2 a =>
    have ha : a < 64 := h a (by simp)
    simp only [pack6, unpack6, Bool.false_eq_true, if_false, six_a, List.map_cons, List.map_nil, List.length_cons,
      List.length_nil]
    simp; omega
  | case3 a b =>
    have ha : a < 64 := h a (by simp)
    have hb : b < 64 := h b (by simp)
    simp only [pack6, unpack6, Bool.false_eq_true, if_false, six_a, six_b _ _ (show a + b % 4 * 64 < 256 by omega),
      List.map_cons, List.map_nil, List.length_cons, List.length_nil]
    simp; omega
  | case4 a b c =>
    have ha : a < 64 := h a (by simp)
    have hb : b < 64 := h b (by simp)
    have hc : c < 64 := h c (by simp)
    simp only [pack6, unpack6, six_a, six_b _ _ (show a + b % 4 * 64 < 256 by omega),
      six_c _ _ (show b / 4 + c % 16 * 16 < 256 by omega), six_d _ (show c / 16 < 256 by omega),
      List.map_cons, List.map_nil, List.length_cons, List.length_nil]
    simp; omega
  | case5 a b c d rest ih =>
    have ha : a < 64 := h a (by simp)
    have hb : b < 64 := h b (by simp)
    have hc : c < 64 := h c (by simp)
    have hd : d < 64 := h d (by simp)
    have ih' := ih (fun x hx => h x (by simp [hx]))
    simp only [pack6, unpack6, ih', six_a, six_b _ _ (show a + b % 4 * 64 < 256 by omega),
      six_c _ _ (show b / 4 + c % 16 * 16 < 256 by omega), six_d _ (show c / 16 + d * 4 < 256 by omega),
      List.map_cons, List.length_cons]
    have e : (rest.length + 1 + 1 + 1 + 1) % 4 = rest.length % 4 := by omega
    simp [e]; omega

theorem idString_encode (s : IdString) (h : s.wf = true) (tail : List Nat) :
    idString Variant.intended (s.encode ++ tail) = .ok s.view := by
  have hn := dataBytes_length_le s h
  have htc : s.typeCode < 4 := by cases s <;> simp [IdString.typeCode]
  have hlen : (s.typeCode * 64 + s.dataBytes.length) &&& 0x3f = s.dataBytes.length := by rw [and_3f]; omega
  have hty : (s.typeCode * 64 + s.dataBytes.length) >>> 6 &&& 0x3 = s.typeCode := by rw [and_3]; omega
  have hta : ((s.typeCode * 64 + s.dataBytes.length) &&& 0xc0) >>> 6 = s.typeCode := by
    rw [and_c0 _ (by omega)]; omega
  have f1 : Variant.intended.bcdRaises = false := rfl
  have f2 : Variant.intended.sixBitStrict = false := rfl
  have f3 : Variant.intended.idTypeShr4 = false := rfl
  have f4 : Variant.intended.bcdFruTable = false := rfl
  unfold IdString.encode
  simp only [List.cons_append, idString, hlen, hty, hta, f1, f2, f3, f4, take_raw _ _ _ _ rfl, Bool.false_eq_true,
    if_false]
  cases s with
  | unicode bs => simp [IdString.typeCode, IdString.dataBytes, IdString.view, IdString.text]
  | ascii8 cs => simp [IdString.typeCode, IdString.dataBytes, IdString.view, IdString.text]
  | bcdPlus ps =>
    have hp : ∀ p ∈ ps, p.1 < 16 ∧ p.2 < 16 := by
      simp [IdString.wf] at h
      intro p hp; exact h.1 p.1 p.2 hp
    simp [IdString.typeCode, IdString.dataBytes, IdString.view, IdString.text, sdrBcdDecode_pairs ps hp]
  | sixBit cs =>
    have hc : ∀ c ∈ cs, c < 64 := by
      simp [IdString.wf] at h
      exact h.1
    simp [IdString.typeCode, IdString.dataBytes, IdString.view, IdString.text, unpack6_pack6 cs hc]
end PyIpmi.SdrParse
