/- C07 refinement lemmas, family 1: device id, GUID, resets, watchdog (pyipmi/bmc.py). -/
import PyIpmi.Lemmas.ApiBase
namespace PyIpmi.Lemmas.Api
open PyIpmi PyIpmi.Codec PyIpmi.Spec.Bmc PyIpmi.Model.Api PyIpmi.Gen.Tables

set_option maxRecDepth 4000
set_option linter.unusedSimpArgs false

theorem cold_reset_refines (s : BmcState) : api_cold_reset.run s = (cold_reset s, .ok .unit) := by
  simp [api_cold_reset, api_eval]

theorem warm_reset_refines (s : BmcState) : api_warm_reset.run s = (warm_reset s, .ok .unit) := by
  simp [api_warm_reset, api_eval]

theorem reset_watchdog_refines (s : BmcState) :
    api_reset_watchdog_timer.run s = (reset_watchdog s, .ok .unit) := by
  simp [api_reset_watchdog_timer, api_eval]

theorem set_watchdog_refines (c : WatchdogCfg) (s : BmcState) (h : (Call.setWatchdog c).InRange) :
    (api_set_watchdog_timer c).run s = (set_watchdog c s, .ok .unit) := by
  obtain ⟨h1, h2, h3, h4, h5, h6⟩ := h
  have b1 := b2n_le c.dontStop
  have b2 := b2n_le c.dontLog
  simp [api_set_watchdog_timer, api_eval, parseWatchdog, bitsOf]
  congr 1
  cases c
  simp at *
  bits_close

theorem get_watchdog_refines (s : BmcState) (hw : s.watchdog.Wf) :
    api_get_watchdog_timer.run s = (s, .ok (.watchdog (get_watchdog s))) := by
  obtain ⟨h1, h2, h3, h6, h7⟩ := hw
  have b1 := b2n_le s.watchdog.running
  have b2 := b2n_le s.watchdog.dontLog
  simp [api_get_watchdog_timer, api_eval, fmtWatchdog, get_watchdog]
  cases hs : s.watchdog
  simp [hs] at *
  bits_close

theorem get_device_guid_refines (s : BmcState) (hg : s.guid.length = 16) :
    api_get_device_guid.run s = (s, .ok (.bytes (get_device_guid s))) := by
  simp [api_get_device_guid, api_eval, get_device_guid, hg]
  exact List.take_of_length_le (by omega)

theorem bcdByte_lt (n : Nat) : bcdByte n < 256 := by unfold bcdByte; omega

theorem verMinor_bcd (n : Nat) (h : n < 100) : verMinor (bcdByte n) = .ok n := by
  unfold verMinor bcdByte
  have e1 : (n / 10 % 10 * 16 + n % 10) % 16 = n % 10 := by omega
  have e2 : (n / 10 % 10 * 16 + n % 10) / 16 = n / 10 % 10 := by omega
  rw [if_neg (by omega), if_pos (by omega), e1, e2, if_pos (by omega)]
  congr 1; omega

theorem verMinor_small (m : Nat) (h : m ≤ 9) : verMinor m = .ok m := by
  unfold verMinor
  rw [if_neg (by omega), if_pos (by omega), if_pos (by omega)]
  congr 1; omega

theorem get_device_id_refines (s : BmcState) (hw : s.device.Wf) :
    api_get_device_id.run s = (s, .ok (.deviceId (get_device_id s))) := by
  generalize hd : s.device = d at hw
  obtain ⟨h1, h2, h3, h4, h5, h6, h7, h8, h9⟩ := hw
  cases d with
  | mk deviceId revision providesSdrs updateInProgress fwMajor fwMinor ipmiMajor ipmiMinor support manufacturer product aux =>
  have b1 := b2n_le providesSdrs
  have b2 := b2n_le updateInProgress
  have b3 := bcdByte_lt fwMinor
  simp at h1 h2 h3 h4 h5 h6 h7 h8 h9
  have e1 : (fwMajor + 128 * b2n updateInProgress + 256 * bcdByte fwMinor) / 128 / 2 % 256 = bcdByte fwMinor := by omega
  have e2 : (ipmiMajor + 16 * ipmiMinor) / 16 % 16 = ipmiMinor := by omega
  cases aux with
  | none =>
    simp [api_get_device_id, api_eval, fmtDeviceId, get_device_id, hd, e1, e2, verMinor_bcd _ h3, verMinor_small _ h5]
    bits_close
  | some a =>
    obtain ⟨a0, a1, a2, a3, rfl⟩ : ∃ a0 a1 a2 a3, a = [a0, a1, a2, a3] := by
      rcases a with _ | ⟨a0, _ | ⟨a1, _ | ⟨a2, _ | ⟨a3, _ | ⟨a4, t⟩⟩⟩⟩⟩ <;> simp at h9
      exact ⟨a0, a1, a2, a3, rfl⟩
    simp [api_get_device_id, api_eval, fmtDeviceId, get_device_id, hd, e1, e2, verMinor_bcd _ h3, verMinor_small _ h5]
    bits_close

end PyIpmi.Lemmas.Api
