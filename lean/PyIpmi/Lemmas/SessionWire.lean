/-
  Lemmas for C06: what the peer's monitor has seen IS what the model client transmitted.  For
  any peer that relays the reference BMC (`Relay`), any configuration and any course of the life
  cycle (successful or not), the monitor state inside the peer equals the monitor run
  (`Spec.BmcSession.runWire`) over exactly the datagrams the result lists as sent, in order, each
  with its "lost" flag.  So "the final monitor state has flagged nothing" is a statement about the
  transmitted datagrams.
-/
import PyIpmi.Lemmas.SessionBmc
namespace PyIpmi.Session
open PyIpmi PyIpmi.RmcpWire PyIpmi.Gen.RmcpFormats PyIpmi.Spec.Lan PyIpmi.Spec.BmcSession

theorem runWire_append (md5 : List Nat → List Nat) (b : BmcCfg) (w1 w2 : List (Bool × List Nat)) :
    ∀ st, runWire md5 b st (w1 ++ w2) = runWire md5 b (runWire md5 b st w1) w2 := by
  induction w1 with
  | nil => intro st; rfl
  | cons x r ih => intro st; obtain ⟨l, d⟩ := x; simp only [List.cons_append, runWire]; exact ih _

/-- without losses the wire run is the plain run -/
theorem runWire_noloss (md5 : List Nat → List Nat) (b : BmcCfg) (w : List (Bool × List Nat))
    (h : ∀ x ∈ w, x.1 = false) : ∀ st, runWire md5 b st w = run md5 b st (w.map Prod.snd) := by
  induction w with
  | nil => intro st; rfl
  | cons x r ih =>
    intro st
    obtain ⟨l, d⟩ := x
    have hl : l = false := h (l, d) List.mem_cons_self
    subst hl
    simp only [runWire, List.map_cons, run]
    exact ih (fun y hy => h y (List.mem_cons_of_mem _ hy)) _

section wire
variable {σ : Type} {md5 : List Nat → List Nat} {b : BmcCfg} {P : σ → List Nat → σ × Option (List Nat)}
  {π : σ → BmcState} {lostAt : σ → Bool} (rel : Relay md5 b P π lostAt) (cfg : Cfg)

/-- `w` is a flagged copy of the datagram list `ds`; a `lost` flag only where the peer loses -/
def Flagged (lostAt : σ → Bool) (w : List (Bool × List Nat)) (ds : List (List Nat)) : Prop :=
  w.map Prod.snd = ds ∧ ∀ x ∈ w, x.1 = true → ∃ s, lostAt s = true

theorem Flagged.nil : Flagged lostAt [] [] := ⟨rfl, by simp⟩

theorem Flagged.append {w1 w2 : List (Bool × List Nat)} {d1 d2 : List (List Nat)}
    (h1 : Flagged lostAt w1 d1) (h2 : Flagged lostAt w2 d2) : Flagged lostAt (w1 ++ w2) (d1 ++ d2) :=
  ⟨by rw [List.map_append, h1.1, h2.1], fun x hx hl => by
    rcases List.mem_append.mp hx with e | e
    · exact h1.2 x e hl
    · exact h2.2 x e hl⟩

include rel in
theorem relay_one (s : σ) (d : List Nat) :
    ∃ w, Flagged lostAt w [d] ∧ π (P s d).1 = runWire md5 b (π s) w := by
  cases hl : lostAt s
  · exact ⟨[(false, d)], ⟨rfl, by simp⟩, by simp [runWire, (rel.answers s d hl).1]⟩
  · exact ⟨[(true, d)], ⟨rfl, fun x hx _ => ⟨s, hl⟩⟩, by simp [runWire, rel.drops s d hl]⟩

include rel in
theorem tryLoop_wire (h : ReqHdr) (sdu : List Nat) (tries : Nat) : ∀ (p : σ) (c : Client),
    ∃ w, Flagged lostAt w (tryLoop md5 P cfg h sdu tries p c).2.2.1 ∧
      π (tryLoop md5 P cfg h sdu tries p c).1 = runWire md5 b (π p) w := by
  induction tries with
  | zero => intro p c; exact ⟨[], Flagged.nil, rfl⟩
  | succ n ih =>
    intro p c
    rcases hp : packStep md5 c sdu with ⟨c', o⟩
    cases o with
    | ok d =>
      obtain ⟨w1, f1, e1⟩ := relay_one rel p d
      by_cases hr : rxStep cfg h (P p d).2 = .retryError
      · have e : tryLoop md5 P cfg h sdu (n + 1) p c =
            ((tryLoop md5 P cfg h sdu n (P p d).1 c').1, (tryLoop md5 P cfg h sdu n (P p d).1 c').2.1,
             d :: (tryLoop md5 P cfg h sdu n (P p d).1 c').2.2.1, (tryLoop md5 P cfg h sdu n (P p d).1 c').2.2.2) := by
          simp only [tryLoop, hp, hr]
        rw [e]
        obtain ⟨w2, f2, e2⟩ := ih (P p d).1 c'
        exact ⟨w1 ++ w2, Flagged.append f1 f2, by simp only; rw [e2, e1, runWire_append]⟩
      · have e : tryLoop md5 P cfg h sdu (n + 1) p c = ((P p d).1, c', [d], rxStep cfg h (P p d).2) := by
          simp only [tryLoop, hp]
        rw [e]
        exact ⟨w1, f1, e1⟩
    | _ =>
      simp only [tryLoop, hp]
      exact ⟨[], Flagged.nil, rfl⟩

include rel in
theorem exchange_wire (p : σ) (c : Client) (netfn lun cmd : Nat) (data : List Nat) :
    ∃ w, Flagged lostAt w (exchange md5 P cfg p c netfn lun cmd data).2.2.1 ∧
      π (exchange md5 P cfg p c netfn lun cmd data).1 = runWire md5 b (π p) w := by
  simp only [exchange]
  exact tryLoop_wire rel cfg _ _ _ _ _

/-- the result `r` of a part of the life cycle started in peer state `s` with `sent0` already
sent: it has appended datagrams to `sent0`, and the monitor has run over exactly those -/
def Wire (π : σ → BmcState) (lostAt : σ → Bool) (md5 : List Nat → List Nat) (b : BmcCfg)
    (s : σ) (sent0 : Sent) (r : Result σ) : Prop :=
  ∃ new w, r.sent = sent0 ++ new ∧ Flagged lostAt w (new.map Prod.snd) ∧ π r.peer = runWire md5 b (π s) w

theorem tagAll_snd (k : Kind) (l : List (List Nat)) : (tagAll k l).map Prod.snd = l := by
  induction l with
  | nil => rfl
  | cons d r ih => simp only [tagAll, List.map_cons, List.map_map] at ih ⊢; rw [ih]

/-- a step that ends here -/
theorem wire_stop (s p' : σ) (c' : Client) (sent0 : Sent) (k : Kind) (ds : List (List Nat)) (o : Outcome (List Nat))
    (w : List (Bool × List Nat)) (hf : Flagged lostAt w ds) (he : π p' = runWire md5 b (π s) w) :
    Wire π lostAt md5 b s sent0 ⟨p', c', sent0 ++ tagAll k ds, o⟩ :=
  ⟨tagAll k ds, w, rfl, by rw [tagAll_snd]; exact hf, he⟩

/-- a step that hands over to the next one -/
theorem wire_cont (s p' : σ) (sent0 : Sent) (k : Kind) (ds : List (List Nat)) (r : Result σ)
    (w : List (Bool × List Nat)) (hf : Flagged lostAt w ds) (he : π p' = runWire md5 b (π s) w)
    (hr : Wire π lostAt md5 b p' (sent0 ++ tagAll k ds) r) : Wire π lostAt md5 b s sent0 r := by
  obtain ⟨new, w2, h1, h2, h3⟩ := hr
  refine ⟨tagAll k ds ++ new, w ++ w2, by rw [h1, List.append_assoc], ?_, by rw [h3, he, runWire_append]⟩
  rw [List.map_append, tagAll_snd]
  exact Flagged.append hf h2

include rel in
theorem estabSetPriv_wire (sent3 : Sent) (p4 : σ) (c3 : Client) :
    Wire π lostAt md5 b p4 sent3 (estabSetPriv md5 P cfg sent3 p4 c3) := by
  obtain ⟨w, hf, he⟩ := exchange_wire rel cfg p4 c3 Gen.RmcpFormats.netfnApp 0 Gen.RmcpFormats.cmdSetPriv [cfg.priv % 16]
  rcases hx : exchange md5 P cfg p4 c3 Gen.RmcpFormats.netfnApp 0 Gen.RmcpFormats.cmdSetPriv [cfg.priv % 16] with ⟨p5, c4, s4, o⟩
  rw [hx] at hf he
  simp only at hf he
  cases o with
  | ok pl =>
    simp only [estabSetPriv, hx]
    cases decodeRsp setPrivRspWidths pl <;> exact wire_stop _ _ _ _ _ _ _ w hf he
  | _ => simp only [estabSetPriv, hx]; exact wire_stop _ _ _ _ _ _ _ w hf he

include rel in
theorem estabActivate_wire (sent2 : Sent) (p3 : σ) (c2 : Client) (fs2 : List (List Nat)) :
    Wire π lostAt md5 b p3 sent2 (estabActivate md5 P cfg sent2 p3 c2 fs2) := by
  simp only [estabActivate]
  generalize ([({ c2 with attached := true, s := { c2.s with sid := leVal (fs2.getD 0 []) } } : Client).s.auth % 16,
    cfg.priv % 16] ++ fs2.getD 1 [] ++ leBytes 4 cfg.outSeq) = data
  generalize ({ c2 with attached := true, s := { c2.s with sid := leVal (fs2.getD 0 []) } } : Client) = c2'
  obtain ⟨w, hf, he⟩ := exchange_wire rel cfg p3 c2' Gen.RmcpFormats.netfnApp 0 Gen.RmcpFormats.cmdActivate data
  rcases hx : exchange md5 P cfg p3 c2' Gen.RmcpFormats.netfnApp 0 Gen.RmcpFormats.cmdActivate data with ⟨p4, c3, s3, o⟩
  rw [hx] at hf he
  simp only at hf he
  cases o with
  | ok pl =>
    simp only
    cases decodeRsp activateRspWidths pl with
    | ok fs3 => exact wire_cont _ _ _ _ _ _ w hf he (estabSetPriv_wire rel cfg _ _ _)
    | _ => exact wire_stop _ _ _ _ _ _ _ w hf he
  | _ => exact wire_stop _ _ _ _ _ _ _ w hf he

include rel in
theorem estabChallenge_wire (sent1 : Sent) (p2 : σ) (c1 : Client) (fs1 : List (List Nat)) :
    Wire π lostAt md5 b p2 sent1 (estabChallenge md5 P cfg sent1 p2 c1 fs1) := by
  simp only [estabChallenge]
  generalize ({ c1 with s := { c1.s with auth := (chooseAuth cfg.pref ((fs1.getD 1 []).getD 0 0)).getD 256 } } : Client) = c1'
  generalize ([(chooseAuth cfg.pref ((fs1.getD 1 []).getD 0 0)).getD 0 % 16] ++ userField cfg.user) = data
  split
  · exact ⟨[], [], by simp, Flagged.nil, rfl⟩
  obtain ⟨w, hf, he⟩ := exchange_wire rel cfg p2 c1' Gen.RmcpFormats.netfnApp 0 Gen.RmcpFormats.cmdGetChallenge data
  rcases hx : exchange md5 P cfg p2 c1' Gen.RmcpFormats.netfnApp 0 Gen.RmcpFormats.cmdGetChallenge data with ⟨p3, c2, s2, o⟩
  rw [hx] at hf he
  simp only at hf he
  cases o with
  | ok pl =>
    simp only
    cases decodeRsp challengeRspWidths pl with
    | ok fs2 => exact wire_cont _ _ _ _ _ _ w hf he (estabActivate_wire rel cfg _ _ _ _)
    | _ => exact wire_stop _ _ _ _ _ _ _ w hf he
  | _ => exact wire_stop _ _ _ _ _ _ _ w hf he

include rel in
theorem estabAuthCap_wire (sent0 : Sent) (p1 : σ) (c0 : Client) :
    Wire π lostAt md5 b p1 sent0 (estabAuthCap md5 P cfg sent0 p1 c0) := by
  simp only [estabAuthCap]
  obtain ⟨w, hf, he⟩ := exchange_wire rel cfg p1 c0 Gen.RmcpFormats.netfnApp 0 Gen.RmcpFormats.cmdGetAuthCap [0x0e, cfg.priv % 16]
  rcases hx : exchange md5 P cfg p1 c0 Gen.RmcpFormats.netfnApp 0 Gen.RmcpFormats.cmdGetAuthCap [0x0e, cfg.priv % 16] with ⟨p2, c1, s1, o⟩
  rw [hx] at hf he
  simp only at hf he
  cases o with
  | ok pl =>
    simp only
    cases decodeRsp authCapRspWidths pl with
    | ok fs1 => exact wire_cont _ _ _ _ _ _ w hf he (estabChallenge_wire rel cfg _ _ _ _)
    | _ => exact wire_stop _ _ _ _ _ _ _ w hf he
  | _ => exact wire_stop _ _ _ _ _ _ _ w hf he

include rel in
theorem establish_wire (p0 : σ) (c0 : Client) :
    Wire π lostAt md5 b p0 [] (handshake md5 P cfg p0 c0) := by
  have hd : pingDatagram rmcpInitialSeq = .ok pingD := by decide
  obtain ⟨w, hf, he⟩ := relay_one rel p0 pingD
  have hp : ∃ o, ping P p0 = ((P p0 pingD).1, [pingD], o) := by
    simp only [ping, hd]
    exact ⟨_, rfl⟩
  obtain ⟨o, hp⟩ := hp
  simp only [handshake, hp]
  cases o with
  | ok u => exact wire_cont p0 _ [] .ping [pingD] _ w hf he (estabAuthCap_wire rel cfg _ _ _)
  | _ => exact wire_stop p0 _ _ [] .ping [pingD] _ w hf he

include rel in
theorem requestN_wire (n : Nat) : ∀ (p : σ) (c : Client),
    Wire π lostAt md5 b p [] (requestN md5 P cfg n p c) := by
  induction n with
  | zero => intro p c; exact ⟨[], [], rfl, Flagged.nil, rfl⟩
  | succ n ih =>
    intro p c
    obtain ⟨w, hf, he⟩ := exchange_wire rel cfg p c Gen.RmcpFormats.netfnApp 0 Gen.RmcpFormats.cmdGetDeviceId []
    rcases hx : exchange md5 P cfg p c Gen.RmcpFormats.netfnApp 0 Gen.RmcpFormats.cmdGetDeviceId [] with ⟨p', c', s1, o⟩
    rw [hx] at hf he
    simp only at hf he
    have h1 : Wire π lostAt md5 b p [] ⟨p', c', tagAll .request s1, o⟩ := by
      have := wire_stop (md5 := md5) (b := b) (π := π) (lostAt := lostAt) p p' c' [] .request s1 o w hf he
      simpa using this
    cases o with
    | ok pl =>
      simp only [requestN, request, hx]
      obtain ⟨new, w2, g1, g2, g3⟩ := ih p' c'
      refine ⟨tagAll .request s1 ++ new, w ++ w2, by simp [g1], ?_, by rw [g3, he, runWire_append]⟩
      rw [List.map_append, tagAll_snd]
      exact Flagged.append hf g2
    | _ => simp only [requestN, request, hx]; exact h1

include rel in
theorem close_wire (p : σ) (c : Client) : Wire π lostAt md5 b p [] (close md5 P cfg p c) := by
  simp only [close]
  split
  · split <;> exact ⟨[], [], rfl, Flagged.nil, rfl⟩
  split
  · exact ⟨[], [], rfl, Flagged.nil, rfl⟩
  · obtain ⟨w, hf, he⟩ := exchange_wire rel cfg p c Gen.RmcpFormats.netfnApp 0 Gen.RmcpFormats.cmdClose (leBytes 4 c.s.sid)
    rcases hx : exchange md5 P cfg p c Gen.RmcpFormats.netfnApp 0 Gen.RmcpFormats.cmdClose (leBytes 4 c.s.sid) with ⟨p', c', s1, o⟩
    rw [hx] at hf he
    simp only at hf he
    have h1 : ∀ (c'' : Client) (o' : Outcome (List Nat)), Wire π lostAt md5 b p [] ⟨p', c'', tagAll .close s1, o'⟩ := by
      intro c'' o'
      have := wire_stop (md5 := md5) (b := b) (π := π) (lostAt := lostAt) p p' c'' [] .close s1 o' w hf he
      simpa using this
    cases o with
    | ok pl => simp only; cases decodeRsp closeRspWidths pl <;> exact h1 _ _
    | _ => exact h1 _ _

include rel in
/-- The monitor inside the peer has run over exactly the datagrams the life cycle lists as
sent — whatever the configuration, whatever the outcome. -/
theorem lifecycle_wire (n : Nat) (p0 : σ) (c0 : Client) :
    ∃ w, Flagged lostAt w ((lifecycle md5 P cfg n p0 c0).sent.map Prod.snd) ∧
      π (lifecycle md5 P cfg n p0 c0).peer = runWire md5 b (π p0) w := by
  obtain ⟨n1, w1, e1, f1, g1⟩ := establish_wire rel cfg p0 (resetSess cfg c0)
  simp only [List.nil_append] at e1
  simp only [lifecycle, establish]
  cases ho : (handshake md5 P cfg p0 (resetSess cfg c0)).outcome with
  | ok pl =>
    simp only
    obtain ⟨n2, w2, e2, f2, g2⟩ := requestN_wire rel cfg n (handshake md5 P cfg p0 (resetSess cfg c0)).peer (handshake md5 P cfg p0 (resetSess cfg c0)).client
    simp only [List.nil_append] at e2
    cases ho2 : (requestN md5 P cfg n (handshake md5 P cfg p0 (resetSess cfg c0)).peer (handshake md5 P cfg p0 (resetSess cfg c0)).client).outcome with
    | ok pl2 =>
      simp only
      obtain ⟨n3, w3, e3, f3, g3⟩ := close_wire rel cfg
        (requestN md5 P cfg n (handshake md5 P cfg p0 (resetSess cfg c0)).peer (handshake md5 P cfg p0 (resetSess cfg c0)).client).peer
        (requestN md5 P cfg n (handshake md5 P cfg p0 (resetSess cfg c0)).peer (handshake md5 P cfg p0 (resetSess cfg c0)).client).client
      simp only [List.nil_append] at e3
      refine ⟨w1 ++ w2 ++ w3, ?_, by rw [g3, g2, g1, runWire_append, runWire_append]⟩
      rw [e1, e2, e3, List.map_append, List.map_append]
      exact Flagged.append (Flagged.append f1 f2) f3
    | _ =>
      simp only
      refine ⟨w1 ++ w2, ?_, by rw [g2, g1, runWire_append]⟩
      rw [e1, e2, List.map_append]
      exact Flagged.append f1 f2
  | _ => exact ⟨w1, by rw [e1]; exact f1, g1⟩

end wire
end PyIpmi.Session
