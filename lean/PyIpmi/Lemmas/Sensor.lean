/-
  Helper lemmas for C17: finite sweeps over the 256 reading bytes (as Bool functions over
  `List.range`, decided by the kernel), powers of ten, rounding of integers, and the algebra
  of the inverse formula.  Core only.
-/
import PyIpmi.Model.Sensor
import PyIpmi.Spec.Sensor
namespace PyIpmi.Sensor
open PyIpmi

/-- `p` holds for every `x < n` (Bool-valued sweep; `decide +kernel` evaluates it in O(n)). -/
def allLt (n : Nat) (p : Nat → Bool) : Bool := (List.range n).all p

theorem allLt_spec {n : Nat} {p : Nat → Bool} (h : allLt n p = true) :
    ∀ x, x < n → p x = true := by
  intro x hx
  unfold allLt at h
  rw [List.all_eq_true] at h
  exact h x (List.mem_range.mpr hx)

/-! ### the sign conversion, all 256 bytes -/

theorem signedRaw_ones_sweep :
    allLt 256 (fun r => decide (signedRaw 1 r = if r < 128 then (r : Int) else (r : Int) - 255)) = true := by
  decide +kernel

theorem signedRaw_twos_sweep :
    allLt 256 (fun r => decide (signedRaw 2 r = if r < 128 then (r : Int) else (r : Int) - 256)) = true := by
  decide +kernel

theorem signedRaw_ones (r : Nat) (h : r < 256) :
    signedRaw 1 r = if r < 128 then (r : Int) else (r : Int) - 255 := by
  simpa using allLt_spec signedRaw_ones_sweep r h

theorem signedRaw_twos (r : Nat) (h : r < 256) :
    signedRaw 2 r = if r < 128 then (r : Int) else (r : Int) - 256 := by
  simpa using allLt_spec signedRaw_twos_sweep r h

theorem signedRaw_other (fmt r : Nat) (h1 : fmt ≠ 1) (h2 : fmt ≠ 2) : signedRaw fmt r = (r : Int) := by
  simp [signedRaw, h1, h2]

/-- The model's bit expressions compute the specification's reading for every byte and every
format code. -/
theorem signedRaw_eq_spec (fmt r : Nat) (h : r < 256) :
    signedRaw fmt r = Spec.Sensor.signed (Spec.Sensor.Fmt.ofCode fmt) r := by
  by_cases h1 : fmt = 1
  · subst h1; rw [signedRaw_ones r h]; rfl
  · by_cases h2 : fmt = 2
    · subst h2; rw [signedRaw_twos r h]; rfl
    · rw [signedRaw_other fmt r h1 h2]
      match fmt, h1, h2 with
      | 0, _, _ => rfl
      | 1, h1, _ => exact absurd rfl h1
      | 2, _, h2 => exact absurd rfl h2
      | n + 3, _, _ => rfl

/-! ### the negative encoding, all 256 bytes -/

theorem encode_ones_sweep :
    allLt 256 (fun r => r == 255 ||
      decide (encodeSigned 1 (decide (signedRaw 1 r < 0)) (signedRaw 1 r) = (r : Int))) = true := by
  decide +kernel

theorem encode_twos_sweep :
    allLt 256 (fun r =>
      decide (encodeSigned 2 (decide (signedRaw 2 r < 0)) (signedRaw 2 r) = (r : Int))) = true := by
  decide +kernel

/-- Encoding the signed reading of a byte gives the byte back, except for 1's-complement
negative zero (0xFF reads as 0, which encodes as 0x00). -/
theorem encodeSigned_signedRaw (fmt r : Nat) (h : r < 256) (hz : ¬ (fmt = 1 ∧ r = 255)) :
    encodeSigned fmt (decide (signedRaw fmt r < 0)) (signedRaw fmt r) = (r : Int) := by
  by_cases h1 : fmt = 1
  · subst h1
    have := allLt_spec encode_ones_sweep r h
    simp only [Bool.or_eq_true, beq_iff_eq, decide_eq_true_eq] at this
    rcases this with h255 | h'
    · exact absurd ⟨rfl, h255⟩ hz
    · exact h'
  · by_cases h2 : fmt = 2
    · subst h2
      simpa using allLt_spec encode_twos_sweep r h
    · simp [encodeSigned, h1, h2, signedRaw_other fmt r h1 h2]

/-- The counter-example of negative zero is real: it is the only byte that does not come back. -/
theorem encode_ones_negzero : encodeSigned 1 (decide (signedRaw 1 255 < 0)) (signedRaw 1 255) = 0 := by
  decide +kernel

/-! ### powers of ten -/

theorem ten_pow_ne (n : Nat) : (10 : Rat) ^ n ≠ 0 := by
  have : (0 : Rat) < 10 ^ n := Rat.pow_pos (by decide)
  intro h; rw [h] at this; exact absurd this (by decide)

theorem pow10_ne (k : Int) : pow10 k ≠ 0 := by
  unfold pow10
  split
  · intro h
    have := ten_pow_ne k.natAbs
    grind
  · exact ten_pow_ne _

theorem pow10_neg_mul (k : Int) : pow10 (-1 * k) * pow10 k = 1 := by
  unfold pow10
  rcases k with n | n
  · cases n with
    | zero => simp
    | succ n =>
      have h1 : (-1 * Int.ofNat (n + 1)) < 0 := by simp <;> omega
      have h2 : ¬ (Int.ofNat (n + 1) < 0) := by simp <;> omega
      simp only [h1, h2, if_true, if_false]
      have : (-1 * Int.ofNat (n + 1)).natAbs = (Int.ofNat (n + 1)).toNat := by simp <;> omega
      rw [this]
      exact Rat.inv_mul_cancel _ (ten_pow_ne _)
  · have h1 : ¬ (-1 * Int.negSucc n < 0) := by simp <;> omega
    have h2 : (Int.negSucc n < 0) := by simp <;> omega
    simp only [h1, h2, if_true, if_false]
    have : (-1 * Int.negSucc n).toNat = (Int.negSucc n).natAbs := by simp <;> omega
    rw [this]
    exact Rat.mul_inv_cancel _ (ten_pow_ne _)

/-- The model's `10**k` is the specification's `10^k`. -/
theorem pow10_eq_spec (k : Int) : pow10 k = Spec.Sensor.pow10 k := by
  unfold pow10 Spec.Sensor.pow10
  rcases k with n | n
  · have h1 : ¬ (Int.ofNat n < 0) := by simp <;> omega
    have h2 : (0 : Int) ≤ Int.ofNat n := by simp <;> omega
    simp only [h1, h2, if_true, if_false]
  · have h1 : (Int.negSucc n < 0) := by simp <;> omega
    have h2 : ¬ ((0 : Int) ≤ Int.negSucc n) := by simp <;> omega
    simp only [h1, h2, if_true, if_false]
    have : (-Int.negSucc n).toNat = (Int.negSucc n).natAbs := by simp <;> omega
    rw [this, Rat.div_def, Rat.one_mul]

/-! ### rounding -/

theorem roundHalfEven_int (z : Int) : roundHalfEven (z : Rat) = z := by
  unfold roundHalfEven
  have h0 : (z : Rat) - (z : Rat) = 0 := by grind
  have h1 : (0 : Rat) < 1 / 2 := by decide +kernel
  simp only [Rat.floor_intCast, h0, h1, if_true]

/-! ### algebra of the inverse -/

/-- `((M·x + B·p1)·p2·p2' − B·p1) / M = x` when `M ≠ 0` and `p2'·p2 = 1`. -/
theorem inverse_algebra (m x b p1 p2 p2' : Rat) (hm : m ≠ 0) (hp : p2' * p2 = 1) :
    (((m * x + b * p1) * p2) * p2' - b * p1) / m = x := by
  grind

theorem rawQ_intended_arg (r : Rec) (raw : Nat) (hm : r.m ≠ 0) :
    rawQ Variant.intended r (arg r raw) = (signedRaw r.fmt raw : Rat) := by
  have hm' : (r.m : Rat) ≠ 0 := by simp [Rat.intCast_eq_zero_iff, hm]
  simp only [rawQ, Variant.intended, arg, Bool.false_eq_true, if_false]
  exact inverse_algebra _ _ _ _ _ _ hm' (pow10_neg_mul r.k2)

end PyIpmi.Sensor
