/- C07 refinement lemmas, family 5: sensor reading / thresholds / re-arm, platform events, event receiver
   (pyipmi/sensor.py, pyipmi/event.py). -/
import PyIpmi.Lemmas.ApiBase
namespace PyIpmi.Lemmas.Api
open PyIpmi PyIpmi.Codec PyIpmi.Spec.Bmc PyIpmi.Model.Api PyIpmi.Gen.Tables

set_option maxRecDepth 4000
set_option linter.unusedSimpArgs false

theorem or_mul256 (a b : Nat) (ha : a < 256) : a ||| b * 256 = a + 256 * b := by
  rw [Nat.or_comm, Nat.mul_comm b 256, show (256 : Nat) = 2 ^ 8 from rfl]
  rw [← Nat.two_pow_add_eq_or_of_lt ha b]; omega

theorem get_sensor_reading_refines (num lun : Nat) (s : BmcState) (h : num < 256)
    (hw : (get_sensor lun num s).Wf) :
    (api_get_sensor_reading num lun).run s =
      (s, .ok (let r := get_sensor_reading lun num s; .optNatPair r.1 r.2)) := by
  have e1 : num % 256 = num := by omega
  generalize hx : get_sensor lun num s = x at hw
  obtain ⟨w1, w2, _⟩ := hw
  cases x with
  | mk reading eventMsgEnabled scanningEnabled unavailable states1 states2 readable thresholds rearmCount =>
  have b1 := b2n_le eventMsgEnabled
  have b2 := b2n_le scanningEnabled
  have b3 := b2n_le unavailable
  have e2 : (128 * b2n eventMsgEnabled + 64 * b2n scanningEnabled + 32 * b2n unavailable) / 32 % 2 = b2n unavailable := by
    omega
  rcases states1 with _ | a <;> rcases states2 with _ | b <;>
    simp [api_get_sensor_reading, getSensorReading, statesOf, api_eval, fmtSensorReading, get_sensor_reading, hx, e1, e2] <;>
    cases unavailable <;> simp [b2n]
  all_goals
    have hb : b < 128 := w2 b rfl
    rw [Nat.mod_eq_of_lt hb]
    exact or_mul256 _ _ (w1 a rfl)

/-- AS SHIPPED (`rsp.states2 << 8` unmasked): a discrete sensor whose response carries both state bytes always
shows "state 15" - the reserved bit 7 of byte 5, which a conforming BMC returns as 1 -/
theorem get_sensor_reading_rawbit_run (num lun : Nat) (s : BmcState) (h : num < 256)
    (hw : (get_sensor lun num s).Wf) (a b : Nat) (hu : (get_sensor lun num s).unavailable = false)
    (h1 : (get_sensor lun num s).states1 = some a) (h2 : (get_sensor lun num s).states2 = some b) :
    (getSensorReading false num lun true).run s =
      (s, .ok (.optNatPair (some (get_sensor lun num s).reading) (some (a + 256 * b + 0x8000)))) := by
  have e1 : num % 256 = num := by omega
  generalize hx : get_sensor lun num s = x at hw hu h1 h2
  obtain ⟨w1, w2, _⟩ := hw
  cases x with
  | mk reading eventMsgEnabled scanningEnabled unavailable states1 states2 readable thresholds rearmCount =>
  simp at hu h1 h2
  subst hu h1 h2
  have b1 := b2n_le eventMsgEnabled
  have b2 := b2n_le scanningEnabled
  have hb : b < 128 := w2 b rfl
  have e2 : (128 * b2n eventMsgEnabled + 64 * b2n scanningEnabled) / 32 % 2 = 0 := by
    have : (128 * b2n eventMsgEnabled + 64 * b2n scanningEnabled) / 32 = 4 * b2n eventMsgEnabled + 2 * b2n scanningEnabled := by
      omega
    omega
  have e3 : (128 + b) % 256 = 128 + b := by omega
  have e4 : b2n false = 0 := rfl
  simp [getSensorReading, statesOf, api_eval, fmtSensorReading, hx, e1, e2, e3, e4]
  rw [or_mul256 _ _ (w1 a rfl)]; omega

theorem filterMap_congr' {α β} {f g : α → Option β} {l : List α} (h : ∀ x ∈ l, f x = g x) :
    l.filterMap f = l.filterMap g := by
  induction l with
  | nil => rfl
  | cons a t ih =>
    rw [List.filterMap_cons, List.filterMap_cons, h a (by simp), ih (fun x hx => h x (by simp [hx]))]

theorem range6 : List.range 6 = [0, 1, 2, 3, 4, 5] := rfl

theorem get_sensor_thresholds_refines (num lun : Nat) (s : BmcState) (h : num < 256)
    (hw : (get_sensor lun num s).Wf) :
    (api_get_sensor_thresholds num lun).run s = (s, .ok (.thresholds (get_sensor_thresholds lun num s))) := by
  have e1 : num % 256 = num := by omega
  generalize hx : get_sensor lun num s = x at hw
  obtain ⟨_, _, w2⟩ := hw
  cases x with
  | mk reading eventMsgEnabled scanningEnabled unavailable states1 states2 readable thresholds rearmCount =>
  simp at w2
  have t0 := w2 0; have t1 := w2 1; have t2 := w2 2; have t3 := w2 3; have t4 := w2 4; have t5 := w2 5
  simp [api_get_sensor_thresholds, api_eval, fmtThresholds, get_sensor_thresholds, hx, e1, range6, bitOf]
  have c0 : (if readable % 2 = 1 then thresholds[0]?.getD 0 else 0) < 256 := by split <;> omega
  have c1 : (if readable / 2 % 2 = 1 then thresholds[1]?.getD 0 else 0) < 256 := by split <;> omega
  have c2 : (if readable / 4 % 2 = 1 then thresholds[2]?.getD 0 else 0) < 256 := by split <;> omega
  have c3 : (if readable / 8 % 2 = 1 then thresholds[3]?.getD 0 else 0) < 256 := by split <;> omega
  have c4 : (if readable / 16 % 2 = 1 then thresholds[4]?.getD 0 else 0) < 256 := by split <;> omega
  have c5 : (if readable / 32 % 2 = 1 then thresholds[5]?.getD 0 else 0) < 256 := by split <;> omega
  apply filterMap_congr'
  intro i hi
  simp at hi
  rcases hi with rfl | rfl | rfl | rfl | rfl | rfl <;> simp
  · by_cases hb : readable % 2 = 1 <;> simp [hb] <;> omega
  · by_cases hb : readable / 2 % 2 = 1 <;> simp [hb] <;> omega
  · by_cases hb : readable / 4 % 2 = 1 <;> simp [hb] <;> omega
  · by_cases hb : readable / 8 % 2 = 1 <;> simp [hb] <;> omega
  · by_cases hb : readable / 16 % 2 = 1 <;> simp [hb] <;> omega
  · by_cases hb : readable / 32 % 2 = 1 <;> simp [hb] <;> omega

theorem set_zero_self (l : List Nat) (i : Nat) (h : l.getD i 0 = 0) : l.set i 0 = l := by
  induction l generalizing i with
  | nil => rfl
  | cons a t ih =>
    cases i with
    | zero => simp at h; simp [h]
    | succ i => simp at h; simp [ih i (by simpa using h)]

/-- one `if <name> is not None:` block on a request whose slot `i` still holds the creation defaults -/
theorem setThr_shape (n : Nat) (ms ts : List Nat) (vals : List (Option Nat)) (i : Nat)
    (h1 : ms.getD i 0 = 0) (h2 : ts.getD i 0 = 0) :
    setThr [.int n, .bits ms, .bits ts] vals i =
      [.int n, .bits (ms.set i (b2n (vals.getD i none).isSome)), .bits (ts.set i ((vals.getD i none).getD 0))] := by
  unfold setThr
  cases vals.getD i none with
  | none => simp [b2n, set_zero_self _ _ h1, set_zero_self _ _ h2]
  | some v => simp [b2n, setBit]

theorem opt_slot (o : Option Nat) (m byte k : Nat) (hb : m / 2 ^ k % 2 = b2n o.isSome) (ht : byte = o.getD 0) :
    (if bitOf m k = true then some byte else none) = o := by
  cases o <;> simp_all [bitOf, b2n]

theorem set_sensor_thresholds_refines (num lun : Nat) (vals : List (Option Nat)) (s : BmcState)
    (h : (Call.setSensorThresholds num lun vals).InRange) :
    (api_set_sensor_thresholds num lun vals).run s = (set_sensor_thresholds lun num vals s, .ok .unit) := by
  obtain ⟨h1, h2⟩ := h
  have e1 : num % 256 = num := by omega
  have hreq : setThr (setThr (setThr (setThr (setThr (setThr (setInt (fresh reqSetSensorThresholds) 0 num) vals 0) vals 1) vals 2) vals 3) vals 4) vals 5
      = [.int num, .bits [b2n (vals.getD 0 none).isSome, b2n (vals.getD 1 none).isSome, b2n (vals.getD 2 none).isSome,
                          b2n (vals.getD 3 none).isSome, b2n (vals.getD 4 none).isSome, b2n (vals.getD 5 none).isSome, 0],
         .bits [(vals.getD 0 none).getD 0, (vals.getD 1 none).getD 0, (vals.getD 2 none).getD 0,
                (vals.getD 3 none).getD 0, (vals.getD 4 none).getD 0, (vals.getD 5 none).getD 0]] := by
    simp [fresh, defaults, setInt, reqSetSensorThresholds_eq, setThr_shape]
  simp only [api_set_sensor_thresholds, hreq]
  clear hreq
  have t0 : (vals.getD 0 none).getD 0 < 256 := by
    cases h : vals.getD 0 none with | none => simp | some v => simpa using h2 0 v h
  have t1 : (vals.getD 1 none).getD 0 < 256 := by
    cases h : vals.getD 1 none with | none => simp | some v => simpa using h2 1 v h
  have t2 : (vals.getD 2 none).getD 0 < 256 := by
    cases h : vals.getD 2 none with | none => simp | some v => simpa using h2 2 v h
  have t3 : (vals.getD 3 none).getD 0 < 256 := by
    cases h : vals.getD 3 none with | none => simp | some v => simpa using h2 3 v h
  have t4 : (vals.getD 4 none).getD 0 < 256 := by
    cases h : vals.getD 4 none with | none => simp | some v => simpa using h2 4 v h
  have t5 : (vals.getD 5 none).getD 0 < 256 := by
    cases h : vals.getD 5 none with | none => simp | some v => simpa using h2 5 v h
  clear h2
  simp only [set_sensor_thresholds, range6, List.map_cons, List.map_nil]
  generalize vals.getD 0 none = o0 at *
  generalize vals.getD 1 none = o1 at *
  generalize vals.getD 2 none = o2 at *
  generalize vals.getD 3 none = o3 at *
  generalize vals.getD 4 none = o4 at *
  generalize vals.getD 5 none = o5 at *
  have b0 := b2n_le o0.isSome; have b1 := b2n_le o1.isSome; have b2 := b2n_le o2.isSome
  have b3 := b2n_le o3.isSome; have b4 := b2n_le o4.isSome; have b5 := b2n_le o5.isSome
  simp [api_eval, parseThresholds, e1, set_sensor_thresholds, range6]
  congr <;> (apply opt_slot <;> omega)

theorem rearm_sensor_events_refines (num : Nat) (s : BmcState) (h : num < 256) :
    (api_rearm_sensor_events num).run s = (rearm_sensor 0 num s, .ok .unit) := by
  have e1 : num % 256 = num := by omega
  simp [api_rearm_sensor_events, api_eval, e1]

theorem send_platform_event_refines (e : PlatformEvent) (s : BmcState) (h : (Call.sendPlatformEvent e).InRange) :
    (api_send_platform_event e).run s = (platform_event e s, .ok .unit) := by
  obtain ⟨h0, h1, h2, h3, h4, h5⟩ := h
  cases e with
  | mk evmRev sensorType sensorNum deassert eventType data =>
  simp at h0 h1 h2 h3 h4 h5
  subst h0
  rcases data with _ | ⟨d1, rest⟩
  · simp at h4
  · have hr : rest.length ≤ 2 := by simp at h5; omega
    cases deassert
    · have e : eventType % 256 / 128 % 2 = 0 := by omega
      simp [api_send_platform_event, api_eval, bitsOf, bitOf, hr, Nat.mod_eq_of_lt, e, *]
    · have e : (eventType + 128) % 256 / 128 % 2 = 1 := by omega
      simp [api_send_platform_event, api_eval, bitsOf, bitOf, hr, Nat.mod_eq_of_lt, e, *]

theorem set_event_receiver_refines (addr7 lun : Nat) (s : BmcState) (h1 : addr7 < 128) (h2 : lun < 4) :
    (api_set_event_receiver addr7 lun).run s = (set_event_receiver (2 * addr7) lun s, .ok .unit) := by
  simp [api_set_event_receiver, api_eval, bitsOf]
  congr 1 <;> omega

theorem get_event_receiver_refines (s : BmcState) (h1 : s.evReceiverAddr < 256) (h2 : s.evReceiverLun < 4) :
    api_get_event_receiver.run s = (s, .ok (.natPair (s.evReceiverAddr / 2) s.evReceiverLun)) := by
  simp [api_get_event_receiver, api_eval]
  bits_close

end PyIpmi.Lemmas.Api
