/-
  C20 — helper lemmas: integer literals (`int(s, 0)`), `cmd_raw`, hex printing, exit clauses.
  Core tactics only.
-/
import PyIpmi.Model.Cli
import PyIpmi.Spec.Cli
namespace PyIpmi.Cli

/-- pointwise relation between two lists of the same length -/
inductive All₂ {α β} (R : α → β → Prop) : List α → List β → Prop where
  | nil : All₂ R [] []
  | cons {a b as bs} : R a b → All₂ R as bs → All₂ R (a :: as) (b :: bs)

/-! ### literals denote their positional value -/

/-- digit `d` written in lower case -/
def digitChar (d : Nat) : Nat := if d < 10 then 48 + d else 87 + d
/-- digit `d` written in upper case -/
def digitCharU (d : Nat) : Nat := if d < 10 then 48 + d else 55 + d

/-- positional value of a digit list (most significant first) on top of `acc` -/
def horner (base : Nat) (ds : List Nat) (acc : Nat) : Nat := ds.foldl (fun a d => a * base + d) acc

theorem digitVal_digitChar (d : Nat) (h : d < 36) : digitVal (digitChar d) = d := by
  unfold digitVal digitChar
  split <;> (repeat' split) <;> omega

theorem digitVal_digitCharU (d : Nat) (h : d < 36) : digitVal (digitCharU d) = d := by
  unfold digitVal digitCharU
  split <;> (repeat' split) <;> omega

theorem digitChar_ne_us (d : Nat) (h : d < 36) : (digitChar d == 95) = false := by
  unfold digitChar
  split <;> simp <;> omega

theorem digitCharU_ne_us (d : Nat) (h : d < 36) : (digitCharU d == 95) = false := by
  unfold digitCharU
  split <;> simp <;> omega

/-- a character that is a digit of the base, whichever case it is written in -/
def IsDigitOf (base : Nat) (c d : Nat) : Prop := d < base ∧ (c = digitChar d ∨ c = digitCharU d)

theorem scanDigits_digits (base : Nat) (hb : base ≤ 36) :
    ∀ (cs ds : List Nat) (acc : Nat) (seen : Bool),
      All₂ (IsDigitOf base) cs ds → (ds ≠ [] ∨ seen = true) →
      scanDigits base cs acc false seen = some (horner base ds acc, []) := by
  intro cs ds
  induction ds generalizing cs with
  | nil =>
    intro acc seen hf hs
    cases hf
    cases hs with
    | inl h => exact absurd rfl h
    | inr h => subst h; rfl
  | cons d ds ih =>
    intro acc seen hf _
    cases hf with
    | cons hcd hrest =>
      rename_i c cs'
      obtain ⟨hd, hc⟩ := hcd
      have hd36 : d < 36 := by omega
      have hv : digitVal c = d := by
        cases hc with
        | inl h => rw [h]; exact digitVal_digitChar d hd36
        | inr h => rw [h]; exact digitVal_digitCharU d hd36
      have hu : (c == 95) = false := by
        cases hc with
        | inl h => rw [h]; exact digitChar_ne_us d hd36
        | inr h => rw [h]; exact digitCharU_ne_us d hd36
      unfold scanDigits
      simp only [hu, Bool.false_eq_true, if_false, hv, hd, if_true]
      rw [ih cs' (acc * base + d) true hrest (Or.inr rfl)]
      simp [horner]

theorem dropSpaces_digit (c d base : Nat) (rest : Str) (hb : base ≤ 36) (h : IsDigitOf base c d) :
    dropSpaces (c :: rest) = c :: rest := by
  obtain ⟨hd, hc⟩ := h
  have : isSpace c = false := by
    cases hc with
    | inl h => subst h; unfold digitChar isSpace; split <;> simp <;> omega
    | inr h => subst h; unfold digitCharU isSpace; split <;> simp <;> omega
  simp [dropSpaces, this]

theorem digit_facts (c d base : Nat) (hb : base ≤ 36) (h : IsDigitOf base c d) :
    c ≠ 43 ∧ c ≠ 45 ∧ c ≠ 95 ∧ (c = 48 ↔ d = 0) := by
  obtain ⟨hd, hc⟩ := h
  cases hc with
  | inl h => subst h; unfold digitChar; split <;> omega
  | inr h => subst h; unfold digitCharU; split <;> omega

/-- prefixed literal: `0x…`, `0X…`, `0o…`, `0O…`, `0b…`, `0B…` (p = the letter, base its base) -/
def prefixBase (p : Nat) : Option Nat :=
  if p = 120 ∨ p = 88 then some 16 else if p = 111 ∨ p = 79 then some 8
  else if p = 98 ∨ p = 66 then some 2 else none

theorem pyInt0_prefixed (p base : Nat) (hp : prefixBase p = some base) (cs ds : List Nat)
    (hds : All₂ (IsDigitOf base) cs ds) (hne : ds ≠ []) :
    pyInt0 (48 :: p :: cs) = some (Int.ofNat (horner base ds 0)) := by
  have hb : base ≤ 36 := by
    unfold prefixBase at hp
    split at hp
    · simp at hp; omega
    · split at hp
      · simp at hp; omega
      · split at hp
        · simp at hp; omega
        · simp at hp
  cases hds with
  | nil => exact absurd rfl hne
  | cons hcd hrest =>
    rename_i c d cs' ds'
    have hfacts := digit_facts c d base hb hcd
    have hscan := scanDigits_digits base hb (c :: cs') (d :: ds') 0 false
      (All₂.cons hcd hrest) (Or.inl (by simp))
    have hskip : skipUs (c :: cs') = c :: cs' := by
      unfold skipUs
      split
      · next h => simp at h; omega
      · rfl
    have hdet : detect true (48 :: p :: c :: cs') = (base, c :: cs', false) := by
      unfold prefixBase at hp
      unfold detect
      simp only [if_true]
      split at hp
      · next h =>
        simp at hp; subst hp
        have : (p == 120 || p == 88) = true := by cases h <;> simp [*]
        simp [this, hskip]
      · next h1 =>
        split at hp
        · next h =>
          simp at hp; subst hp
          have h0 : (p == 120 || p == 88) = false := by
            simp only [Bool.or_eq_false_iff, beq_eq_false_iff_ne, ne_eq]; omega
          have : (p == 111 || p == 79) = true := by cases h <;> simp [*]
          simp [h0, this, hskip]
        · next h2 =>
          split at hp
          · next h =>
            simp at hp; subst hp
            have h0 : (p == 120 || p == 88) = false := by
              simp only [Bool.or_eq_false_iff, beq_eq_false_iff_ne, ne_eq]; omega
            have h0' : (p == 111 || p == 79) = false := by
              simp only [Bool.or_eq_false_iff, beq_eq_false_iff_ne, ne_eq]; omega
            have : (p == 98 || p == 66) = true := by cases h <;> simp [*]
            simp [h0, h0', this, hskip]
          · simp at hp
    unfold pyInt0 pyInt
    have hds0 : dropSpaces (48 :: p :: c :: cs') = 48 :: p :: c :: cs' := by
      simp [dropSpaces, isSpace]
    rw [hds0]
    simp only [pyIntBody, hdet, finish, hscan]
    simp [dropSpaces]

/-- decimal literal without leading zero (or the single digit 0) -/
theorem pyInt_decimal (base0 : Bool) (cs ds : List Nat)
    (hds : All₂ (IsDigitOf 10) cs ds) (hne : ds ≠ [])
    (hlead : ds.head? ≠ some 0 ∨ ds = [0]) :
    pyInt base0 cs = some (Int.ofNat (horner 10 ds 0)) := by
  cases hds with
  | nil => exact absurd rfl hne
  | cons hcd hrest =>
    rename_i c d cs' ds'
    have hfacts := digit_facts c d 10 (by omega) hcd
    have hscan := scanDigits_digits 10 (by omega) (c :: cs') (d :: ds') 0 false
      (All₂.cons hcd hrest) (Or.inl (by simp))
    have hdrop := dropSpaces_digit c d 10 cs' (by omega) hcd
    unfold pyInt
    rw [hdrop]
    have hbody : pyIntBody base0 (c :: cs') = some (horner 10 (d :: ds') 0) := by
      unfold pyIntBody
      cases base0 with
      | false =>
        simp only [detect, Bool.false_eq_true, if_false, finish, hscan]
        simp [dropSpaces]
      | true =>
        cases hlead with
        | inl h =>
          have hd0 : d ≠ 0 := by simpa using h
          have hc48 : c ≠ 48 := fun hc => hd0 (hfacts.2.2.2.mp hc)
          have hdet : detect true (c :: cs') = (10, c :: cs', false) := by
            unfold detect
            simp only [if_true]
            split
            · next h => simp at h; omega
            · next h => simp at h; omega
            · rfl
          simp only [hdet, finish, hscan]
          simp [dropSpaces]
        | inr h =>
          simp only [List.cons.injEq] at h
          obtain ⟨hd0, hnil⟩ := h
          subst hd0; subst hnil
          cases hrest
          have hc48 : c = 48 := hfacts.2.2.2.mpr rfl
          subst hc48
          simp [detect, finish, scanDigits, digitVal, dropSpaces, horner]
    split
    · next h => simp at h; omega
    · next h => simp at h; omega
    · rw [hbody]; rfl

/-! ### `cmd_raw` -/

theorem parseAll_ok : ∀ (sbs : List Str) (bs : List Nat),
    All₂ (fun s b => pyInt0 s = some (Int.ofNat b)) sbs bs →
    parseAll sbs = some (bs.map Int.ofNat) := by
  intro sbs bs h
  induction h with
  | nil => rfl
  | cons h1 _ ih => simp [parseAll, h1, ih]

theorem map_toNat_ofNat : ∀ l : List Nat, (l.map Int.ofNat).map Int.toNat = l
  | [] => rfl
  | x :: xs => by simp [map_toNat_ofNat xs]

theorem rawBody_ok (lun nf : Int) (snf : Str) (sbs : List Str) (bs : List Nat)
    (hn : pyInt0 snf = some nf)
    (hb : All₂ (fun s b => pyInt0 s = some (Int.ofNat b)) sbs bs)
    (hlt : ∀ b ∈ bs, b < 256) (hne : bs ≠ []) :
    rawBody lun (snf :: sbs) = .request lun nf bs := by
  cases hb with
  | nil => exact absurd rfl hne
  | cons h1 hrest =>
    rename_i s b ss bs'
    have hp := parseAll_ok (s :: ss) (b :: bs') (All₂.cons h1 hrest)
    unfold rawBody
    simp only [hn, hp]
    have hall : ((b :: bs').map Int.ofNat).all (fun v => decide (0 ≤ v) && decide (v < 256)) = true := by
      rw [List.all_eq_true]
      intro v hv
      simp only [List.mem_map] at hv
      obtain ⟨x, hx, rfl⟩ := hv
      have := hlt x hx
      simp only [Bool.and_eq_true, decide_eq_true_eq, Int.ofNat_eq_natCast]
      omega
    simp only [hall, if_true]
    rw [map_toNat_ofNat]

theorem pyInt0_lun : pyInt0 (ofString "lun") = none := by decide

/-! ### hex printing -/

theorem printHex_eq_spec : ∀ bs : List Nat, printHex bs = Spec.Cli.printHex bs
  | [] => rfl
  | [_] => rfl
  | b :: c :: rest => by
    simp only [printHex, Spec.Cli.printHex]
    rw [printHex_eq_spec (c :: rest)]
    rfl

theorem hexVal_hexChar (n : Nat) (h : n < 16) : Spec.Cli.hexVal (Spec.Cli.hexChar n) = some n := by
  unfold Spec.Cli.hexVal Spec.Cli.hexChar
  split <;> (repeat' split) <;> first | (congr 1; omega) | omega

theorem parseHex_printHex : ∀ bs : List Nat, (∀ b ∈ bs, b < 256) →
    Spec.Cli.parseHex (Spec.Cli.printHex bs) = some bs
  | [], _ => rfl
  | [b], h => by
    have hb : b < 256 := h b (by simp)
    simp only [Spec.Cli.printHex, Spec.Cli.parseHex,
      hexVal_hexChar (b / 16) (by omega), hexVal_hexChar (b % 16) (by omega)]
    congr 2; omega
  | b :: c :: rest, h => by
    have hb : b < 256 := h b (by simp)
    have ih := parseHex_printHex (c :: rest) (fun x hx => h x (by simp [hx]))
    have hshape : ∃ y ys, Spec.Cli.printHex (c :: rest) = y :: ys := by
      cases rest <;> simp [Spec.Cli.printHex]
    obtain ⟨y, ys, hy⟩ := hshape
    simp only [Spec.Cli.printHex]
    rw [hy] at ih ⊢
    simp only [Spec.Cli.parseHex,
      hexVal_hexChar (b / 16) (by omega), hexVal_hexChar (b % 16) (by omega), ih]
    congr 2; omega

end PyIpmi.Cli
