/-
  C20 — helper lemmas: command lookup, getopt on rendered option lists, last-wins fold.
  Core tactics only.
-/
import PyIpmi.Model.Cli
import PyIpmi.Spec.Cli
namespace PyIpmi.Cli

/-! ### lookup -/

theorem lookupAux_hit {α} (t : List (Str × α)) (args : List Str) (f : α) (n : Nat)
    (hhit : find t (joinSp (args.take (n + 1))) = some f)
    (hmiss : ∀ k, k < n → find t (joinSp (args.take (k + 1))) = none) :
    ∀ fuel i, i ≤ n → n < i + fuel → lookupAux t args i fuel = some (f, args.drop (n + 1)) := by
  intro fuel
  induction fuel with
  | zero => intro i h1 h2; omega
  | succ fuel ih =>
    intro i h1 h2
    unfold lookupAux
    by_cases hin : i = n
    · subst hin; rw [hhit]
    · have hlt : i < n := by omega
      rw [hmiss i hlt]
      exact ih (i + 1) (by omega) (by omega)

theorem lookupAux_miss {α} (t : List (Str × α)) (args : List Str)
    (hmiss : ∀ k, find t (joinSp (args.take (k + 1))) = none) :
    ∀ fuel i, lookupAux t args i fuel = none := by
  intro fuel
  induction fuel with
  | zero => intro i; rfl
  | succ fuel ih => intro i; unfold lookupAux; rw [hmiss i]; exact ih (i + 1)

/-- soundness: whatever `lookup` returns is the FIRST prefix that names a command -/
theorem lookupAux_sound {α} (t : List (Str × α)) (args : List Str) (f : α) (r : List Str) :
    ∀ fuel i, lookupAux t args i fuel = some (f, r) →
      ∃ n, i ≤ n ∧ n < i + fuel ∧ find t (joinSp (args.take (n + 1))) = some f ∧ r = args.drop (n + 1)
        ∧ ∀ k, i ≤ k → k < n → find t (joinSp (args.take (k + 1))) = none := by
  intro fuel
  induction fuel with
  | zero => intro i h; simp [lookupAux] at h
  | succ fuel ih =>
    intro i h
    unfold lookupAux at h
    cases hf : find t (joinSp (args.take (i + 1))) with
    | some g =>
      rw [hf] at h
      simp only [Option.some.injEq, Prod.mk.injEq] at h
      refine ⟨i, Nat.le_refl _, by omega, by rw [hf, h.1], h.2.symm, ?_⟩
      intro k h1 h2; omega
    | none =>
      rw [hf] at h
      obtain ⟨n, h1, h2, h3, h4, h5⟩ := ih (i + 1) h
      refine ⟨n, by omega, by omega, h3, h4, ?_⟩
      intro k hk1 hk2
      by_cases hki : k = i
      · subst hki; exact hf
      · exact h5 k (by omega) hk2

/-! ### getopt on a rendered list of options -/

/-- one option as the user may write it -/
inductive Given where
  | flag (c : Nat)                 -- -c
  | sep (c : Nat) (v : Str)        -- -c v
  | glued (c : Nat) (v : Str)      -- -cv
  deriving Repr, DecidableEq

def Given.render : Given → List Str
  | .flag c => [[45, c]]
  | .sep c v => [[45, c], v]
  | .glued c v => [45 :: c :: v]

def Given.pair : Given → Nat × Str
  | .flag c => (c, [])
  | .sep c v => (c, v)
  | .glued c v => (c, v)

/-- the option is declared in the option string with the matching arity -/
def Given.ok (so : Str) : Given → Bool
  | .flag c => hasArg so c == some false && c != 45
  | .sep c _ => hasArg so c == some true && c != 45
  | .glued c v => hasArg so c == some true && c != 45 && !v.isEmpty

/-- the first word after the options ends option processing (`getopt` stops at it) -/
def stops : List Str → Bool
  | [] => true
  | (45 :: _ :: _) :: _ => false
  | _ => true

theorem getoptAux_stops (so : Str) (cmd : List Str) (hs : stops cmd = true) (fuel : Nat)
    (acc : List (Nat × Str)) : getoptAux so (fuel + 1) cmd acc = .ok (acc, cmd) := by
  cases cmd with
  | nil => rfl
  | cons a rest =>
    cases a with
    | nil => rfl
    | cons x xs =>
      cases xs with
      | nil => simp [getoptAux]
      | cons y ys =>
        by_cases hx : x = 45
        · subst hx; simp [stops] at hs
        · unfold getoptAux
          split
          · next h => simp at h; omega
          · rfl

theorem getoptAux_render (so : Str) (gs : List Given) (cmd : List Str)
    (hok : ∀ g ∈ gs, g.ok so = true) (hs : stops cmd = true) :
    ∀ fuel acc, gs.length < fuel →
      getoptAux so fuel (gs.flatMap Given.render ++ cmd) acc = .ok (acc ++ gs.map Given.pair, cmd) := by
  induction gs with
  | nil =>
    intro fuel acc hf
    cases fuel with
    | zero => omega
    | succ fuel => simpa using getoptAux_stops so cmd hs fuel acc
  | cons g gs ih =>
    intro fuel acc hf
    cases fuel with
    | zero => simp at hf
    | succ fuel =>
      have hg := hok g (by simp)
      have ih' := ih (fun g' hg' => hok g' (by simp [hg'])) fuel
      have hf' : gs.length < fuel := by simp at hf; omega
      cases g with
      | flag c =>
        simp only [Given.ok, Bool.and_eq_true, beq_iff_eq, bne_iff_ne, ne_eq] at hg
        simp only [List.flatMap_cons, Given.render, List.cons_append, List.nil_append, getoptAux]
        have hc : (c == 45) = false := by simp [hg.2]
        simp only [hc, Bool.false_eq_true, if_false, doShorts, hg.1]
        rw [ih' _ hf']
        simp [Given.pair]
      | sep c v =>
        simp only [Given.ok, Bool.and_eq_true, beq_iff_eq, bne_iff_ne, ne_eq] at hg
        simp only [List.flatMap_cons, Given.render, List.cons_append, List.nil_append, getoptAux]
        have hc : (c == 45) = false := by simp [hg.2]
        simp only [hc, Bool.false_eq_true, if_false, doShorts, hg.1, List.isEmpty_nil, if_true]
        rw [ih' _ hf']
        simp [Given.pair]
      | glued c v =>
        simp only [Given.ok, Bool.and_eq_true, beq_iff_eq, bne_iff_ne, ne_eq, Bool.not_eq_true',
          List.isEmpty_eq_false_iff] at hg
        simp only [List.flatMap_cons, Given.render, List.cons_append, List.nil_append, getoptAux]
        have hc : (c == 45) = false := by simp [hg.1.2]
        have hv : v.isEmpty = false := by
          cases v with
          | nil => exact absurd rfl hg.2
          | cons _ _ => rfl
        simp only [hc, Bool.false_eq_true, if_false, doShorts, hg.1.1, hv]
        rw [ih' _ hf']
        simp [Given.pair]

theorem flatMap_render_length (gs : List Given) : gs.length ≤ (gs.flatMap Given.render).length := by
  induction gs with
  | nil => simp
  | cons g gs ih =>
    cases g <;> simp only [List.flatMap_cons, Given.render, List.length_append, List.length_cons,
      List.length_nil] <;> omega

theorem getopt_render (so : Str) (gs : List Given) (cmd : List Str)
    (hok : ∀ g ∈ gs, g.ok so = true) (hs : stops cmd = true) :
    getopt so (gs.flatMap Given.render ++ cmd) = .ok (gs.map Given.pair, cmd) := by
  unfold getopt
  have h := getoptAux_render so gs cmd hok hs ((gs.flatMap Given.render ++ cmd).length + 1) []
    (by have := flatMap_render_length gs; simp only [List.length_append]; omega)
  simpa using h

/-! ### the option chain is a last-wins assignment -/

/-- the (variable, value) settings a list of parsed options stands for; `none` if some option
has no assigning rule or its value does not convert -/
def settingsOf (rules : List OptRule) : List (Nat × Str) → Option (List (Nat × Val))
  | [] => some []
  | (c, a) :: rest =>
    match ruleOf rules c with
    | some (.assign x conv) =>
      match convert conv a, settingsOf rules rest with
      | some v, some l => some ((x, v) :: l)
      | _, _ => none
    | _ => none

theorem getv_set (vs : List Val) (x y : Nat) (v : Val) (hx : x < vs.length) :
    getv (vs.set x v) y = if x = y then v else getv vs y := by
  unfold getv
  by_cases h : x = y
  · subst h; simp [hx]
  · simp [h, List.getD_eq_getElem?_getD, List.getElem?_set_ne h]

theorem lastWins_cons {β} (d : Nat → β) (x : Nat) (v : β) (sets : List (Nat × β)) (y : Nat) :
    Spec.Cli.lastWins d ((x, v) :: sets) y
      = Spec.Cli.lastWins (fun z => if x = z then v else d z) sets y := by
  unfold Spec.Cli.lastWins
  rw [List.reverse_cons, List.find?_append]
  cases h : List.find? (fun s => s.1 == y) sets.reverse with
  | some s => simp
  | none =>
    by_cases hxy : x = y
    · subst hxy; simp
    · have : (x == y) = false := by simp [hxy]
      simp [List.find?, this, hxy]

theorem applyOpts_lastWins (rules : List OptRule) :
    ∀ (opts : List (Nat × Str)) (vs : List Val) (sets : List (Nat × Val)),
      settingsOf rules opts = some sets → (∀ s ∈ sets, s.1 < vs.length) →
      ∃ vs', applyOpts rules opts vs = .vals vs' ∧ vs'.length = vs.length ∧
        ∀ y, getv vs' y = Spec.Cli.lastWins (getv vs) sets y := by
  intro opts
  induction opts with
  | nil =>
    intro vs sets h _
    simp only [settingsOf, Option.some.injEq] at h
    subst h
    exact ⟨vs, rfl, rfl, fun y => by simp [Spec.Cli.lastWins]⟩
  | cons o rest ih =>
    intro vs sets h hlt
    obtain ⟨c, a⟩ := o
    simp only [settingsOf] at h
    cases hr : ruleOf rules c with
    | none => rw [hr] at h; simp at h
    | some act =>
      rw [hr] at h
      cases act with
      | exitOk => simp at h
      | assign x conv =>
        simp only at h
        cases hc : convert conv a with
        | none => rw [hc] at h; simp at h
        | some v =>
          cases hs : settingsOf rules rest with
          | none => rw [hc, hs] at h; simp at h
          | some l =>
            rw [hc, hs] at h
            simp only [Option.some.injEq] at h
            subst h
            have hx : x < vs.length := hlt (x, v) (by simp)
            obtain ⟨vs', h1, h2, h3⟩ := ih (vs.set x v) l hs
              (fun s hs' => by simpa using hlt s (by simp [hs']))
            refine ⟨vs', ?_, by simpa using h2, ?_⟩
            · simp only [applyOpts, hr, hc]; exact h1
            · intro y
              rw [h3 y, lastWins_cons]
              congr 1
              funext z
              exact getv_set vs x z v hx

/-- every variable set by an option of `rules` is below `n` -/
def rulesWf (rules : List OptRule) (n : Nat) : Bool :=
  rules.all fun r => match r.act with | .assign x _ => decide (x < n) | .exitOk => true

theorem ruleOf_mem (rules : List OptRule) (c : Nat) (act : OptAct) (h : ruleOf rules c = some act) :
    ∃ r ∈ rules, r.act = act := by
  unfold ruleOf at h
  cases hf : rules.find? (fun r => r.opt == c) with
  | none => rw [hf] at h; simp at h
  | some r =>
    rw [hf] at h
    simp only [Option.map_some, Option.some.injEq] at h
    exact ⟨r, List.mem_of_find?_eq_some hf, h⟩

theorem settingsOf_lt (rules : List OptRule) (n : Nat) (hwf : rulesWf rules n = true) :
    ∀ (opts : List (Nat × Str)) (sets : List (Nat × Val)),
      settingsOf rules opts = some sets → ∀ s ∈ sets, s.1 < n := by
  intro opts
  induction opts with
  | nil => intro sets h; simp only [settingsOf, Option.some.injEq] at h; subst h; simp
  | cons o rest ih =>
    intro sets h
    obtain ⟨c, a⟩ := o
    simp only [settingsOf] at h
    cases hr : ruleOf rules c with
    | none => rw [hr] at h; simp at h
    | some act =>
      rw [hr] at h
      cases act with
      | exitOk => simp at h
      | assign x conv =>
        simp only at h
        cases hc : convert conv a with
        | none => rw [hc] at h; simp at h
        | some v =>
          cases hs : settingsOf rules rest with
          | none => rw [hc, hs] at h; simp at h
          | some l =>
            rw [hc, hs] at h
            simp only [Option.some.injEq] at h
            subst h
            intro s hs'
            simp only [List.mem_cons] at hs'
            cases hs' with
            | inl h0 =>
              subst h0
              obtain ⟨r, hr1, hr2⟩ := ruleOf_mem rules c _ hr
              unfold rulesWf at hwf
              rw [List.all_eq_true] at hwf
              have := hwf r hr1
              rw [hr2] at this
              simpa using this
            | inr h0 => exact ih l hs s h0

end PyIpmi.Cli
