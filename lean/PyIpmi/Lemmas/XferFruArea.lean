/-
  Lemmas for C10, second part: half-specified ranges of `read_fru_data`, the common header, and the
  area getters against the reference device - an area the common header declares ABSENT (offset byte
  00h, Storage Definition §8) and a present info area; "reads stay inside the range they were asked for"
  for every peer.
-/
import PyIpmi.Lemmas.XferFru
namespace PyIpmi.FruXfer
open PyIpmi PyIpmi.Spec.Fru

/-! ### every optional-argument form of `read_fru_data`, repaired variant -/

theorem readFruDataV_some_some {σ} (rangeFix : Bool) (cfg : Cfg) (send : Send σ) (w : World σ)
    (off cnt id : Nat) :
    readFruDataV rangeFix cfg send w (some off) (some cnt) id = readFruData cfg send w (some off) cnt id := by
  cases rangeFix <;> rfl

/-- `read_fru_data(offset, count, fru_id)` with either argument left out (`rangeFix`): the bytes from
`offset or 0`, `count` of them or all up to the end of the inventory area. -/
theorem readFruDataV_exact (cfg : Cfg) (hcfg : cfg.ok = true) (d : FruDev) (hd : DevOk d) (id : Nat)
    (c : List Nat) (hid : id < 256) (hg : d.get id = some c) (offset count : Option Nat)
    (hr : offset.getD 0 + count.getD (c.length - offset.getD 0) ≤ c.length) (h64 : c.length ≤ 65535)
    (w : World FruDev) (hw : w.dev = d) :
    (readFruDataV true cfg respond w offset count id).out =
      .ok ((c.drop (offset.getD 0)).take (count.getD (c.length - offset.getD 0))) ∧
    (readFruDataV true cfg respond w offset count id).w.dev = d := by
  cases count with
  | some cnt =>
    simp only [Option.getD_some] at hr ⊢
    exact readFruData_exact cfg hcfg d hd id c hid hg _ cnt hr h64 w hw
  | none =>
    simp only [Option.getD_none] at hr ⊢
    have hc := (Cfg.ok_iff cfg).mp hcfg
    have hinfo := respond_info d id c hid hg h64
    have hsz : c.length % 256 + 256 * (c.length / 256 % 256) = c.length := off_bytes _ (by omega)
    have := readLoop_exact cfg hcfg d hd id c hid hg c.length (Nat.le_refl _) (by omega)
      (c.length + cfg.initReq + 1)
      ⟨d, w.trace ++ [⟨infoReq id, [0, c.length % 256, c.length / 256 % 256, 0]⟩]⟩ (offset.getD 0) cfg.initReq [] rfl
      (by omega) hc.2.2.1 hc.2.2.2.1 (by omega)
    simp only [readFruDataV, if_true, readFruDataFixed, areaInfo, xchg, hw, hinfo, decodeInfoRsp]
    simpa [hsz] using this

/-! ### reads stay inside the range they were asked for (any peer) -/

/-- every exchange of the trace is a Read FRU Data of FRU `id` for bytes inside `[lo, hi)` -/
def ReadsWithin (id lo hi : Nat) (tr : List Xchg) : Prop :=
  ∀ x ∈ tr, ∃ o q, x.req = readReq id o q ∧ lo ≤ o ∧ o + q ≤ hi

def readsWithinB (id lo hi : Nat) (tr : List Xchg) : Bool :=
  tr.all fun x => x.req.cmd == 0x11 && x.req.payload.head? == some (id % 256) && x.req.payload.length == 4 &&
    decide (lo ≤ x.req.payload.getD 1 0 + 256 * x.req.payload.getD 2 0) &&
    decide (x.req.payload.getD 1 0 + 256 * x.req.payload.getD 2 0 + x.req.payload.getD 3 0 ≤ hi)

theorem ReadsWithin.xchg {σ} (send : Send σ) (id lo hi : Nat) (w : World σ) (o q : Nat)
    (h : ReadsWithin id lo hi w.trace) (h1 : lo ≤ o) (h2 : o + q ≤ hi) :
    ReadsWithin id lo hi (FruXfer.xchg send w (readReq id o q)).1.trace := by
  intro x hx
  simp only [FruXfer.xchg, List.mem_append, List.mem_singleton] at hx
  rcases hx with hx | hx
  · exact h x hx
  · exact ⟨o, q, by rw [hx], h1, h2⟩

theorem readLoop_within {σ} (cfg : Cfg) (send : Send σ) (id lo hi : Nat) :
    ∀ (fuel : Nat) (w : World σ) (area off reqSize : Nat) (acc : List Nat),
      ReadsWithin id lo hi w.trace → lo ≤ off → area ≤ hi →
      ReadsWithin id lo hi (readLoop cfg send fuel w id area off reqSize acc).w.trace := by
  intro fuel
  induction fuel with
  | zero => intro w area off reqSize acc h _ _; simpa [readLoop] using h
  | succ fuel ih =>
    intro w area off reqSize acc h hlo hhi
    unfold readLoop
    by_cases hlt : off < area
    · simp only [hlt, if_true]
      generalize hq : (if off + reqSize > area then area - off else reqSize) = q
      have hq3 : off + q ≤ area := by rw [← hq]; split <;> omega
      have hx := ReadsWithin.xchg send id lo hi w off q h hlo (by omega)
      generalize FruXfer.xchg send w (readReq id off q) = r at hx
      cases hdec : decodeReadRsp r.2 with
      | ok data => exact ih _ _ _ _ _ hx (by omega) hhi
      | ccError c =>
        simp only
        split
        · split
          · exact hx
          · exact ih _ _ _ _ _ hx hlo hhi
        · exact hx
      | _ => exact hx
    · simpa [hlt] using h

/-- a range read asks for bytes of `[offset, offset + count)` only, whatever the peer answers -/
theorem readFruData_within {σ} (cfg : Cfg) (send : Send σ) (id : Nat) (w : World σ) (off cnt lo hi : Nat)
    (h : ReadsWithin id lo hi w.trace) (h1 : lo ≤ off) (h2 : off + cnt ≤ hi) :
    ReadsWithin id lo hi (readFruData cfg send w (some off) cnt id).w.trace :=
  readLoop_within cfg send id lo hi _ _ _ _ _ _ h h1 h2

theorem getHeader_within {σ} (cfg : Cfg) (send : Send σ) (id : Nat) (w : World σ)
    (h : ReadsWithin id 0 8 w.trace) : ReadsWithin id 0 8 (getHeader cfg send w id).w.trace := by
  have hx := readFruData_within cfg send id w 0 8 0 8 h (Nat.le_refl _) (Nat.le_refl _)
  unfold getHeader
  dsimp only
  generalize readFruData cfg send w (some 0) 8 id = r at hx
  cases r.out <;> exact hx

/-! ### the common header against the reference device -/

theorem take8_getD (c : List Nat) (i : Nat) (hi : i < 8) : (c.take 8).getD i 0 = c.getD i 0 := by
  simp [List.getD_eq_getElem?_getD, hi]

theorem hdrField_take8 (c : List Nat) (a : AreaId) :
    hdrField (c.take 8) a.hdrByte = areaStart c a := by
  have hi : a.hdrByte < 8 := by cases a <;> decide
  unfold hdrField areaStart
  rw [take8_getD c _ hi]
  generalize c.getD a.hdrByte 0 = b
  by_cases h0 : b = 0
  · simp [h0]
  · have : ¬ b * 8 = 0 := by omega
    simp [h0, this]

/-- the model's area kinds as the storage definition's -/
def Area.spec : Area → AreaId
  | .chassis => .chassis
  | .board => .board
  | .product => .product

/-- `get_fru_inventory_header` against a conforming device: the five offsets are what the stored common
header says (`areaStart`), the device is unchanged. -/
theorem getHeader_exact (cfg : Cfg) (hcfg : cfg.ok = true) (d : FruDev) (hd : DevOk d) (id : Nat)
    (c : List Nat) (hid : id < 256) (hg : d.get id = some c) (h64 : c.length ≤ 65535) (hh : headerOk c)
    (w : World FruDev) (hw : w.dev = d) :
    (getHeader cfg respond w id).out = .ok ⟨areaStart c .internal, areaStart c .chassis, areaStart c .board,
      areaStart c .product, areaStart c .multirecord⟩ ∧
    (getHeader cfg respond w id).w.dev = d := by
  obtain ⟨h8, hsum⟩ := hh
  have hr := readFruData_exact cfg hcfg d hd id c hid hg 0 8 (by omega) h64 w hw
  simp only [List.drop_zero] at hr
  have hlen : (c.take 8).length = 8 := by simp; omega
  have e1 := hdrField_take8 c .internal
  have e2 := hdrField_take8 c .chassis
  have e3 := hdrField_take8 c .board
  have e4 := hdrField_take8 c .product
  have e5 := hdrField_take8 c .multirecord
  simp only [AreaId.hdrByte] at e1 e2 e3 e4 e5
  unfold getHeader
  simp only [hr.1, hr.2, parseHeader, hlen, hsum, ne_eq, not_true_eq_false, if_false, e1, e2, e3, e4, e5]
  exact ⟨trivial, trivial⟩

theorem header_area (c : List Nat) (a : Area) :
    (Header.area ⟨areaStart c .internal, areaStart c .chassis, areaStart c .board, areaStart c .product,
      areaStart c .multirecord⟩ a) = areaStart c a.spec := by
  cases a <;> rfl

/-! ### the info-area getters against the reference device -/

/-- An info area the common header declares ABSENT: the repaired getter (`v.abs a`) returns `None` behind
the header read - the world is the one the header read leaves, every request asked for header bytes only. -/
theorem getInfoArea_absent (cfg : Cfg) (hcfg : cfg.ok = true) (d : FruDev) (hd : DevOk d) (id : Nat)
    (c : List Nat) (hid : id < 256) (hg : d.get id = some c) (h64 : c.length ≤ 65535) (hh : headerOk c)
    (v : Var) (a : Area) (hv : v.abs a = true) (habs : areaStart c a.spec = none)
    (w : World FruDev) (hw : w.dev = d) :
    (getInfoArea cfg respond v w a id).out = .ok none ∧
    (getInfoArea cfg respond v w a id).w = (getHeader cfg respond w id).w := by
  have hh' := getHeader_exact cfg hcfg d hd id c hid hg h64 hh w hw
  unfold getInfoArea
  simp only [hh'.1, header_area, habs, hv, Option.isNone_none, Bool.and_self, if_true]
  exact ⟨trivial, trivial⟩

/-- A PRESENT info area: the getter hands its parser exactly the area's bytes - `8 ×` the length byte from
the offset the common header names (`infoArea`), for either form of `read_fru_data` and with or without the
absent-area guard; with the length check of fixes/C15-2.diff the length byte must not be 00h. -/
theorem getInfoArea_present (cfg : Cfg) (hcfg : cfg.ok = true) (d : FruDev) (hd : DevOk d) (id : Nat)
    (c : List Nat) (hid : id < 256) (hg : d.get id = some c) (h64 : c.length ≤ 65535) (hh : headerOk c)
    (v : Var) (a : Area) (o : Nat) (hpres : areaStart c a.spec = some o) (h5 : o + 5 ≤ c.length)
    (hfit : o + c.getD (o + 1) 0 * 8 ≤ c.length) (hlen : v.lenChk = true → c.getD (o + 1) 0 ≠ 0)
    (w : World FruDev) (hw : w.dev = d) :
    (getInfoArea cfg respond v w a id).out = .ok (infoArea c a.spec) ∧
    (getInfoArea cfg respond v w a id).w.dev = d := by
  have hh' := getHeader_exact cfg hcfg d hd id c hid hg h64 hh w hw
  have h1 := readFruData_exact cfg hcfg d hd id c hid hg o 5 h5 h64 _ hh'.2
  have hb : ((c.drop o).take 5)[1]? = some (c.getD (o + 1) 0) := by
    have : o + 1 < c.length := by omega
    simp [List.getElem?_drop, List.getD_eq_getElem?_getD, this]
  have h2 := readFruData_exact cfg hcfg d hd id c hid hg o (c.getD (o + 1) 0 * 8) hfit h64
    (readFruData cfg respond (getHeader cfg respond w id).w (some o) 5 id).w h1.2
  have hchk : (v.lenChk && c.getD (o + 1) 0 * 8 == 0) = false := by
    cases hl : v.lenChk with
    | false => simp
    | true =>
      have := hlen hl
      generalize c.getD (o + 1) 0 = b at this ⊢
      simp; omega
  unfold getInfoArea
  simp only [hh'.1, header_area, hpres, Option.isNone_some, Bool.and_false, Bool.false_eq_true, if_false]
  unfold readFruArea
  simp only [readFruDataV_some_some, h1.1, hb, hchk, Bool.false_eq_true, if_false]
  unfold someRes
  simp only [h2.1, h2.2, infoArea, hpres, Option.map_some]
  exact ⟨trivial, trivial⟩

/-- the multirecord getter on an inventory without multirecord area (repaired, `v.absM`) -/
theorem getMultirecord_absent (cfg : Cfg) (hcfg : cfg.ok = true) (d : FruDev) (hd : DevOk d) (id : Nat)
    (c : List Nat) (hid : id < 256) (hg : d.get id = some c) (h64 : c.length ≤ 65535) (hh : headerOk c)
    (v : Var) (hv : v.absM = true) (habs : areaStart c .multirecord = none)
    (w : World FruDev) (hw : w.dev = d) :
    (getMultirecord cfg respond v w id).out = .ok none ∧
    (getMultirecord cfg respond v w id).w = (getHeader cfg respond w id).w := by
  have hh' := getHeader_exact cfg hcfg d hd id c hid hg h64 hh w hw
  unfold getMultirecord
  simp only [hh'.1, habs, hv, Option.isNone_none, Bool.and_self, if_true]
  exact ⟨trivial, trivial⟩

/-! ### the multirecord getter on a present area -/

theorem recordsEnd_bounds (c : List Nat) : ∀ (fuel p e : Nat), recordsEnd c fuel p = some e → p + 5 ≤ e ∧ e ≤ c.length := by
  intro fuel
  induction fuel with
  | zero => intro p e h; simp [recordsEnd] at h
  | succ fuel ih =>
    intro p e h
    unfold recordsEnd at h
    split at h
    · cases h
    · dsimp only at h
      split at h
      · cases h
      · split at h
        · injection h with h; omega
        · have := ih _ _ h; omega

theorem take5_idx (c : List Nat) (p i : Nat) (hi : i < 5) (h5 : p + 5 ≤ c.length) :
    ((c.drop p).take 5)[i]? = some (c.getD (p + i) 0) := by
  have : p + i < c.length := by omega
  simp [List.getElem?_drop, List.getD_eq_getElem?_getD, this, hi]

/-- The record walk of `get_fru_multirecord_area` against a conforming device finds exactly the extent of the
record list the storage definition describes (`recordsEnd`). -/
theorem mrWalk_exact (cfg : Cfg) (hcfg : cfg.ok = true) (d : FruDev) (hd : DevOk d) (id : Nat)
    (c : List Nat) (hid : id < 256) (hg : d.get id = some c) (h64 : c.length ≤ 65535) (rangeFix : Bool) :
    ∀ (sfuel p e : Nat), recordsEnd c sfuel p = some e →
      ∀ (mfuel : Nat) (w : World FruDev) (count : Nat), w.dev = d → c.length < 5 * mfuel + p →
      (mrWalk rangeFix cfg respond mfuel w id (some p) count).out = .ok (count + (e - p)) ∧
      (mrWalk rangeFix cfg respond mfuel w id (some p) count).w.dev = d := by
  intro sfuel
  induction sfuel with
  | zero => intro p e h; simp [recordsEnd] at h
  | succ sfuel ih =>
    intro p e h mfuel w count hw hf
    unfold recordsEnd at h
    split at h
    · cases h
    · rename_i h5
      dsimp only at h
      split at h
      · cases h
      · rename_i hnext
        obtain ⟨m, rfl⟩ : ∃ m, mfuel = m + 1 := ⟨mfuel - 1, by omega⟩
        have hr := readFruData_exact cfg hcfg d hd id c hid hg p 5 (by omega) h64 w hw
        have i1 := take5_idx c p 1 (by omega) (by omega)
        have i2 := take5_idx c p 2 (by omega) (by omega)
        unfold mrWalk
        simp only [readFruDataV_some_some, hr.1, i1, i2]
        split at h
        · rename_i heol
          injection h with h
          simp only [heol, if_true]
          exact ⟨by congr 1; omega, hr.2⟩
        · rename_i heol
          simp only [heol, if_false]
          have hb := recordsEnd_bounds c _ _ _ h
          have hp : p + c.getD (p + 2) 0 + 5 = p + 5 + c.getD (p + 2) 0 := by omega
          rw [hp]
          have := ih _ e h m (readFruData cfg respond w (some p) 5 id).w (count + c.getD (p + 2) 0 + 5) hr.2 (by omega)
          refine ⟨?_, this.2⟩
          rw [this.1]; congr 1; omega

/-- A PRESENT multirecord area whose record list ends inside the inventory: the getter (FRU id passed on) hands
its parser exactly the records up to and including the end-of-list record. -/
theorem getMultirecord_present (cfg : Cfg) (hcfg : cfg.ok = true) (d : FruDev) (hd : DevOk d) (id : Nat)
    (c : List Nat) (hid : id < 256) (hg : d.get id = some c) (h64 : c.length ≤ 65535) (hh : headerOk c)
    (v : Var) (hv : v.mrShipped = false) (o e : Nat) (hpres : areaStart c .multirecord = some o)
    (hend : recordsEnd c (c.length + 1) o = some e) (w : World FruDev) (hw : w.dev = d) :
    (getMultirecord cfg respond v w id).out = .ok (some ((c.drop o).take (e - o))) ∧
    (getMultirecord cfg respond v w id).w.dev = d := by
  have hh' := getHeader_exact cfg hcfg d hd id c hid hg h64 hh w hw
  have hb := recordsEnd_bounds c _ _ _ hend
  have hwalk := mrWalk_exact cfg hcfg d hd id c hid hg h64 v.rangeFix _ o e hend mrFuel
    (getHeader cfg respond w id).w 0 hh'.2 (by unfold mrFuel; omega)
  have hrd := readFruData_exact cfg hcfg d hd id c hid hg o (e - o) (by omega) h64
    (mrWalk v.rangeFix cfg respond mrFuel (getHeader cfg respond w id).w id (some o) 0).w hwalk.2
  unfold getMultirecord
  simp only [hv, Bool.false_eq_true, if_false, hh'.1, hpres, Option.isNone_some, Bool.and_false, hwalk.1,
    Nat.zero_add, readFruDataV_some_some]
  unfold someRes
  simp only [hrd.1, hrd.2]
  exact ⟨trivial, trivial⟩

end PyIpmi.FruXfer
