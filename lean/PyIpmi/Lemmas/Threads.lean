/-
  C14 — the inductive invariant of the interleaving semantics and its preservation.
  Core tactics only.
-/
import PyIpmi.Model.Threads
namespace PyIpmi.Threads
open PyIpmi.Spec.Threads

/-- Monitor state after a NEWEST-FIRST wire log (the model conses events in front). -/
def monOf (w : List WEv) : Mon := w.foldr (fun e m => m.step e) Mon.init

@[simp] theorem monOf_nil : monOf [] = Mon.init := rfl
@[simp] theorem monOf_cons (e : WEv) (w : List WEv) : monOf (e :: w) = (monOf w).step e := rfl

theorem monOf_eq_monitor (w : List WEv) : monOf w = monitor w.reverse := by
  simp [monOf, monitor, List.foldl_reverse]

@[simp] theorem sentBy_cons_tx (w : List WEv) (t' n' s r c t n : Nat) :
    sentBy (.tx t' n' s r c :: w) t n = ((t' == t && n' == n) || sentBy w t n) := by
  simp [sentBy]

@[simp] theorem sentBy_cons_rx (w : List WEv) (t' n' t n : Nat) :
    sentBy (.rx t' n' :: w) t n = sentBy w t n := by
  simp [sentBy]

@[simp] theorem sentBy_cons_to (w : List WEv) (t' n' t n : Nat) :
    sentBy (.to t' n' :: w) t n = sentBy w t n := by
  simp [sentBy]

theorem sentBy_reverse (w : List WEv) (t n : Nat) : sentBy w.reverse t n = sentBy w t n := by
  simp [sentBy]

@[simp] theorem timedOut_cons_tx (w : List WEv) (t' n' s r c t n : Nat) :
    timedOut (.tx t' n' s r c :: w) t n = timedOut w t n := by
  simp [timedOut]

@[simp] theorem timedOut_cons_rx (w : List WEv) (t' n' t n : Nat) :
    timedOut (.rx t' n' :: w) t n = timedOut w t n := by
  simp [timedOut]

@[simp] theorem timedOut_cons_to (w : List WEv) (t' n' t n : Nat) :
    timedOut (.to t' n' :: w) t n = ((t' == t && n' == n) || timedOut w t n) := by
  simp [timedOut]

theorem timedOut_reverse (w : List WEv) (t n : Nat) : timedOut w.reverse t n = timedOut w t n := by
  simp [timedOut]

/-- Facts that hold while thread `t` (record `th`) owns the lock, by program point. They
mention only the wire, the socket queue and the session sequence. -/
def HolderInv (w : List WEv) (sock : List Reply) (par : Par) (ss : Nat) (t : Nat) (th : Thr) : Prop :=
  match th.pc with
  | .lkLoad => (monOf w).opn = none ∧ sock = [] ∧ (∀ a, (monOf w).last = some a → a = ss) ∧ ss ≤ 0xffffffff
  | .lkStore => (monOf w).opn = none ∧ sock = [] ∧ (∀ a, (monOf w).last = some a → a = ss) ∧ ss ≤ 0xffffffff
  | .lkHdr => (monOf w).opn = none ∧ sock = [] ∧ (∀ a, (monOf w).last = some a → a = ss) ∧ ss ≤ 0xffffffff
  | .actLoad => (monOf w).opn = none ∧ sock = [] ∧ (∀ a, (monOf w).last = some a → a = ss) ∧ ss ≤ 0xffffffff
  | .ssLoad => (monOf w).opn = none ∧ sock = [] ∧ (∀ a, (monOf w).last = some a → a = ss) ∧ ss ≤ 0xffffffff
  | .ssStore => (monOf w).opn = none ∧ sock = [] ∧ (∀ a, (monOf w).last = some a → a = ss) ∧ ss ≤ 0xffffffff
      ∧ th.reg = ss
  | .ssChk => (monOf w).opn = none ∧ sock = [] ∧ (∀ a, (monOf w).last = some a → a + 1 = ss)
      ∧ ss ≤ 0x100000000
  | .ssWrap => (monOf w).opn = none ∧ sock = [] ∧ (∀ a, (monOf w).last = some a → a = 0xffffffff)
  | .ssHdr _ => (monOf w).opn = none ∧ sock = [] ∧ (∀ a, (monOf w).last = some a → seqNext a ss = true)
      ∧ ss ≤ 0xffffffff
  | .send => (monOf w).opn = none ∧ sock = [] ∧ (∀ a, (monOf w).last = some a → seqNext a ss = true)
      ∧ ss ≤ 0xffffffff ∧ th.reg = ss
  | .recv => (monOf w).opn = some (t, th.mine)
      ∧ (sock = [⟨th.mine, th.hdr, th.cmd⟩] ∨ (sock = [] ∧ lostAt par.loss th.mine = true))
      ∧ (∀ a, (monOf w).last = some a → a = ss) ∧ ss ≤ 0xffffffff ∧ sentBy w t th.mine = true
  | .requeue => False
  | .release => (monOf w).opn = none ∧ sock = [] ∧ (∀ a, (monOf w).last = some a → a = ss)
      ∧ ss ≤ 0xffffffff ∧ sentBy w t th.mine = true
      ∧ ((∃ r, th.got = some r ∧ r.serial = th.mine)
          ∨ (th.got = none ∧ timedOut w t th.mine = true ∧ lostAt par.loss th.mine = true))
  | _ => True

/-- What clause (O) says about one finished call of thread `t`. -/
def ResOk (w : List WEv) (par : Par) (t : Nat) (r : CallRes) : Prop :=
  (∃ n, r = .ok n n ∧ sentBy w t n = true) ∨
  (∃ n, r = .retryError n ∧ sentBy w t n = true ∧ timedOut w t n = true ∧ lostAt par.loss n = true)

theorem ResOk.mono {w w' : List WEv} {par : Par} {t : Nat} {r : CallRes} (h : ResOk w par t r)
    (hs : ∀ t n, sentBy w t n = true → sentBy w' t n = true)
    (hto : ∀ t n, timedOut w t n = true → timedOut w' t n = true) : ResOk w' par t r := by
  rcases h with ⟨n, h1, h2⟩ | ⟨n, h1, h2, h3, h4⟩
  · exact Or.inl ⟨n, h1, hs _ _ h2⟩
  · exact Or.inr ⟨n, h1, hs _ _ h2, hto _ _ h3, h4⟩

/-- The inductive invariant. -/
structure Inv (s : Sys) : Prop where
  /-- a thread is inside the `with` block exactly when it holds the lock -/
  owner : ∀ (t : Nat) (th : Thr), s.thr[t]? = some th → (inLock th.pc = true ↔ s.lock = some t)
  valid : ∀ (t : Nat), s.lock = some t → ∃ th, s.thr[t]? = some th
  /-- clause (X): the wire is a sequence of complete exchanges plus at most one open one -/
  exch : (monOf s.wire).exch = true
  /-- clause (S): session sequence numbers increase in transmission order -/
  incr : (monOf s.wire).incr = true
  /-- clause (C): nothing was transmitted after Close Session -/
  after : (monOf s.wire).after = true
  ntx : (monOf s.wire).ntx = s.serial
  q : s.q = []
  free : s.lock = none → (monOf s.wire).opn = none ∧ s.sock = [] ∧
      (∀ a, (monOf s.wire).last = some a → a = s.sessSeq) ∧ s.sessSeq ≤ 0xffffffff
  holder : ∀ (t : Nat) (th : Thr), s.thr[t]? = some th → s.lock = some t →
      HolderInv s.wire s.sock s.par s.sessSeq t th
  /-- clause (O): every finished call returned the reply to the datagram this thread sent (last) — or failed
  after the socket had timed out on that datagram, whose reply the network had lost -/
  res : ∀ (t : Nat) (th : Thr), s.thr[t]? = some th → ∀ r ∈ th.results, ResOk s.wire s.par t r
  /-- the session wrapper is packed for every attempt (or there is no second attempt) -/
  repack : s.par.packOnce = false ∨ s.par.maxRetries = 0

theorem get_set_cases {l : List Thr} {t t' : Nat} {a b th : Thr} (h0 : l[t]? = some th)
    (h : (l.set t a)[t']? = some b) : (t' = t ∧ b = a) ∨ (t' ≠ t ∧ l[t']? = some b) := by
  rw [List.getElem?_set] at h
  by_cases e : t = t'
  · subst e
    have hl : t < l.length := by
      rcases Nat.lt_or_ge t l.length with h | h
      · exact h
      · rw [List.getElem?_eq_none h] at h0; cases h0
    simp [hl] at h
    exact Or.inl ⟨rfl, h.symm⟩
  · simp [e] at h
    exact Or.inr ⟨fun x => e x.symm, h⟩

theorem get_set_self {l : List Thr} {t : Nat} {a th : Thr} (h0 : l[t]? = some th) :
    (l.set t a)[t]? = some a := by
  have hl : t < l.length := by
    rcases Nat.lt_or_ge t l.length with h | h
    · exact h
    · rw [List.getElem?_eq_none h] at h0; cases h0
  exact List.getElem?_set_self hl

/-- Frame lemma: a step that touches only `next_sequence_number`, the session sequence
(only if the stepping thread owns the lock) and the thread's own registers. -/
theorem inv_local {s s' : Sys} {t : Nat} {th th' : Thr} (hi : Inv s) (hget : s.thr[t]? = some th)
    (hlock : s'.lock = s.lock) (hwire : s'.wire = s.wire) (hq : s'.q = s.q) (hsock : s'.sock = s.sock)
    (hserial : s'.serial = s.serial) (hpar : s'.par = s.par) (hthr : s'.thr = s.thr.set t th')
    (hpc : inLock th'.pc = inLock th.pc) (hres : th'.results = th.results)
    (hown : s.lock = some t → HolderInv s.wire s.sock s.par s'.sessSeq t th')
    (hss : s.lock ≠ some t → s'.sessSeq = s.sessSeq) : Inv s' := by
  constructor
  · intro t' b hb
    rw [hthr] at hb
    rcases get_set_cases hget hb with ⟨rfl, rfl⟩ | ⟨hne, hb⟩
    · rw [hpc, hlock]; exact hi.owner _ _ hget
    · rw [hlock]; exact hi.owner _ _ hb
  · intro t' hl
    rw [hlock] at hl
    obtain ⟨x, hx⟩ := hi.valid t' hl
    rw [hthr]
    by_cases e : t' = t
    · subst e; exact ⟨th', get_set_self hget⟩
    · exact ⟨x, by rw [List.getElem?_set_ne (fun h => e h.symm)]; exact hx⟩
  · rw [hwire]; exact hi.exch
  · rw [hwire]; exact hi.incr
  · rw [hwire]; exact hi.after
  · rw [hwire, hserial]; exact hi.ntx
  · rw [hq]; exact hi.q
  · intro hl
    rw [hlock] at hl
    have : s.lock ≠ some t := by rw [hl]; intro h; cases h
    rw [hwire, hsock, hss this]
    exact hi.free hl
  · intro t' b hb hl
    rw [hthr] at hb
    rw [hlock] at hl
    rw [hwire, hsock, hpar]
    rcases get_set_cases hget hb with ⟨rfl, rfl⟩ | ⟨hne, hb⟩
    · exact hown hl
    · have : s.lock ≠ some t := by rw [hl]; intro h; injection h with h; exact hne h
      rw [hss this]
      exact hi.holder _ _ hb hl
  · intro t' b hb r hr
    rw [hthr] at hb
    rw [hwire, hpar]
    rcases get_set_cases hget hb with ⟨rfl, rfl⟩ | ⟨hne, hb⟩
    · rw [hres] at hr; exact hi.res _ _ hget r hr
    · exact hi.res _ _ hb r hr
  · rw [hpar]; exact hi.repack

/-- A step of the lock holder that keeps the lock. -/
theorem inv_holder {s s' : Sys} {t : Nat} {th th' : Thr} (hi : Inv s) (hget : s.thr[t]? = some th)
    (hl : s.lock = some t) (hlock : s'.lock = some t) (hpar : s'.par = s.par) (hthr : s'.thr = s.thr.set t th')
    (hpc : inLock th'.pc = true) (hres : th'.results = th.results)
    (hexch : (monOf s'.wire).exch = true) (hincr : (monOf s'.wire).incr = true)
    (hafter : (monOf s'.wire).after = true)
    (hntx : (monOf s'.wire).ntx = s'.serial) (hq : s'.q = [])
    (hmono : ∀ t n, sentBy s.wire t n = true → sentBy s'.wire t n = true)
    (hmono2 : ∀ t n, timedOut s.wire t n = true → timedOut s'.wire t n = true)
    (hown : HolderInv s'.wire s'.sock s'.par s'.sessSeq t th') : Inv s' := by
  constructor
  · intro t' b hb
    rw [hthr] at hb
    rcases get_set_cases hget hb with ⟨rfl, rfl⟩ | ⟨hne, hb⟩
    · simp [hpc, hlock]
    · have := hi.owner _ _ hb
      rw [hl] at this
      rw [hlock]; exact this
  · intro t' hl'
    rw [hlock] at hl'
    injection hl' with hl'
    subst hl'
    exact ⟨th', by rw [hthr]; exact get_set_self hget⟩
  · exact hexch
  · exact hincr
  · exact hafter
  · exact hntx
  · exact hq
  · intro h; rw [hlock] at h; cases h
  · intro t' b hb hl'
    rw [hlock] at hl'
    injection hl' with hl'
    subst hl'
    rw [hthr, get_set_self hget] at hb
    injection hb with hb
    subst hb
    exact hown
  · intro t' b hb r hr
    rw [hthr] at hb
    rcases get_set_cases hget hb with ⟨rfl, rfl⟩ | ⟨hne, hb⟩
    · rw [hres] at hr
      rw [hpar]
      exact (hi.res _ _ hget r hr).mono hmono hmono2
    · rw [hpar]
      exact (hi.res _ _ hb r hr).mono hmono hmono2
  · rw [hpar]; exact hi.repack

/-! ### the multi-datagram monitor (Spec.Threads.MonM) simulates the one-reply monitor -/

/-- simulation between the one-reply monitor and the multi-datagram monitor -/
def SimM (m : Mon) (mm : MonM) : Prop :=
  m.ntx = mm.ntx ∧ (m.exch = true → mm.ok = true ∧
    ((m.opn = mm.opn ∧ mm.answered = false) ∨ (m.opn = none ∧ mm.answered = true)))

theorem simM_step (m : Mon) (mm : MonM) (e : WEv) (h : SimM m mm) : SimM (m.step e) (mm.step e) := by
  obtain ⟨hn, hx⟩ := h
  cases e with
  | tx t n s r c =>
    refine ⟨by simp [Mon.step, MonM.step, hn], fun he => ?_⟩
    simp only [Mon.step, Bool.and_eq_true, beq_iff_eq] at he
    obtain ⟨⟨he, ho⟩, hnn⟩ := he
    obtain ⟨hok, hd⟩ := hx he
    have hnone : m.opn = none := by cases hm : m.opn <;> simp_all
    refine ⟨?_, Or.inl ⟨rfl, rfl⟩⟩
    simp only [MonM.step, Bool.and_eq_true, Bool.or_eq_true, beq_iff_eq]
    refine ⟨⟨hok, ?_⟩, by omega⟩
    rcases hd with ⟨h1, _⟩ | ⟨_, h2⟩
    · left; rw [← h1, hnone]; rfl
    · right; exact h2
  | rx t n =>
    refine ⟨by simp [Mon.step, MonM.step, hn], fun he => ?_⟩
    simp only [Mon.step, Bool.and_eq_true, beq_iff_eq] at he
    obtain ⟨he, ho⟩ := he
    obtain ⟨hok, hd⟩ := hx he
    rcases hd with ⟨h1, _⟩ | ⟨h2, _⟩
    · refine ⟨?_, Or.inr ⟨rfl, rfl⟩⟩
      simp [MonM.step, hok, ← h1, ho]
    · rw [h2] at ho; cases ho
  | to t n =>
    refine ⟨by simp [Mon.step, MonM.step, hn], fun he => ?_⟩
    simp only [Mon.step, Bool.and_eq_true, beq_iff_eq] at he
    obtain ⟨he, ho⟩ := he
    obtain ⟨hok, hd⟩ := hx he
    rcases hd with ⟨h1, _⟩ | ⟨h2, _⟩
    · refine ⟨?_, Or.inl ⟨rfl, rfl⟩⟩
      simp [MonM.step, hok, ← h1, ho]
    · rw [h2] at ho; cases ho

theorem simM_fold (w : List WEv) (m : Mon) (mm : MonM) (h : SimM m mm) :
    SimM (w.foldl Mon.step m) (w.foldl MonM.step mm) := by
  induction w generalizing m mm with
  | nil => exact h
  | cons e w ih => exact ih _ _ (simM_step m mm e h)

end PyIpmi.Threads
