/-
  Lemmas for C06: the monitor side of the reference BMC on its own — a flagged datagram leaves a
  mark (`bad`) that is never erased, an answered one leaves none.
-/
import PyIpmi.Spec.BmcSession
namespace PyIpmi.Spec.BmcSession
open PyIpmi PyIpmi.Spec.Lan

/-- outcome `r` of one step from `st`: an answer leaves `bad` alone, an objection sets it -/
def StepOk (st : BmcState) (r : BmcState × Verdict) : Prop :=
  (r.2.isReply = true → r.1.bad = st.bad) ∧ (r.2.isReply = false → r.1.bad ≠ none)

theorem stepOk_fail (st : BmcState) (w : Why) : StepOk st (fail st w) := by
  constructor
  · intro h; simp [fail, Verdict.isReply] at h
  · intro _; cases hb : st.bad <;> simp [fail, hb, HOrElse.hOrElse, OrElse.orElse, Option.orElse]

theorem stepOk_reply (st st' : BmcState) (r : List Nat) (h : st'.bad = st.bad) : StepOk st (st', .reply r) := by
  constructor
  · intro _; exact h
  · intro h; simp [Verdict.isReply] at h

theorem stepOk_inSession (md5 : List Nat → List Nat) (b : BmcCfg) (st : BmcState) (a seq : Nat) (rq : IpmiReq) :
    StepOk st (inSession md5 b st a seq rq) := by
  unfold inSession
  repeat' (first | split | dsimp only)
  all_goals first | exact stepOk_fail _ _ | exact stepOk_reply _ _ _ rfl

theorem stepOk_handle (md5 : List Nat → List Nat) (b : BmcCfg) (st : BmcState) (p : LanPacket) (rq : IpmiReq) :
    StepOk st (handle md5 b st p rq) := by
  unfold handle
  repeat' (first | split | dsimp only)
  all_goals first | exact stepOk_fail _ _ | exact stepOk_reply _ _ _ rfl | exact stepOk_inSession _ _ _ _ _ _

theorem stepOk_step (md5 : List Nat → List Nat) (b : BmcCfg) (st : BmcState) (d : List Nat) :
    StepOk st (step md5 b st d) := by
  unfold step
  repeat' (first | split | dsimp only)
  all_goals first | exact stepOk_fail _ _ | exact stepOk_reply _ _ _ rfl | exact stepOk_handle _ _ _ _ _

/-- a mark is never erased -/
theorem step_bad_sticky (md5 : List Nat → List Nat) (b : BmcCfg) (st : BmcState) (d : List Nat)
    (h : st.bad ≠ none) : (step md5 b st d).1.bad ≠ none := by
  have := stepOk_step md5 b st d
  cases hr : (step md5 b st d).2.isReply
  · exact this.2 hr
  · rw [this.1 hr]; exact h

theorem run_bad_sticky (md5 : List Nat → List Nat) (b : BmcCfg) (ds : List (List Nat)) :
    ∀ st, st.bad ≠ none → (run md5 b st ds).bad ≠ none := by
  induction ds with
  | nil => intro st h; exact h
  | cons d ds ih => intro st h; exact ih _ (step_bad_sticky md5 b st d h)

/-- The monitor's final `bad` field is empty exactly when it started empty and no datagram of the
list was flagged: "no protocol error" can be read off the final state. -/
theorem run_bad_none_iff (md5 : List Nat → List Nat) (b : BmcCfg) (ds : List (List Nat)) :
    ∀ st, (run md5 b st ds).bad = none ↔
      st.bad = none ∧ (verdicts md5 b st ds).all Verdict.isReply = true := by
  induction ds with
  | nil => intro st; simp [run, verdicts]
  | cons d ds ih =>
    intro st
    have hs := stepOk_step md5 b st d
    simp only [run, verdicts, List.all_cons, Bool.and_eq_true]
    rw [ih]
    constructor
    · rintro ⟨h1, h2⟩
      cases hr : (step md5 b st d).2.isReply
      · exact absurd h1 (hs.2 hr)
      · exact ⟨by rw [← hs.1 hr]; exact h1, rfl, h2⟩
    · rintro ⟨h1, h2, h3⟩
      exact ⟨by rw [hs.1 h2]; exact h1, h3⟩

theorem stepOk_stepLost (md5 : List Nat → List Nat) (b : BmcCfg) (st : BmcState) (d : List Nat) :
    StepOk st (stepLost md5 b st d) := by
  have h := stepOk_step md5 b st d
  unfold stepLost
  rcases hs : step md5 b st d with ⟨st', v⟩
  rw [hs] at h
  cases v with
  | protocolError w => exact h
  | reply r =>
    simp only
    split
    · exact stepOk_reply _ _ _ rfl
    · exact stepOk_reply _ _ _ rfl

/-- one datagram on the wire: verdict and next monitor state -/
def wireStep (md5 : List Nat → List Nat) (b : BmcCfg) (st : BmcState) (x : Bool × List Nat) : BmcState × Verdict :=
  if x.1 then stepLost md5 b st x.2 else step md5 b st x.2

/-- the verdicts over everything transmitted -/
def verdictsWire (md5 : List Nat → List Nat) (b : BmcCfg) : BmcState → List (Bool × List Nat) → List Verdict
  | _, [] => []
  | st, x :: xs => (wireStep md5 b st x).2 :: verdictsWire md5 b (wireStep md5 b st x).1 xs

theorem runWire_cons (md5 : List Nat → List Nat) (b : BmcCfg) (st : BmcState) (x : Bool × List Nat)
    (xs : List (Bool × List Nat)) : runWire md5 b st (x :: xs) = runWire md5 b (wireStep md5 b st x).1 xs := by
  obtain ⟨l, d⟩ := x
  cases l <;> simp [runWire, wireStep]

/-- "No protocol error" over the wire can be read off the final monitor state, lost datagrams
included: `bad` is empty at the end iff it was at the start and no datagram was flagged. -/
theorem runWire_bad_none_iff (md5 : List Nat → List Nat) (b : BmcCfg) (w : List (Bool × List Nat)) :
    ∀ st, (runWire md5 b st w).bad = none ↔
      st.bad = none ∧ (verdictsWire md5 b st w).all Verdict.isReply = true := by
  induction w with
  | nil => intro st; simp [runWire, verdictsWire]
  | cons x xs ih =>
    intro st
    have hs : StepOk st (wireStep md5 b st x) := by
      unfold wireStep; split
      · exact stepOk_stepLost md5 b st x.2
      · exact stepOk_step md5 b st x.2
    rw [runWire_cons]
    simp only [verdictsWire, List.all_cons, Bool.and_eq_true]
    rw [ih]
    constructor
    · rintro ⟨h1, h2⟩
      cases hr : (wireStep md5 b st x).2.isReply
      · exact absurd h1 (hs.2 hr)
      · exact ⟨by rw [← hs.1 hr]; exact h1, rfl, h2⟩
    · rintro ⟨h1, h2, h3⟩
      exact ⟨by rw [hs.1 h2]; exact h1, h3⟩

end PyIpmi.Spec.BmcSession
