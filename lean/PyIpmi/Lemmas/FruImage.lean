/-
  Whole images: layout of `encodeFru`, and `parseFru (encodeFru img) = ok (view img)`.
  Core only.
-/
import PyIpmi.Lemmas.FruRecords
namespace PyIpmi.Fru
open PyIpmi PyIpmi.Gen

/-! ### which fields the variant / input kind can decode -/

def InfoArea.okFor (v : Variant) (k : InputKind) (a : InfoArea) : Bool :=
  a.fields.all (·.okFor v k) && a.custom.all (·.okFor v k)

def FruImage.okFor (v : Variant) (k : InputKind) (img : FruImage) : Bool :=
  optAll (fun c => c.toArea.okFor v k) img.chassis &&
  optAll (fun b => b.toArea.okFor v k) img.board &&
  optAll (fun p => p.toArea.okFor v k) img.product &&
  img.records.all (·.okFor v)

theorem InfoArea.okFor_intended (k : InputKind) (a : InfoArea) : a.okFor .intended k = true := by
  simp [InfoArea.okFor, Field.okFor_intended]

theorem FruImage.okFor_intended (k : InputKind) (img : FruImage) : img.okFor .intended k = true := by
  simp only [FruImage.okFor, Bool.and_eq_true]
  refine ⟨⟨⟨?_, ?_⟩, ?_⟩, ?_⟩
  · cases img.chassis <;> simp [optAll, InfoArea.okFor_intended]
  · cases img.board <;> simp [optAll, InfoArea.okFor_intended]
  · cases img.product <;> simp [optAll, InfoArea.okFor_intended]
  · simp [Record.okFor_intended]

/-! ### part lengths -/

theorem encodeInternal_length_mod (d : List Nat) : (encodeInternal d).length % 8 = 0 := by
  simp [encodeInternal]; omega

theorem optBytes_area_mod {α : Type} (f : α → InfoArea) (o : Option α) :
    (optBytes (fun a => encodeArea (f a)) o).length % 8 = 0 := by
  cases o with
  | none => rfl
  | some a => simp [optBytes, encodeArea_length, InfoArea.total_mod]

theorem parts_mod (img : FruImage) :
    img.parts.iu.length % 8 = 0 ∧ img.parts.ch.length % 8 = 0 ∧ img.parts.bd.length % 8 = 0 ∧
    img.parts.pr.length % 8 = 0 := by
  refine ⟨?_, optBytes_area_mod _ _, optBytes_area_mod _ _, optBytes_area_mod _ _⟩
  simp only [FruImage.parts]
  cases img.internal with
  | none => rfl
  | some d => exact encodeInternal_length_mod d

theorem offOf_mul (p : Bool) (n : Nat) (h : n % 8 = 0) : offOf p n / 8 * 8 = offOf p n := by
  unfold offOf; split <;> omega

/-! ### header -/

theorem header_length (img : FruImage) : img.header.length = 8 := by
  simp [FruImage.header, FruImage.header7]

theorem header_sum (img : FruImage) : img.header.sum % 256 = 0 := sum_append_zeroSum _

theorem offs_mul (img : FruImage) :
    img.iuOff / 8 * 8 = img.iuOff ∧ img.chOff / 8 * 8 = img.chOff ∧ img.bdOff / 8 * 8 = img.bdOff ∧
    img.prOff / 8 * 8 = img.prOff ∧ img.mrOff / 8 * 8 = img.mrOff := by
  obtain ⟨h1, h2, h3, h4⟩ := parts_mod img
  refine ⟨offOf_mul _ _ (by omega), offOf_mul _ _ (by omega), offOf_mul _ _ (by omega),
    offOf_mul _ _ (by omega), offOf_mul _ _ (by omega)⟩

theorem parseHeader_header (img : FruImage) :
    parseHeader img.header = .ok ⟨1, img.iuOff, img.chOff, img.bdOff, img.prOff, img.mrOff⟩ := by
  obtain ⟨h1, h2, h3, h4, h5⟩ := offs_mul img
  have hs := header_sum img
  have hl := header_length img
  simp only [parseHeader, record_consts.2.2.2.2.2, hl]
  simp only [ne_eq, not_true_eq_false, if_false, hs]
  simp [FruImage.header, FruImage.header7, h1, h2, h3, h4, h5]

theorem take_header (img : FruImage) : (encodeFru img).take 8 = img.header := by
  rw [encodeFru, ← header_length img, List.take_left']
  rfl

/-! ### one area slot -/

/-- what `parseArea_encode` needs to know about the fixed bytes of an area kind -/
structure AreaFits (kind : AreaKind) (a : InfoArea) (b2 minutes : Nat) : Prop where
  nfields : a.fields.length = kind.nFields
  b2 : ∀ x tail, (1 :: x :: (a.pre ++ tail))[2]? = some b2
  fixed : ∀ x tail, areaFixed kind (1 :: x :: (a.pre ++ tail)) = some (2 + a.pre.length, minutes)

theorem chassis_fits (c : Chassis) : AreaFits .chassis c.toArea c.ctype 0 := by
  refine ⟨rfl, fun x tail => ?_, fun x tail => ?_⟩
  · rfl
  · simp [areaFixed, Chassis.toArea]

theorem product_fits (p : Product) : AreaFits .product p.toArea p.lang 0 := by
  refine ⟨rfl, fun x tail => ?_, fun x tail => ?_⟩
  · rfl
  · simp [areaFixed, Product.toArea]

theorem board_fits (b : Board) (hm : b.minutes < 256 ^ 3) : AreaFits .board b.toArea b.lang b.minutes := by
  refine ⟨rfl, fun x tail => ?_, fun x tail => ?_⟩
  · rfl
  · simp [areaFixed, Board.toArea, leBytes]
    omega

theorem slotStep_area {α : Type} (v : Variant) (k : InputKind) (kind : AreaKind)
    (toArea : α → InfoArea) (b2 minutes : α → Nat) (o : Option α) (pre post : List Nat)
    (hpre : 0 < pre.length)
    (hwf : ∀ a, o = some a → (toArea a).wf = true)
    (hok : ∀ a, o = some a → (toArea a).okFor v k = true)
    (hfit : ∀ a, o = some a → AreaFits kind (toArea a) (b2 a) (minutes a)) :
    slotStep (offOf o.isSome pre.length)
        (pre ++ (optBytes (fun a => encodeArea (toArea a)) o ++ post)) (parseArea v k kind) =
      .ok (optSlot (fun a => viewArea (toArea a) (b2 a) (minutes a)) o) := by
  cases o with
  | none => simp [slotStep, offOf, optSlot]
  | some a =>
    have hne : pre.length ≠ 0 := by omega
    simp only [slotStep, offOf, Option.isSome_some, if_true, if_neg hne, optBytes, optSlot]
    rw [List.drop_left' rfl]
    have hok' := hok a rfl
    simp only [InfoArea.okFor, Bool.and_eq_true, List.all_eq_true] at hok'
    obtain ⟨f1, f2, f3⟩ := hfit a rfl
    exact parseArea_encode v k kind (toArea a) post (b2 a) (minutes a) (hwf a rfl) hok'.1 hok'.2 f1 f2 f3

/-! ### the whole image -/

/-- body of `parseFru` for a non-empty image -/
def parseFruBody (v : Variant) (k : InputKind) (bs : List Nat) : Outcome FruView :=
  (parseHeader (bs.take 8)).bind fun h =>
  (slotStep h.chassisOff bs (parseArea v k .chassis)).bind fun c =>
  (slotStep h.boardOff bs (parseArea v k .board)).bind fun b =>
  (slotStep h.productOff bs (parseArea v k .product)).bind fun p =>
  (slotStep h.multiOff bs (parseMulti v)).bind fun m =>
  if !v.overlapLax && layoutClash h c b p m then .decodingError
  else .ok ⟨some h, c, b, p, m⟩

theorem parseFru_ne_nil (v : Variant) (k : InputKind) (bs : List Nat) (h : bs ≠ []) :
    parseFru v k bs = parseFruBody v k bs := by
  cases bs with
  | nil => exact absurd rfl h
  | cons x t => rfl

theorem encodeFru_ne_nil (img : FruImage) : encodeFru img ≠ [] := by
  intro h
  have := congrArg List.length h
  simp [encodeFru, header_length] at this

theorem wf_parts (img : FruImage) (h : img.wf = true) :
    (∀ c, img.chassis = some c → c.toArea.wf = true) ∧
    (∀ b, img.board = some b → b.toArea.wf = true ∧ b.minutes < 256 ^ 3) ∧
    (∀ p, img.product = some p → p.toArea.wf = true) ∧
    (∀ r ∈ img.records, r.wf = true) := by
  simp only [FruImage.wf, Bool.and_eq_true, List.all_eq_true] at h
  obtain ⟨⟨⟨⟨⟨_, hc⟩, hb⟩, hp⟩, hr⟩, _⟩ := h
  refine ⟨?_, ?_, ?_, hr⟩
  · intro c e; rw [e] at hc; simp [optAll] at hc; exact hc.2
  · intro b e; rw [e] at hb; simp [optAll] at hb; exact ⟨hb.2, hb.1.2⟩
  · intro p e; rw [e] at hp; simp [optAll] at hp; exact hp.2

/-! ### the layout check -/

theorem layoutClash_eq_false (h : HeaderView) (c b p : Slot AreaView) (m : Slot (List RecView)) :
    layoutClash h c b p m = false ↔
      ∀ i ∈ [1, 2, 3, 4, 5], ∀ j ∈ [1, 2, 3, 4, 5], i ≠ j → hdrStart h i ≠ 0 → hdrStart h j ≠ 0 →
        hdrStart h i ≤ hdrStart h j → hdrStart h i + slotLens c b p m i ≤ hdrStart h j := by
  constructor
  · intro hf i hi j hj hij hsi hsj hle
    apply Nat.le_of_not_lt
    intro hlt
    have : layoutClash h c b p m = true := by
      simp only [layoutClash, List.any_eq_true]
      exact ⟨i, hi, j, hj, by simp [hij, hsi, hsj, hle, hlt]⟩
    rw [hf] at this; cases this
  · intro H
    cases hc : layoutClash h c b p m with
    | false => rfl
    | true =>
      simp only [layoutClash, List.any_eq_true, Bool.and_eq_true, bne_iff_ne, ne_eq, decide_eq_true_eq] at hc
      obtain ⟨i, hi, j, hj, ⟨⟨⟨hij, hsi⟩, hsj⟩, hle⟩, hlt⟩ := hc
      have := H i hi j hj hij hsi hsj hle
      omega

theorem viewRecords_len (rs : List Record) :
    ((viewRecords rs).map fun r => r.length + 5).sum = (encodeRecords rs).length := by
  induction rs with
  | nil => rfl
  | cons r rs ih =>
    cases rs with
    | nil => simp [viewRecords, encodeRecords, viewRecord_length, encodeRecord_length]
    | cons r' rs' =>
      simp only [viewRecords, encodeRecords, List.map_cons, List.sum_cons, List.length_append,
        viewRecord_length, encodeRecord_length] at ih ⊢
      omega

/-- offsets and lengths of the parts of an encoded image: an absent part has offset 0 and no bytes, a
present one starts where the parts before it end and is not empty -/
theorem off_facts (img : FruImage) :
    (img.iuOff = 0 ∧ img.parts.iu.length = 0 ∨ img.iuOff = 8 ∧ 0 < img.parts.iu.length) ∧
    (img.chOff = 0 ∧ img.parts.ch.length = 0 ∨
      img.chOff = 8 + img.parts.iu.length ∧ 0 < img.parts.ch.length) ∧
    (img.bdOff = 0 ∧ img.parts.bd.length = 0 ∨
      img.bdOff = 8 + img.parts.iu.length + img.parts.ch.length ∧ 0 < img.parts.bd.length) ∧
    (img.prOff = 0 ∧ img.parts.pr.length = 0 ∨
      img.prOff = 8 + img.parts.iu.length + img.parts.ch.length + img.parts.bd.length ∧
        0 < img.parts.pr.length) ∧
    (img.mrOff = 0 ∧ img.parts.mr.length = 0 ∨
      img.mrOff = 8 + img.parts.iu.length + img.parts.ch.length + img.parts.bd.length + img.parts.pr.length ∧
        0 < img.parts.mr.length) := by
  refine ⟨?_, ?_, ?_, ?_, ?_⟩
  · cases hi : img.internal with
    | none => left; simp [FruImage.iuOff, FruImage.parts, offOf, optBytes, hi]
    | some d => right; simp [FruImage.iuOff, FruImage.parts, offOf, optBytes, hi, encodeInternal]
  · cases hi : img.chassis with
    | none => left; simp [FruImage.chOff, FruImage.parts, offOf, optBytes, hi]
    | some d =>
      right
      have := d.toArea.total_pos
      simp [FruImage.chOff, FruImage.parts, offOf, optBytes, hi, encodeArea_length]; omega
  · cases hi : img.board with
    | none => left; simp [FruImage.bdOff, FruImage.parts, offOf, optBytes, hi]
    | some d =>
      right
      have := d.toArea.total_pos
      simp [FruImage.bdOff, FruImage.parts, offOf, optBytes, hi, encodeArea_length]; omega
  · cases hi : img.product with
    | none => left; simp [FruImage.prOff, FruImage.parts, offOf, optBytes, hi]
    | some d =>
      right
      have := d.toArea.total_pos
      simp [FruImage.prOff, FruImage.parts, offOf, optBytes, hi, encodeArea_length]; omega
  · cases hi : img.records with
    | nil => left; simp [FruImage.mrOff, FruImage.parts, offOf, hi, encodeRecords]
    | cons r rs =>
      right
      have := encodeRecords_length_ge (r :: rs)
      simp only [List.length_cons] at this
      simp [FruImage.mrOff, FruImage.parts, offOf, hi]; omega

theorem areaLen_optSlot {α : Type} (toArea : α → InfoArea) (b2 minutes : α → Nat) (o : Option α) :
    areaLen (optSlot (fun a => viewArea (toArea a) (b2 a) (minutes a)) o) =
      (optBytes (fun a => encodeArea (toArea a)) o).length := by
  cases o with
  | none => rfl
  | some a => simp [optSlot, optBytes, areaLen, viewArea, encodeArea_length]

/-- the areas of an encoded image do not overlap: the layout check of the repaired reader passes -/
theorem layout_encode (img : FruImage) :
    layoutClash ⟨1, img.iuOff, img.chOff, img.bdOff, img.prOff, img.mrOff⟩
      (optSlot (fun c => viewArea c.toArea c.ctype 0) img.chassis)
      (optSlot (fun b => viewArea b.toArea b.lang b.minutes) img.board)
      (optSlot (fun p => viewArea p.toArea p.lang 0) img.product)
      (if img.records.isEmpty then .absent else .parsed (viewRecords img.records)) = false := by
  rw [layoutClash_eq_false]
  obtain ⟨f1, f2, f3, f4, f5⟩ := off_facts img
  have l2 := areaLen_optSlot Chassis.toArea Chassis.ctype (fun _ => 0) img.chassis
  have l3 := areaLen_optSlot Board.toArea Board.lang Board.minutes img.board
  have l4 := areaLen_optSlot Product.toArea Product.lang (fun _ => 0) img.product
  have l5 : multiLenOf (if img.records.isEmpty then .absent else .parsed (viewRecords img.records)) =
      img.parts.mr.length := by
    cases hr : img.records with
    | nil => simp [multiLenOf, FruImage.parts, hr, encodeRecords]
    | cons r rs =>
      simp only [List.isEmpty_cons, Bool.false_eq_true, if_false, multiLenOf, FruImage.parts, hr]
      exact viewRecords_len (r :: rs)
  have e2 : img.parts.ch = optBytes (fun c => encodeArea c.toArea) img.chassis := rfl
  have e3 : img.parts.bd = optBytes (fun b => encodeArea b.toArea) img.board := rfl
  have e4 : img.parts.pr = optBytes (fun p => encodeArea p.toArea) img.product := rfl
  rw [← e2] at l2; rw [← e3] at l3; rw [← e4] at l4
  intro i hi j hj hij hsi hsj hle
  simp only [List.mem_cons, List.mem_nil_iff, or_false] at hi hj
  rcases hi with rfl | rfl | rfl | rfl | rfl <;> rcases hj with rfl | rfl | rfl | rfl | rfl <;>
    simp only [hdrStart, slotLens, l2, l3, l4, l5] at hsi hsj hle ⊢ <;> omega

theorem parse_encode_gen (v : Variant) (k : InputKind) (img : FruImage)
    (hwf : img.wf = true) (hok : img.okFor v k = true) :
    parseFru v k (encodeFru img) = .ok (view img) := by
  obtain ⟨wc, wb, wp, wr⟩ := wf_parts img hwf
  simp only [FruImage.okFor, Bool.and_eq_true, List.all_eq_true] at hok
  obtain ⟨⟨⟨okc, okb⟩, okp⟩, okr⟩ := hok
  rw [parseFru_ne_nil v k _ (encodeFru_ne_nil img)]
  unfold parseFruBody
  rw [take_header, parseHeader_header]
  simp only [Outcome.bind_ok]
  -- chassis
  have sc : slotStep img.chOff (encodeFru img) (parseArea v k .chassis) =
      .ok (optSlot (fun c => viewArea c.toArea c.ctype 0) img.chassis) := by
    have := slotStep_area v k .chassis Chassis.toArea Chassis.ctype (fun _ => 0) img.chassis
      (img.header ++ img.parts.iu) (img.parts.bd ++ (img.parts.pr ++ img.parts.mr))
      (by simp [header_length]; omega) wc
      (fun c e => by rw [e] at okc; simpa [optAll] using okc)
      (fun c _ => chassis_fits c)
    simpa [encodeFru, FruImage.chOff, FruImage.parts, header_length, List.append_assoc] using this
  -- board
  have sb : slotStep img.bdOff (encodeFru img) (parseArea v k .board) =
      .ok (optSlot (fun b => viewArea b.toArea b.lang b.minutes) img.board) := by
    have := slotStep_area v k .board Board.toArea Board.lang Board.minutes img.board
      (img.header ++ img.parts.iu ++ img.parts.ch) (img.parts.pr ++ img.parts.mr)
      (by simp [header_length]; omega) (fun b e => (wb b e).1)
      (fun b e => by rw [e] at okb; simpa [optAll] using okb)
      (fun b e => board_fits b (wb b e).2)
    simpa [encodeFru, FruImage.bdOff, FruImage.parts, header_length, List.append_assoc, Nat.add_assoc] using this
  -- product
  have sp : slotStep img.prOff (encodeFru img) (parseArea v k .product) =
      .ok (optSlot (fun p => viewArea p.toArea p.lang 0) img.product) := by
    have := slotStep_area v k .product Product.toArea Product.lang (fun _ => 0) img.product
      (img.header ++ img.parts.iu ++ img.parts.ch ++ img.parts.bd) img.parts.mr
      (by simp [header_length]; omega) wp
      (fun p e => by rw [e] at okp; simpa [optAll] using okp)
      (fun p _ => product_fits p)
    simpa [encodeFru, FruImage.prOff, FruImage.parts, header_length, List.append_assoc, Nat.add_assoc] using this
  -- multi-record area
  have sm : slotStep img.mrOff (encodeFru img) (parseMulti v) =
      .ok (if img.records.isEmpty then .absent else .parsed (viewRecords img.records)) := by
    by_cases he : img.records = []
    · simp [slotStep, FruImage.mrOff, offOf, he]
    · have hne : img.records.isEmpty = false := by
        cases h : img.records with
        | nil => exact absurd h he
        | cons _ _ => rfl
      have hoff : img.mrOff = (img.header ++ img.parts.iu ++ img.parts.ch ++ img.parts.bd ++ img.parts.pr).length := by
        simp [FruImage.mrOff, offOf, hne, header_length, Nat.add_assoc]
      have hbs : encodeFru img =
          (img.header ++ img.parts.iu ++ img.parts.ch ++ img.parts.bd ++ img.parts.pr) ++ (encodeRecords img.records ++ []) := by
        simp [encodeFru, FruImage.parts, List.append_assoc]
      have hpos : img.mrOff ≠ 0 := by rw [hoff]; simp [header_length]
      simp only [slotStep, if_neg hpos, hne]
      rw [hbs, hoff, List.drop_left' rfl, parseMulti_encode v _ _ he wr okr]
      rfl
  simp only [sc, sb, sp, sm, Outcome.bind_ok, view, layout_encode img]
  simp

end PyIpmi.Fru
