/- C07 refinement lemmas, family 6a: PICMG properties, FRU control / activation / policy, power level,
   fan, power channels, signalling class (pyipmi/picmg.py). -/
import PyIpmi.Lemmas.ApiBase
namespace PyIpmi.Lemmas.Api
open PyIpmi PyIpmi.Codec PyIpmi.Spec.Bmc PyIpmi.Model.Api PyIpmi.Gen.Tables

set_option maxRecDepth 4000
set_option linter.unusedSimpArgs false

theorem get_picmg_properties_refines (s : BmcState) :
    api_get_picmg_properties.run s = (s, .ok (.picmgProps s.picmgVersion s.maxFruId s.ipmcFruId)) := by
  simp [api_get_picmg_properties, api_eval]

theorem fruControl_run (fru opt : Nat) (k : List Nat → Result) (s : BmcState) (h1 : fru < 256) (h2 : opt < 256) :
    (fruControl fru opt k).run s = (fru_control fru opt s, .ok (k [])) := by
  simp [fruControl, api_eval, Nat.mod_eq_of_lt, *]

theorem fru_control_refines (fru opt : Nat) (s : BmcState) (h1 : fru < 256) (h2 : opt < 256) :
    (api_fru_control fru opt).run s = (fru_control fru opt s, .ok (.bytes [])) := by
  simp [api_fru_control, fruControl_run, *]

/-- the four wrappers pass the FRU Control options of PICMG 3.0 table 3-27 in this order -/
theorem fruControlOption_law : fruControlOption = [0, 1, 2, 3] := by decide

theorem fru_control_named_refines (idx fru : Nat) (s : BmcState) (h1 : idx < 4) (h2 : fru < 256) :
    (api_fru_control_named idx fru).run s = (fru_control fru idx s, .ok (if idx = 3 then .bytes [] else .unit)) := by
  unfold api_fru_control_named
  rw [fruControlOption_law]
  have : ([0, 1, 2, 3] : List Nat)[idx]? = some idx := by
    rcases idx with _ | _ | _ | _ | n <;> first | rfl | omega
  rw [this]
  simp [fruControl_run, show idx < 256 by omega, *]

theorem get_power_level_refines (fru ty : Nat) (s : BmcState) (h1 : fru < 256) (h2 : ty < 256)
    (hw : (get_power_level fru ty s).level < 32) :
    (api_get_power_level fru ty).run s =
      present (if ty ≤ 3 then (s, .power (get_power_level fru ty s)) else (s, .error ccInvalidField)) := by
  by_cases h3 : ty ≤ 3
  · generalize hp : get_power_level fru ty s = p at hw
    cases p with
    | mk dynamic level delay multiplier draw =>
    have b1 := b2n_le dynamic
    simp at hw
    simp [api_get_power_level, api_eval, fmtPower, present, Result.toOutcome, Nat.mod_eq_of_lt, hp, *]
    bits_close
  · simp [api_get_power_level, api_eval, present, Result.toOutcome, Nat.mod_eq_of_lt, *]

theorem get_fan_speed_properties_refines (fru : Nat) (s : BmcState) (h1 : fru < 256) :
    (api_get_fan_speed_properties fru).run s =
      (s, .ok (let f := get_fan fru s; .fanProps f.minLevel f.maxLevel f.normalLevel f.localSupported)) := by
  have b1 := b2n_le (get_fan fru s).localSupported
  simp [api_get_fan_speed_properties, api_eval, fmtFanProps, Nat.mod_eq_of_lt, *]
  bits_close

/-- INTENDED set_fan_level: the three request bytes of PICMG 3.0 Set Fan Level - the override level is set, the
local control state stays as it is, whatever the revision of the fan tray -/
theorem set_fan_level_refines (fru lvl : Nat) (s : BmcState) (h1 : fru < 256) (h2 : lvl < 256) :
    (api_set_fan_level fru lvl).run s = (set_fan_level fru lvl none s, .ok .unit) := by
  simp [api_set_fan_level, setFanLevel, api_eval, Nat.mod_eq_of_lt, *]

/-- AS SHIPPED: four request bytes.  A fan tray with the R1.0/R2.0 command set refuses them (C7h, nothing is set);
an R3.0 one takes the fourth byte 00h as "local control disabled" -/
theorem set_fan_level_shipped_run (fru lvl : Nat) (s : BmcState) (h1 : fru < 256) (h2 : lvl < 256) :
    (api_set_fan_level_shipped fru lvl).request = .ok { netfn := 0x2c, lun := 0, cmd := 0x15, data := [0, fru, lvl, 0] } ∧
    (api_set_fan_level_shipped fru lvl).run s =
      if (get_fan fru s).r3 then (set_fan_level fru lvl (some 0) s, .ok .unit) else (s, .ccError 0xc7) := by
  constructor
  · simp [api_set_fan_level_shipped, setFanLevel, reqSetFanLevelShipped, api_eval, Nat.mod_eq_of_lt, *]
  · cases hr : (get_fan fru s).r3 <;>
      simp [api_set_fan_level_shipped, setFanLevel, reqSetFanLevelShipped, api_eval, Nat.mod_eq_of_lt, hr, *]

theorem get_fan_level_refines (fru : Nat) (s : BmcState) (h1 : fru < 256) :
    (api_get_fan_level fru).run s =
      (s, .ok (let f := get_fan fru s; .optNatPair (some f.overrideLevel) f.localLevel)) := by
  generalize hf : get_fan fru s = f
  cases f with
  | mk minLevel maxLevel normalLevel localSupported overrideLevel localLevel localEnabled r3 =>
  rcases localLevel with _ | l <;> rcases localEnabled with _ | e <;>
    simp [api_get_fan_level, api_eval, fmtFanLevel, Nat.mod_eq_of_lt, hf, *]

/-- set_fru_deactivation passes 0, set_fru_activation passes 1 (PICMG 3.0 table 3-18) -/
theorem fruActivationControl_law : fruActivationControl = [0, 1] := by decide

theorem set_fru_activation_refines (fru : Nat) (on : Bool) (s : BmcState) (h1 : fru < 256) :
    (api_set_fru_activation fru on).run s = (set_fru_activation fru on s, .ok .unit) := by
  unfold api_set_fru_activation
  rw [fruActivationControl_law]
  cases on <;> simp [api_eval, Nat.mod_eq_of_lt, *]

theorem set_fru_activation_policy_refines (fru ctrl : Nat) (s : BmcState) (h1 : fru < 256) :
    (api_set_fru_activation_policy fru ctrl).run s =
      ((match ctrl with
        | 0 => set_fru_policy fru true false true false s
        | 1 => set_fru_policy fru true false false false s
        | 2 => set_fru_policy fru false true false true s
        | 3 => set_fru_policy fru false true false false s
        | _ => set_fru_policy fru false false false false s), .ok .unit) := by
  rcases ctrl with _ | _ | _ | _ | n <;>
    simp [api_set_fru_activation_policy, api_eval, bitOf, Nat.mod_eq_of_lt, *]

/-- the four lock wrappers pass ctrl 0..3 in this order -/
theorem policyCtrl_law : policyCtrl = [0, 1, 2, 3] := by decide

theorem fru_lock_named_refines (idx fru : Nat) (s : BmcState) (h1 : idx < 4) (h2 : fru < 256) :
    (api_fru_lock_named idx fru).run s =
      ((match idx with
        | 0 => set_fru_policy fru true false true false s
        | 1 => set_fru_policy fru true false false false s
        | 2 => set_fru_policy fru false true false true s
        | _ => set_fru_policy fru false true false false s), .ok .unit) := by
  unfold api_fru_lock_named
  rw [policyCtrl_law]
  rcases idx with _ | _ | _ | _ | n <;> first | omega | simp [set_fru_activation_policy_refines, *]

theorem get_pm_global_status_refines (s : BmcState) (hw : s.pmGlobal < 16) :
    api_get_pm_global_status.run s = (s, .ok (.pmGlobal s.pmGlobal)) := by
  simp [api_get_pm_global_status, powerChannelStatus, api_eval]
  omega

theorem get_power_channel_status_refines (start : Nat) (s : BmcState) (h1 : start < 256)
    (hw : (get_power_channel start s).status < 128) :
    (api_get_power_channel_status start).run s = (s, .ok (.nat (get_power_channel start s).status)) := by
  simp [api_get_power_channel_status, powerChannelStatus, api_eval, Nat.mod_eq_of_lt, *]

theorem send_channel_power_refines (ch : Nat) (enable : Bool) (lim pri bak : Nat) (s : BmcState)
    (h : (Call.sendChannelPower ch enable lim pri bak).InRange) :
    (api_send_channel_power ch enable lim pri bak).run s =
      (power_channel_control ch (if enable then 5 else 4) lim pri bak s, .ok .unit) := by
  obtain ⟨h1, h2, h3, h4⟩ := h
  cases enable <;> simp [api_send_channel_power, api_eval, Nat.mod_eq_of_lt, *]

theorem send_pm_heartbeat_refines (s : BmcState) : api_send_pm_heartbeat.run s = (pm_heartbeat s, .ok .unit) := by
  simp [api_send_pm_heartbeat, api_eval]

theorem set_signaling_class_refines (iface ch cls : Nat) (s : BmcState) (h1 : iface < 4) (h2 : ch < 64) (h3 : cls < 16) :
    (api_set_signaling_class iface ch cls).run s = (set_signaling_class iface ch cls s, .ok .unit) := by
  simp [api_set_signaling_class, api_eval, bitsOf]
  congr 1 <;> omega

theorem get_signaling_class_refines (iface ch : Nat) (s : BmcState) (h1 : iface < 4) (h2 : ch < 64)
    (hw : get_signaling_class iface ch s < 16) :
    (api_get_signaling_class iface ch).run s = (s, .ok (.nat (get_signaling_class iface ch s))) := by
  have e1 : (ch % 64 + 64 * (iface % 4)) % 256 / 64 % 4 = iface := by omega
  have e2 : (ch % 64 + 64 * (iface % 4)) % 256 % 64 = ch := by omega
  simp [api_get_signaling_class, api_eval, bitsOf, e1, e2]
  omega

end PyIpmi.Lemmas.Api
