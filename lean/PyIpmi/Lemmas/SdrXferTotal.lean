/-
  Lemmas/SdrXferTotal.lean — C11: when a read completes.  Against the reference device with no
  transient codes, at most two reservation cancellations still to come (at any request indices)
  and a limit / record length whose number of loop iterations fits the budget of
  get_sdr_data_helper, the read returns the record.
-/
import PyIpmi.Lemmas.SdrXferKinds
namespace PyIpmi.Model.SdrXfer
open PyIpmi PyIpmi.Model.Retry PyIpmi.Spec.Sdr
set_option linter.unusedSimpArgs false
set_option linter.unusedVariables false

/-! ### cancellations still to come -/

/-- number of entries of `l` that are ≥ `n` -/
def countGe (l : List Nat) (n : Nat) : Nat := (l.filter (fun c => n ≤ c)).length

theorem countGe_mono (l : List Nat) {a b : Nat} (h : a ≤ b) : countGe l b ≤ countGe l a := by
  induction l with
  | nil => simp [countGe]
  | cons c l ih =>
    simp only [countGe, List.filter_cons] at ih ⊢
    by_cases h1 : b ≤ c
    · have h2 : a ≤ c := by omega
      simp [h1, h2]; exact ih
    · by_cases h2 : a ≤ c
      · simp [h1, h2]; omega
      · simp [h1, h2]; exact ih

theorem countGe_mem (l : List Nat) {n : Nat} (h : l.contains n = true) : countGe l (n + 1) + 1 ≤ countGe l n := by
  induction l with
  | nil => simp at h
  | cons c l ih =>
    simp only [countGe, List.filter_cons] at ih ⊢
    by_cases hc : c = n
    · subst hc
      have := countGe_mono l (Nat.le_succ c)
      simp only [countGe] at this
      have hn : ¬ c + 1 ≤ c := by omega
      simp [hn]; omega
    · have hm : l.contains n = true := by
        simp at h ⊢
        rcases h with h | h
        · exact absurd h.symm hc
        · exact h
      have := ih hm
      by_cases h1 : n + 1 ≤ c
      · have h2 : n ≤ c := by omega
        simp [h1, h2]; omega
      · have h2 : ¬ n ≤ c := by omega
        simp [h1, h2]; omega

/-- cancellations the device will still apply from state `st` on -/
def pending (cfg : Cfg) (st : State) : Nat := countGe cfg.cancels st.n

theorem pending_mono (cfg : Cfg) {a b : State} (h : a.n ≤ b.n) : pending cfg b ≤ pending cfg a :=
  countGe_mono _ h

/-! ### one device step without transients -/

/-- the state the device is in when it looks at request `r`: logged, counted, reservations
cancelled if a cancellation is scheduled here -/
def bump (cfg : Cfg) (st : State) (r : Req) : State :=
  let st1 : State := { st with n := st.n + 1, log := st.log ++ [r] }
  if cfg.cancels.contains st.n then st1.cancelAll else st1

theorem step_nt {cfg : Cfg} (hnt : cfg.transients = []) (st : State) (r : Req) :
    step cfg st r = match r with
      | .reserve s => ((bump cfg st r).grant s (nextRes ((bump cfg st r).res s)), .reserved (nextRes ((bump cfg st r).res s)))
      | .get s res id off cnt => (bump cfg st r, getRsp cfg (bump cfg st r) s res id off cnt)
      | .badLength => (bump cfg st r, .err ccBadLength)
      | .other _ _ => (bump cfg st r, .err ccInvalidCmd) := by
  unfold step bump
  simp only [hnt, transientAt]
  cases r <;> rfl

theorem bump_n (cfg : Cfg) (st : State) (r : Req) : (bump cfg st r).n = st.n + 1 := by
  unfold bump; simp only []; split <;> simp [State.cancelAll]

theorem bump_res (cfg : Cfg) (st : State) (r : Req) (s : Store) : (bump cfg st r).res s = st.res s := by
  unfold bump; simp only []; split <;> cases s <;> simp [State.cancelAll, State.res]

theorem bump_valid {cfg : Cfg} {st : State} (r : Req) (s : Store) (h : cfg.cancels.contains st.n = false) :
    (bump cfg st r).valid s = st.valid s := by
  unfold bump; simp only [h]; cases s <;> simp [State.valid]

/-- the device holds a valid reservation of store `s` and it is the one the request carries -/
def Fresh (st : State) (s : Store) (res : Nat) : Prop := st.valid s = true ∧ st.res s = res % 65536

theorem nextRes_lt (c : Nat) : nextRes c < 65536 := by unfold nextRes; split <;> omega

theorem reserve_nt {cfg : Cfg} (hnt : cfg.transients = []) (s : Store) (st : State) :
    ∃ st' id, reserve K (step cfg) s st = (st', .ok id) ∧ Fresh st' s id ∧ st'.n = st.n + 1 := by
  unfold reserve
  rw [step_nt hnt]
  refine ⟨_, _, rfl, ⟨?_, ?_⟩, ?_⟩
  · cases s <;> simp [State.grant, State.valid]
  · rw [Nat.mod_eq_of_lt (nextRes_lt _)]
    cases s <;> simp [State.grant, State.res]
  · have := bump_n cfg st (.reserve s)
    cases s <;> simpa [State.grant] using this

/-- what the device answers to an in-range read once the reservation is accepted -/
def answer (cfg : Cfg) (rec : List Nat) (nx off cnt : Nat) : Rsp :=
  if cnt > cfg.limit then .err ccCantReturn else .data nx ((rec.drop off).take cnt)

theorem getRsp_shape {cfg : Cfg} {s : Store} {id : Nat} {rec : List Nat} {nx : Nat}
    (hl : lookup (cfg.recs s) id = some (rec, nx)) (st : State) (res off cnt : Nat)
    (hrange : off + cnt ≤ rec.length) (hcnt : cnt ≠ 0xFF) :
    getRsp cfg st s res id off cnt =
      if ((cfg.strict || off != 0) && !(st.valid s && st.res s == res)) = true then .err ccResCanceled
      else answer cfg rec nx off cnt := by
  unfold getRsp answer effCount
  simp only [hl, if_neg hcnt]
  split
  · rfl
  · rw [if_neg (by omega), if_neg (by omega)]

/-- one Get (Device) SDR to the device: the settled answer, or C5h — and C5h to a request that
carries the valid reservation only where a cancellation is scheduled -/
theorem step_get_nt {cfg : Cfg} (hnt : cfg.transients = []) {s : Store} {id : Nat} {rec : List Nat} {nx : Nat}
    (hl : lookup (cfg.recs s) id = some (rec, nx)) (st : State) (res off cnt : Nat)
    (hrange : off + cnt ≤ rec.length) (hcnt : cnt ≠ 0xFF) :
    ∃ st', st'.n = st.n + 1 ∧
      (step cfg st (.get s res id off cnt) = (st', answer cfg rec nx off cnt) ∨
       (step cfg st (.get s res id off cnt) = (st', .err ccResCanceled) ∧
        (st.valid s = true → st.res s = res → cfg.cancels.contains st.n = true))) := by
  rw [step_nt hnt]
  refine ⟨bump cfg st (.get s res id off cnt), bump_n _ _ _, ?_⟩
  simp only
  rw [getRsp_shape hl _ _ _ _ hrange hcnt]
  split
  · rename_i hc
    refine Or.inr ⟨rfl, ?_⟩
    intro hv hr
    cases hcc : cfg.cancels.contains st.n with
    | true => rfl
    | false =>
      rw [bump_valid _ _ hcc, bump_res, hv, hr] at hc
      simp at hc
  · exact Or.inl rfl

/-! ### the chunk helper settles -/

/-- what `_get_sdr_chunk` returns once the device has accepted the reservation -/
def settled (cfg : Cfg) (rec : List Nat) (nx off cnt : Nat) : Outcome (Nat × List Nat) :=
  if cnt > cfg.limit then .ccError ccCantReturn else .ok (nx, (rec.drop off).take cnt)

section chunk
variable {cfg : Cfg} (hnt : cfg.transients = []) {s : Store} {id : Nat} {rec : List Nat} {nx : Nat}
  (hl : lookup (cfg.recs s) id = some (rec, nx)) (hid : id < 65536) (off cnt : Nat) (hoff : off < 256)
  (hcnt : cnt < 255) (hrange : off + cnt ≤ rec.length)
include hnt hl hid hoff hcnt hrange

/-- one `send_fn(req)` of the chunk helper against the device: the bytes, CAh, or C5h -/
theorem send_cases (st : State) (res : Nat) :
    ∃ st1, st1.n = st.n + 1 ∧
      ((cnt ≤ cfg.limit ∧ sendGet K (step cfg) s id off cnt st res =
          (st1, .ok (K.ccOk, (nx, (rec.drop off).take cnt)))) ∨
       (cnt > cfg.limit ∧ sendGet K (step cfg) s id off cnt st res = (st1, .ok (ccCantReturn, (0, [])))) ∨
       (sendGet K (step cfg) s id off cnt st res = (st1, .ok (ccResCanceled, (0, []))) ∧
         (Fresh st s res → cfg.cancels.contains st.n = true))) := by
  unfold sendGet
  rw [Nat.mod_eq_of_lt hid, Nat.mod_eq_of_lt hoff, Nat.mod_eq_of_lt (by omega : cnt < 256)]
  obtain ⟨st1, hn1, hstep⟩ := step_get_nt hnt hl st (res % 65536) off cnt hrange (by omega)
  refine ⟨st1, hn1, ?_⟩
  rcases hstep with hstep | ⟨hstep, hcan⟩
  · rw [hstep]
    unfold answer
    by_cases hc : cnt > cfg.limit
    · rw [if_pos hc]; exact Or.inr (Or.inl ⟨hc, rfl⟩)
    · rw [if_neg hc]; exact Or.inl ⟨by omega, rfl⟩
  · rw [hstep]
    exact Or.inr (Or.inr ⟨rfl, fun hf => hcan hf.1 hf.2⟩)

/-- With the valid reservation in hand the helper settles as long as its budget exceeds the
cancellations still to come by two. -/
theorem chunk_fresh :
    ∀ b st res, Fresh st s res → pending cfg st + 2 ≤ b →
      ∃ st', chunkLoop K (sendGet K (step cfg) s id off cnt) (reserve K (step cfg) s) b st res =
        (st', settled cfg rec nx off cnt) ∧ st.n ≤ st'.n := by
  intro b
  induction b with
  | zero => intro st res _ h; omega
  | succ r ih =>
    intro st res hf hp
    rw [chunkLoop_succ]
    rw [if_neg (by omega)]
    obtain ⟨st1, hn1, hcase⟩ := send_cases hnt hl hid off cnt hoff hcnt hrange st res
    rcases hcase with ⟨hle, hs⟩ | ⟨hgt, hs⟩ | ⟨hs, hcan⟩
    · rw [hs]
      refine ⟨st1, ?_, by omega⟩
      simp [settled, if_neg (by omega : ¬ cnt > cfg.limit)]
    · rw [hs]
      refine ⟨st1, ?_, by omega⟩
      simp [settled, if_pos hgt, ccCantReturn, K, PyIpmi.Gen.Loops11.consts]
    · rw [hs]
      have hcc := hcan hf
      have hp1 : pending cfg st1 + 1 ≤ pending cfg st := by
        unfold pending; rw [hn1]; exact countGe_mem _ hcc
      obtain ⟨st2, id2, hr, hf2, hn2⟩ := reserve_nt hnt s st1
      have hp2 : pending cfg st2 ≤ pending cfg st1 := pending_mono cfg (by omega)
      obtain ⟨st3, h3, hn3⟩ := ih st2 id2 hf2 (by omega)
      have e1 : ¬ (ccResCanceled = K.ccOk) := by decide
      have e2 : ccResCanceled = K.chunkRenew := rfl
      simp only [if_neg e1, if_pos e2, hr]
      exact ⟨st3, h3, by omega⟩

/-- Whatever reservation id the request starts with (none, stale, valid): the helper settles as
long as its budget exceeds the cancellations still to come by three. -/
theorem chunk_any :
    ∀ b st res, pending cfg st + 3 ≤ b →
      ∃ st', chunkLoop K (sendGet K (step cfg) s id off cnt) (reserve K (step cfg) s) b st res =
        (st', settled cfg rec nx off cnt) ∧ st.n ≤ st'.n := by
  intro b st res hp
  obtain ⟨r, rfl⟩ : ∃ r, b = r + 1 := ⟨b - 1, by omega⟩
  rw [chunkLoop_succ]
  rw [if_neg (by omega)]
  obtain ⟨st1, hn1, hcase⟩ := send_cases hnt hl hid off cnt hoff hcnt hrange st res
  rcases hcase with ⟨hle, hs⟩ | ⟨hgt, hs⟩ | ⟨hs, _⟩
  · rw [hs]
    refine ⟨st1, ?_, by omega⟩
    simp [settled, if_neg (by omega : ¬ cnt > cfg.limit)]
  · rw [hs]
    refine ⟨st1, ?_, by omega⟩
    simp [settled, if_pos hgt, ccCantReturn, K, PyIpmi.Gen.Loops11.consts]
  · rw [hs]
    have hp1 : pending cfg st1 ≤ pending cfg st := pending_mono cfg (by omega)
    obtain ⟨st2, id2, hr, hf2, hn2⟩ := reserve_nt hnt s st1
    have hp2 : pending cfg st2 ≤ pending cfg st1 := pending_mono cfg (by omega)
    obtain ⟨st3, h3, hn3⟩ := chunk_fresh hnt hl hid off cnt hoff hcnt hrange r st2 id2 hf2 (by omega)
    have e1 : ¬ (ccResCanceled = K.ccOk) := by decide
    have e2 : ccResCanceled = K.chunkRenew := rfl
    simp only [if_neg e1, if_pos e2, hr]
    exact ⟨st3, h3, by omega⟩

end chunk

/-- `_get_sdr_chunk` / `_get_device_sdr_chunk` (renewing with the command of the store it reads)
settles with at most two cancellations still to come. -/
theorem getChunk_settles {cfg : Cfg} (hnt : cfg.transients = []) (v : Variant) {s : Store} (hren : v.renew s = s)
    {id : Nat} {rec : List Nat} {nx : Nat} (hl : lookup (cfg.recs s) id = some (rec, nx)) (hid : id < 65536)
    (off cnt : Nat) (hoff : off < 256) (hcnt : cnt < 255) (hrange : off + cnt ≤ rec.length)
    (st : State) (res : Nat) (hp : pending cfg st ≤ 2) :
    ∃ st', getChunk K v (step cfg) s st res id off cnt = (st', settled cfg rec nx off cnt) ∧ st.n ≤ st'.n := by
  unfold getChunk
  rw [hren]
  exact chunk_any hnt hl hid off cnt hoff hcnt hrange K.chunkRetryDefault st res
    (by simp [K, PyIpmi.Gen.Loops11.consts]; omega)

/-! ### the chunk loop of get_sdr_data_helper completes -/

/-- request size the loop settles on for a device limit (a record longer than the limit) -/
def chunkSize (limit : Nat) : Nat :=
  if 20 ≤ limit then 20 else if 16 ≤ limit then 16 else if 12 ≤ limit then 12 else if 8 ≤ limit then 8 else 4

/-- iterations of the loop of get_sdr_data_helper that make a request, for a device with per-read
limit `limit ≥ 5` and a record of `len` bytes: one if the rest of the record fits a single read;
otherwise one refused read per 4-byte step from 20 down to the settled size, then the chunks. -/
def readsNeeded (limit len : Nat) : Nat :=
  if len - 5 ≤ limit ∧ len - 5 ≤ 20 then 1
  else (20 - chunkSize limit) / 4 + (len - 5 + chunkSize limit - 1) / chunkSize limit

section data
variable {cfg : Cfg} (hnt : cfg.transients = []) (v : Variant) (hv : v.fallThrough = false)
  {s : Store} (hren : v.renew s = s) {hid : Nat} {rec : List Nat} {nx0 : Nat}
  (hl : lookup (cfg.recs s) hid = some (rec, nx0)) (hid_lt : hid < 65536) (hrec : rec.length ≤ 260)
include hnt hv hren hl hid_lt hrec

omit hv in
/-- steady phase: the request size is within the limit; `c` more chunks cover the rest -/
theorem dataLoop_steady :
    ∀ r m st res acc next last c,
      acc.length ≤ rec.length → (acc.length = rec.length → 1 ≤ c) →
      (∃ j k, j ≤ 4 ∧ m = 20 - 4 * j ∧ acc.length = 5 + m * k ∧ j + k + r = 20) →
      (m ≤ cfg.limit ∨ rec.length - acc.length ≤ cfg.limit) →
      rec.length - acc.length ≤ m * c → c + 1 ≤ r → pending cfg st ≤ 2 →
      ∃ st' p, dataLoop XK v (getFn K v (step cfg) s hid) rec.length r m st res acc next last
        = (st', .ok p) ∧ st.n ≤ st'.n := by
  intro r
  induction r with
  | zero => intro m st res acc next last c _ _ _ _ _ h; omega
  | succ r ih =>
    intro m st res acc next last c hle hc1 ⟨j, k, hj, hm, hoff, hbud⟩ hlim hcov hcr hp
    rw [dataLoop_succ]
    have hr0 : r ≠ 0 := by
      intro h; subst h
      have : c = 0 := by omega
      subst this
      have : acc.length = rec.length := by omega
      have := hc1 this
      omega
    simp only [if_neg hr0]
    obtain ⟨hoff256, hm20, hm4⟩ := loop_arith hj hm hoff hbud hr0 hle hrec
    generalize hlen : (if acc.length + m > rec.length then rec.length - acc.length else m) = len
    have hlen_le : len ≤ m := by rw [← hlen]; split <;> omega
    have hlen_in : acc.length + len ≤ rec.length := by rw [← hlen]; split <;> omega
    have hlen_lim : ¬ len > cfg.limit := by
      rw [← hlen]; split <;> omega
    obtain ⟨st1, hg, hn1⟩ := getChunk_settles hnt v hren hl hid_lt acc.length len hoff256 (by omega) hlen_in st res hp
    rcases hgf : getFn K v (step cfg) s hid st res acc.length len with ⟨q, res1⟩
    have hq : q = (st1, settled cfg rec nx0 acc.length len) := by
      have := congrArg Prod.fst hgf
      rw [getFn_fst, hg] at this
      exact this.symm
    subst hq
    simp only [settled, if_neg hlen_lim]
    have hbl : ((rec.drop acc.length).take len).length = len := by simp; omega
    have hlab : (acc ++ (rec.drop acc.length).take len).length = acc.length + len := by
      rw [List.length_append, hbl]
    by_cases hfin : (acc ++ (rec.drop acc.length).take len).length ≥ rec.length
    · simp only [if_pos hfin]
      exact ⟨st1, _, rfl, hn1⟩
    · simp only [if_neg hfin]
      have hfin' : acc.length + len < rec.length := by omega
      have hlm : len = m := by
        rw [← hlen]; rw [← hlen] at hfin'; split <;> rename_i hh <;> simp only [hh, if_true, if_false] at hfin' <;> omega
      obtain ⟨c', rfl⟩ : ∃ c', c = c' + 1 := by
        cases c with
        | zero => simp at hcov; omega
        | succ c' => exact ⟨c', rfl⟩
      rw [Nat.mul_succ] at hcov
      obtain ⟨st2, p, h2, hn2⟩ := ih m st1 res1 (acc ++ (rec.drop acc.length).take len) nx0 ((rec.drop acc.length).take len) c'
        (by omega) (by intro h; omega)
        ⟨j, k + 1, hj, hm, by rw [hlab, hoff, hlm, Nat.mul_succ]; omega, by omega⟩
        (by rw [hlab]; omega) (by rw [hlab]; omega) (by omega)
        (Nat.le_trans (pending_mono cfg hn1) hp)
      exact ⟨st2, p, h2, by omega⟩

omit hrec in
/-- shrinking phase: a request longer than the limit is refused and repeated 4 bytes shorter -/
theorem dataLoop_refused (r m : Nat) (st : State) (res : Nat) (acc : List Nat) (next : Nat) (last : List Nat)
    (hr0 : r ≠ 0) (hle : acc.length ≤ rec.length) (hoff : acc.length < 256) (hm20 : m ≤ 20) (hm4 : 4 < m)
    (hbig : cfg.limit < m) (hrest : cfg.limit < rec.length - acc.length) (hp : pending cfg st ≤ 2) :
    ∃ st1 res1, dataLoop XK v (getFn K v (step cfg) s hid) rec.length (r + 1) m st res acc next last
        = dataLoop XK v (getFn K v (step cfg) s hid) rec.length r (m - 4) st1 res1 acc next last
      ∧ st.n ≤ st1.n := by
  rw [dataLoop_succ]
  simp only [if_neg hr0]
  generalize hlen : (if acc.length + m > rec.length then rec.length - acc.length else m) = len
  have hlen_le : len ≤ m := by rw [← hlen]; split <;> omega
  have hlen_in : acc.length + len ≤ rec.length := by rw [← hlen]; split <;> omega
  have hlen_lim : len > cfg.limit := by rw [← hlen]; split <;> omega
  obtain ⟨st1, hg, hn1⟩ := getChunk_settles hnt v hren hl hid_lt acc.length len hoff (by omega) hlen_in st res hp
  rcases hgf : getFn K v (step cfg) s hid st res acc.length len with ⟨q, res1⟩
  have hq : q = (st1, settled cfg rec nx0 acc.length len) := by
    have := congrArg Prod.fst hgf
    rw [getFn_fst, hg] at this
    exact this.symm
  subst hq
  simp only [settled, if_pos hlen_lim]
  refine ⟨st1, res1, ?_, hn1⟩
  have h1 : ccCantReturn = XK.cantReturn := rfl
  have h2 : XK.reqLenDec = 4 := rfl
  simp only [h1, if_true, h2, if_neg (by omega : ¬ m ≤ 4), hv, Bool.false_eq_true, if_false]

/-- from the header on: the loop of get_sdr_data_helper returns when the iterations needed fit -/
theorem dataLoop_completes (h5 : 5 ≤ cfg.limit) (hlen5 : 5 ≤ rec.length)
    (hfit : readsNeeded cfg.limit rec.length ≤ 19) (st : State) (res : Nat) (next : Nat) (last : List Nat)
    (hp : pending cfg st ≤ 2) :
    ∃ st' p, dataLoop XK v (getFn K v (step cfg) s hid) rec.length 20 20 st res
        (rec.take 5) next last = (st', .ok p) ∧ st.n ≤ st'.n := by
  have hacc : (rec.take 5).length = 5 := by simp; omega
  have steady := dataLoop_steady hnt v hren hl hid_lt hrec
  have refused := dataLoop_refused hnt v hv hren hl hid_lt
  unfold readsNeeded at hfit
  by_cases hA : rec.length - 5 ≤ cfg.limit ∧ rec.length - 5 ≤ 20
  · exact steady 20 20 st res (rec.take 5) next last 1 (by omega) (by intro; omega)
      ⟨0, 0, by omega, by omega, by omega, by omega⟩ (Or.inr (by omega)) (by omega) (by omega) hp
  · rw [if_neg hA] at hfit
    unfold chunkSize at hfit
    by_cases h20 : 20 ≤ cfg.limit
    · simp only [if_pos h20] at hfit
      exact steady 20 20 st res (rec.take 5) next last ((rec.length - 5 + 20 - 1) / 20) (by omega) (by intro; omega)
        ⟨0, 0, by omega, by omega, by omega, by omega⟩ (Or.inl (by omega)) (by omega) (by omega) hp
    · simp only [if_neg h20] at hfit
      have hrest : cfg.limit < rec.length - (rec.take 5).length := by omega
      obtain ⟨st1, r1, e1, hn1⟩ := refused 19 20 st res (rec.take 5) next last (by omega) (by omega) (by omega) (by omega)
        (by omega) (by omega) hrest hp
      have hp1 : pending cfg st1 ≤ 2 := Nat.le_trans (pending_mono cfg hn1) hp
      rw [e1]
      by_cases h16 : 16 ≤ cfg.limit
      · simp only [if_pos h16] at hfit
        obtain ⟨st', p, e, hn⟩ := steady 19 16 st1 r1 (rec.take 5) next last ((rec.length - 5 + 16 - 1) / 16) (by omega)
          (by intro; omega) ⟨1, 0, by omega, by omega, by omega, by omega⟩ (Or.inl (by omega)) (by omega) (by omega) hp1
        exact ⟨st', p, e, by omega⟩
      · simp only [if_neg h16] at hfit
        obtain ⟨st2, r2, e2, hn2⟩ := refused 18 16 st1 r1 (rec.take 5) next last (by omega) (by omega) (by omega) (by omega)
          (by omega) (by omega) hrest hp1
        have hp2 : pending cfg st2 ≤ 2 := Nat.le_trans (pending_mono cfg hn2) hp1
        rw [e2]
        by_cases h12 : 12 ≤ cfg.limit
        · simp only [if_pos h12] at hfit
          obtain ⟨st', p, e, hn⟩ := steady 18 12 st2 r2 (rec.take 5) next last ((rec.length - 5 + 12 - 1) / 12) (by omega)
            (by intro; omega) ⟨2, 0, by omega, by omega, by omega, by omega⟩ (Or.inl (by omega)) (by omega) (by omega) hp2
          exact ⟨st', p, e, by omega⟩
        · simp only [if_neg h12] at hfit
          obtain ⟨st3, r3, e3, hn3⟩ := refused 17 12 st2 r2 (rec.take 5) next last (by omega) (by omega) (by omega) (by omega)
            (by omega) (by omega) hrest hp2
          have hp3 : pending cfg st3 ≤ 2 := Nat.le_trans (pending_mono cfg hn3) hp2
          rw [e3]
          by_cases h8 : 8 ≤ cfg.limit
          · simp only [if_pos h8] at hfit
            obtain ⟨st', p, e, hn⟩ := steady 17 8 st3 r3 (rec.take 5) next last ((rec.length - 5 + 8 - 1) / 8) (by omega)
              (by intro; omega) ⟨3, 0, by omega, by omega, by omega, by omega⟩ (Or.inl (by omega)) (by omega) (by omega) hp3
            exact ⟨st', p, e, by omega⟩
          · simp only [if_neg h8] at hfit
            obtain ⟨st4, r4, e4, hn4⟩ := refused 16 8 st3 r3 (rec.take 5) next last (by omega) (by omega) (by omega) (by omega)
              (by omega) (by omega) hrest hp3
            have hp4 : pending cfg st4 ≤ 2 := Nat.le_trans (pending_mono cfg hn4) hp3
            rw [e4]
            obtain ⟨st', p, e, hn⟩ := steady 16 4 st4 r4 (rec.take 5) next last ((rec.length - 5 + 4 - 1) / 4) (by omega)
              (by intro; omega) ⟨4, 0, by omega, by omega, by omega, by omega⟩ (Or.inl (by omega)) (by omega) (by omega) hp4
            exact ⟨st', p, e, by omega⟩

end data

/-! ### get_sdr_data_helper completes -/

theorem getSdrDataWith_completes {cfg : Cfg} (hw : cfg.wf) (hnt : cfg.transients = []) (v : Variant)
    (hv : v.fallThrough = false) {s : Store} (hren : v.renew s = s) {id : Nat} (hid : id < 65536)
    {rec : List Nat} {nx : Nat} (hl : lookup (cfg.recs s) id = some (rec, nx)) (h5 : 5 ≤ cfg.limit)
    (hfit : readsNeeded cfg.limit rec.length ≤ 19) (st : State) (res : Nat) (hp : pending cfg st ≤ 2) :
    ∃ st' res', getSdrDataWith K XK v (step cfg) s st id res = (st', .ok ((nx, rec), res')) ∧ st.n ≤ st'.n := by
  have hwf := recWf_facts (recsWf_mem (wf_recs hw s) (lookup_mem hl))
  have key : ∃ st' p, getSdrDataWith K XK v (step cfg) s st id res = (st', .ok p) ∧ st.n ≤ st'.n := by
    unfold getSdrDataWith
    obtain ⟨st1, hg, hn1⟩ := getChunk_settles hnt v hren hl hid 0 XK.hdrLen (by omega) (by decide)
      (by show 0 + 5 ≤ rec.length; omega) st res hp
    rcases hgf : getFn K v (step cfg) s id st res 0 XK.hdrLen with ⟨q, res1⟩
    have hq : q = (st1, settled cfg rec nx 0 XK.hdrLen) := by
      have := congrArg Prod.fst hgf
      rw [getFn_fst, hg] at this
      exact this.symm
    subst hq
    have h5' : ¬ XK.hdrLen > cfg.limit := by show ¬ 5 > cfg.limit; omega
    simp only [settled, if_neg h5']
    have hd : (rec.drop 0).take XK.hdrLen = rec.take 5 := by simp [XK, PyIpmi.Gen.Loops11.xconsts]
    rw [hd]
    have hl5 : (rec.take 5).length = 5 := by simp; omega
    rw [if_neg (by omega)]
    obtain ⟨hh1, hh2⟩ := hdr_facts rec
    rw [hh1, hh2, hwf.2.2.2]
    obtain ⟨st', p, e, hn⟩ := dataLoop_completes hnt v hv hren (lookup_self hl) hwf.2.2.1 hwf.2.1 h5 hwf.1 hfit
      st1 res1 nx (rec.take 5) (Nat.le_trans (pending_mono cfg hn1) hp)
    exact ⟨st', p, e, by omega⟩
  obtain ⟨st', ⟨⟨nx', d⟩, res'⟩, e, hn⟩ := key
  have := getSdrDataWith_exact hw v hv s st id hid res e
  rw [hl] at this
  injection this with this
  injection this with h1 h2
  subst h1; subst h2
  exact ⟨st', res', e, hn⟩

theorem getSdrDataR_completes {cfg : Cfg} (hw : cfg.wf) (hnt : cfg.transients = []) (v : Variant)
    (hv : v.fallThrough = false) {s : Store} (hren : v.renew s = s) {id : Nat} (hid : id < 65536)
    {rec : List Nat} {nx : Nat} (hl : lookup (cfg.recs s) id = some (rec, nx)) (h5 : 5 ≤ cfg.limit)
    (hfit : readsNeeded cfg.limit rec.length ≤ 19) (st : State) (res? : Option Nat) (hp : pending cfg st ≤ 2) :
    ∃ st' res', getSdrDataR K XK v (step cfg) s st id res? = (st', .ok ((nx, rec), res')) ∧ st.n ≤ st'.n := by
  unfold getSdrDataR
  cases res? with
  | some r => exact getSdrDataWith_completes hw hnt v hv hren hid hl h5 hfit st r hp
  | none =>
    simp only
    obtain ⟨st0, id0, hr, _, hn0⟩ := reserve_nt hnt s st
    rw [hr]
    obtain ⟨st', res', e, hn⟩ := getSdrDataWith_completes hw hnt v hv hren hid hl h5 hfit st0 id0
      (Nat.le_trans (pending_mono cfg (by omega)) hp)
    exact ⟨st', res', e, by omega⟩

theorem getSdrData_completes {cfg : Cfg} (hw : cfg.wf) (hnt : cfg.transients = []) (v : Variant)
    (hv : v.fallThrough = false) {s : Store} (hren : v.renew s = s) {id : Nat} (hid : id < 65536)
    {rec : List Nat} {nx : Nat} (hl : lookup (cfg.recs s) id = some (rec, nx)) (h5 : 5 ≤ cfg.limit)
    (hfit : readsNeeded cfg.limit rec.length ≤ 19) (st : State) (res? : Option Nat) (hp : pending cfg st ≤ 2) :
    ∃ st', getSdrData K XK v (step cfg) s st id res? = (st', .ok (nx, rec)) ∧ st.n ≤ st'.n := by
  obtain ⟨st', res', e, hn⟩ := getSdrDataR_completes hw hnt v hv hren hid hl h5 hfit st res? hp
  exact ⟨st', getSdrData_of_R e, hn⟩

/-- the bound in numbers: which record lengths complete for which limits -/
theorem readsNeeded_thresholds (limit len : Nat) (h5 : 5 ≤ limit) (hlen : len ≤ 260)
    (h : 16 ≤ limit ∨ (12 ≤ limit ∧ len ≤ 209) ∨ (8 ≤ limit ∧ len ≤ 133) ∨ len ≤ 65) :
    readsNeeded limit len ≤ 19 := by
  unfold readsNeeded chunkSize
  split
  · omega
  · split
    · omega
    · split
      · omega
      · split
        · omega
        · split <;> omega

end PyIpmi.Model.SdrXfer
