/-
  Lemmas/RetryNoAnswer.lean — the helpers of Model/Retry.lean in the environment whose callables can
  also give NO ANSWER (`EnvX`: the callable raises IpmiTimeoutError): the request bounds hold for every
  script over the extended alphabet, every reserve plan and every budget, and an unanswered call ends
  the run with IpmiTimeoutError and is the last call the helper made.
-/
import PyIpmi.Model.RetryNoAnswer
namespace PyIpmi.Model.RetryNA
open PyIpmi PyIpmi.Model.Retry
set_option linter.unusedSimpArgs false
set_option linter.unusedVariables false

def EvX.isChunk : EvX → Bool
  | .chunk _ _ => true
  | _ => false

def EvX.isClear : EvX → Bool
  | .clear _ _ _ => true
  | _ => false

def EvX.isXfer : EvX → Bool
  | .xfer _ => true
  | _ => false

/-- the call got no answer: the callable raised IpmiTimeoutError -/
def EvX.isNA : EvX → Bool
  | .chunk _ .noAnswer => true
  | .clear _ _ .noAnswer => true
  | .xfer .noAnswer => true
  | .reserveFailed .noAnswer => true
  | _ => false

def ExtendsX (e p : EnvX) (ext : List EvX) : Prop := p.trace = e.trace ++ ext

/-- an unanswered call is what the run ends with (IpmiTimeoutError), and it is the last call -/
def NALast {α : Type} (ext : List EvX) (out : Outcome α) : Prop :=
  ∀ ev, ev ∈ ext → ev.isNA = true → out = .timeoutError ∧ ext.getLast? = some ev

theorem naLast_nil {α : Type} (out : Outcome α) : NALast [] out := by
  intro ev h; cases h

theorem naLast_single {α : Type} (ev : EvX) (out : Outcome α) (h : ev.isNA = true → out = .timeoutError) :
    NALast [ev] out := by
  intro ev' hm hna
  simp only [List.mem_singleton] at hm
  subst hm
  exact ⟨h hna, rfl⟩

theorem naLast_cons {α : Type} (ev : EvX) (ext : List EvX) (out : Outcome α) (h : ev.isNA = false)
    (ht : NALast ext out) : NALast (ev :: ext) out := by
  intro ev' hm hna
  simp only [List.mem_cons] at hm
  rcases hm with hm | hm
  · subst hm; rw [h] at hna; cases hna
  · obtain ⟨h1, h2⟩ := ht ev' hm hna
    refine ⟨h1, ?_⟩
    have hne : ext ≠ [] := by intro h; rw [h] at hm; cases hm
    rw [List.getLast?_cons_of_ne_nil hne]; exact h2

theorem naLast_append {α : Type} (a ext : List EvX) (out : Outcome α) (h : ∀ ev, ev ∈ a → ev.isNA = false)
    (ht : NALast ext out) : NALast (a ++ ext) out := by
  induction a with
  | nil => simpa using ht
  | cons x xs ih =>
    rw [List.cons_append]
    exact naLast_cons x _ out (h x (by simp)) (ih (fun ev hm => h ev (by simp [hm])))

/-- a run that did not end with IpmiTimeoutError saw no unanswered call -/
theorem NALast.none {α : Type} {ext : List EvX} {out : Outcome α} (h : NALast ext out) (ho : out ≠ .timeoutError) :
    ∀ ev, ev ∈ ext → ev.isNA = false := by
  intro ev hm
  cases hna : ev.isNA with
  | false => rfl
  | true => exact absurd (h ev hm hna).1 ho

theorem EnvX.reserve_cases (e : EnvX) :
    (∃ rest, e.reserve = e.grant rest) ∨
    (∃ rest, e.reserve = e.refuse rest .noAnswer .timeoutError) ∨
    (∃ rest a, e.reserve = e.refuse rest (.ans a) (.ccError a.code)) := by
  unfold EnvX.reserve
  cases e.rplan with
  | nil => exact Or.inl ⟨[], rfl⟩
  | cons l rest =>
    cases l with
    | noAnswer => exact Or.inr (Or.inl ⟨rest, rfl⟩)
    | ans a =>
      by_cases h : a.code = 0
      · simp only [h, if_true]; exact Or.inl ⟨rest, rfl⟩
      · simp only [h, if_false]; exact Or.inr (Or.inr ⟨rest, a, rfl⟩)

abbrev chunkX (K : Consts) := chunkLoop K EnvX.chunk EnvX.reserve (ρ := Unit)

/-- get_sdr_chunk_helper over the alphabet with "no answer": at most 2·(b−1) calls, at most b−1 of them
requests, and an unanswered call (request or Reserve) is propagated as IpmiTimeoutError and is the last
call. -/
theorem chunkX_spec (K : Consts) : ∀ b (e : EnvX) res, ∃ ext, ExtendsX e (chunkX K b e res).1 ext ∧
    ext.length ≤ 2 * (b - 1) ∧ ext.countP EvX.isChunk ≤ b - 1 ∧ NALast ext (chunkX K b e res).2 := by
  intro b
  induction b with
  | zero => intro e res; exact ⟨[], by simp [ExtendsX, chunkX, chunkLoop], by simp, by simp, naLast_nil _⟩
  | succ n ih =>
    intro e res
    cases n with
    | zero => exact ⟨[], by simp [ExtendsX, chunkX, chunkLoop], by simp, by simp, naLast_nil _⟩
    | succ r =>
      simp only [chunkX]
      rw [chunkLoop]
      simp only [Nat.succ_ne_zero, ↓reduceIte, EnvX.chunk]
      cases hp : e.peek with
      | noAnswer =>
        simp only [recast]
        exact ⟨[.chunk res .noAnswer], by simp [ExtendsX, EnvX.adv, EnvX.refused], (by simp <;> omega), (by simp [List.countP_cons, EvX.isChunk] <;> omega),
          naLast_single _ _ (fun _ => rfl)⟩
      | ans a =>
        simp only []
        by_cases c1 : a.code = K.ccOk
        · rw [if_pos c1]
          exact ⟨[.chunk res (.ans a)], by simp [ExtendsX, EnvX.adv, EnvX.refused], (by simp <;> omega), (by simp [List.countP_cons, EvX.isChunk] <;> omega),
            naLast_single _ _ (by intro h; simp [EvX.isNA] at h)⟩
        · by_cases c2 : a.code = K.chunkRenew
          · rw [if_neg c1, if_pos c2]
            rcases EnvX.reserve_cases (e.adv (.chunk res (.ans a))) with ⟨rest, hr⟩ | ⟨rest, hr⟩ | ⟨rest, a', hr⟩
            · rw [hr]
              simp only [EnvX.grant]
              obtain ⟨ext, hx, h1, h2, h3⟩ := ih ((e.adv (.chunk res (.ans a))).granted rest)
                ((e.adv (.chunk res (.ans a))).lastRes + 1)
              refine ⟨.chunk res (.ans a) :: .reserve ((e.adv (.chunk res (.ans a))).lastRes + 1) :: ext, ?_,
                by simp; omega, (by simp [List.countP_cons, EvX.isChunk] <;> omega), ?_⟩
              · simp only [ExtendsX, EnvX.adv, EnvX.granted] at hx ⊢; rw [hx]; simp
              · exact naLast_cons _ _ _ (by simp [EvX.isNA]) (naLast_cons _ _ _ (by simp [EvX.isNA]) h3)
            · rw [hr]
              simp only [EnvX.refuse, recast]
              refine ⟨[.chunk res (.ans a), .reserveFailed .noAnswer], by simp [ExtendsX, EnvX.adv, EnvX.refused], (by simp <;> omega),
                (by simp [List.countP_cons, EvX.isChunk] <;> omega), ?_⟩
              exact naLast_cons _ _ _ (by simp [EvX.isNA]) (naLast_single _ _ (fun _ => rfl))
            · rw [hr]
              simp only [EnvX.refuse, recast]
              refine ⟨[.chunk res (.ans a), .reserveFailed (.ans a')], by simp [ExtendsX, EnvX.adv, EnvX.refused], (by simp <;> omega),
                (by simp [List.countP_cons, EvX.isChunk] <;> omega), ?_⟩
              exact naLast_cons _ _ _ (by simp [EvX.isNA]) (naLast_single _ _ (by intro h; simp [EvX.isNA] at h))
          · by_cases c3 : a.code = K.chunkRetry1 ∨ a.code = K.chunkRetry2
            · rw [if_neg c1, if_neg c2, if_pos c3]
              obtain ⟨ext, hx, h1, h2, h3⟩ := ih (e.adv (.chunk res (.ans a))) res
              refine ⟨.chunk res (.ans a) :: ext, ?_, by simp; omega, (by simp [List.countP_cons, EvX.isChunk] <;> omega),
                naLast_cons _ _ _ (by simp [EvX.isNA]) h3⟩
              simp only [ExtendsX, EnvX.adv, EnvX.granted] at hx ⊢; rw [hx]; simp
            · rw [if_neg c1, if_neg c2, if_neg c3]
              exact ⟨[.chunk res (.ans a)], by simp [ExtendsX, EnvX.adv, EnvX.refused], (by simp <;> omega), (by simp [List.countP_cons, EvX.isChunk] <;> omega),
                naLast_single _ _ (by intro h; simp [EvX.isNA] at h)⟩

abbrev sendX (K : Consts) (v : SendVariant) := sendLoop K v EnvX.xfer (ρ := Unit)

/-- Ipmi.send_message over the alphabet with "no answer": at most b transfers, and an unanswered transfer
is propagated as IpmiTimeoutError and is the last one - nothing is repeated behind it. -/
theorem sendX_spec (K : Consts) (v : SendVariant) : ∀ b (e : EnvX), ∃ ext, ExtendsX e (sendX K v b e).1 ext ∧
    ext.length ≤ b ∧ NALast ext (sendX K v b e).2 := by
  intro b
  induction b with
  | zero => intro e; exact ⟨[], by simp [ExtendsX, sendX, sendLoop], by simp, naLast_nil _⟩
  | succ r ih =>
    intro e
    simp only [sendX]
    rw [sendLoop]
    simp only [EnvX.xfer]
    cases hp : e.peek with
    | noAnswer =>
      simp only []
      exact ⟨[.xfer .noAnswer], by simp [ExtendsX, EnvX.adv, EnvX.refused], (by simp <;> omega), naLast_single _ _ (fun _ => rfl)⟩
    | ans a =>
      simp only []
      by_cases c0 : a.code = 0
      · rw [if_pos c0]
        exact ⟨[.xfer (.ans a)], by simp [ExtendsX, EnvX.adv, EnvX.refused], (by simp <;> omega),
          naLast_single _ _ (by intro h; simp [EvX.isNA] at h)⟩
      · rw [if_neg c0]
        simp only []
        by_cases c1 : a.code = K.sendBusy
        · rw [if_pos c1]
          obtain ⟨ext, hx, h1, h3⟩ := ih (e.adv (.xfer (.ans a)))
          refine ⟨.xfer (.ans a) :: ext, ?_, by simp; omega, naLast_cons _ _ _ (by simp [EvX.isNA]) h3⟩
          simp only [ExtendsX, EnvX.adv, EnvX.granted] at hx ⊢; rw [hx]; simp
        · rw [if_neg c1]
          by_cases c2 : v.retryAnyCode = true
          · rw [if_pos c2]
            obtain ⟨ext, hx, h1, h3⟩ := ih (e.adv (.xfer (.ans a)))
            refine ⟨.xfer (.ans a) :: ext, ?_, by simp; omega, naLast_cons _ _ _ (by simp [EvX.isNA]) h3⟩
            simp only [ExtendsX, EnvX.adv, EnvX.granted] at hx ⊢; rw [hx]; simp
          · rw [if_neg c2]
            exact ⟨[.xfer (.ans a)], by simp [ExtendsX, EnvX.adv, EnvX.refused], (by simp <;> omega),
              naLast_single _ _ (by intro h; simp [EvX.isNA] at h)⟩

abbrev clearX (K : Consts) (ctrl : Nat) := clearLoop K (EnvX.clear K) EnvX.reserve ctrl

/-- one phase of _clear_repository over the alphabet with "no answer" -/
theorem clearX_spec (K : Consts) (ctrl : Nat) : ∀ b (e : EnvX) res, ∃ ext, ExtendsX e (clearX K ctrl b e res).1 ext ∧
    ext.length ≤ 2 * (b - 1) ∧ ext.countP EvX.isClear ≤ b - 1 ∧ NALast ext (clearX K ctrl b e res).2 := by
  intro b
  induction b with
  | zero => intro e res; exact ⟨[], by simp [ExtendsX, clearX, clearLoop], by simp, by simp, naLast_nil _⟩
  | succ n ih =>
    intro e res
    cases n with
    | zero => exact ⟨[], by simp [ExtendsX, clearX, clearLoop], by simp, by simp, naLast_nil _⟩
    | succ r =>
      simp only [clearX]
      rw [clearLoop]
      simp only [Nat.succ_ne_zero, ↓reduceIte, EnvX.clear]
      cases hp : e.peek with
      | noAnswer =>
        simp only [recast]
        exact ⟨[.clear ctrl res .noAnswer], by simp [ExtendsX, EnvX.adv, EnvX.refused], (by simp <;> omega), (by simp [List.countP_cons, EvX.isClear] <;> omega),
          naLast_single _ _ (fun _ => rfl)⟩
      | ans a =>
        simp only []
        cases hs : a.status? K with
        | some st =>
          simp only []
          by_cases h1 : st = K.statusInProgress
          · rw [if_pos h1]
            obtain ⟨ext, hx, h2, h3, h4⟩ := ih (e.adv (.clear ctrl res (.ans a))) res
            refine ⟨.clear ctrl res (.ans a) :: ext, ?_, by simp; omega, (by simp [List.countP_cons, EvX.isClear] <;> omega),
              naLast_cons _ _ _ (by simp [EvX.isNA]) h4⟩
            simp only [ExtendsX, EnvX.adv, EnvX.granted] at hx ⊢; rw [hx]; simp
          · rw [if_neg h1]
            exact ⟨[.clear ctrl res (.ans a)], by simp [ExtendsX, EnvX.adv, EnvX.refused], (by simp <;> omega), (by simp [List.countP_cons, EvX.isClear] <;> omega),
              naLast_single _ _ (by intro h; simp [EvX.isNA] at h)⟩
        | none =>
          simp only []
          by_cases h1 : a.code = K.clearRenew
          · rw [if_pos h1]
            rcases EnvX.reserve_cases (e.adv (.clear ctrl res (.ans a))) with ⟨rest, hr⟩ | ⟨rest, hr⟩ | ⟨rest, a', hr⟩
            · rw [hr]
              simp only [EnvX.grant]
              obtain ⟨ext, hx, h2, h3, h4⟩ := ih ((e.adv (.clear ctrl res (.ans a))).granted rest)
                ((e.adv (.clear ctrl res (.ans a))).lastRes + 1)
              refine ⟨.clear ctrl res (.ans a) :: .reserve ((e.adv (.clear ctrl res (.ans a))).lastRes + 1) :: ext, ?_,
                by simp; omega, (by simp [List.countP_cons, EvX.isClear] <;> omega), ?_⟩
              · simp only [ExtendsX, EnvX.adv, EnvX.granted] at hx ⊢; rw [hx]; simp
              · exact naLast_cons _ _ _ (by simp [EvX.isNA]) (naLast_cons _ _ _ (by simp [EvX.isNA]) h4)
            · rw [hr]
              simp only [EnvX.refuse, recast]
              refine ⟨[.clear ctrl res (.ans a), .reserveFailed .noAnswer], by simp [ExtendsX, EnvX.adv, EnvX.refused], (by simp <;> omega),
                (by simp [List.countP_cons, EvX.isClear] <;> omega), ?_⟩
              exact naLast_cons _ _ _ (by simp [EvX.isNA]) (naLast_single _ _ (fun _ => rfl))
            · rw [hr]
              simp only [EnvX.refuse, recast]
              refine ⟨[.clear ctrl res (.ans a), .reserveFailed (.ans a')], by simp [ExtendsX, EnvX.adv, EnvX.refused], (by simp <;> omega),
                (by simp [List.countP_cons, EvX.isClear] <;> omega), ?_⟩
              exact naLast_cons _ _ _ (by simp [EvX.isNA]) (naLast_single _ _ (by intro h; simp [EvX.isNA] at h))
          · rw [if_neg h1]
            by_cases h2 : a.code = K.ccOk
            · rw [if_pos h2]
              exact ⟨[.clear ctrl res (.ans a)], by simp [ExtendsX, EnvX.adv, EnvX.refused], (by simp <;> omega), (by simp [List.countP_cons, EvX.isClear] <;> omega),
                naLast_single _ _ (by intro h; simp [EvX.isNA] at h)⟩
            · rw [if_neg h2]
              exact ⟨[.clear ctrl res (.ans a)], by simp [ExtendsX, EnvX.adv, EnvX.refused], (by simp <;> omega), (by simp [List.countP_cons, EvX.isClear] <;> omega),
                naLast_single _ _ (by intro h; simp [EvX.isNA] at h)⟩

theorem naLast_imp {α β : Type} {ext : List EvX} {o : Outcome α} (o' : Outcome β) (h : NALast ext o)
    (ho : o = .timeoutError → o' = .timeoutError) : NALast ext o' := by
  intro ev hm hna
  exact ⟨ho (h ev hm hna).1, (h ev hm hna).2⟩

/-- the two phases of clear_repository_helper behind its (optional) first Reserve -/
def twoPhasesX (K : Consts) (b : Nat) (e : EnvX) (r0 : Nat) : EnvX × Outcome Unit :=
  clearHelper K (EnvX.clear K) EnvX.reserve b (some r0) e

theorem twoPhasesX_spec (K : Consts) (b : Nat) (e : EnvX) (r0 : Nat) :
    ∃ ext, ExtendsX e (twoPhasesX K b e r0).1 ext ∧ ext.length ≤ 4 * (b - 1) ∧
      ext.countP EvX.isClear ≤ 2 * (b - 1) ∧ NALast ext (twoPhasesX K b e r0).2 := by
  obtain ⟨ext1, hx1, l1, k1, n1⟩ := clearX_spec K K.ctrlInitiate b e r0
  unfold twoPhasesX clearHelper
  simp only []
  simp only [clearX] at *
  rcases h1 : clearLoop K (EnvX.clear K) EnvX.reserve K.ctrlInitiate b e r0 with ⟨st1, o1⟩
  rw [h1] at hx1 n1
  cases o1 with
  | ok r1 =>
    simp only []
    have hno : ∀ ev, ev ∈ ext1 → ev.isNA = false := n1.none (by intro h; cases h)
    obtain ⟨ext2, hx2, l2, k2, n2⟩ := clearX_spec K K.ctrlStatus b st1 r1
    simp only [clearX] at hx2 n2
    rcases h2 : clearLoop K (EnvX.clear K) EnvX.reserve K.ctrlStatus b st1 r1 with ⟨st2, o2⟩
    rw [h2] at hx2 n2
    have hext : ExtendsX e st2 (ext1 ++ ext2) := by
      simp only [ExtendsX] at hx1 hx2 ⊢; rw [hx2, hx1]; simp
    have hna : ∀ (out : Outcome Unit), (o2 = .timeoutError → out = .timeoutError) → NALast (ext1 ++ ext2) out :=
      fun out ho => naLast_append _ _ _ hno (naLast_imp out n2 ho)
    cases o2 with
    | ok r2 => exact ⟨_, hext, by simp; omega, by simp [List.countP_append]; omega, hna _ (by intro h; cases h)⟩
    | timeoutError => exact ⟨_, hext, by simp; omega, by simp [List.countP_append]; omega, hna _ (fun _ => rfl)⟩
    | _ => exact ⟨_, hext, by simp; omega, by simp [List.countP_append]; omega, hna _ (by intro h; cases h)⟩
  | timeoutError => exact ⟨ext1, hx1, by omega, by omega, naLast_imp _ n1 (fun _ => rfl)⟩
  | _ => exact ⟨ext1, hx1, by omega, by omega, naLast_imp _ n1 (by intro h; cases h)⟩

/-- get_sdr_chunk_helper on a script over the alphabet with "no answer", reserve outcomes planned too -/
theorem runChunkX_spec (K : Consts) (b res : Nat) (s : ScriptX) (rp : List LetterX) :
    (runChunkX K b res s rp).1.trace.length ≤ 2 * (b - 1) ∧
    (runChunkX K b res s rp).1.trace.countP EvX.isChunk ≤ b - 1 ∧
    NALast (runChunkX K b res s rp).1.trace (runChunkX K b res s rp).2 := by
  obtain ⟨ext, hx, h⟩ := chunkX_spec K b ⟨s, rp, res, []⟩ res
  have : (runChunkX K b res s rp).1.trace = ext := by simpa [ExtendsX, runChunkX, chunkX] using hx
  simp only [chunkX] at h
  rw [this]; exact h

/-- Ipmi.send_message on a script over the alphabet with "no answer" -/
theorem runSendX_spec (K : Consts) (v : SendVariant) (b : Nat) (s : ScriptX) :
    (runSendX K v b s).1.trace.length ≤ b ∧ NALast (runSendX K v b s).1.trace (runSendX K v b s).2 := by
  obtain ⟨ext, hx, h⟩ := sendX_spec K v b ⟨s, [], 0, []⟩
  have : (runSendX K v b s).1.trace = ext := by simpa [ExtendsX, runSendX, sendX] using hx
  simp only [sendX] at h
  rw [this]; exact h

/-- clear_repository_helper on a script over the alphabet with "no answer": at most 4·(b−1)+1 calls, at most
2·(b−1) of them clear requests, and an unanswered call - the helper's own first Reserve, a clear request or
a renewal in either phase - is propagated as IpmiTimeoutError and is the last call. -/
theorem runClearX_spec (K : Consts) (b : Nat) (rv : Option Nat) (s : ScriptX) (rp : List LetterX) :
    (runClearX K b rv s rp).1.trace.length ≤ 4 * (b - 1) + 1 ∧
    (runClearX K b rv s rp).1.trace.countP EvX.isClear ≤ 2 * (b - 1) ∧
    NALast (runClearX K b rv s rp).1.trace (runClearX K b rv s rp).2 := by
  have hnone : ∀ e0 : EnvX, clearHelper K (EnvX.clear K) EnvX.reserve b none e0 =
      match e0.reserve with
      | (st0, .ok r0) => twoPhasesX K b st0 r0
      | (st0, e) => (st0, recast e) := by
    intro e0
    unfold twoPhasesX clearHelper
    simp only []
    rcases e0.reserve with ⟨st0, o⟩
    cases o <;> rfl
  cases rv with
  | some r =>
    simp only [runClearX, Option.getD_some]
    obtain ⟨ext, hx, h1, h2, h3⟩ := twoPhasesX_spec K b ⟨s, rp, r, []⟩ r
    have : (twoPhasesX K b ⟨s, rp, r, []⟩ r).1.trace = ext := by simpa [ExtendsX] using hx
    simp only [twoPhasesX] at this h3
    rw [this]
    exact ⟨by omega, h2, h3⟩
  | none =>
    simp only [runClearX, Option.getD_none, hnone]
    rcases EnvX.reserve_cases ⟨s, rp, 0, []⟩ with ⟨rest, hr⟩ | ⟨rest, hr⟩ | ⟨rest, a, hr⟩
    · rw [hr]
      simp only [EnvX.grant]
      obtain ⟨ext, hx, h1, h2, h3⟩ := twoPhasesX_spec K b ((⟨s, rp, 0, []⟩ : EnvX).granted rest) 1
      have e1 : (twoPhasesX K b ((⟨s, rp, 0, []⟩ : EnvX).granted rest) 1).1.trace = .reserve 1 :: ext := by
        simpa [ExtendsX, EnvX.granted] using hx
      rw [e1]
      exact ⟨by simp; omega, (by simp [List.countP_cons, EvX.isClear] <;> omega),
        naLast_cons _ _ _ (by simp [EvX.isNA]) h3⟩
    · rw [hr]
      simp only [EnvX.refuse, EnvX.refused, recast]
      exact ⟨by simp, (by simp [List.countP_cons, EvX.isClear]), naLast_single _ _ (fun _ => rfl)⟩
    · rw [hr]
      simp only [EnvX.refuse, EnvX.refused, recast]
      exact ⟨by simp, (by simp [List.countP_cons, EvX.isClear]), naLast_single _ _ (by intro h; simp [EvX.isNA] at h)⟩

end PyIpmi.Model.RetryNA
