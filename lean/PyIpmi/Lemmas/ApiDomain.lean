/- Soundness of the executable domain checks of Model/Api/Domain.lean: whatever the driver reports as
   "inside the theorems' domain" satisfies the hypotheses `Wf` / `InRange` of the C07 theorems. -/
import PyIpmi.Lemmas.ApiBase
import PyIpmi.Model.Api.Domain
namespace PyIpmi.Lemmas.Api
open PyIpmi PyIpmi.Spec.Bmc

theorem bytesB_sound {l : List Nat} (h : bytesB l = true) : Bytes l := by
  intro b hb; simpa using List.all_eq_true.mp h b hb

theorem allB_sound {α} {m : Map α} {p : Nat → α → Bool} {P : Nat → α → Prop} (h : allB m p = true)
    (hp : ∀ k v, p k v = true → P k v) : m.All P := by
  intro e he; exact hp _ _ (List.all_eq_true.mp h e he)

theorem ledFnWfB_sound {c : Bool} {f : LedFn} (h : ledFnWfB c f = true) : f.Wf c := by
  cases f with
  | off => trivial
  | on => trivial
  | blink o n =>
    simp [ledFnWfB] at h
    refine ⟨h.1.1, h.1.2, fun hc => ?_⟩
    rcases h.2 with h2 | h2
    · simp [hc] at h2
    · exact h2

theorem portWfB_sound {p : Port} (h : portWfB p = true) : p.Wf := by
  simp [portWfB] at h; exact ⟨h.1.1, h.1.2, h.2⟩

theorem lanWfB_sound {k : Nat} {d : List Nat} (h : lanWfB k d = true) : lanWf k d := by
  simp only [lanWfB, Bool.and_eq_true, Bool.or_eq_true, bne_iff_ne, decide_eq_true_eq] at h
  refine ⟨bytesB_sound h.1.1, fun hk => ?_, fun hk => ?_⟩
  · rcases h.1.2 with h2 | h2
    · exact absurd hk h2
    · exact h2
  · rcases h.2 with h2 | h2
    · exact absurd hk h2
    · exact h2

theorem getD_lt_of_bytes {l : List Nat} (h : Bytes l) (i : Nat) : l.getD i 0 < 256 := by
  rw [List.getD_eq_getElem?_getD]
  cases hi : l[i]? with
  | none => simp
  | some v => simpa using h v (List.mem_of_getElem? hi)

theorem descrWfB_sound {d : List Nat} (h : descrWfB d = true) : DescrWf d := by
  simp only [descrWfB, Bool.and_eq_true, decide_eq_true_eq] at h
  refine ⟨h.1, fun c hc => ?_⟩
  have := List.all_eq_true.mp h.2 c hc
  simpa using this

theorem powerReadingWfB_sound {p : PowerReading} (h : powerReadingWfB p = true) : p.Wf := by
  simp [powerReadingWfB] at h
  obtain ⟨⟨⟨⟨⟨a, b⟩, c⟩, d⟩, e⟩, f⟩ := h
  exact ⟨a, b, c, d, e, f⟩

theorem wfB_sound {s : BmcState} (h : wfB s = true) : s.Wf := by
  simp only [wfB, Bool.and_eq_true, decide_eq_true_eq] at h
  obtain ⟨⟨⟨⟨⟨⟨⟨⟨⟨⟨⟨⟨⟨⟨⟨⟨⟨⟨⟨⟨⟨⟨⟨⟨⟨⟨⟨⟨⟨⟨⟨⟨⟨⟨⟨⟨⟨⟨⟨⟨⟨d1, d2⟩, d3⟩, d4⟩, d5⟩, d6⟩, d7⟩, d8⟩, d9⟩, g⟩, w1⟩, w2⟩, w3⟩, w4⟩, w5⟩, c1⟩, c2⟩, bf⟩,
    lan⟩, lr⟩, un⟩, ue⟩, mu⟩, fn⟩, se⟩, ea⟩, el⟩, le⟩, po⟩, pw⟩, sc⟩, pc⟩, pg⟩, hc⟩, hs⟩, hr⟩, he⟩, hd⟩, dM⟩, dm⟩, dp⟩, ds⟩ := h
  refine
    { device := ⟨d1, d2, d3, d4, d5, d6, d7, d8, ?_⟩, guid := g, watchdog := ⟨w1, w2, w3, w4, w5⟩, chassis := ⟨c1, c2⟩,
      bootFlags := allB_sound bf ?_, lan := allB_sound lan fun _ _ => lanWfB_sound,
      lanRev := allB_sound lr (by intro _ _ hh; simpa using hh),
      userNames := allB_sound un (by intro _ _ hh; simpa using hh),
      userEnabled := allB_sound ue (by intro _ _ hh; simpa using hh), maxUsers := mu, fixedNames := fn,
      sensors := allB_sound se ?_, evAddr := ea, evLun := el,
      leds := allB_sound le ?_, ports := allB_sound po fun _ _ => portWfB_sound,
      power := allB_sound pw (by intro _ _ hh; simpa using hh), sigClass := allB_sound sc (by intro _ _ hh; simpa using hh),
      powerChannels := allB_sound pc (by intro _ _ hh; simpa using hh), pmGlobal := pg, hpmComponents := hc,
      hpmSelftest2 := hs, hpmRollback := hr, hpmRollbackEstimate := ?_,
      hpmDescr := allB_sound hd fun _ _ => descrWfB_sound,
      dcmiMajor := dM, dcmiMinor := dm, dcmiPower := allB_sound dp fun _ _ => powerReadingWfB_sound,
      dcmiSensors := allB_sound ds (by intro _ l hh v hv; simpa using List.all_eq_true.mp hh v hv) }
  · intro a ha; rw [ha] at d9; simpa using d9
  · intro k v hh hk
    simp only [Bool.or_eq_true, bne_iff_ne, decide_eq_true_eq] at hh
    rcases hh with h2 | h2
    · exact absurd hk h2
    · exact h2
  · intro _ x hh
    simp only [Bool.and_eq_true] at hh
    refine ⟨fun a ha => ?_, fun b hb => ?_, getD_lt_of_bytes (bytesB_sound hh.2)⟩
    · have := hh.1.1; rw [ha] at this; simpa [optAll] using this
    · have := hh.1.2; rw [hb] at this; simpa [optAll] using this
  · intro _ x hh
    simp only [Bool.and_eq_true] at hh
    exact ⟨ledFnWfB_sound hh.1, ledFnWfB_sound hh.2⟩
  · intro e hh; rw [hh] at he; simpa [optAll] using he

theorem ledCmdInRangeB_sound {c : LedCmd} (h : ledCmdInRangeB c = true) : c.InRange := by
  cases c with
  | restoreLocal => simp [ledCmdInRangeB] at h
  | lampTest d color => simpa [ledCmdInRangeB, LedCmd.InRange] using h
  | override fn color =>
    cases fn <;> simp [ledCmdInRangeB, LedCmd.InRange] at h ⊢ <;> first | exact h | (obtain ⟨⟨⟨a, b⟩, c⟩, d⟩ := h; exact ⟨a, b, c, d⟩)

theorem inRangeB_sound {c : Call} (h : inRangeB c = true) : c.InRange := by
  cases c <;> simp only [inRangeB, Call.InRange, Bool.and_eq_true, decide_eq_true_eq] at h ⊢ <;>
    first
      | trivial
      | exact h
      | skip
  case setWatchdog c => obtain ⟨⟨⟨⟨⟨a, b⟩, c⟩, d⟩, e⟩, f⟩ := h; exact ⟨a, b, c, d, e, f⟩
  case getBootParam => exact ⟨h.1.1, h.1.2, h.2⟩
  case setBootParam sel data inv =>
    refine ⟨h.1.1, bytesB_sound h.1.2, fun hs => ?_⟩
    have := h.2
    simp only [Bool.or_eq_true, bne_iff_ne, decide_eq_true_eq] at this
    rcases this with h2 | h2
    · exact absurd hs h2
    · exact h2
  case getLanParam => exact ⟨h.1.1.1, h.1.1.2, h.1.2, h.2⟩
  case setLanParam => exact ⟨h.1.1, h.1.2, lanWfB_sound h.2⟩
  case setIp => exact ⟨h.1, bytesB_sound h.2⟩
  case setIpSource => exact ⟨h.1, by simpa using h.2⟩
  case setUserAccess a => exact ⟨h.1.1.1, h.1.1.2, by simpa [privCodes] using h.1.2, h.2⟩
  case setSensorThresholds num lun vals =>
    refine ⟨h.1, fun i v hv => ?_⟩
    rw [List.getD_eq_getElem?_getD] at hv
    cases hi : vals[i]? with
    | none => simp [hi] at hv
    | some o =>
      simp [hi] at hv
      have := List.all_eq_true.mp h.2 o (List.mem_of_getElem? hi)
      rw [hv] at this; simpa [optAll] using this
  case sendPlatformEvent e => obtain ⟨⟨⟨⟨⟨a, b⟩, c⟩, d⟩, e⟩, f⟩ := h; exact ⟨a, b, c, d, e, f⟩
  case setLedState => exact ⟨h.1.1, h.1.2, ledCmdInRangeB_sound h.2⟩
  case setPortState => exact ⟨h.1.1.1.1.1, h.1.1.1.1.2, h.1.1.1.2, portWfB_sound h.1.1.2, h.1.2, h.2⟩
  case setPortStateType8 => exact ⟨h.1.1.1.1.1, h.1.1.1.1.2, h.1.1.1.2, portWfB_sound h.1.1.2, h.1.2, h.2⟩
  case sendChannelPower => exact ⟨h.1.1.1, h.1.1.2, h.1.2, h.2⟩
  case setSignalingClass => exact ⟨h.1.1, h.1.2, h.2⟩

end PyIpmi.Lemmas.Api
