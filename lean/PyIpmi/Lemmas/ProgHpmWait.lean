/-
  C08 lemmas for the two forms of hpm.wait_for_long_duration_command (Model/ProgHpm.lean).
-/
import PyIpmi.Model.ProgHpm
import PyIpmi.Spec.HpmLong
import PyIpmi.Lemmas.ProgMultiHandlers
namespace PyIpmi.Prog
open PyIpmi.Spec.FaultDevice PyIpmi.Spec.HpmLong

theorem waitLongV_checked (strict : Bool) (status : Req) (busy failed : Rsp → Bool) (n : Nat) :
    Checked (waitLongV strict status busy failed n) := by
  induction n with
  | zero =>
    rw [waitLongV]
    split
    · exact .fail _
    · exact .done _
  | succ n ih =>
    rw [waitLongV]
    refine .bind _ _ (.sendChecked _) (fun rsp => ?_)
    split
    · exact ih
    · split
      · exact .fail _
      · exact .done _

/-- as shipped it is the loop of Model/Prog.lean -/
theorem waitLongV_false (status : Req) (busy failed : Rsp → Bool) (n : Nat) :
    waitLongV false status busy failed n = waitLong status busy n := by
  induction n with
  | zero => simp [waitLongV, waitLong]
  | succ n ih => simp [waitLongV, waitLong, ih]

section
variable (base : Req → Rsp)

/-- on the fault-free device the wait ends well or with HpmError -/
theorem waitLongV_pure (strict : Bool) (status : Req) (busy failed : Rsp → Bool)
    (hok : (base status).cc = 0) (n m : Nat) :
    outcome (waitLongV strict status busy failed n) (pureDev base) m = .ok () ∨
    outcome (waitLongV strict status busy failed n) (pureDev base) m = .error .hpmError := by
  induction n generalizing m with
  | zero =>
    rw [waitLongV]
    cases strict
    · exact Or.inl rfl
    · exact Or.inr rfl
  | succ n ih =>
    rw [waitLongV, outcome_bind_ok (outcome_sendChecked_pure base m status hok)]
    split
    · exact ih _
    · split
      · exact Or.inr rfl
      · exact Or.inl rfl

/-- the status reports success at the first poll -/
theorem waitLongV_pure_ok (strict : Bool) (status : Req) (busy failed : Rsp → Bool)
    (hok : (base status).cc = 0) (hb : busy (base status) = false) (hf : failed (base status) = false)
    (n m : Nat) :
    outcome (waitLongV strict status busy failed (n + 1)) (pureDev base) m = .ok () := by
  rw [waitLongV, outcome_bind_ok (outcome_sendChecked_pure base m status hok)]
  simp [hb, hf, outcome_done]

/-- INTENDED: when the BMC's status says "still in progress" or "failed", the wait never ends
well - under any set of further faults. -/
theorem waitLongV_strict_never_ok (status : Req) (busy failed : Rsp → Bool)
    (hend : longEnd busy failed (base status) ≠ .succeeded)
    (φ : Nat → Option Nat) (hφ : NonZero φ) (n m : Nat) :
    outcome (waitLongV true status busy failed n) (faultsDev base φ) m ≠ .ok () := by
  induction n generalizing m with
  | zero => rw [waitLongV]; intro h; cases h
  | succ n ih =>
    rw [waitLongV]
    cases hm : φ m with
    | some c =>
      rw [outcome_bind_error (outcome_sendChecked_fault base φ m c status hm (hφ m c hm))]
      intro h; cases h
    | none =>
      by_cases h0 : (base status).cc = 0
      · rw [outcome_bind_ok (outcome_sendChecked_none base φ m status hm h0)]
        by_cases hb : busy (base status) = true
        · rw [if_pos hb]; exact ih _
        · rw [if_neg hb]
          have hf : failed (base status) = true := by
            cases hfv : failed (base status) with
            | true => rfl
            | false =>
              exfalso; apply hend
              simp [longEnd, h0, hb, hfv]
          simp only [hf, Bool.and_self, if_true]
          intro h; cases h
      · have : outcome (sendChecked status) (faultsDev base φ) m = .error (.ccError (base status).cc) := by
          unfold sendChecked
          rw [outcome_send, faultsDev_snd_none _ _ _ _ hm, if_neg h0]; rfl
        rw [outcome_bind_error this]
        intro h; cases h

/-- INTENDED, one fault: the outcome is exactly HpmError. -/
theorem waitLongV_strict_pure_hpm (status : Req) (busy failed : Rsp → Bool)
    (hok : (base status).cc = 0) (hend : longEnd busy failed (base status) ≠ .succeeded) (n m : Nat) :
    outcome (waitLongV true status busy failed n) (pureDev base) m = .error .hpmError := by
  rcases waitLongV_pure base true status busy failed hok n m with h | h
  · have := waitLongV_strict_never_ok base status busy failed hend (fun _ => none) (fun _ _ h => by cases h) n m
    have hd : faultsDev base (fun _ => none) = pureDev base := by
      funext k r; simp [faultsDev, pureDev]
    rw [hd] at this
    exact absurd h this
  · exact h

/-- AS SHIPPED: whatever the status says, the wait ends well. -/
theorem waitLongV_shipped_pure_ok (status : Req) (busy failed : Rsp → Bool)
    (hok : (base status).cc = 0) (n m : Nat) :
    outcome (waitLongV false status busy failed n) (pureDev base) m = .ok () := by
  rw [waitLongV_false]
  exact waitLong_pure_ok base status busy hok n m

/-! ### `*_and_wait` and `upload_binary` over a wait that may end with HpmError -/

theorem andWait_fs' (P : Nat → Prop) (inProg : Nat) (r : Req) (wait : Prog Unit)
    (hok : (base r).cc = 0)
    (hwait : ∀ n, outcome wait (pureDev base) n = .ok () ∨ outcome wait (pureDev base) n = .error .hpmError) :
    FaultSafeOn P base (andWait inProg ((sendChecked r).bind fun _ => .done ()) wait) := by
  intro n k c hc _
  rw [outcome_andWait, outcome_andWait, pureDev_snd, if_pos hok]
  by_cases hk : n = k
  · subst hk
    rw [faultDev_snd_eq, faultDev_fst]
    show Safe c _ (if c = 0 then _ else if c = inProg then _ else _)
    rw [if_neg hc]
    by_cases h1 : c = inProg
    · rw [if_pos h1, outcome_fault_past base wait (n + 1) n c (by omega)]
      rcases hwait (n + 1) with h | h
      · rw [h]; exact Or.inr (Or.inr (Or.inr rfl))
      · rw [h]; exact Or.inr (Or.inr (Or.inl rfl))
    · rw [if_neg h1]; exact Or.inr (Or.inr (Or.inl rfl))
  · rw [faultDev_snd_ne _ _ _ _ _ hk, if_pos hok]
    exact safe_same _ _

theorem uploadBinary_fs' (P : Nat → Prop) (inProg : Nat) (wait : Prog Unit)
    (hwait : ∀ n, outcome wait (pureDev base) n = .ok () ∨ outcome wait (pureDev base) n = .error .hpmError)
    (blocks : List Req) (hok : ∀ b ∈ blocks, (base b).cc = 0) :
    FaultSafeOn P base (uploadBinary inProg wait blocks) := by
  induction blocks with
  | nil => rw [uploadBinary]; exact fs_done P base _
  | cons b bs ih =>
    rw [uploadBinary]
    refine fs_bind P base _ _ (andWait_fs' base P inProg b wait (hok b (List.mem_cons_self)) hwait)
      (fun _ _ => ih (fun b' hb' => hok b' (List.mem_cons_of_mem _ hb')))

theorem andWait_ms' (Φ : (Nat → Option Nat) → Prop) (inProg : Nat) (r : Req) (wait : Prog Unit)
    (hok : (base r).cc = 0) (hsafe : MultiSafeOn Φ base wait)
    (hwait : ∀ n, outcome wait (pureDev base) n = .ok () ∨ outcome wait (pureDev base) n = .error .hpmError) :
    MultiSafeOn Φ base (andWait inProg ((sendChecked r).bind fun _ => .done ()) wait) := by
  intro φ hφ hΦ n
  rw [outcome_andWait, outcome_andWait, pureDev_snd, if_pos hok, faultsDev_fst]
  cases hn : φ n with
  | some c =>
    rw [faultsDev_snd_some _ _ _ _ _ hn]
    have hc := hφ n c hn
    show SafeAny _ _ (if c = 0 then _ else if c = inProg then _ else _)
    rw [if_neg hc]
    by_cases h1 : c = inProg
    · rw [if_pos h1]
      have := hsafe φ hφ hΦ (n + 1)
      rcases hwait (n + 1) with h | h
      · rw [h] at this; exact this
      · -- the fault-free wait ends with HpmError: the faulted one with a code, an error, or the same
        rw [h] at this
        rcases this with h2 | h2 | h2 | h2
        · exact Or.inl h2
        · exact Or.inr (Or.inl h2)
        · exact Or.inr (Or.inr (Or.inl h2))
        · rw [h2]; exact safeAny_hpm _ _
    · rw [if_neg h1]; exact safeAny_hpm _ _
  | none =>
    rw [faultsDev_snd_none _ _ _ _ hn, if_pos hok]
    exact safeAny_same _ _

theorem uploadBinary_ms' (Φ : (Nat → Option Nat) → Prop) (inProg : Nat) (wait : Prog Unit)
    (hsafe : MultiSafeOn Φ base wait)
    (hwait : ∀ n, outcome wait (pureDev base) n = .ok () ∨ outcome wait (pureDev base) n = .error .hpmError)
    (blocks : List Req) (hok : ∀ b ∈ blocks, (base b).cc = 0) :
    MultiSafeOn Φ base (uploadBinary inProg wait blocks) := by
  induction blocks with
  | nil => rw [uploadBinary]; exact ms_done Φ base _
  | cons b bs ih =>
    rw [uploadBinary]
    refine ms_bind Φ base _ _ (andWait_ms' base Φ inProg b wait (hok b (List.mem_cons_self)) hsafe hwait)
      (fun _ _ => ih (fun b' hb' => hok b' (List.mem_cons_of_mem _ hb')))

end
end PyIpmi.Prog
