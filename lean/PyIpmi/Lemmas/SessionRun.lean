/-
  Lemmas for C06, third part: the handshake, the requests and the close of the model client
  against a peer that relays the reference BMC — assembled from the single exchanges of
  `Lemmas/SessionBmc.lean`.
-/
import PyIpmi.Lemmas.SessionBmc
namespace PyIpmi.Session
open PyIpmi PyIpmi.RmcpWire PyIpmi.Gen.RmcpFormats PyIpmi.Spec.Lan PyIpmi.Spec.BmcSession PyIpmi.Props.C05

/-! ### decoding the responses -/

theorem decode_authCap (caps : Nat) :
    decodeRsp authCapRspWidths [0, 1, caps, 0, 0, 0, 0, 0, 0] = .ok [[1], [caps], [0], [0], [0, 0, 0], [0]] := by
  simp [decodeRsp, authCapRspWidths, splitWidths, ccOk]

theorem decode_challenge (t : Nat) (ch : List Nat) (h : ch.length = 16) :
    decodeRsp challengeRspWidths (0 :: (leBytes 4 t ++ ch)) = .ok [leBytes 4 t, ch] := by
  have h1 : List.drop 16 ch = [] := List.drop_eq_nil_of_le (by omega)
  have h2 : List.take 16 ch = ch := List.take_of_length_le (by omega)
  simp [decodeRsp, challengeRspWidths, splitWidths, ccOk, leBytes, h, h1, h2]

theorem decode_activate (a sid inSeq priv : Nat) :
    decodeRsp activateRspWidths (0 :: ([a] ++ leBytes 4 sid ++ leBytes 4 inSeq ++ [priv])) =
      .ok [[a], leBytes 4 sid, leBytes 4 inSeq, [priv]] := by
  simp [decodeRsp, activateRspWidths, splitWidths, ccOk, leBytes]

theorem decode_setPriv (x : Nat) : decodeRsp setPrivRspWidths [0, x] = .ok [[x]] := by
  simp [decodeRsp, setPrivRspWidths, splitWidths, ccOk]

theorem decode_close : decodeRsp closeRspWidths [0] = .ok [] := by
  simp [decodeRsp, closeRspWidths, splitWidths, ccOk]

theorem decode_cc (w : List Nat) (cc : Nat) (rest : List Nat) (h : cc ≠ 0) :
    decodeRsp w (cc :: rest) = .ccError cc := by
  simp [decodeRsp, ccOk, h]

/-! ### the handshake, step by step, against a peer that relays the BMC -/

section stages
variable {σ : Type} {md5 : List Nat → List Nat} (hmd5 : ∀ x, (md5 x).length = 16) {b : BmcCfg} {cfg : Cfg}
  (conf : Conforming b cfg) {P : σ → List Nat → σ × Option (List Nat)} {π : σ → BmcState}
  (ht : Tracks md5 b P π)
include hmd5 conf ht

theorem run_authCap (s : σ) (c : Client) (hans : Answers md5 b P π s) (hph : (π s).phase = .pinged)
    (hat : c.attached = false) :
    ∃ d p, parseLan d = some p ∧ p.auth = 0 ∧ p.sid = 0 ∧ p.seq = 0 ∧
      parseIpmiReq p.payload = some (reqOf (hdrOf cfg c 56) [0x0e, cfg.priv % 16]) ∧
      (step md5 b (π s) d).2.isReply = true ∧
      π (P s d).1 = { π s with phase := .capsSent } ∧
      ∀ sent, estabAuthCap md5 P cfg sent s c =
        estabChallenge md5 P cfg (sent ++ [(.authCap, d)]) (P s d).1 { c with rqSeq := (c.rqSeq + 1) % 64 }
          [[1], [b.caps % 64], [0], [0], [0, 0, 0], [0]] := by
  obtain ⟨d, p, h1, h2, h3, h4, h5, h6, h7, h8⟩ := bmc_authCap md5 hmd5 b cfg conf (π s) c hph hat
  obtain ⟨r1, r2⟩ := relay_reply ht s hans d _ _ h7
  refine ⟨d, p, h2, h3, h4, h5, h6, by rw [h7]; rfl, r1, ?_⟩
  intro sent
  have hex := exchange_of_tx md5 P cfg s c _ _ d 6 0 56 _ h1
  rw [r2, h8] at hex
  simp only [estabAuthCap, Gen.RmcpFormats.netfnApp, Gen.RmcpFormats.cmdGetAuthCap, hex, decode_authCap, tagAll, List.map]

theorem run_challenge (s : σ) (c : Client) (a : Nat) (sup : List (List Nat)) (hans : Answers md5 b P π s)
    (hph : (π s).phase = .capsSent) (hat : c.attached = false)
    (hsup : (sup.getD 1 []).getD 0 0 = b.caps % 64)
    (hch : chooseAuth cfg.pref (b.caps % 64) = some a) (ha : a = 0 ∨ a = 4 ∨ a = 2)
    (hoff : offered b.caps a = true) :
    ∃ d p, parseLan d = some p ∧ p.auth = 0 ∧ p.sid = 0 ∧ p.seq = 0 ∧
      parseIpmiReq p.payload = some (reqOf (hdrOf cfg c 57) (a :: pad16 cfg.user)) ∧
      (step md5 b (π s) d).2.isReply = true ∧
      π (P s d).1 = { π s with phase := .challenged a } ∧
      ∀ sent, estabChallenge md5 P cfg sent s c sup =
        estabActivate md5 P cfg (sent ++ [(.challenge, d)]) (P s d).1
          { c with rqSeq := (c.rqSeq + 1) % 64, s := { c.s with auth := a } }
          [leBytes 4 b.tempSid, b.challenge] := by
  obtain ⟨d, p, h1, h2, h3, h4, h5, h6, h7, h8⟩ :=
    bmc_challenge md5 hmd5 b cfg conf (π s) { c with s := { c.s with auth := a } } a ha hoff hph hat
  obtain ⟨r1, r2⟩ := relay_reply ht s hans d _ _ h7
  refine ⟨d, p, h2, h3, h4, h5, h6, by rw [h7]; rfl, r1, ?_⟩
  intro sent
  have hex := exchange_of_tx md5 P cfg s _ _ _ d 6 0 57 _ h1
  rw [r2, h8] at hex
  simp only [estabChallenge, hsup, hch, Option.getD_some, Gen.RmcpFormats.netfnApp, Gen.RmcpFormats.cmdGetChallenge,
    hex, decode_challenge _ _ conf.chalLen, tagAll, List.map]

theorem run_activate (s : σ) (c : Client) (a : Nat) (hans : Answers md5 b P π s)
    (hph : (π s).phase = .challenged a) (ha : a = 0 ∨ a = 4 ∨ a = 2)
    (hca : c.s.auth = a) (hcp : c.s.pw = cfg.pw) (hcq : c.s.seq < 4294967296) :
    ∃ d p, parseLan d = some p ∧ p.auth = a ∧ p.sid = b.tempSid ∧ codeOk md5 cfg.pw p = true ∧
      parseIpmiReq p.payload = some (reqOf (hdrOf cfg c 58) ([a, cfg.priv] ++ b.challenge ++ leBytes 4 cfg.outSeq)) ∧
      (step md5 b (π s) d).2.isReply = true ∧
      π (P s d).1 = { π s with phase := .active a none, outSeq := nextSeq cfg.outSeq } ∧
      ∀ sent, estabActivate md5 P cfg sent s c [leBytes 4 b.tempSid, b.challenge] =
        estabSetPriv md5 P cfg (sent ++ [(.activate, d)]) (P s d).1
          { attached := true, s := ⟨a, b.sid, b.inSeq0, true, cfg.pw⟩, rqSeq := (c.rqSeq + 1) % 64 } := by
  have htmp : leVal (leBytes 4 b.tempSid) = b.tempSid := leVal_leBytes 4 _ conf.tempSid
  obtain ⟨d, p, h1, h2, h3, h4, h5, h6, h7, h8⟩ :=
    bmc_activate md5 hmd5 b cfg conf (π s) ⟨true, ⟨a, b.tempSid, c.s.seq, c.s.activated, cfg.pw⟩, c.rqSeq⟩ a ha hph rfl
      rfl rfl rfl hcq
  obtain ⟨r1, r2⟩ := relay_reply ht s hans d _ _ h7
  refine ⟨d, p, h2, h3, h4, h5, h6, by rw [h7]; rfl, r1, ?_⟩
  intro sent
  have hex := exchange_of_tx md5 P cfg s _ _ _ d 6 0 58 _ h1
  rw [r2, h8] at hex
  simp only at hex
  simp only [estabActivate, List.getD_cons_zero, List.getD_cons_succ, htmp, Gen.RmcpFormats.netfnApp,
    Gen.RmcpFormats.cmdActivate, hca, hcp, hex, decode_activate, tagAll, List.map, leVal_leBytes 4 _ conf.sid,
    leVal_leBytes 4 _ conf.inSeq]

/-- any of the three in-session commands: one exchange -/
theorem run_inSession (s : σ) (c : Client) (a : Nat) (last : Option Nat) (hans : Answers md5 b P π s)
    (ha : a = 0 ∨ a = 4 ∨ a = 2) (live : Live b cfg a last (π s) c) (cmd : Nat) (data rdata : List Nat)
    (ph : Nat → Phase) (hlen : data.length + 7 ≤ 255) (hcmd : cmd ≠ 52)
    (hin : ∀ seq, inSession md5 b (π s) a seq (reqOf (hdrOf cfg c cmd) data) =
      ({ π s with phase := ph seq, outSeq := nextSeq (π s).outSeq },
       .reply (lanPacket md5 a b.pw b.sid (π s).outSeq (ipmiRsp (reqOf (hdrOf cfg c cmd) data) 0 rdata)))) :
    ∃ d p, parseLan d = some p ∧ p.auth = a ∧ p.sid = b.sid ∧ p.seq = nextSeq c.s.seq ∧
      codeOk md5 cfg.pw p = true ∧ parseIpmiReq p.payload = some (reqOf (hdrOf cfg c cmd) data) ∧
      (step md5 b (π s) d).2.isReply = true ∧
      π (P s d).1 = { π s with phase := ph (nextSeq c.s.seq), outSeq := nextSeq (π s).outSeq } ∧
      exchange md5 P cfg s c 6 0 cmd data =
        ((P s d).1, { c with rqSeq := (c.rqSeq + 1) % 64, s := { c.s with seq := nextSeq c.s.seq } }, [d],
         .ok (0 :: rdata)) := by
  obtain ⟨d, p, h1, h2, h3, h4, h5, h6, h7, h8⟩ := bmc_inSession md5 hmd5 b cfg conf (π s) c a last ha live cmd data hlen
  rw [hin] at h8
  obtain ⟨r1, r2⟩ := relay_reply ht s hans d _ _ h8
  refine ⟨d, p, h2, h3, h4, h5, h6, h7, by rw [h8]; rfl, r1, ?_⟩
  have hex := exchange_of_tx md5 P cfg s _ _ _ d 6 0 cmd _ h1
  rw [r2] at hex
  rw [hex, rxStep_reply md5 hmd5 cfg _ _ a b.pw b.sid _ 0 _ ha (by rw [conf.pw]; exact conf.pwLen) conf.sid
    live.outSeq rfl (by simp [hdrOf]) (by simp [hdrOf]) (by simpa [hdrOf, cmdSendMessage] using hcmd)]

omit hmd5 conf ht in
/-- the session stays up over one more exchange -/
theorem live_next (s : σ) (c : Client) (a : Nat) (last : Option Nat) (live : Live b cfg a last (π s) c)
    (s' : σ) (hs' : π s' = { π s with phase := .active a (some (nextSeq c.s.seq)), outSeq := nextSeq (π s).outSeq }) :
    Live b cfg a (some (nextSeq c.s.seq)) (π s')
      { c with rqSeq := (c.rqSeq + 1) % 64, s := { c.s with seq := nextSeq c.s.seq } } := by
  refine ⟨by rw [hs'], by rw [hs']; exact nextSeq_lt _ live.outSeq, live.attached, live.auth, live.sid, live.act,
    live.pw, rfl, nextSeq_lt _ live.seqLt⟩

omit hmd5 conf in
theorem run_ping (s : σ) (hans : Answers md5 b P π s) (hph : (π s).phase = .start) :
    ping P s = ((P s pingD).1, [pingD], .ok ()) ∧ (step md5 b (π s) pingD).2.isReply = true ∧
      π (P s pingD).1 = { π s with phase := .pinged } := by
  have h := bmc_ping md5 b (π s) hph
  obtain ⟨r1, r2⟩ := relay_reply ht s hans pingD _ _ h
  exact ⟨by rw [ping_reply P s _ r2, pong_ok], by rw [h]; rfl, r1⟩

/-- Set Session Privilege Level: the first datagram inside the session -/
theorem run_setPriv (s : σ) (c : Client) (a : Nat) (hans : Answers md5 b P π s)
    (ha : a = 0 ∨ a = 4 ∨ a = 2) (live : Live b cfg a none (π s) c) :
    ∃ d, SessionPacket md5 cfg.pw a b.sid (nextSeq b.inSeq0) d ∧ Carries d 59 [cfg.priv] ∧
      (step md5 b (π s) d).2.isReply = true ∧
      Live b cfg a (some (nextSeq b.inSeq0)) (π (P s d).1)
        { c with rqSeq := (c.rqSeq + 1) % 64, s := { c.s with seq := nextSeq b.inSeq0 } } ∧
      ∀ sent, estabSetPriv md5 P cfg sent s c =
        ⟨(P s d).1, { c with rqSeq := (c.rqSeq + 1) % 64, s := { c.s with seq := nextSeq b.inSeq0 } },
         sent ++ [(.setPriv, d)], .ok []⟩ := by
  have hp16 : cfg.priv % 16 = cfg.priv := Nat.mod_eq_of_lt conf.privLt
  have hseq : c.s.seq = b.inSeq0 := live.seq
  obtain ⟨d, p, h1, h2, h3, h4, h5, h6, h7, h8, h9⟩ := run_inSession hmd5 conf ht s c a none hans ha live 59
    [cfg.priv % 16] [cfg.priv % 16 % 16] (fun q => .active a (some q)) (by simp) (by decide)
    (fun q => inSession_setPriv md5 b (π s) a q _ _ rfl rfl rfl)
  rw [hseq] at h4 h8 h9
  refine ⟨d, ⟨p, h1, h2, h3, h4, h5⟩, ⟨p, _, h1, h6, by simp [reqOf, hdrOf, conf.rsSa], rfl, rfl, by simp [reqOf, hp16]⟩,
    h7, ?_, ?_⟩
  · have := live_next s c a none live (P s d).1 (by rw [hseq]; exact h8)
    rw [hseq] at this; exact this
  · intro sent
    simp only [estabSetPriv, Gen.RmcpFormats.netfnApp, Gen.RmcpFormats.cmdSetPriv, h9, decode_setPriv, tagAll, List.map]

/-- one Get Device ID request inside the session -/
theorem run_request (s : σ) (c : Client) (a l : Nat) (hans : Answers md5 b P π s)
    (ha : a = 0 ∨ a = 4 ∨ a = 2) (live : Live b cfg a (some l) (π s) c) :
    ∃ d, SessionPacket md5 cfg.pw a b.sid (nextSeq l) d ∧ Carries d 1 [] ∧
      (step md5 b (π s) d).2.isReply = true ∧
      Live b cfg a (some (nextSeq l)) (π (P s d).1)
        { c with rqSeq := (c.rqSeq + 1) % 64, s := { c.s with seq := nextSeq l } } ∧
      request md5 P cfg s c 6 0 1 [] =
        ⟨(P s d).1, { c with rqSeq := (c.rqSeq + 1) % 64, s := { c.s with seq := nextSeq l } },
         [(.request, d)], .ok (0 :: deviceIdData)⟩ := by
  have hseq : c.s.seq = l := live.seq
  obtain ⟨d, p, h1, h2, h3, h4, h5, h6, h7, h8, h9⟩ := run_inSession hmd5 conf ht s c a (some l) hans ha live 1
    [] deviceIdData (fun q => .active a (some q)) (by simp) (by decide)
    (fun q => inSession_getDeviceId md5 b (π s) a q _ rfl rfl)
  rw [hseq] at h4 h8 h9
  refine ⟨d, ⟨p, h1, h2, h3, h4, h5⟩, ⟨p, _, h1, h6, by simp [reqOf, hdrOf, conf.rsSa], rfl, rfl, rfl⟩, h7, ?_, ?_⟩
  · have := live_next s c a (some l) live (P s d).1 (by rw [hseq]; exact h8)
    rw [hseq] at this; exact this
  · simp only [request, h9, tagAll, List.map]

/-- Close Session names the granted session id; the BMC closes -/
theorem run_close (s : σ) (c : Client) (a l : Nat) (hans : Answers md5 b P π s)
    (ha : a = 0 ∨ a = 4 ∨ a = 2) (live : Live b cfg a (some l) (π s) c) :
    ∃ d, SessionPacket md5 cfg.pw a b.sid (nextSeq l) d ∧ Carries d 60 (leBytes 4 b.sid) ∧
      (step md5 b (π s) d).2.isReply = true ∧
      π (P s d).1 = { π s with phase := .closed, outSeq := nextSeq (π s).outSeq } ∧
      close md5 P cfg s c =
        ⟨(P s d).1, { c with rqSeq := (c.rqSeq + 1) % 64, s := { c.s with seq := nextSeq l, activated := false } },
         [(.close, d)], .ok []⟩ := by
  have hseq : c.s.seq = l := live.seq
  obtain ⟨d, p, h1, h2, h3, h4, h5, h6, h7, h8, h9⟩ := run_inSession hmd5 conf ht s c a (some l) hans ha live 60
    (leBytes 4 c.s.sid) [] (fun _ => .closed) (by simp) (by decide)
    (fun q => inSession_close md5 b (π s) a q _ rfl rfl (by simp [reqOf, live.sid]))
  rw [hseq] at h4 h9
  refine ⟨d, ⟨p, h1, h2, h3, h4, h5⟩, ⟨p, _, h1, h6, by simp [reqOf, hdrOf, conf.rsSa], rfl, rfl,
    by simp [reqOf, live.sid]⟩, h7, h8, ?_⟩
  simp only [close, live.act, Bool.true_eq_false, if_false, Gen.RmcpFormats.netfnApp, Gen.RmcpFormats.cmdClose, h9,
    decode_close, tagAll, List.map]

/-- `n` requests in a row: every one is accepted, the sequence numbers form a chain -/
theorem run_requestN (a : Nat) (ha : a = 0 ∨ a = 4 ∨ a = 2) (k n : Nat) :
    ∀ (s : σ) (c : Client) (l : Nat), AnswersFor md5 b P π (n + k) s → Live b cfg a (some l) (π s) c →
    ∃ ds, ds.length = n ∧ Chain md5 cfg.pw a b.sid l ds ∧ (∀ d ∈ ds, Carries d 1 []) ∧
      (requestN md5 P cfg n s c).sent = ds.map (fun d => (Kind.request, d)) ∧
      (requestN md5 P cfg n s c).outcome = .ok [] ∧
      Accepts md5 b (π s) ds (π (requestN md5 P cfg n s c).peer) ∧
      AnswersFor md5 b P π k (requestN md5 P cfg n s c).peer ∧
      Live b cfg a (some (seqAfter n l)) (π (requestN md5 P cfg n s c).peer) (requestN md5 P cfg n s c).client := by
  induction n with
  | zero =>
    intro s c l hk live
    refine ⟨[], rfl, trivial, by simp, rfl, rfl, Accepts.nil _ _ _, by simpa [requestN] using hk, live⟩
  | succ n ih =>
    intro s c l hk live
    have hk' : AnswersFor md5 b P π ((n + k) + 1) s := by
      have e : n + 1 + k = n + k + 1 := by omega
      rw [e] at hk; exact hk
    obtain ⟨d, h1, h2, h3, h4, h5⟩ := run_request hmd5 conf ht s c a l hk'.1 ha live
    obtain ⟨ds, i1, i2, i3, i4, i5, i6, i7, i8⟩ := ih (P s d).1 _ (nextSeq l) (hk'.2 d) h4
    have hacc : Accepts md5 b (π s) [d] (π (P s d).1) := by
      rw [tracks_step ht]; exact Accepts.one h3
    refine ⟨d :: ds, by simp [i1], ⟨h1, i2⟩, ?_, ?_, ?_, ?_, ?_, ?_⟩
    · intro x hx
      rcases List.mem_cons.mp hx with e | e
      · subst e; exact h2
      · exact i3 x e
    · simp only [requestN, Gen.RmcpFormats.netfnApp, Gen.RmcpFormats.cmdGetDeviceId, h5, i4, List.map, List.cons_append,
        List.nil_append]
    · simp only [requestN, Gen.RmcpFormats.netfnApp, Gen.RmcpFormats.cmdGetDeviceId, h5, i5]
    · simp only [requestN, Gen.RmcpFormats.netfnApp, Gen.RmcpFormats.cmdGetDeviceId, h5]
      exact Accepts.append hacc i6
    · simp only [requestN, Gen.RmcpFormats.netfnApp, Gen.RmcpFormats.cmdGetDeviceId, h5]
      exact i7
    · simp only [requestN, Gen.RmcpFormats.netfnApp, Gen.RmcpFormats.cmdGetDeviceId, h5]
      exact i8

end stages

end PyIpmi.Session
