/-
  Lemmas for C06, third part: the handshake, the requests and the close of the model client
  against a peer that relays the reference BMC (possibly losing datagrams) — the retry loop of one
  request, then the steps of the life cycle assembled from the single attempts of
  `Lemmas/SessionBmc.lean`.
-/
import PyIpmi.Lemmas.SessionBmc
namespace PyIpmi.Session
open PyIpmi PyIpmi.RmcpWire PyIpmi.Gen.RmcpFormats PyIpmi.Spec.Lan PyIpmi.Spec.BmcSession PyIpmi.Props.C05

/-! ### decoding the responses -/

theorem decode_authCap (caps : Nat) :
    decodeRsp authCapRspWidths [0, 1, caps, 0, 0, 0, 0, 0, 0] = .ok [[1], [caps], [0], [0], [0, 0, 0], [0]] := by
  simp [decodeRsp, authCapRspWidths, splitWidths, ccOk]

theorem decode_challenge (t : Nat) (ch : List Nat) (h : ch.length = 16) :
    decodeRsp challengeRspWidths (0 :: (leBytes 4 t ++ ch)) = .ok [leBytes 4 t, ch] := by
  have h1 : List.drop 16 ch = [] := List.drop_eq_nil_of_le (by omega)
  have h2 : List.take 16 ch = ch := List.take_of_length_le (by omega)
  simp [decodeRsp, challengeRspWidths, splitWidths, ccOk, leBytes, h, h1, h2]

theorem decode_activate (a sid inSeq priv : Nat) :
    decodeRsp activateRspWidths (0 :: ([a] ++ leBytes 4 sid ++ leBytes 4 inSeq ++ [priv])) =
      .ok [[a], leBytes 4 sid, leBytes 4 inSeq, [priv]] := by
  simp [decodeRsp, activateRspWidths, splitWidths, ccOk, leBytes]

theorem decode_setPriv (x : Nat) : decodeRsp setPrivRspWidths [0, x] = .ok [[x]] := by
  simp [decodeRsp, setPrivRspWidths, splitWidths, ccOk]

theorem decode_close : decodeRsp closeRspWidths [0] = .ok [] := by
  simp [decodeRsp, closeRspWidths, splitWidths, ccOk]

theorem exchange_eq {σ : Type} (md5 : List Nat → List Nat) (P : σ → List Nat → σ × Option (List Nat)) (cfg : Cfg)
    (s : σ) (c : Client) (cmd : Nat) (data : List Nat) :
    exchange md5 P cfg s c 6 0 cmd data =
      tryLoop md5 P cfg (hdrOf cfg c cmd) (ipmbEncode (hdrOf cfg c cmd) data) (cfg.maxRetries + 1) s
        { c with rqSeq := (c.rqSeq + 1) % 64 } := rfl

theorem seqAfter_lt (n s : Nat) (h : s < 4294967296) : seqAfter n s < 4294967296 := by
  induction n generalizing s with
  | zero => exact h
  | succ n ih => exact ih _ (nextSeq_lt _ h)

theorem seqAfter_add (m n s : Nat) : seqAfter (m + n) s = seqAfter n (seqAfter m s) := by
  induction m generalizing s with
  | zero => simp [seqAfter]
  | succ m ih => rw [Nat.succ_add]; simp only [seqAfter]; exact ih _

/-! ### the retry loop of one request -/

section stages
variable {σ : Type} {md5 : List Nat → List Nat} (hmd5 : ∀ x, (md5 x).length = 16) {b : BmcCfg} {cfg : Cfg}
  (conf : Conforming b cfg) {P : σ → List Nat → σ × Option (List Nat)} {π : σ → BmcState} {lostAt : σ → Bool}
  (rel : Relay md5 b P π lostAt)

include rel in
/-- Before the session is active a lost attempt leaves the BMC where it was: `k` losses, then the
answer — `k + 1` datagrams, every one of them `Good`. -/
theorem loop_static (h : ReqHdr) (sdu pl : List Nat) (st st' : BmcState) (CI : Client → Prop)
    (Good : List Nat → Prop)
    (hfact : ∀ c, CI c → ∃ d r c', packStep md5 c sdu = (c', .ok d) ∧ CI c' ∧ Good d ∧
      step md5 b st d = (st', .reply r) ∧ stepLost md5 b st d = (st, .reply r) ∧ rxStep cfg h (some r) = .ok pl)
    (Q : σ → Prop) (k : Nat) :
    ∀ (fuel : Nat) (s : σ) (c : Client), k < fuel → π s = st → CI c → LossRun P lostAt Q k s →
      ∃ ds s' c', tryLoop md5 P cfg h sdu fuel s c = (s', c', ds, .ok pl) ∧ ds.length = k + 1 ∧
        (∀ d ∈ ds, Good d) ∧ CI c' ∧ π s' = st' ∧ Q s' := by
  induction k with
  | zero =>
    intro fuel s c hf hs hc hl
    obtain ⟨n, rfl⟩ : ∃ n, fuel = n + 1 := ⟨fuel - 1, by omega⟩
    obtain ⟨d, r, c', h1, h2, h3, h4, _, h6⟩ := hfact c hc
    obtain ⟨r1, r2⟩ := relay_reply rel s hl.1 d r st' (by rw [hs]; exact h4)
    refine ⟨[d], (P s d).1, c', tryLoop_answered md5 P cfg h sdu n s c c' d pl h1 (by rw [r2]; exact h6), rfl, ?_, h2,
      r1, hl.2 d⟩
    intro x hx; simp at hx; subst hx; exact h3
  | succ k ih =>
    intro fuel s c hf hs hc hl
    obtain ⟨n, rfl⟩ : ∃ n, fuel = n + 1 := ⟨fuel - 1, by omega⟩
    obtain ⟨d, r, c', h1, h2, h3, _, h5, _⟩ := hfact c hc
    have r1 := relay_lost rel s hl.1 d r st (by rw [hs]; exact h5)
    have r2 := hl.2.1 d
    obtain ⟨ds, s', c'', i1, i2, i3, i4, i5, i6⟩ := ih n (P s d).1 c' (by omega) r1 h2 (hl.2.2 d)
    refine ⟨d :: ds, s', c'', ?_, by simp [i2], ?_, i4, i5, i6⟩
    · rw [tryLoop_lost md5 P cfg h sdu n s c c' d h1 r2, i1]
    · intro x hx
      rcases List.mem_cons.mp hx with e | e
      · subst e; exact h3
      · exact i3 x e

include hmd5 conf rel in
/-- Inside the session every attempt, lost or not, takes the next sequence number: `k` losses,
then the answer — `k + 1` datagrams forming a chain. -/
theorem loop_session (h : ReqHdr) (cmd : Nat) (data rdata : List Nat) (ph : Nat → Phase) (a : Nat)
    (hh : BmcHdr h cmd) (ha : a = 0 ∨ a = 4 ∨ a = 2) (hlen : data.length + 7 ≤ 255) (hcmd : cmd ≠ 52)
    (hin : ∀ st seq, inSession md5 b st a seq (reqOf h data) =
      ({ st with phase := ph seq, outSeq := nextSeq st.outSeq },
       .reply (lanPacket md5 a b.pw b.sid st.outSeq (ipmiRsp (reqOf h data) 0 rdata))))
    (Q : σ → Prop) (k : Nat) :
    ∀ (fuel : Nat) (s : σ) (c : Client) (last : Option Nat), k < fuel → Live b cfg a last (π s) c →
      LossRun P lostAt Q k s →
      ∃ ds s', tryLoop md5 P cfg h (ipmbEncode h data) fuel s c =
          (s', { c with s := { c.s with seq := seqAfter (k + 1) c.s.seq } }, ds, .ok (0 :: rdata)) ∧
        ds.length = k + 1 ∧ Chain md5 cfg.pw a b.sid c.s.seq ds ∧ (∀ d ∈ ds, Carries d cmd data) ∧
        π s' = { π s with phase := ph (seqAfter (k + 1) c.s.seq), outSeq := nextSeq (π s).outSeq } ∧ Q s' := by
  induction k with
  | zero =>
    intro fuel s c last hf live hl
    obtain ⟨n, rfl⟩ : ∃ n, fuel = n + 1 := ⟨fuel - 1, by omega⟩
    obtain ⟨d, r, h1, h2, h3, h4, _, h6⟩ := bmc_inSession md5 hmd5 b cfg conf (π s) c h a last cmd data rdata ph hh ha
      live hlen hcmd (hin (π s))
    obtain ⟨r1, r2⟩ := relay_reply rel s hl.1 d r _ h4
    refine ⟨[d], (P s d).1, tryLoop_answered md5 P cfg h _ n s c _ d _ h1 (by rw [r2]; exact h6), rfl, ⟨h2, trivial⟩, ?_,
      r1, hl.2 d⟩
    intro x hx; simp at hx; subst hx; exact h3
  | succ k ih =>
    intro fuel s c last hf live hl
    obtain ⟨n, rfl⟩ : ∃ n, fuel = n + 1 := ⟨fuel - 1, by omega⟩
    obtain ⟨d, r, h1, h2, h3, _, h5, _⟩ := bmc_inSession md5 hmd5 b cfg conf (π s) c h a last cmd data rdata ph hh ha
      live hlen hcmd (hin (π s))
    have r1 := relay_lost rel s hl.1 d r _ h5
    have r2 := hl.2.1 d
    have live' : Live b cfg a (some (nextSeq c.s.seq)) (π (P s d).1) { c with s := { c.s with seq := nextSeq c.s.seq } } :=
      ⟨by rw [r1], by rw [r1]; exact live.outSeq, live.attached, live.auth, live.sid, live.act, live.pw, rfl,
        nextSeq_lt _ live.seqLt⟩
    obtain ⟨ds, s', i1, i2, i3, i4, i5, i6⟩ := ih n (P s d).1 _ _ (by omega) live' (hl.2.2 d)
    refine ⟨d :: ds, s', ?_, by simp [i2], ⟨h2, i3⟩, ?_, ?_, i6⟩
    · rw [tryLoop_lost md5 P cfg h _ n s c _ d h1 r2, i1]
      rfl
    · intro x hx
      rcases List.mem_cons.mp hx with e | e
      · subst e; exact h3
      · exact i4 x e
    · rw [i5, r1]; rfl

/-! ### the steps of the life cycle -/

include rel in
theorem run_ping (s : σ) (hl : lostAt s = false) (hph : (π s).phase = .start) :
    ping P s = ((P s pingD).1, [pingD], .ok ()) ∧ π (P s pingD).1 = { π s with phase := .pinged } := by
  have h := bmc_ping md5 b (π s) hph
  obtain ⟨r1, r2⟩ := relay_reply rel s hl pingD _ _ h
  exact ⟨by rw [ping_reply P s _ r2, pong_ok], r1⟩

include hmd5 conf rel in
theorem run_authCap (s : σ) (c : Client) (Q : σ → Prop) (k : Nat) (hk : k ≤ cfg.maxRetries)
    (hl : LossRun P lostAt Q k s) (hph : (π s).phase = .pinged) (hat : c.attached = false) :
    ∃ ds s', ds.length = k + 1 ∧ (∀ d ∈ ds, OutsideSession d ∧ Carries d 56 [0x0e, cfg.priv]) ∧
      π s' = { π s with phase := .capsSent } ∧ Q s' ∧
      ∀ sent, estabAuthCap md5 P cfg sent s c =
        estabChallenge md5 P cfg (sent ++ tagAll .authCap ds) s' { c with rqSeq := (c.rqSeq + 1) % 64 }
          [[1], [b.caps % 64], [0], [0], [0, 0, 0], [0]] := by
  obtain ⟨ds, s', c', h1, h2, h3, h4, h5, h6⟩ := loop_static rel (cfg := cfg) (hdrOf cfg c 56)
    (ipmbEncode (hdrOf cfg c 56) [0x0e, cfg.priv % 16]) [0, 1, b.caps % 64, 0, 0, 0, 0, 0, 0] (π s)
    { π s with phase := .capsSent } (fun c' => c' = { c with rqSeq := (c.rqSeq + 1) % 64 })
    (fun d => OutsideSession d ∧ Carries d 56 [0x0e, cfg.priv])
    (by
      intro c' hc'
      subst hc'
      obtain ⟨d, r, g1, g2, g3, g4, g5, g6⟩ := bmc_authCap md5 hmd5 b cfg conf (π s)
        { c with rqSeq := (c.rqSeq + 1) % 64 } (hdrOf cfg c 56) (bmcHdr_hdrOf cfg c 56 conf.rsSa) hph hat
      exact ⟨d, r, _, g1, rfl, ⟨g2, g3⟩, g4, g5, g6⟩)
    Q k (cfg.maxRetries + 1) s _ (by omega) rfl rfl hl
  subst h4
  refine ⟨ds, s', h2, h3, h5, h6, ?_⟩
  intro sent
  simp only [estabAuthCap, Gen.RmcpFormats.netfnApp, Gen.RmcpFormats.cmdGetAuthCap, exchange_eq, h1, decode_authCap]

include hmd5 conf rel in
theorem run_challenge (s : σ) (c : Client) (a : Nat) (sup : List (List Nat)) (Q : σ → Prop) (k : Nat)
    (hk : k ≤ cfg.maxRetries) (hl : LossRun P lostAt Q k s)
    (hph : (π s).phase = .capsSent) (hat : c.attached = false)
    (hsup : (sup.getD 1 []).getD 0 0 = b.caps % 64)
    (hch : chooseAuth cfg.pref (b.caps % 64) = some a) (ha : a = 0 ∨ a = 4 ∨ a = 2)
    (hoff : offered b.caps a = true) :
    ∃ ds s', ds.length = k + 1 ∧ (∀ d ∈ ds, OutsideSession d ∧ Carries d 57 (a :: pad16 cfg.user)) ∧
      π s' = { π s with phase := .challenged a } ∧ Q s' ∧
      ∀ sent, estabChallenge md5 P cfg sent s c sup =
        estabActivate md5 P cfg (sent ++ tagAll .challenge ds) s'
          { c with rqSeq := (c.rqSeq + 1) % 64, s := { c.s with auth := a } }
          [leBytes 4 b.tempSid, b.challenge] := by
  obtain ⟨ds, s', c', h1, h2, h3, h4, h5, h6⟩ := loop_static rel (cfg := cfg) (hdrOf cfg c 57)
    (ipmbEncode (hdrOf cfg c 57) ([a % 16] ++ userField cfg.user)) (0 :: (leBytes 4 b.tempSid ++ b.challenge)) (π s)
    { π s with phase := .challenged a }
    (fun c' => c' = { c with rqSeq := (c.rqSeq + 1) % 64, s := { c.s with auth := a } })
    (fun d => OutsideSession d ∧ Carries d 57 (a :: pad16 cfg.user))
    (by
      intro c' hc'
      subst hc'
      obtain ⟨d, r, g1, g2, g3, g4, g5, g6⟩ := bmc_challenge md5 hmd5 b cfg conf (π s)
        { c with rqSeq := (c.rqSeq + 1) % 64, s := { c.s with auth := a } } (hdrOf cfg c 57) a
        (bmcHdr_hdrOf cfg c 57 conf.rsSa) ha hoff hph hat
      exact ⟨d, r, _, g1, rfl, ⟨g2, g3⟩, g4, g5, g6⟩)
    Q k (cfg.maxRetries + 1) s _ (by omega) rfl rfl hl
  subst h4
  refine ⟨ds, s', h2, h3, h5, h6, ?_⟩
  intro sent
  have e : hdrOf cfg { c with s := { c.s with auth := a } } 57 = hdrOf cfg c 57 := rfl
  simp only [estabChallenge, hsup, hch, Option.getD_some, Option.isNone_some, Bool.false_and, Bool.false_eq_true, if_false,
    Gen.RmcpFormats.netfnApp, Gen.RmcpFormats.cmdGetChallenge, exchange_eq, e, h1, decode_challenge _ _ conf.chalLen]

include hmd5 conf rel in
theorem run_activate (s : σ) (c : Client) (a : Nat) (Q : σ → Prop) (k : Nat) (hk : k ≤ cfg.maxRetries)
    (hl : LossRun P lostAt Q k s) (hph : (π s).phase = .challenged a) (ha : a = 0 ∨ a = 4 ∨ a = 2)
    (hca : c.s.auth = a) (hcp : c.s.pw = cfg.pw) (hcq : c.s.seq = 0) (hci : c.s.activated = false) :
    ∃ ds s', ds.length = k + 1 ∧
      (∀ d ∈ ds, (∃ p, parseLan d = some p ∧ p.auth = a ∧ p.sid = b.tempSid ∧ p.seq = 0 ∧ codeOk md5 cfg.pw p = true) ∧
        Carries d 58 ([a, cfg.priv] ++ b.challenge ++ leBytes 4 cfg.outSeq)) ∧
      π s' = { π s with phase := .active a none, outSeq := nextSeq cfg.outSeq } ∧ Q s' ∧
      ∀ sent, estabActivate md5 P cfg sent s c [leBytes 4 b.tempSid, b.challenge] =
        estabSetPriv md5 P cfg (sent ++ tagAll .activate ds) s'
          { attached := true, s := ⟨a, b.sid, b.inSeq0, true, cfg.pw⟩, rqSeq := (c.rqSeq + 1) % 64 } := by
  have htmp : leVal (leBytes 4 b.tempSid) = b.tempSid := leVal_leBytes 4 _ conf.tempSid
  obtain ⟨ds, s', c', h1, h2, h3, h4, h5, h6⟩ := loop_static rel (cfg := cfg) (hdrOf cfg c 58)
    (ipmbEncode (hdrOf cfg c 58) ([a % 16, cfg.priv % 16] ++ b.challenge ++ leBytes 4 cfg.outSeq))
    (0 :: ([a] ++ leBytes 4 b.sid ++ leBytes 4 b.inSeq0 ++ [b.priv])) (π s)
    { π s with phase := .active a none, outSeq := nextSeq cfg.outSeq }
    (Activating b cfg a ((c.rqSeq + 1) % 64))
    (fun d => (∃ p, parseLan d = some p ∧ p.auth = a ∧ p.sid = b.tempSid ∧ p.seq = 0 ∧ codeOk md5 cfg.pw p = true) ∧
        Carries d 58 ([a, cfg.priv] ++ b.challenge ++ leBytes 4 cfg.outSeq))
    (by
      intro c' hc'
      obtain ⟨d, r, c'', g1, g2, g3, g4, g5, g6, g7⟩ := bmc_activate md5 hmd5 b cfg conf (π s) c' (hdrOf cfg c 58) a _
        (bmcHdr_hdrOf cfg c 58 conf.rsSa) ha hph hc'
      exact ⟨d, r, c'', g1, g2, ⟨g3, g4⟩, g5, g6, g7⟩)
    Q k (cfg.maxRetries + 1) s ⟨true, ⟨a, b.tempSid, c.s.seq, c.s.activated, cfg.pw⟩, (c.rqSeq + 1) % 64⟩ (by omega) rfl
    ⟨rfl, rfl, rfl, rfl, hcq, hci, rfl⟩ hl
  refine ⟨ds, s', h2, h3, h5, h6, ?_⟩
  intro sent
  obtain ⟨at', ⟨a', sid', seq', act', pw'⟩, q'⟩ := c'
  obtain ⟨e1, e2, _, e4, _, _, e6⟩ := h4
  simp only at e1 e2 e4 e6
  subst e1 e2 e4 e6
  simp only [hdrOf] at h1
  simp only [estabActivate, List.getD_cons_zero, List.getD_cons_succ, htmp, Gen.RmcpFormats.netfnApp,
    Gen.RmcpFormats.cmdActivate, exchange_eq, hdrOf, hca, hcp, h1, decode_activate, leVal_leBytes 4 _ conf.sid,
    leVal_leBytes 4 _ conf.inSeq]

include hmd5 conf rel in
/-- Set Session Privilege Level: the first request inside the session -/
theorem run_setPriv (s : σ) (c : Client) (a : Nat) (Q : σ → Prop) (k : Nat) (hk : k ≤ cfg.maxRetries)
    (hl : LossRun P lostAt Q k s) (ha : a = 0 ∨ a = 4 ∨ a = 2) (live : Live b cfg a none (π s) c) :
    ∃ ds s', ds.length = k + 1 ∧ Chain md5 cfg.pw a b.sid b.inSeq0 ds ∧ (∀ d ∈ ds, Carries d 59 [cfg.priv]) ∧ Q s' ∧
      Live b cfg a (some (seqAfter (k + 1) b.inSeq0)) (π s')
        { c with rqSeq := (c.rqSeq + 1) % 64, s := { c.s with seq := seqAfter (k + 1) b.inSeq0 } } ∧
      (π s').bad = (π s).bad ∧
      ∀ sent, estabSetPriv md5 P cfg sent s c =
        ⟨s', { c with rqSeq := (c.rqSeq + 1) % 64, s := { c.s with seq := seqAfter (k + 1) b.inSeq0 } },
         sent ++ tagAll .setPriv ds, .ok []⟩ := by
  have hp16 : cfg.priv % 16 = cfg.priv := Nat.mod_eq_of_lt conf.privLt
  have hseq : c.s.seq = b.inSeq0 := live.seq
  have live1 : Live b cfg a none (π s) { c with rqSeq := (c.rqSeq + 1) % 64 } :=
    ⟨live.phase, live.outSeq, live.attached, live.auth, live.sid, live.act, live.pw, live.seq, live.seqLt⟩
  obtain ⟨ds, s', h1, h2, h3, h4, h5, h6⟩ := loop_session hmd5 conf rel (hdrOf cfg c 59) 59 [cfg.priv % 16]
    [cfg.priv % 16 % 16] (fun q => .active a (some q)) a (bmcHdr_hdrOf cfg c 59 conf.rsSa) ha (by simp) (by decide)
    (fun st q => inSession_setPriv md5 b st a q _ _ rfl rfl rfl) Q k (cfg.maxRetries + 1) s _ none (by omega) live1 hl
  simp only [hseq, hp16] at h1 h3 h4 h5
  refine ⟨ds, s', h2, h3, h4, h6, ?_, by rw [h5], ?_⟩
  · exact ⟨by rw [h5], by rw [h5]; exact nextSeq_lt _ live.outSeq, live.attached, live.auth, live.sid, live.act,
      live.pw, rfl, seqAfter_lt _ _ conf.inSeq⟩
  · intro sent
    simp only [estabSetPriv, Gen.RmcpFormats.netfnApp, Gen.RmcpFormats.cmdSetPriv, exchange_eq, hp16, h1,
      decode_setPriv]

include hmd5 conf rel in
/-- one Get Device ID request inside the session -/
theorem run_request (s : σ) (c : Client) (a l : Nat) (Q : σ → Prop) (k : Nat) (hk : k ≤ cfg.maxRetries)
    (hl : LossRun P lostAt Q k s) (ha : a = 0 ∨ a = 4 ∨ a = 2) (live : Live b cfg a (some l) (π s) c) :
    ∃ ds s', ds.length = k + 1 ∧ Chain md5 cfg.pw a b.sid l ds ∧ (∀ d ∈ ds, Carries d 1 []) ∧ Q s' ∧
      Live b cfg a (some (seqAfter (k + 1) l)) (π s')
        { c with rqSeq := (c.rqSeq + 1) % 64, s := { c.s with seq := seqAfter (k + 1) l } } ∧
      (π s').bad = (π s).bad ∧
      request md5 P cfg s c 6 0 1 [] =
        ⟨s', { c with rqSeq := (c.rqSeq + 1) % 64, s := { c.s with seq := seqAfter (k + 1) l } },
         tagAll .request ds, .ok (0 :: deviceIdData)⟩ := by
  have hseq : c.s.seq = l := live.seq
  have live1 : Live b cfg a (some l) (π s) { c with rqSeq := (c.rqSeq + 1) % 64 } :=
    ⟨live.phase, live.outSeq, live.attached, live.auth, live.sid, live.act, live.pw, live.seq, live.seqLt⟩
  obtain ⟨ds, s', h1, h2, h3, h4, h5, h6⟩ := loop_session hmd5 conf rel (hdrOf cfg c 1) 1 []
    deviceIdData (fun q => .active a (some q)) a (bmcHdr_hdrOf cfg c 1 conf.rsSa) ha (by simp) (by decide)
    (fun st q => inSession_getDeviceId md5 b st a q _ rfl rfl) Q k (cfg.maxRetries + 1) s _ (some l) (by omega) live1 hl
  simp only [hseq] at h1 h3 h5
  refine ⟨ds, s', h2, h3, h4, h6, ?_, by rw [h5], ?_⟩
  · exact ⟨by rw [h5], by rw [h5]; exact nextSeq_lt _ live.outSeq, live.attached, live.auth, live.sid, live.act,
      live.pw, rfl, seqAfter_lt _ _ (by rw [← hseq]; exact live.seqLt)⟩
  · simp only [request, exchange_eq, h1]

include hmd5 conf rel in
/-- Close Session names the granted session id; the BMC closes -/
theorem run_close (s : σ) (c : Client) (a l : Nat) (Q : σ → Prop) (k : Nat) (hk : k ≤ cfg.maxRetries)
    (hl : LossRun P lostAt Q k s) (ha : a = 0 ∨ a = 4 ∨ a = 2) (live : Live b cfg a (some l) (π s) c) :
    ∃ ds s', ds.length = k + 1 ∧ Chain md5 cfg.pw a b.sid l ds ∧ (∀ d ∈ ds, Carries d 60 (leBytes 4 b.sid)) ∧ Q s' ∧
      (π s').phase = .closed ∧ (π s').bad = (π s).bad ∧
      close md5 P cfg s c =
        ⟨s', { c with rqSeq := (c.rqSeq + 1) % 64,
                      s := { c.s with seq := seqAfter (k + 1) l, activated := false } },
         tagAll .close ds, .ok []⟩ := by
  have hseq : c.s.seq = l := live.seq
  have live1 : Live b cfg a (some l) (π s) { c with rqSeq := (c.rqSeq + 1) % 64 } :=
    ⟨live.phase, live.outSeq, live.attached, live.auth, live.sid, live.act, live.pw, live.seq, live.seqLt⟩
  obtain ⟨ds, s', h1, h2, h3, h4, h5, h6⟩ := loop_session hmd5 conf rel (hdrOf cfg c 60) 60 (leBytes 4 c.s.sid)
    [] (fun _ => .closed) a (bmcHdr_hdrOf cfg c 60 conf.rsSa) ha (by simp) (by decide)
    (fun st q => inSession_close md5 b st a q _ rfl rfl (by simp [reqOf, live.sid])) Q k (cfg.maxRetries + 1) s _
    (some l) (by omega) live1 hl
  simp only [hseq, live.sid] at h1 h3 h4 h5
  simp only [live.attached] at h1
  refine ⟨ds, s', h2, h3, h4, h6, by rw [h5], by rw [h5], ?_⟩
  simp only [close, live.attached, live.act, Bool.true_eq_false, if_false, Gen.RmcpFormats.netfnApp,
    Gen.RmcpFormats.cmdClose, exchange_eq, live.sid, h1, decode_close]

include hmd5 conf rel in
/-- `n` requests in a row, each losing at most `max_retries` datagrams: every datagram
transmitted, retransmissions included, carries the next sequence number -/
theorem run_requestN (R : Nat) (hR : R ≤ cfg.maxRetries) (a : Nat) (ha : a = 0 ∨ a = 4 ∨ a = 2) (m n : Nat) :
    ∀ (s : σ) (c : Client) (l : Nat), Within P lostAt R (n + m) s → Live b cfg a (some l) (π s) c →
    ∃ ds, n ≤ ds.length ∧ ds.length ≤ n * (R + 1) ∧ Chain md5 cfg.pw a b.sid l ds ∧
      (∀ d ∈ ds, Carries d 1 []) ∧
      (requestN md5 P cfg n s c).sent = tagAll .request ds ∧
      (requestN md5 P cfg n s c).outcome = .ok [] ∧
      Within P lostAt R m (requestN md5 P cfg n s c).peer ∧
      Live b cfg a (some (seqAfter ds.length l)) (π (requestN md5 P cfg n s c).peer) (requestN md5 P cfg n s c).client ∧
      (π (requestN md5 P cfg n s c).peer).bad = (π s).bad := by
  induction n with
  | zero =>
    intro s c l hw live
    exact ⟨[], by simp, by simp, trivial, by simp, rfl, rfl, by simpa [requestN] using hw, live, rfl⟩
  | succ n ih =>
    intro s c l hw live
    have e : n + 1 + m = (n + m) + 1 := by omega
    rw [e] at hw
    obtain ⟨k, hk, hl⟩ := hw
    obtain ⟨ds1, s', h1, h2, h3, h4, h5, h6, h7⟩ := run_request hmd5 conf rel s c a l _ k (by omega) hl ha live
    obtain ⟨ds2, i1, i2, i3, i4, i5, i6, i7, i8, i9⟩ := ih s' _ (seqAfter (k + 1) l) h4 h5
    refine ⟨ds1 ++ ds2, by simp [h1]; omega, ?_, Chain.append h2 (by rw [h1]; exact i3), ?_, ?_, ?_, ?_, ?_, ?_⟩
    · simp only [List.length_append, h1]
      have : (n + 1) * (R + 1) = n * (R + 1) + (R + 1) := Nat.succ_mul _ _
      omega
    · intro x hx
      rcases List.mem_append.mp hx with e | e
      · exact h3 x e
      · exact i4 x e
    · simp only [requestN, Gen.RmcpFormats.netfnApp, Gen.RmcpFormats.cmdGetDeviceId, h7, i5, tagAll, List.map_append]
    · simp only [requestN, Gen.RmcpFormats.netfnApp, Gen.RmcpFormats.cmdGetDeviceId, h7, i6]
    · simp only [requestN, Gen.RmcpFormats.netfnApp, Gen.RmcpFormats.cmdGetDeviceId, h7]
      exact i7
    · simp only [requestN, Gen.RmcpFormats.netfnApp, Gen.RmcpFormats.cmdGetDeviceId, h7]
      rw [List.length_append, h1, seqAfter_add]
      exact i8
    · simp only [requestN, Gen.RmcpFormats.netfnApp, Gen.RmcpFormats.cmdGetDeviceId, h7]
      rw [i9, h6]

end stages

/-! ### the whole handshake, the whole life cycle -/

/-- Nothing of an earlier session enters the handshake: `establish_session` clears the session
object itself (`resetSession`, intended), or the object happens to be clean (a new `Session()`,
which is all the pinned tree can cope with). -/
def Fresh (cfg : Cfg) (c0 : Client) : Prop :=
  cfg.resetSession = true ∨ (c0.s.seq = 0 ∧ c0.s.activated = false)

theorem resetSess_pw (cfg : Cfg) (c0 : Client) : (resetSess cfg c0).s.pw = c0.s.pw := by
  unfold resetSess; split <;> rfl

theorem resetSess_rqSeq (cfg : Cfg) (c0 : Client) : (resetSess cfg c0).rqSeq = c0.rqSeq := by
  unfold resetSess; split <;> rfl

theorem resetSess_auth (cfg : Cfg) (c0 : Client) : (resetSess cfg c0).s.auth = c0.s.auth := by
  unfold resetSess; split <;> rfl

theorem resetSess_fresh {cfg : Cfg} {c0 : Client} (h : Fresh cfg c0) :
    (resetSess cfg c0).s.seq = 0 ∧ (resetSess cfg c0).s.activated = false := by
  unfold resetSess
  rcases h with h | h
  · simp [h]
  · split
    · exact ⟨rfl, rfl⟩
    · exact h

theorem resetSess_of_true {cfg : Cfg} (h : cfg.resetSession = true) (c0 : Client) :
    resetSess cfg c0 = { c0 with s := { c0.s with sid := 0, seq := 0, activated := false } } := by
  simp [resetSess, h]

theorem resetSess_of_false {cfg : Cfg} (h : cfg.resetSession = false) (c0 : Client) : resetSess cfg c0 = c0 := by
  simp [resetSess, h]

/-- What a successful handshake put on the wire, step by step (`ds1` … `ds4`: the datagrams of
Get Channel Authentication Capabilities, Get Session Challenge, Activate Session and Set Session
Privilege Level, retransmissions included; at most `R + 1` each). -/
structure Handshake (md5 : List Nat → List Nat) (b : BmcCfg) (cfg : Cfg) (R a : Nat)
    (sent : Sent) (ds1 ds2 ds3 ds4 : List (List Nat)) : Prop where
  sent : sent = (.ping, pingD) :: (tagAll .authCap ds1 ++ tagAll .challenge ds2 ++ tagAll .activate ds3 ++
    tagAll .setPriv ds4)
  len1 : 1 ≤ ds1.length ∧ ds1.length ≤ R + 1
  len2 : 1 ≤ ds2.length ∧ ds2.length ≤ R + 1
  len3 : 1 ≤ ds3.length ∧ ds3.length ≤ R + 1
  len4 : 1 ≤ ds4.length ∧ ds4.length ≤ R + 1
  authCap : ∀ d ∈ ds1, OutsideSession d ∧ Carries d 56 [0x0e, cfg.priv]
  challenge : ∀ d ∈ ds2, OutsideSession d ∧ Carries d 57 (a :: pad16 cfg.user)
  activate : ∀ d ∈ ds3, (∃ p, parseLan d = some p ∧ p.auth = a ∧ p.sid = b.tempSid ∧ p.seq = 0 ∧ codeOk md5 cfg.pw p = true) ∧
    Carries d 58 ([a, cfg.priv] ++ b.challenge ++ leBytes 4 cfg.outSeq)
  setPrivChain : Chain md5 cfg.pw a b.sid b.inSeq0 ds4
  setPriv : ∀ d ∈ ds4, Carries d 59 [cfg.priv]

section whole
variable {σ : Type} {md5 : List Nat → List Nat} (hmd5 : ∀ x, (md5 x).length = 16) {b : BmcCfg} {cfg : Cfg}
  (conf : Conforming b cfg) {P : σ → List Nat → σ × Option (List Nat)} {π : σ → BmcState} {lostAt : σ → Bool}
  (rel : Relay md5 b P π lostAt)
include hmd5 conf rel

theorem establish_run (R : Nat) (hR : R ≤ cfg.maxRetries) (m : Nat) (s0 : σ) (c0 : Client) (a : Nat)
    (hl0 : lostAt s0 = false)
    (hw : ∀ d, Within P lostAt R (4 + m) (P s0 d).1) (hph : (π s0).phase = .start)
    (hch : chooseAuth cfg.pref (b.caps % 64) = some a) (ha : a = 0 ∨ a = 4 ∨ a = 2) (hoff : offered b.caps a = true)
    (hcp : c0.s.pw = cfg.pw) (hcq : c0.s.seq = 0) (hci : c0.s.activated = false) :
    ∃ ds1 ds2 ds3 ds4, Handshake md5 b cfg R a (handshake md5 P cfg s0 c0).sent ds1 ds2 ds3 ds4 ∧
      (handshake md5 P cfg s0 c0).outcome = .ok [] ∧
      Live b cfg a (some (seqAfter ds4.length b.inSeq0)) (π (handshake md5 P cfg s0 c0).peer)
        (handshake md5 P cfg s0 c0).client ∧
      (π (handshake md5 P cfg s0 c0).peer).bad = (π s0).bad ∧
      Within P lostAt R m (handshake md5 P cfg s0 c0).peer := by
  obtain ⟨p0, p1⟩ := run_ping rel s0 hl0 hph
  have hw0 := hw pingD
  have e4 : 4 + m = (3 + m) + 1 := by omega
  rw [e4] at hw0
  obtain ⟨k1, hk1, hl1⟩ := hw0
  obtain ⟨ds1, s1, a1, a2, a3, a4, a5⟩ := run_authCap hmd5 conf rel (P s0 pingD).1 { c0 with attached := false } _ k1
    (by omega) hl1 (by rw [p1]) rfl
  have e3 : 3 + m = (2 + m) + 1 := by omega
  rw [e3] at a4
  obtain ⟨k2, hk2, hl2⟩ := a4
  obtain ⟨ds2, s2, b1, b2, b3, b4, b5⟩ := run_challenge hmd5 conf rel s1
    { attached := false, s := c0.s, rqSeq := (c0.rqSeq + 1) % 64 } a
    [[1], [b.caps % 64], [0], [0], [0, 0, 0], [0]] _ k2 (by omega) hl2 (by rw [a3]) rfl rfl hch ha hoff
  have e2 : 2 + m = (1 + m) + 1 := by omega
  rw [e2] at b4
  obtain ⟨k3, hk3, hl3⟩ := b4
  obtain ⟨ds3, s3, c1, c2, c3, c4, c5⟩ := run_activate hmd5 conf rel s2
    { attached := false, s := { c0.s with auth := a }, rqSeq := ((c0.rqSeq + 1) % 64 + 1) % 64 } a _ k3 (by omega) hl3
    (by rw [b3]) ha rfl hcp hcq hci
  have e1 : 1 + m = m + 1 := by omega
  rw [e1] at c4
  obtain ⟨k4, hk4, hl4⟩ := c4
  have live3 : Live b cfg a none (π s3)
      { attached := true, s := ⟨a, b.sid, b.inSeq0, true, cfg.pw⟩, rqSeq := (((c0.rqSeq + 1) % 64 + 1) % 64 + 1) % 64 } :=
    ⟨by rw [c3], by rw [c3]; exact nextSeq_lt _ conf.outSeqLt, rfl, rfl, rfl, rfl, rfl, rfl, conf.inSeq⟩
  obtain ⟨ds4, s4, d1, d2, d3, d4, d5, d6, d7⟩ := run_setPriv hmd5 conf rel s3 _ a _ k4 (by omega) hl4 ha live3
  have hest : handshake md5 P cfg s0 c0 =
      ⟨s4, { attached := true, s := ⟨a, b.sid, seqAfter (k4 + 1) b.inSeq0, true, cfg.pw⟩,
             rqSeq := ((((c0.rqSeq + 1) % 64 + 1) % 64 + 1) % 64 + 1) % 64 },
       tagAll .ping [pingD] ++ tagAll .authCap ds1 ++ tagAll .challenge ds2 ++ tagAll .activate ds3 ++
         tagAll .setPriv ds4, .ok []⟩ := by
    simp only [handshake, p0]
    rw [a5, b5, c5, d7]
  refine ⟨ds1, ds2, ds3, ds4, ?_, by rw [hest], ?_, ?_, ?_⟩
  · refine ⟨?_, ⟨by omega, by omega⟩, ⟨by omega, by omega⟩, ⟨by omega, by omega⟩, ⟨by omega, by omega⟩, a2, b2, c2, d2, d3⟩
    rw [hest]
    simp [tagAll]
  · rw [hest, d1]; exact d5
  · rw [hest]
    simp only
    rw [d6, c3, b3, a3, p1]
  · rw [hest]; exact d4

/-- The life cycle against a peer that relays a conforming BMC and loses at most `max_retries`
datagrams per request: it completes; the datagrams inside the session — Set Session Privilege
Level, the `n` requests, Close Session, every retransmission included — form one chain of
sequence numbers from the assigned initial value. -/
theorem lifecycle_run (R : Nat) (hR : R ≤ cfg.maxRetries) (n : Nat) (s0 : σ) (c0 : Client) (a : Nat)
    (hl0 : lostAt s0 = false)
    (hw : ∀ d, Within P lostAt R (n + 5) (P s0 d).1) (hph : (π s0).phase = .start)
    (hch : chooseAuth cfg.pref (b.caps % 64) = some a) (ha : a = 0 ∨ a = 4 ∨ a = 2) (hoff : offered b.caps a = true)
    (hcp : c0.s.pw = cfg.pw) (hfr : Fresh cfg c0) :
    ∃ hs ds1 ds2 ds3 ds4 dsr dsc, Handshake md5 b cfg R a hs ds1 ds2 ds3 ds4 ∧
      (lifecycle md5 P cfg n s0 c0).sent = hs ++ tagAll .request dsr ++ tagAll .close dsc ∧
      (lifecycle md5 P cfg n s0 c0).outcome = .ok [] ∧
      (π (lifecycle md5 P cfg n s0 c0).peer).phase = .closed ∧
      (π (lifecycle md5 P cfg n s0 c0).peer).bad = (π s0).bad ∧
      (lifecycle md5 P cfg n s0 c0).client.s.activated = false ∧
      Chain md5 cfg.pw a b.sid b.inSeq0 (ds4 ++ dsr ++ dsc) ∧
      (n ≤ dsr.length ∧ dsr.length ≤ n * (R + 1)) ∧
      (1 ≤ dsc.length ∧ dsc.length ≤ R + 1) ∧
      (∀ d ∈ dsr, Carries d 1 []) ∧ (∀ d ∈ dsc, Carries d 60 (leBytes 4 b.sid)) := by
  have hw' : ∀ d, Within P lostAt R (4 + (n + 1)) (P s0 d).1 := by
    intro d
    have e : 4 + (n + 1) = n + 5 := by omega
    rw [e]; exact hw d
  obtain ⟨ds1, ds2, ds3, ds4, e1, e2, e3, e4, e5⟩ := establish_run hmd5 conf rel R hR (n + 1) s0 (resetSess cfg c0) a hl0
    hw' hph hch ha hoff (by rw [resetSess_pw]; exact hcp) (resetSess_fresh hfr).1 (resetSess_fresh hfr).2
  obtain ⟨dsr, r1, r2, r3, r4, r5, r6, r7, r8, r9⟩ := run_requestN hmd5 conf rel R hR a ha 1 n
    (handshake md5 P cfg s0 (resetSess cfg c0)).peer (handshake md5 P cfg s0 (resetSess cfg c0)).client _ e5 e3
  obtain ⟨k, hk, hl⟩ := r7
  obtain ⟨dsc, s', q1, q2, q3, _, q5, q6, q7⟩ := run_close hmd5 conf rel _ _ a _ _ k (by omega) hl ha r8
  refine ⟨_, ds1, ds2, ds3, ds4, dsr, dsc, e1, ?_, ?_, ?_, ?_, ?_, ?_, ⟨r1, r2⟩, ⟨by omega, by omega⟩, r4, q3⟩
  · simp only [lifecycle, establish, e2, r6, q7, r5]
  · simp only [lifecycle, establish, e2, r6, q7]
  · simp only [lifecycle, establish, e2, r6, q7]; exact q5
  · simp only [lifecycle, establish, e2, r6, q7]; rw [q6, r9, e4]
  · simp only [lifecycle, establish, e2, r6, q7]
  · rw [List.append_assoc]
    exact Chain.append e1.setPrivChain (Chain.append r3 q2)

end whole

end PyIpmi.Session
