/-
  Well-formedness of layouts, the `Fits` predicate on value assignments, and the lemmas
  behind the C01 / C02 theorems.  Core only.
-/
import PyIpmi.Model.Codec
import PyIpmi.Lemmas.Bits
namespace PyIpmi.Codec
open PyIpmi

/-! ### Layout well-formedness (decidable; evaluated on the generated registry) -/

def isIntPrim : Prim → Bool
  | .uint _ => true
  | .cc => true
  | _ => false

def isPlain : Wrap → Bool
  | .plain => true
  | _ => false

def isOptional : Wrap → Bool
  | .optional => true
  | _ => false

def isRemaining : Prim → Bool
  | .remaining => true
  | _ => false

/-- a length function / bit-field description is sound w.r.t. the earlier fields `pre` -/
def primRefsOk (pre : List Field) : Prim → Bool
  | .varBytes j =>
    match pre[j]? with
    | some f => isPlain f.wrap && isIntPrim f.prim
    | none => false
  | .bits n ws => ws.sum == 8 * n
  | _ => true

def condRefsOk (pre : List Field) : Cond → Bool
  | .bitEq f b _ =>
    match pre[f]? with
    | some fl => isPlain fl.wrap && (match fl.prim with | .bits _ ws => decide (b < ws.length) | _ => false)
    | none => false
  | .intEq f _ =>
    match pre[f]? with
    | some fl => isPlain fl.wrap && isIntPrim fl.prim
    | none => false
  | .or a b => condRefsOk pre a && condRefsOk pre b
  | .and a b => condRefsOk pre a && condRefsOk pre b

/-- a present optional field of this kind always contributes at least one byte -/
def optNonempty : Prim → Bool
  | .uint n => decide (0 < n)
  | .cc => true
  | .bytes n => decide (0 < n)
  | .str n => decide (0 < n)
  | .varBytes _ => false
  | .remaining => true        -- `Fits` demands a non-empty value for Optional(RemainingBytes)
  | .bits n _ => decide (0 < n)

def wrapOk (pre : List Field) (seenOpt : Bool) (f : Field) : Bool :=
  match f.wrap with
  | .plain => !seenOpt
  | .optional => optNonempty f.prim
  | .cond c => !seenOpt && condRefsOk pre c && !isCcStop f f.dflt

/-- optionals form a suffix, `remaining` is last, references point to earlier plain fields,
bit widths add up. -/
def wfAux (pre : List Field) (seenOpt : Bool) : List Field → Bool
  | [] => true
  | f :: fs =>
    primRefsOk pre f.prim && wrapOk pre seenOpt f && (!isRemaining f.prim || fs.isEmpty)
      && wfAux (pre ++ [f]) (seenOpt || isOptional f.wrap) fs

def reservedNames : List String := ["cmdid", "netfn", "lun", "group_extension"]

def namesOk (l : Layout) : Bool :=
  let ns := l.map (·.name)
  decide ns.Nodup && ns.all (fun n => !reservedNames.contains n)

def Layout.wf (l : Layout) : Bool := wfAux [] false l && namesOk l

/-! ### Fits: the property's quantifier over field values -/

def fitsPrim (env : List Val) (optional : Bool) : Prim → Val → Bool
  | .uint n, .int v => decide (v < 256 ^ n)
  | .cc, .int v => decide (v = 0)
  | .bytes n, .arr l => decide (l.length = n) && isBytes l
  | .str n, .arr l => decide (l.length = n) && isBytes l
  | .varBytes j, .arr l => decide (env[j]? = some (.int l.length)) && isBytes l
  | .remaining, .arr l => isBytes l && (!optional || !l.isEmpty)
  | .bits _ ws, .bits vs => fitsBits ws vs
  | _, _ => false

def allNone (vs : List Val) : Bool := vs.all (fun v => decide (v = .none))

def fitsField (env : List Val) (f : Field) (v : Val) (later : List Val) : Bool :=
  match f.wrap with
  | .plain => fitsPrim env false f.prim v
  | .optional => if v = .none then allNone later else fitsPrim env true f.prim v
  | .cond c =>
    match c.eval env with
    | some true => fitsPrim env false f.prim v
    | some false => decide (v = f.dflt)
    | none => false

def fitsAux (env : List Val) : List Field → List Val → Bool
  | [], [] => true
  | f :: fs, v :: vs => fitsField env f v vs && fitsAux (env ++ [v]) fs vs
  | _, _ => false

/-- In-range assignment for a layout: every integer below `256^n`, every bit value below
`2^w`, fixed arrays/strings at their declared length, variable array consistent with its
length field, optional presence prefix-closed, an untaken conditional holding its default,
completion code OK. -/
def Fits (l : Layout) (vs : List Val) : Bool := fitsAux [] l vs

/-! ### helper lemmas -/

theorem popN_append (n : Nat) (e rest : List Nat) (k : List Nat → Val) (h : e.length = n) :
    popN n (e ++ rest) k = .ok (k e, rest) := by
  subst h
  simp [popN]

theorem map_mod_bytes (l : List Nat) (h : Bytes l) : l.map (· % 256) = l := by
  induction l with
  | nil => rfl
  | cons b bs ih =>
    simp only [List.map_cons]
    rw [ih h.tail, Nat.mod_eq_of_lt h.head]

theorem map_mod_is_bytes (l : List Nat) : Bytes (l.map (· % 256)) := by
  intro b hb
  simp only [List.mem_map] at hb
  obtain ⟨a, _, rfl⟩ := hb
  exact Nat.mod_lt _ (by decide)

/-! ### round trip, one primitive -/

theorem prim_roundtrip (env : List Val) (opt : Bool) (p : Prim) (v : Val) (rest : List Nat)
    (hfit : fitsPrim env opt p v = true) (hrem : isRemaining p = true → rest = [])
    (hbits : ∀ n ws, p = .bits n ws → ws.sum = 8 * n) :
    ∃ e, encPrim env p v = .ok e ∧ Bytes e ∧ decPrim env p (e ++ rest) = .ok (v, rest)
      ∧ v ≠ .none ∧ (optNonempty p = true → opt = true → e ≠ []) := by
  cases p with
  | uint n =>
    cases v <;> simp [fitsPrim] at hfit
    rename_i x
    refine ⟨leBytes n x, rfl, leBytes_bytes _ _, ?_, by simp, ?_⟩
    · simp only [decPrim]
      rw [popN_append _ _ _ _ (leBytes_length n x), leVal_leBytes _ _ hfit]
    · intro hn _ he
      have := leBytes_length n x
      rw [he] at this
      simp [optNonempty] at hn
      simp at this; omega
  | cc =>
    cases v <;> simp [fitsPrim] at hfit
    subst hfit
    refine ⟨leBytes 1 0, rfl, leBytes_bytes _ _, ?_, by simp, ?_⟩
    · simp [decPrim, popN, leBytes, leVal]
    · intro _ _; simp [leBytes]
  | bytes n =>
    cases v <;> simp [fitsPrim] at hfit
    rename_i l
    obtain ⟨hl, hb⟩ := hfit
    have hb' : Bytes l := (isBytes_iff l).mp hb
    refine ⟨l, ?_, hb', ?_, by simp, ?_⟩
    · simp [encPrim, hl, map_mod_bytes l hb']
    · simp only [decPrim]; rw [popN_append _ _ _ _ hl]
    · intro hn _ he; subst he; simp [optNonempty] at hn; simp at hl; omega
  | str n =>
    cases v <;> simp [fitsPrim] at hfit
    rename_i l
    obtain ⟨hl, hb⟩ := hfit
    refine ⟨l, rfl, (isBytes_iff l).mp hb, ?_, by simp, ?_⟩
    · subst hl; simp [decPrim]
    · intro hn _ he; subst he; simp [optNonempty] at hn; simp at hl; omega
  | varBytes j =>
    cases v <;> simp [fitsPrim] at hfit
    rename_i l
    obtain ⟨hj, hb⟩ := hfit
    have hb' : Bytes l := (isBytes_iff l).mp hb
    refine ⟨l, ?_, hb', ?_, by simp, ?_⟩
    · simp [encPrim, hj, map_mod_bytes l hb']
    · simp only [decPrim, hj]; rw [popN_append _ _ _ _ rfl]
    · intro hn; simp [optNonempty] at hn
  | remaining =>
    cases v <;> simp [fitsPrim] at hfit
    rename_i l
    obtain ⟨hb, hne⟩ := hfit
    have hr := hrem rfl
    subst hr
    refine ⟨l, rfl, (isBytes_iff l).mp hb, by simp [decPrim], by simp, ?_⟩
    intro _ ho he
    subst he
    simp [ho] at hne
  | bits n ws =>
    cases v <;> simp [fitsPrim] at hfit
    rename_i vs
    refine ⟨leBytes n (packBits ws vs), rfl, leBytes_bytes _ _, ?_, by simp, ?_⟩
    · simp only [decPrim]
      rw [popN_append _ _ _ _ (leBytes_length _ _)]
      have hlt : packBits ws vs < 256 ^ n := by
        have := packBits_lt ws vs
        rw [hbits n ws rfl, two_pow_eight_mul] at this
        exact this
      rw [leVal_leBytes _ _ hlt, unpack_pack ws vs hfit]
    · intro hn _ he
      have := leBytes_length n (packBits ws vs)
      rw [he] at this
      simp [optNonempty] at hn
      simp at this; omega

theorem isCcStop_of_fits (env : List Val) (opt : Bool) (f : Field) (v : Val)
    (h : fitsPrim env opt f.prim v = true) : isCcStop f v = false := by
  unfold isCcStop
  cases hp : f.prim <;> cases v <;> simp_all [fitsPrim]

theorem fitsAux_length {env : List Val} {fs : List Field} {vs : List Val}
    (h : fitsAux env fs vs = true) : vs.length = fs.length := by
  induction fs generalizing env vs with
  | nil => cases vs <;> simp_all [fitsAux]
  | cons f fs ih =>
    cases vs with
    | nil => simp [fitsAux] at h
    | cons v vs =>
      simp only [fitsAux, Bool.and_eq_true] at h
      simp [ih h.2]

/-- after an absent optional, everything later is an absent optional: nothing is encoded and
decoding the empty rest yields those `None`s again -/
theorem absent_tail (pre : List Field) (env : List Val) (fs : List Field) (vs : List Val)
    (hwf : wfAux pre true fs = true) (hn : allNone vs = true) (hl : vs.length = fs.length) :
    encAux env fs vs = .ok [] ∧ decAux env fs [] = .ok ⟨vs, false, []⟩ := by
  induction fs generalizing pre env vs with
  | nil => cases vs <;> simp_all [encAux, decAux]
  | cons f fs ih =>
    cases vs with
    | nil => simp at hl
    | cons v vs =>
      simp only [allNone, List.all_cons, Bool.and_eq_true, decide_eq_true_eq] at hn
      obtain ⟨hv, hvs⟩ := hn
      subst hv
      simp only [wfAux, Bool.and_eq_true, Bool.true_or] at hwf
      obtain ⟨⟨⟨_, hw⟩, _⟩, hrest⟩ := hwf
      have hopt : f.wrap = .optional := by
        unfold wrapOk at hw
        cases hfw : f.wrap <;> simp_all
      have ⟨h1, h2⟩ := ih (pre ++ [f]) (env ++ [Val.none]) vs hrest
        (by simpa [allNone] using hvs) (by simpa using hl)
      constructor
      · simp [encAux, encField, hopt, h1]
      · simp [decAux, decField, hopt, isCcStop, h2]

theorem field_roundtrip (pre : List Field) (so : Bool) (env : List Val) (f : Field) (v : Val)
    (later : List Val) (rest : List Nat)
    (hp : primRefsOk pre f.prim = true) (hw : wrapOk pre so f = true)
    (hfit : fitsField env f v later = true)
    (hrem : isRemaining f.prim = true → rest = [])
    (habs : f.wrap = .optional → v = .none → rest = []) :
    ∃ e, encField env f v = .ok e ∧ Bytes e ∧ decField env f (e ++ rest) = .ok (v, rest)
      ∧ isCcStop f v = false := by
  have hbits : ∀ n ws, f.prim = .bits n ws → ws.sum = 8 * n := by
    intro n ws h
    rw [h] at hp
    simpa [primRefsOk] using hp
  unfold fitsField at hfit
  cases hfw : f.wrap with
  | plain =>
    rw [hfw] at hfit
    obtain ⟨e, h1, h2, h3, _, _⟩ := prim_roundtrip env false f.prim v rest hfit hrem hbits
    exact ⟨e, by simp [encField, hfw, h1], h2, by simp [decField, hfw, h3],
      isCcStop_of_fits env false f v hfit⟩
  | optional =>
    rw [hfw] at hfit
    by_cases hv : v = .none
    · subst hv
      have hr := habs hfw rfl
      subst hr
      refine ⟨[], by simp [encField, hfw], Bytes.nil, by simp [decField, hfw], ?_⟩
      unfold isCcStop; cases f.prim <;> rfl
    · simp only [hv, if_false] at hfit
      obtain ⟨e, h1, h2, h3, _, h5⟩ := prim_roundtrip env true f.prim v rest hfit hrem hbits
      have hne : optNonempty f.prim = true := by
        unfold wrapOk at hw; rw [hfw] at hw; exact hw
      have he : e ≠ [] := h5 hne rfl
      have hlen : 0 < (e ++ rest).length := by
        cases e with
        | nil => exact absurd rfl he
        | cons a t => simp
      refine ⟨e, by simp [encField, hfw, hv, h1], h2, ?_, isCcStop_of_fits env true f v hfit⟩
      simp only [decField, hfw]
      rw [if_pos hlen, h3]
  | cond c =>
    rw [hfw] at hfit
    cases hc : c.eval env with
    | none => simp [hc] at hfit
    | some b =>
      cases b with
      | true =>
        simp only [hc] at hfit
        obtain ⟨e, h1, h2, h3, _, _⟩ := prim_roundtrip env false f.prim v rest hfit hrem hbits
        exact ⟨e, by simp [encField, hfw, hc, h1], h2, by simp [decField, hfw, hc, h3],
          isCcStop_of_fits env false f v hfit⟩
      | false =>
        simp only [hc, decide_eq_true_eq] at hfit
        subst hfit
        refine ⟨[], by simp [encField, hfw, hc], Bytes.nil, by simp [decField, hfw, hc], ?_⟩
        unfold wrapOk at hw
        rw [hfw] at hw
        simp only [Bool.and_eq_true, Bool.not_eq_true'] at hw
        exact hw.2

theorem roundtrip_aux (pre : List Field) (so : Bool) (env : List Val) (fs : List Field)
    (vs : List Val) (hwf : wfAux pre so fs = true) (hfit : fitsAux env fs vs = true) :
    ∃ bs, encAux env fs vs = .ok bs ∧ Bytes bs ∧ decAux env fs bs = .ok ⟨vs, false, []⟩ := by
  induction fs generalizing pre so env vs with
  | nil =>
    cases vs with
    | nil => exact ⟨[], rfl, Bytes.nil, rfl⟩
    | cons _ _ => simp [fitsAux] at hfit
  | cons f fs ih =>
    cases vs with
    | nil => simp [fitsAux] at hfit
    | cons v vs =>
      simp only [fitsAux, Bool.and_eq_true] at hfit
      obtain ⟨hff, hfr⟩ := hfit
      simp only [wfAux, Bool.and_eq_true, Bool.or_eq_true, Bool.not_eq_true'] at hwf
      obtain ⟨⟨⟨hp, hw⟩, hlast⟩, hrest⟩ := hwf
      obtain ⟨es, he1, he2, he3⟩ := ih (pre ++ [f]) _ (env ++ [v]) vs hrest hfr
      have hrem : isRemaining f.prim = true → es = [] := by
        intro hr
        rcases hlast with h | h
        · rw [hr] at h; cases h
        · have : fs = [] := by simpa using h
          subst this
          simp [encAux] at he1
          exact he1
      have habs : f.wrap = .optional → v = .none → es = [] := by
        intro ho hv
        have hall : allNone vs = true := by
          unfold fitsField at hff
          rw [ho] at hff
          simpa [hv] using hff
        have hwf' : wfAux (pre ++ [f]) true fs = true := by
          have : isOptional f.wrap = true := by rw [ho]; rfl
          simpa [this] using hrest
        have := (absent_tail (pre ++ [f]) (env ++ [v]) fs vs hwf' hall (fitsAux_length hfr)).1
        rw [this] at he1
        cases he1
        rfl
      obtain ⟨e, hf1, hf2, hf3, hf4⟩ :=
        field_roundtrip pre so env f v vs es hp hw hff hrem habs
      refine ⟨e ++ es, ?_, Bytes.append hf2 he2, ?_⟩
      · simp [encAux, hf1, he1]
      · simp [decAux, hf3, hf4, he3]

/-- **Round trip** for one layout: encode succeeds, the bytes decode to the same values with
nothing left over, and (trivially, the values being the same) re-encoding gives the same
bytes. -/
theorem roundtrip_layout (l : Layout) (vs : List Val) (hwf : l.wf = true) (hfit : Fits l vs = true) :
    ∃ bs, encode l vs = .ok bs ∧ Bytes bs ∧ decode l bs = .ok vs := by
  unfold Layout.wf at hwf
  simp only [Bool.and_eq_true] at hwf
  obtain ⟨bs, h1, h2, h3⟩ := roundtrip_aux [] false [] l vs hwf.1 hfit
  exact ⟨bs, h1, h2, by simp [decode, h3]⟩

end PyIpmi.Codec
