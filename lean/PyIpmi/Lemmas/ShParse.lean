/-
  Lemmas about Model.Ipmitool's output parser: splitting, stripping, the rules that do not
  fire on hexadecimal lines, and the round trip
      recv (printLines chunks) 0 = ok (0 :: chunks.flatten)
  for every way of wrapping the bytes into non-empty lines; `printRaw` (16 per line, the loop of
  ipmitool's `ipmi_raw_main`) is one such wrapping (`printRaw_lines`).
-/
import PyIpmi.Base.Bytes
import PyIpmi.Model.Ipmitool
namespace PyIpmi.Model.Ipmitool
open PyIpmi PyIpmi.Gen.Ipmitool

/-! ### split -/

theorem splitOn_ne_nil (sep : Nat) (l : Str) : splitOn sep l ≠ [] := by
  induction l with
  | nil => simp [splitOn]
  | cons c cs ih =>
    simp only [splitOn]
    split
    · simp
    · split <;> simp

theorem splitOn_sep (sep : Nat) (l rest : Str) (h : sep ∉ l) :
    splitOn sep (l ++ sep :: rest) = l :: splitOn sep rest := by
  induction l with
  | nil => simp [splitOn]
  | cons c l ih =>
    have hc : c ≠ sep := fun e => h (by simp [e])
    have hl : sep ∉ l := fun e => h (List.mem_cons_of_mem _ e)
    simp [splitOn, hc, ih hl]

theorem splitOn_none (sep : Nat) (l : Str) (h : sep ∉ l) : splitOn sep l = [l] := by
  induction l with
  | nil => simp [splitOn]
  | cons c l ih =>
    have hc : c ≠ sep := fun e => h (by simp [e])
    have hl : sep ∉ l := fun e => h (List.mem_cons_of_mem _ e)
    simp [splitOn, hc, ih hl]

/-! ### infix / prefix tests that cannot succeed -/

theorem isPrefix_mem {n h : Str} (hp : isPrefix n h = true) : ∀ c ∈ n, c ∈ h := by
  induction n generalizing h with
  | nil => intro c hc; cases hc
  | cons a as ih =>
    cases h with
    | nil => simp [isPrefix] at hp
    | cons b bs =>
      simp only [isPrefix, Bool.and_eq_true, beq_iff_eq] at hp
      intro c hc
      cases hc with
      | head => simp [hp.1]
      | tail _ hc => exact List.mem_cons_of_mem _ (ih hp.2 c hc)

theorem hasInfix_false_of_not_mem (c : Nat) (n hay : Str) (hn : c ∈ n) (hh : c ∉ hay) :
    hasInfix n hay = false := by
  induction hay with
  | nil =>
    cases n with
    | nil => cases hn
    | cons a as => simp [hasInfix, anySuffix, isPrefix]
  | cons x xs ih =>
    have h1 : isPrefix n (x :: xs) = false := by
      cases hp : isPrefix n (x :: xs) with
      | false => rfl
      | true => exact absurd (isPrefix_mem hp c hn) hh
    have h2 := ih (fun e => hh (List.mem_cons_of_mem _ e))
    simp only [hasInfix, anySuffix] at h2 ⊢
    simp [h1, h2]

theorem stripPrefix_head (a : Nat) (as l : Str) (h : l.head? ≠ some a) :
    stripPrefix (a :: as) l = Option.none := by
  cases l with
  | nil => rfl
  | cons b bs =>
    have : a ≠ b := fun e => h (by simp [e])
    simp [stripPrefix, this]

/-! ### strip -/

theorem lstrip_space (c : Nat) (l : Str) (h : isPySpace c = true) : lstrip (c :: l) = lstrip l := by
  simp [lstrip, h]

theorem lstrip_nonspace (c : Nat) (l : Str) (h : isPySpace c = false) : lstrip (c :: l) = c :: l := by
  simp [lstrip, h]

theorem rstrip_space (l : Str) (c : Nat) (h : isPySpace c = true) : rstrip (l ++ [c]) = rstrip l := by
  simp [rstrip, h]

theorem rstrip_nonspace (l : Str) (c : Nat) (h : isPySpace c = false) :
    rstrip (l ++ [c]) = l ++ [c] := by
  simp [rstrip, h]

theorem rstrip_of_last (l : Str) (c : Nat) (hl : l.getLast? = some c) (h : isPySpace c = false) :
    rstrip l = l := by
  obtain ⟨ys, rfl⟩ := List.getLast?_eq_some_iff.mp hl
  exact rstrip_nonspace ys c h

@[simp] theorem strip_nil : strip [] = [] := rfl

/-! ### hexadecimal tokens -/

/-- a non-empty run of lower-case hex digits -/
def HexTok (t : Str) : Prop := t ≠ [] ∧ ∀ c ∈ t, isLowerHex c = true

theorem isLowerHex_not_space {c : Nat} (h : isLowerHex c = true) : isPySpace c = false := by
  simp only [isLowerHex, Bool.or_eq_true, Bool.and_eq_true, decide_eq_true_eq] at h
  simp only [isPySpace, Bool.or_eq_false_iff, Bool.and_eq_false_iff, decide_eq_false_iff_not,
    beq_eq_false_iff_ne]
  omega

theorem isLowerHex_cases {c : Nat} (h : isLowerHex c = true) : (48 ≤ c ∧ c ≤ 57) ∨ (97 ≤ c ∧ c ≤ 102) := by
  simp only [isLowerHex, Bool.or_eq_true, Bool.and_eq_true, decide_eq_true_eq] at h
  exact h

/-- what the first/last character of a blank-joined token list is -/
theorem joinWith_head (t : Str) (ts : List Str) (ht : HexTok t) :
    ∃ c r, joinWith [32] (t :: ts) = c :: r ∧ isLowerHex c = true := by
  obtain ⟨hne, hh⟩ := ht
  cases t with
  | nil => exact absurd rfl hne
  | cons c r =>
    refine ⟨c, ?_, ?_, hh c (List.mem_cons_self)⟩
    · exact match ts with
        | [] => r
        | v :: vs => r ++ [32] ++ joinWith [32] (v :: vs)
    · cases ts <;> simp [joinWith]

theorem joinWith_last (ts : List Str) (hne : ts ≠ []) (h : ∀ t ∈ ts, HexTok t) :
    ∃ c, (joinWith [32] ts).getLast? = some c ∧ isLowerHex c = true := by
  induction ts with
  | nil => exact absurd rfl hne
  | cons t ts ih =>
    cases ts with
    | nil =>
      obtain ⟨h1, h2⟩ := h t (List.mem_cons_self)
      cases hl : t.getLast? with
      | none => exact absurd (List.getLast?_eq_none_iff.mp hl) h1
      | some c =>
        exact ⟨c, by simpa [joinWith] using hl, h2 c (List.mem_of_getLast? hl)⟩
    | cons v vs =>
      obtain ⟨c, hc1, hc2⟩ := ih (by simp) (fun x hx => h x (List.mem_cons_of_mem _ hx))
      refine ⟨c, ?_, hc2⟩
      simp only [joinWith]
      rw [List.getLast?_append, hc1]
      simp

/-- " aa bb cc" stripped is "aa bb cc" -/
theorem strip_cells (t : Str) (ts : List Str) (h : ∀ x ∈ t :: ts, HexTok x) :
    strip (32 :: joinWith [32] (t :: ts)) = joinWith [32] (t :: ts) := by
  obtain ⟨c, r, e, hc⟩ := joinWith_head t ts (h t (List.mem_cons_self))
  obtain ⟨d, hd1, hd2⟩ := joinWith_last (t :: ts) (by simp) h
  unfold strip
  rw [lstrip_space 32 _ (by decide), e, lstrip_nonspace c r (isLowerHex_not_space hc), ← e]
  exact rstrip_of_last _ d hd1 (isLowerHex_not_space hd2)

theorem joinWith_snoc_blank (t : Str) (ts : List Str) :
    joinWith [32] (t :: ts) ++ [32] = (t :: ts).flatMap (fun x => x ++ [32]) := by
  induction ts generalizing t with
  | nil => simp [joinWith]
  | cons v vs ih =>
    have := ih v
    simp only [joinWith, List.flatMap_cons] at this ⊢
    simp [← this]

/-- the accumulated `hexstr` ("aa bb cc " … plus the blank of the empty last line) stripped -/
theorem strip_acc (t : Str) (ts : List Str) (h : ∀ x ∈ t :: ts, HexTok x) :
    strip ((t :: ts).flatMap (fun x => x ++ [32]) ++ [32]) = joinWith [32] (t :: ts) := by
  obtain ⟨c, r, e, hc⟩ := joinWith_head t ts (h t (List.mem_cons_self))
  obtain ⟨d, hd1, hd2⟩ := joinWith_last (t :: ts) (by simp) h
  rw [← joinWith_snoc_blank]
  unfold strip
  have hl : lstrip (joinWith [32] (t :: ts) ++ [32] ++ [32]) = joinWith [32] (t :: ts) ++ [32] ++ [32] := by
    rw [e]
    exact lstrip_nonspace c _ (isLowerHex_not_space hc)
  rw [hl, rstrip_space _ 32 (by decide), rstrip_space _ 32 (by decide)]
  exact rstrip_of_last _ d hd1 (isLowerHex_not_space hd2)

theorem splitOn_joinWith (t : Str) (ts : List Str) (h : ∀ x ∈ t :: ts, (32 : Nat) ∉ x) :
    splitOn 32 (joinWith [32] (t :: ts)) = t :: ts := by
  induction ts generalizing t with
  | nil => simpa [joinWith] using splitOn_none 32 t (h t (List.mem_cons_self))
  | cons v vs ih =>
    have hv := ih v (fun x hx => h x (List.mem_cons_of_mem _ hx))
    simp only [joinWith]
    rw [List.append_assoc, List.singleton_append, splitOn_sep 32 t _ (h t (List.mem_cons_self)), hv]

theorem hexTok_no_blank {t : Str} (h : HexTok t) : (32 : Nat) ∉ t := by
  intro hm
  have := h.2 32 hm
  simp [isLowerHex] at this

/-! ### a hexadecimal line triggers none of the rules -/

/-- blanks and lower-case hex digits only -/
def HexSp (l : Str) : Prop := ∀ c ∈ l, c = 32 ∨ isLowerHex c = true

theorem hexSp_not_mem {l : Str} (h : HexSp l) (c : Nat) (hc : c ≠ 32) (hx : isLowerHex c = false) :
    c ∉ l := by
  intro hm
  rcases h c hm with e | e
  · exact hc e
  · rw [hx] at e; cases e

theorem hexSp_head {l : Str} (h : HexSp l) (a : Nat) (hc : a ≠ 32) (hx : isLowerHex a = false) :
    l.head? ≠ some a := by
  intro e
  cases l with
  | nil => cases e
  | cons b bs =>
    simp at e
    subst e
    exact hexSp_not_mem h b hc hx (List.mem_cons_self)

/-- one turn of the loop of `_parse_output` on a line of blanks and hex digits: accumulate -/
theorem parseLines_hex (l : Str) (ls : List Str) (acc : Str) (h : HexSp l) :
    parseLines (l :: ls) acc = parseLines ls (acc ++ strip l ++ [32]) := by
  have h1 : hasInfix skipWord l = false :=
    hasInfix_false_of_not_mem 105 _ _ (by decide) (hexSp_not_mem h 105 (by decide) (by decide))
  have h2 : reTimeout l = false := by
    unfold reTimeout
    rw [show toHead = 85 :: toHead.tail from rfl, stripPrefix_head 85 _ l (hexSp_head h 85 (by decide) (by decide))]
  have h3 : hasInfix reEstablish l = false :=
    hasInfix_false_of_not_mem 85 _ _ (by decide) (hexSp_not_mem h 85 (by decide) (by decide))
  have h4 : reCc l = Option.none := by
    unfold reCc
    rw [show ccHead = 85 :: ccHead.tail from rfl, stripPrefix_head 85 _ l (hexSp_head h 85 (by decide) (by decide))]
  have h5 : hasInfix reOpen l = false :=
    hasInfix_false_of_not_mem 117 _ _ (by decide) (hexSp_not_mem h 117 (by decide) (by decide))
  have h6 : hasInfix reLongPw l = false :=
    hasInfix_false_of_not_mem 112 _ _ (by decide) (hexSp_not_mem h 112 (by decide) (by decide))
  have h7 : l.filter (· ≠ dropChar) = l := by
    apply List.filter_eq_self.mpr
    intro c hc
    have : c ≠ 13 := fun e => hexSp_not_mem h 13 (by decide) (by decide) (e ▸ hc)
    exact decide_eq_true this
  rw [parseLines]
  simp only [h1, h2, h3, h4, h5, h6, h7, joinChar, Bool.false_eq_true, if_false]

/-! ### bytes -/

/-- facts about the 256 two-digit tokens, checked by evaluation -/
def byteFacts (b : Nat) : Bool :=
  (Spec.Ipmitool.hex02 b).all isLowerHex && !(Spec.Ipmitool.hex02 b).isEmpty
  && (pyIntHex (Spec.Ipmitool.hex02 b) == some (Int.ofNat b))

theorem byteFacts_all : (List.range 256).all byteFacts = true := by decide +kernel

theorem byte_tok {b : Nat} (hb : b < 256) :
    HexTok (Spec.Ipmitool.hex02 b) ∧ pyIntHex (Spec.Ipmitool.hex02 b) = some (Int.ofNat b) := by
  have := List.all_eq_true.mp byteFacts_all b (List.mem_range.mpr hb)
  simp only [byteFacts, Bool.and_eq_true, List.all_eq_true, Bool.not_eq_true', List.isEmpty_eq_false_iff,
    beq_iff_eq] at this
  exact ⟨⟨this.1.2, this.1.1⟩, this.2⟩

theorem mapOpt_bytes (bs : List Nat) (h : Bytes bs) :
    mapOpt pyIntHex (bs.map Spec.Ipmitool.hex02) = some (bs.map Int.ofNat) := by
  induction bs with
  | nil => rfl
  | cons b bs ih =>
    simp [mapOpt, (byte_tok (h.head)).2, ih h.tail]

theorem mapOpt_toByte (bs : List Nat) (h : Bytes bs) : mapOpt toByte (bs.map Int.ofNat) = some bs := by
  induction bs with
  | nil => rfl
  | cons b bs ih =>
    have hb : b < 256 := h.head
    have : toByte (b : Int) = some b := by
      unfold toByte
      rw [if_pos ⟨by omega, by omega⟩]
      simp
    simp only [List.map_cons, mapOpt, Int.ofNat_eq_natCast, this]
    rw [ih h.tail]

/-! ### the loop over a printed reply -/

/-- one printed line: " aa bb cc" -/
def cells (ch : List Nat) : Str := ch.flatMap Spec.Ipmitool.byteCell

theorem cells_cons (b : Nat) (bs : List Nat) :
    cells (b :: bs) = 32 :: joinWith [32] ((b :: bs).map Spec.Ipmitool.hex02) := by
  induction bs generalizing b with
  | nil => simp [cells, Spec.Ipmitool.byteCell, joinWith]
  | cons c cs ih =>
    have := ih c
    simp only [cells, List.flatMap_cons, List.map_cons, joinWith, Spec.Ipmitool.byteCell] at this ⊢
    simp [this]

theorem cells_hexSp (ch : List Nat) (h : Bytes ch) : HexSp (cells ch) := by
  induction ch with
  | nil => intro c hc; simp [cells] at hc
  | cons b bs ih =>
    intro c hc
    simp only [cells, List.flatMap_cons, Spec.Ipmitool.byteCell, List.mem_append, List.mem_cons] at hc
    rcases hc with (hc | hc) | hc
    · exact Or.inl hc
    · exact Or.inr ((byte_tok h.head).1.2 c hc)
    · exact ih h.tail c hc

theorem toks_hex (bs : List Nat) (h : Bytes bs) : ∀ x ∈ bs.map Spec.Ipmitool.hex02, HexTok x := by
  intro x hx
  obtain ⟨b, hb, rfl⟩ := List.mem_map.mp hx
  exact (byte_tok (h b hb)).1

theorem splitOn_printLines (chunks : List (List Nat)) (h : ∀ ch ∈ chunks, Bytes ch) :
    splitOn 10 (Spec.Ipmitool.printLines chunks) = chunks.map cells ++ [[]] := by
  induction chunks with
  | nil => simp [Spec.Ipmitool.printLines, splitOn]
  | cons ch rest ih =>
    have hh : (10 : Nat) ∉ cells ch :=
      hexSp_not_mem (cells_hexSp ch (h ch (List.mem_cons_self))) 10 (by decide) (by decide)
    have := ih (fun c hc => h c (List.mem_cons_of_mem _ hc))
    simp only [Spec.Ipmitool.printLines, List.flatMap_cons, List.map_cons, List.cons_append] at this ⊢
    rw [List.append_assoc, List.singleton_append]
    exact (splitOn_sep 10 _ _ hh).trans (by rw [this])

/-- the loop over the lines of a printed reply accumulates every byte's token followed by a blank -/
theorem parseLines_chunks (chunks : List (List Nat)) (acc : Str)
    (h : ∀ ch ∈ chunks, ch ≠ [] ∧ Bytes ch) :
    parseLines (chunks.map cells ++ [[]]) acc
      = .ok (Option.none, acc ++ (chunks.flatten.map Spec.Ipmitool.hex02).flatMap (fun x => x ++ [32]) ++ [32]) := by
  induction chunks generalizing acc with
  | nil =>
    have : HexSp [] := by intro c hc; cases hc
    simp [parseLines_hex [] [] acc this, parseLines]
  | cons ch rest ih =>
    obtain ⟨hne, hb⟩ := h ch (List.mem_cons_self)
    cases ch with
    | nil => exact absurd rfl hne
    | cons b bs =>
      have hst : strip (cells (b :: bs)) = joinWith [32] ((b :: bs).map Spec.Ipmitool.hex02) := by
        rw [cells_cons, List.map_cons]
        exact strip_cells _ _ (by simpa using toks_hex (b :: bs) hb)
      have hj : joinWith [32] ((b :: bs).map Spec.Ipmitool.hex02) ++ [32]
          = ((b :: bs).map Spec.Ipmitool.hex02).flatMap (fun x => x ++ [32]) := by
        rw [List.map_cons]
        exact joinWith_snoc_blank _ _
      rw [List.map_cons, List.cons_append, parseLines_hex _ _ _ (cells_hexSp _ hb),
        ih _ (fun c hc => h c (List.mem_cons_of_mem _ hc)), hst]
      simp only [List.flatten_cons, List.map_append, List.flatMap_append]
      rw [← hj]
      simp [List.append_assoc]

/-- every wrapping of the reply bytes into non-empty lines reads back as the bytes, behind a
completion code of 0 -/
theorem recv_printLines (chunks : List (List Nat)) (h : ∀ ch ∈ chunks, ch ≠ [] ∧ Bytes ch) :
    recv (Spec.Ipmitool.printLines chunks) 0 = .ok (0 :: chunks.flatten) := by
  have hb : Bytes chunks.flatten := by
    intro b hbm
    obtain ⟨ch, hch, hbc⟩ := List.mem_flatten.mp hbm
    exact (h ch hch).2 b hbc
  have e1 := splitOn_printLines chunks (fun ch hch => (h ch hch).2)
  have e2 := parseLines_chunks chunks [] h
  rw [List.nil_append] at e2
  cases hf : chunks.flatten with
  | nil =>
    rw [hf] at e2
    have hs : strip [32] = [] := by decide
    simp [recv, parseOutput, lineSep, e1, e2, Outcome.bind, hs]
  | cons b bs =>
    rw [hf] at hb e2
    have ht : ∀ x ∈ Spec.Ipmitool.hex02 b :: bs.map Spec.Ipmitool.hex02, HexTok x := by
      simpa using toks_hex (b :: bs) hb
    rw [List.map_cons] at e2
    have hs := strip_acc _ _ ht
    have hne : joinWith [32] (Spec.Ipmitool.hex02 b :: bs.map Spec.Ipmitool.hex02) ≠ [] := by
      obtain ⟨c, r, e, _⟩ := joinWith_head _ (bs.map Spec.Ipmitool.hex02) (ht _ (List.mem_cons_self))
      rw [e]; simp
    have hsp := splitOn_joinWith _ _ (fun x hx => hexTok_no_blank (ht x hx))
    have hm := mapOpt_bytes (b :: bs) hb
    have hy := mapOpt_toByte (b :: bs) hb
    rw [List.map_cons] at hm
    have hp : parseHexStr (joinWith [32] (Spec.Ipmitool.hex02 b :: bs.map Spec.Ipmitool.hex02))
        = .ok (b :: bs) := by
      simp only [parseHexStr, splitChar, hsp, hm, hy]
    have hpo : parseOutput (Spec.Ipmitool.printLines chunks) = .ok (Option.none, some (b :: bs)) := by
      simp only [parseOutput, lineSep, e1, e2, Outcome.bind_eq, Outcome.bind_ok, hs, hne, if_false, hp,
        Outcome.pure_eq]
    simp [recv, hpo, Outcome.bind]

/-! ### ipmitool's own wrapping is one of them -/

/-- lines of `printFrom i`: a new line starts in front of every index that is a multiple of 16 -/
def groupFrom (i : Nat) : List Nat → List (List Nat)
  | [] => []
  | b :: bs =>
    match groupFrom (i + 1) bs with
    | [] => [[b]]
    | g :: gs => if (i + 1) % 16 = 0 then [b] :: g :: gs else (b :: g) :: gs

theorem groupFrom_ne_nil (i : Nat) (b : Nat) (bs : List Nat) : groupFrom i (b :: bs) ≠ [] := by
  simp only [groupFrom]
  split
  · simp
  · split <;> simp

theorem groupFrom_flatten (i : Nat) (bs : List Nat) : (groupFrom i bs).flatten = bs := by
  induction bs generalizing i with
  | nil => rfl
  | cons b bs ih =>
    have := ih (i + 1)
    simp only [groupFrom]
    split
    · next e => rw [e] at this; simp at this; simp [← this]
    · next g gs e =>
      rw [e] at this
      split <;> simp [← this]

theorem groupFrom_nonempty (i : Nat) (bs : List Nat) : ∀ g ∈ groupFrom i bs, g ≠ [] := by
  induction bs generalizing i with
  | nil => intro g hg; cases hg
  | cons b bs ih =>
    have := ih (i + 1)
    simp only [groupFrom]
    split
    · intro g hg; simp at hg; simp [hg]
    · next g0 gs e =>
      rw [e] at this
      split
      · intro g hg
        simp only [List.mem_cons] at hg
        rcases hg with rfl | hg
        · simp
        · exact this g (by simpa using hg)
      · intro g hg
        simp only [List.mem_cons] at hg
        rcases hg with rfl | hg
        · simp
        · exact this g (List.mem_cons_of_mem _ hg)

theorem printFrom_lines (i : Nat) (b : Nat) (bs : List Nat) :
    Spec.Ipmitool.printFrom i (b :: bs)
      = (if i % 16 = 0 ∧ i ≠ 0 then [10] else []) ++ Spec.Ipmitool.printLines (groupFrom i (b :: bs)) := by
  induction bs generalizing i b with
  | nil => simp [Spec.Ipmitool.printFrom, Spec.Ipmitool.printLines, groupFrom]
  | cons c cs ih =>
    have h := ih (i + 1) c
    rw [Spec.Ipmitool.printFrom, h]
    have hne := groupFrom_ne_nil (i + 1) c cs
    simp only [groupFrom] at hne ⊢
    cases e : groupFrom (i + 1 + 1) cs with
    | nil =>
      simp only [e] at hne ⊢
      by_cases hm : (i + 1) % 16 = 0
      · simp [hm, Spec.Ipmitool.printLines]
      · simp [hm, Spec.Ipmitool.printLines]
    | cons g gs =>
      simp only [e] at hne ⊢
      by_cases hm : (i + 1) % 16 = 0 <;> by_cases hm2 : (i + 1 + 1) % 16 = 0 <;>
        simp [hm, hm2, Spec.Ipmitool.printLines]

/-- `ipmitool raw` prints its reply as the non-empty lines `groupFrom 0 bs` -/
theorem printRaw_lines (b : Nat) (bs : List Nat) :
    Spec.Ipmitool.printRaw (b :: bs) = Spec.Ipmitool.printLines (groupFrom 0 (b :: bs)) := by
  simpa [Spec.Ipmitool.printRaw] using printFrom_lines 0 b bs

end PyIpmi.Model.Ipmitool
