/-
  The handlers of Model/Prog.lean under ANY fault set (C08) -- the multi-fault versions of
  Lemmas/ProgHandlers.lean and Lemmas/ProgFru.lean.

  * `clearLoop_ms`, `clearRepository_ms`   reservation renewal while erasing
  * `andWait_ms`, `uploadBinary_ms`        HPM in-progress polling
  * `readFru_ms`, `readFruData_ms`         FRU request-size back-off
  * `componentProps_strict_ms`             get_component_properties (the 83h skip is not a fault)
-/
import PyIpmi.Lemmas.ProgMulti
import PyIpmi.Lemmas.ProgHandlers
import PyIpmi.Lemmas.ProgFru
namespace PyIpmi.Prog
open PyIpmi.Spec.FaultDevice

/-! ### helper._clear_repository / clear_repository_helper -/
section clear
variable (rc : Nat) (reserve : Prog Nat) (mk : Nat → Req) (busy : Rsp → Bool) (base : Req → Rsp)

theorem clearLoop_ms (Φ : (Nat → Option Nat) → Prop) (hfs : MultiSafeOn Φ base reserve)
    (res : Nat) (hres : ∀ n, outcome reserve (pureDev base) n = .ok res) (m : Nat) :
    MultiSafeOn Φ base (clearLoop rc reserve mk busy m res) := by
  induction m with
  | zero => rw [clearLoop]; exact ms_fail Φ base _
  | succ m ih =>
    intro φ hφ hΦ n
    rw [outcome_clearLoop_succ, outcome_clearLoop_succ, faultsDev_fst, pureDev_snd, pureDev_fst]
    have hbud : ∀ k, outcome (clearLoop rc reserve mk busy m res) (pureDev base) k = .error .retryError ∨
        outcome (clearLoop rc reserve mk busy m res) (pureDev base) k =
          outcome (clearStep rc reserve busy (clearLoop rc reserve mk busy m) res (base (mk res)))
            (pureDev base) (n + 1) := by
      intro k
      rcases clearLoop_budget rc reserve mk busy base res hres m k with h | h
      · exact Or.inl h
      · right
        rw [h, outcome_clearLoop_succ, pureDev_snd, pureDev_fst]
        exact outcome_pure_indep base _ _ _
    have hrest : ∀ k, SafeAny (Inj φ)
        (outcome (clearStep rc reserve busy (clearLoop rc reserve mk busy m) res (base (mk res)))
          (pureDev base) (n + 1))
        (outcome (clearLoop rc reserve mk busy m res) (faultsDev base φ) k) := by
      intro k
      rcases ih φ hφ hΦ k with ⟨c, hc, h⟩ | h | h | h
      · exact Or.inl ⟨c, hc, h⟩
      · exact Or.inr (Or.inl h)
      · exact Or.inr (Or.inr (Or.inl h))
      · rcases hbud k with hb | hb
        · rw [h, hb]; exact safeAny_retry _ _
        · rw [h, hb]; exact safeAny_same _ _
    cases hn : φ n with
    | some c =>
      rw [faultsDev_snd_some _ _ _ _ _ hn]
      have hc := hφ n c hn
      simp only [clearStep]
      rw [if_neg hc]
      by_cases h1 : c = rc
      · rw [if_pos h1]
        rcases hfs φ hφ hΦ (n + 1) with ⟨c', hc', h⟩ | h | h | h
        · rw [outcome_bind_error h]; exact safeAny_inj _ _ c' hc'
        · rw [outcome_bind_error h]; exact safeAny_retry _ _
        · rw [outcome_bind_error h]; exact safeAny_hpm _ _
        · rw [hres] at h
          rw [outcome_bind_ok h]
          exact hrest _
      · rw [if_neg h1]; exact safeAny_inj _ _ c ⟨n, hn⟩
    | none =>
      rw [faultsDev_snd_none _ _ _ _ hn]
      have hK : MultiSafeOn Φ base
          (clearStep rc reserve busy (clearLoop rc reserve mk busy m) res (base (mk res))) := by
        unfold clearStep
        split
        · split
          · exact ih
          · exact ms_done Φ base _
        · split
          · refine ms_bind Φ base _ _ hfs (fun a ha => ?_)
            obtain ⟨n', hn'⟩ := ha
            rw [hres n'] at hn'
            cases hn'
            exact ih
          · exact ms_fail Φ base _
      exact hK φ hφ hΦ (n + 1)

theorem clearRepository_ms (Φ : (Nat → Option Nat) → Prop) (mkInit mkStatus : Nat → Req)
    (hfs : MultiSafeOn Φ base reserve)
    (res : Nat) (hres : ∀ n, outcome reserve (pureDev base) n = .ok res) (budget : Nat) :
    MultiSafeOn Φ base (clearRepository rc reserve mkInit mkStatus busy budget) := by
  unfold clearRepository
  refine ms_bind Φ base _ _ hfs (fun r hr => ?_)
  obtain ⟨n, hn⟩ := hr
  rw [hres n] at hn
  cases hn
  refine ms_bind Φ base _ _ (clearLoop_ms rc reserve mkInit busy base Φ hfs res hres budget) (fun r' hr' => ?_)
  obtain ⟨n', hn'⟩ := hr'
  have := clearLoop_pure_val rc reserve mkInit busy base res hres budget n' r' hn'
  subst this
  exact ms_bind Φ base _ _ (clearLoop_ms rc reserve mkStatus busy base Φ hfs _ hres budget)
    (fun _ _ => ms_done Φ base _)

end clear

/-! ### HPM long-duration polling -/
section hpm
variable (base : Req → Rsp)

theorem andWait_ms (Φ : (Nat → Option Nat) → Prop) (inProg : Nat) (r : Req) (wait : Prog Unit)
    (hok : (base r).cc = 0) (hsafe : MultiSafeOn Φ base wait)
    (hwait : ∀ n, outcome wait (pureDev base) n = .ok ()) :
    MultiSafeOn Φ base (andWait inProg ((sendChecked r).bind fun _ => .done ()) wait) := by
  intro φ hφ hΦ n
  rw [outcome_andWait, outcome_andWait, pureDev_snd, if_pos hok, faultsDev_fst]
  cases hn : φ n with
  | some c =>
    rw [faultsDev_snd_some _ _ _ _ _ hn]
    have hc := hφ n c hn
    show SafeAny _ _ (if c = 0 then _ else if c = inProg then _ else _)
    rw [if_neg hc]
    by_cases h1 : c = inProg
    · rw [if_pos h1]
      have := hsafe φ hφ hΦ (n + 1)
      rw [hwait] at this
      exact this
    · rw [if_neg h1]; exact safeAny_hpm _ _
  | none =>
    rw [faultsDev_snd_none _ _ _ _ hn, if_pos hok]
    exact safeAny_same _ _

theorem waitLong_ms (Φ : (Nat → Option Nat) → Prop) (status : Req) (busy : Rsp → Bool) (polls : Nat) :
    MultiSafeOn Φ base (waitLong status busy polls) :=
  ms_of_checked Φ base _ (waitLong_checked status busy polls)

theorem uploadBinary_ms (Φ : (Nat → Option Nat) → Prop) (inProg : Nat) (wait : Prog Unit)
    (hsafe : MultiSafeOn Φ base wait) (hwait : ∀ n, outcome wait (pureDev base) n = .ok ())
    (blocks : List Req) (hok : ∀ b ∈ blocks, (base b).cc = 0) :
    MultiSafeOn Φ base (uploadBinary inProg wait blocks) := by
  induction blocks with
  | nil => rw [uploadBinary]; exact ms_done Φ base _
  | cons b bs ih =>
    rw [uploadBinary]
    refine ms_bind Φ base _ _ (andWait_ms base Φ inProg b wait (hok b (List.mem_cons_self)) hsafe hwait)
      (fun _ _ => ih (fun b' hb' => hok b' (List.mem_cons_of_mem _ hb')))

end hpm

/-! ### fru.read_fru_data -/
section fru
variable (mk : Nat → Nat → Req) (cnt : Rsp → Nat) (pay : Rsp → List Nat) (back : List Nat)
  (area : Nat) (base : Req → Rsp) (store : List Nat)

/-- The back-off loop under any fault set: every refusal makes the request smaller (or ends in
the refusal's code); the bytes returned are the stored ones. -/
theorem readFru_ms (Φ : (Nat → Option Nat) → Prop) (hdev : FruStorage mk cnt pay area base store)
    (f off rs : Nat) (acc : List Nat) (hf : (area - off) + rs + 1 ≤ f) (hrs : 1 ≤ rs) :
    MultiSafeOn Φ base (readFru mk cnt pay back area f off rs acc) := by
  intro φ hφ _ n
  rw [readFru_exact mk cnt pay back area base store hdev f off rs acc n (by omega) hrs]
  induction f generalizing off rs acc n with
  | zero => omega
  | succ f ih =>
    by_cases h : off < area
    · obtain ⟨h1, h2⟩ := fruClamp_bounds area off rs h hrs
      have h3 := fruClamp_le area off rs
      obtain ⟨d0, d1, d2⟩ := hdev off (fruClamp area off rs) h1 h2
      rw [outcome_readFru_succ (h := h), faultsDev_fst]
      cases hn : φ n with
      | some c =>
        rw [faultsDev_snd_some _ _ _ _ _ hn]
        have hc := hφ n c hn
        unfold fruStep
        show SafeAny _ _ (outcome (if c = 0 then _ else if back.contains c = true then _ else _) _ _)
        rw [if_neg hc]
        by_cases hb : back.contains c = true
        · rw [if_pos hb]
          by_cases h2' : fruClamp area off rs ≤ 2
          · rw [if_pos h2']; exact safeAny_inj _ _ c ⟨n, hn⟩
          · rw [if_neg h2']
            exact ih off _ acc (by omega) (by omega) (n + 1)
        · rw [if_neg hb]; exact safeAny_inj _ _ c ⟨n, hn⟩
      | none =>
        rw [faultsDev_snd_none _ _ _ _ hn]
        unfold fruStep
        rw [if_pos d0, d1, d2]
        have hih := ih (off + fruClamp area off rs) (fruClamp area off rs)
          (acc ++ (store.drop off).take (fruClamp area off rs)) (by omega) h1 (n + 1)
        rw [List.append_assoc, slice_append] at hih
        have he : fruClamp area off rs + (area - (off + fruClamp area off rs)) = area - off := by omega
        rw [he] at hih
        exact hih
    · rw [readFru, if_neg h]
      have : area - off = 0 := by omega
      rw [this]
      simp only [List.take_zero, List.append_nil]
      exact safeAny_same _ _

end fru

/-! ### fru area reads: read_fru_data(offset, count), _read_fru_area -/
section fruarea
variable (mk : Nat → Nat → Req) (cnt : Rsp → Nat) (pay : Rsp → List Nat) (back : List Nat)
  (base : Req → Rsp) (store : List Nat)

theorem readFruRange_pure (rs fuel off count n : Nat)
    (hdev : FruStorage mk cnt pay (off + count) base store) (hf : count + 1 ≤ fuel) (hrs : 1 ≤ rs) :
    outcome (readFruRange mk cnt pay back rs fuel off count) (pureDev base) n =
      .ok ((store.drop off).take count) := by
  unfold readFruRange
  rw [readFru_exact mk cnt pay back (off + count) base store hdev fuel off rs [] n (by omega) hrs]
  simp

theorem readFruRange_ms (Φ : (Nat → Option Nat) → Prop) (rs fuel off count : Nat)
    (hdev : FruStorage mk cnt pay (off + count) base store) (hf : count + rs + 1 ≤ fuel) (hrs : 1 ≤ rs) :
    MultiSafeOn Φ base (readFruRange mk cnt pay back rs fuel off count) := by
  unfold readFruRange
  exact readFru_ms mk cnt pay back (off + count) base store Φ hdev fuel off rs [] (by omega) hrs

/-- `_read_fru_area` on a device that serves every read inside its `N` bytes: the header and
the area it announces lie inside the device. -/
theorem readFruArea_ms (Φ : (Nat → Option Nat) → Prop) (N rs fuel off : Nat)
    (hdev : ∀ area, area ≤ N → FruStorage mk cnt pay area base store)
    (h5 : off + 5 ≤ N) (harea : off + ((store.drop off).take 5).getD 1 0 * 8 ≤ N)
    (hf : ((store.drop off).take 5).getD 1 0 * 8 + rs + 6 ≤ fuel) (hrs : 1 ≤ rs) :
    MultiSafeOn Φ base (readFruArea mk cnt pay back rs fuel off) := by
  unfold readFruArea
  refine ms_bind Φ base _ _
    (readFruRange_ms mk cnt pay back base store Φ rs fuel off 5 (hdev _ h5) (by omega) hrs) (fun d hd => ?_)
  obtain ⟨n, hn⟩ := hd
  rw [readFruRange_pure mk cnt pay back base store rs fuel off 5 n (hdev _ h5) (by omega) hrs] at hn
  cases hn
  exact readFruRange_ms mk cnt pay back base store Φ rs fuel off _ (hdev _ harea) (by omega) hrs

end fruarea

/-- read_fru_data(offset=None): Get FRU Inventory Area Info, then the loop. -/
theorem readFruData_ms (Φ : (Nat → Option Nat) → Prop) (info : Req) (areaOf : Rsp → Nat)
    (mk : Nat → Nat → Req) (cnt : Rsp → Nat) (pay : Rsp → List Nat) (back : List Nat)
    (base : Req → Rsp) (store : List Nat)
    (hdev : FruStorage mk cnt pay (areaOf (base info)) base store)
    (fuel reqSize : Nat) (hf : areaOf (base info) + reqSize + 1 ≤ fuel) (hrs : 1 ≤ reqSize) :
    MultiSafeOn Φ base (readFruData info areaOf mk cnt pay back fuel reqSize) := by
  unfold readFruData
  refine ms_bind Φ base _ _ (ms_sendChecked Φ base _) (fun rsp hr => ?_)
  obtain ⟨n, hn⟩ := hr
  have hrsp : rsp = base info := by
    unfold sendChecked at hn
    rw [outcome_send, pureDev_snd] at hn
    by_cases h0 : (base info).cc = 0
    · rw [if_pos h0] at hn; cases hn; rfl
    · rw [if_neg h0] at hn; cases hn
  subst hrsp
  exact readFru_ms mk cnt pay back _ base store Φ hdev fuel 0 reqSize [] (by omega) hrs

/-! ### hpm.get_component_properties, intended behaviour -/
section props
variable (base : Req → Rsp)

/-- Any fault set that does not inject the documented "invalid selector" code. -/
def NotInjected (inv : Nat) (φ : Nat → Option Nat) : Prop := ∀ n, φ n ≠ some inv

theorem componentProps_strict_ms (inv : Nat) (decode : Rsp → List Nat) (rs : List Req) :
    MultiSafeOn (NotInjected inv) base (componentProps true inv decode rs) := by
  induction rs with
  | nil => rw [componentProps]; exact ms_done _ base _
  | cons r rs ih =>
    rw [componentProps]
    refine ms_bind _ base _ _ ?_ (fun x _ => ms_bind _ base _ _ ih (fun l _ => ms_done _ base _))
    intro φ hφ hΦ n
    rw [outcome_propQuery, outcome_propQuery, pureDev_snd]
    cases hn : φ n with
    | some c =>
      rw [faultsDev_snd_some _ _ _ _ _ hn]
      have hc := hφ n c hn
      have hi : c ≠ inv := fun e => hΦ n (by rw [hn, e])
      show SafeAny _ _ (if c = 0 then _ else if c = inv then _ else _)
      rw [if_neg hc, if_neg hi]
      exact safeAny_inj _ _ c ⟨n, hn⟩
    | none =>
      rw [faultsDev_snd_none _ _ _ _ hn]
      exact safeAny_same _ _

end props

end PyIpmi.Prog
