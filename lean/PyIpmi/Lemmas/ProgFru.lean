/-
  fru.read_fru_data's request-size back-off is fault-safe against a consistent FRU storage.

  * `FruStorage`     the device hypothesis: asked for n ≥ 1 bytes inside the area it answers
                     OK with exactly those bytes of a fixed store
  * `readFru_exact`  fault-free: the loop returns the accumulated prefix followed by
                     store[off : area], whatever the request size (given enough fuel)
  * `readFru_fs`     with one injected code: error carrying the code, or the same bytes
-/
import PyIpmi.Lemmas.Prog
namespace PyIpmi.Prog
open PyIpmi.Spec.FaultDevice

section fru
variable (mk : Nat → Nat → Req) (cnt : Rsp → Nat) (pay : Rsp → List Nat) (back : List Nat)
  (area : Nat) (base : Req → Rsp) (store : List Nat)

/-- Asked for `n ≥ 1` bytes inside the area the device returns exactly them. -/
def FruStorage : Prop :=
  ∀ off n, 1 ≤ n → off + n ≤ area →
    (base (mk off n)).cc = 0 ∧ cnt (base (mk off n)) = n ∧
      pay (base (mk off n)) = (store.drop off).take n

theorem fruClamp_bounds (off rs : Nat) (h : off < area) (hrs : 1 ≤ rs) :
    1 ≤ fruClamp area off rs ∧ off + fruClamp area off rs ≤ area := by
  unfold fruClamp; split <;> omega

theorem fruClamp_le (off rs : Nat) : fruClamp area off rs ≤ rs := by
  unfold fruClamp; split <;> omega

theorem outcome_readFru_succ {σ : Type} (d : Dev σ) (s : σ) (f off rs : Nat) (acc : List Nat)
    (h : off < area) :
    outcome (readFru mk cnt pay back area (f + 1) off rs acc) d s =
      outcome (fruStep cnt pay back (readFru mk cnt pay back area f) off (fruClamp area off rs) acc
        (d s (mk off (fruClamp area off rs))).2) d (d s (mk off (fruClamp area off rs))).1 := by
  rw [readFru, if_pos h, outcome_send]

theorem slice_append (l : List Nat) (off a b : Nat) :
    (l.drop off).take a ++ (l.drop (off + a)).take b = (l.drop off).take (a + b) := by
  rw [List.take_add, List.drop_drop]

theorem readFru_exact (hdev : FruStorage mk cnt pay area base store)
    (f off rs : Nat) (acc : List Nat) (m : Nat) (hf : area - off + 1 ≤ f) (hrs : 1 ≤ rs) :
    outcome (readFru mk cnt pay back area f off rs acc) (pureDev base) m =
      .ok (acc ++ (store.drop off).take (area - off)) := by
  induction f generalizing off rs acc m with
  | zero => omega
  | succ f ih =>
    by_cases h : off < area
    · rw [outcome_readFru_succ (h := h), pureDev_snd, pureDev_fst]
      obtain ⟨h1, h2⟩ := fruClamp_bounds area off rs h hrs
      obtain ⟨d0, d1, d2⟩ := hdev off (fruClamp area off rs) h1 h2
      unfold fruStep
      rw [if_pos d0, d1, d2, ih _ _ _ _ (by omega) h1, List.append_assoc, slice_append]
      congr 3
      omega
    · rw [readFru, if_neg h]
      have : area - off = 0 := by omega
      rw [this]
      simp [outcome_done]

theorem readFru_fs (P : Nat → Prop) (hdev : FruStorage mk cnt pay area base store)
    (f off rs : Nat) (acc : List Nat) (hf : area - off + 2 ≤ f) (hrs : 1 ≤ rs) :
    FaultSafeOn P base (readFru mk cnt pay back area f off rs acc) := by
  induction f generalizing off rs acc with
  | zero => omega
  | succ f ih =>
    intro n k c hc hP
    by_cases h : off < area
    · obtain ⟨h1, h2⟩ := fruClamp_bounds area off rs h hrs
      obtain ⟨d0, d1, d2⟩ := hdev off (fruClamp area off rs) h1 h2
      rw [readFru_exact mk cnt pay back area base store hdev (f + 1) off rs acc n (by omega) hrs]
      by_cases hk : n = k
      · subst hk
        rw [outcome_readFru_succ (h := h), faultDev_snd_eq, faultDev_fst]
        unfold fruStep
        show Safe c _ (outcome (if c = 0 then _ else if back.contains c = true then _ else _) _ _)
        rw [if_neg hc]
        by_cases hb : back.contains c = true
        · rw [if_pos hb]
          by_cases h2' : fruClamp area off rs ≤ 2
          · rw [if_pos h2']; exact Or.inl rfl
          · rw [if_neg h2', outcome_fault_past base _ (n + 1) n c (by omega),
              readFru_exact mk cnt pay back area base store hdev f off _ acc (n + 1) (by omega) (by omega)]
            exact safe_same _ _
        · rw [if_neg hb]; exact Or.inl rfl
      · rw [outcome_readFru_succ (h := h), faultDev_snd_ne _ _ _ _ _ hk, faultDev_fst]
        unfold fruStep
        rw [if_pos d0, d1, d2]
        have hih := ih (off + fruClamp area off rs) (fruClamp area off rs)
          (acc ++ (store.drop off).take (fruClamp area off rs)) (by omega) h1 (n + 1) k c hc hP
        rw [readFru_exact mk cnt pay back area base store hdev f _ _ _ (n + 1) (by omega) h1,
          List.append_assoc, slice_append] at hih
        have he : fruClamp area off rs + (area - (off + fruClamp area off rs)) = area - off := by omega
        rw [he] at hih
        exact hih
    · rw [readFru, if_neg h]
      exact fs_done P base _ n k c hc hP

end fru
end PyIpmi.Prog
