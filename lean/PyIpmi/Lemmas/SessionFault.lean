/-
  Lemmas for C06, fourth part: the handshake that FAILS — a request of the handshake gets no
  answer for the whole retry budget, or the BMC refuses it with an error completion code — and the
  caller's clean-up `close_session()` afterwards.  The peer is any relay of the reference BMC
  (`Relay`, Lemmas/SessionBmc.lean); the fault is described the way `LossRun` / `Within` describe
  bounded losses: by what the peer does from a given state on, whatever the datagrams are.
-/
import PyIpmi.Lemmas.SessionRun
namespace PyIpmi.Session
open PyIpmi PyIpmi.RmcpWire PyIpmi.Gen.RmcpFormats PyIpmi.Spec.Lan PyIpmi.Spec.BmcSession PyIpmi.Props.C05

section defs
variable {σ : Type} (md5 : List Nat → List Nat) (b : BmcCfg) (P : σ → List Nat → σ × Option (List Nat))
  (π : σ → BmcState) (lostAt : σ → Bool)

/-- the next `n` datagrams are lost (the BMC does not act, nothing comes back), then `Q` holds -/
def AllLost (Q : σ → Prop) : Nat → σ → Prop
  | 0, s => Q s
  | n + 1, s => lostAt s = true ∧ (∀ d, (P s d).2 = none) ∧ ∀ d, AllLost Q n (P s d).1

/-- the datagram that arrives in state `s` is refused with completion code `cc`: the BMC does not
act on it, and — if the monitor has nothing to object to — the refusal comes back; then `Q` -/
def Refused (cc : Nat) (Q : σ → Prop) (s : σ) : Prop :=
  lostAt s = true ∧ ∀ d, (∀ st' r, stepLost md5 b (π s) d = (st', .reply r) →
    (P s d).2 = some (refusal md5 b (π s) cc d)) ∧ Q (P s d).1

/-- the request that starts in state `s` fails: silence for the whole retry budget (`R + 1`
transmissions), or a refusal with an error completion code; then `Q` -/
def Fails (R : Nat) (Q : σ → Prop) : Fault → σ → Prop
  | .silence, s => AllLost P lostAt Q (R + 1) s
  | .refuse cc, s => cc ≠ 0 ∧ Refused md5 b P π lostAt cc Q s

/-- `j` requests go through (at most `R` datagrams lost in each), the next one fails with `f`,
then `Q` -/
def FailsAt (R : Nat) (f : Fault) (Q : σ → Prop) : Nat → σ → Prop
  | 0, s => Fails md5 b P π lostAt R Q f s
  | j + 1, s => ∃ k, k ≤ R ∧ LossRun P lostAt (FailsAt R f Q j) k s

end defs

theorem decode_refused (w : List Nat) (cc : Nat) (h : cc ≠ 0) : decodeRsp w [cc] = .ccError cc := by
  simp [decodeRsp, ccOk, h]

/-- what the client reads from a refusal of the request it has just sent -/
theorem rxStep_refusal (md5 : List Nat → List Nat) (hmd5 : ∀ x, (md5 x).length = 16) (cfg : Cfg) (b : BmcCfg)
    (st : BmcState) (h : ReqHdr) (cmd : Nat) (data d : List Nat) (p : LanPacket) (cc : Nat)
    (hh : BmcHdr h cmd) (hcmd : cmd ≠ 52) (hp : parseLan d = some p) (hpl : p.payload = ipmbEncode h data)
    (ha : p.auth = 0 ∨ p.auth = 4 ∨ p.auth = 2) (hpw : b.pw.length ≤ 16) (hsid : p.sid < 4294967296)
    (hseq : st.outSeq < 4294967296) :
    rxStep cfg h (some (refusal md5 b st cc d)) = .ok [cc] := by
  have hq : parseIpmiReq p.payload = some (reqOf h data) := by
    rw [hpl]; exact parseIpmiReq_encode _ _ (by simp [hh.rsLun]) (by simp [hh.rqLun])
  simp only [refusal, hp, hq]
  exact rxStep_reply md5 hmd5 cfg h data p.auth b.pw p.sid st.outSeq cc [] ha hpw hsid hseq hh.netfn
    (by simp [hh.rsLun]) (by simp [hh.rqLun]) (by simpa [hh.cmd, cmdSendMessage] using hcmd)

section loops
variable {σ : Type} {md5 : List Nat → List Nat} (hmd5 : ∀ x, (md5 x).length = 16) {b : BmcCfg} {cfg : Cfg}
  (conf : Conforming b cfg) {P : σ → List Nat → σ × Option (List Nat)} {π : σ → BmcState} {lostAt : σ → Bool}
  (rel : Relay md5 b P π lostAt)

include rel in
/-- before the session is active: every one of the `n` attempts is lost; the BMC stays where it was -/
theorem loop_static_lost (h : ReqHdr) (sdu : List Nat) (st : BmcState) (CI : Client → Prop)
    (hfact : ∀ c, CI c → ∃ d r c', packStep md5 c sdu = (c', .ok d) ∧ CI c' ∧ stepLost md5 b st d = (st, .reply r))
    (Q : σ → Prop) :
    ∀ (n : Nat) (s : σ) (c : Client), π s = st → CI c → AllLost P lostAt Q n s →
      ∃ ds s' c', tryLoop md5 P cfg h sdu n s c = (s', c', ds, .retryError) ∧ ds.length = n ∧ CI c' ∧ π s' = st ∧ Q s' := by
  intro n
  induction n with
  | zero =>
    intro s c hs hc hl
    exact ⟨[], s, c, by simp [tryLoop], rfl, hc, hs, hl⟩
  | succ n ih =>
    intro s c hs hc hl
    obtain ⟨d, r, c', h1, h2, h3⟩ := hfact c hc
    have r1 := relay_lost rel s hl.1 d r st (by rw [hs]; exact h3)
    have r2 := hl.2.1 d
    obtain ⟨ds, s', c'', i1, i2, i3, i4, i5⟩ := ih (P s d).1 c' r1 h2 (hl.2.2 d)
    refine ⟨d :: ds, s', c'', ?_, by simp [i2], i3, i4, i5⟩
    rw [tryLoop_lost md5 P cfg h sdu n s c c' d h1 r2, i1]

include rel in
/-- before the session is active: the request is refused; the BMC stays where it was -/
theorem loop_static_refused (h : ReqHdr) (sdu : List Nat) (st : BmcState) (CI : Client → Prop) (cc : Nat)
    (hfact : ∀ c, CI c → ∃ d r c', packStep md5 c sdu = (c', .ok d) ∧ CI c' ∧ stepLost md5 b st d = (st, .reply r) ∧
      rxStep cfg h (some (refusal md5 b st cc d)) = .ok [cc])
    (Q : σ → Prop) (n : Nat) (s : σ) (c : Client) (hs : π s = st) (hc : CI c)
    (hr : Refused md5 b P π lostAt cc Q s) :
    ∃ d s' c', tryLoop md5 P cfg h sdu (n + 1) s c = (s', c', [d], .ok [cc]) ∧ CI c' ∧ π s' = st ∧ Q s' := by
  obtain ⟨d, r, c', h1, h2, h3, h4⟩ := hfact c hc
  have r1 := relay_lost rel s hr.1 d r st (by rw [hs]; exact h3)
  have r2 := (hr.2 d).1 st r (by rw [hs]; exact h3)
  rw [hs] at r2
  exact ⟨d, (P s d).1, c', tryLoop_answered md5 P cfg h sdu n s c c' d [cc] h1 (by rw [r2]; exact h4), h2, r1, (hr.2 d).2⟩

include rel in
/-- a request before the session is active fails (silence for the whole budget / refusal): the
outcome of the retry loop is `RetryError` or the payload `[cc]`, the BMC stays where it was -/
theorem loop_static_fails (h : ReqHdr) (sdu : List Nat) (st : BmcState) (CI : Client → Prop)
    (hfact : ∀ c, CI c → ∃ d r c', packStep md5 c sdu = (c', .ok d) ∧ CI c' ∧ stepLost md5 b st d = (st, .reply r) ∧
      ∀ cc, rxStep cfg h (some (refusal md5 b st cc d)) = .ok [cc])
    (Q : σ → Prop) (f : Fault) (s : σ) (c : Client) (hs : π s = st) (hc : CI c)
    (hf : Fails md5 b P π lostAt cfg.maxRetries Q f s) :
    ∃ ds s' c' o, tryLoop md5 P cfg h sdu (cfg.maxRetries + 1) s c = (s', c', ds, o) ∧ CI c' ∧ π s' = st ∧ Q s' ∧
      (o = .retryError ∨ ∃ cc, cc ≠ 0 ∧ o = .ok [cc]) := by
  cases f with
  | silence =>
    obtain ⟨ds, s', c', h1, _, h3, h4, h5⟩ := loop_static_lost rel (cfg := cfg) h sdu st CI
      (fun c hc => by obtain ⟨d, r, c', g1, g2, g3, _⟩ := hfact c hc; exact ⟨d, r, c', g1, g2, g3⟩)
      Q (cfg.maxRetries + 1) s c hs hc hf
    exact ⟨ds, s', c', _, h1, h3, h4, h5, Or.inl rfl⟩
  | refuse cc =>
    obtain ⟨d, s', c', h1, h2, h3, h4⟩ := loop_static_refused rel (cfg := cfg) h sdu st CI cc
      (fun c hc => by obtain ⟨d, r, c', g1, g2, g3, g4⟩ := hfact c hc; exact ⟨d, r, c', g1, g2, g3, g4 cc⟩)
      Q cfg.maxRetries s c hs hc hf.2
    exact ⟨[d], s', c', _, h1, h2, h3, h4, Or.inr ⟨cc, hf.1, rfl⟩⟩

/-! ### one attempt of each step, with what a refusal of it would look like to the client -/

include hmd5 conf in
theorem att_authCap (st : BmcState) (c : Client) (h : ReqHdr) (hh : BmcHdr h 56) (hph : st.phase = .pinged)
    (hout : st.outSeq < 4294967296) (hat : c.attached = false) :
    ∃ d r, packStep md5 c (ipmbEncode h [0x0e, cfg.priv % 16]) = (c, .ok d) ∧ stepLost md5 b st d = (st, .reply r) ∧
      ∀ cc, rxStep cfg h (some (refusal md5 b st cc d)) = .ok [cc] := by
  obtain ⟨d, r, g1, _, _, _, g5, _⟩ := bmc_authCap md5 hmd5 b cfg conf st c h hh hph hat
  obtain ⟨d', h1, h2⟩ := pack_unattached md5 c (ipmbEncode h [0x0e, cfg.priv % 16]) hat (by simp [ipmbEncode_length])
  have hd : d' = d := by rw [g1] at h1; simpa using h1.symm
  subst hd
  exact ⟨d', r, g1, g5, fun cc => rxStep_refusal md5 hmd5 cfg b st h 56 _ d' _ cc hh (by decide) h2 rfl (Or.inl rfl)
    (by rw [conf.pw]; exact conf.pwLen) (by simp) hout⟩

include hmd5 conf in
theorem att_challenge (st : BmcState) (c : Client) (h : ReqHdr) (a : Nat) (hh : BmcHdr h 57)
    (ha : a = 0 ∨ a = 4 ∨ a = 2) (hoff : offered b.caps a = true) (hph : st.phase = .capsSent)
    (hout : st.outSeq < 4294967296) (hat : c.attached = false) :
    ∃ d r, packStep md5 c (ipmbEncode h ([a % 16] ++ userField cfg.user)) = (c, .ok d) ∧
      stepLost md5 b st d = (st, .reply r) ∧ ∀ cc, rxStep cfg h (some (refusal md5 b st cc d)) = .ok [cc] := by
  obtain ⟨d, r, g1, _, _, _, g5, _⟩ := bmc_challenge md5 hmd5 b cfg conf st c h a hh ha hoff hph hat
  have hul : (userField cfg.user).length = 16 := by rw [userField_eq]; exact pad16_length cfg.user conf.userLen
  obtain ⟨d', h1, h2⟩ := pack_unattached md5 c (ipmbEncode h ([a % 16] ++ userField cfg.user)) hat
    (by simp [ipmbEncode_length, hul])
  have hd : d' = d := by rw [g1] at h1; simpa using h1.symm
  subst hd
  exact ⟨d', r, g1, g5, fun cc => rxStep_refusal md5 hmd5 cfg b st h 57 _ d' _ cc hh (by decide) h2 rfl (Or.inl rfl)
    (by rw [conf.pw]; exact conf.pwLen) (by simp) hout⟩

include hmd5 conf in
theorem att_activate (st : BmcState) (c : Client) (h : ReqHdr) (a q : Nat) (hh : BmcHdr h 58)
    (ha : a = 0 ∨ a = 4 ∨ a = 2) (hph : st.phase = .challenged a) (hout : st.outSeq < 4294967296)
    (hc : Activating b cfg a q c) :
    ∃ d r c', packStep md5 c (ipmbEncode h ([a % 16, cfg.priv % 16] ++ b.challenge ++ leBytes 4 cfg.outSeq)) = (c', .ok d) ∧
      Activating b cfg a q c' ∧ c'.s.activated = c.s.activated ∧ stepLost md5 b st d = (st, .reply r) ∧
      ∀ cc, rxStep cfg h (some (refusal md5 b st cc d)) = .ok [cc] := by
  obtain ⟨d, r, c', g1, g2, _, _, _, g6, _⟩ := bmc_activate md5 hmd5 b cfg conf st c h a q hh ha hph hc
  obtain ⟨d', code, h1, _, h3⟩ := pack_attached md5 hmd5 c
    (ipmbEncode h ([a % 16, cfg.priv % 16] ++ b.challenge ++ leBytes 4 cfg.outSeq)) hc.attached (by rw [hc.auth]; exact ha)
    (by rw [hc.sid]; exact conf.tempSid) (by rw [hc.seq0]; decide) (by rw [hc.pw]; exact conf.pwLen)
    (by simp [ipmbEncode_length, conf.chalLen])
  have hd : c' = { c with s := { c.s with seq := carriedSeq c.s } } ∧ d = d' := by
    rw [g1] at h1; simpa using h1
  obtain ⟨hc', hd⟩ := hd
  subst hd
  refine ⟨d, r, c', g1, g2, by rw [hc'], g6, fun cc => ?_⟩
  exact rxStep_refusal md5 hmd5 cfg b st h 58 _ d _ cc hh (by decide) h3 rfl (by simp only; rw [hc.auth]; exact ha)
    (by rw [conf.pw]; exact conf.pwLen) (by simp only; rw [hc.sid]; exact conf.tempSid) hout


include hmd5 conf in
theorem att_inSession (st : BmcState) (c : Client) (h : ReqHdr) (a : Nat) (last : Option Nat) (cmd : Nat)
    (data rdata : List Nat) (ph : Nat → Phase) (hh : BmcHdr h cmd) (ha : a = 0 ∨ a = 4 ∨ a = 2)
    (live : Live b cfg a last st c) (hlen : data.length + 7 ≤ 255) (hcmd : cmd ≠ 52)
    (hin : ∀ seq, inSession md5 b st a seq (reqOf h data) =
      ({ st with phase := ph seq, outSeq := nextSeq st.outSeq },
       .reply (lanPacket md5 a b.pw b.sid st.outSeq (ipmiRsp (reqOf h data) 0 rdata)))) :
    ∃ d r, packStep md5 c (ipmbEncode h data) = ({ c with s := { c.s with seq := nextSeq c.s.seq } }, .ok d) ∧
      stepLost md5 b st d = ({ st with phase := .active a (some (nextSeq c.s.seq)) }, .reply r) ∧
      ∀ cc, rxStep cfg h (some (refusal md5 b st cc d)) = .ok [cc] := by
  obtain ⟨d, r, g1, _, _, _, g5, _⟩ := bmc_inSession md5 hmd5 b cfg conf st c h a last cmd data rdata ph hh ha live hlen hcmd hin
  obtain ⟨d', code, h1, _, h3⟩ := pack_attached md5 hmd5 c (ipmbEncode h data) live.attached
    (by rw [live.auth]; exact ha) (by rw [live.sid]; exact conf.sid) live.seqLt (by rw [live.pw]; exact conf.pwLen)
    (by rw [ipmbEncode_length]; exact hlen)
  have hd : d = d' := by
    rw [g1] at h1
    have := congrArg Prod.snd h1
    simpa using this
  subst hd
  refine ⟨d, r, g1, g5, fun cc => ?_⟩
  exact rxStep_refusal md5 hmd5 cfg b st h cmd _ d _ cc hh hcmd h3 rfl (by simp only; rw [live.auth]; exact ha)
    (by rw [conf.pw]; exact conf.pwLen) (by simp only; rw [live.sid]; exact conf.sid) live.outSeq

include hmd5 conf rel in
/-- inside the session every one of the `n + 1` attempts is lost: each has taken the next sequence
number, the monitor has counted them, the session is still up -/
theorem loop_session_lost (h : ReqHdr) (cmd : Nat) (data rdata : List Nat) (ph : Nat → Phase) (a : Nat)
    (hh : BmcHdr h cmd) (ha : a = 0 ∨ a = 4 ∨ a = 2) (hlen : data.length + 7 ≤ 255) (hcmd : cmd ≠ 52)
    (hin : ∀ st seq, inSession md5 b st a seq (reqOf h data) =
      ({ st with phase := ph seq, outSeq := nextSeq st.outSeq },
       .reply (lanPacket md5 a b.pw b.sid st.outSeq (ipmiRsp (reqOf h data) 0 rdata))))
    (Q : σ → Prop) :
    ∀ (n : Nat) (s : σ) (c : Client) (last : Option Nat), Live b cfg a last (π s) c → AllLost P lostAt Q (n + 1) s →
      ∃ ds s', tryLoop md5 P cfg h (ipmbEncode h data) (n + 1) s c =
          (s', { c with s := { c.s with seq := seqAfter (n + 1) c.s.seq } }, ds, .retryError) ∧
        Live b cfg a (some (seqAfter (n + 1) c.s.seq)) (π s') { c with s := { c.s with seq := seqAfter (n + 1) c.s.seq } } ∧
        (π s').bad = (π s).bad ∧ Q s' := by
  intro n
  induction n with
  | zero =>
    intro s c last live hl
    obtain ⟨d, r, h1, h5, _⟩ := att_inSession hmd5 conf (π s) c h a last cmd data rdata ph hh ha live hlen hcmd (hin (π s))
    have r1 := relay_lost rel s hl.1 d r _ h5
    have r2 := hl.2.1 d
    have e : seqAfter (0 + 1) c.s.seq = nextSeq c.s.seq := rfl
    rw [e]
    refine ⟨[d], (P s d).1, ?_, ?_, by rw [r1], hl.2.2 d⟩
    · rw [tryLoop_lost md5 P cfg h _ 0 s c _ d h1 r2]
      simp [tryLoop]
    · exact ⟨by rw [r1], by rw [r1]; exact live.outSeq, live.attached, live.auth, live.sid, live.act, live.pw, rfl,
        nextSeq_lt _ live.seqLt⟩
  | succ n ih =>
    intro s c last live hl
    obtain ⟨d, r, h1, h5, _⟩ := att_inSession hmd5 conf (π s) c h a last cmd data rdata ph hh ha live hlen hcmd (hin (π s))
    have r1 := relay_lost rel s hl.1 d r _ h5
    have r2 := hl.2.1 d
    have live' : Live b cfg a (some (nextSeq c.s.seq)) (π (P s d).1) { c with s := { c.s with seq := nextSeq c.s.seq } } :=
      ⟨by rw [r1], by rw [r1]; exact live.outSeq, live.attached, live.auth, live.sid, live.act, live.pw, rfl,
        nextSeq_lt _ live.seqLt⟩
    obtain ⟨ds, s', i1, i2, i3, i4⟩ := ih (P s d).1 _ _ live' (hl.2.2 d)
    refine ⟨d :: ds, s', ?_, i2, by rw [i3, r1], i4⟩
    rw [tryLoop_lost md5 P cfg h _ (n + 1) s c _ d h1 r2, i1]
    rfl

include hmd5 conf rel in
/-- inside the session the request is refused: it has taken the next sequence number, the monitor
has counted it, the session is still up -/
theorem loop_session_refused (h : ReqHdr) (cmd : Nat) (data rdata : List Nat) (ph : Nat → Phase) (a : Nat)
    (hh : BmcHdr h cmd) (ha : a = 0 ∨ a = 4 ∨ a = 2) (hlen : data.length + 7 ≤ 255) (hcmd : cmd ≠ 52)
    (hin : ∀ st seq, inSession md5 b st a seq (reqOf h data) =
      ({ st with phase := ph seq, outSeq := nextSeq st.outSeq },
       .reply (lanPacket md5 a b.pw b.sid st.outSeq (ipmiRsp (reqOf h data) 0 rdata))))
    (Q : σ → Prop) (cc n : Nat) (s : σ) (c : Client) (last : Option Nat) (live : Live b cfg a last (π s) c)
    (hr : Refused md5 b P π lostAt cc Q s) :
    ∃ d s', tryLoop md5 P cfg h (ipmbEncode h data) (n + 1) s c =
        (s', { c with s := { c.s with seq := nextSeq c.s.seq } }, [d], .ok [cc]) ∧
      Live b cfg a (some (nextSeq c.s.seq)) (π s') { c with s := { c.s with seq := nextSeq c.s.seq } } ∧
      (π s').bad = (π s).bad ∧ Q s' := by
  obtain ⟨d, r, h1, h5, h6⟩ := att_inSession hmd5 conf (π s) c h a last cmd data rdata ph hh ha live hlen hcmd (hin (π s))
  have r1 := relay_lost rel s hr.1 d r _ h5
  have r2 := (hr.2 d).1 _ r h5
  refine ⟨d, (P s d).1, tryLoop_answered md5 P cfg h _ n s c _ d [cc] h1 (by rw [r2]; exact h6 cc), ?_, by rw [r1],
    (hr.2 d).2⟩
  exact ⟨by rw [r1], by rw [r1]; exact live.outSeq, live.attached, live.auth, live.sid, live.act, live.pw, rfl,
    nextSeq_lt _ live.seqLt⟩

/-! ### a step of the handshake fails -/

include hmd5 conf rel in
theorem fail_authCap (s : σ) (c : Client) (Q : σ → Prop) (f : Fault)
    (hf : Fails md5 b P π lostAt cfg.maxRetries Q f s) (hph : (π s).phase = .pinged)
    (hout : (π s).outSeq < 4294967296) (hat : c.attached = false) :
    ∃ ds s' e, e.isOk = false ∧ π s' = π s ∧ Q s' ∧
      ∀ sent, estabAuthCap md5 P cfg sent s c =
        ⟨s', { c with rqSeq := (c.rqSeq + 1) % 64 }, sent ++ tagAll .authCap ds, e⟩ := by
  obtain ⟨ds, s', c', o, h1, h2, h3, h4, h5⟩ := loop_static_fails rel (cfg := cfg) (hdrOf cfg c 56)
    (ipmbEncode (hdrOf cfg c 56) [0x0e, cfg.priv % 16]) (π s) (fun c' => c' = { c with rqSeq := (c.rqSeq + 1) % 64 })
    (by
      intro c' hc'
      subst hc'
      obtain ⟨d, r, g1, g2, g3⟩ := att_authCap hmd5 conf (π s) { c with rqSeq := (c.rqSeq + 1) % 64 } (hdrOf cfg c 56)
        (bmcHdr_hdrOf cfg c 56 conf.rsSa) hph hout hat
      exact ⟨d, r, _, g1, rfl, g2, g3⟩)
    Q f s _ rfl rfl hf
  subst h2
  rcases h5 with h5 | ⟨cc, hcc, h5⟩ <;> subst h5
  · refine ⟨ds, s', .retryError, rfl, h3, h4, fun sent => ?_⟩
    simp only [estabAuthCap, Gen.RmcpFormats.netfnApp, Gen.RmcpFormats.cmdGetAuthCap, exchange_eq, h1]
  · refine ⟨ds, s', .ccError cc, rfl, h3, h4, fun sent => ?_⟩
    simp only [estabAuthCap, Gen.RmcpFormats.netfnApp, Gen.RmcpFormats.cmdGetAuthCap, exchange_eq, h1,
      decode_refused _ cc hcc]

include hmd5 conf rel in
theorem fail_challenge (s : σ) (c : Client) (a : Nat) (sup : List (List Nat)) (Q : σ → Prop) (f : Fault)
    (hf : Fails md5 b P π lostAt cfg.maxRetries Q f s) (hph : (π s).phase = .capsSent)
    (hout : (π s).outSeq < 4294967296) (hat : c.attached = false)
    (hsup : (sup.getD 1 []).getD 0 0 = b.caps % 64)
    (hch : chooseAuth cfg.pref (b.caps % 64) = some a) (ha : a = 0 ∨ a = 4 ∨ a = 2) (hoff : offered b.caps a = true) :
    ∃ ds s' e, e.isOk = false ∧ π s' = π s ∧ Q s' ∧
      ∀ sent, estabChallenge md5 P cfg sent s c sup =
        ⟨s', { c with rqSeq := (c.rqSeq + 1) % 64, s := { c.s with auth := a } }, sent ++ tagAll .challenge ds, e⟩ := by
  obtain ⟨ds, s', c', o, h1, h2, h3, h4, h5⟩ := loop_static_fails rel (cfg := cfg) (hdrOf cfg c 57)
    (ipmbEncode (hdrOf cfg c 57) ([a % 16] ++ userField cfg.user)) (π s)
    (fun c' => c' = { c with rqSeq := (c.rqSeq + 1) % 64, s := { c.s with auth := a } })
    (by
      intro c' hc'
      subst hc'
      obtain ⟨d, r, g1, g2, g3⟩ := att_challenge hmd5 conf (π s)
        { c with rqSeq := (c.rqSeq + 1) % 64, s := { c.s with auth := a } } (hdrOf cfg c 57) a
        (bmcHdr_hdrOf cfg c 57 conf.rsSa) ha hoff hph hout hat
      exact ⟨d, r, _, g1, rfl, g2, g3⟩)
    Q f s _ rfl rfl hf
  subst h2
  have e : hdrOf cfg { c with s := { c.s with auth := a } } 57 = hdrOf cfg c 57 := rfl
  rcases h5 with h5 | ⟨cc, hcc, h5⟩ <;> subst h5
  · refine ⟨ds, s', .retryError, rfl, h3, h4, fun sent => ?_⟩
    simp only [estabChallenge, hsup, hch, Option.getD_some, Option.isNone_some, Bool.false_and, Bool.false_eq_true, if_false,
      Gen.RmcpFormats.netfnApp, Gen.RmcpFormats.cmdGetChallenge, exchange_eq, e, h1]
  · refine ⟨ds, s', .ccError cc, rfl, h3, h4, fun sent => ?_⟩
    simp only [estabChallenge, hsup, hch, Option.getD_some, Option.isNone_some, Bool.false_and, Bool.false_eq_true, if_false,
      Gen.RmcpFormats.netfnApp, Gen.RmcpFormats.cmdGetChallenge, exchange_eq, e, h1, decode_refused _ cc hcc]

include hmd5 conf rel in
theorem fail_activate (s : σ) (c : Client) (a : Nat) (Q : σ → Prop) (f : Fault)
    (hf : Fails md5 b P π lostAt cfg.maxRetries Q f s) (hph : (π s).phase = .challenged a)
    (hout : (π s).outSeq < 4294967296) (ha : a = 0 ∨ a = 4 ∨ a = 2)
    (hca : c.s.auth = a) (hcp : c.s.pw = cfg.pw) (hcq : c.s.seq = 0) (hci : c.s.activated = false) :
    ∃ ds s' c' e, e.isOk = false ∧ π s' = π s ∧ Q s' ∧ c'.s.activated = c.s.activated ∧
      ∀ sent, estabActivate md5 P cfg sent s c [leBytes 4 b.tempSid, b.challenge] =
        ⟨s', c', sent ++ tagAll .activate ds, e⟩ := by
  have htmp : leVal (leBytes 4 b.tempSid) = b.tempSid := leVal_leBytes 4 _ conf.tempSid
  obtain ⟨ds, s', c', o, h1, h2, h3, h4, h5⟩ := loop_static_fails rel (cfg := cfg) (hdrOf cfg c 58)
    (ipmbEncode (hdrOf cfg c 58) ([a % 16, cfg.priv % 16] ++ b.challenge ++ leBytes 4 cfg.outSeq)) (π s)
    (fun c' => Activating b cfg a ((c.rqSeq + 1) % 64) c' ∧ c'.s.activated = c.s.activated)
    (by
      intro c' hc'
      obtain ⟨d, r, c'', g1, g2, g3, g4, g5⟩ := att_activate hmd5 conf (π s) c' (hdrOf cfg c 58) a _
        (bmcHdr_hdrOf cfg c 58 conf.rsSa) ha hph hout hc'.1
      exact ⟨d, r, c'', g1, ⟨g2, by rw [g3, hc'.2]⟩, g4, g5⟩)
    Q f s ⟨true, ⟨a, b.tempSid, c.s.seq, c.s.activated, cfg.pw⟩, (c.rqSeq + 1) % 64⟩ rfl
    ⟨⟨rfl, rfl, rfl, rfl, hcq, hci, rfl⟩, rfl⟩ hf
  simp only [hdrOf] at h1
  rcases h5 with h5 | ⟨cc, hcc, h5⟩ <;> subst h5
  · refine ⟨ds, s', c', .retryError, rfl, h3, h4, h2.2, fun sent => ?_⟩
    simp only [estabActivate, List.getD_cons_zero, List.getD_cons_succ, htmp, Gen.RmcpFormats.netfnApp,
      Gen.RmcpFormats.cmdActivate, exchange_eq, hdrOf, hca, hcp, h1]
  · refine ⟨ds, s', c', .ccError cc, rfl, h3, h4, h2.2, fun sent => ?_⟩
    simp only [estabActivate, List.getD_cons_zero, List.getD_cons_succ, htmp, Gen.RmcpFormats.netfnApp,
      Gen.RmcpFormats.cmdActivate, exchange_eq, hdrOf, hca, hcp, h1, decode_refused _ cc hcc]

include hmd5 conf rel in
theorem fail_setPriv (s : σ) (c : Client) (a : Nat) (Q : σ → Prop) (f : Fault)
    (hf : Fails md5 b P π lostAt cfg.maxRetries Q f s) (ha : a = 0 ∨ a = 4 ∨ a = 2)
    (live : Live b cfg a none (π s) c) :
    ∃ ds s' c' e l, e.isOk = false ∧ Q s' ∧ Live b cfg a (some l) (π s') c' ∧ (π s').bad = (π s).bad ∧
      ∀ sent, estabSetPriv md5 P cfg sent s c = ⟨s', c', sent ++ tagAll .setPriv ds, e⟩ := by
  have live1 : Live b cfg a none (π s) { c with rqSeq := (c.rqSeq + 1) % 64 } :=
    ⟨live.phase, live.outSeq, live.attached, live.auth, live.sid, live.act, live.pw, live.seq, live.seqLt⟩
  cases f with
  | silence =>
    obtain ⟨ds, s', h1, h2, h3, h4⟩ := loop_session_lost hmd5 conf rel (hdrOf cfg c 59) 59 [cfg.priv % 16]
      [cfg.priv % 16 % 16] (fun q => .active a (some q)) a (bmcHdr_hdrOf cfg c 59 conf.rsSa) ha (by simp) (by decide)
      (fun st q => inSession_setPriv md5 b st a q _ _ rfl rfl rfl) Q cfg.maxRetries s _ none live1 hf
    refine ⟨ds, s', _, .retryError, _, rfl, h4, h2, h3, fun sent => ?_⟩
    simp only [estabSetPriv, Gen.RmcpFormats.netfnApp, Gen.RmcpFormats.cmdSetPriv, exchange_eq, h1]
  | refuse cc =>
    obtain ⟨d, s', h1, h2, h3, h4⟩ := loop_session_refused hmd5 conf rel (hdrOf cfg c 59) 59 [cfg.priv % 16]
      [cfg.priv % 16 % 16] (fun q => .active a (some q)) a (bmcHdr_hdrOf cfg c 59 conf.rsSa) ha (by simp) (by decide)
      (fun st q => inSession_setPriv md5 b st a q _ _ rfl rfl rfl) Q cc cfg.maxRetries s _ none live1 hf.2
    refine ⟨[d], s', _, .ccError cc, _, rfl, h4, h2, h3, fun sent => ?_⟩
    simp only [estabSetPriv, Gen.RmcpFormats.netfnApp, Gen.RmcpFormats.cmdSetPriv, exchange_eq, h1,
      decode_refused _ cc hf.1]


/-! ### the handshake fails at request `j` (0 = Get Channel Authentication Capabilities … 3 = Set
Session Privilege Level), then the caller closes -/

/-- what the clean-up close may be asked to do after a handshake that failed at request `j` -/
def AfterFailure (π : σ → BmcState) (lostAt : σ → Bool) (P : σ → List Nat → σ × Option (List Nat)) (b : BmcCfg) (cfg : Cfg)
    (a j : Nat) (s' : σ) (c' : Client) : Prop :=
  (j ≤ 2 ∧ (c'.attached = false ∨ c'.s.activated = false) ∧ (π s').phase.sessionOpen = false) ∨
  (j = 3 ∧ (∃ l, Live b cfg a (some l) (π s') c') ∧
    ∃ k, k ≤ cfg.maxRetries ∧ LossRun P lostAt (fun _ => True) k s')

include hmd5 conf rel in
theorem failed_open (j : Nat) (hj : j ≤ 3) (f : Fault) (s0 : σ) (c0 : Client) (a : Nat)
    (hl0 : lostAt s0 = false) (hph : (π s0).phase = .start) (hout : (π s0).outSeq < 4294967296)
    (hw : ∀ d, FailsAt md5 b P π lostAt cfg.maxRetries f
      (fun s => ∃ k, k ≤ cfg.maxRetries ∧ LossRun P lostAt (fun _ => True) k s) j (P s0 d).1)
    (hch : chooseAuth cfg.pref (b.caps % 64) = some a) (ha : a = 0 ∨ a = 4 ∨ a = 2) (hoff : offered b.caps a = true)
    (hcp : c0.s.pw = cfg.pw) (hcq : c0.s.seq = 0) (hca : c0.s.activated = false) :
    ∃ s' c' sent e, handshake md5 P cfg s0 c0 = ⟨s', c', sent, e⟩ ∧ e.isOk = false ∧ (π s').bad = (π s0).bad ∧
      AfterFailure π lostAt P b cfg a j s' c' := by
  obtain ⟨p0, p1⟩ := run_ping rel s0 hl0 hph
  have hw0 := hw pingD
  have o1 : (π (P s0 pingD).1).outSeq < 4294967296 := by rw [p1]; exact hout
  match j, hj, hw0 with
  | 0, _, hw0 =>
    obtain ⟨ds, s', e, f1, f2, f3, f4⟩ := fail_authCap hmd5 conf rel (P s0 pingD).1 { c0 with attached := false } _ f hw0
      (by rw [p1]) o1 rfl
    refine ⟨s', _, _, e, by simp only [handshake, p0]; rw [f4], f1, by rw [f2, p1], Or.inl ⟨by omega, Or.inl rfl, ?_⟩⟩
    rw [f2, p1]; rfl
  | 1, _, hw0 =>
    obtain ⟨k1, hk1, hl1⟩ := hw0
    obtain ⟨ds1, s1, _, _, a3, a4, a5⟩ := run_authCap hmd5 conf rel (P s0 pingD).1 { c0 with attached := false } _ k1
      hk1 hl1 (by rw [p1]) rfl
    obtain ⟨ds, s', e, f1, f2, f3, f4⟩ := fail_challenge hmd5 conf rel s1
      { attached := false, s := c0.s, rqSeq := (c0.rqSeq + 1) % 64 } a
      [[1], [b.caps % 64], [0], [0], [0, 0, 0], [0]] _ f a4 (by rw [a3]) (by rw [a3]; exact o1) rfl rfl hch ha hoff
    refine ⟨s', _, _, e, by simp only [handshake, p0]; rw [a5, f4], f1, by rw [f2, a3, p1], Or.inl ⟨by omega, Or.inl rfl, ?_⟩⟩
    rw [f2, a3]; rfl
  | 2, _, hw0 =>
    obtain ⟨k1, hk1, hl1⟩ := hw0
    obtain ⟨ds1, s1, _, _, a3, a4, a5⟩ := run_authCap hmd5 conf rel (P s0 pingD).1 { c0 with attached := false } _ k1
      hk1 hl1 (by rw [p1]) rfl
    obtain ⟨k2, hk2, hl2⟩ := a4
    obtain ⟨ds2, s2, _, _, b3, b4, b5⟩ := run_challenge hmd5 conf rel s1
      { attached := false, s := c0.s, rqSeq := (c0.rqSeq + 1) % 64 } a
      [[1], [b.caps % 64], [0], [0], [0, 0, 0], [0]] _ k2 hk2 hl2 (by rw [a3]) rfl rfl hch ha hoff
    obtain ⟨ds, s', c', e, f1, f2, f3, f4, f5⟩ := fail_activate hmd5 conf rel s2
      { attached := false, s := { c0.s with auth := a }, rqSeq := ((c0.rqSeq + 1) % 64 + 1) % 64 } a _ f b4
      (by rw [b3]) (by rw [b3, a3]; exact o1) ha rfl hcp hcq hca
    refine ⟨s', c', _, e, by simp only [handshake, p0]; rw [a5, b5, f5], f1, by rw [f2, b3, a3, p1],
      Or.inl ⟨by omega, Or.inr (by rw [f4]; exact hca), ?_⟩⟩
    rw [f2, b3]; rfl
  | 3, _, hw0 =>
    obtain ⟨k1, hk1, hl1⟩ := hw0
    obtain ⟨ds1, s1, _, _, a3, a4, a5⟩ := run_authCap hmd5 conf rel (P s0 pingD).1 { c0 with attached := false } _ k1
      hk1 hl1 (by rw [p1]) rfl
    obtain ⟨k2, hk2, hl2⟩ := a4
    obtain ⟨ds2, s2, _, _, b3, b4, b5⟩ := run_challenge hmd5 conf rel s1
      { attached := false, s := c0.s, rqSeq := (c0.rqSeq + 1) % 64 } a
      [[1], [b.caps % 64], [0], [0], [0, 0, 0], [0]] _ k2 hk2 hl2 (by rw [a3]) rfl rfl hch ha hoff
    obtain ⟨k3, hk3, hl3⟩ := b4
    obtain ⟨ds3, s3, _, _, c3, c4, c5⟩ := run_activate hmd5 conf rel s2
      { attached := false, s := { c0.s with auth := a }, rqSeq := ((c0.rqSeq + 1) % 64 + 1) % 64 } a _ k3 hk3 hl3
      (by rw [b3]) ha rfl hcp hcq hca
    have live3 : Live b cfg a none (π s3)
        { attached := true, s := ⟨a, b.sid, b.inSeq0, true, cfg.pw⟩, rqSeq := (((c0.rqSeq + 1) % 64 + 1) % 64 + 1) % 64 } :=
      ⟨by rw [c3], by rw [c3]; exact nextSeq_lt _ conf.outSeqLt, rfl, rfl, rfl, rfl, rfl, rfl, conf.inSeq⟩
    obtain ⟨ds, s', c', e, l, f1, f2, f3, f4, f5⟩ := fail_setPriv hmd5 conf rel s3 _ a _ f c4 ha live3
    exact ⟨s', c', _, e, by simp only [handshake, p0]; rw [a5, b5, c5, f5], f1, by rw [f4, c3, b3, a3, p1],
      Or.inr ⟨rfl, ⟨l, f3⟩, f2⟩⟩

include hmd5 conf rel in
/-- The handshake fails at request `j`; whatever the caller's clean-up `close_session()` finds,
it returns normally and no session stays open on the BMC: nothing is sent (and the peer is not
touched) when no session was granted, Close Session for the granted id when one was. -/
theorem failed_open_close (hg : cfg.closeGuard = true) (j : Nat) (hj : j ≤ 3) (f : Fault) (s0 : σ) (c0 : Client) (a : Nat)
    (hl0 : lostAt s0 = false) (hph : (π s0).phase = .start) (hout : (π s0).outSeq < 4294967296)
    (hw : ∀ d, FailsAt md5 b P π lostAt cfg.maxRetries f
      (fun s => ∃ k, k ≤ cfg.maxRetries ∧ LossRun P lostAt (fun _ => True) k s) j (P s0 d).1)
    (hch : chooseAuth cfg.pref (b.caps % 64) = some a) (ha : a = 0 ∨ a = 4 ∨ a = 2) (hoff : offered b.caps a = true)
    (hcp : c0.s.pw = cfg.pw) (hcq : c0.s.seq = 0) (hca : c0.s.activated = false) :
    (handshake md5 P cfg s0 c0).outcome.isOk = false ∧
    (close md5 P cfg (handshake md5 P cfg s0 c0).peer (handshake md5 P cfg s0 c0).client).outcome = .ok [] ∧
    (π (close md5 P cfg (handshake md5 P cfg s0 c0).peer (handshake md5 P cfg s0 c0).client).peer).phase.sessionOpen = false ∧
    (π (close md5 P cfg (handshake md5 P cfg s0 c0).peer (handshake md5 P cfg s0 c0).client).peer).bad = (π s0).bad ∧
    (j ≤ 2 → (close md5 P cfg (handshake md5 P cfg s0 c0).peer (handshake md5 P cfg s0 c0).client).sent = [] ∧
      (close md5 P cfg (handshake md5 P cfg s0 c0).peer (handshake md5 P cfg s0 c0).client).peer =
        (handshake md5 P cfg s0 c0).peer) ∧
    (j = 3 → ∃ ds, ds ≠ [] ∧
      (close md5 P cfg (handshake md5 P cfg s0 c0).peer (handshake md5 P cfg s0 c0).client).sent = tagAll .close ds ∧
      (∀ d ∈ ds, Carries d 60 (leBytes 4 b.sid)) ∧
      (π (close md5 P cfg (handshake md5 P cfg s0 c0).peer (handshake md5 P cfg s0 c0).client).peer).phase = .closed) := by
  obtain ⟨s', c', sent, e, h1, h2, h3, h4⟩ := failed_open hmd5 conf rel j hj f s0 c0 a hl0 hph hout hw hch ha hoff hcp hcq hca
  rw [h1]
  simp only
  rcases h4 with ⟨hj2, hc, hp⟩ | ⟨hj3, ⟨l, live⟩, k, hk, hl⟩
  · have hcl : close md5 P cfg s' c' = ⟨s', c', [], .ok []⟩ := by
      rcases hc with hc | hc
      · simp [close, hc, hg]
      · cases hat : c'.attached <;> simp [close, hat, hc, hg]
    rw [hcl]
    exact ⟨h2, rfl, hp, h3, fun _ => ⟨rfl, rfl⟩, fun h => by omega⟩
  · obtain ⟨ds, s'', q1, _, q3, _, q5, q6, q7⟩ := run_close hmd5 conf rel s' c' a l _ k hk hl ha live
    rw [q7]
    refine ⟨h2, rfl, by simp only; rw [q5]; rfl, by simp only; rw [q6, h3], fun h => by omega, fun _ => ⟨ds, ?_, rfl, q3, q5⟩⟩
    intro hn; rw [hn] at q1; simp at q1


include hmd5 conf rel in
/-- The BMC offers none of the five authentication types (`get_max_auth_type()` is `None`) and the
library raises: after the capabilities exchange nothing more is sent, the outcome is
NotSupportedError, no session object is attached. -/
theorem establish_noauth (hn : cfg.noAuthRaises = true) (R : Nat) (hR : R ≤ cfg.maxRetries) (s0 : σ) (c0 : Client)
    (hl0 : lostAt s0 = false) (hph : (π s0).phase = .start) (hw : ∀ d, Within P lostAt R 1 (P s0 d).1)
    (hch : chooseAuth cfg.pref (b.caps % 64) = none) :
    ∃ ds1, (handshake md5 P cfg s0 c0).sent = (.ping, pingD) :: tagAll .authCap ds1 ∧
      (1 ≤ ds1.length ∧ ds1.length ≤ R + 1) ∧ (∀ d ∈ ds1, OutsideSession d ∧ Carries d 56 [0x0e, cfg.priv]) ∧
      (handshake md5 P cfg s0 c0).outcome = .notSupported ∧
      (π (handshake md5 P cfg s0 c0).peer).phase = .capsSent ∧
      (π (handshake md5 P cfg s0 c0).peer).bad = (π s0).bad ∧
      (handshake md5 P cfg s0 c0).client.attached = false := by
  obtain ⟨p0, p1⟩ := run_ping rel s0 hl0 hph
  obtain ⟨k1, hk1, hl1⟩ := hw pingD
  obtain ⟨ds1, s1, a1, a2, a3, _, a5⟩ := run_authCap hmd5 conf rel (P s0 pingD).1 { c0 with attached := false } _ k1
    (by omega) hl1 (by rw [p1]) rfl
  have hest : handshake md5 P cfg s0 c0 =
      ⟨s1, { attached := false, s := { c0.s with auth := 256 }, rqSeq := (c0.rqSeq + 1) % 64 },
       tagAll .ping [pingD] ++ tagAll .authCap ds1, .notSupported⟩ := by
    simp only [handshake, p0]
    rw [a5]
    simp only [estabChallenge, List.getD_cons_zero, List.getD_cons_succ, hch, hn, Option.isNone_none, Bool.and_self,
      if_true, Option.getD_none]
  rw [hest]
  exact ⟨ds1, by simp [tagAll], ⟨by omega, by omega⟩, a2, rfl, by simp only; rw [a3], by simp only; rw [a3, p1], rfl⟩

end loops

/-- the presence ping is not answered (or answered with something that is not a pong): the
handshake ends there, no session object is attached — against ANY peer -/
theorem establish_ping_failed {σ : Type} (md5 : List Nat → List Nat) (P : σ → List Nat → σ × Option (List Nat))
    (cfg : Cfg) (p0 : σ) (c0 : Client) (h : (ping P p0).2.2.isOk = false) :
    (handshake md5 P cfg p0 c0).client = { c0 with attached := false } ∧
    (handshake md5 P cfg p0 c0).peer = (ping P p0).1 ∧
    (handshake md5 P cfg p0 c0).sent = tagAll .ping (ping P p0).2.1 ∧
    (handshake md5 P cfg p0 c0).outcome.isOk = false := by
  rcases hp : ping P p0 with ⟨p1, s0, o⟩
  rw [hp] at h
  simp only at h
  cases o <;> simp [handshake, hp, Outcome.isOk] at h ⊢

/-! ### the reference BMC with a fault plan is such a peer -/

section concrete
variable {md5 : List Nat → List Nat} {b : BmcCfg}

theorem stepRefused_fst (st : BmcState) (cc : Nat) (d : List Nat) :
    (stepRefused md5 b st cc d).1 = (stepLost md5 b st d).1 := by
  unfold stepRefused; split <;> simp_all

theorem relay_faulty (plan : Nat → Option Fault) :
    Relay md5 b (faulty md5 b plan) Prod.snd (fun s => (plan s.1).isSome) := by
  constructor
  · rintro ⟨i, st⟩ d h
    simp only at h
    have hp : plan i = none := by cases hq : plan i <;> simp_all
    simp only [faulty, hp]
    exact ⟨peer_fst st d, trivial⟩
  · rintro ⟨i, st⟩ d h
    simp only at h
    cases hq : plan i with
    | none => simp [hq] at h
    | some f =>
      cases f with
      | silence => simp [faulty, hq]
      | refuse cc => simp [faulty, hq, stepRefused_fst]

theorem allLost_faulty (plan : Nat → Option Fault) (Q : Nat × BmcState → Prop) (n : Nat) :
    ∀ (i : Nat) (st : BmcState), (∀ t, t < n → plan (i + t) = some .silence) → (∀ st', Q (i + n, st')) →
      AllLost (faulty md5 b plan) (fun s => (plan s.1).isSome) Q n (i, st) := by
  induction n with
  | zero => intro i st _ hq; exact hq st
  | succ n ih =>
    intro i st hlt hq
    have hi : plan i = some .silence := by simpa using hlt 0 (by omega)
    refine ⟨by simp [hi], fun d => by simp [faulty, hi], fun d => ?_⟩
    have e : (faulty md5 b plan (i, st) d).1 = (i + 1, (stepLost md5 b st d).1) := by simp [faulty, hi]
    rw [e]
    refine ih (i + 1) _ (fun t ht => ?_) (fun st' => ?_)
    · have := hlt (t + 1) (by omega)
      rwa [show i + (t + 1) = i + 1 + t by omega] at this
    · have := hq st'
      rwa [show i + (n + 1) = i + 1 + n by omega] at this

/-- after the fault window every datagram is answered -/
theorem answered_faulty (plan : Nat → Option Fault) (R i : Nat) (st : BmcState) (h : plan i = none) :
    ∃ k, k ≤ R ∧ LossRun (faulty md5 b plan) (fun s => (plan s.1).isSome) (fun _ => True) k (i, st) :=
  ⟨0, Nat.zero_le _, by simp [h], fun _ => trivial⟩

/-- The reference BMC with the plan "fault `f` on the request that starts with datagram `i0`"
(`faultAt i0 (f.span R) f`), reached at datagram `i` with `j` requests to go before that one: the
`j` requests go through, the next one fails with `f`, the one after it is answered. -/
theorem failsAt_faulty (R : Nat) (f : Fault) (hf : ∀ cc, f = .refuse cc → cc ≠ 0) (i0 : Nat) :
    ∀ (j i : Nat) (st : BmcState), i + j = i0 →
      FailsAt md5 b (faulty md5 b (faultAt i0 (f.span R) f)) Prod.snd (fun s => (faultAt i0 (f.span R) f s.1).isSome) R f
        (fun s => ∃ k, k ≤ R ∧ LossRun (faulty md5 b (faultAt i0 (f.span R) f))
          (fun s => (faultAt i0 (f.span R) f s.1).isSome) (fun _ => True) k s) j (i, st) := by
  intro j
  induction j with
  | zero =>
    intro i st hi
    have hi : i = i0 := by omega
    subst hi
    cases f with
    | silence =>
      refine allLost_faulty _ _ (R + 1) i st (fun t ht => ?_) (fun st' => answered_faulty _ R _ st' ?_)
      · simp [faultAt, Fault.span]; omega
      · simp [faultAt, Fault.span]
    | refuse cc =>
      have hp : faultAt i (Fault.span R (.refuse cc)) (.refuse cc) i = some (.refuse cc) := by simp [faultAt, Fault.span]
      refine ⟨hf cc rfl, by simp [hp], fun d => ⟨fun st' r hs => ?_, ?_⟩⟩
      · simp only [faulty, hp, stepRefused, hs]
      · have e : (faulty md5 b (faultAt i (Fault.span R (.refuse cc)) (.refuse cc)) (i, st) d).1 =
            (i + 1, (stepRefused md5 b st cc d).1) := by simp only [faulty, hp]
        rw [e]
        exact answered_faulty _ R _ _ (by simp [faultAt, Fault.span])
  | succ j ih =>
    intro i st hi
    have hp : faultAt i0 (f.span R) f i = none := by simp [faultAt]; omega
    refine ⟨0, Nat.zero_le _, by simp [hp], fun d => ?_⟩
    have e : (faulty md5 b (faultAt i0 (f.span R) f) (i, st) d).1 = (i + 1, (peer md5 b st d).1) := by
      simp only [faulty, hp]
    rw [e]
    exact ih (i + 1) _ (by omega)

end concrete
end PyIpmi.Session
