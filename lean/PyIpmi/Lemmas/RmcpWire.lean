/-
  Lemmas about the LAN wire model (C05): `struct` byte-order swaps, the explicit form of what
  `IpmiMsg.pack` produces, the specification parser on such bytes, and the complete
  characterisation of `_receive_ipmi_msg` / `_receive_asf_msg(AsfPong)` against the
  specification for EVERY datagram.  Core only.
-/
import PyIpmi.Model.RmcpWire
import PyIpmi.Spec.Lan
namespace PyIpmi.RmcpWire
open PyIpmi PyIpmi.Gen.RmcpFormats PyIpmi.Spec.Lan

theorem bind_ok_inv {α β : Type} {x : Outcome α} {f : α → Outcome β} {b : β}
    (h : x.bind f = .ok b) : ∃ a, x = .ok a ∧ f a = .ok b := by
  cases x <;> simp [Outcome.bind] at h
  exact ⟨_, rfl, h⟩

/-! ### struct byte order -/
theorem beBytes_length (n v : Nat) : (beBytes n v).length = n := by simp [beBytes]
theorem beBytes_bytes (n v : Nat) : Bytes (beBytes n v) := by
  intro b hb
  simp [beBytes] at hb
  exact leBytes_bytes n v b hb
theorem swap_lt (v : Nat) : leVal (beBytes 4 v) < 4294967296 := by
  have h := leVal_lt (beBytes 4 v) (beBytes_bytes 4 v)
  rw [beBytes_length] at h
  exact h
theorem beBytes_swap (v : Nat) : beBytes 4 (leVal (beBytes 4 v)) = leBytes 4 v := by
  have h := leBytes_leVal (beBytes 4 v) (beBytes_bytes 4 v)
  rw [beBytes_length] at h
  simp only [beBytes] at h ⊢
  rw [h, List.reverse_reverse]
theorem repack_swap (v : Nat) (h : v < 4294967296) :
    repack ⟨true, [.u32]⟩ ⟨false, [.u32]⟩ v = .ok (leVal (beBytes 4 v)) := by
  have hl : (beBytes 4 v).length = 4 := beBytes_length 4 v
  simp [repack, structPack, packItems, intBytes, h, structUnpack, calcsize, Fmt.size, hl,
    unpackItems, SVal.nat, List.take_of_length_le]

/-! ### what `IpmiMsg.pack` produces -/

theorem padPw_eq (pw : List Nat) : padPw pw = Spec.Lan.pad16 pw := by
  simp [padPw, Spec.Lan.pad16, padWidth, padFill]

theorem pad16_length (pw : List Nat) (h : pw.length ≤ 16) : (Spec.Lan.pad16 pw).length = 16 := by
  simp [Spec.Lan.pad16]; omega

theorem md5Input_eq (sid seq : Nat) (pw sdu : List Nat) (hsid : sid < 4294967296)
    (hseq : seq < 4294967296) (hpw : pw.length ≤ 16) :
    md5Input sid seq pw sdu = .ok (Spec.Lan.md5Preimage pw sid seq sdu) := by
  have h16 := pad16_length pw hpw
  simp [md5Input, md5Args, argVals, argVal, sidPack, sidUnpack, seqPack, seqUnpack, repack_swap, hsid, hseq,
    structPack, md5Fmt, packItems, intBytes, swap_lt, beBytes_swap, padPw_eq, h16, Spec.Lan.md5Preimage,
    List.take_of_length_le]

theorem header_eq (auth sid seq : Nat) (pw sdu : List Nat) (ha : auth < 256) (hsid : sid < 4294967296)
    (hseq : seq < 4294967296) :
    (do let vs ← argVals auth sid seq pw sdu packHeaderArgs; structPack packHeader vs) =
      .ok ([auth] ++ leBytes 4 seq ++ leBytes 4 sid) := by
  simp [packHeaderArgs, argVals, argVal, sidPack, sidUnpack, seqPack, seqUnpack, repack_swap, hsid, hseq,
    structPack, packHeader, packItems, intBytes, swap_lt, beBytes_swap, ha]
  simp [beBytes, leBytes]
  omega


def codeBytes : Option (List Nat) → List Nat
  | some c => c
  | none => []

theorem authCode_eq (md5 : List Nat → List Nat) (auth sid seq : Nat) (pw sdu : List Nat)
    (hauth : auth = 0 ∨ auth = 4 ∨ auth = 2) (hsid : sid < 4294967296) (hseq : seq < 4294967296)
    (hpw : pw.length ≤ 16) :
    ∃ code, expectedCode md5 auth pw sid seq sdu = some code ∧
      authCode md5 auth sid seq pw sdu = .ok (codeBytes code) := by
  rcases hauth with h | h | h <;> subst h
  · exact ⟨none, by simp [expectedCode, Spec.Lan.authNone], by simp [authCode, packAuth, lookupCode, codeBytes]⟩
  · exact ⟨some (pad16 pw), by simp [expectedCode, Spec.Lan.authNone, Spec.Lan.authPassword],
      by simp [authCode, packAuth, lookupCode, codeBytes, padPw_eq]⟩
  · exact ⟨some (md5 (md5Preimage pw sid seq sdu)),
      by simp [expectedCode, Spec.Lan.authNone, Spec.Lan.authPassword, Spec.Lan.authMd5],
      by simp [authCode, packAuth, lookupCode, codeBytes, md5Input_eq, hsid, hseq, hpw, Outcome.bind]⟩

theorem ipmiPackCore_ok (md5 : List Nat → List Nat) (auth sid seq : Nat) (pw sdu : List Nat)
    (hauth : auth = 0 ∨ auth = 4 ∨ auth = 2) (hsid : sid < 4294967296) (hseq : seq < 4294967296)
    (hpw : pw.length ≤ 16) (hlen : sdu.length ≤ 255) :
    ∃ code, expectedCode md5 auth pw sid seq sdu = some code ∧
      ipmiPackCore md5 auth sid seq pw sdu =
        .ok ([auth] ++ leBytes 4 seq ++ leBytes 4 sid ++ codeBytes code ++ [sdu.length] ++ sdu) := by
  obtain ⟨code, h1, h2⟩ := authCode_eq md5 auth sid seq pw sdu hauth hsid hseq hpw
  refine ⟨code, h1, ?_⟩
  have ha : auth < 256 := by rcases hauth with h | h | h <;> omega
  have hh := header_eq auth sid seq pw sdu ha hsid hseq
  have hl : ¬ (sdu.length > 255) := by omega
  unfold ipmiPackCore
  simp only [Outcome.bind_eq, Outcome.pure_eq] at hh ⊢
  obtain ⟨vs, hvs, hsp⟩ := bind_ok_inv hh
  simp [hvs, hsp, h2, hl, Outcome.bind]

/-! ### the specification parser on a packet laid out as in the figure -/

theorem u32le_leBytes (v : Nat) (h : v < 4294967296) :
    u32le (v % 256) (v / 256 % 256) (v / 256 / 256 % 256) (v / 256 / 256 / 256 % 256) = v := by
  unfold u32le; omega

theorem parseLan_packet (ver rsvd rs cls auth seq sid len : Nat) (code : Option (List Nat))
    (payload : List Nat) (hsid : sid < 4294967296) (hseq : seq < 4294967296)
    (hc0 : auth = 0 ↔ code = none) (hc : ∀ c, code = some c → c.length = 16) :
    parseLan ([ver, rsvd, rs, cls, auth] ++ leBytes 4 seq ++ leBytes 4 sid ++ codeBytes code ++ [len] ++ payload)
      = some ⟨ver, rsvd, rs, cls, auth, seq, sid, code, len, payload⟩ := by
  cases code with
  | none =>
    have ha : auth = 0 := hc0.mpr rfl
    subst ha
    simp [leBytes, codeBytes, parseLan, parseTail, u32le_leBytes, hsid, hseq]
  | some c =>
    have ha : auth ≠ 0 := fun h => by have := hc0.mp h; cases this
    have hl := hc c rfl
    have h17 : ¬ (16 + (payload.length + 1) < 17) := by omega
    have hd : List.drop 17 (c ++ len :: payload) = payload := by
      have : c ++ len :: payload = (c ++ [len]) ++ payload := by simp
      rw [this]
      exact List.drop_left' (by simp [hl])
    simp [leBytes, codeBytes, parseLan, parseTail, u32le_leBytes, hsid, hseq, ha, hl, h17, hd,
      List.getD_eq_getElem?_getD]
    
/-! ### RMCP header -/

theorem calcsize_rmcp : calcsize rmcpHeader = 4 := by decide
theorem calcsize_asf : calcsize asfHeader = 8 := by decide
theorem calcsize_pong : calcsize pongData = 16 := by decide
theorem rmcpUnpack_cons (a0 a1 a2 a3 : Nat) (pdu : List Nat) :
    rmcpUnpack (a0 :: a1 :: a2 :: a3 :: pdu) = if a0 ≠ 6 then .decodingError else .ok (a2, a3, pdu) := by
  simp only [rmcpUnpack, structUnpack, calcsize_rmcp]
  simp [rmcpHeader, unpackItems, rmcpVersion]
theorem rmcpUnpack_short (d : List Nat) (h : d.length < 4) : rmcpUnpack d = .pyError "error" := by
  have : ¬ (min 4 d.length = 4) := by omega
  simp [rmcpUnpack, structUnpack, calcsize_rmcp, this, Outcome.bind]

theorem rmcpPack_ok (cls rs : Nat) (sdu : List Nat) (hc : cls < 256) (hr : rs < 256) :
    rmcpPack cls rs sdu = .ok ([6, 0, rs, cls] ++ sdu) := by
  simp [rmcpPack, structPack, rmcpHeader, packItems, intBytes, rmcpVersion, hc, hr, beBytes, leBytes, Outcome.bind]

/-! ### receive path -/

theorem calcsize_auth : calcsize hdrAuth = 26 := by decide
theorem calcsize_noauth : calcsize hdrNoAuth = 10 := by decide

/-- what `_receive_ipmi_msg` does with an accepted datagram whose payload is `p` -/
def delivered (v : EmptyRx) (p : List Nat) : Outcome (Option (List Nat)) :=
  if p = [] then (match v with | .asShipped => .pyError "TypeError" | .intended => .ok none)
  else .ok (some p)

theorem unpackBody_spec (ignore : Bool) (pdu hdr payload : List Nat) (hl dl : Nat)
    (hp : pdu = hdr ++ payload) (hh : hdr.length = hl) :
    unpackBody ignore pdu hl dl =
      if !ignore && dl ≠ payload.length then .decodingError
      else .ok (if payload = [] then none else some payload) := by
  subst hp; subst hh
  cases ignore
  · by_cases h : dl = payload.length
    · subst h
      cases payload <;> simp [unpackBody]
    · simp only [unpackBody, List.length_append]
      have : (hdr.length + payload.length < hdr.length + dl) ∨ (hdr.length + payload.length > hdr.length + dl) := by omega
      rcases this with h1 | h1 <;> simp [h, h1]
  · cases payload <;> simp [unpackBody]

theorem delivered_eq (v : EmptyRx) (p : List Nat) :
    (match (if p = [] then none else some p : Option (List Nat)), v with
      | none, .asShipped => (.pyError "TypeError" : Outcome (Option (List Nat)))
      | r, _ => .ok r) = delivered v p := by
  cases v <;> by_cases h : p = [] <;> simp [delivered, h]

/-- session layer against the specification's view of the same bytes -/
theorem ipmiUnpack_spec (v : EmptyRx) (ignore : Bool) (pdu : List Nat) :
    (do let r ← ipmiUnpack ignore pdu
        match r, v with
        | none, .asShipped => (.pyError "TypeError" : Outcome (Option (List Nat)))
        | r, _ => pure r) =
    match pdu with
    | auth :: _ :: _ :: _ :: _ :: _ :: _ :: _ :: _ :: r =>
      (match parseTail auth r with
       | some (_, len, payload) =>
         if !ignore && len ≠ payload.length then .decodingError else delivered v payload
       | none => if auth = 0 then .pyError "error" else if r.length = 16 then .pyError "IndexError" else .pyError "error")
    | [] => .pyError "IndexError"
    | auth :: _ => .pyError "error" := by
  rcases pdu with _ | ⟨auth, _ | ⟨b1, _ | ⟨b2, _ | ⟨b3, _ | ⟨b4, _ | ⟨b5, _ | ⟨b6, _ | ⟨b7, _ | ⟨b8, r⟩⟩⟩⟩⟩⟩⟩⟩⟩
  case nil => simp [ipmiUnpack, Outcome.bind]
  case cons.cons.cons.cons.cons.cons.cons.cons.cons =>
    by_cases h : auth = 0
    · subst h
      cases r with
      | nil => simp [ipmiUnpack, calcsize_noauth, parseTail, Outcome.bind]
      | cons len payload =>
        have hb := unpackBody_spec ignore (0 :: b1 :: b2 :: b3 :: b4 :: b5 :: b6 :: b7 :: b8 :: len :: payload)
          [0, b1, b2, b3, b4, b5, b6, b7, b8, len] payload 10 len rfl rfl
        have h10 : ¬ ((0 :: b1 :: b2 :: b3 :: b4 :: b5 :: b6 :: b7 :: b8 :: len :: payload).length < 10) := by
          simp only [List.length_cons]; omega
        have hg : (0 :: b1 :: b2 :: b3 :: b4 :: b5 :: b6 :: b7 :: b8 :: len :: payload).getD 9 0 = len := by simp
        simp only [ipmiUnpack, calcsize_noauth, h10, hg, hb, parseTail]
        cases ignore <;> by_cases hl : len = payload.length <;> simp [hl, delivered_eq, Outcome.bind]
    · have hlen : (auth :: b1 :: b2 :: b3 :: b4 :: b5 :: b6 :: b7 :: b8 :: r).length = r.length + 9 := by
        simp only [List.length_cons]
      by_cases h16 : r.length < 16
      · have : r.length + 9 < 25 := by omega
        have h17 : r.length < 17 := by omega
        have hne : r.length ≠ 16 := by omega
        simp [ipmiUnpack, h, hlen, this, parseTail, h17, hne, Outcome.bind]
      · by_cases h16' : r.length = 16
        · have h1 : ¬ (r.length + 9 < 25) := by omega
          have h2 : r.length + 9 < 26 := by omega
          have h17 : r.length < 17 := by omega
          simp [ipmiUnpack, h, hlen, h1, h2, parseTail, h17, h16', Outcome.bind]
        · have h1 : ¬ (r.length + 9 < 25) := by omega
          have h2 : ¬ (r.length + 9 < 26) := by omega
          have h17 : ¬ (r.length < 17) := by omega
          have hb := unpackBody_spec ignore (auth :: b1 :: b2 :: b3 :: b4 :: b5 :: b6 :: b7 :: b8 :: r)
            (auth :: b1 :: b2 :: b3 :: b4 :: b5 :: b6 :: b7 :: b8 :: r.take 17) (r.drop 17) 26 (r.getD 16 0)
            (by simp [List.take_append_drop]) (by simp [List.length_take]; omega)
          have hg : (auth :: b1 :: b2 :: b3 :: b4 :: b5 :: b6 :: b7 :: b8 :: r).getD 25 0 = r.getD 16 0 := by simp
          simp only [ipmiUnpack]
          rw [if_pos h]
          simp only [calcsize_auth, hlen, h1, h2, hg, hb, parseTail, if_neg h, h17, ↓reduceIte]
          clear hb
          generalize List.drop 17 r = p
          generalize r.getD 16 0 = dl
          cases ignore <;> by_cases hl : dl = p.length <;> simp [hl, delivered_eq, Outcome.bind]
  all_goals (by_cases h : auth = 0 <;> simp [ipmiUnpack, h, calcsize_noauth, Outcome.bind])

theorem receiveIpmi_cons (v : EmptyRx) (ignore : Bool) (a0 a1 a2 a3 : Nat) (pdu : List Nat) :
    receiveIpmi v ignore (a0 :: a1 :: a2 :: a3 :: pdu) =
      if a0 ≠ 6 then .decodingError else if a3 ≠ 7 then .decodingError else
        (do let r ← ipmiUnpack ignore pdu
            match r, v with
            | none, .asShipped => (.pyError "TypeError" : Outcome (Option (List Nat)))
            | r, _ => pure r) := by
  simp only [receiveIpmi, rmcpUnpack_cons]
  by_cases h0 : a0 = 6 <;> by_cases h3 : a3 = 7 <;> simp [h0, h3, Outcome.bind, classIpmi] <;> rfl

/-- The model of `_receive_ipmi_msg` against the specification, for EVERY datagram: when the
specification accepts with payload `p`, the code delivers exactly `p` (`delivered`: an empty
payload is `None`, which the shipped debug line turns into TypeError); when the specification
rejects, the code raises. -/
theorem receive_spec (v : EmptyRx) (ignore : Bool) (d : List Nat) :
    match Spec.Lan.receive ignore d with
    | some p => receiveIpmi v ignore d = delivered v p
    | none => ∀ x, receiveIpmi v ignore d ≠ .ok x := by
  rcases d with _ | ⟨a0, _ | ⟨a1, _ | ⟨a2, _ | ⟨a3, pdu⟩⟩⟩⟩
  case cons.cons.cons.cons =>
    rw [receiveIpmi_cons, ipmiUnpack_spec]
    rcases pdu with _ | ⟨auth, _ | ⟨b1, _ | ⟨b2, _ | ⟨b3, _ | ⟨b4, _ | ⟨b5, _ | ⟨b6, _ | ⟨b7, _ | ⟨b8, r⟩⟩⟩⟩⟩⟩⟩⟩⟩
    case cons.cons.cons.cons.cons.cons.cons.cons.cons =>
      simp only [Spec.Lan.receive, parseLan]
      cases hpt : parseTail auth r with
      | none =>
        by_cases h0 : a0 = 6 <;> by_cases h3 : a3 = 7 <;> by_cases ha : auth = 0 <;>
          by_cases h16 : r.length = 16 <;> simp [h0, h3, ha, h16]
      | some t =>
        obtain ⟨code, len, payload⟩ := t
        by_cases h0 : a0 = 6 <;> by_cases h3 : a3 = 7 <;> cases ignore <;>
          by_cases hl : len = payload.length <;> simp [h0, h3, hl]
    all_goals
      (simp only [Spec.Lan.receive, parseLan]
       by_cases h0 : a0 = 6 <;> by_cases h3 : a3 = 7 <;> simp [h0, h3])
  all_goals (simp [Spec.Lan.receive, parseLan, receiveIpmi, rmcpUnpack_short, Outcome.bind])

/-! ### ASF -/

theorem pingDatagram_eq (rs : Nat) (h : rs < 256) : pingDatagram rs = .ok (pingBytes rs 0) := by
  simp [pingDatagram, asfPack, structPack, asfHeader, packItems, intBytes, Gen.RmcpFormats.asfIana, pingType, pingTag,
    rmcpPack_ok, classAsf, h, beBytes, leBytes, Outcome.bind, pingBytes]

/-- what `AsfPong.check_data` looks at, in the model's terms (the interactions clause exists as
shipped only) -/
def pongContentOk (v : PongCheck) (data : List Nat) : Prop :=
  ¬ (beVal (data.take 4) = 4542 ∧ beVal ((data.drop 4).take 4) ≠ 0) ∧
    (v = .asShipped → (data.drop 9).headD 0 = 0)

/-- the attributes `AsfPong.unpack` leaves on the object -/
def pongFieldsOf (n3 n2 n1 n0 ty tag : Nat) (data : List Nat) : PongFields :=
  ⟨beVal [n3, n2, n1, n0], ty, tag, beVal (data.take 4), beVal ((data.drop 4).take 4),
    (data.drop 8).headD 0, (data.drop 9).headD 0⟩

theorem pongUnpackV_short (v : PongCheck) (sdu : List Nat) (h : sdu.length < 8) :
    pongUnpackV v sdu = .pyError "error" := by
  have : ¬ (min 8 sdu.length = 8) := by omega
  simp [pongUnpackV, structUnpack, calcsize_asf, this, Outcome.bind]

theorem pongUnpackV_cons (v : PongCheck) (n3 n2 n1 n0 ty tag rs dl : Nat) (data : List Nat) (f : PongFields) :
    pongUnpackV v (n3 :: n2 :: n1 :: n0 :: ty :: tag :: rs :: dl :: data) = .ok f ↔
      ty = 0x40 ∧ dl = 16 ∧ data.length = 16 ∧ pongContentOk v data ∧
        f = pongFieldsOf n3 n2 n1 n0 ty tag data := by
  simp only [pongUnpackV, structUnpack, calcsize_asf, calcsize_pong]
  simp only [asfHeader, unpackItems, List.length_cons, List.take, List.drop]
  by_cases hlen : data.length = dl
  · subst hlen
    have ht : List.take data.length data = data := List.take_length
    by_cases hty : ty = 64
    · by_cases h16 : data.length = 16
      · have ht16 : List.take 16 data = data := by rw [← h16]; exact List.take_length
        simp [Outcome.bind, asfPong, Gen.RmcpFormats.asfIana, pongData, unpackItems, ht, hty, h16, pongContentOk, ht16,
          pongFieldsOf]
        by_cases hA : beVal (List.take 4 data) = 4542 <;> by_cases hB : beVal (List.take 4 (List.drop 4 data)) = 0 <;>
          by_cases hC : data[9] = 0 <;> cases v <;> simp [hA, hB, hC, eq_comm]
      · by_cases h0 : data.length = 0
        · simp [Outcome.bind, asfPong, ht, hty, h16, h0]
        · simp [Outcome.bind, asfPong, ht, hty, h16, h0]
    · simp [Outcome.bind, asfPong, ht, hty]
  · have : data.length + 1 + 1 + 1 + 1 + 1 + 1 + 1 + 1 < 8 + dl ∨ data.length + 1 + 1 + 1 + 1 + 1 + 1 + 1 + 1 > 8 + dl := by omega
    rcases this with h | h <;> simp [Outcome.bind, h]
    all_goals (intro _ h1 h2; omega)

theorem pongUnpackV_agree (n3 n2 n1 n0 ty tag rs dl : Nat) (data : List Nat) (h : (data.drop 9).headD 0 = 0) :
    pongUnpackV .asShipped (n3 :: n2 :: n1 :: n0 :: ty :: tag :: rs :: dl :: data) =
      pongUnpackV .intended (n3 :: n2 :: n1 :: n0 :: ty :: tag :: rs :: dl :: data) := by
  simp only [pongUnpackV, structUnpack, calcsize_asf, calcsize_pong]
  simp only [asfHeader, unpackItems, List.length_cons, List.take, List.drop]
  by_cases hlen : data.length = dl
  · subst hlen
    have ht : List.take data.length data = data := List.take_length
    by_cases hty : ty = 64
    · by_cases h16 : data.length = 16
      · have ht16 : List.take 16 data = data := by rw [← h16]; exact List.take_length
        have h9 : data[9]?.getD 0 = 0 := by simpa [List.head?_drop] using h
        have h9' : data[9] = 0 := by
          have : data[9]? = some data[9] := List.getElem?_eq_getElem (by omega)
          rw [this] at h9; simpa using h9
        simp [Outcome.bind, asfPong, pongData, unpackItems, ht, hty, h16, ht16, h9']
      · by_cases h0 : data.length = 0
        · simp [Outcome.bind, asfPong, ht, hty, h16, h0]
        · simp [Outcome.bind, asfPong, ht, hty, h16, h0]
    · simp [Outcome.bind, asfPong, ht, hty]
  · have : data.length + 1 + 1 + 1 + 1 + 1 + 1 + 1 + 1 < 8 + dl ∨ data.length + 1 + 1 + 1 + 1 + 1 + 1 + 1 + 1 > 8 + dl := by omega
    rcases this with h | h <;> simp [Outcome.bind, h]

theorem receivePongV_cons (v : PongCheck) (a0 a1 a2 a3 : Nat) (sdu : List Nat) :
    receivePongV v (a0 :: a1 :: a2 :: a3 :: sdu) =
      if a0 ≠ 6 then .decodingError else if a3 ≠ 6 then .decodingError else pongUnpackV v sdu := by
  simp only [receivePongV, rmcpUnpack_cons]
  by_cases h0 : a0 = 6 <;> by_cases h3 : a3 = 6 <;> simp [h0, h3, Outcome.bind, classAsf]

theorem receivePong_ok_iff (d : List Nat) : receivePong d = .ok () ↔ ∃ f, receivePongV .intended d = .ok f := by
  unfold receivePong
  cases h : receivePongV .intended d <;> simp [Outcome.bind]

/-! ### big-endian values of the specification's `be32` -/

theorem beVal_be32 (v : Nat) (h : v < 4294967296) : beVal (be32 v) = v := by
  simp [beVal, be32, leVal]; omega

theorem u32le_be32 (v : Nat) (h : v < 4294967296) :
    u32le (v % 256) (v / 256 % 256) (v / 65536 % 256) (v / 16777216 % 256) = v := by
  unfold u32le; omega

/-- the data block of a pong datagram -/
def pongData16 (p : Pong) : List Nat :=
  be32 p.oemIana ++ be32 p.oemDefined ++ [p.entities, p.interactions, 0, 0, 0, 0, 0, 0]

theorem parseAsf_pongDatagram (p : Pong) :
    parseAsf (pongDatagram p) = some ⟨6, 6, 4542, 0x40, p.tag, 16, pongData16 p⟩ := by
  simp [pongDatagram, parseAsf, be32, Spec.Lan.asfIana, u32le, pongData16]

theorem pongData16_fields (p : Pong) (h2 : p.oemIana < 4294967296) (h3 : p.oemDefined < 4294967296) :
    (pongData16 p).length = 16 ∧ beVal ((pongData16 p).take 4) = p.oemIana ∧
    beVal (((pongData16 p).drop 4).take 4) = p.oemDefined ∧
    ((pongData16 p).drop 8).headD 0 = p.entities ∧ ((pongData16 p).drop 9).headD 0 = p.interactions := by
  have e1 := beVal_be32 p.oemIana h2
  have e2 := beVal_be32 p.oemDefined h3
  simp only [be32] at e1 e2
  simp [pongData16, be32, e1, e2]

end PyIpmi.RmcpWire
