/-
  Lemmas for C12: what the reference SEL device answers to the model's requests, the partial-read
  loop against a quiet device (exactness) and against a device with a script of concurrent changes
  (reservation invariant), the next-record walk, the get-and-clear loop.
-/
import PyIpmi.Model.SelXfer
import PyIpmi.Spec.SelDevice
import PyIpmi.Spec.SelRecord
namespace PyIpmi.SelXfer
open PyIpmi PyIpmi.Spec.Sel
open PyIpmi.FruXfer (Wire Xchg Send World Res xchg castErr)

/-- The constants the proofs are made for (what the pinned source contains). -/
def stdCfg : Cfg := ⟨255, 16, 16, 1, 202, 197, 0, 65535⟩

/-- A floor of `max_req_len` that leaves every length ≥ 1 usable (as shipped: none; repaired: 0). -/
def FloorOk (v : Variant) : Prop := ∀ f, v.floor = some f → f ≤ 0

/-- decidable form of `FloorOk` -/
def floorOkB (v : Variant) : Bool :=
  match v.floor with
  | none => true
  | some f => decide (f ≤ 0)

theorem floorOk_of_B {v : Variant} (h : floorOkB v = true) : FloorOk v := by
  intro f hf
  simp only [floorOkB, hf, decide_eq_true_eq] at h
  exact h

theorem floorOk_asShipped : FloorOk .asShipped := by intro f h; cases h
theorem floorOk_intended : FloorOk .intended := by
  intro f h; simp only [Variant.intended, Option.some.injEq] at h; omega

def reqLenN (m off : Nat) : Nat := if m ≠ 255 ∧ off + m > 16 then 16 - off else m

theorem wire_reqLen (m off : Nat) (hm : m < 256) (hoff : off ≤ 16) :
    wireByte (reqLen stdCfg (m : Int) off) = reqLenN m off := by
  have he : (stdCfg.entire : Int) = 255 := rfl
  have hr : (stdCfg.recLen : Int) = 16 := rfl
  unfold wireByte reqLen reqLenN
  by_cases h : m ≠ 255 ∧ off + m > 16
  · rw [if_pos h, if_pos (by omega)]; omega
  · rw [if_neg h, if_neg (by omega)]; omega

theorem shrink_entire (v : Variant) : shrink stdCfg v ((255 : Nat) : Int) = some ((16 : Nat) : Int) := by
  have he : (stdCfg.entire : Int) = 255 := rfl
  unfold shrink
  rw [if_pos (by omega)]; rfl

theorem shrink_dec (v : Variant) (hv : FloorOk v) (m : Nat) (h2 : 2 ≤ m) (h : m ≠ 255) :
    shrink stdCfg v (m : Int) = some ((m - 1 : Nat) : Int) := by
  have he : (stdCfg.entire : Int) = 255 := rfl
  have hs : (stdCfg.step : Int) = 1 := rfl
  have e : (m : Int) - (stdCfg.step : Int) = ((m - 1 : Nat) : Int) := by omega
  unfold shrink
  rw [if_neg (by omega), e]
  cases hf : v.floor with
  | none => rfl
  | some f =>
    have := hv f hf
    simp only []
    rw [if_neg (by omega)]
/-- an answer with at least one record byte is never the "empty completed answer" -/
theorem emptyAnswer_of_len (v : Variant) (data : List Nat) (h : 1 ≤ data.length) :
    emptyAnswer v data = false := by
  cases data with
  | nil => simp at h
  | cons _ _ => simp [emptyAnswer]

theorem emptyAnswer_nil (v : Variant) : emptyAnswer v [] = v.emptyStop := by simp [emptyAnswer]

theorem emptyAnswer_off {v : Variant} (h : v.emptyStop = false) (data : List Nat) :
    emptyAnswer v data = false := by simp [emptyAnswer, h]

theorem std_ccShrink : stdCfg.ccShrink = 202 := rfl
theorem std_ccCancel : stdCfg.ccCancel = 197 := rfl
theorem std_recLen : stdCfg.recLen = 16 := rfl
theorem std_first : stdCfg.first = 0 := rfl
theorem std_last : stdCfg.last = 65535 := rfl

theorem u16_bytes (v : Nat) (h : v < 65536) : v % 256 + 256 * (v / 256 % 256) = v := by omega

/-! ### the script slot -/

theorem tick_nil (d : SelDev) (h : d.evs = []) : tick d = d := by
  simp [tick, h]

theorem tick_limit (d : SelDev) : (tick d).limit = d.limit := by
  unfold tick; split <;> rfl

theorem tick_whole (d : SelDev) : (tick d).whole = d.whole := by
  unfold tick; split <;> rfl

theorem tick_cur (d : SelDev) : (tick d).cur = d.cur := by
  unfold tick; split <;> rfl

theorem tick_deleted (d : SelDev) : (tick d).deleted = d.deleted := by
  unfold tick; split <;> rfl

theorem tick_valid (d : SelDev) (h : (tick d).valid = true) : d.valid = true ∧ (tick d).log = d.log := by
  unfold tick at h ⊢
  split at h <;> simp_all

theorem tick_evs_le (d : SelDev) : (tick d).evs.length ≤ d.evs.length := by
  unfold tick; split <;> simp_all

theorem tick_evs_lt (d : SelDev) (h : d.evs ≠ []) : (tick d).evs.length < d.evs.length := by
  unfold tick; split <;> simp_all

/-! ### the device's answers -/

theorem respond_info (d : SelDev) :
    respond d infoReq.cmd infoReq.payload =
      (tick d, [0, 0x51, (tick d).log.length % 256, (tick d).log.length / 256 % 256, 0xFF, 0xFF,
                0, 0, 0, 0, 0, 0, 0, 0, 0x0A]) := by
  simp [respond, dispatch, infoReq, cmdInfo, respondInfo]

theorem respond_reserve (d : SelDev) :
    respond d reserveReq.cmd reserveReq.payload =
      ({ tick d with cur := (tick d).cur % 0xFFFF + 1, valid := true },
        [0, ((tick d).cur % 0xFFFF + 1) % 256, ((tick d).cur % 0xFFFF + 1) / 256 % 256]) := by
  simp [respond, dispatch, reserveReq, cmdInfo, cmdReserve, respondReserve]

/-- Get SEL Entry carrying a reservation id `r ≠ 0`: as `respondGet` sees it. -/
theorem respond_get_raw (d : SelDev) (r rid off len : Nat) (hr : r < 65536)
    (hrid : rid < 65536) (hoff : off < 256) (hlen : len < 256) :
    respond d (getReq r rid off len).cmd (getReq r rid off len).payload =
      respondGet (tick d) [r % 256, r / 256 % 256, rid % 256, rid / 256 % 256, off, len] := by
  have h1 : off % 256 = off := Nat.mod_eq_of_lt hoff
  have h2 : len % 256 = len := Nat.mod_eq_of_lt hlen
  simp [respond, dispatch, getReq, cmdInfo, cmdReserve, cmdGet, leBytes, h1, h2]

theorem respond_get_cancel (d : SelDev) (r rid off len : Nat) (hr1 : 1 ≤ r) (hr : r < 65536)
    (hrid : rid < 65536) (hoff : off < 256) (hlen : len < 256) (hh : holds (tick d) r = false) :
    respond d (getReq r rid off len).cmd (getReq r rid off len).payload = (tick d, [ccCancelled]) := by
  have h3 : r ≠ 0 := by omega
  rw [respond_get_raw d r rid off len hr hrid hoff hlen]
  simp [respondGet, u16_bytes r hr, u16_bytes rid hrid, h3, hh]

theorem respond_get_none (d : SelDev) (r rid off len : Nat) (hr : r < 65536)
    (hrid : rid < 65536) (hoff : off < 256) (hlen : len < 256) (hh : holds (tick d) r = true)
    (hf : find (tick d).log rid = none) :
    respond d (getReq r rid off len).cmd (getReq r rid off len).payload = (tick d, [ccNotPresent]) := by
  rw [respond_get_raw d r rid off len hr hrid hoff hlen]
  simp [respondGet, u16_bytes r hr, u16_bytes rid hrid, hh, hf]

theorem respond_get_some (d : SelDev) (r rid off len : Nat) (hr : r < 65536)
    (hrid : rid < 65536) (hoff : off < 256) (hlen : len < 256) (hh : holds (tick d) r = true)
    (e : List Nat) (next : Nat) (hf : find (tick d).log rid = some (e, next)) :
    respond d (getReq r rid off len).cmd (getReq r rid off len).payload =
      if len = 0xFF then
        if (tick d).whole then (tick d, 0 :: next % 256 :: next / 256 % 256 :: e.drop off)
        else (tick d, [ccCantReturn])
      else if len = 0 then (tick d, [ccInvalidField])
      else if len > (tick d).limit then (tick d, [ccCantReturn])
      else if off + len > e.length then (tick d, [ccOutOfRange])
      else (tick d, 0 :: next % 256 :: next / 256 % 256 :: (e.drop off).take len) := by
  rw [respond_get_raw d r rid off len hr hrid hoff hlen]
  simp [respondGet, u16_bytes r hr, u16_bytes rid hrid, hh, hf]

theorem respond_delete_raw (d : SelDev) (r rid : Nat) :
    respond d (deleteReq r rid).cmd (deleteReq r rid).payload =
      respondDelete (tick d) [r % 256, r / 256 % 256, rid % 256, rid / 256 % 256] := by
  simp [respond, dispatch, deleteReq, cmdInfo, cmdReserve, cmdGet, cmdDelete, leBytes]

theorem respond_delete_cancel (d : SelDev) (r rid : Nat) (hr : r < 65536) (hrid : rid < 65536)
    (hh : holds (tick d) r = false) :
    respond d (deleteReq r rid).cmd (deleteReq r rid).payload = (tick d, [ccCancelled]) := by
  rw [respond_delete_raw]
  simp [respondDelete, u16_bytes r hr, u16_bytes rid hrid, hh]

theorem respond_delete_none (d : SelDev) (r rid : Nat) (hr : r < 65536) (hrid : rid < 65536)
    (hh : holds (tick d) r = true) (hf : find (tick d).log rid = none) :
    respond d (deleteReq r rid).cmd (deleteReq r rid).payload = (tick d, [ccNotPresent]) := by
  rw [respond_delete_raw]
  simp [respondDelete, u16_bytes r hr, u16_bytes rid hrid, hh, hf]

theorem respond_delete_some (d : SelDev) (r rid : Nat) (hr : r < 65536) (hrid : rid < 65536)
    (hh : holds (tick d) r = true) (e : List Nat) (next : Nat)
    (hf : find (tick d).log rid = some (e, next)) :
    respond d (deleteReq r rid).cmd (deleteReq r rid).payload =
      ({ tick d with log := remove (tick d).log e, valid := false,
                     deleted := (tick d).deleted ++ [(e, r)] },
       [0, entryId e % 256, entryId e / 256 % 256]) := by
  rw [respond_delete_raw]
  simp [respondDelete, u16_bytes r hr, u16_bytes rid hrid, hh, hf]

/-! ### decoding -/

theorem decodeGet_cc (c : Nat) (h : c ≠ 0) : decodeGetRsp [c] = .ok (c, 0, []) := by
  simp [decodeGetRsp, h]

theorem decodeGet_ok (a b : Nat) (data : List Nat) :
    decodeGetRsp (0 :: a :: b :: data) = .ok (0, a + 256 * b, data) := by
  simp [decodeGetRsp]

theorem decodeU16_ok (v : Nat) (h : v < 65536) : decodeU16Rsp [0, v % 256, v / 256 % 256] = .ok v := by
  simp [decodeU16Rsp, u16_bytes v h]

theorem decodeU16_cc (c : Nat) (h : c ≠ 0) : decodeU16Rsp [c] = .ccError c := by
  simp [decodeU16Rsp, h]

/-! ### the partial-read loop against a quiet device -/

/-- record type accepted by `SelEntry` -/
def typeOk (e : List Nat) : Prop := e.getD 2 0 = 2 ∨ (0xC0 ≤ e.getD 2 0 ∧ e.getD 2 0 < 0x100)

theorem selEntry_ok (e : List Nat) (next : Nat) (hlen : e.length = 16) (hty : typeOk e) :
    selEntry e next = .ok (e, next) := by
  unfold typeOk at hty
  unfold selEntry
  rw [if_neg (by simp [hlen])]
  exact if_pos hty

theorem take_take_drop (e : List Nat) (off len : Nat) :
    e.take off ++ (e.drop off).take len = e.take (off + len) := by
  rw [List.take_add]

theorem holds_of (d : SelDev) (r : Nat) (hv : d.valid = true) (hc : d.cur = r) : holds d r = true := by
  simp [holds, hv, hc]

/-- `get_sel_entry` against a device on which nothing else happens: the stored record and the
id of its successor, for every partial-read limit ≥ 1 and with or without whole-record reads. -/
theorem entryLoop_exact (d : SelDev) (r rid : Nat) (e : List Nat) (next : Nat)
    (hev : d.evs = []) (hv : d.valid = true) (hc : d.cur = r) (hr1 : 1 ≤ r) (hr : r < 65536)
    (hrid : rid < 65536) (hf : find d.log rid = some (e, next)) (hlen : e.length = 16)
    (hty : typeOk e) (hnext : next < 65536) (hl : 1 ≤ d.limit) (v : Variant) (hfl : FloorOk v) :
    ∀ (fuel : Nat) (w : World SelDev) (m : Nat) (acc : List Nat),
      w.dev = d → acc = e.take acc.length → acc.length < 16 →
      ((m = 255 ∧ acc = []) ∨ (1 ≤ m ∧ m ≤ 16 ∧ (acc ≠ [] → m ≤ d.limit))) →
      (if m = 255 then 34 else m) + (16 - acc.length) + 1 ≤ fuel →
      (entryLoop stdCfg v respond fuel w r rid (m : Int) acc).out = .ok (e, next) ∧
      (entryLoop stdCfg v respond fuel w r rid (m : Int) acc).w.dev = d := by
  have htick : tick d = d := tick_nil d hev
  have hh : holds (tick d) r = true := by rw [htick]; exact holds_of d r hv hc
  have hf' : find (tick d).log rid = some (e, next) := by rw [htick]; exact hf
  have hnx : next % 256 + 256 * (next / 256 % 256) = next := u16_bytes next hnext
  intro fuel
  induction fuel with
  | zero => intro w m acc _ _ _ _ hfu; omega
  | succ fuel ih =>
    intro w m acc hw hacc hal hm hfu
    have hm256 : m < 256 := by rcases hm with ⟨h, _⟩ | ⟨_, h, _⟩ <;> omega
    unfold entryLoop
    simp only [wire_reqLen m acc.length hm256 (by omega)]
    simp only [std_ccShrink, std_recLen, xchg, hw]
    rcases hm with ⟨hm, ha⟩ | ⟨hm1, hm16, hml⟩
    · -- whole-record request
      subst hm; subst ha
      have hl255 : reqLenN 255 0 = 255 := by simp [reqLenN]
      simp only [List.length_nil, hl255]
      rw [respond_get_some d r rid 0 255 hr hrid (by omega) (by omega) hh e next hf']
      simp only [if_true, htick]
      by_cases hwh : d.whole = true
      · simp only [hwh, if_true, List.drop_zero, decodeGet_ok, hnx]
        simp [hlen, selEntry_ok e next hlen hty, emptyAnswer_of_len v e (by omega)]
      · simp only [hwh, Bool.false_eq_true, if_false, ccCantReturn, decodeGet_cc 202 (by decide)]
        simp only [if_true, shrink_entire]
        exact ih ⟨d, w.trace ++ [⟨getReq r rid 0 255, [0xCA]⟩]⟩ 16 [] rfl (by simp) (by simp)
          (Or.inr ⟨by omega, by omega, by simp⟩) (by simp at hfu ⊢; omega)
    · -- partial reads
      have hm255 : m ≠ 255 := by omega
      rw [if_neg hm255] at hfu
      generalize hq : reqLenN m acc.length = len
      have hq' : len = if acc.length + m > 16 then 16 - acc.length else m := by
        rw [← hq]; simp [reqLenN, hm255]
      have hq1 : 1 ≤ len := by rw [hq']; split <;> omega
      have hq2 : len ≤ m := by rw [hq']; split <;> omega
      have hq3 : acc.length + len ≤ 16 := by rw [hq']; split <;> omega
      have hq4 : acc.length + m ≤ 16 → len = m := by
        intro h; rw [hq']; split <;> omega
      rw [respond_get_some d r rid acc.length len hr hrid (by omega) (by omega) hh e next hf']
      have hn255 : ¬ len = 255 := by omega
      have hn0 : ¬ len = 0 := by omega
      simp only [hn255, hn0, if_false, htick]
      by_cases hlim : len > d.limit
      · -- refused: shrink by one
        have hacc0 : acc = [] := by
          apply Classical.byContradiction
          intro hne
          have := hml hne
          omega
        subst hacc0
        simp only [hlim, if_true, ccCantReturn, decodeGet_cc 202 (by decide)]
        have hlm : len = m := hq4 (by simp; omega)
        simp only [shrink_dec v hfl m (by omega) hm255]
        exact ih ⟨d, w.trace ++ [⟨getReq r rid 0 len, [0xCA]⟩]⟩ (m - 1) [] rfl (by simp) (by simp)
          (Or.inr ⟨by omega, by omega, by simp⟩)
          (by rw [if_neg (by omega)]; simp only [List.length_nil] at hfu ⊢; omega)
      · have hin : ¬ acc.length + len > e.length := by omega
        simp only [hlim, hin, if_false, decodeGet_ok, hnx]
        have hnew : acc ++ (e.drop acc.length).take len = e.take (acc.length + len) := by
          conv => lhs; rw [hacc]
          rw [List.length_take, Nat.min_eq_left (by omega), take_take_drop]
        have hnl : (acc ++ (e.drop acc.length).take len).length = acc.length + len := by
          rw [hnew, List.length_take]; omega
        have hE : emptyAnswer v ((e.drop acc.length).take len) = false :=
          emptyAnswer_of_len v _ (by simp only [List.length_take, List.length_drop]; omega)
        simp only [show (0 : Nat) = 202 ↔ False by decide, if_false, ne_eq, not_true_eq_false, hnl, hE,
          Bool.false_eq_true]
        by_cases hdone : acc.length + len ≥ 16
        · have h16 : acc.length + len = 16 := by omega
          simp only [hnew, h16, ge_iff_le, Nat.le_refl, if_true]
          rw [List.take_of_length_le (show e.length ≤ 16 by omega)]
          exact ⟨selEntry_ok e next hlen hty, trivial⟩
        · simp only [hdone, if_false]
          have hmlim : m ≤ d.limit := by
            by_cases hne : acc = []
            · have := hq4 (by simp [hne]; omega); omega
            · exact hml hne
          have := ih ⟨d, w.trace ++ [⟨getReq r rid acc.length len,
              0 :: next % 256 :: next / 256 % 256 :: (e.drop acc.length).take len⟩]⟩ m
            (acc ++ (e.drop acc.length).take len) rfl (by rw [hnl, hnew]) (by omega)
            (Or.inr ⟨hm1, hm16, fun _ => hmlim⟩) (by rw [if_neg hm255, hnl]; omega)
          exact this

/-! ### addressing in a log with distinct record ids -/

theorem getD_lt_of_all (e : List Nat) (i : Nat) (h : e.all (· < 256) = true) : e.getD i 0 < 256 := by
  rw [List.all_eq_true] at h
  rw [List.getD_eq_getElem?_getD]
  cases hi : e[i]? with
  | none => simp
  | some v =>
    have := h v (List.mem_of_getElem? hi)
    simpa using this

/-- What `Spec.Sel.entryOk` says. -/
theorem entryOk_iff (e : List Nat) : entryOk e = true ↔
    e.length = 16 ∧ e.all (· < 256) = true ∧ typeOk e ∧ entryId e ≠ 0 ∧ entryId e ≠ 0xFFFF := by
  have hb := fun h => getD_lt_of_all e 2 h
  simp only [entryOk, typeOk, Bool.and_eq_true, Bool.or_eq_true, beq_iff_eq, decide_eq_true_eq, bne_iff_ne, ne_eq]
  constructor
  · rintro ⟨⟨⟨⟨h1, h2⟩, h3⟩, h4⟩, h5⟩
    refine ⟨h1, h2, ?_, h4, h5⟩
    rcases h3 with h3 | h3
    · exact Or.inl h3
    · exact Or.inr ⟨h3, hb h2⟩
  · rintro ⟨h1, h2, h3, h4, h5⟩
    refine ⟨⟨⟨⟨h1, h2⟩, ?_⟩, h4⟩, h5⟩
    rcases h3 with h3 | h3
    · exact Or.inl h3
    · exact Or.inr h3.1

theorem entryId_lt (e : List Nat) (h : e.all (· < 256) = true) : entryId e < 65536 := by
  have h0 := getD_lt_of_all e 0 h
  have h1 := getD_lt_of_all e 1 h
  unfold entryId; omega

theorem findId_mid (pre : List (List Nat)) (e : List Nat) (post : List (List Nat))
    (h : ∀ x ∈ pre, entryId x ≠ entryId e) :
    findId (pre ++ e :: post) (entryId e) = some (e, nextOf post) := by
  induction pre with
  | nil => simp [findId]
  | cons x pre ih =>
    have hx : entryId x ≠ entryId e := h x (List.mem_cons_self)
    simp only [List.cons_append, findId, hx, if_false]
    exact ih (fun y hy => h y (List.mem_cons_of_mem _ hy))

theorem find_mid (pre : List (List Nat)) (e : List Nat) (post : List (List Nat))
    (h : ∀ x ∈ pre, entryId x ≠ entryId e) (h0 : entryId e ≠ 0) (hF : entryId e ≠ 0xFFFF) :
    find (pre ++ e :: post) (entryId e) = some (e, nextOf post) := by
  simp only [find, h0, hF, if_false]
  exact findId_mid pre e post h

theorem findId_mem (log : List (List Nat)) (rid : Nat) (e : List Nat) (nx : Nat)
    (h : findId log rid = some (e, nx)) : e ∈ log := by
  induction log with
  | nil => simp [findId] at h
  | cons x rest ih =>
    simp only [findId] at h
    split at h
    · simp only [Option.some.injEq, Prod.mk.injEq] at h
      rw [← h.1]; exact List.mem_cons_self
    · exact List.mem_cons_of_mem _ (ih h)

theorem findLast_mem (log : List (List Nat)) (e : List Nat) (nx : Nat)
    (h : findLast log = some (e, nx)) : e ∈ log := by
  induction log with
  | nil => simp [findLast] at h
  | cons x rest ih =>
    cases rest with
    | nil =>
      simp only [findLast, Option.some.injEq, Prod.mk.injEq] at h
      rw [← h.1]; exact List.mem_cons_self
    | cons y rest' =>
      simp only [findLast] at h
      exact List.mem_cons_of_mem _ (ih h)

theorem find_mem (log : List (List Nat)) (rid : Nat) (e : List Nat) (nx : Nat)
    (h : find log rid = some (e, nx)) : e ∈ log := by
  unfold find at h
  split at h
  · cases log with
    | nil => simp at h
    | cons x rest =>
      simp only [Option.some.injEq, Prod.mk.injEq] at h
      rw [← h.1]; exact List.mem_cons_self
  · split at h
    · exact findLast_mem log e nx h
    · exact findId_mem log rid e nx h

/-! ### the next-record walk and `get_sel_entries` against a quiet device -/

theorem getSelEntry_exact (d : SelDev) (r rid : Nat) (e : List Nat) (next : Nat)
    (hev : d.evs = []) (hv : d.valid = true) (hc : d.cur = r) (hr1 : 1 ≤ r) (hr : r < 65536)
    (hrid : rid < 65536) (hf : find d.log rid = some (e, next)) (hok : entryOk e = true)
    (hnext : next < 65536) (hl : 1 ≤ d.limit) (v : Variant) (hfl : FloorOk v) (w : World SelDev) (hw : w.dev = d) :
    (getSelEntry stdCfg v respond w rid r).out = .ok (e, next) ∧
    (getSelEntry stdCfg v respond w rid r).w.dev = d := by
  have ho := (entryOk_iff e).mp hok
  exact entryLoop_exact d r rid e next hev hv hc hr1 hr hrid hf ho.1 ho.2.2.1 hnext hl v hfl entryFuel w 255 []
    hw (by simp) (by simp) (Or.inl ⟨rfl, rfl⟩) (by simp [entryFuel])

theorem nextOf_lt (post : List (List Nat)) (h : ∀ e ∈ post, entryOk e = true) : nextOf post < 65536 := by
  cases post with
  | nil => simp [nextOf]
  | cons x rest =>
    simp only [nextOf]
    exact entryId_lt x ((entryOk_iff x).mp (h x (List.mem_cons_self))).2.1

theorem walk_exact (d : SelDev) (r : Nat) (hev : d.evs = []) (hv : d.valid = true) (hc : d.cur = r)
    (hr1 : 1 ≤ r) (hr : r < 65536) (hl : 1 ≤ d.limit) (hok : ∀ e ∈ d.log, entryOk e = true)
    (hnd : (d.log.map entryId).Nodup) (v : Variant) (hfl : FloorOk v) :
    ∀ (post pre : List (List Nat)) (e : List Nat) (fuel : Nat) (w : World SelDev) (nxt : Nat)
      (acc : List (List Nat)),
      d.log = pre ++ e :: post → w.dev = d → find d.log nxt = some (e, nextOf post) → nxt < 65536 →
      post.length + 1 ≤ fuel →
      (walk stdCfg v respond fuel w r nxt acc).out = .ok (acc ++ e :: post) ∧
      (walk stdCfg v respond fuel w r nxt acc).w.dev = d := by
  intro post
  induction post with
  | nil =>
    intro pre e fuel w nxt acc hlog hw hf hn hfu
    obtain ⟨f, rfl⟩ : ∃ f, fuel = f + 1 := ⟨fuel - 1, by omega⟩
    have he : entryOk e = true := hok e (by rw [hlog]; simp)
    have hg := getSelEntry_exact d r nxt e (nextOf []) hev hv hc hr1 hr hn hf he (by simp [nextOf]) hl v hfl w hw
    unfold walk
    simp only [hg.1]
    simp [nextOf, show stdCfg.last = 65535 from rfl, hg.2]
  | cons e2 post ih =>
    intro pre e fuel w nxt acc hlog hw hf hn hfu
    obtain ⟨f, rfl⟩ : ∃ f, fuel = f + 1 := ⟨fuel - 1, by omega⟩
    have he : entryOk e = true := hok e (by rw [hlog]; simp)
    have he2 : entryOk e2 = true := hok e2 (by rw [hlog]; simp)
    have ho2 := (entryOk_iff e2).mp he2
    have hpost : ∀ x ∈ e2 :: post, entryOk x = true := by
      intro x hx; apply hok; rw [hlog]; simp only [List.mem_append, List.mem_cons]
      exact Or.inr (Or.inr (by simpa using hx))
    have hg := getSelEntry_exact d r nxt e (nextOf (e2 :: post)) hev hv hc hr1 hr hn hf he
      (nextOf_lt _ hpost) hl v hfl w hw
    unfold walk
    simp only [hg.1]
    have hne : ¬ nextOf (e2 :: post) = stdCfg.last := by simpa [nextOf, stdCfg] using ho2.2.2.2.2
    simp only [hne, if_false]
    -- the successor is found by its id: ids are pairwise distinct
    have hlog' : d.log = (pre ++ [e]) ++ e2 :: post := by rw [hlog]; simp
    have hdist : ∀ x ∈ pre ++ [e], entryId x ≠ entryId e2 := by
      rw [hlog', List.map_append, List.map_cons] at hnd
      have := (List.nodup_append.mp hnd).2.2
      intro x hx heq
      exact this (entryId x) (List.mem_map_of_mem hx) (entryId e2) (List.mem_cons_self) heq
    have hf2 : find d.log (entryId e2) = some (e2, nextOf post) := by
      rw [hlog']; exact find_mid _ e2 post hdist ho2.2.2.2.1 ho2.2.2.2.2
    have := ih (pre ++ [e]) e2 f (getSelEntry stdCfg v respond w nxt r).w (entryId e2) (acc ++ [e])
      hlog' hg.2 hf2 (entryId_lt e2 ho2.2.1) (by simp at hfu ⊢; omega)
    simpa [nextOf] using this

theorem decodeInfo_ok (n : Nat) (hn : n < 65536) :
    decodeInfoRsp [0, 0x51, n % 256, n / 256 % 256, 0xFF, 0xFF, 0, 0, 0, 0, 0, 0, 0, 0, 0x0A] = .ok n := by
  simp [decodeInfoRsp, u16_bytes n hn]

/-- `get_sel_entries()` against a device on which nothing else happens returns the log. -/
theorem selEntries_exact (d : SelDev) (hev : d.evs = []) (hl : 1 ≤ d.limit)
    (hok : ∀ e ∈ d.log, entryOk e = true) (hnd : (d.log.map entryId).Nodup)
    (hn : d.log.length < 65536) (v : Variant) (hfl : FloorOk v) (w : World SelDev) (hw : w.dev = d) :
    (selEntries stdCfg v respond w).out = .ok d.log := by
  have htick : tick d = d := tick_nil d hev
  unfold selEntries
  simp only [xchg, hw, respond_info, htick, decodeInfo_ok _ hn]
  cases hlog : d.log with
  | nil => simp
  | cons e0 rest =>
    simp only [List.length_cons, Nat.add_one_ne_zero, if_false]
    unfold reserve
    simp only [xchg, respond_reserve, htick]
    have hr1 : 1 ≤ d.cur % 0xFFFF + 1 := by omega
    have hr : d.cur % 0xFFFF + 1 < 65536 := by omega
    simp only [decodeU16_ok _ hr]
    have he0 : entryOk e0 = true := hok e0 (by rw [hlog]; simp)
    have := walk_exact { d with cur := d.cur % 0xFFFF + 1, valid := true } (d.cur % 0xFFFF + 1)
      hev rfl rfl hr1 hr hl hok hnd v hfl rest [] e0 walkFuel
      ⟨{ d with cur := d.cur % 0xFFFF + 1, valid := true },
        (w.trace ++ [⟨infoReq, [0, 0x51, d.log.length % 256, d.log.length / 256 % 256, 0xFF, 0xFF,
                0, 0, 0, 0, 0, 0, 0, 0, 0x0A]⟩]) ++
          [⟨reserveReq, [0, (d.cur % 0xFFFF + 1) % 256, (d.cur % 0xFFFF + 1) / 256 % 256]⟩]⟩
      0 [] (by simpa using hlog) rfl (by simp [hlog, find]) (by omega)
      (by have : rest.length + 1 = d.log.length := by rw [hlog]; simp
          simp only [walkFuel]; omega)
    simpa [show stdCfg.first = 0 from rfl, hlog] using this.1

/-! ### the partial-read loop while other parties change the log -/

/-- Every record the device holds or will be given by the script has 16 bytes; limit ≥ 1. -/
structure WF (d : SelDev) : Prop where
  log : ∀ e ∈ d.log, e.length = 16
  evs : ∀ e, some (Change.add e) ∈ d.evs → e.length = 16
  limit : 1 ≤ d.limit

theorem WF.tick {d : SelDev} (h : WF d) : WF (tick d) := by
  obtain ⟨h1, h2, h3⟩ := h
  unfold Spec.Sel.tick
  split
  · exact ⟨h1, h2, h3⟩
  · rename_i r hr
    exact ⟨h1, fun e he => h2 e (by rw [hr]; exact List.mem_cons_of_mem _ he), h3⟩
  · rename_i c r hr
    refine ⟨?_, fun e he => h2 e (by rw [hr]; exact List.mem_cons_of_mem _ he), h3⟩
    intro e he
    cases c with
    | cancel => exact h1 e he
    | add x =>
      simp only [Change.apply, List.mem_append, List.mem_singleton] at he
      rcases he with he | he
      · exact h1 e he
      · rw [he]; exact h2 x (by rw [hr]; exact List.mem_cons_self)
    | delFirst => exact h1 e (List.mem_of_mem_drop he)

/-- While reservation `r` stands, the log is the snapshot `S` taken when it was handed out. -/
def Inv (r : Nat) (S : List (List Nat)) (d : SelDev) : Prop :=
  d.valid = true → d.cur = r ∧ d.log = S

theorem Inv.tick {r : Nat} {S : List (List Nat)} {d : SelDev} (h : Inv r S d) : Inv r S (tick d) := by
  intro hv
  obtain ⟨h1, h2⟩ := tick_valid d hv
  obtain ⟨h3, h4⟩ := h h1
  exact ⟨by rw [tick_cur]; exact h3, by rw [h2]; exact h4⟩

/-- Number of log changes (each cancels the reservation) the script still holds. -/
def nch (evs : List (Option Change)) : Nat := evs.countP Option.isSome

theorem tick_nch_le (d : SelDev) : nch (tick d).evs ≤ nch d.evs := by
  unfold tick; split
  · exact Nat.le_refl _
  · rename_i r hr; simp [nch, hr]
  · rename_i c r hr; simp [nch, hr]

/-- A tick that takes a standing reservation away has consumed a change. -/
theorem tick_nch_lt (d : SelDev) (hv : d.valid = true) (hv' : (tick d).valid = false) :
    nch (tick d).evs < nch d.evs := by
  unfold tick at hv' ⊢; split
  · rename_i h; simp [h, hv] at hv'
  · rename_i r hr; simp [hr, hv] at hv'
  · rename_i c r hr; simp [nch, hr]

theorem nch_lt_ne_nil {a b : List (Option Change)} (h : nch a < nch b) : b ≠ [] := by
  intro hb; subst hb; simp [nch] at h

/-- `P` holds of the log now and after every further step of the script. -/
def Always (P : List (List Nat) → Prop) : List (List Nat) → List (Option Change) → Prop
  | log, [] => P log
  | log, none :: r => P log ∧ Always P log r
  | log, some c :: r => P log ∧ Always P (c.apply log) r

theorem Always.now {P : List (List Nat) → Prop} {log : List (List Nat)} {evs : List (Option Change)}
    (h : Always P log evs) : P log := by
  cases evs with
  | nil => exact h
  | cons x r => cases x <;> exact h.1

theorem Always.tick {P : List (List Nat) → Prop} {d : SelDev} (h : Always P d.log d.evs) :
    Always P (tick d).log (tick d).evs := by
  unfold Spec.Sel.tick; split
  · exact h
  · rename_i r hr; rw [hr] at h; exact h.2
  · rename_i c r hr; rw [hr] at h; exact h.2

theorem holds_iff (d : SelDev) (r : Nat) : holds d r = true ↔ d.valid = true ∧ d.cur = r := by
  simp only [holds, Bool.and_eq_true, beq_iff_eq]
  constructor <;> rintro ⟨a, b⟩ <;> exact ⟨a, b.symm⟩

/-- What one run of the partial-read loop guarantees, whatever the script does. -/
structure Post (r rid : Nat) (S : List (List Nat)) (w : World SelDev) (res : Res SelDev (List Nat × Nat)) :
    Prop where
  wf : WF res.w.dev
  inv : Inv r S res.w.dev
  deleted : res.w.dev.deleted = w.dev.deleted
  evs : res.w.dev.evs.length ≤ w.dev.evs.length
  ok : ∀ e nx, res.out = .ok (e, nx) → (∃ nx', find S rid = some (e, nx')) ∧ res.w.dev.valid = true
  /-- C5h under a reservation that stood when the loop was entered: a change of the script was consumed -/
  cancel : res.out = .ccError 197 → w.dev.valid = true → w.dev.cur = r → nch res.w.dev.evs < nch w.dev.evs
  nchLe : nch res.w.dev.evs ≤ nch w.dev.evs
  /-- the snapshot holds the addressed record and it is of a known type: the read completes or is cancelled -/
  good : ∀ e nx, find S rid = some (e, nx) → typeOk e → (∃ p, res.out = .ok p) ∨ res.out = .ccError 197
  always : ∀ P, Always P w.dev.log w.dev.evs → Always P res.w.dev.log res.w.dev.evs
  term : res.out ≠ .pyError "nontermination"

/-- The loop ends at this exchange. -/
theorem Post.leaf {r rid : Nat} {S : List (List Nat)} {w w' : World SelDev}
    {out : Outcome (List Nat × Nat)} (hdev : w'.dev = tick w.dev) (hwf : WF w.dev) (hinv : Inv r S w.dev)
    (hok : ∀ e nx, out = .ok (e, nx) → (∃ nx', find S rid = some (e, nx')) ∧ (tick w.dev).valid = true)
    (hcancel : out = .ccError 197 → holds (tick w.dev) r = false)
    (hgood : ∀ e nx, find S rid = some (e, nx) → typeOk e → (∃ p, out = .ok p) ∨ out = .ccError 197)
    (hterm : out ≠ .pyError "nontermination") : Post r rid S w ⟨w', out⟩ := by
  refine ⟨by rw [hdev]; exact hwf.tick, by rw [hdev]; exact hinv.tick, by rw [hdev, tick_deleted],
    by rw [hdev]; exact tick_evs_le _, ?_, ?_, by rw [hdev]; exact tick_nch_le _, hgood,
    fun P h => by rw [hdev]; exact h.tick, hterm⟩
  · intro e nx h; rw [hdev]; exact hok e nx h
  · intro h hv hc
    have hf := hcancel h
    have hv' : (tick w.dev).valid = false := by
      cases hx : (tick w.dev).valid with
      | false => rfl
      | true =>
        rw [(holds_iff _ _).mpr ⟨hx, by rw [tick_cur]; exact hc⟩] at hf
        cases hf
    show nch w'.dev.evs < _
    rw [hdev]; exact tick_nch_lt _ hv hv'

/-- The loop goes on after this exchange. -/
theorem Post.step {r rid : Nat} {S : List (List Nat)} {w w' : World SelDev}
    {res : Res SelDev (List Nat × Nat)} (hdev : w'.dev = tick w.dev) (h : Post r rid S w' res) :
    Post r rid S w res := by
  have hle : nch w'.dev.evs ≤ nch w.dev.evs := by rw [hdev]; exact tick_nch_le _
  refine ⟨h.wf, h.inv, by rw [h.deleted, hdev, tick_deleted],
    Nat.le_trans h.evs (by rw [hdev]; exact tick_evs_le _), h.ok, ?_, Nat.le_trans h.nchLe hle, h.good,
    fun P hP => h.always P (by rw [hdev]; exact hP.tick), h.term⟩
  intro hc hv hcur
  cases hx : w'.dev.valid with
  | true => exact Nat.lt_of_lt_of_le (h.cancel hc hx (by rw [hdev, tick_cur]; exact hcur)) hle
  | false =>
    have : nch w'.dev.evs < nch w.dev.evs := by
      rw [hdev] at hx ⊢; exact tick_nch_lt _ hv hx
    exact Nat.lt_of_le_of_lt h.nchLe this

theorem selEntry_data (data : List Nat) (nx : Nat) (e : List Nat) (nx' : Nat)
    (h : selEntry data nx = .ok (e, nx')) : e = data := by
  unfold selEntry at h
  split at h
  · cases h
  · dsimp only at h
    split at h
    · simp only [Outcome.ok.injEq, Prod.mk.injEq] at h; exact h.1.symm
    · cases h

theorem selEntry_ne_cc (data : List Nat) (nx c : Nat) : selEntry data nx ≠ .ccError c := by
  unfold selEntry; split
  · intro h; cases h
  · dsimp only
    split <;> intro h <;> cases h

theorem selEntry_ne_py (data : List Nat) (nx : Nat) (s : String) : selEntry data nx ≠ .pyError s := by
  unfold selEntry; split
  · intro h; cases h
  · dsimp only
    split <;> intro h <;> cases h

/-- Reservation invariant of `get_sel_entry`: for EVERY script of concurrent changes, a record the
loop returns is the record the snapshot `S` (log at reservation time) holds under `rid`, and the
reservation still stands when the last part arrives. -/
theorem entryLoop_frame (r rid : Nat) (hr1 : 1 ≤ r) (hr : r < 65536) (hrid : rid < 65536)
    (S : List (List Nat)) (hS : ∀ e ∈ S, e.length = 16) (v : Variant) (hfl : FloorOk v) :
    ∀ (fuel : Nat) (w : World SelDev) (m : Nat) (acc : List Nat),
      WF w.dev → Inv r S w.dev → acc.length < 16 →
      (acc ≠ [] → ∃ e nx, find S rid = some (e, nx) ∧ acc = e.take acc.length) →
      ((m = 255 ∧ acc = []) ∨ (1 ≤ m ∧ m ≤ 16 ∧ (acc ≠ [] → m ≤ w.dev.limit))) →
      (if m = 255 then 34 else m) + (16 - acc.length) + 1 ≤ fuel →
      Post r rid S w (entryLoop stdCfg v respond fuel w r rid (m : Int) acc) := by
  intro fuel
  induction fuel with
  | zero => intro w m acc _ _ _ _ _ hfu; omega
  | succ fuel ih =>
    intro w m acc hwf hinv hal hacc hm hfu
    have hwf' := hwf.tick
    have hinv' := hinv.tick
    have hm256 : m < 256 := by rcases hm with ⟨h, _⟩ | ⟨_, h, _⟩ <;> omega
    unfold entryLoop
    simp only [wire_reqLen m acc.length hm256 (by omega)]
    simp only [std_ccShrink, std_recLen, xchg]
    generalize hq : reqLenN m acc.length = len
    have hlenlt : len < 256 := by
      rw [← hq]; unfold reqLenN
      split <;> omega
    by_cases hh : holds (tick w.dev) r = true
    · -- the reservation stands: the device looks into the snapshot
      obtain ⟨hv, hc⟩ := (holds_iff _ _).mp hh
      have hlogS : (tick w.dev).log = S := (hinv' hv).2
      cases hf : find S rid with
      | none =>
        rw [respond_get_none _ r rid acc.length len hr hrid (by omega) hlenlt hh (by rw [hlogS]; exact hf)]
        simp only [ccNotPresent, decodeGet_cc 203 (by decide)]
        exact Post.leaf rfl hwf hinv (by intro e nx h; cases h) (by intro h; cases h)
          (by intro e nx h; rw [hf] at h; cases h) (by intro h; cases h)
      | some p =>
        obtain ⟨e, next⟩ := p
        have he16 : e.length = 16 := hS e (find_mem S rid e next hf)
        have hacc' : acc = e.take acc.length := by
          by_cases hne : acc = []
          · simp [hne]
          · obtain ⟨e0, nx0, h0, h1⟩ := hacc hne
            rw [hf] at h0
            simp only [Option.some.injEq, Prod.mk.injEq] at h0
            rw [h0.1]; exact h1
        rw [respond_get_some _ r rid acc.length len hr hrid (by omega) hlenlt hh e next (by rw [hlogS]; exact hf)]
        rcases hm with ⟨hm, ha⟩ | ⟨hm1, hm16, hml⟩
        · -- whole-record request
          subst hm; subst ha
          have hl255 : len = 255 := by rw [← hq]; simp [reqLenN]
          subst hl255
          simp only [if_true]
          by_cases hwh : (tick w.dev).whole = true
          · simp only [hwh, if_true, List.length_nil, List.drop_zero, decodeGet_ok, List.nil_append]
            simp only [show (0 : Nat) = 202 ↔ False by decide, if_false, ne_eq, not_true_eq_false, he16,
              ge_iff_le, Nat.le_refl, if_true, emptyAnswer_of_len v e (by omega), Bool.false_eq_true]
            refine Post.leaf rfl hwf hinv ?_ ?_ ?_ (selEntry_ne_py _ _ _)
            · intro e' nx h
              rw [selEntry_data _ _ _ _ h]
              exact ⟨⟨next, hf⟩, hv⟩
            · intro h; exact absurd h (selEntry_ne_cc _ _ _)
            · intro e' nx' hfe hty
              rw [hf] at hfe; cases hfe
              exact Or.inl ⟨_, selEntry_ok e _ he16 hty⟩
          · simp only [hwh, Bool.false_eq_true, if_false, ccCantReturn, decodeGet_cc 202 (by decide)]
            simp only [if_true, shrink_entire]
            apply Post.step (w' := ⟨tick w.dev, w.trace ++ [⟨getReq r rid ([] : List Nat).length 255, [202]⟩]⟩) rfl
            exact ih ⟨tick w.dev, w.trace ++ [⟨getReq r rid ([] : List Nat).length 255, [202]⟩]⟩ 16 [] hwf' hinv'
              (by simp) (by intro h; exact absurd rfl h) (Or.inr ⟨by omega, by omega, by simp⟩)
              (by simp at hfu ⊢; omega)
        · -- partial reads
          have hm255 : m ≠ 255 := by omega
          rw [if_neg hm255] at hfu
          have hq' : len = if acc.length + m > 16 then 16 - acc.length else m := by
            rw [← hq]; simp [reqLenN, hm255]
          have hq1 : 1 ≤ len := by rw [hq']; split <;> omega
          have hq2 : len ≤ m := by rw [hq']; split <;> omega
          have hq3 : acc.length + len ≤ 16 := by rw [hq']; split <;> omega
          have hq4 : acc.length + m ≤ 16 → len = m := by
            intro h; rw [hq']; split <;> omega
          have hn255 : ¬ len = 255 := by omega
          have hn0 : ¬ len = 0 := by omega
          simp only [hn255, hn0, if_false]
          by_cases hlim : len > (tick w.dev).limit
          · have hacc0 : acc = [] := by
              apply Classical.byContradiction
              intro hne
              have := hml hne
              rw [tick_limit] at hlim
              omega
            subst hacc0
            simp only [hlim, if_true, ccCantReturn, decodeGet_cc 202 (by decide)]
            have hlm : len = m := hq4 (by simp; omega)
            have hl1 := hwf'.limit
            simp only [shrink_dec v hfl m (by omega) hm255]
            apply Post.step (w' := ⟨tick w.dev, w.trace ++ [⟨getReq r rid ([] : List Nat).length len, [202]⟩]⟩) rfl
            exact ih ⟨tick w.dev, w.trace ++ [⟨getReq r rid ([] : List Nat).length len, [202]⟩]⟩ (m - 1) [] hwf' hinv'
              (by simp) (by intro h; exact absurd rfl h) (Or.inr ⟨by omega, by omega, by simp⟩)
              (by rw [if_neg (by omega)]; simp only [List.length_nil] at hfu ⊢; omega)
          · have hin : ¬ acc.length + len > e.length := by omega
            simp only [hlim, hin, if_false, decodeGet_ok]
            have hnew : acc ++ (e.drop acc.length).take len = e.take (acc.length + len) := by
              conv => lhs; rw [hacc']
              rw [List.length_take, Nat.min_eq_left (by omega), take_take_drop]
            have hnl : (acc ++ (e.drop acc.length).take len).length = acc.length + len := by
              rw [hnew, List.length_take]; omega
            have hE : emptyAnswer v ((e.drop acc.length).take len) = false :=
              emptyAnswer_of_len v _ (by simp only [List.length_take, List.length_drop]; omega)
            simp only [show (0 : Nat) = 202 ↔ False by decide, if_false, ne_eq, not_true_eq_false, hnl, hE,
              Bool.false_eq_true]
            by_cases hdone : acc.length + len ≥ 16
            · have h16 : acc.length + len = 16 := by omega
              simp only [hnew, h16, ge_iff_le, Nat.le_refl, if_true]
              rw [List.take_of_length_le (show e.length ≤ 16 by omega)]
              refine Post.leaf rfl hwf hinv ?_ ?_ ?_ (selEntry_ne_py _ _ _)
              · intro e' nx h
                rw [selEntry_data _ _ _ _ h]
                exact ⟨⟨next, hf⟩, hv⟩
              · intro h; exact absurd h (selEntry_ne_cc _ _ _)
              · intro e' nx' hfe hty
                rw [hf] at hfe; cases hfe
                exact Or.inl ⟨_, selEntry_ok e _ he16 hty⟩
            · simp only [hdone, if_false]
              have hmlim : m ≤ (tick w.dev).limit := by
                rw [tick_limit] at hlim ⊢
                by_cases hne : acc = []
                · have := hq4 (by simp [hne]; omega); omega
                · exact hml hne
              apply Post.step (w' := ⟨tick w.dev, w.trace ++ [⟨getReq r rid acc.length len,
                  0 :: next % 256 :: next / 256 % 256 :: (e.drop acc.length).take len⟩]⟩) rfl
              have := ih ⟨tick w.dev, w.trace ++ [⟨getReq r rid acc.length len,
                  0 :: next % 256 :: next / 256 % 256 :: (e.drop acc.length).take len⟩]⟩ m
                (acc ++ (e.drop acc.length).take len) hwf' hinv' (by omega)
                (fun _ => ⟨e, next, hf, by rw [hnl, hnew]⟩)
                (Or.inr ⟨hm1, hm16, fun _ => hmlim⟩) (by rw [if_neg hm255, hnl]; omega)
              exact this
    · -- the reservation is gone: C5h, the loop ends
      have hh' : holds (tick w.dev) r = false := by simpa using hh
      rw [respond_get_cancel _ r rid acc.length len hr1 hr hrid (by omega) hlenlt hh']
      simp only [ccCancelled, decodeGet_cc 197 (by decide)]
      exact Post.leaf rfl hwf hinv (by intro e nx h; cases h) (fun _ => hh') (fun _ _ _ _ => Or.inr rfl)
        (by intro h; cases h)

/-! ### get-and-clear -/

theorem castErr_ne_ok {α β} (x : Outcome α) (b : β) : (castErr x : Outcome β) ≠ .ok b := by
  cases x <;> intro h <;> cases h

theorem castErr_nonterm {α β} (x : Outcome α) (hx : ∀ a, x ≠ .ok a)
    (h : (castErr x : Outcome β) = .pyError "nontermination") : x = .pyError "nontermination" := by
  cases x with
  | ok a => exact absurd rfl (hx a)
  | pyError n => simp only [castErr, Outcome.pyError.injEq] at h; rw [h]
  | _ => cases h

theorem decodeU16_of_ok (a b : Nat) : decodeU16Rsp [0, a, b] = .ok (a + 256 * b) := by
  simp [decodeU16Rsp]

/-- How a call of `get_and_clear_sel_entry` can end. -/
def Atomic (res : Res SelDev (List Nat)) : Prop :=
  (∃ e r, res.out = .ok e ∧ res.w.dev.deleted = [(e, r)]) ∨
  ((∀ e, res.out ≠ .ok e) ∧ res.out ≠ .pyError "nontermination" ∧ res.w.dev.deleted = [])

/-- For EVERY script of concurrent changes and every device limit: get-and-clear terminates - the
repaired loop for every retry budget (an exhausted budget is RetryError), the pinned `while True`
when its fuel exceeds the script length; if it returns a record, that record is exactly the one
record the device deleted; if it raises, nothing was deleted. -/
theorem getAndClear_atomic (rid : Nat) (hrid : rid < 65536) (v : Variant) (hfl : FloorOk v) :
    ∀ (fuel : Nat) (w : World SelDev), WF w.dev → w.dev.deleted = [] →
      (v.budget.isSome = true ∨ w.dev.evs.length < fuel) →
      Atomic (getAndClear stdCfg v respond fuel w rid) := by
  intro fuel
  induction fuel with
  | zero =>
    intro w _ hdel h
    rcases h with h | h
    · refine Or.inr ⟨?_, ?_, hdel⟩ <;> simp [getAndClear, gacExhausted, h]
    · omega
  | succ fuel ih =>
    intro w hwf hdel hfu
    unfold getAndClear
    simp only [reserve, xchg, respond_reserve]
    have hr1 : 1 ≤ (tick w.dev).cur % 0xFFFF + 1 := by omega
    have hr : (tick w.dev).cur % 0xFFFF + 1 < 65536 := by omega
    simp only [decodeU16_ok _ hr]
    generalize hrdef : (tick w.dev).cur % 0xFFFF + 1 = r at hr1 hr ⊢
    -- the world after Reserve SEL
    generalize hw1 : (⟨{ tick w.dev with cur := r, valid := true },
      w.trace ++ [⟨reserveReq, [0, r % 256, r / 256 % 256]⟩]⟩ : World SelDev) = w1
    have hd1 : w1.dev = { tick w.dev with cur := r, valid := true } := by rw [← hw1]
    have hwt := hwf.tick
    have hwf1 : WF w1.dev := by rw [hd1]; exact ⟨hwt.log, hwt.evs, hwt.limit⟩
    have hS : ∀ e ∈ w1.dev.log, e.length = 16 := hwf1.log
    have hinv1 : Inv r w1.dev.log w1.dev := by intro _; rw [hd1]; exact ⟨rfl, rfl⟩
    have hdel1 : w1.dev.deleted = [] := by rw [hd1]; simp only; rw [tick_deleted]; exact hdel
    have hevs1 : w1.dev.evs = (tick w.dev).evs := by rw [hd1]
    have hv1 : w1.dev.valid = true := by rw [hd1]
    have hc1 : w1.dev.cur = r := by rw [hd1]
    have hpost := entryLoop_frame r rid hr1 hr hrid w1.dev.log hS v hfl entryFuel w1 255 [] hwf1 hinv1 (by simp)
      (by intro h; exact absurd rfl h) (Or.inl ⟨rfl, rfl⟩) (by simp [entryFuel])
    have hgdef : getSelEntry stdCfg v respond w1 rid r = entryLoop stdCfg v respond entryFuel w1 r rid ((255 : Nat) : Int) [] := rfl
    rw [← hgdef] at hpost
    generalize getSelEntry stdCfg v respond w1 rid r = g at hpost
    have hgdel : g.w.dev.deleted = [] := by rw [hpost.deleted]; exact hdel1
    have hgevs : g.w.dev.evs.length ≤ (tick w.dev).evs.length := by rw [← hevs1]; exact hpost.evs
    have htevs := tick_evs_le w.dev
    cases hg : g.out with
    | ok p =>
      obtain ⟨e, nx⟩ := p
      obtain ⟨⟨nx', hfind⟩, hgv⟩ := hpost.ok e nx hg
      obtain ⟨hgc, hgl⟩ := hpost.inv hgv
      simp only [deleteEntry, xchg]
      by_cases hh : holds (tick g.w.dev) r = true
      · -- the reservation still stands: the device deletes what `rid` designates in the snapshot
        obtain ⟨hv2, _⟩ := (holds_iff _ _).mp hh
        have hlog2 : (tick g.w.dev).log = w1.dev.log := by rw [(tick_valid _ hv2).2]; exact hgl
        rw [respond_delete_some _ r rid hr hrid hh e nx' (by rw [hlog2]; exact hfind)]
        simp only [decodeU16_of_ok]
        exact Or.inl ⟨e, r, rfl, by simp only; rw [tick_deleted, hgdel]; rfl⟩
      · -- cancelled between read and delete: both steps are repeated
        have hh' : holds (tick g.w.dev) r = false := by simpa using hh
        rw [respond_delete_cancel _ r rid hr hrid hh']
        simp only [ccCancelled, decodeU16_cc 197 (by decide), show stdCfg.ccCancel = 197 from rfl, if_true]
        have hne : g.w.dev.evs ≠ [] := by
          intro hnil
          rw [tick_nil _ hnil, holds_of _ _ hgv hgc] at hh'
          cases hh'
        have := tick_evs_lt _ hne
        exact ih ⟨tick g.w.dev, _⟩ hpost.wf.tick (by simp only; rw [tick_deleted]; exact hgdel)
          (by rcases hfu with h | h
              · exact Or.inl h
              · right; simp only; omega)
    | ccError c =>
      simp only
      by_cases hc : c = stdCfg.ccCancel
      · simp only [hc, if_true]
        have hne : w1.dev.evs ≠ [] := nch_lt_ne_nil (hpost.cancel (by rw [hg, hc]; rfl) hv1 hc1)
        have hne' : w.dev.evs ≠ [] := by
          intro hnil
          rw [hevs1, tick_nil _ hnil] at hne
          exact hne hnil
        have := tick_evs_lt _ hne'
        exact ih g.w hpost.wf hgdel (by rcases hfu with h | h
                                        · exact Or.inl h
                                        · right; omega)
      · simp only [hc, if_false]
        exact Or.inr ⟨(by intro e h; cases h), (by intro h; cases h), hgdel⟩
    | decodingError =>
      exact Or.inr ⟨(by intro e h; cases h), (by intro h; cases h), hgdel⟩
    | encodingError =>
      exact Or.inr ⟨(by intro e h; cases h), (by intro h; cases h), hgdel⟩
    | retryError =>
      exact Or.inr ⟨(by intro e h; cases h), (by intro h; cases h), hgdel⟩
    | hpmError =>
      exact Or.inr ⟨(by intro e h; cases h), (by intro h; cases h), hgdel⟩
    | timeoutError =>
      exact Or.inr ⟨(by intro e h; cases h), (by intro h; cases h), hgdel⟩
    | notSupported =>
      exact Or.inr ⟨(by intro e h; cases h), (by intro h; cases h), hgdel⟩
    | pyError n =>
      refine Or.inr ⟨(by intro e h; cases h), ?_, hgdel⟩
      intro h
      simp only [castErr, Outcome.pyError.injEq] at h
      exact hpost.term (by rw [hg, h])

theorem holds_false_valid (d : SelDev) (r : Nat) (hc : d.cur = r) (h : holds (tick d) r = false) :
    (tick d).valid = false := by
  cases hx : (tick d).valid with
  | false => rfl
  | true =>
    rw [(holds_iff _ _).mpr ⟨hx, by rw [tick_cur]; exact hc⟩] at h
    cases h

/-- The addressed record is in the log, and every record of the log is of a known type. -/
def Avail (rid : Nat) (log : List (List Nat)) : Prop :=
  (∃ e nx, find log rid = some (e, nx)) ∧ ∀ e ∈ log, typeOk e

/-- "Both steps are repeated": as long as the addressed record is still in the log after every
change of the script, and the script holds fewer changes than the call has rounds, get-and-clear
SUCCEEDS - it returns a record and the device has deleted exactly that record. -/
theorem getAndClear_succeeds (rid : Nat) (hrid : rid < 65536) (v : Variant) (hfl : FloorOk v) :
    ∀ (budget : Nat) (w : World SelDev), WF w.dev → w.dev.deleted = [] → nch w.dev.evs < budget →
      Always (Avail rid) w.dev.log w.dev.evs →
      ∃ e r, (getAndClear stdCfg v respond budget w rid).out = .ok e ∧
        (getAndClear stdCfg v respond budget w rid).w.dev.deleted = [(e, r)] := by
  intro budget
  induction budget with
  | zero => intro w _ _ h; omega
  | succ budget ih =>
    intro w hwf hdel hfu halw
    unfold getAndClear
    simp only [reserve, xchg, respond_reserve]
    have hr1 : 1 ≤ (tick w.dev).cur % 0xFFFF + 1 := by omega
    have hr : (tick w.dev).cur % 0xFFFF + 1 < 65536 := by omega
    simp only [decodeU16_ok _ hr]
    generalize hrdef : (tick w.dev).cur % 0xFFFF + 1 = r at hr1 hr ⊢
    generalize hw1 : (⟨{ tick w.dev with cur := r, valid := true },
      w.trace ++ [⟨reserveReq, [0, r % 256, r / 256 % 256]⟩]⟩ : World SelDev) = w1
    have hd1 : w1.dev = { tick w.dev with cur := r, valid := true } := by rw [← hw1]
    have hwt := hwf.tick
    have hwf1 : WF w1.dev := by rw [hd1]; exact ⟨hwt.log, hwt.evs, hwt.limit⟩
    have hS : ∀ e ∈ w1.dev.log, e.length = 16 := hwf1.log
    have hinv1 : Inv r w1.dev.log w1.dev := by intro _; rw [hd1]; exact ⟨rfl, rfl⟩
    have hdel1 : w1.dev.deleted = [] := by rw [hd1]; simp only; rw [tick_deleted]; exact hdel
    have hevs1 : w1.dev.evs = (tick w.dev).evs := by rw [hd1]
    have hlog1 : w1.dev.log = (tick w.dev).log := by rw [hd1]
    have hv1 : w1.dev.valid = true := by rw [hd1]
    have hc1 : w1.dev.cur = r := by rw [hd1]
    have halw1 : Always (Avail rid) w1.dev.log w1.dev.evs := by rw [hevs1, hlog1]; exact halw.tick
    have hn1 : nch w1.dev.evs ≤ nch w.dev.evs := by rw [hevs1]; exact tick_nch_le _
    obtain ⟨⟨e0, nx0, hf0⟩, hty⟩ := halw1.now
    have hty0 : typeOk e0 := hty e0 (find_mem _ _ _ _ hf0)
    have hpost := entryLoop_frame r rid hr1 hr hrid w1.dev.log hS v hfl entryFuel w1 255 [] hwf1 hinv1 (by simp)
      (by intro h; exact absurd rfl h) (Or.inl ⟨rfl, rfl⟩) (by simp [entryFuel])
    have hgdef : getSelEntry stdCfg v respond w1 rid r = entryLoop stdCfg v respond entryFuel w1 r rid ((255 : Nat) : Int) [] := rfl
    rw [← hgdef] at hpost
    generalize getSelEntry stdCfg v respond w1 rid r = g at hpost
    have hgdel : g.w.dev.deleted = [] := by rw [hpost.deleted]; exact hdel1
    have hgood := hpost.good e0 nx0 hf0 hty0
    have halwg := hpost.always _ halw1
    cases hg : g.out with
    | ok p =>
      obtain ⟨e, nx⟩ := p
      obtain ⟨⟨nx', hfind⟩, hgv⟩ := hpost.ok e nx hg
      obtain ⟨hgc, hgl⟩ := hpost.inv hgv
      simp only [deleteEntry, xchg]
      by_cases hh : holds (tick g.w.dev) r = true
      · obtain ⟨hv2, _⟩ := (holds_iff _ _).mp hh
        have hlog2 : (tick g.w.dev).log = w1.dev.log := by rw [(tick_valid _ hv2).2]; exact hgl
        rw [respond_delete_some _ r rid hr hrid hh e nx' (by rw [hlog2]; exact hfind)]
        simp only [decodeU16_of_ok]
        exact ⟨e, r, rfl, by rw [tick_deleted, hgdel]; rfl⟩
      · have hh' : holds (tick g.w.dev) r = false := by simpa using hh
        rw [respond_delete_cancel _ r rid hr hrid hh']
        simp only [ccCancelled, decodeU16_cc 197 (by decide), show stdCfg.ccCancel = 197 from rfl, if_true]
        have := tick_nch_lt _ hgv (holds_false_valid _ _ hgc hh')
        have := hpost.nchLe
        exact ih ⟨tick g.w.dev, _⟩ hpost.wf.tick (by simp only; rw [tick_deleted]; exact hgdel)
          (by show nch (tick g.w.dev).evs < budget; omega) halwg.tick
    | ccError c =>
      have hc : c = 197 := by
        rcases hgood with ⟨p, h⟩ | h <;> rw [hg] at h <;> cases h
        rfl
      subst hc
      simp only [show stdCfg.ccCancel = 197 from rfl, if_true]
      have := hpost.cancel hg hv1 hc1
      exact ih g.w hpost.wf hgdel (by omega) halwg
    | _ => exfalso; rcases hgood with ⟨p, h⟩ | h <;> rw [hg] at h <;> cases h

/-! ### a peer that keeps cancelling -/

theorem tick_cons_some (d : SelDev) (c : Change) (r : List (Option Change)) (h : d.evs = some c :: r) :
    tick d = { d with evs := r, valid := false, log := c.apply d.log } := by
  simp [tick, h]

/-- A script of 2·n cancellations (one before every request) costs get-and-clear n full rounds -
Reserve SEL, Get SEL Entry answered C5h - and what it ends with after them is the exhausted
recursion argument: RetryError for the repaired loop, out of fuel for the pinned `while True`
(whatever fuel `n` it is given, there is a script that uses it up). -/
theorem getAndClear_cancelled_rounds (v : Variant) (rid : Nat) (hrid : rid < 65536) :
    ∀ (n : Nat) (w : World SelDev), w.dev.evs = List.replicate (2 * n) (some .cancel) →
      (getAndClear stdCfg v respond n w rid).out = gacExhausted v ∧
      (getAndClear stdCfg v respond n w rid).w.trace.length = w.trace.length + 2 * n := by
  intro n
  induction n with
  | zero => intro w _; exact ⟨rfl, rfl⟩
  | succ n ih =>
    intro w hev
    have hev' : w.dev.evs = some .cancel :: some .cancel :: List.replicate (2 * n) (some .cancel) := by
      rw [hev, show 2 * (n + 1) = (2 * n + 1) + 1 by omega, List.replicate_succ, List.replicate_succ]
    have ht1 := tick_cons_some w.dev .cancel _ hev'
    unfold getAndClear
    simp only [reserve, xchg, respond_reserve]
    have hr1 : 1 ≤ (tick w.dev).cur % 0xFFFF + 1 := by omega
    have hr : (tick w.dev).cur % 0xFFFF + 1 < 65536 := by omega
    simp only [decodeU16_ok _ hr]
    generalize hrdef : (tick w.dev).cur % 0xFFFF + 1 = r at hr1 hr ⊢
    generalize hw1 : (⟨{ tick w.dev with cur := r, valid := true },
      w.trace ++ [⟨reserveReq, [0, r % 256, r / 256 % 256]⟩]⟩ : World SelDev) = w1
    have hevs1 : w1.dev.evs = some .cancel :: List.replicate (2 * n) (some .cancel) := by rw [← hw1, ht1]
    have hl1 : w1.trace.length = w.trace.length + 1 := by rw [← hw1]; simp
    have ht2 := tick_cons_some w1.dev .cancel _ hevs1
    have hh : holds (tick w1.dev) r = false := by rw [ht2]; simp [holds]
    have he : ((stdCfg.entire : Nat) : Int) = ((255 : Nat) : Int) := rfl
    simp only [getSelEntry, entryFuel, he]
    rw [entryLoop]
    simp only [xchg, wire_reqLen 255 0 (by omega) (by omega), List.length_nil,
      respond_get_cancel w1.dev r rid 0 (reqLenN 255 0) hr1 hr hrid (by omega) (by simp [reqLenN]) hh,
      ccCancelled, decodeGet_cc 197 (by decide), std_ccShrink, std_ccCancel,
      show (197 : Nat) = 202 ↔ False by decide, if_false, ne_eq, show ¬ (197 : Nat) = 0 by decide,
      not_false_eq_true, if_true]
    have hev2 : (tick w1.dev).evs = List.replicate (2 * n) (some .cancel) := by rw [ht2]
    constructor
    · refine (ih _ ?_).1
      exact hev2
    · refine Eq.trans (ih _ ?_).2 ?_
      · exact hev2
      · simp only [List.length_append, List.length_singleton, hl1]; omega

/-! ### the shape of a successful get-and-clear on the wire (any peer, any constants) -/

/-- `x` is a Get SEL Entry request for record `rid` carrying reservation `r`. -/
def IsGet (r rid : Nat) (x : Xchg) : Prop := ∃ off len, x.req = getReq r rid off len

theorem entryLoop_trace {σ} (cfg : Cfg) (v : Variant) (send : Send σ) (r rid : Nat) :
    ∀ (fuel : Nat) (w : World σ) (m : Int) (acc : List Nat),
      ∃ gets, (entryLoop cfg v send fuel w r rid m acc).w.trace = w.trace ++ gets ∧
        (∀ x ∈ gets, IsGet r rid x) ∧ (fuel ≠ 0 → gets ≠ []) := by
  intro fuel
  induction fuel with
  | zero =>
    intro w m acc
    exact ⟨[], (by simp [entryLoop]), (by intro x hx; cases hx), (by intro h; exact absurd rfl h)⟩
  | succ fuel ih =>
    intro w m acc
    unfold entryLoop
    dsimp only
    generalize hlen : wireByte (reqLen cfg m acc.length) = len
    have one : ∀ (rsp : List Nat), ∃ gets, (w.trace ++ [⟨getReq r rid acc.length len, rsp⟩]) = w.trace ++ gets ∧
        (∀ x ∈ gets, IsGet r rid x) ∧ (fuel + 1 ≠ 0 → gets ≠ []) := by
      intro rsp
      refine ⟨[⟨getReq r rid acc.length len, rsp⟩], rfl, ?_, by simp⟩
      intro x hx
      simp only [List.mem_singleton] at hx
      rw [hx]; exact ⟨_, _, rfl⟩
    have more : ∀ (m' : Int) (acc' : List Nat), ∃ gets,
        (entryLoop cfg v send fuel (xchg send w (getReq r rid acc.length len)).1 r rid m' acc').w.trace
          = w.trace ++ gets ∧ (∀ x ∈ gets, IsGet r rid x) ∧ (fuel + 1 ≠ 0 → gets ≠ []) := by
      intro m' acc'
      obtain ⟨gs, h1, h2, _⟩ := ih (xchg send w (getReq r rid acc.length len)).1 m' acc'
      refine ⟨⟨getReq r rid acc.length len, (xchg send w (getReq r rid acc.length len)).2⟩ :: gs, ?_, ?_, by simp⟩
      · rw [h1]; simp [xchg]
      · intro x hx
        simp only [List.mem_cons] at hx
        rcases hx with hx | hx
        · rw [hx]; exact ⟨_, _, rfl⟩
        · exact h2 x hx
    cases hdec : decodeGetRsp (xchg send w (getReq r rid acc.length len)).2 with
    | ok p =>
      obtain ⟨cc, next, data⟩ := p
      simp only
      split
      · split
        · exact more _ _
        · exact one _
      · split
        · exact one _
        · split
          · exact one _
          · split
            · exact one _
            · exact more _ _
    | _ => exact one _

/-- Whatever the peer does and whatever the constants are: a `get_and_clear_sel_entry` that returns
ends with  Reserve SEL → r,  one or more Get SEL Entry all carrying r,  Delete SEL Entry carrying r
(acknowledged) — the deletion is issued under the reservation of the read it follows, and no
other request comes in between. -/
theorem getAndClear_trace {σ} (cfg : Cfg) (v : Variant) (send : Send σ) (rid : Nat) :
    ∀ (fuel : Nat) (w : World σ) (e : List Nat), (getAndClear cfg v send fuel w rid).out = .ok e →
      ∃ pre rspR r gets rspD,
        (getAndClear cfg v send fuel w rid).w.trace =
          pre ++ ⟨reserveReq, rspR⟩ :: (gets ++ [⟨deleteReq r rid, rspD⟩]) ∧
        decodeU16Rsp rspR = .ok r ∧ (∀ x ∈ gets, IsGet r rid x) ∧ gets ≠ [] ∧
        ∃ v, decodeU16Rsp rspD = .ok v := by
  intro fuel
  induction fuel with
  | zero =>
    intro w e h
    simp only [getAndClear, gacExhausted] at h
    split at h <;> cases h
  | succ fuel ih =>
    intro w e
    unfold getAndClear
    simp only [reserve, deleteEntry, getSelEntry]
    generalize hx1 : xchg send w reserveReq = x1
    cases hres : decodeU16Rsp x1.2 with
    | ok res =>
      simp only
      obtain ⟨gets, hg1, hg2, hg3⟩ := entryLoop_trace cfg v send res rid entryFuel x1.1 (cfg.entire : Int) []
      generalize entryLoop cfg v send entryFuel x1.1 res rid (cfg.entire : Int) [] = g at hg1 ⊢
      cases hgo : g.out with
      | ok p =>
        obtain ⟨e', nx⟩ := p
        simp only
        generalize hx2 : xchg send g.w (deleteReq res rid) = x2
        cases hdel : decodeU16Rsp x2.2 with
        | ok v =>
          simp only
          intro _
          refine ⟨w.trace, x1.2, res, gets, x2.2, ?_, hres, hg2, hg3 (by simp [entryFuel]), v, hdel⟩
          rw [← hx2]; simp only [xchg]; rw [hg1, ← hx1]; simp [xchg]
        | ccError c =>
          simp only
          split
          · exact ih _ e
          · intro h; cases h
        | _ => intro h; simp [castErr] at h
      | ccError c =>
        simp only
        split
        · exact ih _ e
        · intro h; cases h
      | _ => intro h; simp [castErr] at h
    | _ => intro h; simp [castErr] at h

/-! ### record decoding (`SelEntry._from_response`) against the record formats of IPMI §32 -/

section decoding
open PyIpmi.Spec.SelRecord

theorem selEntry_decode (data : List Nat) (next : Nat) :
    selEntry data next = match decodeEntry data with
      | .ok a => .ok (a.data, next)
      | _ => .decodingError := by
  unfold selEntry decodeEntry
  split
  · rfl
  · dsimp only
    split <;> rfl

theorem decode_system (id ts gen evm st sn : Nat) (de : Bool) (et d1 d2 d3 : Nat)
    (h : (RecView.system id ts gen evm st sn de et d1 d2 d3).Wf) :
    decodeEntry (RecView.system id ts gen evm st sn de et d1 d2 d3).encode =
      .ok ⟨(RecView.system id ts gen evm st sn de et d1 d2 d3).encode, id, 2, ts, gen, evm, st, sn, de, et, [d1, d2, d3]⟩ := by
  obtain ⟨h1, h2, h3, h4, h5, h6, h7, h8, h9, h10⟩ := h
  simp only [RecView.encode, leBytes, decodeEntry, List.cons_append, List.nil_append, List.append_nil, List.length_cons,
    List.length_nil, ne_eq, not_true_eq_false, if_false, List.getD_cons_succ, List.getD_cons_zero, true_or, if_true,
    List.take, List.drop, leVal, Nat.reduceAdd]
  congr 1
  cases de <;> simp <;> refine ⟨?_, ?_, ?_, ?_, ?_⟩ <;> omega

theorem decode_oemTimestamped (id t ts mfg o1 o2 o3 o4 o5 o6 : Nat)
    (h : (RecView.oemTimestamped id t ts mfg [o1, o2, o3, o4, o5, o6]).Wf) :
    ∃ a, decodeEntry (RecView.oemTimestamped id t ts mfg [o1, o2, o3, o4, o5, o6]).encode = .ok a ∧
      a.data = (RecView.oemTimestamped id t ts mfg [o1, o2, o3, o4, o5, o6]).encode ∧
      a.recordId = id ∧ a.type = t ∧ a.timestamp = ts := by
  obtain ⟨h1, h2, h3, h4, h5, _, _⟩ := h
  have ht : t = 2 ∨ (0xC0 ≤ t ∧ t < 0x100) := Or.inr ⟨h2, by omega⟩
  simp only [RecView.encode, leBytes, decodeEntry, List.cons_append, List.nil_append, List.length_cons,
    List.length_nil, ne_eq, not_true_eq_false, if_false, List.getD_cons_succ, List.getD_cons_zero, ht, if_true,
    List.take, List.drop, leVal, Nat.reduceAdd]
  refine ⟨_, rfl, rfl, ?_, rfl, ?_⟩ <;> simp only [] <;> omega

theorem decode_oemPlain (id t o1 o2 o3 o4 o5 o6 o7 o8 o9 o10 o11 o12 o13 : Nat)
    (h : (RecView.oemPlain id t [o1, o2, o3, o4, o5, o6, o7, o8, o9, o10, o11, o12, o13]).Wf) :
    ∃ a, decodeEntry (RecView.oemPlain id t [o1, o2, o3, o4, o5, o6, o7, o8, o9, o10, o11, o12, o13]).encode = .ok a ∧
      a.data = (RecView.oemPlain id t [o1, o2, o3, o4, o5, o6, o7, o8, o9, o10, o11, o12, o13]).encode ∧
      a.recordId = id ∧ a.type = t := by
  obtain ⟨h1, h2, h3, _, _⟩ := h
  have ht : t = 2 ∨ (0xC0 ≤ t ∧ t < 0x100) := Or.inr ⟨by omega, by omega⟩
  simp only [RecView.encode, leBytes, decodeEntry, List.cons_append, List.nil_append, List.length_cons,
    List.length_nil, ne_eq, not_true_eq_false, if_false, List.getD_cons_succ, List.getD_cons_zero, ht, if_true,
    List.take, List.drop, leVal, Nat.reduceAdd]
  refine ⟨_, rfl, rfl, ?_, rfl⟩
  simp only []; omega

/-- what is accepted: 16 bytes of a known record type, kept as they are -/
theorem decode_strict (data : List Nat) (a : Entry) (h : decodeEntry data = .ok a) :
    data.length = 16 ∧ (data.getD 2 0 = 2 ∨ (0xC0 ≤ data.getD 2 0 ∧ data.getD 2 0 < 0x100)) ∧ a.data = data ∧
      a.type = data.getD 2 0 := by
  unfold decodeEntry at h
  split at h
  · cases h
  · dsimp only at h
    split at h
    · rename_i hl ht
      cases h
      exact ⟨by omega, ht, rfl, rfl⟩
    · cases h
end decoding

end PyIpmi.SelXfer
