/- C07 refinement lemmas, family 6b: FRU LED state (LedState._from_response / to_request) and E-Keying
   port state (pyipmi/picmg.py). -/
import PyIpmi.Lemmas.ApiBase
namespace PyIpmi.Lemmas.Api
open PyIpmi PyIpmi.Codec PyIpmi.Spec.Bmc PyIpmi.Model.Api PyIpmi.Gen.Tables

set_option maxRecDepth 4000
set_option linter.unusedSimpArgs false

/-- TABLE LAW (generated msgs/picmg.py constants): LED function byte coding of PICMG 3.0 table 3-29 -/
theorem led_constants_law :
    ledOff = 0 ∧ ledBlinkLo = 1 ∧ ledBlinkHi = 250 ∧ ledLampTest = 251 ∧ ledOn = 255 := by decide

/-- decoding a function byte / on-duration pair written by a conforming BMC -/
theorem ledFnOf_fmt (f : LedFn) (checkOn : Bool) (h : f.Wf checkOn) :
    ledFnOf (ledFnByte f) (ledOnByte f) checkOn = .ok f.view := by
  obtain ⟨c0, c1, c2, c3, c4⟩ := led_constants_law
  cases f with
  | off => simp [ledFnOf, ledFnByte, LedFn.view, c0]
  | on => simp [ledFnOf, ledFnByte, LedFn.view, c0, c4]
  | blink o n =>
    obtain ⟨h1, h2, h3⟩ := h
    have : o ≠ 0 := by omega
    have : o ≠ 255 := by omega
    cases checkOn with
    | false => simp [ledFnOf, ledFnByte, ledOnByte, LedFn.view, c0, c1, c2, c4, *]
    | true =>
      have := h3 rfl
      simp [ledFnOf, ledFnByte, ledOnByte, LedFn.view, c0, c1, c2, c4, *]

theorem get_led_state_refines (fru led : Nat) (s : BmcState) (h1 : fru < 256) (h2 : led < 256)
    (hw : (get_led fru led s).Wf) :
    (api_get_led_state fru led).run s = (s, .ok (.led (get_led_view fru led s))) := by
  generalize hx : get_led fru led s = x at hw
  obtain ⟨w1, w2⟩ := hw
  cases x with
  | mk localAvail overrideEn lampTestEn localFn localColor overrideFn overrideColor lampDur =>
  simp at w1 w2
  cases localAvail <;> cases overrideEn <;> cases lampTestEn <;>
  · simp [api_get_led_state, getLedState, api_eval, fmtLed, get_led_view, ledView, hx, b2n, n2b, Nat.mod_eq_of_lt,
      ledFnOf_fmt _ _ w1, ledFnOf_fmt _ _ w2, *]

theorem set_led_state_refines (fru led : Nat) (c : LedCmd) (s : BmcState) (h1 : fru < 256) (h2 : led < 256)
    (hc : c.InRange) :
    (api_set_led_state fru led c).run s = (set_led fru led c s, .ok .unit) := by
  obtain ⟨c0, c1, c2, c3, c4⟩ := led_constants_law
  cases c with
  | restoreLocal => exact absurd hc (by simp [LedCmd.InRange])
  | lampTest d color =>
    obtain ⟨h3, h4⟩ := hc
    have : d % 256 = d := by omega
    have : color % 256 = color := by omega
    simp [api_set_led_state, ledToRequest, api_eval, parseLedCmd, c3, Nat.mod_eq_of_lt, *]
  | override fn color =>
    cases fn with
    | off =>
      have h4 : color < 16 := hc
      simp [api_set_led_state, ledToRequest, api_eval, parseLedCmd, ledFnOfBytes, c0, Nat.mod_eq_of_lt, *]
    | on =>
      have h4 : color < 16 := hc
      simp [api_set_led_state, ledToRequest, api_eval, parseLedCmd, ledFnOfBytes, c4, Nat.mod_eq_of_lt, *]
    | blink o n =>
      obtain ⟨h3, h4, h5, h6⟩ := hc
      have : o ≠ 0 := by omega
      have : o ≠ 255 := by omega
      have : o ≠ 251 := by omega
      have : o ≠ 252 := by omega
      have : o % 256 = o := by omega
      simp [api_set_led_state, ledToRequest, api_eval, parseLedCmd, ledFnOfBytes, c1, c2, Nat.mod_eq_of_lt, *]

theorem set_port_state_refines (iface ch : Nat) (p : Port) (s : BmcState)
    (h : (Call.setPortState iface ch p).InRange) :
    (api_set_port_state iface ch p).run s = (set_port iface ch p s, .ok .unit) := by
  obtain ⟨h1, h2, h3, ⟨w1, w2, w3⟩, h4, h5⟩ := h
  cases p with
  | mk hasLink flags linkType ext grouping state =>
  simp at h3 w1 w2 w3 h4 h5
  subst h3
  have f1 : ∀ X, flags % 2 + 2 * (flags / 2 % 2 + 2 * (flags / 4 % 2 + 2 * (flags / 8 % 2 + 2 * X))) = flags + 16 * X := by
    intro X; omega
  have f2 : ∀ Y, linkType % 16 + 16 * (linkType / 16 % 16 + 16 * Y) = linkType + 256 * Y := by
    intro Y; omega
  simp [api_set_port_state, api_eval, parsePort, bitsOf, f1, f2, Nat.mod_eq_of_lt, *]
  generalize hW : ch + 64 * (iface + 4 * (flags + 16 * (linkType + 256 * (ext + 16 * grouping)))) = W
  have e1 : W % 256 / 64 % 4 = iface := by omega
  have e2 : W / 256 % 16 = flags := by omega
  have e3 : W / 256 % 256 / 16 % 16 + 16 * (W / 256 / 256 % 16) = linkType := by omega
  have e4 : W / 256 / 256 % 256 / 16 % 16 = ext := by omega
  have e5 : W / 256 / 256 / 256 % 256 = grouping := by omega
  simp [e1, e2, e3, e4, e5]

/-- the whole 8-bit link type in `link_descr.type`, INTENDED: the same request as with the type split into its
nibbles - the BMC holds exactly that link type -/
theorem set_port_state_type8_refines (iface ch : Nat) (p : Port) (s : BmcState)
    (h : (Call.setPortStateType8 iface ch p).InRange) :
    (api_set_port_state_type8 iface ch p).run s = (set_port iface ch p s, .ok .unit) := by
  have hl : p.linkType < 256 := h.2.2.2.1.linkType
  have e : api_set_port_state_type8 iface ch p = api_set_port_state iface ch p := by
    simp [api_set_port_state_type8, setPortState, api_set_port_state, Nat.mod_eq_of_lt hl]
  rw [e]; exact set_port_state_refines iface ch p s h

/-- AS SHIPPED: the 4-bit member `type` of the request cuts the link type to its low nibble and the signalling class
member stays 0 - the BMC is told about a link of type `linkType % 16` -/
theorem set_port_state_type8_shipped_run (iface ch : Nat) (p : Port) (s : BmcState)
    (h : (Call.setPortStateType8 iface ch p).InRange) :
    (api_set_port_state_type8_shipped iface ch p).run s =
      (set_port iface ch { p with linkType := p.linkType % 16 } s, .ok .unit) := by
  obtain ⟨h1, h2, h3, ⟨w1, w2, w3⟩, h4, h5⟩ := h
  cases p with
  | mk hasLink flags linkType ext grouping state =>
  simp at h3 w1 w2 w3 h4 h5
  subst h3
  have f1 : ∀ X, flags % 2 + 2 * (flags / 2 % 2 + 2 * (flags / 4 % 2 + 2 * (flags / 8 % 2 + 2 * X))) = flags + 16 * X := by
    intro X; omega
  simp [api_set_port_state_type8_shipped, setPortState, api_eval, parsePort, bitsOf, f1, Nat.mod_eq_of_lt, *]
  generalize hW : ch + 64 * (iface + 4 * (flags + 16 * (linkType % 16 + 16 * (16 * (ext + 16 * grouping))))) = W
  have e1 : W % 256 / 64 % 4 = iface := by omega
  have e2 : W / 256 % 16 = flags := by omega
  have e3 : W / 256 % 256 / 16 % 16 + 16 * (W / 256 / 256 % 16) = linkType % 16 := by omega
  have e4 : W / 256 / 256 % 256 / 16 % 16 = ext := by omega
  have e5 : W / 256 / 256 / 256 % 256 = grouping := by omega
  simp [e1, e2, e3, e4, e5]

theorem or_f0 (x : Nat) (h : x < 16) : x ||| 240 = x + 240 := by
  rw [Nat.or_comm, show (240 : Nat) = 2 ^ 4 * 15 from rfl, ← Nat.two_pow_add_eq_or_of_lt (by simpa using h) 15]; omega

/-- `type` / `sig_class` of the returned descriptor name the BMC's 8-bit link type the way `linkTypeAttrs` says:
nibbles for the PICMG 3.x types, the whole byte (TYPE_OEMx) and class 0 for an OEM type -/
theorem get_port_state_refines (ch iface : Nat) (s : BmcState) (h1 : ch < 64) (h2 : iface < 4)
    (hw : (get_port iface ch s).Wf) :
    (api_get_port_state ch iface).run s =
      (s, .ok (let p := get_port iface ch s
               .port (if p.hasLink then some { channel := ch, iface := iface, flags := p.flags,
                                               linkType := (linkTypeAttrs p.linkType).1, sigClass := (linkTypeAttrs p.linkType).2,
                                               ext := p.ext, grouping := p.grouping, state := p.state } else none))) := by
  have e1 : (ch % 64 + 64 * (iface % 4)) % 256 / 64 % 4 = iface := by omega
  have e2 : (ch % 64 + 64 * (iface % 4)) % 256 % 64 = ch := by omega
  generalize hp : get_port iface ch s = p at hw
  obtain ⟨w1, w2, w3⟩ := hw
  cases p with
  | mk hasLink flags linkType ext grouping state =>
  simp at w1 w2 w3
  cases hasLink
  · simp [api_get_port_state, getPortState, api_eval, bitsOf, fmtPort, e1, e2, hp]
  · have e3 : (linkType / 16 + 16 * ext) % 256 % 16 = linkType / 16 := by omega
    have e4 : (flags + 16 * (linkType % 16)) % 256 / 16 % 16 = linkType % 16 := by omega
    have e3' : linkType / 16 % 16 = linkType / 16 := by omega
    have e4' : (flags + 16 * (linkType % 16)) / 16 % 16 = linkType % 16 := by omega
    by_cases ho : linkType / 16 = 15
    · have e5 : linkType % 16 ||| 240 = linkType := by rw [or_f0 _ (by omega)]; omega
      simp [api_get_port_state, getPortState, api_eval, bitsOf, fmtPort, linkTypeAttrs, e1, e2, e3, e4, e3', e4', e5, hp, ho]
      bits_close
    · simp [api_get_port_state, getPortState, api_eval, bitsOf, fmtPort, linkTypeAttrs, e1, e2, e3, e4, e3', e4', hp, ho]
      bits_close

/-- AS SHIPPED: the nibbles, for every link type -/
theorem get_port_state_split_run (ch iface : Nat) (s : BmcState) (h1 : ch < 64) (h2 : iface < 4)
    (hw : (get_port iface ch s).Wf) (hl : (get_port iface ch s).hasLink = true) :
    (getPortState false ch iface true).run s =
      (s, .ok (let p := get_port iface ch s
               .port (some { channel := ch, iface := iface, flags := p.flags,
                             linkType := p.linkType % 16, sigClass := p.linkType / 16,
                             ext := p.ext, grouping := p.grouping, state := p.state }))) := by
  have e1 : (ch % 64 + 64 * (iface % 4)) % 256 / 64 % 4 = iface := by omega
  have e2 : (ch % 64 + 64 * (iface % 4)) % 256 % 64 = ch := by omega
  generalize hp : get_port iface ch s = p at hw hl
  obtain ⟨w1, w2, w3⟩ := hw
  cases p with
  | mk hasLink flags linkType ext grouping state =>
  simp at w1 w2 w3 hl
  subst hl
  have e3 : (linkType / 16 + 16 * ext) % 256 % 16 = linkType / 16 := by omega
  have e4 : (flags + 16 * (linkType % 16)) % 256 / 16 % 16 = linkType % 16 := by omega
  have e3' : linkType / 16 % 16 = linkType / 16 := by omega
  have e4' : (flags + 16 * (linkType % 16)) / 16 % 16 = linkType % 16 := by omega
  simp [getPortState, api_eval, bitsOf, fmtPort, e1, e2, e3, e4, e3', e4', hp]
  bits_close

end PyIpmi.Lemmas.Api
